-- Root of the `Fir` library: generated definitions, model, specs, proofs, property theorems.
import Fir.Generated.Prelude
import Fir.Generated.Alpha
import Fir.Generated.Clip
import Fir.Generated.Constify
import Fir.Generated.Threading
import Fir.Generated.Crop
import Fir.Generated.Pixels
import Fir.Generated.Lists
import Fir.Generated.Sizes
