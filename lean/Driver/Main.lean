/-
  firmodel - line-protocol driver of the executable Lean model.
  One request per line on stdin, one answer per line on stdout (see Fir/Model/Proto*.lean).
-/
import Fir.Model.ProtoAlpha
import Fir.Model.ProtoConvert
import Fir.Model.ProtoView
import Fir.Model.ProtoGeom
import Fir.Model.ProtoThreads
import Fir.Model.ProtoColor
import Fir.Model.ProtoFit
import Fir.Model.ProtoResize
import Fir.Model.ProtoAlphaView
import Fir.Model.ProtoOracles
import Fir.Model.ProtoCoeffs
import Fir.Model.ProtoKernel
open Fir

def handleLine (line : String) : String :=
  let line := line.trimAscii.toString
  match line.splitOn " " with
  | [] => "BAD-REQUEST empty"
  | cmd :: _ =>
    let fs := fieldsOf line
    -- a panic of the implementation is never an acceptable outcome (C03), except for custom kernels outside
    -- the documented head-room, which `resize` requests mark with guard=out
    let panicked := ((getField fs "got").getD "").startsWith "panic:" || ((getField fs "ref").getD "").startsWith "panic:"
    if panicked && getField fs "guard" != some "out" then
      "SPEC-FAIL the implementation panicked: " ++ (((getField fs "got").getD "").take 200).toString
    else
    match cmd with
    | "alpha" => handleAlpha fs
    | "alpha-reject" => handleAlphaReject fs
    | "table" => handleTable fs
    | "alphaview" => handleAlphaView fs
    | "opview" => handleOpView fs
    | "convert" => handleConvert fs
    | "convert-rt" => handleConvertRt fs
    | "convert-reject" => handleConvertReject fs
    | "split" => handleSplit fs
    | "split2" => handleSplit2 fs
    | "ccb" => handleCcb fs
    | "cropctor" => handleCropCtor fs
    | "cropf64" => handleCropF64 fs
    | "ctor" => handleCtor fs
    | "maxparts" => handleMaxParts fs
    | "threads" => handleThreads fs
    | "ctable" => handleCTable fs
    | "cmap" => handleCMap fs
    | "cmap-reject" => handleCMapReject fs
    | "fit" => handleFit fs
    | "resize" => handleResizeChecked fs
    | "coeffs" => handleCoeffs fs
    | "kernel" => handleKernel fs
    | "ping" => "OK pong"
    | _ => "BAD-REQUEST unknown command " ++ cmd

partial def loop (h : IO.FS.Stream) (out : IO.FS.Stream) : IO Unit := do
  let line ← h.getLine
  if line.isEmpty then return ()
  out.putStrLn (handleLine line)
  loop h out

def main : IO Unit := do
  let stdin ← IO.getStdin
  let stdout ← IO.getStdout
  loop stdin stdout
  stdout.flush
