import Fir.Props.C14
#print axioms Fir.C14.splitSizes_length
#print axioms Fir.C14.splitSizes_sum
#print axioms Fir.C14.splitSizes_differ_by_at_most_one
#print axioms Fir.C14.splitSizes_pos
#print axioms Fir.C14.splitH_none_iff
#print axioms Fir.C14.splitW_none_iff
#print axioms Fir.C14.splitH_tiles
#print axioms Fir.C14.splitW_tiles
#print axioms Fir.C14.idx_nodup
#print axioms Fir.C14.splitH_parts_disjoint
#print axioms Fir.C14.splitW_parts_disjoint
#print axioms Fir.C14.splitH_parts_subset
#print axioms Fir.C14.split_of_split
