import Fir.Props.C11
#print axioms Fir.C11.nearest_in_bounds
#print axioms Fir.C11.nearest_copy
#print axioms Fir.C11.nearest_dims
#print axioms Fir.C11.nearest_no_alpha
#print axioms Fir.C11.row_cursor_eq_direct
#print axioms Fir.C11.requested_rows_sorted
#print axioms Fir.C11.ideal_pixel_under_centre
#print axioms Fir.C11.ideal_in_bounds
#print axioms Fir.C11.ideal_mono
#print axioms Fir.C11.ideal_integer_upscale
#print axioms Fir.C11.ideal_odd_downscale
#print axioms Fir.C11.requested_rows_sorted_ieee
