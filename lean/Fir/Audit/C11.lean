import Fir.Props.C11
#print axioms Fir.C11.nearest_in_bounds
#print axioms Fir.C11.nearest_copy
#print axioms Fir.C11.nearest_dims
#print axioms Fir.C11.nearest_no_alpha
