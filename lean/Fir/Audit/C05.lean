import Fir.Props.C05
#print axioms Fir.C05.inject_outside_unchanged
#print axioms Fir.C05.inject_size
#print axioms Fir.C05.inject_inside_assigned
#print axioms Fir.C05.error_leaves_destination
#print axioms Fir.C05.zero_size_leaves_destination
#print axioms Fir.C05.convolution_overwrites_everything
#print axioms Fir.C05.nearest_overwrites_everything
#print axioms Fir.C05.pass_sizes
