import Fir.Props.C01
#print axioms Fir.C01.pass_round_nearest_u8
#print axioms Fir.C01.pass_round_nearest_u16
#print axioms Fir.C01.pass_err
#print axioms Fir.C01.clamp_lipschitz
#print axioms Fir.C01.two_pass_err
#print axioms Fir.C01.passInt_err_u8
#print axioms Fir.C01.passInt_err_u16
#print axioms Fir.C01.horizPass_err_u8
#print axioms Fir.C01.vertPass_err_u8
#print axioms Fir.C01.supersampling_is_conv_of_nearest
#print axioms Fir.C01.documented_constants
