import Fir.Props.C10
#print axioms Fir.C10.dot_uniform
#print axioms Fir.C10.uniform_exact_u8
#print axioms Fir.C10.uniform_exact_u16
#print axioms Fir.C10.quantOK_of_sum_close
#print axioms Fir.C10.uniform_two_pass
#print axioms Fir.C10.quantOK_fails_at_13678_taps
#print axioms Fir.C10.quantOK_of_rounded_weights
#print axioms Fir.C10.uniform_exact_u8_of_rounded_weights
#print axioms Fir.C10.horizPass_uniform_u8
#print axioms Fir.C10.vertPass_uniform_u8
#print axioms Fir.C10.horizPass_uniform_u16
#print axioms Fir.C10.vertPass_uniform_u16
