import Fir.Props.C18
#print axioms Fir.C18.dot_monotone
#print axioms Fir.C18.pass_monotone_u8
#print axioms Fir.C18.pass_monotone_u16
#print axioms Fir.C18.range_from_uniform_u8
#print axioms Fir.C18.madd_epi16_exact
#print axioms Fir.C18.accOK8_of_abs_sum
#print axioms Fir.C18.accOK16_of_abs_sum
#print axioms Fir.C18.horizPass_monotone_u8
#print axioms Fir.C18.vertPass_monotone_u8
#print axioms Fir.C18.horizPass_monotone_u16
#print axioms Fir.C18.vertPass_monotone_u16
#print axioms Fir.C18.twoPass_monotone_u8
#print axioms Fir.C18.qBox_nonneg
#print axioms Fir.C18.qBilinear_nonneg
#print axioms Fir.C18.idealWeights_nonneg_box
#print axioms Fir.C18.idealWeights_nonneg_bilinear
#print axioms Fir.C18.convex_combination_range
