import Fir.Props.C12
#print axioms Fir.C12.copyImage_some_iff
#print axioms Fir.C12.copyImage_is_copy
#print axioms Fir.C12.copyPass_get
#print axioms Fir.C12.same_size_is_copy
#print axioms Fir.C12.same_size_is_copy_nocrop
#print axioms Fir.C12.one_dim_no_resample
#print axioms Fir.C12.vertPass_column_local
#print axioms Fir.C12.ss_internal_same_size
