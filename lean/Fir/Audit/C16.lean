import Fir.Props.C16
#print axioms Fir.C16.all_tables_ok
#print axioms Fir.C16.table_sizes
#print axioms Fir.C16.tables_monotone
#print axioms Fir.C16.tables_endpoints
#print axioms Fir.C16.srgb_roundtrip_8_16_8
#print axioms Fir.C16.color_sources_as_modelled
#print axioms Fir.C16.gap_positions
#print axioms Fir.C16.no_gap_without_alpha
#print axioms Fir.C16.mapper_rows
