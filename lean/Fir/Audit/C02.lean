import Fir.Props.C02
#print axioms Fir.C02.dot_append
#print axioms Fir.C02.dotChunked_eq_dot
#print axioms Fir.C02.partial_sums_perm
#print axioms Fir.C02.wrap_add
#print axioms Fir.C02.clip_table_eq_packs
#print axioms Fir.C02.clip16_eq_clamp
