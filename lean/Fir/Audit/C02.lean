import Fir.Props.C02
#print axioms Fir.C02.dot_append
#print axioms Fir.C02.dotChunked_eq_dot
#print axioms Fir.C02.partial_sums_perm
#print axioms Fir.C02.wrap_add
#print axioms Fir.C02.clip_table_eq_packs
#print axioms Fir.C02.clip16_eq_clamp
#print axioms Fir.C02.simd_div8_all
#print axioms Fir.C02.simd_div8_eq
#print axioms Fir.C02.simd_div16_faithful
#print axioms Fir.C02.simd_div16_within_one
#print axioms Fir.C02.simd_div16_zero_alpha
#print axioms Fir.C02.simd_div16_source_as_modelled
#print axioms Fir.C02.reassoc_err
#print axioms Fir.C02.native_loop_is_comb
#print axioms Fir.C02.simd_div8_source_as_modelled
