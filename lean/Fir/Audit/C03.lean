import Fir.Props.C03
#print axioms Fir.C03.window_in_source
#print axioms Fir.C03.window_nonempty
#print axioms Fir.C03.temp_image_fits
#print axioms Fir.C03.shift_bounds_same_samples
#print axioms Fir.C03.clip_index_in_table
#print axioms Fir.C03.clip32_total
#print axioms Fir.C03.precision_lt_bits
#print axioms Fir.C03.precision_ge_one
#print axioms Fir.C03.precision_in_arms
#print axioms Fir.C03.xmin_le_xmax
#print axioms Fir.C03.span_le_window
#print axioms Fir.C03.window_size_le_in_size
#print axioms Fir.C03.idealGeom_in_source
#print axioms Fir.C03.sample_index_lt
#print axioms Fir.C03.two_pass_reads_in_bounds
#print axioms Fir.C03.doConvolution_temp_reads_in_bounds
#print axioms Fir.C03.window_ieee
