import Fir.Props.C07
#print axioms Fir.C07.mul_div_255_zero
#print axioms Fir.C07.mul_div_65535_zero
#print axioms Fir.C07.zero_alpha_zero_colour
#print axioms Fir.C07.premul_congr
#print axioms Fir.C07.resize_alpha_congr
#print axioms Fir.C07.alpha_gate
#print axioms Fir.C07.alpha_channel_untouched_by_muldiv
#print axioms Fir.C07.opaque_premul_id
#print axioms Fir.C07.opaque_div_id
#print axioms Fir.C07.opaque_premul_id16
#print axioms Fir.C07.opaque_div_id16
#print axioms Fir.C07.divPixels_zero_alpha
#print axioms Fir.C07.resampleConvolution_zero_alpha_zero_colour
#print axioms Fir.C07.mulPixels_opaque
#print axioms Fir.C07.divPixels_opaque
#print axioms Fir.C07.resampleConvolution_opaque_noop
