import Fir.Props.C13
#print axioms Fir.C13.extract_dims
#print axioms Fir.C13.extract_depends_on_view_only
#print axioms Fir.C13.extract_inject
#print axioms Fir.C13.op_layout_independent
