import Fir.Props.C09
#print axioms Fir.C09.resize_state_independent
#print axioms Fir.C09.history_independent
#print axioms Fir.C09.buffers_grow
#print axioms Fir.C09.scratch_fully_overwritten
#print axioms Fir.C09.temp_buffer_slice_ok
