import Fir.Props.C06
#print axioms Fir.C06.mul_div_255_exact
#print axioms Fir.C06.mul_div_65535_exact
#print axioms Fir.C06.recip_alpha_is_round
#print axioms Fir.C06.recip_alpha16_is_round
#print axioms Fir.C06.div8_all
#print axioms Fir.C06.div8_faithful
#print axioms Fir.C06.sat_transparent
#print axioms Fir.C06.div16_faithful
#print axioms Fir.C06.div16_no_overflow
#print axioms Fir.C06.unsupported_rejected
#print axioms Fir.C06.alpha_unchanged
#print axioms Fir.C06.mulPixels_u8_exact
#print axioms Fir.C06.divPixels_u16_faithful
