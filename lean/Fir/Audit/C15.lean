import Fir.Props.C15
#print axioms Fir.C15.fitQ_inside
#print axioms Fir.C15.fitQ_aspect
#print axioms Fir.C15.fitQ_spans
#print axioms Fir.C15.fitQ_centering
#print axioms Fir.C15.fitQ_aspect_exact
#print axioms Fir.C15.fitF_spans
#print axioms Fir.C15.fitF_origin
#print axioms Fir.C15.fitF_centering_zero
#print axioms Fir.C15.fit_source_as_modelled
#print axioms Fir.C15.fitF_origin_ieee
