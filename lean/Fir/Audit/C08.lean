import Fir.Props.C08
#print axioms Fir.C08.max_h_parts_total
#print axioms Fir.C08.max_v_parts_total
#print axioms Fir.C08.split_precondition
#print axioms Fir.C08.writes_perm_invariant
#print axioms Fir.C08.schedule_independent
#print axioms Fir.C08.banded_rows_eq_sequential
#print axioms Fir.C08.banded_cols_aligned
#print axioms Fir.C08.banded_cols_perm
#print axioms Fir.C08.banded_cols_eq_sequential
