import Fir.Props.C04
#print axioms Fir.C04.check_crop_box_iff
#print axioms Fir.C04.check_crop_box_eq_cropValid
#print axioms Fir.C04.ctor_size_iff
#print axioms Fir.C04.ctor_count_iff
#print axioms Fir.C04.crop_steps_as_modelled
#print axioms Fir.C04.cropCheck_zero
#print axioms Fir.C04.crop_f64_iff
#print axioms Fir.C04.accepted_view_rows
#print axioms Fir.C04.accepted_view_inside_parent
