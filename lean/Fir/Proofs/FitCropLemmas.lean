import Fir.Spec.FitCrop
import Mathlib.Tactic.Positivity
namespace Fir.Proofs
open Fir.Spec
set_option linter.unusedVariables false

theorem clamp_nonneg (c : ℚ) : 0 ≤ max 0 (min c 1) := le_max_left _ _

theorem clamp_le_one (c : ℚ) : max 0 (min c 1) ≤ 1 := max_le zero_le_one (min_le_right _ _)

/-- margin * clamp lies in [0, margin] -/
theorem margin_bounds (m c : ℚ) (hm : 0 ≤ m) :
    0 ≤ m * max 0 (min c 1) ∧ m * max 0 (min c 1) ≤ m :=
  ⟨mul_nonneg hm (clamp_nonneg c), mul_le_of_le_one_right hm (clamp_le_one c)⟩

theorem fitQ_inside (eps sw sh dw dh cx cy : ℚ) (he : 0 ≤ eps) (hsw : 0 < sw) (hsh : 0 < sh) (hdw : 0 < dw) (hdh : 0 < dh) :
    let b := fitQ eps sw sh dw dh cx cy
    0 ≤ b.1 ∧ b.1 + b.2.2.1 ≤ sw ∧ 0 ≤ b.2.1 ∧ b.2.1 + b.2.2.2 ≤ sh ∧ 0 < b.2.2.1 ∧ 0 < b.2.2.2 := by
  intro b
  have hrr : 0 < dw / dh := div_pos hdw hdh
  simp only [b, fitQ]
  split_ifs with h1 h2
  · simp only [sub_self, zero_mul, zero_add, le_refl, true_and]
    exact ⟨hsw, hsh⟩
  · have hle : dw / dh * sh ≤ sw := (le_div_iff₀ hsh).mp h2
    obtain ⟨a1, a2⟩ := margin_bounds (sw - dw / dh * sh) cx (by linarith)
    simp only [sub_self, zero_mul, zero_add, le_refl, true_and]
    exact ⟨a1, by linarith, mul_pos hrr hsh, hsh⟩
  · have hlt : sw / sh < dw / dh := not_le.mp h2
    have h3 : sw < dw / dh * sh := (div_lt_iff₀ hsh).mp hlt
    have hle : sw / (dw / dh) ≤ sh := by
      rw [div_le_iff₀ hrr]; linarith
    obtain ⟨a1, a2⟩ := margin_bounds (sh - sw / (dw / dh)) cy (by linarith)
    simp only [sub_self, zero_mul, zero_add, le_refl, true_and]
    exact ⟨a1, by linarith, hsw, div_pos hsw hrr⟩

theorem fitQ_aspect (eps sw sh dw dh cx cy : ℚ) (he : 0 ≤ eps) (hsw : 0 < sw) (hsh : 0 < sh) (hdw : 0 < dw) (hdh : 0 < dh) :
    let b := fitQ eps sw sh dw dh cx cy
    b.2.2.1 / b.2.2.2 = dw / dh ∨ (|sw / sh - dw / dh| < eps ∧ b.2.2.1 = sw ∧ b.2.2.2 = sh) := by
  intro b
  have hrr : 0 < dw / dh := div_pos hdw hdh
  simp only [b, fitQ]
  split_ifs with h1 h2
  · exact Or.inr ⟨h1, rfl, rfl⟩
  · left
    exact mul_div_cancel_right₀ _ hsh.ne'
  · left
    have hdw' := hdw.ne'
    have hdh' := hdh.ne'
    have hsw' := hsw.ne'
    field_simp

theorem fitQ_spans (eps sw sh dw dh cx cy : ℚ) (hsw : 0 < sw) (hsh : 0 < sh) (hdw : 0 < dw) (hdh : 0 < dh) :
    let b := fitQ eps sw sh dw dh cx cy
    b.2.2.1 = sw ∨ b.2.2.2 = sh := by
  intro b
  simp only [b, fitQ]
  split_ifs with h1 h2
  · exact Or.inl rfl
  · exact Or.inr rfl
  · exact Or.inl rfl

theorem fitQ_centering (eps sw sh dw dh cx cy : ℚ) :
    let b := fitQ eps sw sh dw dh cx cy
    b.1 = (sw - b.2.2.1) * max 0 (min cx 1) ∧ b.2.1 = (sh - b.2.2.2) * max 0 (min cy 1) := by
  intro b
  exact ⟨rfl, rfl⟩

end Fir.Proofs
