/-
  Fir.Proofs.ErrLemmas - rational error bounds behind C01: one pass against ideal real weights,
  the clamp is 1-Lipschitz, propagation of a first-pass error through a second pass.
-/
import Fir.Model.Resample
import Fir.Proofs.FixedLemmas
import Mathlib.Data.Rat.Cast.Order
import Mathlib.Algebra.Order.Field.Basic
import Mathlib.Tactic.Linarith
import Mathlib.Tactic.Ring
import Mathlib.Tactic.Positivity
import Mathlib.Tactic.FieldSimp
import Mathlib.Tactic.NormNum
namespace Fir.Proofs
open Fir

/-- coefficient quantisation: with every integer coefficient within 1/2 of `wᵢ·P` and every sample
    bounded by `m`, the exact integer dot product is within `n·m/2` of `P·Σwᵢxᵢ` -/
theorem dot_quant_err (ws : List ℚ) (ks xs : List Int) (P m : ℚ)
    (hlen : ks.length = ws.length) (hlen2 : xs.length = ws.length)
    (hq : ∀ i, i < ws.length → |(ks.getD i 0 : ℚ) - ws.getD i 0 * P| ≤ 1 / 2)
    (hx : ∀ x ∈ xs, |(x : ℚ)| ≤ m) :
    |((dotL ks xs : Int) : ℚ) - P * (List.zipWith (fun (w : ℚ) (x : Int) => w * (x : ℚ)) ws xs).sum|
      ≤ (ws.length : ℚ) * m / 2 := by
  induction ws generalizing ks xs with
  | nil =>
    simp [dotL_nil_right, List.length_eq_zero_iff.mp hlen2]
  | cons w ws ih =>
    cases ks with
    | nil => simp at hlen
    | cons k ks =>
      cases xs with
      | nil => simp at hlen2
      | cons x xs =>
        have hk : |(k : ℚ) - w * P| ≤ 1 / 2 := by simpa using hq 0 (by simp)
        have hxm : |(x : ℚ)| ≤ m := hx x (List.mem_cons_self ..)
        have ih' := ih ks xs (by simpa using hlen) (by simpa using hlen2)
          (fun i hi => by simpa using hq (i + 1) (by simpa using hi))
          (fun x' hx' => hx x' (List.mem_cons_of_mem _ hx'))
        rw [dotL_cons]
        simp only [List.zipWith_cons_cons, List.sum_cons, List.length_cons]
        push_cast
        have h1 : |((k : ℚ) - w * P) * (x : ℚ)| ≤ 1 / 2 * m := by
          rw [abs_mul]
          exact mul_le_mul hk hxm (abs_nonneg _) (by norm_num)
        have heq : (k : ℚ) * x + ((dotL ks xs : Int) : ℚ)
              - P * (w * x + (List.zipWith (fun (w : ℚ) (x : Int) => w * (x : ℚ)) ws xs).sum)
            = ((k : ℚ) - w * P) * x
              + (((dotL ks xs : Int) : ℚ) - P * (List.zipWith (fun (w : ℚ) (x : Int) => w * (x : ℚ)) ws xs).sum) := by
          ring
        rw [heq]
        refine (abs_add_le _ _).trans ?_
        linarith

/-- one pass against the ideal weights -/
theorem pass_err (ws : List ℚ) (ks xs : List Int) (p : Nat) (hp1 : 1 ≤ p) (m : ℚ)
    (hlen : ks.length = ws.length) (hlen2 : xs.length = ws.length)
    (hq : ∀ i, i < ws.length → |(ks.getD i 0 : ℚ) - ws.getD i 0 * 2 ^ p| ≤ 1 / 2)
    (hx : ∀ x ∈ xs, |(x : ℚ)| ≤ m) :
    |(((2 ^ (p - 1) + dotL ks xs) / 2 ^ p : Int) : ℚ)
        - (List.zipWith (fun (w : ℚ) (x : Int) => w * (x : ℚ)) ws xs).sum|
      ≤ 1 / 2 + (ws.length : ℚ) * m / 2 ^ (p + 1) := by
  have hr := round_nearest (dotL ks xs) p hp1
  have hH := pow2_pred p hp1
  have hd := dot_quant_err ws ks xs (2 ^ p) m hlen hlen2 hq hx
  generalize (List.zipWith (fun (w : ℚ) (x : Int) => w * (x : ℚ)) ws xs).sum = S at *
  generalize ((2 : Int) ^ (p - 1) + dotL ks xs) / 2 ^ p = y at *
  generalize dotL ks xs = a at *
  obtain ⟨hr1, hr2⟩ := hr
  have hHq : ((2 : ℚ) ^ p) = 2 * 2 ^ (p - 1) := by exact_mod_cast hH
  have hHpos : (0 : ℚ) < 2 ^ (p - 1) := by positivity
  have hPpos : (0 : ℚ) < 2 ^ p := by positivity
  have c1 : (2 : ℚ) ^ p * (y : ℚ) - (a : ℚ) ≤ 2 ^ (p - 1) := by exact_mod_cast hr1
  have c2 : (a : ℚ) - (2 : ℚ) ^ p * (y : ℚ) < 2 ^ (p - 1) := by exact_mod_cast hr2
  rw [pow_succ]
  generalize (2 : ℚ) ^ (p - 1) = H at *
  generalize (2 : ℚ) ^ p = P at *
  subst hHq
  have hn : (ws.length : ℚ) * m / (2 * H * 2) = ((ws.length : ℚ) * m / 2) / (2 * H) := by
    field_simp
  rw [hn]
  generalize (ws.length : ℚ) * m / 2 = E at *
  have hd' := abs_le.mp hd
  have hE : E / (2 * H) * (2 * H) = E := by field_simp
  rw [abs_le]
  constructor
  · have : (-(1 / 2 + E / (2 * H))) * (2 * H) ≤ ((y : ℚ) - S) * (2 * H) := by
      have : (1 / 2 + E / (2 * H)) * (2 * H) = H + E := by rw [add_mul, hE]; ring
      nlinarith
    exact le_of_mul_le_mul_right this (by positivity)
  · have : ((y : ℚ) - S) * (2 * H) ≤ (1 / 2 + E / (2 * H)) * (2 * H) := by
      have : (1 / 2 + E / (2 * H)) * (2 * H) = H + E := by rw [add_mul, hE]; ring
      nlinarith
    exact le_of_mul_le_mul_right this (by positivity)

/-- clamping is 1-Lipschitz -/
theorem clamp_lipschitz (lo hi : ℚ) (hlh : lo ≤ hi) (a b : ℚ) :
    |max lo (min hi a) - max lo (min hi b)| ≤ |a - b| := by
  have h1 := le_abs_self (a - b)
  have h2 := neg_abs_le (a - b)
  have h3 := abs_nonneg (a - b)
  rw [abs_le]
  simp only [max_def, min_def]
  split_ifs <;> constructor <;> linarith

/-- a pointwise error `e` of the inputs of a pass is amplified by at most `Σ|wᵢ|` -/
theorem two_pass_err (ws : List ℚ) (xs ys : List ℚ) (e : ℚ) (hlen : xs.length = ws.length)
    (hlen2 : ys.length = ws.length)
    (hxy : ∀ i, i < ws.length → |xs.getD i 0 - ys.getD i 0| ≤ e) :
    |(List.zipWith (· * ·) ws xs).sum - (List.zipWith (· * ·) ws ys).sum|
      ≤ (ws.map (|·|)).sum * e := by
  induction ws generalizing xs ys with
  | nil => simp
  | cons w ws ih =>
    cases xs with
    | nil => simp at hlen
    | cons x xs =>
      cases ys with
      | nil => simp at hlen2
      | cons y ys =>
        have h0 : |x - y| ≤ e := by simpa using hxy 0 (by simp)
        have ih' := ih xs ys (by simpa using hlen) (by simpa using hlen2)
          (fun i hi => by simpa using hxy (i + 1) (by simpa using hi))
        simp only [List.zipWith_cons_cons, List.sum_cons, List.map_cons]
        have heq : w * x + (List.zipWith (· * ·) ws xs).sum - (w * y + (List.zipWith (· * ·) ws ys).sum)
            = w * (x - y) + ((List.zipWith (· * ·) ws xs).sum - (List.zipWith (· * ·) ws ys).sum) := by
          ring
        rw [heq]
        refine (abs_add_le _ _).trans ?_
        rw [abs_mul, add_mul]
        have h1 : |w| * |x - y| ≤ |w| * e := mul_le_mul_of_nonneg_left h0 (abs_nonneg w)
        linarith

end Fir.Proofs
