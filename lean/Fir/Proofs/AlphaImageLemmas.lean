/-
  Fir.Proofs.AlphaImageLemmas - C07 on whole images of the executable model: in the result of the
  alpha-aware convolution a pixel whose resampled alpha is zero has zero colour, and for a fully opaque
  source whose resampled alpha stays opaque the alpha-aware result equals the plain one.
-/
import Fir.Model.Resizer
import Fir.Proofs.AlphaLemmas
import Fir.Proofs.StructLemmas
namespace Fir.Proofs
open Fir Fir.Gen

/-- component `i` of `mapAlphaPixels`: alpha positions are copied, colour positions get `f colour alpha` -/
theorem mapAlphaPixels_getElem! (n : Nat) (f : Int → Int → Int) (px : Array Int) (i : Nat) (hi : i < px.size) :
    (mapAlphaPixels n f px)[i]! =
      if i % n = n - 1 then px[i]! else f px[i]! px[i - i % n + (n - 1)]! := by
  have hi' : i < (mapAlphaPixels n f px).size := by rw [mapAlphaPixels_size]; exact hi
  rw [getElem!_pos _ i hi', getElem!_pos px i hi]
  exact mapAlphaPixels_getElem n f px i hi

/-! ### helper facts about the translated arithmetic -/

/-- dividing by alpha 0 gives 0 at both integer depths (translated code; any colour value) -/
theorem divComp_zero (k : CKind) (hk : k = .u8 ∨ k = .u16) (c : Int) : divComp k c 0 = 0 := by
  rcases hk with h | h <;> subst h <;>
    simp [divComp, div_and_clip, recip_alpha, div_and_clip16, recip_alpha16]

theorem mul_div_255_opaque (c : Nat) (hc : c < 256) : mul_div_255 c 255 = c := by
  have h := (Fir.C06.mul_div_255_exact c 255 hc (by omega)).1
  rw [h]; unfold Fir.Spec.mulExact; omega

theorem div_and_clip_opaque (c : Nat) (hc : c < 256) : div_and_clip c (recip_alpha 255) = c := by
  have h := (Fir.C06.div8_faithful c 255 hc (by omega)).2
  unfold Fir.Spec.divFaithful at h
  simp only [show (255 : Nat) ≠ 0 by omega, if_false] at h
  have e1 : c * 255 / 255 = c := by omega
  have e2 : (c * 255 + 255 - 1) / 255 = c := by omega
  rw [e1, e2] at h
  omega

theorem mul_div_65535_opaque (c : Nat) (hc : c < 65536) : mul_div_65535 c 65535 = c := by
  have h := (Fir.C06.mul_div_65535_exact c 65535 hc (by omega)).1
  rw [h]; unfold Fir.Spec.mulExact; omega

theorem div_and_clip16_opaque (c : Nat) (hc : c < 65536) : div_and_clip16 c (recip_alpha16 65535) = c := by
  have h := Fir.C06.div16_faithful c 65535 hc (by omega)
  unfold Fir.Spec.divFaithful at h
  simp only [show (65535 : Nat) ≠ 0 by omega, if_false] at h
  have e1 : c * 65535 / 65535 = c := by omega
  have e2 : (c * 65535 + 65535 - 1) / 65535 = c := by omega
  rw [e1, e2] at h
  omega

/-- multiplying an in-range colour by the maximal alpha is the identity -/
theorem mulComp_opaque (k : CKind) (hk : k = .u8 ∨ k = .u16) (c : Int) (h0 : 0 ≤ c) (h1 : c ≤ k.maxVal) :
    mulComp k c k.maxVal = c := by
  rcases hk with h | h <;> subst h <;> simp only [CKind.maxVal] at h1 ⊢
  · show ((mul_div_255 c.toNat (255 : Int).toNat : Nat) : Int) = c
    have e : (255 : Int).toNat = 255 := rfl
    rw [e, mul_div_255_opaque _ (by omega)]; omega
  · show ((mul_div_65535 c.toNat (65535 : Int).toNat : Nat) : Int) = c
    have e : (65535 : Int).toNat = 65535 := rfl
    rw [e, mul_div_65535_opaque _ (by omega)]; omega

/-- dividing an in-range colour by the maximal alpha is the identity -/
theorem divComp_opaque (k : CKind) (hk : k = .u8 ∨ k = .u16) (c : Int) (h0 : 0 ≤ c) (h1 : c ≤ k.maxVal) :
    divComp k c k.maxVal = c := by
  rcases hk with h | h <;> subst h <;> simp only [CKind.maxVal] at h1 ⊢
  · show ((div_and_clip c.toNat (recip_alpha (255 : Int).toNat) : Nat) : Int) = c
    have e : (255 : Int).toNat = 255 := rfl
    rw [e, div_and_clip_opaque _ (by omega)]; omega
  · show ((div_and_clip16 c.toNat (recip_alpha16 (65535 : Int).toNat) : Nat) : Int) = c
    have e : (65535 : Int).toNat = 65535 := rfl
    rw [e, div_and_clip16_opaque _ (by omega)]; omega

/-- the alpha index of a colour position lies inside an array made of whole pixels, and is an alpha position -/
theorem alpha_index_lt {n sz i : Nat} (hn : 1 ≤ n) (hwhole : sz % n = 0) (hi : i < sz) :
    i - i % n + (n - 1) < sz ∧ (i - i % n + (n - 1)) % n = n - 1 := by
  have hdvd : i - i % n = n * (i / n) := by
    have := Nat.div_add_mod i n
    omega
  have hsz : sz = n * (sz / n) := by
    have := Nat.div_add_mod sz n
    omega
  constructor
  · rw [hdvd]
    have hlt : i / n < sz / n := by
      apply Nat.div_lt_of_lt_mul
      rw [← hsz]; exact hi
    have : n * (i / n + 1) ≤ n * (sz / n) := Nat.mul_le_mul_left n hlt
    rw [Nat.mul_add, Nat.mul_one] at this
    omega
  · rw [hdvd, Nat.mul_add_mod]
    exact Nat.mod_eq_of_lt (by omega)

/-- a per-component map that is the identity on (in-range colour, maximal alpha) leaves a fully opaque
    array unchanged -/
theorem mapAlphaPixels_opaque (n : Nat) (f : Int → Int → Int) (m : Int) (hn : 1 ≤ n) (px : Array Int)
    (hf : ∀ c, 0 ≤ c → c ≤ m → f c m = c)
    (hrange : ∀ i, i < px.size → 0 ≤ px[i]! ∧ px[i]! ≤ m)
    (hopaque : ∀ i, i < px.size → i % n = n - 1 → px[i]! = m)
    (hwhole : px.size % n = 0) :
    mapAlphaPixels n f px = px := by
  apply Array.ext
  · rw [mapAlphaPixels_size]
  · intro i h1 h2
    rw [mapAlphaPixels_getElem _ _ px i h2]
    by_cases hl : i % n = n - 1
    · rw [if_pos hl]
    · rw [if_neg hl]
      obtain ⟨hb, hm⟩ := alpha_index_lt hn hwhole h2
      rw [hopaque _ hb hm]
      have hr := hrange i h2
      rw [getElem!_pos px i h2] at hr
      exact hf _ hr.1 hr.2

/-- dividing: every colour component of a pixel whose alpha is 0 becomes 0 (8 / 16 bit) -/
theorem divPixels_zero_alpha (p : PixT) (hk : p.kind = .u8 ∨ p.kind = .u16) (hn : 2 ≤ p.n) (px : Array Int)
    (q c : Nat) (hq : q * p.n + (p.n - 1) < px.size) (hc : c < p.n - 1)
    (ha : px[q * p.n + (p.n - 1)]! = 0) :
    (divPixels p px)[q * p.n + c]! = 0 := by
  unfold divPixels
  have hi : q * p.n + c < px.size := by omega
  have hmod : (q * p.n + c) % p.n = c := mul_add_mod (by omega)
  rw [mapAlphaPixels_getElem! _ _ px _ hi, hmod, if_neg (by omega)]
  have hidx : q * p.n + c - c + (p.n - 1) = q * p.n + (p.n - 1) := by omega
  rw [hidx, ha]
  exact divComp_zero _ hk _

/-- C07, second clause, on the model's alpha-aware convolution: a destination pixel whose resampled alpha
    is zero has zero colour (alpha is the last of the `p.n` components; `q` is a pixel index) -/
theorem resampleConvolution_zero_alpha_zero_colour (p : PixT) (hk : p.kind = .u8 ∨ p.kind = .u16) (hn : 2 ≤ p.n)
    (hsup : Gen.alphaSupported.contains p.name = true)
    (src prev : Img) (cl ct cw ch : Float) (f : FilterSpec) (adaptive : Bool) (q c : Nat) (hc : c < p.n - 1)
    (hq : q * p.n + (p.n - 1) < (resampleConvolution p src cl ct cw ch prev f adaptive true).data.size)
    (ha : (resampleConvolution p src cl ct cw ch prev f adaptive true).data[q * p.n + (p.n - 1)]! = 0) :
    (resampleConvolution p src cl ct cw ch prev f adaptive true).data[q * p.n + c]! = 0 := by
  have hres : resampleConvolution p src cl ct cw ch prev f adaptive true
      = divImg p (doConvolution p (mulImg p src) cl ct cw ch prev f adaptive) := by
    unfold resampleConvolution
    rw [hsup, Bool.and_self, if_pos rfl]
  rw [hres] at hq ha ⊢
  generalize doConvolution p (mulImg p src) cl ct cw ch prev f adaptive = X at hq ha ⊢
  have hd : (divImg p X).data = divPixels p X.data := rfl
  rw [hd] at hq ha ⊢
  have hq' : q * p.n + (p.n - 1) < X.data.size := by
    unfold divPixels at hq; rw [mapAlphaPixels_size] at hq; exact hq
  have hmod : (q * p.n + (p.n - 1)) % p.n = p.n - 1 := mul_add_mod (by omega)
  have ha' : X.data[q * p.n + (p.n - 1)]! = 0 := by
    unfold divPixels at ha
    rw [mapAlphaPixels_getElem! _ _ _ _ hq', if_pos hmod] at ha
    exact ha
  exact divPixels_zero_alpha p hk hn X.data q c hq' hc ha'

/-- premultiplying a fully opaque image changes nothing (8 / 16 bit, components in range) -/
theorem mulPixels_opaque (p : PixT) (hk : p.kind = .u8 ∨ p.kind = .u16) (hn : 1 ≤ p.n) (px : Array Int)
    (hrange : ∀ i, i < px.size → 0 ≤ px[i]! ∧ px[i]! ≤ p.kind.maxVal)
    (hopaque : ∀ i, i < px.size → i % p.n = p.n - 1 → px[i]! = p.kind.maxVal)
    (hwhole : px.size % p.n = 0) :
    mulPixels p px = px :=
  mapAlphaPixels_opaque p.n (mulComp p.kind) p.kind.maxVal hn px
    (fun c h0 h1 => mulComp_opaque p.kind hk c h0 h1) hrange hopaque hwhole

/-- dividing a fully opaque image changes nothing -/
theorem divPixels_opaque (p : PixT) (hk : p.kind = .u8 ∨ p.kind = .u16) (hn : 1 ≤ p.n) (px : Array Int)
    (hrange : ∀ i, i < px.size → 0 ≤ px[i]! ∧ px[i]! ≤ p.kind.maxVal)
    (hopaque : ∀ i, i < px.size → i % p.n = p.n - 1 → px[i]! = p.kind.maxVal)
    (hwhole : px.size % p.n = 0) :
    divPixels p px = px :=
  mapAlphaPixels_opaque p.n (divComp p.kind) p.kind.maxVal hn px
    (fun c h0 h1 => divComp_opaque p.kind hk c h0 h1) hrange hopaque hwhole

/-- C07, third clause: for a fully opaque source whose convolved alpha channel is again fully opaque (C10:
    a constant channel stays constant) and whose convolved components are in range, alpha handling is a no-op -/
theorem resampleConvolution_opaque_noop (p : PixT) (hk : p.kind = .u8 ∨ p.kind = .u16) (hn : 1 ≤ p.n)
    (src prev : Img) (cl ct cw ch : Float) (f : FilterSpec) (adaptive : Bool)
    (hsrc_range : ∀ i, i < src.data.size → 0 ≤ src.data[i]! ∧ src.data[i]! ≤ p.kind.maxVal)
    (hsrc_opaque : ∀ i, i < src.data.size → i % p.n = p.n - 1 → src.data[i]! = p.kind.maxVal)
    (hsrc_whole : src.data.size % p.n = 0)
    (hres_range : ∀ i, i < (doConvolution p src cl ct cw ch prev f adaptive).data.size →
        0 ≤ (doConvolution p src cl ct cw ch prev f adaptive).data[i]! ∧ (doConvolution p src cl ct cw ch prev f adaptive).data[i]! ≤ p.kind.maxVal)
    (hres_opaque : ∀ i, i < (doConvolution p src cl ct cw ch prev f adaptive).data.size → i % p.n = p.n - 1 →
        (doConvolution p src cl ct cw ch prev f adaptive).data[i]! = p.kind.maxVal)
    (hres_whole : (doConvolution p src cl ct cw ch prev f adaptive).data.size % p.n = 0) :
    resampleConvolution p src cl ct cw ch prev f adaptive true = resampleConvolution p src cl ct cw ch prev f adaptive false := by
  have hm : mulImg p src = src := by
    have := mulPixels_opaque p hk hn src.data hsrc_range hsrc_opaque hsrc_whole
    cases src
    simp only [mulImg] at *
    rw [this]
  have hdv : divImg p (doConvolution p src cl ct cw ch prev f adaptive)
      = doConvolution p src cl ct cw ch prev f adaptive := by
    have := divPixels_opaque p hk hn _ hres_range hres_opaque hres_whole
    generalize doConvolution p src cl ct cw ch prev f adaptive = X at this ⊢
    cases X
    simp only [divImg] at *
    rw [this]
  unfold resampleConvolution
  cases hs : Gen.alphaSupported.contains p.name
  · rfl
  · simp only [Bool.and_self, Bool.false_and, if_true, Bool.false_eq_true, if_false]
    rw [hm, hdv]

end Fir.Proofs
