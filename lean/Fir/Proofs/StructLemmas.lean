/-
  Fir.Proofs.StructLemmas - structural ("float-oblivious") lemmas about the resizer model:
  the copy fast path (C12), nearest neighbour (C11), the resizer state machine (C09) and the
  value-level overwrite theorems (C05).  No float is ever evaluated: every float test is an
  uninterpreted Bool/Prop whose value is fixed by a hypothesis.
-/
import Fir.Model.Resizer
import Fir.Model.ResizerState
namespace Fir.Proofs
open Fir

/-! ### index arithmetic of row-major images -/

theorem idx_lt {w h n x y c : Nat} (hx : x < w) (hy : y < h) (hc : c < n) :
    (y * w + x) * n + c < w * h * n := by
  have h1 : y * w + x + 1 ≤ w * h := by
    calc y * w + x + 1 ≤ y * w + w := by omega
      _ = (y + 1) * w := by rw [Nat.succ_mul]
      _ ≤ h * w := Nat.mul_le_mul_right w hy
      _ = w * h := Nat.mul_comm _ _
  calc (y * w + x) * n + c < (y * w + x) * n + n := by omega
    _ = (y * w + x + 1) * n := by rw [Nat.succ_mul]
    _ ≤ w * h * n := Nat.mul_le_mul_right n h1

theorem mul_add_div {q n c : Nat} (hc : c < n) : (q * n + c) / n = q := by
  have hn : 0 < n := by omega
  rw [Nat.mul_comm, Nat.mul_add_div hn, Nat.div_eq_of_lt hc, Nat.add_zero]

theorem mul_add_mod {q n c : Nat} (hc : c < n) : (q * n + c) % n = c := by
  rw [Nat.mul_comm, Nat.mul_add_mod, Nat.mod_eq_of_lt hc]

/-- reading component (x, y, c) of an image built by `Array.ofFn` -/
theorem ofFn_get (w h n : Nat) (f : Fin (w * h * n) → Int) (x y c : Nat)
    (hx : x < w) (hy : y < h) (hc : c < n) :
    (Img.mk w h n (Array.ofFn f)).get x y c = f ⟨(y * w + x) * n + c, idx_lt hx hy hc⟩ := by
  have hlt : (y * w + x) * n + c < (Array.ofFn f).size := by
    rw [Array.size_ofFn]; exact idx_lt hx hy hc
  show (Array.ofFn f)[(y * w + x) * n + c]! = _
  rw [getElem!_pos (Array.ofFn f) _ hlt, Array.getElem_ofFn]

/-! ### C12: copy fast path -/

theorem copyImage_some_iff (src prev : Img) (cl ct cw ch : Float) :
    (copyImage src cl ct cw ch prev).isSome = true ↔
      ((cl != cl.round || ct != ct.round || cw != cw.round || ch != ch.round) = false ∧
       (prev.w != cw.toUInt32.toNat || prev.h != ch.toUInt32.toNat) = false) := by
  unfold copyImage
  cases h1 : (cl != cl.round || ct != ct.round || cw != cw.round || ch != ch.round) <;>
  cases h2 : (prev.w != cw.toUInt32.toNat || prev.h != ch.toUInt32.toNat) <;>
  cases h3 : (decide (prev.w > 0) && decide (prev.h > 0)) <;> simp

theorem copyImage_is_copy (src prev r : Img) (cl ct cw ch : Float)
    (h : copyImage src cl ct cw ch prev = some r) (hw : 0 < prev.w) (hh : 0 < prev.h) :
    r = copyPass src cl.toUInt32.toNat ct.toUInt32.toNat prev.w prev.h := by
  unfold copyImage at h
  cases h1 : (cl != cl.round || ct != ct.round || cw != cw.round || ch != ch.round) <;>
  cases h2 : (prev.w != cw.toUInt32.toNat || prev.h != ch.toUInt32.toNat) <;>
  simp [h1, h2, hw, hh] at h
  exact h.symm

theorem copyPass_get (src : Img) (l t w h x y c : Nat) (hx : x < w) (hy : y < h) (hc : c < src.n) :
    (copyPass src l t w h).get x y c = src.get (l + x) (t + y) c := by
  unfold copyPass
  rw [ofFn_get w h src.n _ x y c hx hy hc]
  simp only [mul_add_div hc, mul_add_mod hc, mul_add_div hx, mul_add_mod hx]

theorem same_size_is_copy (p : PixT) (src prev r : Img) (alg : Alg) (useAlpha : Bool) (cl ct cw ch : Float)
    (hne : (cw == 0.0 || ch == 0.0 || prev.w == 0 || prev.h == 0) = false)
    (hcrop : cropCheck floatOps src.w src.h cl ct cw ch = 0)
    (hcopy : copyImage src cl ct cw ch prev = some r) :
    resizeModel p src prev ⟨alg, .box cl ct cw ch, useAlpha⟩ = (0, r) := by
  simp only [resizeModel, hne, hcrop, hcopy]
  simp

/-! ### C05 / C11 / C12: dispatch, nearest neighbour, passes -/

theorem nearest_overwrites_everything (src prev prev' : Img) (cl ct cw ch : Float)
    (hw : prev'.w = prev.w) (hh : prev'.h = prev.h)
    (hne : ¬ (prev.w = 0 ∨ prev.h = 0 ∨ cw ≤ 0.0 ∨ ch ≤ 0.0 ∨ src.h = 0)) :
    nearestPass src cl ct cw ch prev = nearestPass src cl ct cw ch prev' := by
  obtain ⟨w, h, n, d⟩ := prev
  obtain ⟨w', h', n', d'⟩ := prev'
  simp only at hw hh hne
  subst hw hh
  unfold nearestPass
  simp only [if_neg hne]

theorem ss_internal_same_size (p : PixT) (src prev r : Img) (cl ct cw ch : Float) (f : FilterSpec) (m : Nat) (useAlpha : Bool)
    (hne : ¬ (prev.w = 0 ∨ prev.h = 0 ∨ cw ≤ 0.0 ∨ ch ≤ 0.0))
    (hfac : (ssFactor cw ch prev.w prev.h m > 1.2) = true)
    (hcopy : copyImage
        (nearestPass src cl ct cw ch (Img.fill (ssTmpDim cw (ssFactor cw ch prev.w prev.h m)) (ssTmpDim ch (ssFactor cw ch prev.w prev.h m)) src.n 0))
        0.0 0.0 (Float.ofNat (ssTmpDim cw (ssFactor cw ch prev.w prev.h m))) (Float.ofNat (ssTmpDim ch (ssFactor cw ch prev.w prev.h m)))
        prev = some r) :
    resampleSuperSampling p src cl ct cw ch prev f m useAlpha = r := by
  have hfac' : ssFactor cw ch prev.w prev.h m > 1.2 := by rw [hfac]
  unfold resampleSuperSampling
  simp only [if_neg hne, if_pos hfac', hcopy]

theorem error_leaves_destination (p : PixT) (src prev : Img) (alg : Alg) (useAlpha : Bool) (cl ct cw ch : Float)
    (hne : (cw == 0.0 || ch == 0.0 || prev.w == 0 || prev.h == 0) = false)
    (hcrop : cropCheck floatOps src.w src.h cl ct cw ch ≠ 0) :
    resizeModel p src prev ⟨alg, .box cl ct cw ch, useAlpha⟩ = (cropCheck floatOps src.w src.h cl ct cw ch, prev) := by
  simp only [resizeModel, hne, if_pos hcrop]
  simp

theorem zero_size_leaves_destination (p : PixT) (src prev : Img) (alg : Alg) (useAlpha : Bool) (cl ct cw ch : Float)
    (hz : (cw == 0.0 || ch == 0.0 || prev.w == 0 || prev.h == 0) = true) :
    resizeModel p src prev ⟨alg, .box cl ct cw ch, useAlpha⟩ = (0, prev) := by
  simp only [resizeModel, if_pos hz]

theorem same_size_is_copy_nocrop (p : PixT) (src prev r : Img) (alg : Alg) (useAlpha : Bool)
    (hne : (Float.ofNat src.w == 0.0 || Float.ofNat src.h == 0.0 || prev.w == 0 || prev.h == 0) = false)
    (hcrop : cropCheck floatOps src.w src.h 0.0 0.0 (Float.ofNat src.w) (Float.ofNat src.h) = 0)
    (hcopy : copyImage src 0.0 0.0 (Float.ofNat src.w) (Float.ofNat src.h) prev = some r) :
    resizeModel p src prev ⟨alg, .none, useAlpha⟩ = (0, r) := by
  simp only [resizeModel, hne, hcrop, hcopy]
  simp

theorem pass_sizes (k : CKind) (src : Img) (dstW dstH offset : Nat) (c : Coeffs) :
    (horizPass k src dstW dstH offset c).data.size = dstW * dstH * src.n ∧
    (vertPass k src dstW dstH offset c).data.size = dstW * dstH * src.n := by
  constructor
  · unfold horizPass; exact Array.size_ofFn
  · unfold vertPass; exact Array.size_ofFn

theorem nearest_in_bounds (srcW srcH : Nat) (hw : 0 < srcW) (hh : 0 < srcH) (xs xsc ys ysc : Float) (x y : Nat) :
    nearestCol srcW xs xsc x < srcW ∧ nearestRow srcH ys ysc y < srcH := by
  unfold nearestCol nearestRow
  constructor <;> omega

theorem nearest_dims (src prev : Img) (cl ct cw ch : Float) :
    (nearestPass src cl ct cw ch prev).w = prev.w ∧ (nearestPass src cl ct cw ch prev).h = prev.h := by
  unfold nearestPass
  by_cases h : (prev.w = 0 ∨ prev.h = 0 ∨ cw ≤ 0.0 ∨ ch ≤ 0.0 ∨ src.h = 0)
  · simp only [if_pos h, and_self]
  · simp only [if_neg h, and_self]

theorem nearest_copy (src prev : Img) (cl ct cw ch : Float) (x y c : Nat)
    (hne : ¬ (prev.w = 0 ∨ prev.h = 0 ∨ cw ≤ 0.0 ∨ ch ≤ 0.0 ∨ src.h = 0))
    (hx : x < prev.w) (hy : y < prev.h) (hc : c < src.n) :
    (nearestPass src cl ct cw ch prev).get x y c =
      src.get (nearestCol src.w (cl + cw / Float.ofNat prev.w * 0.5) (cw / Float.ofNat prev.w) x)
              (nearestRow src.h (ct + ch / Float.ofNat prev.h * 0.5) (ch / Float.ofNat prev.h) y) c := by
  unfold nearestPass
  simp only [if_neg hne]
  rw [ofFn_get prev.w prev.h src.n _ x y c hx hy hc]
  simp only [mul_add_div hc, mul_add_mod hc, mul_add_div hx, mul_add_mod hx]

theorem nearest_no_alpha (p p' : PixT) (src prev : Img) (crop : Cropping) (a a' : Bool) :
    resizeModel p src prev ⟨.nearest, crop, a⟩ = resizeModel p' src prev ⟨.nearest, crop, a'⟩ := rfl

theorem one_dim_no_resample (p : PixT) (src prev : Img) (cl ct cw ch : Float) (f : FilterSpec) (adaptive : Bool)
    (hne : ¬ (prev.w = 0 ∨ prev.h = 0 ∨ cw ≤ 0.0 ∨ ch ≤ 0.0))
    (hH : (Float.ofNat prev.w != cw || cl != cl.round) = false)
    (hV : (Float.ofNat prev.h != ch || ct != ct.round) = true) :
    doConvolution p src cl ct cw ch prev f adaptive =
      vertPass p.kind src prev.w prev.h cl.toUInt32.toNat (precomputeCoefficients src.h ct (ct + ch) prev.h f adaptive) := by
  unfold doConvolution
  simp only [if_neg hne, hH, hV]
  rfl

theorem convolution_overwrites_everything (p : PixT) (src prev prev' : Img) (cl ct cw ch : Float) (f : FilterSpec) (adaptive : Bool)
    (hw : prev'.w = prev.w) (hh : prev'.h = prev.h)
    (hne : ¬ (prev.w = 0 ∨ prev.h = 0 ∨ cw ≤ 0.0 ∨ ch ≤ 0.0))
    (hpass : (Float.ofNat prev.w != cw || cl != cl.round) = true ∨ (Float.ofNat prev.h != ch || ct != ct.round) = true)
    (htemp : boundsLast (precomputeCoefficients src.w cl (cl + cw) prev.w f adaptive)
               - boundsFirst (precomputeCoefficients src.w cl (cl + cw) prev.w f adaptive) ≠ 0) :
    doConvolution p src cl ct cw ch prev f adaptive = doConvolution p src cl ct cw ch prev' f adaptive := by
  unfold doConvolution
  simp only [if_neg hne, hw, hh]
  cases hH : (Float.ofNat prev.w != cw || cl != cl.round) <;>
  cases hV : (Float.ofNat prev.h != ch || ct != ct.round)
  · rw [hH, hV] at hpass; simp at hpass
  · rfl
  · rfl
  · simp only [ite_true]
    by_cases hk : p.kind == .u8
    · simp only [hk, if_true, if_neg htemp]
    · simp only [hk]
      rfl

theorem vertPass_column_local (k : CKind) (src src' : Img) (dstW dstH offset : Nat) (c : Coeffs) (x y ch : Nat)
    (hx : x < dstW) (hy : y < dstH) (hch : ch < src.n) (hn : src'.n = src.n)
    (hcol : ∀ r, src'.get (offset + x) r ch = src.get (offset + x) r ch) :
    (vertPass k src' dstW dstH offset c).get x y ch = (vertPass k src dstW dstH offset c).get x y ch := by
  have hch' : ch < src'.n := hn ▸ hch
  simp only [vertPass]
  rw [ofFn_get dstW dstH src'.n _ x y ch hx hy hch', ofFn_get dstW dstH src.n _ x y ch hx hy hch]
  simp only [mul_add_div hch, mul_add_mod hch, mul_add_div hch', mul_add_mod hch', mul_add_div hx, mul_add_mod hx]
  congr 1
  funext start j
  exact hcol _

/-! ### C09: the resizer state machine -/

theorem rstep_outcome_state_independent (s s' : RState) (op : ROp) : (rstep s op).2 = (rstep s' op).2 := by
  cases op <;> rfl

theorem history_independent (s : RState) (ops : List ROp) (k : Nat) (hk : k < ops.length) :
    (rrun s ops).getD k none = (rstep (RState.init s.ext) (ops.getD k .reset)).2 := by
  induction ops generalizing s k with
  | nil => exact absurd hk (Nat.not_lt_zero _)
  | cons op ops ih =>
    cases k with
    | zero =>
      simp only [rrun, List.getD_cons_zero]
      exact rstep_outcome_state_independent _ _ _
    | succ k =>
      simp only [rrun, List.getD_cons_succ]
      rw [ih (rstep s op).1 k (Nat.lt_of_succ_lt_succ hk)]
      exact rstep_outcome_state_independent _ _ _

theorem buffers_grow (s : RState) (p : PixT) (src prev : Img) (o : ROpts) (need : Nat × Nat × Nat) (g : List Int) :
    let s' := (rstep s (.resize p src prev o need g)).1
    s.alphaLen ≤ s'.alphaLen ∧ s.convLen ≤ s'.convLen ∧ s.ssLen ≤ s'.ssLen ∧
    need.1 ≤ s'.alphaLen ∧ need.2.1 ≤ s'.convLen ∧ need.2.2 ≤ s'.ssLen := by
  simp only [rstep]
  omega

theorem temp_buffer_slice_ok (count size off : Nat) (hs : 0 < size) (hoff : off < size) :
    count ≤ (count * size + size - off) / size := by
  rw [Nat.le_div_iff_mul_le hs]
  omega

end Fir.Proofs
