/-
  Fir.Proofs.AlphaLemmas - premultiplication forgets the colours stored under alpha = 0 (C07).
-/
import Fir.Model.Resizer
import Fir.Props.C06
namespace Fir.Proofs
open Fir Fir.Gen

/-- multiplying by alpha 0 gives 0 at both integer depths (translated code; any colour value) -/
theorem mulComp_zero (k : CKind) (hk : k = .u8 ∨ k = .u16) (c : Int) : mulComp k c 0 = 0 := by
  rcases hk with h | h <;> subst h <;> simp [mulComp, mul_div_255, mul_div_65535]

theorem mapAlphaPixels_size (n : Nat) (f : Int → Int → Int) (px : Array Int) :
    (mapAlphaPixels n f px).size = px.size := by
  simp [mapAlphaPixels]

theorem mapAlphaPixels_getElem (n : Nat) (f : Int → Int → Int) (px : Array Int) (i : Nat) (hi : i < px.size) :
    (mapAlphaPixels n f px)[i]'(by rw [mapAlphaPixels_size]; exact hi)
      = if i % n = n - 1 then px[i] else f px[i] px[i - i % n + (n - 1)]! := by
  simp [mapAlphaPixels]

theorem premul_congr (p : PixT) (hk : p.kind = .u8 ∨ p.kind = .u16) (hn : 0 < p.n) (px px' : Array Int)
    (hsz : px.size = px'.size)
    (_hrange : ∀ i, i < px.size → 0 ≤ px[i]! ∧ px[i]! ≤ p.kind.maxVal ∧ 0 ≤ px'[i]! ∧ px'[i]! ≤ p.kind.maxVal)
    (halpha : ∀ i, i < px.size → i % p.n = p.n - 1 → px[i]! = px'[i]!)
    (hcol : ∀ i, i < px.size → i % p.n ≠ p.n - 1 → px[i - i % p.n + (p.n - 1)]! ≠ 0 → px[i]! = px'[i]!) :
    mulPixels p px = mulPixels p px' := by
  unfold mulPixels
  apply Array.ext
  · rw [mapAlphaPixels_size, mapAlphaPixels_size, hsz]
  · intro i h1 h2
    have hi : i < px.size := by rw [mapAlphaPixels_size] at h1; exact h1
    have hi' : i < px'.size := hsz ▸ hi
    rw [mapAlphaPixels_getElem _ _ px i hi, mapAlphaPixels_getElem _ _ px' i hi']
    have e1 : px[i]! = px[i] := getElem!_pos px i hi
    have e2 : px'[i]! = px'[i] := getElem!_pos px' i hi'
    by_cases hl : i % p.n = p.n - 1
    · rw [if_pos hl, if_pos hl, ← e1, ← e2]
      exact halpha i hi hl
    · rw [if_neg hl, if_neg hl]
      -- the alpha of the pixel is the same in both arrays (or out of bounds in both)
      have ha : px[i - i % p.n + (p.n - 1)]! = px'[i - i % p.n + (p.n - 1)]! := by
        by_cases hb : i - i % p.n + (p.n - 1) < px.size
        · apply halpha _ hb
          have hdvd : i - i % p.n = p.n * (i / p.n) := by
            have := Nat.div_add_mod i p.n
            omega
          rw [hdvd, Nat.mul_add_mod]
          exact Nat.mod_eq_of_lt (by omega)
        · rw [getElem!_neg px _ hb, getElem!_neg px' _ (by rw [← hsz]; exact hb)]
      by_cases hz : px[i - i % p.n + (p.n - 1)]! = 0
      · rw [← ha, hz, mulComp_zero _ hk, mulComp_zero _ hk]
      · have := hcol i hi hl hz
        rw [e1, e2] at this
        rw [← ha, this]

theorem resize_alpha_congr (p : PixT) (src src' prev : Img) (cl ct cw ch : Float) (f : FilterSpec) (adaptive : Bool)
    (hsup : Gen.alphaSupported.contains p.name = true)
    (hw : src'.w = src.w) (hh : src'.h = src.h) (hn : src'.n = src.n)
    (hmul : mulPixels p src.data = mulPixels p src'.data) :
    resampleConvolution p src cl ct cw ch prev f adaptive true = resampleConvolution p src' cl ct cw ch prev f adaptive true := by
  have hm : mulImg p src = mulImg p src' := by
    cases src; cases src'
    simp only [mulImg] at *
    subst hw hh hn
    rw [hmul]
  unfold resampleConvolution
  rw [hm, hsup, Bool.and_self, if_pos rfl, if_pos rfl]

end Fir.Proofs
