/-
  Fir.Proofs.FixedLemmas - integer facts behind C01 / C02 / C10 / C18: the exact dot product
  (`dotL`), the translated clip functions (`clip8`, `clip16`), rounding to nearest by
  `(2^(p-1) + a) / 2^p`, monotonicity, wrapping addition.  Core Lean + omega; Mathlib only for `|·|`.
-/
import Fir.Model.Resample
import Mathlib.Algebra.Order.Group.Abs
import Mathlib.Algebra.Order.Ring.Int
namespace Fir.Proofs
open Fir

/-! ### powers of two -/

theorem pow2_pos (p : Nat) : (0 : Int) < 2 ^ p := Int.pow_pos (by decide)

theorem pow2_pred (p : Nat) (hp1 : 1 ≤ p) : (2 : Int) ^ p = 2 * 2 ^ (p - 1) := by
  obtain ⟨q, rfl⟩ : ∃ q, p = q + 1 := ⟨p - 1, by omega⟩
  rw [Int.pow_succ, Nat.add_sub_cancel, Int.mul_comm]

theorem pow2_le (p q : Nat) (h : p ≤ q) : (2 : Int) ^ p ≤ 2 ^ q := by
  have h1 : (2 : Nat) ^ p ≤ 2 ^ q := Nat.pow_le_pow_right (by decide) h
  have h2 : ((2 ^ p : Nat) : Int) ≤ ((2 ^ q : Nat) : Int) := Int.ofNat_le.mpr h1
  simpa [Int.natCast_pow] using h2

/-! ### the exact dot product -/

theorem dotL_nil_left (xs : List Int) : dotL [] xs = 0 := by simp [dotL]

theorem dotL_nil_right (ks : List Int) : dotL ks [] = 0 := by simp [dotL]

theorem dotL_cons (k : Int) (ks : List Int) (x : Int) (xs : List Int) :
    dotL (k :: ks) (x :: xs) = k * x + dotL ks xs := by simp [dotL]

theorem dotL_replicate (ks : List Int) (v : Int) :
    dotL ks (List.replicate ks.length v) = v * ks.sum := by
  induction ks with
  | nil => simp [dotL]
  | cons k ks ih =>
    rw [List.length_cons, List.replicate_succ, dotL_cons, ih, List.sum_cons, Int.mul_add,
      Int.mul_comm k v]

theorem dotL_append (ks1 ks2 xs1 xs2 : List Int) (h : ks1.length = xs1.length) :
    dotL (ks1 ++ ks2) (xs1 ++ xs2) = dotL ks1 xs1 + dotL ks2 xs2 := by
  unfold dotL
  rw [List.zipWith_append h, List.sum_append]

theorem dotChunked_eq_dot (chunks : List (List Int × List Int))
    (h : ∀ c ∈ chunks, c.1.length = c.2.length) :
    (chunks.map fun c => dotL c.1 c.2).sum =
      dotL (chunks.map (·.1)).flatten (chunks.map (·.2)).flatten := by
  induction chunks with
  | nil => simp [dotL]
  | cons c cs ih =>
    have hc : c.1.length = c.2.length := h c (List.mem_cons_self ..)
    have hcs : ∀ c' ∈ cs, c'.1.length = c'.2.length := fun c' hc' => h c' (List.mem_cons_of_mem _ hc')
    simp only [List.map_cons, List.sum_cons, List.flatten_cons]
    rw [dotL_append _ _ _ _ hc, ih hcs]

theorem sum_perm (parts parts' : List Int) (h : parts.Perm parts') : parts.sum = parts'.sum := by
  induction h with
  | nil => rfl
  | cons x _ ih => simp only [List.sum_cons, ih]
  | swap x y l => simp only [List.sum_cons]; omega
  | trans _ _ ih1 ih2 => exact ih1.trans ih2

theorem dotL_monotone (ks xs ys : List Int) (hk : ∀ k ∈ ks, 0 ≤ k) (hlen : xs.length = ys.length)
    (h : ∀ i, i < xs.length → xs.getD i 0 ≤ ys.getD i 0) : dotL ks xs ≤ dotL ks ys := by
  induction ks generalizing xs ys with
  | nil => simp [dotL]
  | cons k ks ih =>
    cases xs with
    | nil =>
      cases ys with
      | nil => exact Int.le_refl _
      | cons y ys => simp at hlen
    | cons x xs =>
      cases ys with
      | nil => simp at hlen
      | cons y ys =>
        rw [dotL_cons, dotL_cons]
        have hk0 : 0 ≤ k := hk k (List.mem_cons_self ..)
        have hxy : x ≤ y := by simpa using h 0 (by simp)
        have h1 : k * x ≤ k * y := Int.mul_le_mul_of_nonneg_left hxy hk0
        have h2 : dotL ks xs ≤ dotL ks ys := by
          apply ih xs ys (fun k' hk' => hk k' (List.mem_cons_of_mem _ hk'))
          · simpa using hlen
          · intro i hi
            have := h (i + 1) (by simpa using hi)
            simpa using this
        omega

/-- all samples at least `lo`, non-negative coefficients: the dot product is at least `lo·Σk` -/
theorem dotL_ge_const (ks xs : List Int) (lo : Int) (hk : ∀ k ∈ ks, 0 ≤ k)
    (hlen : xs.length = ks.length) (hx : ∀ x ∈ xs, lo ≤ x) : lo * ks.sum ≤ dotL ks xs := by
  induction ks generalizing xs with
  | nil => simp [dotL]
  | cons k ks ih =>
    cases xs with
    | nil => simp at hlen
    | cons x xs =>
      rw [dotL_cons, List.sum_cons, Int.mul_add]
      have hk0 : 0 ≤ k := hk k (List.mem_cons_self ..)
      have h1 : k * lo ≤ k * x := Int.mul_le_mul_of_nonneg_left (hx x (List.mem_cons_self ..)) hk0
      have h2 := ih xs (fun k' hk' => hk k' (List.mem_cons_of_mem _ hk')) (by simpa using hlen)
        (fun x' hx' => hx x' (List.mem_cons_of_mem _ hx'))
      rw [Int.mul_comm lo k]
      omega

/-- all samples at most `hi`, non-negative coefficients: the dot product is at most `hi·Σk` -/
theorem dotL_le_const (ks xs : List Int) (hi : Int) (hk : ∀ k ∈ ks, 0 ≤ k)
    (hlen : xs.length = ks.length) (hx : ∀ x ∈ xs, x ≤ hi) : dotL ks xs ≤ hi * ks.sum := by
  induction ks generalizing xs with
  | nil => simp [dotL]
  | cons k ks ih =>
    cases xs with
    | nil => simp at hlen
    | cons x xs =>
      rw [dotL_cons, List.sum_cons, Int.mul_add]
      have hk0 : 0 ≤ k := hk k (List.mem_cons_self ..)
      have h1 : k * x ≤ k * hi := Int.mul_le_mul_of_nonneg_left (hx x (List.mem_cons_self ..)) hk0
      have h2 := ih xs (fun k' hk' => hk k' (List.mem_cons_of_mem _ hk')) (by simpa using hlen)
        (fun x' hx' => hx x' (List.mem_cons_of_mem _ hx'))
      rw [Int.mul_comm hi k]
      omega

/-! ### wrapping -/

theorem wrapInt32_id (v : Int) (h1 : -(2 ^ 31 : Int) ≤ v) (h2 : v < 2 ^ 31) : Gen.wrapInt 32 v = v := by
  unfold Gen.wrapInt
  simp only []
  split <;> omega

theorem wrapInt64_id (v : Int) (h1 : -(2 ^ 63 : Int) ≤ v) (h2 : v < 2 ^ 63) : Gen.wrapInt 64 v = v := by
  unfold Gen.wrapInt
  simp only []
  split <;> omega

theorem wrapInt_emod (bits : Nat) (a : Int) : Gen.wrapInt bits a % 2 ^ bits = a % 2 ^ bits := by
  unfold Gen.wrapInt
  simp only []
  split
  · exact Int.emod_emod_of_dvd _ (Int.dvd_refl _)
  · rw [Int.sub_emod_right, Int.emod_emod_of_dvd _ (Int.dvd_refl _)]

theorem wrapInt_congr (bits : Nat) (a b : Int) (h : a % 2 ^ bits = b % 2 ^ bits) :
    Gen.wrapInt bits a = Gen.wrapInt bits b := by
  unfold Gen.wrapInt
  simp only []
  rw [h]

theorem wrapInt_add (bits : Nat) (a b : Int) :
    Gen.wrapInt bits (Gen.wrapInt bits a + b) = Gen.wrapInt bits (a + b) := by
  apply wrapInt_congr
  rw [Int.add_emod, wrapInt_emod, ← Int.add_emod]

/-! ### the translated clip functions are clamps -/

/-- the table lookup after the clamped index: a clamp to `[0, 255]`, for every shifted value -/
theorem clip8_core (q : Int) :
    (Gen.clip8_table (Int.toNat ((Gen.wrapInt 32 (max (-640) (min 639 q) + 640)) % 18446744073709551616)) : Int)
      = max 0 (min 255 q) := by
  have hw : Gen.wrapInt 32 (max (-640) (min 639 q) + 640) = max (-640) (min 639 q) + 640 :=
    wrapInt32_id _ (by omega) (by omega)
  rw [hw]
  unfold Gen.clip8_table
  split
  · omega
  · split <;> omega

theorem clip8_eq_clamp (v : Int) (p : Nat) (hv : -(2 ^ 31 : Int) ≤ v ∧ v < 2 ^ 31) :
    clip8 v p = max 0 (min 255 (v / 2 ^ p)) := by
  unfold clip8 Gen.clip16_index
  rw [wrapInt32_id v hv.1 hv.2]
  exact clip8_core _

theorem clip8_eq_packs (v : Int) (p : Nat) (_hp : p < 32) (hv : -(2 ^ 31 : Int) ≤ v ∧ v < 2 ^ 31) :
    clip8 v p = max 0 (min 255 (max (-32768) (min 32767 (v / 2 ^ p)))) := by
  rw [clip8_eq_clamp v p hv]
  omega

theorem clip16_eq_clamp (v : Int) (p : Nat) (_hp : p < 64) (hv : -(2 ^ 63 : Int) ≤ v ∧ v < 2 ^ 63) :
    clip16 v p = max 0 (min 65535 (v / 2 ^ p)) := by
  unfold clip16 Gen.clip32
  rw [wrapInt64_id v hv.1 hv.2]
  omega

/-! ### rounding to nearest -/

/-- `a` lies in the `v`-th cell of width `2^p`: the quotient is `v` -/
theorem ediv_eq_of_cell (a v P : Int) (hP : 0 < P) (h1 : v * P ≤ a) (h2 : a < (v + 1) * P) : a / P = v := by
  have h3 : v ≤ a / P := (Int.le_ediv_iff_mul_le hP).mpr h1
  have h4 : a / P < v + 1 := (Int.ediv_lt_iff_lt_mul hP).mpr h2
  omega

theorem clip8_of_cell (a : Int) (p : Nat) (v : Int) (hp : p ≤ 22) (hv0 : 0 ≤ v) (hv : v ≤ 255)
    (h1 : v * 2 ^ p ≤ a) (h2 : a < (v + 1) * 2 ^ p) : clip8 a p = v := by
  have hP : (0 : Int) < 2 ^ p := pow2_pos p
  have hP2 : (2 : Int) ^ p ≤ 2 ^ 22 := pow2_le p 22 hp
  have hq : a / 2 ^ p = v := ediv_eq_of_cell a v _ hP h1 h2
  have h3 : 0 ≤ v * 2 ^ p := Int.mul_nonneg hv0 (Int.le_of_lt hP)
  have h4 : (v + 1) * 2 ^ p ≤ 256 * 2 ^ p := Int.mul_le_mul_of_nonneg_right (by omega) (Int.le_of_lt hP)
  rw [clip8_eq_clamp a p ⟨by omega, by omega⟩, hq]
  omega

theorem clip16_of_cell (a : Int) (p : Nat) (v : Int) (hp : p ≤ 46) (hv0 : 0 ≤ v) (hv : v ≤ 65535)
    (h1 : v * 2 ^ p ≤ a) (h2 : a < (v + 1) * 2 ^ p) : clip16 a p = v := by
  have hP : (0 : Int) < 2 ^ p := pow2_pos p
  have hP2 : (2 : Int) ^ p ≤ 2 ^ 46 := pow2_le p 46 hp
  have hq : a / 2 ^ p = v := ediv_eq_of_cell a v _ hP h1 h2
  have h3 : 0 ≤ v * 2 ^ p := Int.mul_nonneg hv0 (Int.le_of_lt hP)
  have h4 : (v + 1) * 2 ^ p ≤ 65536 * 2 ^ p := Int.mul_le_mul_of_nonneg_right (by omega) (Int.le_of_lt hP)
  rw [clip16_eq_clamp a p (by omega) ⟨by omega, by omega⟩, hq]
  omega

/-- the `QuantOK` inequalities place `2^(p-1) + v·S` in the `v`-th cell -/
theorem cell_of_quant (S : Int) (p : Nat) (v : Int) (hp1 : 1 ≤ p)
    (h1 : -(2 ^ (p - 1) : Int) ≤ v * (S - 2 ^ p)) (h2 : v * (S - 2 ^ p) < 2 ^ (p - 1)) :
    v * 2 ^ p ≤ 2 ^ (p - 1) + v * S ∧ 2 ^ (p - 1) + v * S < (v + 1) * 2 ^ p := by
  have hP := pow2_pred p hp1
  rw [Int.mul_sub] at h1 h2
  rw [Int.add_mul, Int.one_mul]
  generalize v * S = a at *
  generalize v * 2 ^ p = b at *
  omega

theorem uniform_exact_u8 (ks : List Int) (p : Nat) (v : Int) (hp1 : 1 ≤ p) (hp : p ≤ 22)
    (hv0 : 0 ≤ v) (hv : v ≤ 255)
    (h1 : -(2 ^ (p - 1) : Int) ≤ v * (ks.sum - 2 ^ p)) (h2 : v * (ks.sum - 2 ^ p) < 2 ^ (p - 1)) :
    passInt .u8 ks (List.replicate ks.length v) p = v := by
  show clip8 (2 ^ (p - 1) + dotL ks (List.replicate ks.length v)) p = v
  rw [dotL_replicate]
  have hc := cell_of_quant ks.sum p v hp1 h1 h2
  exact clip8_of_cell _ p v hp hv0 hv hc.1 hc.2

theorem uniform_exact_u16 (ks : List Int) (p : Nat) (v : Int) (hp1 : 1 ≤ p) (hp : p ≤ 46)
    (hv0 : 0 ≤ v) (hv : v ≤ 65535)
    (h1 : -(2 ^ (p - 1) : Int) ≤ v * (ks.sum - 2 ^ p)) (h2 : v * (ks.sum - 2 ^ p) < 2 ^ (p - 1)) :
    passInt .u16 ks (List.replicate ks.length v) p = v := by
  show clip16 (2 ^ (p - 1) + dotL ks (List.replicate ks.length v)) p = v
  rw [dotL_replicate]
  have hc := cell_of_quant ks.sum p v hp1 h1 h2
  exact clip16_of_cell _ p v hp hv0 hv hc.1 hc.2

theorem quantOK_of_sum_close (ks : List Int) (p : Nat) (m v : Int) (hv0 : 0 ≤ v) (hv : v ≤ m)
    (hs : m * |ks.sum - 2 ^ p| < 2 ^ (p - 1)) :
    -(2 ^ (p - 1) : Int) ≤ v * (ks.sum - 2 ^ p) ∧ v * (ks.sum - 2 ^ p) < 2 ^ (p - 1) := by
  generalize ks.sum - 2 ^ p = d at *
  generalize (2 : Int) ^ (p - 1) = H at *
  have hd : 0 ≤ |d| := abs_nonneg d
  have h1 : v * |d| ≤ m * |d| := Int.mul_le_mul_of_nonneg_right hv hd
  have h2 : v * d ≤ v * |d| := Int.mul_le_mul_of_nonneg_left (le_abs_self d) hv0
  have h3 : v * (-|d|) ≤ v * d := Int.mul_le_mul_of_nonneg_left (neg_abs_le d) hv0
  rw [Int.mul_neg] at h3
  omega

/-! ### monotonicity and range -/

theorem pass_monotone_u8 (ks xs ys : List Int) (p : Nat) (_hp : p < 32) (hk : ∀ k ∈ ks, 0 ≤ k)
    (hlen : xs.length = ys.length) (h : ∀ i, i < xs.length → xs.getD i 0 ≤ ys.getD i 0)
    (hx : -(2 ^ 31 : Int) ≤ 2 ^ (p - 1) + dotL ks xs ∧ 2 ^ (p - 1) + dotL ks xs < 2 ^ 31)
    (hy : -(2 ^ 31 : Int) ≤ 2 ^ (p - 1) + dotL ks ys ∧ 2 ^ (p - 1) + dotL ks ys < 2 ^ 31) :
    passInt .u8 ks xs p ≤ passInt .u8 ks ys p := by
  show clip8 (2 ^ (p - 1) + dotL ks xs) p ≤ clip8 (2 ^ (p - 1) + dotL ks ys) p
  rw [clip8_eq_clamp _ p hx, clip8_eq_clamp _ p hy]
  have hd := dotL_monotone ks xs ys hk hlen h
  have hq : (2 ^ (p - 1) + dotL ks xs) / 2 ^ p ≤ (2 ^ (p - 1) + dotL ks ys) / 2 ^ p :=
    Int.ediv_le_ediv (pow2_pos p) (by omega)
  omega

theorem pass_monotone_u16 (ks xs ys : List Int) (p : Nat) (hp : p < 64) (hk : ∀ k ∈ ks, 0 ≤ k)
    (hlen : xs.length = ys.length) (h : ∀ i, i < xs.length → xs.getD i 0 ≤ ys.getD i 0)
    (hx : -(2 ^ 63 : Int) ≤ 2 ^ (p - 1) + dotL ks xs ∧ 2 ^ (p - 1) + dotL ks xs < 2 ^ 63)
    (hy : -(2 ^ 63 : Int) ≤ 2 ^ (p - 1) + dotL ks ys ∧ 2 ^ (p - 1) + dotL ks ys < 2 ^ 63) :
    passInt .u16 ks xs p ≤ passInt .u16 ks ys p := by
  show clip16 (2 ^ (p - 1) + dotL ks xs) p ≤ clip16 (2 ^ (p - 1) + dotL ks ys) p
  rw [clip16_eq_clamp _ p hp hx, clip16_eq_clamp _ p hp hy]
  have hd := dotL_monotone ks xs ys hk hlen h
  have hq : (2 ^ (p - 1) + dotL ks xs) / 2 ^ p ≤ (2 ^ (p - 1) + dotL ks ys) / 2 ^ p :=
    Int.ediv_le_ediv (pow2_pos p) (by omega)
  omega

theorem range_from_uniform_u8 (ks xs : List Int) (p : Nat) (lo hi : Int) (hp1 : 1 ≤ p) (hp : p ≤ 22)
    (hk : ∀ k ∈ ks, 0 ≤ k) (hlen : xs.length = ks.length)
    (hlo0 : 0 ≤ lo) (hhi : hi ≤ 255) (hx : ∀ x ∈ xs, lo ≤ x ∧ x ≤ hi)
    (hl1 : -(2 ^ (p - 1) : Int) ≤ lo * (ks.sum - 2 ^ p)) (hl2 : lo * (ks.sum - 2 ^ p) < 2 ^ (p - 1))
    (hh1 : -(2 ^ (p - 1) : Int) ≤ hi * (ks.sum - 2 ^ p)) (hh2 : hi * (ks.sum - 2 ^ p) < 2 ^ (p - 1)) :
    lo ≤ passInt .u8 ks xs p ∧ passInt .u8 ks xs p ≤ hi := by
  show lo ≤ clip8 (2 ^ (p - 1) + dotL ks xs) p ∧ clip8 (2 ^ (p - 1) + dotL ks xs) p ≤ hi
  have hP : (0 : Int) < 2 ^ p := pow2_pos p
  have hP2 : (2 : Int) ^ p ≤ 2 ^ 22 := pow2_le p 22 hp
  have hcl := (cell_of_quant ks.sum p lo hp1 hl1 hl2).1
  have hch := (cell_of_quant ks.sum p hi hp1 hh1 hh2).2
  have hdl := dotL_ge_const ks xs lo hk hlen (fun x h => (hx x h).1)
  have hdh := dotL_le_const ks xs hi hk hlen (fun x h => (hx x h).2)
  have h1 : lo * 2 ^ p ≤ 2 ^ (p - 1) + dotL ks xs := by omega
  have h2 : 2 ^ (p - 1) + dotL ks xs < (hi + 1) * 2 ^ p := by omega
  have h3 : lo ≤ (2 ^ (p - 1) + dotL ks xs) / 2 ^ p := (Int.le_ediv_iff_mul_le hP).mpr h1
  have h4 : (2 ^ (p - 1) + dotL ks xs) / 2 ^ p < hi + 1 := (Int.ediv_lt_iff_lt_mul hP).mpr h2
  have h5 : 0 ≤ lo * 2 ^ p := Int.mul_nonneg hlo0 (Int.le_of_lt hP)
  have h6 : (hi + 1) * 2 ^ p ≤ 256 * 2 ^ p := Int.mul_le_mul_of_nonneg_right (by omega) (Int.le_of_lt hP)
  rw [clip8_eq_clamp _ p ⟨by omega, by omega⟩]
  omega

theorem madd_epi16_exact (a a' k k' : Int) (ha : 0 ≤ a ∧ a ≤ 255) (ha' : 0 ≤ a' ∧ a' ≤ 255)
    (hk : -32768 ≤ k ∧ k ≤ 32767) (hk' : -32768 ≤ k' ∧ k' ≤ 32767) :
    -(2 ^ 31 : Int) < a * k + a' * k' ∧ a * k + a' * k' < 2 ^ 31 := by
  have h1 : a * (-32768) ≤ a * k := Int.mul_le_mul_of_nonneg_left hk.1 ha.1
  have h2 : a * k ≤ a * 32767 := Int.mul_le_mul_of_nonneg_left hk.2 ha.1
  have h3 : a' * (-32768) ≤ a' * k' := Int.mul_le_mul_of_nonneg_left hk'.1 ha'.1
  have h4 : a' * k' ≤ a' * 32767 := Int.mul_le_mul_of_nonneg_left hk'.2 ha'.1
  omega

/-- `y = ⌊(2^(p-1) + a) / 2^p⌋` is `a / 2^p` rounded to nearest (ties up) -/
theorem round_nearest (a : Int) (p : Nat) (hp1 : 1 ≤ p) :
    2 ^ p * ((2 ^ (p - 1) + a) / 2 ^ p) - a ≤ 2 ^ (p - 1) ∧
    a - 2 ^ p * ((2 ^ (p - 1) + a) / 2 ^ p) < 2 ^ (p - 1) := by
  have hP : (0 : Int) < 2 ^ p := pow2_pos p
  have hH := pow2_pred p hp1
  have h1 := Int.mul_ediv_add_emod (2 ^ (p - 1) + a) (2 ^ p)
  have h2 := Int.emod_nonneg (2 ^ (p - 1) + a) (Int.ne_of_gt hP)
  have h3 := Int.emod_lt_of_pos (2 ^ (p - 1) + a) hP
  generalize (2 ^ (p - 1) + a) % 2 ^ p = r at *
  generalize 2 ^ p * ((2 ^ (p - 1) + a) / 2 ^ p) = z at *
  omega

theorem pass_round_nearest_u8 (ks xs : List Int) (p : Nat) (hp1 : 1 ≤ p) (_hp : p < 32)
    (h : -(2 ^ 31 : Int) ≤ 2 ^ (p - 1) + dotL ks xs ∧ 2 ^ (p - 1) + dotL ks xs < 2 ^ 31) :
    let y := (2 ^ (p - 1) + dotL ks xs) / 2 ^ p
    passInt .u8 ks xs p = max 0 (min 255 y) ∧
    2 ^ p * y - dotL ks xs ≤ 2 ^ (p - 1) ∧ dotL ks xs - 2 ^ p * y < 2 ^ (p - 1) := by
  intro y
  exact ⟨clip8_eq_clamp _ p h, round_nearest (dotL ks xs) p hp1⟩

theorem pass_round_nearest_u16 (ks xs : List Int) (p : Nat) (hp1 : 1 ≤ p) (hp : p < 64)
    (h : -(2 ^ 63 : Int) ≤ 2 ^ (p - 1) + dotL ks xs ∧ 2 ^ (p - 1) + dotL ks xs < 2 ^ 63) :
    let y := (2 ^ (p - 1) + dotL ks xs) / 2 ^ p
    passInt .u16 ks xs p = max 0 (min 65535 y) ∧
    2 ^ p * y - dotL ks xs ≤ 2 ^ (p - 1) ∧ dotL ks xs - 2 ^ p * y < 2 ^ (p - 1) := by
  intro y
  exact ⟨clip16_eq_clamp _ p hp h, round_nearest (dotL ks xs) p hp1⟩

/-- sum of a constant list -/
theorem sum_replicate_int (n : Nat) (a : Int) : (List.replicate n a).sum = (n : Int) * a := by
  induction n with
  | zero => simp
  | succ k ih =>
    rw [List.replicate_succ, List.sum_cons, ih]
    have : ((k + 1 : Nat) : Int) = (k : Int) + 1 := by omega
    rw [this, Int.add_mul, Int.one_mul, Int.add_comm]

end Fir.Proofs
