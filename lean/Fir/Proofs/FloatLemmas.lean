/-
  Fir.Proofs.FloatLemmas - the floating-point passes (I32, F32, F32x2..4: `ss += px as f64 * k` in the
  portable kernels, two / four partial f64 accumulators and a horizontal add in the SSE4.1 / AVX2 kernels)
  under the standard model of rounding.

  Lean's `Float` is opaque to the kernel, so nothing here mentions it.  A kernel is a *summation tree*:
  leaves are rounded products `fl(xᵢ·kᵢ)`, inner nodes are rounded additions `fl(a + b)`; the portable
  kernel is the left comb of depth n, a SIMD kernel is a forest of combs (one per lane) joined by the
  horizontal add.  The rounding function `fl : ℚ → ℚ` is a parameter.  Theorems take as hypotheses
    * `RelErr fl u`  : |fl y − y| ≤ u·|y|   (u = 2^-53 for binary64 in the normal range), and / or
    * `Monotone fl`
  which IEEE-754 round-to-nearest satisfies (trusted base; not proved about the hardware).
-/
import Mathlib.Algebra.Order.Field.Basic
import Mathlib.Algebra.Order.BigOperators.Group.List
import Mathlib.Order.Monotone.Basic
import Mathlib.Tactic.Linarith
import Mathlib.Tactic.Ring
import Mathlib.Tactic.Positivity
import Mathlib.Tactic.NormNum

namespace Fir.Flt

/-- the shape of a summation: which product goes where -/
inductive Shape
  | leaf (i : ℕ)
  | node (a b : Shape)

/-- rounded evaluation: every product and every addition is rounded once -/
def Shape.eval (fl : ℚ → ℚ) (x k : ℕ → ℚ) : Shape → ℚ
  | .leaf i => fl (x i * k i)
  | .node a b => fl (a.eval fl x k + b.eval fl x k)

/-- exact value `Σ xᵢ·kᵢ` over the leaves -/
def Shape.exact (x k : ℕ → ℚ) : Shape → ℚ
  | .leaf i => x i * k i
  | .node a b => a.exact x k + b.exact x k

/-- `Σ |xᵢ·kᵢ|` over the leaves -/
def Shape.absSum (x k : ℕ → ℚ) : Shape → ℚ
  | .leaf i => |x i * k i|
  | .node a b => a.absSum x k + b.absSum x k

/-- `Σ kᵢ` and `Σ |kᵢ|` over the leaves -/
def Shape.kSum (k : ℕ → ℚ) : Shape → ℚ
  | .leaf i => k i
  | .node a b => a.kSum k + b.kSum k

def Shape.kAbs (k : ℕ → ℚ) : Shape → ℚ
  | .leaf i => |k i|
  | .node a b => a.kAbs k + b.kAbs k

/-- number of additions on the longest path -/
def Shape.depth : Shape → ℕ
  | .leaf _ => 0
  | .node a b => max a.depth b.depth + 1

/-- the leaves from left to right -/
def Shape.leaves : Shape → List ℕ
  | .leaf i => [i]
  | .node a b => a.leaves ++ b.leaves

/-- standard model of rounding -/
def RelErr (fl : ℚ → ℚ) (u : ℚ) : Prop := ∀ y, |fl y - y| ≤ u * |y|

/-- accumulated relative error after `d + 1` roundings -/
def gam (u : ℚ) (d : ℕ) : ℚ := (1 + u) ^ (d + 1) - 1

theorem gam_nonneg (u : ℚ) (hu : 0 ≤ u) (d : ℕ) : 0 ≤ gam u d := by
  unfold gam
  have : (1 : ℚ) ≤ (1 + u) ^ (d + 1) := one_le_pow₀ (by linarith)
  linarith

theorem gam_mono (u : ℚ) (hu : 0 ≤ u) {d d' : ℕ} (h : d ≤ d') : gam u d ≤ gam u d' := by
  unfold gam
  have : (1 + u) ^ (d + 1) ≤ (1 + u) ^ (d' + 1) := pow_le_pow_right₀ (by linarith) (by omega)
  linarith

theorem gam_succ (u : ℚ) (d : ℕ) : (1 + u) * gam u d + u = gam u (d + 1) := by
  unfold gam
  ring

theorem gam_zero (u : ℚ) : gam u 0 = u := by unfold gam; ring

theorem absSum_nonneg (x k : ℕ → ℚ) (t : Shape) : 0 ≤ t.absSum x k := by
  induction t with
  | leaf i => exact abs_nonneg _
  | node a b iha ihb => simp only [Shape.absSum]; linarith

theorem abs_exact_le (x k : ℕ → ℚ) (t : Shape) : |t.exact x k| ≤ t.absSum x k := by
  induction t with
  | leaf i => exact le_refl _
  | node a b iha ihb =>
    simp only [Shape.exact, Shape.absSum]
    exact (abs_add_le _ _).trans (by linarith)

/-- **error of a rounded summation tree**: `|eval − Σxᵢkᵢ| ≤ ((1+u)^(depth+1) − 1)·Σ|xᵢkᵢ|` -/
theorem tree_err (fl : ℚ → ℚ) (u : ℚ) (hu : 0 ≤ u) (hfl : RelErr fl u) (x k : ℕ → ℚ) (t : Shape) :
    |t.eval fl x k - t.exact x k| ≤ gam u t.depth * t.absSum x k := by
  induction t with
  | leaf i =>
    simp only [Shape.eval, Shape.exact, Shape.absSum, Shape.depth, gam_zero]
    exact hfl _
  | node a b iha ihb =>
    simp only [Shape.eval, Shape.exact, Shape.absSum, Shape.depth]
    set A := a.eval fl x k
    set B := b.eval fl x k
    set ae := a.exact x k
    set be := b.exact x k
    set Sa := a.absSum x k
    set Sb := b.absSum x k
    set d := max a.depth b.depth
    have hSa : 0 ≤ Sa := absSum_nonneg x k a
    have hSb : 0 ≤ Sb := absSum_nonneg x k b
    have hg : 0 ≤ gam u d := gam_nonneg u hu d
    have hEa : |A - ae| ≤ gam u d * Sa :=
      iha.trans (mul_le_mul_of_nonneg_right (gam_mono u hu (le_max_left _ _)) hSa)
    have hEb : |B - be| ≤ gam u d * Sb :=
      ihb.trans (mul_le_mul_of_nonneg_right (gam_mono u hu (le_max_right _ _)) hSb)
    have hae : |ae| ≤ Sa := abs_exact_le x k a
    have hbe : |be| ≤ Sb := abs_exact_le x k b
    have h1 : |fl (A + B) - (A + B)| ≤ u * |A + B| := hfl _
    have h2 : |A + B| ≤ Sa + Sb + gam u d * Sa + gam u d * Sb := by
      have : A + B = (ae + be) + (A - ae) + (B - be) := by ring
      rw [this]
      refine (abs_add_le _ _).trans ?_
      have := abs_add_le (ae + be) (A - ae)
      have := abs_add_le ae be
      linarith
    have h3 : fl (A + B) - (ae + be) = (fl (A + B) - (A + B)) + (A - ae) + (B - be) := by ring
    rw [h3]
    refine (abs_add_le _ _).trans ?_
    have h4 := abs_add_le (fl (A + B) - (A + B)) (A - ae)
    have h5 : u * |A + B| ≤ u * (Sa + Sb + gam u d * Sa + gam u d * Sb) := mul_le_mul_of_nonneg_left h2 hu
    have h6 : gam u (d + 1) * (Sa + Sb) = ((1 + u) * gam u d + u) * (Sa + Sb) := by rw [gam_succ]
    rw [h6]
    nlinarith

/-! ### the exact sum depends on the multiset of leaves only -/

theorem exact_eq_sum (x k : ℕ → ℚ) (t : Shape) : t.exact x k = (t.leaves.map fun i => x i * k i).sum := by
  induction t with
  | leaf i => simp [Shape.exact, Shape.leaves]
  | node a b iha ihb => simp [Shape.exact, Shape.leaves, iha, ihb]

theorem absSum_eq_sum (x k : ℕ → ℚ) (t : Shape) : t.absSum x k = (t.leaves.map fun i => |x i * k i|).sum := by
  induction t with
  | leaf i => simp [Shape.absSum, Shape.leaves]
  | node a b iha ihb => simp [Shape.absSum, Shape.leaves, iha, ihb]

/-- **re-association**: two summation orders over the same products (any chunking into lanes / partial
    accumulators, any order of the horizontal add) differ by at most the sum of their two error bounds -/
theorem reassoc_err (fl : ℚ → ℚ) (u : ℚ) (hu : 0 ≤ u) (hfl : RelErr fl u) (x k : ℕ → ℚ) (t t' : Shape)
    (hperm : t.leaves.Perm t'.leaves) :
    |t.eval fl x k - t'.eval fl x k| ≤ (gam u t.depth + gam u t'.depth) * t.absSum x k := by
  have he : t.exact x k = t'.exact x k := by
    rw [exact_eq_sum, exact_eq_sum]; exact (hperm.map _).sum_eq
  have hs : t.absSum x k = t'.absSum x k := by
    rw [absSum_eq_sum, absSum_eq_sum]; exact (hperm.map _).sum_eq
  have h1 := tree_err fl u hu hfl x k t
  have h2 := tree_err fl u hu hfl x k t'
  rw [← he, ← hs] at h2
  have : t.eval fl x k - t'.eval fl x k = (t.eval fl x k - t.exact x k) - (t'.eval fl x k - t.exact x k) := by ring
  rw [this]
  refine (abs_sub _ _).trans ?_
  linarith

/-! ### order preservation (C18 for I32 / F32) -/

/-- with non-negative coefficients and a monotone rounding, raising any sample never lowers the
    rounded sum - exactly, for every summation order -/
theorem eval_mono (fl : ℚ → ℚ) (hfl : Monotone fl) (k : ℕ → ℚ) (hk : ∀ i, 0 ≤ k i) (x y : ℕ → ℚ)
    (hxy : ∀ i, x i ≤ y i) (t : Shape) : t.eval fl x k ≤ t.eval fl y k := by
  induction t with
  | leaf i => exact hfl (mul_le_mul_of_nonneg_right (hxy i) (hk i))
  | node a b iha ihb => exact hfl (add_le_add iha ihb)

/-! ### constant inputs (C10 for I32 / F32) -/

theorem exact_const (v : ℚ) (k : ℕ → ℚ) (t : Shape) : t.exact (fun _ => v) k = v * t.kSum k := by
  induction t with
  | leaf i => simp [Shape.exact, Shape.kSum]
  | node a b iha ihb => simp only [Shape.exact, Shape.kSum, iha, ihb]; ring

theorem absSum_const (v : ℚ) (k : ℕ → ℚ) (t : Shape) : t.absSum (fun _ => v) k = |v| * t.kAbs k := by
  induction t with
  | leaf i => simp [Shape.absSum, Shape.kAbs, abs_mul]
  | node a b iha ihb => simp only [Shape.absSum, Shape.kAbs, iha, ihb]; ring

/-- a constant row `v` comes out as `v` up to the accumulated rounding and the defect of `Σk` from 1 -/
theorem uniform_float (fl : ℚ → ℚ) (u : ℚ) (hu : 0 ≤ u) (hfl : RelErr fl u) (v : ℚ) (k : ℕ → ℚ) (t : Shape) :
    |t.eval fl (fun _ => v) k - v| ≤ gam u t.depth * (|v| * t.kAbs k) + |v| * |t.kSum k - 1| := by
  have h := tree_err fl u hu hfl (fun _ => v) k t
  rw [exact_const, absSum_const] at h
  have : t.eval fl (fun _ => v) k - v = (t.eval fl (fun _ => v) k - v * t.kSum k) + v * (t.kSum k - 1) := by ring
  rw [this]
  refine (abs_add_le _ _).trans ?_
  rw [abs_mul]
  linarith

/-! ### the portable kernel: `ss = 0.0; for (k, x) { ss += x as f64 * k }` -/

/-- the accumulation loop of the native kernels, every operation rounded -/
def accF (fl : ℚ → ℚ) : List ℚ → List ℚ → ℚ → ℚ
  | k :: ks, x :: xs, s => accF fl ks xs (fl (s + fl (x * k)))
  | _, _, s => s

/-- the left comb the loop builds: leaves `j, j+1, ..` added one by one to the tree `t` -/
def comb : (n : ℕ) → (j : ℕ) → Shape → Shape
  | 0, _, t => t
  | n + 1, j, t => comb n (j + 1) (.node t (.leaf j))

theorem comb_depth (n j : ℕ) (t : Shape) : (comb n j t).depth = t.depth + n := by
  induction n generalizing j t with
  | zero => simp [comb]
  | succ n ih => simp [comb, ih, Shape.depth]; omega

theorem comb_leaves (n j : ℕ) (t : Shape) : (comb n j t).leaves = t.leaves ++ (List.range' j n) := by
  induction n generalizing j t with
  | zero => simp [comb]
  | succ n ih => simp [comb, ih, Shape.leaves, List.range'_succ]

/-- the loop is the rounded evaluation of the comb -/
theorem accF_eq_comb (fl : ℚ → ℚ) (ks xs : List ℚ) (hlen : ks.length = xs.length) (j : ℕ) (t : Shape)
    (x k : ℕ → ℚ) (hx : ∀ i, i < xs.length → x (j + i) = xs.getD i 0) (hk : ∀ i, i < ks.length → k (j + i) = ks.getD i 0) :
    accF fl ks xs (t.eval fl x k) = (comb ks.length j t).eval fl x k := by
  induction ks generalizing xs j t with
  | nil => simp [accF, comb]
  | cons k0 ks ih =>
    cases xs with
    | nil => simp at hlen
    | cons x0 xs =>
      have hx0 : x j = x0 := by simpa using hx 0 (by simp)
      have hk0 : k j = k0 := by simpa using hk 0 (by simp)
      simp only [accF, List.length_cons, comb]
      have := ih xs (by simpa using hlen) (j + 1) (.node t (.leaf j))
        (fun i hi => by have := hx (i + 1) (by simpa using hi); simpa [Nat.add_assoc, Nat.add_comm 1 i] using this)
        (fun i hi => by have := hk (i + 1) (by simpa using hi); simpa [Nat.add_assoc, Nat.add_comm 1 i] using this)
      simp only [Shape.eval, hx0, hk0] at this
      exact this

/-! ### the loop in list form -/

theorem fl_zero (fl : ℚ → ℚ) (u : ℚ) (hfl : RelErr fl u) : fl 0 = 0 := by
  have := hfl 0
  simp only [abs_zero, mul_zero, sub_zero] at this
  exact abs_eq_zero.mp (le_antisymm this (abs_nonneg _))

/-- exact dot product and sum of absolute products of two lists (common prefix) -/
def dotQ : List ℚ → List ℚ → ℚ
  | k :: ks, x :: xs => x * k + dotQ ks xs
  | _, _ => 0

def dotAbs : List ℚ → List ℚ → ℚ
  | k :: ks, x :: xs => |x * k| + dotAbs ks xs
  | _, _ => 0

theorem dotAbs_nonneg (ks xs : List ℚ) : 0 ≤ dotAbs ks xs := by
  induction ks generalizing xs with
  | nil => simp [dotAbs]
  | cons k ks ih =>
    cases xs with
    | nil => simp [dotAbs]
    | cons x xs => simp only [dotAbs]; have := ih xs; have := abs_nonneg (x * k); linarith

theorem accF_err_aux (fl : ℚ → ℚ) (u : ℚ) (hu : 0 ≤ u) (hfl : RelErr fl u) (ks xs : List ℚ) (hlen : ks.length = xs.length)
    (s' s T : ℚ) (d : ℕ) (h1 : |s' - s| ≤ gam u d * T) (h2 : |s| ≤ T) :
    |accF fl ks xs s' - (s + dotQ ks xs)| ≤ gam u (d + ks.length) * (T + dotAbs ks xs) := by
  induction ks generalizing xs s' s T d with
  | nil => simpa [accF, dotQ, dotAbs] using h1
  | cons k ks ih =>
    cases xs with
    | nil => simp at hlen
    | cons x xs =>
      simp only [accF, dotQ, dotAbs, List.length_cons]
      have hT : 0 ≤ T := (abs_nonneg _).trans h2
      have hg : 0 ≤ gam u d := gam_nonneg u hu d
      have hp : |fl (x * k) - x * k| ≤ u * |x * k| := hfl _
      have hpa : 0 ≤ |x * k| := abs_nonneg _
      set p := x * k
      set fp := fl p
      have hsum : |s' + fp - (s + p)| ≤ gam u d * T + u * |p| := by
        have : s' + fp - (s + p) = (s' - s) + (fp - p) := by ring
        rw [this]; exact (abs_add_le _ _).trans (by linarith)
      have habs : |s' + fp| ≤ T + |p| + gam u d * T + u * |p| := by
        have : s' + fp = (s + p) + (s' + fp - (s + p)) := by ring
        rw [this]
        refine (abs_add_le _ _).trans ?_
        have := abs_add_le s p
        linarith
      have hr : |fl (s' + fp) - (s' + fp)| ≤ u * |s' + fp| := hfl _
      have hstep : |fl (s' + fp) - (s + p)| ≤ gam u (d + 1) * (T + |p|) := by
        have e : fl (s' + fp) - (s + p) = (fl (s' + fp) - (s' + fp)) + (s' + fp - (s + p)) := by ring
        rw [e]
        refine (abs_add_le _ _).trans ?_
        have h5 : u * |s' + fp| ≤ u * (T + |p| + gam u d * T + u * |p|) := mul_le_mul_of_nonneg_left habs hu
        have h6 : gam u (d + 1) = (1 + u) * gam u d + u := (gam_succ u d).symm
        have h7 : u ≤ gam u d := by
          have := gam_mono u hu (Nat.zero_le d); rwa [gam_zero] at this
        have h8 : 0 ≤ |p| * ((1 + u) * (gam u d - u)) :=
          mul_nonneg hpa (mul_nonneg (by linarith) (by linarith))
        rw [h6]
        linarith
      have hs2 : |s + p| ≤ T + |p| := (abs_add_le _ _).trans (by linarith)
      have := ih xs (by simpa using hlen) (fl (s' + fp)) (s + p) (T + |p|) (d + 1) hstep hs2
      have e1 : s + p + dotQ ks xs = s + (p + dotQ ks xs) := by ring
      have e2 : T + |p| + dotAbs ks xs = T + (|p| + dotAbs ks xs) := by ring
      have e3 : d + 1 + ks.length = d + (ks.length + 1) := by omega
      rw [e1, e2, e3] at this
      exact this

/-- **the portable f64 accumulation**: started at `0.0`, after `n` taps
    `|ŝ − Σxᵢkᵢ| ≤ ((1+u)^(n+1) − 1)·Σ|xᵢkᵢ|` -/
theorem accF_err (fl : ℚ → ℚ) (u : ℚ) (hu : 0 ≤ u) (hfl : RelErr fl u) (ks xs : List ℚ) (hlen : ks.length = xs.length) :
    |accF fl ks xs 0 - dotQ ks xs| ≤ gam u ks.length * dotAbs ks xs := by
  have := accF_err_aux fl u hu hfl ks xs hlen 0 0 0 0 (by simp) (by simp)
  simpa using this

/-- order preservation of the loop: non-negative coefficients, monotone rounding -/
theorem accF_mono (fl : ℚ → ℚ) (hfl : Monotone fl) (ks xs ys : List ℚ) (hk : ∀ k ∈ ks, 0 ≤ k)
    (hxy : List.Forall₂ (· ≤ ·) xs ys) (s s' : ℚ) (hs : s ≤ s') : accF fl ks xs s ≤ accF fl ks ys s' := by
  induction ks generalizing xs ys s s' with
  | nil => simpa [accF] using hs
  | cons k ks ih =>
    cases hxy with
    | nil => simpa [accF] using hs
    | cons hxy0 hrest =>
      simp only [accF]
      exact ih _ _ (fun k' hk' => hk k' (List.mem_cons_of_mem _ hk')) hrest _ _
        (hfl (add_le_add hs (hfl (mul_le_mul_of_nonneg_right hxy0 (hk k (List.mem_cons_self ..))))))

/-! ### the last step of a pass -/

/-- I32: `ss.round() as i32` (no saturation): any integer within 1/2 of the accumulated value -/
theorem finish_i32_err (r : ℤ) (s' s E : ℚ) (h : |s' - s| ≤ E) (hr : |(r : ℚ) - s'| ≤ 1 / 2) :
    |(r : ℚ) - s| ≤ 1 / 2 + E := by
  have : (r : ℚ) - s = ((r : ℚ) - s') + (s' - s) := by ring
  rw [this]; exact (abs_add_le _ _).trans (by linarith)

/-- F32: `ss as f32` is one more rounding, with the unit roundoff `u32 = 2^-24` of binary32 -/
theorem finish_f32_err (fl32 : ℚ → ℚ) (u32 : ℚ) (hu : 0 ≤ u32) (hfl : RelErr fl32 u32) (s' s E : ℚ) (h : |s' - s| ≤ E) :
    |fl32 s' - s| ≤ u32 * (|s| + E) + E := by
  have h1 := hfl s'
  have h2 : |s'| ≤ |s| + E := by
    have : s' = s + (s' - s) := by ring
    rw [this]; exact (abs_add_le _ _).trans (by linarith)
  have : fl32 s' - s = (fl32 s' - s') + (s' - s) := by ring
  rw [this]
  refine (abs_add_le _ _).trans ?_
  have := mul_le_mul_of_nonneg_left h2 hu
  linarith

end Fir.Flt
