/-
  Fir.Proofs.TwoPassLemmas - the two passes of `do_convolution` composed (8-bit order: vertical pass into a
  temporary image, then horizontal pass over it; 16-bit order: horizontal, then vertical): uniformity (C10),
  order preservation (C18) and the accumulated error against the ideal separable filter (C01) for whole images.
-/
import Fir.Model.Resample
import Fir.Model.Resizer
import Fir.Proofs.ImageLemmas
namespace Fir.Proofs
open Fir

/-- an 8-bit / 16-bit pass result is a component value -/
theorem passInt_u8_range (ks xs : List Int) (p : Nat) (hp : p < 32) (hacc : AccOK8 ks xs p) :
    0 ≤ passInt .u8 ks xs p ∧ passInt .u8 ks xs p ≤ 255 := by
  have _hp := hp  -- not needed: `clip8_eq_clamp` holds for every shift
  show 0 ≤ clip8 (2 ^ (p - 1) + dotL ks xs) p ∧ clip8 (2 ^ (p - 1) + dotL ks xs) p ≤ 255
  rw [clip8_eq_clamp _ p hacc]
  omega

theorem passInt_u16_range (ks xs : List Int) (p : Nat) (hp : p < 64) (hacc : AccOK16 ks xs p) :
    0 ≤ passInt .u16 ks xs p ∧ passInt .u16 ks xs p ≤ 65535 := by
  show 0 ≤ clip16 (2 ^ (p - 1) + dotL ks xs) p ∧ clip16 (2 ^ (p - 1) + dotL ks xs) p ≤ 65535
  rw [clip16_eq_clamp _ p hp hacc]
  omega

/-! ### C10: a constant stays constant through both passes -/

/-- 8-bit order (vertical, then horizontal over the temporary image of width `tempW` that starts at source
    column `xFirst`): if every source sample read is `v`, every window of both passes satisfies the
    `QuantOK` inequalities and every horizontal window lies inside the temporary image, the result is `v` -/
theorem twoPass_uniform_u8 (src : Img) (dstW dstH tempW xFirst : Nat) (vc hc : Coeffs) (v : Int)
    (hv0 : 0 ≤ v) (hv : v ≤ 255)
    (hpV1 : 1 ≤ (qOf .u8 vc).precision) (hpV : (qOf .u8 vc).precision ≤ 22)
    (hpH1 : 1 ≤ (qOf .u8 hc).precision) (hpH : (qOf .u8 hc).precision ≤ 22)
    (hreadV : ∀ x y ch, x < tempW → y < dstH → ch < src.n → ∀ s ∈ vWindow .u8 src xFirst vc x y ch, s = v)
    (hqV : ∀ y, y < dstH →
      -(2 ^ ((qOf .u8 vc).precision - 1) : Int) ≤ v * ((chunkAt .u8 vc y).2.toList.sum - 2 ^ (qOf .u8 vc).precision) ∧
      v * ((chunkAt .u8 vc y).2.toList.sum - 2 ^ (qOf .u8 vc).precision) < 2 ^ ((qOf .u8 vc).precision - 1))
    (hfit : ∀ x, x < dstW → (chunkAt .u8 hc x).1 + (chunkAt .u8 hc x).2.size ≤ tempW)
    (hqH : ∀ x, x < dstW →
      -(2 ^ ((qOf .u8 hc).precision - 1) : Int) ≤ v * ((chunkAt .u8 hc x).2.toList.sum - 2 ^ (qOf .u8 hc).precision) ∧
      v * ((chunkAt .u8 hc x).2.toList.sum - 2 ^ (qOf .u8 hc).precision) < 2 ^ ((qOf .u8 hc).precision - 1))
    (x y ch : Nat) (hx : x < dstW) (hy : y < dstH) (hc' : ch < src.n) :
    (horizPass .u8 (vertPass .u8 src tempW dstH xFirst vc) dstW dstH 0 hc).get x y ch = v := by
  refine horizPass_uniform_u8 (vertPass .u8 src tempW dstH xFirst vc) dstW dstH 0 hc v hv0 hv hpH1 hpH
    ?_ hqH x y ch hx hy hc'
  intro x' y' ch' hx' hy' hch' s hs
  unfold hWindow window at hs
  rw [List.mem_map] at hs
  obtain ⟨j, hj, rfl⟩ := hs
  rw [List.mem_range] at hj
  have hf := hfit x' hx'
  exact vertPass_uniform_u8 src tempW dstH xFirst vc v hv0 hv hpV1 hpV hreadV hqV _ _ _
    (by omega) (by omega) hch'

/-- 16-bit order (horizontal into a temporary image of height `tempH` that starts at source row `yFirst`,
    then vertical) -/
theorem twoPass_uniform_u16 (src : Img) (dstW dstH tempH yFirst : Nat) (hc vc : Coeffs) (v : Int)
    (hv0 : 0 ≤ v) (hv : v ≤ 65535)
    (hpH1 : 1 ≤ (qOf .u16 hc).precision) (hpH : (qOf .u16 hc).precision ≤ 46)
    (hpV1 : 1 ≤ (qOf .u16 vc).precision) (hpV : (qOf .u16 vc).precision ≤ 46)
    (hreadH : ∀ x y ch, x < dstW → y < tempH → ch < src.n → ∀ s ∈ hWindow .u16 src yFirst hc x y ch, s = v)
    (hqH : ∀ x, x < dstW →
      -(2 ^ ((qOf .u16 hc).precision - 1) : Int) ≤ v * ((chunkAt .u16 hc x).2.toList.sum - 2 ^ (qOf .u16 hc).precision) ∧
      v * ((chunkAt .u16 hc x).2.toList.sum - 2 ^ (qOf .u16 hc).precision) < 2 ^ ((qOf .u16 hc).precision - 1))
    (hfit : ∀ y, y < dstH → (chunkAt .u16 vc y).1 + (chunkAt .u16 vc y).2.size ≤ tempH)
    (hqV : ∀ y, y < dstH →
      -(2 ^ ((qOf .u16 vc).precision - 1) : Int) ≤ v * ((chunkAt .u16 vc y).2.toList.sum - 2 ^ (qOf .u16 vc).precision) ∧
      v * ((chunkAt .u16 vc y).2.toList.sum - 2 ^ (qOf .u16 vc).precision) < 2 ^ ((qOf .u16 vc).precision - 1))
    (x y ch : Nat) (hx : x < dstW) (hy : y < dstH) (hc' : ch < src.n) :
    (vertPass .u16 (horizPass .u16 src dstW tempH yFirst hc) dstW dstH 0 vc).get x y ch = v := by
  refine vertPass_uniform_u16 (horizPass .u16 src dstW tempH yFirst hc) dstW dstH 0 vc v hv0 hv hpV1 hpV
    ?_ hqV x y ch hx hy hc'
  intro x' y' ch' hx' hy' hch' s hs
  unfold vWindow window at hs
  rw [List.mem_map] at hs
  obtain ⟨j, hj, rfl⟩ := hs
  rw [List.mem_range] at hj
  have hf := hfit y' hy'
  exact horizPass_uniform_u16 src dstW tempH yFirst hc v hv0 hv hpH1 hpH hreadH hqH _ _ _
    (by omega) (by omega) hch'

/-! ### C18: order preservation through both passes (8-bit order) -/

/-- `horizPass_monotone_u8` with the pointwise order only required for the samples actually read -/
theorem horizPass_monotone_u8_inrange (src src' : Img) (dstW dstH offset : Nat) (c : Coeffs) (hn : src.n = src'.n)
    (hp : (qOf .u8 c).precision < 32)
    (hk : ∀ x, x < dstW → ∀ k ∈ (chunkAt .u8 c x).2.toList, 0 ≤ k)
    (hle : ∀ x y ch j, x < dstW → y < dstH → ch < src.n → j < (chunkAt .u8 c x).2.size →
      src.get ((chunkAt .u8 c x).1 + j) (offset + y) ch ≤ src'.get ((chunkAt .u8 c x).1 + j) (offset + y) ch)
    (hacc : ∀ x y ch, x < dstW → y < dstH → ch < src.n →
      AccOK8 (chunkAt .u8 c x).2.toList (hWindow .u8 src offset c x y ch) (qOf .u8 c).precision ∧
      AccOK8 (chunkAt .u8 c x).2.toList (hWindow .u8 src' offset c x y ch) (qOf .u8 c).precision)
    (x y ch : Nat) (hx : x < dstW) (hy : y < dstH) (hc : ch < src.n) :
    (horizPass .u8 src dstW dstH offset c).get x y ch ≤ (horizPass .u8 src' dstW dstH offset c).get x y ch := by
  have hc' : ch < src'.n := hn ▸ hc
  rw [horizPass_get .u8 (by simp) src dstW dstH offset c x y ch hx hy hc,
    horizPass_get .u8 (by simp) src' dstW dstH offset c x y ch hx hy hc']
  obtain ⟨h1, h2⟩ := hacc x y ch hx hy hc
  refine pass_monotone_u8 _ _ _ _ hp (hk x hx) ?_ ?_ h1 h2
  · rw [hWindow_length, hWindow_length]
  · intro i hi
    unfold hWindow at hi ⊢
    rw [window_length] at hi
    rw [window_getD _ _ _ hi, window_getD _ _ _ hi]
    exact hle x y ch i hx hy hc hi

theorem twoPass_monotone_u8 (src src' : Img) (dstW dstH tempW xFirst : Nat) (vc hc : Coeffs) (hn : src.n = src'.n)
    (hpV : (qOf .u8 vc).precision < 32) (hpH : (qOf .u8 hc).precision < 32)
    (hkV : ∀ y, y < dstH → ∀ k ∈ (chunkAt .u8 vc y).2.toList, 0 ≤ k)
    (hkH : ∀ x, x < dstW → ∀ k ∈ (chunkAt .u8 hc x).2.toList, 0 ≤ k)
    (hle : ∀ x y ch j, src.get (xFirst + x) ((chunkAt .u8 vc y).1 + j) ch ≤ src'.get (xFirst + x) ((chunkAt .u8 vc y).1 + j) ch)
    (haccV : ∀ x y ch, x < tempW → y < dstH → ch < src.n →
      AccOK8 (chunkAt .u8 vc y).2.toList (vWindow .u8 src xFirst vc x y ch) (qOf .u8 vc).precision ∧
      AccOK8 (chunkAt .u8 vc y).2.toList (vWindow .u8 src' xFirst vc x y ch) (qOf .u8 vc).precision)
    (hfit : ∀ x, x < dstW → (chunkAt .u8 hc x).1 + (chunkAt .u8 hc x).2.size ≤ tempW)
    (haccH : ∀ x y ch, x < dstW → y < dstH → ch < src.n →
      AccOK8 (chunkAt .u8 hc x).2.toList (hWindow .u8 (vertPass .u8 src tempW dstH xFirst vc) 0 hc x y ch) (qOf .u8 hc).precision ∧
      AccOK8 (chunkAt .u8 hc x).2.toList (hWindow .u8 (vertPass .u8 src' tempW dstH xFirst vc) 0 hc x y ch) (qOf .u8 hc).precision)
    (x y ch : Nat) (hx : x < dstW) (hy : y < dstH) (hc' : ch < src.n) :
    (horizPass .u8 (vertPass .u8 src tempW dstH xFirst vc) dstW dstH 0 hc).get x y ch
      ≤ (horizPass .u8 (vertPass .u8 src' tempW dstH xFirst vc) dstW dstH 0 hc).get x y ch := by
  refine horizPass_monotone_u8_inrange (vertPass .u8 src tempW dstH xFirst vc) (vertPass .u8 src' tempW dstH xFirst vc)
    dstW dstH 0 hc hn hpH hkH ?_ haccH x y ch hx hy hc'
  intro x' y' ch' j hx' hy' hch' hj
  have hf := hfit x' hx'
  exact vertPass_monotone_u8 src src' tempW dstH xFirst vc hn hpV hkV hle haccV _ _ _
    (by omega) (by omega) hch'

/-! ### C01: accumulated error of both passes (8-bit order) -/

/-- ideal value over rational samples -/
def idealDotQQ (ws : List ℚ) (xs : List ℚ) : ℚ := (List.zipWith (· * ·) ws xs).sum

/-- the conversion with the cast applied by a plain `List.map` (the form used in the proofs below) -/
theorem idealDotQ_eq_QQ_map (ws : List ℚ) (xs : List Int) :
    idealDotQ ws xs = idealDotQQ ws (xs.map fun (x : Int) => (x : ℚ)) := by
  unfold idealDotQ idealDotQQ
  rw [List.zipWith_map_right]

theorem idealDotQ_eq_QQ (ws : List ℚ) (xs : List Int) : idealDotQ ws xs = idealDotQQ ws (xs.map fun x => (x : ℚ)) := by
  rw [idealDotQ_eq_QQ_map]
  congr 1
  induction xs with
  | nil => rfl
  | cons a t ih => simpa using ih

/-- the ideal (exact rational, clamped to the component range after each pass as the 8-bit pipeline does)
    temporary sample at temporary column `tx`, destination row `y` -/
def idealTemp8 (src : Img) (xFirst : Nat) (vc : Coeffs) (wsV : Nat → List ℚ) (tx y ch : Nat) : ℚ :=
  max 0 (min 255 (idealDotQ (wsV y) (vWindow .u8 src xFirst vc tx y ch)))

/-- the ideal separable result at destination pixel (x, y) -/
def idealTwoPass8 (src : Img) (xFirst : Nat) (vc hc : Coeffs) (wsV wsH : Nat → List ℚ) (x y ch : Nat) : ℚ :=
  max 0 (min 255 (idealDotQQ (wsH x)
    ((List.range (chunkAt .u8 hc x).2.size).map fun j => idealTemp8 src xFirst vc wsV ((chunkAt .u8 hc x).1 + j) y ch)))

/-- every component of the model's two-pass 8-bit result is within
    `(1/2 + n_H·255/2^(p_H+1)) + Σ|w^H|·(1/2 + n_V·255/2^(p_V+1))` of the ideal separable filter -/
theorem twoPass_err_u8 (src : Img) (dstW dstH tempW xFirst : Nat) (vc hc : Coeffs) (wsV wsH : Nat → List ℚ)
    (hpV1 : 1 ≤ (qOf .u8 vc).precision) (hpV : (qOf .u8 vc).precision < 32)
    (hpH1 : 1 ≤ (qOf .u8 hc).precision) (hpH : (qOf .u8 hc).precision < 32)
    (hlenV : ∀ y, y < dstH → (chunkAt .u8 vc y).2.toList.length = (wsV y).length)
    (hqV : ∀ y, y < dstH → ∀ i, i < (wsV y).length →
      |(((chunkAt .u8 vc y).2.toList.getD i 0 : Int) : ℚ) - (wsV y).getD i 0 * 2 ^ (qOf .u8 vc).precision| ≤ 1 / 2)
    (hsamp : ∀ x y ch, x < tempW → y < dstH → ch < src.n → ∀ s ∈ vWindow .u8 src xFirst vc x y ch, 0 ≤ s ∧ s ≤ 255)
    (haccV : ∀ x y ch, x < tempW → y < dstH → ch < src.n →
      AccOK8 (chunkAt .u8 vc y).2.toList (vWindow .u8 src xFirst vc x y ch) (qOf .u8 vc).precision)
    (hlenH : ∀ x, x < dstW → (chunkAt .u8 hc x).2.toList.length = (wsH x).length)
    (hqH : ∀ x, x < dstW → ∀ i, i < (wsH x).length →
      |(((chunkAt .u8 hc x).2.toList.getD i 0 : Int) : ℚ) - (wsH x).getD i 0 * 2 ^ (qOf .u8 hc).precision| ≤ 1 / 2)
    (hfit : ∀ x, x < dstW → (chunkAt .u8 hc x).1 + (chunkAt .u8 hc x).2.size ≤ tempW)
    (haccH : ∀ x y ch, x < dstW → y < dstH → ch < src.n →
      AccOK8 (chunkAt .u8 hc x).2.toList (hWindow .u8 (vertPass .u8 src tempW dstH xFirst vc) 0 hc x y ch) (qOf .u8 hc).precision)
    (x y ch : Nat) (hx : x < dstW) (hy : y < dstH) (hc' : ch < src.n) :
    |(((horizPass .u8 (vertPass .u8 src tempW dstH xFirst vc) dstW dstH 0 hc).get x y ch : Int) : ℚ)
        - idealTwoPass8 src xFirst vc hc wsV wsH x y ch|
      ≤ (1 / 2 + ((wsH x).length : ℚ) * 255 / 2 ^ ((qOf .u8 hc).precision + 1))
        + ((wsH x).map (|·|)).sum * (1 / 2 + ((wsV y).length : ℚ) * 255 / 2 ^ ((qOf .u8 vc).precision + 1)) := by
  have hf := hfit x hx
  have hsz : (chunkAt .u8 hc x).2.size = (wsH x).length := by
    rw [← hlenH x hx, Array.length_toList]
  -- first term: the horizontal pass against the clamped ideal filter over the integer temporaries
  have h1 := horizPass_err_u8 (vertPass .u8 src tempW dstH xFirst vc) dstW dstH 0 hc wsH hpH1 hpH hlenH hqH
    (by
      intro x' y' ch' hx' hy' hch' s hs
      unfold hWindow window at hs
      rw [List.mem_map] at hs
      obtain ⟨j, hj, rfl⟩ := hs
      rw [List.mem_range] at hj
      have hf' := hfit x' hx'
      have htx : (chunkAt .u8 hc x').1 + j < tempW := by omega
      have hy0 : 0 + y' < dstH := by omega
      rw [vertPass_get .u8 (by simp) src tempW dstH xFirst vc _ _ ch' htx hy0 hch']
      exact passInt_u8_range _ _ _ hpV (haccV _ _ ch' htx hy0 hch'))
    haccH x y ch hx hy hc'
  -- second term: the pointwise error of the temporaries amplified by Σ|w^H|
  have h2 : |max 0 (min 255 (idealDotQ (wsH x) (hWindow .u8 (vertPass .u8 src tempW dstH xFirst vc) 0 hc x y ch)))
        - idealTwoPass8 src xFirst vc hc wsV wsH x y ch|
      ≤ ((wsH x).map (|·|)).sum * (1 / 2 + ((wsV y).length : ℚ) * 255 / 2 ^ ((qOf .u8 vc).precision + 1)) := by
    unfold idealTwoPass8
    refine (clamp_lipschitz 0 255 (by norm_num) _ _).trans ?_
    rw [idealDotQ_eq_QQ_map]
    unfold idealDotQQ
    refine two_pass_err (wsH x) _ _ _ ?_ ?_ ?_
    · rw [List.length_map, hWindow_length, hlenH x hx]
    · rw [List.length_map, List.length_range, hsz]
    · intro i hi
      have hi' : i < (chunkAt .u8 hc x).2.size := by omega
      have htx : (chunkAt .u8 hc x).1 + i < tempW := by omega
      have hy0 : 0 + y < dstH := by omega
      have e1 : ((hWindow .u8 (vertPass .u8 src tempW dstH xFirst vc) 0 hc x y ch).map
            fun (x : Int) => (x : ℚ)).getD i 0
          = (((vertPass .u8 src tempW dstH xFirst vc).get ((chunkAt .u8 hc x).1 + i) (0 + y) ch : Int) : ℚ) := by
        simp [hWindow, window, List.getD_eq_getElem?_getD, hi']
      have e2 : ((List.range (chunkAt .u8 hc x).2.size).map
            fun j => idealTemp8 src xFirst vc wsV ((chunkAt .u8 hc x).1 + j) y ch).getD i 0
          = idealTemp8 src xFirst vc wsV ((chunkAt .u8 hc x).1 + i) y ch := by
        simp [List.getD_eq_getElem?_getD, hi']
      rw [e1, e2]
      have h3 := vertPass_err_u8 src tempW dstH xFirst vc wsV hpV1 hpV hlenV hqV hsamp haccV
        ((chunkAt .u8 hc x).1 + i) (0 + y) ch htx hy0 hc'
      rw [Nat.zero_add] at h3 ⊢
      exact h3
  have htri := abs_sub_le
    ((((horizPass .u8 (vertPass .u8 src tempW dstH xFirst vc) dstW dstH 0 hc).get x y ch : Int) : ℚ))
    (max 0 (min 255 (idealDotQ (wsH x) (hWindow .u8 (vertPass .u8 src tempW dstH xFirst vc) 0 hc x y ch))))
    (idealTwoPass8 src xFirst vc hc wsV wsH x y ch)
  linarith

/-! ### the link to `doConvolution` (float-oblivious: the Boolean outcomes of the float tests are hypotheses) -/

/-- when both passes are needed and the pixel type is 8-bit, `doConvolution` IS the composition the
    theorems above speak about (temporary image = columns `[boundsFirst, boundsLast)` of the vertical pass,
    horizontal windows shifted by `boundsFirst`) -/
theorem doConvolution_two_pass_u8 (p : PixT) (hk : p.kind = .u8) (src prev : Img) (cl ct cw ch : Float) (f : FilterSpec) (adaptive : Bool)
    (hw : prev.w ≠ 0) (hh : prev.h ≠ 0) (hcw : (cw ≤ 0.0) = false) (hch : (ch ≤ 0.0) = false)
    (hneedH : (Float.ofNat prev.w != cw || cl != cl.round) = true)
    (hneedV : (Float.ofNat prev.h != ch || ct != ct.round) = true)
    (htemp : boundsLast (precomputeCoefficients src.w cl (cl + cw) prev.w f adaptive)
              - boundsFirst (precomputeCoefficients src.w cl (cl + cw) prev.w f adaptive) ≠ 0) :
    let hc := precomputeCoefficients src.w cl (cl + cw) prev.w f adaptive
    let vc := precomputeCoefficients src.h ct (ct + ch) prev.h f adaptive
    doConvolution p src cl ct cw ch prev f adaptive =
      horizPass .u8 (vertPass .u8 src (boundsLast hc - boundsFirst hc) prev.h (boundsFirst hc) vc) prev.w prev.h 0
        { hc with bounds := hc.bounds.map fun b => (b.1 - boundsFirst hc, b.2) } := by
  intro hc vc
  have hcw' : ¬ cw ≤ 0.0 := by simpa using hcw
  have hch' : ¬ ch ≤ 0.0 := by simpa using hch
  have hne : ¬ (prev.w = 0 ∨ prev.h = 0 ∨ cw ≤ 0.0 ∨ ch ≤ 0.0) := by
    rintro (h | h | h | h)
    · exact hw h
    · exact hh h
    · exact hcw' h
    · exact hch' h
  have hk' : (p.kind == CKind.u8) = true := by rw [hk]; rfl
  unfold doConvolution
  simp only [if_neg hne, hneedH, hneedV, ite_true, hk', if_neg htemp]
  rw [hk]
  rfl

end Fir.Proofs
