/-
  Fir.Proofs.SimdU16x1ALemmas - the AVX2 one-row horizontal kernel for single-channel 16-bit images (`Fir.Model.SimdU16x1A`)
  equals the portable kernel: each half of its masks is the SSE4.1 mask, so each half of a step is an SSE4.1 step (`Step16`
  lemmas of Fir.Proofs.SimdU16x1Lemmas); the four lanes together gain the dot product of the coefficients consumed (`StepC`).
  (The case analysis over the 16 remainder lengths is generated text.)
-/
import Fir.Model.SimdU16x1A
import Fir.Proofs.SimdU16x1Lemmas
import Mathlib.Tactic.Ring
import Mathlib.Tactic.Linarith

set_option linter.unnecessarySeqFocus false
set_option linter.unreachableTactic false
set_option linter.unusedTactic false
set_option linter.unusedSimpArgs false
set_option linter.unusedVariables false

namespace Fir.Proofs.U16x1A
open Fir Fir.SimdU16x1 Fir.SimdU16x1A Fir.Gen Fir.Proofs Fir.Proofs.U16x1
open Fir.SimdU8x4 (wrap32 pshufb)
open Fir.SimdVertU16 (wrap64 s32 add64)

theorem masks_lo : u16x1_avx2_one_l01_lo = u16x1_sse4_l01 ∧ u16x1_avx2_one_l23_lo = u16x1_sse4_l23 ∧
    u16x1_avx2_one_l45_lo = u16x1_sse4_l45 ∧ u16x1_avx2_one_l67_lo = u16x1_sse4_l67 := by
  refine ⟨?_, ?_, ?_, ?_⟩ <;> decide

theorem masks_hi : u16x1_avx2_one_l01_hi = u16x1_sse4_l01 ∧ u16x1_avx2_one_l23_hi = u16x1_sse4_l23 ∧
    u16x1_avx2_one_l45_hi = u16x1_sse4_l45 ∧ u16x1_avx2_one_l67_hi = u16x1_sse4_l67 := by
  refine ⟨?_, ?_, ?_, ?_⟩ <;> decide

theorem g8_sse (s row : List Int) (x : Nat) (k : List Int) :
    g8 u16x1_sse4_l01 u16x1_sse4_l23 u16x1_sse4_l45 u16x1_sse4_l67 s (src16 row x 8) k = SimdU16x1.acc8 s row x k := rfl
theorem g4_sse (s row : List Int) (x : Nat) (k : List Int) :
    g4 u16x1_sse4_l01 u16x1_sse4_l23 s (src16 row x 4) k = SimdU16x1.acc4 s row x k := rfl
theorem g2_sse (s row : List Int) (x : Nat) (k : List Int) :
    g2 u16x1_sse4_l01 s (src16 row x 2) k = SimdU16x1.acc2 s row x k := rfl

theorem w64_zero : wrap64 0 = 0 := by decide

theorem g2_zero (t0 t1 : Int) : g2 u16x1_sse4_l01 [wrap64 t0, wrap64 t1] zeros [0, 0] = [wrap64 (t0 + 0), wrap64 (t1 + 0)] := by
  simp only [g2, zeros, add64, mul2, pshufb, u16x1_sse4_l01,
    List.range, List.range.loop, List.map, List.replicate, List.getD_cons_succ, List.getD_cons_zero, List.zipWith]
  simp [s32_zero, w32_zero, w64_idem, w64_zero]

theorem one_lo (t0 t1 : Int) (row : List Int) (x : Nat) (k : Int) :
    add64 [wrap64 t0, wrap64 t1] (mul2 (src16 row x 1) k k) = [wrap64 (t0 + row.getD (x + 0) 0 % 65536 * wrap32 k), wrap64 (t1 + 0)] := by
  simp only [src16, add64, mul2,
    List.range, List.range.loop, List.map, List.flatMap_cons, List.flatMap_nil, List.append_nil, List.replicate,
    List.cons_append, List.nil_append, List.getD_cons_succ, List.getD_cons_zero, List.zipWith]
  simp [s32_u16, s32_zero, w64_add_left, w64_add_right, w64_idem, w64_zero]

theorem one_hi (t0 t1 : Int) (k : Int) : add64 [wrap64 t0, wrap64 t1] (mul2 zeros k k) = [wrap64 (t0 + 0), wrap64 (t1 + 0)] := by
  simp only [zeros, add64, mul2, List.replicate, List.getD_cons_succ, List.getD_cons_zero, List.zipWith]
  simp [s32_zero, w64_idem, w64_zero]

def st (a0 a1 b0 b1 : Int) : St2 := ([wrap64 a0, wrap64 a1], [wrap64 b0, wrap64 b1])

def StepC (row : List Int) (f : St2 → St2) (ks : List Int) (x : Nat) : Prop :=
  ∀ a0 a1 b0 b1 : Int, ∃ e0 e1 d0 d1 : Int,
    f (st a0 a1 b0 b1) = st (a0 + e0) (a1 + e1) (b0 + d0) (b1 + d1) ∧ e0 + e1 + d0 + d1 = dot16 row ks x

theorem StepC.id (row : List Int) (x : Nat) : StepC row (fun s => s) [] x := by
  intro a0 a1 b0 b1; exact ⟨0, 0, 0, 0, by simp, by simp [dot16]⟩

theorem StepC.comp {row : List Int} {f g : St2 → St2} {ks1 ks2 : List Int} {x : Nat}
    (hf : StepC row f ks1 x) (hg : StepC row g ks2 (x + ks1.length)) :
    StepC row (fun s => g (f s)) (ks1 ++ ks2) x := by
  intro a0 a1 b0 b1
  obtain ⟨e0, e1, d0, d1, hfe, h0⟩ := hf a0 a1 b0 b1
  obtain ⟨e0', e1', d0', d1', hge, h0'⟩ := hg (a0 + e0) (a1 + e1) (b0 + d0) (b1 + d1)
  refine ⟨e0 + e0', e1 + e1', d0 + d0', d1 + d1', ?_, ?_⟩
  · simp only [hfe, hge, add_assoc]
  · rw [dot16_append]; linarith

theorem step16 (row : List Int) (x : Nat) (k0 k1 k2 k3 k4 k5 k6 k7 k8 k9 k10 k11 k12 k13 k14 k15 : Int) :
    StepC row (fun s => acc16A s row x [k0, k1, k2, k3, k4, k5, k6, k7, k8, k9, k10, k11, k12, k13, k14, k15]) [k0, k1, k2, k3, k4, k5, k6, k7, k8, k9, k10, k11, k12, k13, k14, k15] x := by
  intro a0 a1 b0 b1
  obtain ⟨e0, e1, h1, hs1⟩ := U16x1.step8 row x k0 k1 k2 k3 k4 k5 k6 k7 a0 a1
  obtain ⟨d0, d1, h2, hs2⟩ := U16x1.step8 row (x + 8) k8 k9 k10 k11 k12 k13 k14 k15 b0 b1
  beta_reduce at h1 h2
  refine ⟨e0, e1, d0, d1, ?_, ?_⟩
  · simp only [acc16A, st, masks_lo.1, masks_lo.2.1, masks_lo.2.2.1, masks_lo.2.2.2, masks_hi.1, masks_hi.2.1, masks_hi.2.2.1, masks_hi.2.2.2, List.take, List.drop, g8_sse, h1, h2]
  · have := dot16_append row [k0, k1, k2, k3, k4, k5, k6, k7] [k8, k9, k10, k11, k12, k13, k14, k15] x
    simp only [List.cons_append, List.nil_append, List.length_cons, List.length_nil] at this
    rw [this]; linarith

theorem step8 (row : List Int) (x : Nat) (k0 k1 k2 k3 k4 k5 k6 k7 : Int) :
    StepC row (fun s => acc8A s row x [k0, k1, k2, k3, k4, k5, k6, k7]) [k0, k1, k2, k3, k4, k5, k6, k7] x := by
  intro a0 a1 b0 b1
  obtain ⟨e0, e1, h1, hs1⟩ := U16x1.step4 row x k0 k1 k2 k3 a0 a1
  obtain ⟨d0, d1, h2, hs2⟩ := U16x1.step4 row (x + 4) k4 k5 k6 k7 b0 b1
  beta_reduce at h1 h2
  refine ⟨e0, e1, d0, d1, ?_, ?_⟩
  · simp only [acc8A, st, masks_lo.1, masks_lo.2.1, masks_hi.1, masks_hi.2.1, List.take, List.drop, g4_sse, h1, h2]
  · have := dot16_append row [k0, k1, k2, k3] [k4, k5, k6, k7] x
    simp only [List.cons_append, List.nil_append, List.length_cons, List.length_nil] at this
    rw [this]; linarith

theorem step4 (row : List Int) (x : Nat) (k0 k1 k2 k3 : Int) :
    StepC row (fun s => acc4A s row x [k0, k1, k2, k3]) [k0, k1, k2, k3] x := by
  intro a0 a1 b0 b1
  obtain ⟨e0, e1, h1, hs1⟩ := U16x1.step2 row x k0 k1 a0 a1
  obtain ⟨d0, d1, h2, hs2⟩ := U16x1.step2 row (x + 2) k2 k3 b0 b1
  beta_reduce at h1 h2
  refine ⟨e0, e1, d0, d1, ?_, ?_⟩
  · simp only [acc4A, st, masks_lo.1, masks_hi.1, List.take, List.drop, g2_sse, h1, h2]
  · have := dot16_append row [k0, k1] [k2, k3] x
    simp only [List.cons_append, List.nil_append, List.length_cons, List.length_nil] at this
    rw [this]; linarith

theorem step2 (row : List Int) (x : Nat) (k0 k1 : Int) :
    StepC row (fun s => acc2A s row x [k0, k1]) [k0, k1] x := by
  intro a0 a1 b0 b1
  obtain ⟨e0, e1, h1, hs1⟩ := U16x1.step2 row x k0 k1 a0 a1
  beta_reduce at h1
  refine ⟨e0, e1, 0, 0, ?_, ?_⟩
  · simp only [acc2A, st, masks_lo.1, masks_hi.1, g2_sse, h1, g2_zero]
  · linarith

theorem step1 (row : List Int) (x : Nat) (k : Int) :
    StepC row (fun s => acc1A s row x k) [k] x := by
  intro a0 a1 b0 b1
  refine ⟨row.getD (x + 0) 0 % 65536 * wrap32 k, 0, 0, 0, ?_, ?_⟩
  · simp only [acc1A, st, one_lo, one_hi]
  · simp only [dot16]; ring_nf

theorem loopA_ok (row : List Int) : ∀ (n : Nat) (ks : List Int), ks.length ≤ n → ∀ x : Nat,
    StepC row (fun s => loopA row ks x s) ks x := by
  intro n
  induction n with
  | zero =>
    intro ks hn x
    have : ks = [] := List.eq_nil_of_length_eq_zero (by omega)
    subst this
    simpa [loopA] using StepC.id row x
  | succ n ih =>
    intro ks hn x
    match ks, hn with
    | [], _ => simpa [loopA] using StepC.id row x
    | [k0], _ =>
      have := (step1 row (x + 0) k0)
      simpa [loopA] using this
    | [k0, k1], _ =>
      have := (step2 row (x + 0) k0 k1)
      simpa [loopA] using this
    | [k0, k1, k2], _ =>
      have := (StepC.comp (step2 row (x + 0) k0 k1) (step1 row (x + 2) k2))
      simpa [loopA] using this
    | [k0, k1, k2, k3], _ =>
      have := (step4 row (x + 0) k0 k1 k2 k3)
      simpa [loopA] using this
    | [k0, k1, k2, k3, k4], _ =>
      have := (StepC.comp (step4 row (x + 0) k0 k1 k2 k3) (step1 row (x + 4) k4))
      simpa [loopA] using this
    | [k0, k1, k2, k3, k4, k5], _ =>
      have := (StepC.comp (step4 row (x + 0) k0 k1 k2 k3) (step2 row (x + 4) k4 k5))
      simpa [loopA] using this
    | [k0, k1, k2, k3, k4, k5, k6], _ =>
      have := (StepC.comp (StepC.comp (step4 row (x + 0) k0 k1 k2 k3) (step2 row (x + 4) k4 k5)) (step1 row (x + 6) k6))
      simpa [loopA] using this
    | [k0, k1, k2, k3, k4, k5, k6, k7], _ =>
      have := (step8 row (x + 0) k0 k1 k2 k3 k4 k5 k6 k7)
      simpa [loopA] using this
    | [k0, k1, k2, k3, k4, k5, k6, k7, k8], _ =>
      have := (StepC.comp (step8 row (x + 0) k0 k1 k2 k3 k4 k5 k6 k7) (step1 row (x + 8) k8))
      simpa [loopA] using this
    | [k0, k1, k2, k3, k4, k5, k6, k7, k8, k9], _ =>
      have := (StepC.comp (step8 row (x + 0) k0 k1 k2 k3 k4 k5 k6 k7) (step2 row (x + 8) k8 k9))
      simpa [loopA] using this
    | [k0, k1, k2, k3, k4, k5, k6, k7, k8, k9, k10], _ =>
      have := (StepC.comp (StepC.comp (step8 row (x + 0) k0 k1 k2 k3 k4 k5 k6 k7) (step2 row (x + 8) k8 k9)) (step1 row (x + 10) k10))
      simpa [loopA] using this
    | [k0, k1, k2, k3, k4, k5, k6, k7, k8, k9, k10, k11], _ =>
      have := (StepC.comp (step8 row (x + 0) k0 k1 k2 k3 k4 k5 k6 k7) (step4 row (x + 8) k8 k9 k10 k11))
      simpa [loopA] using this
    | [k0, k1, k2, k3, k4, k5, k6, k7, k8, k9, k10, k11, k12], _ =>
      have := (StepC.comp (StepC.comp (step8 row (x + 0) k0 k1 k2 k3 k4 k5 k6 k7) (step4 row (x + 8) k8 k9 k10 k11)) (step1 row (x + 12) k12))
      simpa [loopA] using this
    | [k0, k1, k2, k3, k4, k5, k6, k7, k8, k9, k10, k11, k12, k13], _ =>
      have := (StepC.comp (StepC.comp (step8 row (x + 0) k0 k1 k2 k3 k4 k5 k6 k7) (step4 row (x + 8) k8 k9 k10 k11)) (step2 row (x + 12) k12 k13))
      simpa [loopA] using this
    | [k0, k1, k2, k3, k4, k5, k6, k7, k8, k9, k10, k11, k12, k13, k14], _ =>
      have := (StepC.comp (StepC.comp (StepC.comp (step8 row (x + 0) k0 k1 k2 k3 k4 k5 k6 k7) (step4 row (x + 8) k8 k9 k10 k11)) (step2 row (x + 12) k12 k13)) (step1 row (x + 14) k14))
      simpa [loopA] using this
    | k0 :: k1 :: k2 :: k3 :: k4 :: k5 :: k6 :: k7 :: k8 :: k9 :: k10 :: k11 :: k12 :: k13 :: k14 :: k15 :: rest, hn =>
      have := StepC.comp (step16 row x k0 k1 k2 k3 k4 k5 k6 k7 k8 k9 k10 k11 k12 k13 k14 k15) (ih rest (by simp at hn; omega) (x + 16))
      simpa [loopA] using this

/-- **the AVX2 one-row kernel for single-channel 16-bit images equals the portable kernel** -/
theorem pixelA_eq_portable (p : Nat) (row : List Int) (start : Nat) (ks : List Int) :
    pixelA p row start ks = clip16 (2 ^ (p - 1) + dot16 row ks start) p := by
  unfold pixelA
  simp only
  have h0 : (([0, 0], [0, 0]) : St2) = st 0 0 0 0 := by decide
  rw [h0]
  obtain ⟨e0, e1, d0, d1, hrun, hs⟩ := loopA_ok row ks.length ks (le_refl _) start 0 0 0 0
  beta_reduce at hrun
  rw [hrun]
  simp only [st, List.getD_cons_succ, List.getD_cons_zero, zero_add]
  unfold clip16
  apply congrArg (fun v => ((clip32 v p : Nat) : Int))
  apply wrapInt_congr
  have h1 : wrap64 e0 % 2 ^ 64 = e0 % 2 ^ 64 := wrapInt_emod 64 e0
  have h2 : wrap64 e1 % 2 ^ 64 = e1 % 2 ^ 64 := wrapInt_emod 64 e1
  have h3 : wrap64 d0 % 2 ^ 64 = d0 % 2 ^ 64 := wrapInt_emod 64 d0
  have h4 : wrap64 d1 % 2 ^ 64 = d1 % 2 ^ 64 := wrapInt_emod 64 d1
  have h5 : wrap64 (2 ^ (p - 1)) % 2 ^ 64 = 2 ^ (p - 1) % 2 ^ 64 := wrapInt_emod 64 (2 ^ (p - 1))
  have h6 : wrap64 (wrap64 e0 + wrap64 e1) % 2 ^ 64 = (wrap64 e0 + wrap64 e1) % 2 ^ 64 := wrapInt_emod 64 _
  have h7 : wrap64 (wrap64 (wrap64 e0 + wrap64 e1) + wrap64 d0) % 2 ^ 64 = (wrap64 (wrap64 e0 + wrap64 e1) + wrap64 d0) % 2 ^ 64 :=
    wrapInt_emod 64 _
  have h8 : wrap64 (wrap64 (wrap64 (wrap64 e0 + wrap64 e1) + wrap64 d0) + wrap64 d1) % 2 ^ 64
      = (wrap64 (wrap64 (wrap64 e0 + wrap64 e1) + wrap64 d0) + wrap64 d1) % 2 ^ 64 := wrapInt_emod 64 _
  rw [← hs]
  generalize (2 : Int) ^ (p - 1) = c at *
  generalize wrap64 (wrap64 (wrap64 (wrap64 e0 + wrap64 e1) + wrap64 d0) + wrap64 d1) = s3 at *
  generalize wrap64 (wrap64 (wrap64 e0 + wrap64 e1) + wrap64 d0) = s2 at *
  generalize wrap64 (wrap64 e0 + wrap64 e1) = s1 at *
  generalize wrap64 e0 = w0 at *
  generalize wrap64 e1 = w1 at *
  generalize wrap64 d0 = w2 at *
  generalize wrap64 d1 = w3 at *
  generalize wrap64 c = wc at *
  omega

end Fir.Proofs.U16x1A
