/- what is checked for every 16-bit value by the chunk modules -/
import Fir.Model.SoftF32
namespace Fir.Proofs.RT16
open Fir.Soft

/-- dyadic order `m1·2^e1 ≤ m2·2^e2` (both non-negative) -/
def dyLe (a b : Nat × Nat) : Bool := decide (a.1 * 2 ^ a.2 ≤ b.1 * 2 ^ b.2)

/-- per-value facts: u16 -> f32 -> u16 is the identity, u16 -> f32 is monotone at `x`, the result is a
    normalised binary32 number (or zero), and it survives the trip through its IEEE bit pattern -/
def u16Ok (x : Nat) : Bool :=
  let f := unsignedToF32 65535 x
  f32ToUnsigned 65535 f == x &&
  dyLe f (unsignedToF32 65535 (x + 1)) &&
  (x == 0 || (decide (8388608 ≤ f.1) && decide (f.1 < 16777216) && ofBits (toBits f) == f))

end Fir.Proofs.RT16
