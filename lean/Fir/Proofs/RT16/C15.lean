/- generated chunk 15 of the complete-domain check of the u16 <-> f32 soft-float conversions
   (split into 16 modules so that lake checks them in parallel; see Fir/Proofs/RT16.lean) -/
import Fir.Proofs.RT16.Def
namespace Fir.Proofs.RT16
theorem chunk15 : (List.range 16).all (fun hi => (List.range 256).all (fun lo => u16Ok (61440 + 256 * hi + lo))) = true := by
  decide +kernel
end Fir.Proofs.RT16
