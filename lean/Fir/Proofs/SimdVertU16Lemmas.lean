/-
  Fir.Proofs.SimdVertU16Lemmas - the SSE4.1 vertical pass for 16-bit components (`Fir.Model.SimdVertU16`) equals
  the portable kernel: every row adds `component * coefficient` (mod 2^64) to the lane of its component.
-/
import Fir.Model.SimdVertU16
import Fir.Model.Resample
import Fir.Proofs.SimdU8x4Lemmas

set_option linter.unnecessarySeqFocus false
set_option linter.unreachableTactic false
set_option linter.unusedTactic false
set_option linter.unusedSimpArgs false

namespace Fir.Proofs
open Fir Fir.SimdU8x4 Fir.SimdVertU16 Fir.Gen

theorem s32_u16 (v : Int) : s32 (v % 256) (v / 256 % 256) 0 0 = v % 65536 := by
  unfold s32; simp only; split <;> omega

theorem w64_add_left (a b : Int) : wrap64 (wrap64 a + b) = wrap64 (a + b) := wrapInt_add 64 a b
theorem w64_add_right (a b : Int) : wrap64 (a + wrap64 b) = wrap64 (a + b) := by
  rw [add_comm, w64_add_left, add_comm]

theorem row8_eq (t0 t1 t2 t3 t4 t5 t6 t7 : Int) (row : List Int) (x : Nat) (k : Int) :
    row8 [[wrap64 t0, wrap64 t1], [wrap64 t2, wrap64 t3], [wrap64 t4, wrap64 t5], [wrap64 t6, wrap64 t7]] row x k
      = [[wrap64 (t0 + row.getD (x + 0) 0 % 65536 * wrap32 k), wrap64 (t1 + row.getD (x + 1) 0 % 65536 * wrap32 k)], [wrap64 (t2 + row.getD (x + 2) 0 % 65536 * wrap32 k), wrap64 (t3 + row.getD (x + 3) 0 % 65536 * wrap32 k)], [wrap64 (t4 + row.getD (x + 4) 0 % 65536 * wrap32 k), wrap64 (t5 + row.getD (x + 5) 0 % 65536 * wrap32 k)], [wrap64 (t6 + row.getD (x + 6) 0 % 65536 * wrap32 k), wrap64 (t7 + row.getD (x + 7) 0 % 65536 * wrap32 k)]] := by
  simp only [row8, load8, add64, mulEpi32, pshufb, vert_u16_sse4_sh0, vert_u16_sse4_sh1, vert_u16_sse4_sh2, vert_u16_sse4_sh3,
    List.range, List.range.loop, List.map, List.flatMap_cons, List.flatMap_nil, List.append_nil,
    List.cons_append, List.nil_append, List.getD_cons_succ, List.getD_cons_zero, List.zipWith]
  simp [s32_u16, w64_add_left, w64_add_right]

theorem dotV16_nil_right (rows : List (List Int)) (x : Nat) : dotV16 rows [] x = 0 := by
  cases rows <;> simp [dotV16]

theorem loop8u_nil (x : Nat) (rows : List (List Int)) (s : List (List Int)) : SimdVertU16.loop8 x rows [] s = s := by
  cases rows with
  | nil => simp [SimdVertU16.loop8]
  | cons r rows => cases rows <;> simp [SimdVertU16.loop8]

theorem loop8u_one (x : Nat) (r : List Int) (rows : List (List Int)) (k : Int) (s : List (List Int)) :
    SimdVertU16.loop8 x (r :: rows) [k] s = row8 s r x k := by
  cases rows <;> simp [SimdVertU16.loop8]

theorem loop8u_eq (x : Nat) : ∀ (n : Nat) (ks : List Int) (_hn : ks.length ≤ n) (rows : List (List Int))
    (_h : ks.length ≤ rows.length) (t0 t1 t2 t3 t4 t5 t6 t7 : Int),
    SimdVertU16.loop8 x rows ks [[wrap64 t0, wrap64 t1], [wrap64 t2, wrap64 t3], [wrap64 t4, wrap64 t5], [wrap64 t6, wrap64 t7]]
      = [[wrap64 (t0 + dotV16 rows ks (x + 0)), wrap64 (t1 + dotV16 rows ks (x + 1))], [wrap64 (t2 + dotV16 rows ks (x + 2)), wrap64 (t3 + dotV16 rows ks (x + 3))], [wrap64 (t4 + dotV16 rows ks (x + 4)), wrap64 (t5 + dotV16 rows ks (x + 5))], [wrap64 (t6 + dotV16 rows ks (x + 6)), wrap64 (t7 + dotV16 rows ks (x + 7))]] := by
  intro n
  induction n with
  | zero =>
    intro ks hn rows _ t0 t1 t2 t3 t4 t5 t6 t7
    have : ks = [] := List.length_eq_zero_iff.mp (by omega)
    subst this
    simp [loop8u_nil, dotV16_nil_right]
  | succ n ih =>
    intro ks hn rows h t0 t1 t2 t3 t4 t5 t6 t7
    match ks, rows, h, hn with
    | [], rows, _, _ => simp [loop8u_nil, dotV16_nil_right]
    | [k], r :: rows, _, _ =>
      rw [loop8u_one, row8_eq]
      simp [dotV16, dotV16_nil_right]
    | k0 :: k1 :: ks', rA :: rB :: rows', h, hn =>
      simp only [SimdVertU16.loop8]
      rw [row8_eq, row8_eq]
      rw [ih ks' (by simp at hn; omega) rows' (by simp at h; omega)]
      simp only [dotV16, add_assoc]
    | [_], [], h, _ => simp at h
    | _ :: _ :: _, [], h, _ => simp at h
    | _ :: _ :: _, [_], h, _ => simp at h

theorem block8u_eq (p : Nat) (rows : List (List Int)) (ks : List Int) (h : ks.length ≤ rows.length) (x : Nat) :
    block8 p rows ks x = (List.range 8).map fun j => clip16 (2 ^ (p - 1) + dotV16 rows ks (x + j)) p := by
  unfold block8
  simp only
  rw [loop8u_eq x ks.length ks (le_refl _) rows h]
  simp [List.range, List.range.loop, clip16]

/-- **the 16-component step of the SSE4.1 vertical pass for 16-bit components equals the portable kernel** -/
theorem vert_u16_sse4_chunk16_eq (p : Nat) (rows : List (List Int)) (ks : List Int) (h : ks.length ≤ rows.length) (x : Nat) :
    chunk16 p rows ks x = (List.range 16).map fun j => clip16 (2 ^ (p - 1) + dotV16 rows ks (x + j)) p := by
  unfold chunk16
  rw [block8u_eq p rows ks h x, block8u_eq p rows ks h (x + 8)]
  simp [List.range, List.range.loop, Nat.add_assoc]

/-! ### the 4-component step -/

theorem row4_eq (t0 t1 t2 t3 : Int) (row : List Int) (x : Nat) (k : Int) :
    row4 [[wrap64 t0, wrap64 t1], [wrap64 t2, wrap64 t3]] row x k
      = [[wrap64 (t0 + row.getD (x + 0) 0 % 65536 * wrap32 k), wrap64 (t1 + row.getD (x + 1) 0 % 65536 * wrap32 k)], [wrap64 (t2 + row.getD (x + 2) 0 % 65536 * wrap32 k), wrap64 (t3 + row.getD (x + 3) 0 % 65536 * wrap32 k)]] := by
  simp [row4, List.zipWith, w64_add_left, w64_add_right]

theorem loop4u_nil (x : Nat) (rows : List (List Int)) (s : List (List Int)) : SimdVertU16.loop4 x rows [] s = s := by
  cases rows with
  | nil => simp [SimdVertU16.loop4]
  | cons r rows => cases rows <;> simp [SimdVertU16.loop4]

theorem loop4u_one (x : Nat) (r : List Int) (rows : List (List Int)) (k : Int) (s : List (List Int)) :
    SimdVertU16.loop4 x (r :: rows) [k] s = row4 s r x k := by
  cases rows <;> simp [SimdVertU16.loop4]

theorem loop4u_eq (x : Nat) : ∀ (n : Nat) (ks : List Int) (_hn : ks.length ≤ n) (rows : List (List Int))
    (_h : ks.length ≤ rows.length) (t0 t1 t2 t3 : Int),
    SimdVertU16.loop4 x rows ks [[wrap64 t0, wrap64 t1], [wrap64 t2, wrap64 t3]]
      = [[wrap64 (t0 + dotV16 rows ks (x + 0)), wrap64 (t1 + dotV16 rows ks (x + 1))], [wrap64 (t2 + dotV16 rows ks (x + 2)), wrap64 (t3 + dotV16 rows ks (x + 3))]] := by
  intro n
  induction n with
  | zero =>
    intro ks hn rows _ t0 t1 t2 t3
    have : ks = [] := List.length_eq_zero_iff.mp (by omega)
    subst this
    simp [loop4u_nil, dotV16_nil_right]
  | succ n ih =>
    intro ks hn rows h t0 t1 t2 t3
    match ks, rows, h, hn with
    | [], rows, _, _ => simp [loop4u_nil, dotV16_nil_right]
    | [k], r :: rows, _, _ =>
      rw [loop4u_one, row4_eq]
      simp [dotV16, dotV16_nil_right]
    | k0 :: k1 :: ks', rA :: rB :: rows', h, hn =>
      simp only [SimdVertU16.loop4]
      rw [row4_eq, row4_eq]
      rw [ih ks' (by simp at hn; omega) rows' (by simp at h; omega)]
      simp only [dotV16, add_assoc]
    | [_], [], h, _ => simp at h
    | _ :: _ :: _, [], h, _ => simp at h
    | _ :: _ :: _, [_], h, _ => simp at h

theorem vert_u16_sse4_chunk4_eq (p : Nat) (rows : List (List Int)) (ks : List Int) (h : ks.length ≤ rows.length) (x : Nat) :
    SimdVertU16.chunk4 p rows ks x = (List.range 4).map fun j => clip16 (2 ^ (p - 1) + dotV16 rows ks (x + j)) p := by
  unfold SimdVertU16.chunk4
  simp only
  rw [loop4u_eq x ks.length ks (le_refl _) rows h]
  simp [List.range, List.range.loop, clip16]

end Fir.Proofs
