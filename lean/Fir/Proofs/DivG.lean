/-
  Fir.Proofs.DivG - the reciprocal-multiply division is faithful (generic in the constants).
-/
import Mathlib.Tactic.Linarith
import Mathlib.Tactic.Ring

namespace Fir.Proofs

/-- Core of the reciprocal-multiply division: with `x = ⌊2mK/a⌋`, `R = ⌊(x+1)/2⌋` (the rounded
    reciprocal `round(mK/a)`), `r = ⌊(cR+H)/K⌋` and `K = 2H`, the result `r` is one of the two
    integers around `c·m/a` - for every colour `c < K`, every alpha `a > 0`, every depth `m`. -/
theorem divG_core (m c a K H x R r : ℕ) (ha : 0 < a) (hK : K = 2 * H) (hc : c < K)
    (hx1 : a * x ≤ 2 * m * K) (hx2 : 2 * m * K < a * (x + 1))
    (hR1 : 2 * R ≤ x + 1) (hR2 : x ≤ 2 * R)
    (hr1 : K * r ≤ c * R + H) (hr2 : c * R + H < K * (r + 1)) :
    c * m < (r + 1) * a ∧ r * a < c * m + a := by
  have hH : 0 < H := by omega
  constructor
  · by_contra hcon
    have hcon := Nat.not_lt.mp hcon
    have h1 : (c * R + H) * a < K * (r + 1) * a := Nat.mul_lt_mul_of_pos_right hr2 ha
    have h2 : 2 * m * K + 1 ≤ a * x + a := by nlinarith
    have h3 : c * (a * x) ≤ c * (a * (2 * R)) := Nat.mul_le_mul_left _ (Nat.mul_le_mul_left _ hR2)
    have h4 : K * ((r + 1) * a) ≤ K * (c * m) := Nat.mul_le_mul_left _ hcon
    have h5 : c * (2 * m * K + 1) ≤ c * (a * x + a) := Nat.mul_le_mul_left _ h2
    nlinarith
  · by_contra hcon
    have hcon := Nat.not_lt.mp hcon
    have h1 : K * r * a ≤ (c * R + H) * a := Nat.mul_le_mul_right _ hr1
    have h3 : c * (a * (2 * R)) ≤ c * (a * (x + 1)) := Nat.mul_le_mul_left _ (Nat.mul_le_mul_left _ hR1)
    have h4 : K * (c * m + a) ≤ K * (r * a) := Nat.mul_le_mul_left _ hcon
    have h5 : c * (a * x) ≤ c * (2 * m * K) := Nat.mul_le_mul_left _ hx1
    nlinarith

/-- `divG_core` in quotient form: `⌊cm/a⌋ ≤ r ≤ ⌈cm/a⌉`. -/
theorem divG_between (m c a K H : ℕ) (ha : 0 < a) (hK : K = 2 * H) (hH : 0 < H) (hc : c < K) :
    let R := (2 * m * K / a + 1) / 2
    let r := (c * R + H) / K
    c * m / a ≤ r ∧ r ≤ (c * m + a - 1) / a := by
  intro R r
  have hKpos : 0 < K := by omega
  have hx1 : a * (2 * m * K / a) ≤ 2 * m * K := Nat.mul_div_le _ _
  have hx2 : 2 * m * K < a * (2 * m * K / a + 1) := Nat.lt_mul_div_succ _ ha
  have hR1 : 2 * R ≤ 2 * m * K / a + 1 := by omega
  have hR2 : 2 * m * K / a ≤ 2 * R := by omega
  have hr1 : K * r ≤ c * R + H := Nat.mul_div_le _ _
  have hr2 : c * R + H < K * (r + 1) := Nat.lt_mul_div_succ _ hKpos
  obtain ⟨hB, hA⟩ := divG_core m c a K H _ R r ha hK hc hx1 hx2 hR1 hR2 hr1 hr2
  constructor
  · have : c * m / a < r + 1 := (Nat.div_lt_iff_lt_mul ha).mpr hB
    omega
  · apply (Nat.le_div_iff_mul_le ha).mpr
    omega

end Fir.Proofs
