/-
  Fir.Proofs.SimdU8x2ALemmas - the AVX2 one-row kernel for two-channel 8-bit images (`Fir.Model.SimdU8x2A`) equals the portable
  kernel inside the i32 headroom.  Halves of the 256-bit masks are the SSE4.1 masks; a 16-step is the SSE4.1 8-step per half
  (`StepOK`), an 8-step gives one half of the SSE4.1 8-step to each half; `Step8` is the contract of the 256-bit phase (lane
  increments of the two halves whose sums are the dot products, the per-lane sum of both halves bounded by `255 * Σ|k|`); the
  folded 128-bit state then continues with `StepOK` pieces, and the saturating join is exact (`join_exact`).
-/
import Fir.Model.SimdU8x2A
import Fir.Proofs.SimdU8x2Lemmas
import Mathlib.Tactic.Ring
import Mathlib.Tactic.Linarith

set_option linter.unnecessarySeqFocus false
set_option linter.unreachableTactic false
set_option linter.unusedTactic false
set_option linter.unusedSimpArgs false
set_option linter.unusedVariables false

namespace Fir.Proofs.U8x2A
open Fir Fir.SimdU8x2 Fir.SimdU8x2A Fir.Gen Fir.Proofs Fir.Proofs.U8x2
open Fir.SimdU8x4 (wrap32 pshufb madd add32 i16At i16pair wrap16 kBytes clone4)

theorem m1 : u8x2_avx2_one_pix_sh1_lo = u8x2_sse4_one_pix_sh1 ∧ u8x2_avx2_one_pix_sh1_hi = u8x2_sse4_one_pix_sh1 ∧
    u8x2_avx2_one_coeff_sh1_lo = u8x2_sse4_one_coeff_sh1 ∧ u8x2_avx2_one_coeff_sh1_hi = u8x2_sse4_one_coeff_sh1 ∧
    u8x2_avx2_one_pix_sh2_lo = u8x2_sse4_one_pix_sh2 ∧ u8x2_avx2_one_pix_sh2_hi = u8x2_sse4_one_pix_sh2 ∧
    u8x2_avx2_one_coeff_sh2_lo = u8x2_sse4_one_coeff_sh2 ∧ u8x2_avx2_one_coeff_sh2_hi = u8x2_sse4_one_coeff_sh2 := by
  refine ⟨?_, ?_, ?_, ?_, ?_, ?_, ?_, ?_⟩ <;> decide

theorem m3 : u8x2_avx2_one_pix_sh3_lo = u8x2_sse4_one_pix_sh1 ∧ u8x2_avx2_one_pix_sh3_hi = u8x2_sse4_one_pix_sh2 ∧
    u8x2_avx2_one_coeff_sh3_lo = u8x2_sse4_one_coeff_sh1 ∧ u8x2_avx2_one_coeff_sh3_hi = u8x2_sse4_one_coeff_sh2 ∧
    u8x2_avx2_one_pix_sh4 = u8x2_sse4_one_pix_sh3 := by
  refine ⟨?_, ?_, ?_, ?_, ?_⟩ <;> decide

theorem half16_sse (s row : List Int) (x : Nat) (k : List Int) :
    half16 u8x2_sse4_one_pix_sh1 u8x2_sse4_one_coeff_sh1 u8x2_sse4_one_pix_sh2 u8x2_sse4_one_coeff_sh2 s (src2 row x 8) (kBytes k)
      = SimdU8x2.acc8 s row x k := rfl

theorem acc4_sse (s row : List Int) (x : Nat) (k0 k1 k2 k3 : Int) :
    SimdU8x2A.acc4 s row x k0 k1 k2 k3 = SimdU8x2.acc4 s row x k0 k1 k2 k3 := by
  unfold SimdU8x2A.acc4 SimdU8x2.acc4; rw [m3.2.2.2.2]

theorem part1_eq (a0 a1 a2 a3 : Int) (row : List Int) (x : Nat) (k0 k1 k2 k3 k4 k5 k6 k7 : Int) :
    half8 u8x2_sse4_one_pix_sh1 u8x2_sse4_one_coeff_sh1 [wrap32 a0, wrap32 a1, wrap32 a2, wrap32 a3] (src2 row x 8)
        (kBytes [k0, k1, k2, k3, k4, k5, k6, k7])
      = [wrap32 (a0 + (pb row x 0 k0 + pb row x 2 k1)), wrap32 (a1 + (pb row x 1 k0 + pb row x 3 k1)),
         wrap32 (a2 + (pb row x 4 k2 + pb row x 6 k3)), wrap32 (a3 + (pb row x 5 k2 + pb row x 7 k3))] := by
  simp only [half8, src2, add32, madd, pshufb, i16At, kBytes, u8x2_sse4_one_pix_sh1, u8x2_sse4_one_coeff_sh1, pb,
    List.range, List.range.loop, List.map, List.flatMap_cons, List.flatMap_nil, List.append_nil, List.replicate,
    List.cons_append, List.nil_append, List.getD_cons_succ, List.getD_cons_zero, List.zipWith]
  simp [i16_byte, i16_lohi, w32_add_left, w32_add_right]

theorem part2_eq (a0 a1 a2 a3 : Int) (row : List Int) (x : Nat) (k0 k1 k2 k3 k4 k5 k6 k7 : Int) :
    half8 u8x2_sse4_one_pix_sh2 u8x2_sse4_one_coeff_sh2 [wrap32 a0, wrap32 a1, wrap32 a2, wrap32 a3] (src2 row x 8)
        (kBytes [k0, k1, k2, k3, k4, k5, k6, k7])
      = [wrap32 (a0 + (pb row x 8 k4 + pb row x 10 k5)), wrap32 (a1 + (pb row x 9 k4 + pb row x 11 k5)),
         wrap32 (a2 + (pb row x 12 k6 + pb row x 14 k7)), wrap32 (a3 + (pb row x 13 k6 + pb row x 15 k7))] := by
  simp only [half8, src2, add32, madd, pshufb, i16At, kBytes, u8x2_sse4_one_pix_sh2, u8x2_sse4_one_coeff_sh2, pb,
    List.range, List.range.loop, List.map, List.flatMap_cons, List.flatMap_nil, List.append_nil, List.replicate,
    List.cons_append, List.nil_append, List.getD_cons_succ, List.getD_cons_zero, List.zipWith]
  simp [i16_byte, i16_lohi, w32_add_left, w32_add_right]

def st8 (a0 a1 a2 a3 b0 b1 b2 b3 : Int) : St :=
  ([wrap32 a0, wrap32 a1, wrap32 a2, wrap32 a3], [wrap32 b0, wrap32 b1, wrap32 b2, wrap32 b3])

/-- the contract of a piece of the 256-bit phase -/
def Step8 (row : List Int) (f : St → St) (ks : List Int) (x : Nat) : Prop :=
  ∀ a0 a1 a2 a3 b0 b1 b2 b3 : Int, ∃ e0 e1 e2 e3 d0 d1 d2 d3 : Int,
    f (st8 a0 a1 a2 a3 b0 b1 b2 b3) = st8 (a0 + e0) (a1 + e1) (a2 + e2) (a3 + e3) (b0 + d0) (b1 + d1) (b2 + d2) (b3 + d3) ∧
    (e0 + d0) + (e2 + d2) = dot2 row 0 ks x ∧ (e1 + d1) + (e3 + d3) = dot2 row 1 ks x ∧
    (-(255 * absSum ks) ≤ e0 + d0 ∧ e0 + d0 ≤ 255 * absSum ks) ∧ (-(255 * absSum ks) ≤ e1 + d1 ∧ e1 + d1 ≤ 255 * absSum ks) ∧
    (-(255 * absSum ks) ≤ e2 + d2 ∧ e2 + d2 ≤ 255 * absSum ks) ∧ (-(255 * absSum ks) ≤ e3 + d3 ∧ e3 + d3 ≤ 255 * absSum ks)

theorem Step8.id (row : List Int) (x : Nat) : Step8 row (fun s => s) [] x := by
  intro a0 a1 a2 a3 b0 b1 b2 b3
  refine ⟨0, 0, 0, 0, 0, 0, 0, 0, by simp, ?_, ?_, ?_⟩ <;> simp [dot2, absSum]

theorem Step8.comp {row : List Int} {f g : St → St} {ks1 ks2 : List Int} {x : Nat}
    (hf : Step8 row f ks1 x) (hg : Step8 row g ks2 (x + ks1.length)) :
    Step8 row (fun s => g (f s)) (ks1 ++ ks2) x := by
  intro a0 a1 a2 a3 b0 b1 b2 b3
  obtain ⟨e0, e1, e2, e3, d0, d1, d2, d3, hfe, hL, hA, c0, c1, c2, c3⟩ := hf a0 a1 a2 a3 b0 b1 b2 b3
  obtain ⟨e0', e1', e2', e3', d0', d1', d2', d3', hge, hL', hA', c0', c1', c2', c3'⟩ :=
    hg (a0 + e0) (a1 + e1) (a2 + e2) (a3 + e3) (b0 + d0) (b1 + d1) (b2 + d2) (b3 + d3)
  refine ⟨e0 + e0', e1 + e1', e2 + e2', e3 + e3', d0 + d0', d1 + d1', d2 + d2', d3 + d3', ?_, ?_, ?_, ?_, ?_, ?_, ?_⟩
  · simp only [hfe, hge, add_assoc]
  · rw [dot2_append]; linarith
  · rw [dot2_append]; linarith
  all_goals (rw [absSum_append]; constructor <;> linarith [c0.1, c0.2, c1.1, c1.2, c2.1, c2.2, c3.1, c3.2, c0'.1, c0'.2, c1'.1, c1'.2, c2'.1, c2'.2, c3'.1, c3'.2])

theorem step16 (row : List Int) (x : Nat) (k0 k1 k2 k3 k4 k5 k6 k7 k8 k9 k10 k11 k12 k13 k14 k15 : Int) :
    Step8 row (fun s => acc16A s row x [k0, k1, k2, k3, k4, k5, k6, k7, k8, k9, k10, k11, k12, k13, k14, k15])
      [k0, k1, k2, k3, k4, k5, k6, k7, k8, k9, k10, k11, k12, k13, k14, k15] x := by
  intro a0 a1 a2 a3 b0 b1 b2 b3
  obtain ⟨e0, e1, e2, e3, h1, hL1, hA1, p0, p1, p2, p3⟩ := U8x2.step8 row x k0 k1 k2 k3 k4 k5 k6 k7 a0 a1 a2 a3
  obtain ⟨d0, d1, d2, d3, h2, hL2, hA2, q0, q1, q2, q3⟩ := U8x2.step8 row (x + 8) k8 k9 k10 k11 k12 k13 k14 k15 b0 b1 b2 b3
  beta_reduce at h1 h2
  simp only [Bool.false_eq_true, if_false] at hL1 hA1 hL2 hA2
  have hd := fun c => dot2_append row c [k0, k1, k2, k3, k4, k5, k6, k7] [k8, k9, k10, k11, k12, k13, k14, k15] x
  have ha := absSum_append [k0, k1, k2, k3, k4, k5, k6, k7] [k8, k9, k10, k11, k12, k13, k14, k15]
  simp only [List.cons_append, List.nil_append, List.length_cons, List.length_nil] at hd ha
  have n1 := absSum_nonneg [k0, k1, k2, k3, k4, k5, k6, k7]
  have n2 := absSum_nonneg [k8, k9, k10, k11, k12, k13, k14, k15]
  refine ⟨e0, e1, e2, e3, d0, d1, d2, d3, ?_, ?_, ?_, ?_, ?_, ?_, ?_⟩
  · simp only [acc16A, st8, m1.1, m1.2.1, m1.2.2.1, m1.2.2.2.1, m1.2.2.2.2.1, m1.2.2.2.2.2.1, m1.2.2.2.2.2.2.1, m1.2.2.2.2.2.2.2,
      List.take, List.drop, half16_sse, h1, h2]
  · rw [hd 0]; linarith
  · rw [hd 1]; linarith
  all_goals (rw [ha]; constructor <;> linarith [p0.1, p0.2, p1.1, p1.2, p2.1, p2.2, p3.1, p3.2, q0.1, q0.2, q1.1, q1.2, q2.1, q2.2, q3.1, q3.2])

theorem step8A (row : List Int) (x : Nat) (k0 k1 k2 k3 k4 k5 k6 k7 : Int) :
    Step8 row (fun s => acc8A s row x [k0, k1, k2, k3, k4, k5, k6, k7]) [k0, k1, k2, k3, k4, k5, k6, k7] x := by
  intro a0 a1 a2 a3 b0 b1 b2 b3
  have h0 := pb_bound row x 0 k0; have h1 := pb_bound row x 1 k0; have h2 := pb_bound row x 2 k1; have h3 := pb_bound row x 3 k1
  have h4 := pb_bound row x 4 k2; have h5 := pb_bound row x 5 k2; have h6 := pb_bound row x 6 k3; have h7 := pb_bound row x 7 k3
  have h8 := pb_bound row x 8 k4; have h9 := pb_bound row x 9 k4; have h10 := pb_bound row x 10 k5; have h11 := pb_bound row x 11 k5
  have h12 := pb_bound row x 12 k6; have h13 := pb_bound row x 13 k6; have h14 := pb_bound row x 14 k7; have h15 := pb_bound row x 15 k7
  have hrun : acc8A (st8 a0 a1 a2 a3 b0 b1 b2 b3) row x [k0, k1, k2, k3, k4, k5, k6, k7]
      = st8 (a0 + (pb row x 0 k0 + pb row x 2 k1)) (a1 + (pb row x 1 k0 + pb row x 3 k1))
            (a2 + (pb row x 4 k2 + pb row x 6 k3)) (a3 + (pb row x 5 k2 + pb row x 7 k3))
            (b0 + (pb row x 8 k4 + pb row x 10 k5)) (b1 + (pb row x 9 k4 + pb row x 11 k5))
            (b2 + (pb row x 12 k6 + pb row x 14 k7)) (b3 + (pb row x 13 k6 + pb row x 15 k7)) := by
    simp only [acc8A, st8, m3.1, m3.2.1, m3.2.2.1, m3.2.2.2.1, part1_eq, part2_eq]
  refine ⟨_, _, _, _, _, _, _, _, hrun, ?_, ?_, ?_, ?_, ?_, ?_⟩
  · simp only [dot2, pb] <;> ring_nf
  · simp only [dot2, pb] <;> ring_nf
  all_goals (simp only [absSum]; omega)

theorem loop16_spec (row : List Int) : ∀ (n : Nat) (ks : List Int) (_hn : ks.length ≤ n) (x : Nat),
    Step8 row (fun s => (loop16 row ks x s).1) (ks.take (16 * (ks.length / 16))) x ∧
    ∀ s, (loop16 row ks x s).2 = (x + 16 * (ks.length / 16), ks.drop (16 * (ks.length / 16))) := by
  intro n
  induction n with
  | zero =>
    intro ks hn x
    have : ks = [] := List.eq_nil_of_length_eq_zero (by omega)
    subst this
    constructor
    · have : (fun s => (loop16 row [] x s).1) = fun s => s := by funext s; rw [loop16]; simp
      rw [this]; simpa using Step8.id row x
    · intro s; rw [loop16]; simp
  | succ n ih =>
    intro ks hn x
    by_cases h16 : 16 ≤ ks.length
    · match ks, h16, hn with
      | k0 :: k1 :: k2 :: k3 :: k4 :: k5 :: k6 :: k7 :: k8 :: k9 :: k10 :: k11 :: k12 :: k13 :: k14 :: k15 :: rest, _, hn =>
        obtain ⟨ih1, ih2⟩ := ih rest (by simp at hn; omega) (x + 16)
        have hl : (k0 :: k1 :: k2 :: k3 :: k4 :: k5 :: k6 :: k7 :: k8 :: k9 :: k10 :: k11 :: k12 :: k13 :: k14 :: k15 :: rest).length / 16
            = rest.length / 16 + 1 := by
          simp only [List.length_cons]; omega
        have hmul : 16 * (rest.length / 16 + 1) = 16 * (rest.length / 16) + 16 := by ring
        have e : ∀ s, loop16 row (k0 :: k1 :: k2 :: k3 :: k4 :: k5 :: k6 :: k7 :: k8 :: k9 :: k10 :: k11 :: k12 :: k13 :: k14 :: k15 :: rest) x s
            = loop16 row rest (x + 16) (acc16A s row x [k0, k1, k2, k3, k4, k5, k6, k7, k8, k9, k10, k11, k12, k13, k14, k15]) := by
          intro s; rw [loop16, dif_pos (by simp)]; simp
        constructor
        · have hc := Step8.comp (step16 row x k0 k1 k2 k3 k4 k5 k6 k7 k8 k9 k10 k11 k12 k13 k14 k15) ih1
          rw [hl, hmul]
          simp only [List.take_succ_cons, e]
          simpa using hc
        · intro s
          rw [e, ih2, hl, hmul]
          simp only [List.drop_succ_cons, Nat.add_assoc]
          congr 2
          omega
    · have hdiv : ks.length / 16 = 0 := Nat.div_eq_of_lt (by omega)
      constructor
      · have : (fun s => (loop16 row ks x s).1) = fun s => s := by funext s; rw [loop16, dif_neg h16]
        rw [this, hdiv]; simpa using Step8.id row x
      · intro s; rw [loop16, dif_neg h16, hdiv]; simp

theorem tail4_ok (row : List Int) : ∀ (n : Nat) (ks : List Int), ks.length ≤ n → ∀ x : Nat,
    StepOK false row (fun s => SimdU8x2A.tail4 row ks x s) ks x := by
  intro n
  induction n with
  | zero =>
    intro ks hn x
    have : ks = [] := List.eq_nil_of_length_eq_zero (by omega)
    subst this
    simpa [SimdU8x2A.tail4] using StepOK.id false row x
  | succ n ih =>
    intro ks hn x
    match ks, hn with
    | [], _ => simpa [SimdU8x2A.tail4] using StepOK.id false row x
    | [k0], _ => simpa [SimdU8x2A.tail4] using stepRem row x [k0] (by simp) (by simp)
    | [k0, k1], _ => simpa [SimdU8x2A.tail4] using stepRem row x [k0, k1] (by simp) (by simp)
    | [k0, k1, k2], _ => simpa [SimdU8x2A.tail4] using stepRem row x [k0, k1, k2] (by simp) (by simp)
    | k0 :: k1 :: k2 :: k3 :: rest, hn =>
      have := StepOK.comp (U8x2.step4 row x k0 k1 k2 k3) (ih rest (by simp at hn; omega) (x + 4))
      simpa [SimdU8x2A.tail4, acc4_sse] using this

theorem fold_eq (a0 a1 a2 a3 b0 b1 b2 b3 : Int) :
    add32 (st8 a0 a1 a2 a3 b0 b1 b2 b3).1 (st8 a0 a1 a2 a3 b0 b1 b2 b3).2
      = [wrap32 (a0 + b0), wrap32 (a1 + b1), wrap32 (a2 + b2), wrap32 (a3 + b3)] := by
  simp [st8, add32, w32_add_left, w32_add_right]

theorem join2 (p : Nat) (hp3 : 3 ≤ p) (E F B d : Int) (hE : -B ≤ E ∧ E ≤ B) (hF : -B ≤ F ∧ F ≤ B) (hd : -B ≤ d ∧ d ≤ B)
    (hsum : E + F = d) (hB : B + 2 ^ (p - 1) < (2 : Int) ^ 31) :
    SimdU8x2.clip (satAdd (wrap32 (2 ^ (p - 3) + 2 ^ (p - 3) + E)) (wrap32 (2 ^ (p - 3) + 2 ^ (p - 3) + F))) p
      = clip8 (2 ^ (p - 1) + d) p := by
  have h2 : (2 : Int) ^ (p - 3) + 2 ^ (p - 3) = 2 ^ (p - 2) := by
    have := pow2_pred (p - 2) (by omega)
    rw [show p - 2 - 1 = p - 3 by omega] at this
    omega
  rw [h2, ← w32_add_left (2 ^ (p - 2)) E, ← w32_add_left (2 ^ (p - 2)) F]
  exact join_exact p (by omega) _ E F B d rfl hE hF hd hsum hB

/-- the 256-bit phase `F` (contract `Step8` on `ks1`), the fold of the halves, the 128-bit steps `T` (contract `StepOK` on `ks2`)
    and the saturating join give the portable result for `ks1 ++ ks2` -/
theorem phase_join (p : Nat) (hp3 : 3 ≤ p) (row : List Int) (F : St → St) (T : List Int → List Int) (ks1 ks2 : List Int) (x : Nat)
    (hF : Step8 row F ks1 x) (hT : StepOK false row T ks2 (x + ks1.length))
    (hB : 255 * absSum (ks1 ++ ks2) + 2 ^ (p - 1) < (2 : Int) ^ 31) :
    let i := wrap32 (2 ^ (p - 3))
    let r := F ([i, i, i, i], [i, i, i, i])
    let s := T (add32 r.1 r.2)
    [SimdU8x2.clip (satAdd (s.getD 0 0) (s.getD 2 0)) p, SimdU8x2.clip (satAdd (s.getD 1 0) (s.getD 3 0)) p]
      = [clip8 (2 ^ (p - 1) + dot2 row 0 (ks1 ++ ks2) x) p, clip8 (2 ^ (p - 1) + dot2 row 1 (ks1 ++ ks2) x) p] := by
  intro i r s
  obtain ⟨e0, e1, e2, e3, d0, d1, d2, d3, hrun, hL, hA, c0, c1, c2, c3⟩ :=
    hF (2 ^ (p - 3)) (2 ^ (p - 3)) (2 ^ (p - 3)) (2 ^ (p - 3)) (2 ^ (p - 3)) (2 ^ (p - 3)) (2 ^ (p - 3)) (2 ^ (p - 3))
  have hr : r = st8 (2 ^ (p - 3) + e0) (2 ^ (p - 3) + e1) (2 ^ (p - 3) + e2) (2 ^ (p - 3) + e3)
      (2 ^ (p - 3) + d0) (2 ^ (p - 3) + d1) (2 ^ (p - 3) + d2) (2 ^ (p - 3) + d3) := hrun
  obtain ⟨g0, g1, g2, g3, htail, hL', hA', q0, q1, q2, q3⟩ :=
    hT (2 ^ (p - 3) + e0 + (2 ^ (p - 3) + d0)) (2 ^ (p - 3) + e1 + (2 ^ (p - 3) + d1))
       (2 ^ (p - 3) + e2 + (2 ^ (p - 3) + d2)) (2 ^ (p - 3) + e3 + (2 ^ (p - 3) + d3))
  simp only [Bool.false_eq_true, if_false] at hL' hA'
  have hs : s = [wrap32 (2 ^ (p - 3) + 2 ^ (p - 3) + (e0 + d0 + g0)), wrap32 (2 ^ (p - 3) + 2 ^ (p - 3) + (e1 + d1 + g1)),
      wrap32 (2 ^ (p - 3) + 2 ^ (p - 3) + (e2 + d2 + g2)), wrap32 (2 ^ (p - 3) + 2 ^ (p - 3) + (e3 + d3 + g3))] := by
    show T (add32 r.1 r.2) = _
    rw [hr, fold_eq, htail]
    refine (List.cons.injEq _ _ _ _).mpr ⟨?_, (List.cons.injEq _ _ _ _).mpr ⟨?_, (List.cons.injEq _ _ _ _).mpr ⟨?_, (List.cons.injEq _ _ _ _).mpr ⟨?_, rfl⟩⟩⟩⟩ <;>
      (congr 1; ring)
  rw [hs]
  simp only [List.getD_cons_succ, List.getD_cons_zero]
  have ha := absSum_append ks1 ks2
  have n1 := absSum_nonneg ks1
  have n2 := absSum_nonneg ks2
  have hB' : 255 * absSum (ks1 ++ ks2) + 2 ^ (p - 1) < (2 : Int) ^ 31 := hB
  rw [join2 p hp3 (e0 + d0 + g0) (e2 + d2 + g2) (255 * absSum (ks1 ++ ks2)) (dot2 row 0 (ks1 ++ ks2) x)
        (by rw [ha]; constructor <;> linarith [c0.1, c0.2, q0.1, q0.2])
        (by rw [ha]; constructor <;> linarith [c2.1, c2.2, q2.1, q2.2])
        (dot2_bound row 0 (ks1 ++ ks2) x) (by rw [dot2_append]; linarith) hB',
      join2 p hp3 (e1 + d1 + g1) (e3 + d3 + g3) (255 * absSum (ks1 ++ ks2)) (dot2 row 1 (ks1 ++ ks2) x)
        (by rw [ha]; constructor <;> linarith [c1.1, c1.2, q1.1, q1.2])
        (by rw [ha]; constructor <;> linarith [c3.1, c3.2, q3.1, q3.2])
        (dot2_bound row 1 (ks1 ++ ks2) x) (by rw [dot2_append]; linarith) hB']

/-- **the AVX2 one-row kernel of U8x2 equals the portable kernel** inside the `i32` headroom, for every precision of at least 3 -/
theorem pixelA_eq_portable (p : Nat) (hp3 : 3 ≤ p) (row : List Int) (start : Nat) (ks : List Int)
    (hB : 255 * absSum ks + 2 ^ (p - 1) < (2 : Int) ^ 31) :
    pixelA p row start ks = [clip8 (2 ^ (p - 1) + dot2 row 0 ks start) p, clip8 (2 ^ (p - 1) + dot2 row 1 ks start) p] := by
  unfold pixelA
  by_cases h : ks.length < 16
  · -- the 128-bit kernel only
    simp only [h, if_true]
    obtain ⟨e0, e1, e2, e3, hrun, hL, hA, b0, b1, b2, b3⟩ :=
      tail4_ok row ks.length ks (le_refl _) start (wrap32 (2 ^ (p - 2))) (wrap32 (2 ^ (p - 2))) (wrap32 (2 ^ (p - 2))) (wrap32 (2 ^ (p - 2)))
    simp only [w32_idem] at hrun
    rw [hrun]
    simp only [List.getD_cons_succ, List.getD_cons_zero, Bool.false_eq_true, if_false] at hL hA ⊢
    rw [join_exact p (by omega) _ e0 e2 _ _ rfl b0 b2 (dot2_bound row 0 ks start) hL hB,
        join_exact p (by omega) _ e1 e3 _ _ rfl b1 b3 (dot2_bound row 1 ks start) hA hB]
  · simp only [h, if_false]
    obtain ⟨hstep, hrest⟩ := loop16_spec row ks.length ks (le_refl _) start
    set m := 16 * (ks.length / 16) with hm
    have hmle : m ≤ ks.length := by omega
    have hlen : (ks.take m).length = m := by rw [List.length_take]; omega
    have hrestlen : (ks.drop m).length < 16 := by simp only [List.length_drop]; omega
    set s0 : St := ([wrap32 (2 ^ (p - 3)), wrap32 (2 ^ (p - 3)), wrap32 (2 ^ (p - 3)), wrap32 (2 ^ (p - 3))],
      [wrap32 (2 ^ (p - 3)), wrap32 (2 ^ (p - 3)), wrap32 (2 ^ (p - 3)), wrap32 (2 ^ (p - 3))]) with hs0
    have h21 : (loop16 row ks start s0).2.1 = start + m := by rw [hrest]
    have h22 : (loop16 row ks start s0).2.2 = ks.drop m := by rw [hrest]
    simp only [h21, h22]
    by_cases h8 : (ks.drop m).length ≥ 8
    · simp only [h8, if_true]
      generalize hrestq : ks.drop m = rest at *
      match rest, h8, hrestlen with
      | r0 :: r1 :: r2 :: r3 :: r4 :: r5 :: r6 :: r7 :: rest', _, _ =>
        simp only [List.take, List.drop]
        have hF := Step8.comp hstep (by rw [hlen]; exact step8A row (start + m) r0 r1 r2 r3 r4 r5 r6 r7)
        have hT := tail4_ok row rest'.length rest' (le_refl _) (start + m + 8)
        have hk : ks = (ks.take m ++ [r0, r1, r2, r3, r4, r5, r6, r7]) ++ rest' := by
          have := List.take_append_drop m ks
          rw [hrestq] at this
          simp only [List.append_assoc, List.cons_append, List.nil_append]
          exact this.symm
        have hx : start + (ks.take m ++ [r0, r1, r2, r3, r4, r5, r6, r7]).length = start + m + 8 := by
          simp only [List.length_append, hlen, List.length_cons, List.length_nil]; omega
        have := phase_join p hp3 row _ (fun s => SimdU8x2A.tail4 row rest' (start + m + 8) s) _ rest' start hF
          (by rw [hx]; exact hT) (by rw [← hk]; exact hB)
        simp only at this
        rw [← hk] at this
        exact this
    · simp only [h8, if_false]
      have hT := tail4_ok row (ks.drop m).length (ks.drop m) (le_refl _) (start + m)
      have hk : ks = ks.take m ++ ks.drop m := (List.take_append_drop m ks).symm
      have := phase_join p hp3 row _ (fun s => SimdU8x2A.tail4 row (ks.drop m) (start + m) s) _ (ks.drop m) start hstep
        (by rw [hlen]; exact hT) (by rw [← hk]; exact hB)
      simp only at this
      rw [← hk] at this
      exact this

end Fir.Proofs.U8x2A
