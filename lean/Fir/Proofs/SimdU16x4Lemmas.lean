/-
  Fir.Proofs.SimdU16x4Lemmas - the SSE4.1 horizontal kernels for RGBA16 (`Fir.Model.SimdU16x4`, masks from the source) equal the
  portable kernel: every two-coefficient step and the last single step add, to the lane of each channel, the products of that
  channel's components with the coefficients (mod 2^64), for every coefficient list and every source row.
-/
import Fir.Model.SimdU16x4
import Fir.Model.Resample
import Fir.Proofs.SimdVertU16Lemmas
import Mathlib.Tactic.Ring

set_option linter.unnecessarySeqFocus false
set_option linter.unreachableTactic false
set_option linter.unusedTactic false
set_option linter.unusedSimpArgs false

namespace Fir.Proofs.U16x4
open Fir Fir.SimdU16x4 Fir.Gen Fir.Proofs
open Fir.SimdU8x4 (wrap32 pshufb)
open Fir.SimdVertU16 (wrap64 s32 add64 mulEpi32)

theorem acc2_eq (t0 t1 t2 t3 : Int) (row : List Int) (x : Nat) (k0 k1 : Int) :
    acc2 [[wrap64 t0, wrap64 t1], [wrap64 t2, wrap64 t3]] row x k0 k1
      = [[wrap64 (t0 + dotC16 row 0 [k0, k1] x), wrap64 (t1 + dotC16 row 1 [k0, k1] x)],
         [wrap64 (t2 + dotC16 row 2 [k0, k1] x), wrap64 (t3 + dotC16 row 3 [k0, k1] x)]] := by
  simp only [acc2, src4, add64, mulEpi32, pshufb, u16x4_sse4_rg0, u16x4_sse4_rg1, u16x4_sse4_ba0, u16x4_sse4_ba1, dotC16,
    List.range, List.range.loop, List.map, List.flatMap_cons, List.flatMap_nil, List.append_nil, List.replicate,
    List.cons_append, List.nil_append, List.getD_cons_succ, List.getD_cons_zero, List.zipWith]
  simp [s32_u16, w64_add_left, w64_add_right]
  refine ⟨⟨?_, ?_⟩, ?_, ?_⟩ <;> (congr 1 <;> ring_nf)

theorem acc1_eq (t0 t1 t2 t3 : Int) (row : List Int) (x : Nat) (k : Int) :
    acc1 [[wrap64 t0, wrap64 t1], [wrap64 t2, wrap64 t3]] row x k
      = [[wrap64 (t0 + dotC16 row 0 [k] x), wrap64 (t1 + dotC16 row 1 [k] x)],
         [wrap64 (t2 + dotC16 row 2 [k] x), wrap64 (t3 + dotC16 row 3 [k] x)]] := by
  simp only [acc1, src4, add64, mulEpi32, pshufb, u16x4_sse4_rg0, u16x4_sse4_ba0, dotC16,
    List.range, List.range.loop, List.map, List.flatMap_cons, List.flatMap_nil, List.append_nil, List.replicate,
    List.cons_append, List.nil_append, List.getD_cons_succ, List.getD_cons_zero, List.zipWith]
  simp [s32_u16, w64_add_left, w64_add_right]

theorem loop_eq (row : List Int) : ∀ (n : Nat) (ks : List Int) (_hn : ks.length ≤ n) (x : Nat) (t0 t1 t2 t3 : Int),
    SimdU16x4.loop row ks x [[wrap64 t0, wrap64 t1], [wrap64 t2, wrap64 t3]]
      = [[wrap64 (t0 + dotC16 row 0 ks x), wrap64 (t1 + dotC16 row 1 ks x)],
         [wrap64 (t2 + dotC16 row 2 ks x), wrap64 (t3 + dotC16 row 3 ks x)]] := by
  intro n
  induction n with
  | zero =>
    intro ks hn x t0 t1 t2 t3
    have : ks = [] := List.eq_nil_of_length_eq_zero (by omega)
    subst this; simp [SimdU16x4.loop, dotC16]
  | succ n ih =>
    intro ks hn x t0 t1 t2 t3
    match ks, hn with
    | [], _ => simp [SimdU16x4.loop, dotC16]
    | [k], _ => rw [SimdU16x4.loop, acc1_eq]
    | k0 :: k1 :: rest, hn =>
      rw [SimdU16x4.loop, acc2_eq, ih rest (by simp at hn; omega)]
      simp only [dotC16]
      refine (List.cons.injEq _ _ _ _).mpr ⟨(List.cons.injEq _ _ _ _).mpr ⟨?_, (List.cons.injEq _ _ _ _).mpr ⟨?_, rfl⟩⟩,
        (List.cons.injEq _ _ _ _).mpr ⟨(List.cons.injEq _ _ _ _).mpr ⟨?_, (List.cons.injEq _ _ _ _).mpr ⟨?_, rfl⟩⟩, rfl⟩⟩ <;>
        (congr 1; ring)

/-- **the SSE4.1 horizontal kernels for RGBA16 equal the portable kernel** (one row and each of four rows), for every
    precision, every coefficient list and every source row -/
theorem pixel_eq_portable (p : Nat) (row : List Int) (start : Nat) (ks : List Int) :
    SimdU16x4.pixel p row start ks
      = [clip16 (2 ^ (p - 1) + dotC16 row 0 ks start) p, clip16 (2 ^ (p - 1) + dotC16 row 1 ks start) p,
         clip16 (2 ^ (p - 1) + dotC16 row 2 ks start) p, clip16 (2 ^ (p - 1) + dotC16 row 3 ks start) p] := by
  unfold SimdU16x4.pixel
  simp only
  rw [loop_eq row ks.length ks (le_refl _)]
  simp [clip16]

end Fir.Proofs.U16x4
