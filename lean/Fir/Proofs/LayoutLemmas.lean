/-
  Fir.Proofs.LayoutLemmas - reading (`extractImg`) and writing (`injectImg`) a logical image through a
  view (Fir/Model/ProtoResize.lean), used by C05 (write set) and C13 (layout independence).
-/
import Fir.Model.ProtoResize
import Fir.Proofs.ViewLemmas
namespace Fir.Proofs
open Fir Fir.View

/-! ### one pixel: a fold of `setIfInBounds` over component numbers -/

/-- the fold `writePixel` performs, over an arbitrary list of component numbers -/
def writeComps (n q : Nat) (g : Nat → Int) (l : List Nat) (b : Array Int) : Array Int :=
  l.foldl (fun b c => b.setIfInBounds (q * n + c) (g c)) b

theorem writePixel_eq (n : Nat) (im : Img) (b : Array Int) (q p : Nat) :
    writePixel n im b q p = writeComps n q (fun c => im.data.getD (p * n + c) 0) (List.range n) b := rfl

theorem writeComps_size (n q : Nat) (g : Nat → Int) (l : List Nat) (b : Array Int) :
    (writeComps n q g l b).size = b.size := by
  induction l generalizing b with
  | nil => rfl
  | cons a t ih =>
    show (writeComps n q g t (b.setIfInBounds (q * n + a) (g a))).size = b.size
    rw [ih, Array.size_setIfInBounds]

theorem writeComps_other (n q : Nat) (g : Nat → Int) (l : List Nat) (b : Array Int) (j : Nat)
    (h : ∀ c ∈ l, q * n + c ≠ j) : (writeComps n q g l b)[j]? = b[j]? := by
  induction l generalizing b with
  | nil => rfl
  | cons a t ih =>
    show (writeComps n q g t (b.setIfInBounds (q * n + a) (g a)))[j]? = b[j]?
    rw [ih _ (fun c hc => h c (List.mem_cons_of_mem _ hc)),
      Array.getElem?_setIfInBounds_ne (h a List.mem_cons_self)]

theorem writeComps_written (n q : Nat) (g : Nat → Int) (l : List Nat) (hnd : l.Nodup) (b : Array Int) (c : Nat)
    (hc : c ∈ l) (hfit : q * n + c < b.size) : (writeComps n q g l b)[q * n + c]? = some (g c) := by
  induction l generalizing b with
  | nil => cases hc
  | cons a t ih =>
    show (writeComps n q g t (b.setIfInBounds (q * n + a) (g a)))[q * n + c]? = some (g c)
    rw [List.nodup_cons] at hnd
    by_cases hac : c = a
    · subst hac
      rw [writeComps_other _ _ _ _ _ _ (fun c' hc' => by
        intro he
        have : c' = c := by omega
        exact hnd.1 (this ▸ hc'))]
      rw [Array.getElem?_setIfInBounds_self, if_pos hfit]
    · have hct : c ∈ t := by
        rcases List.mem_cons.1 hc with h | h
        · exact absurd h hac
        · exact h
      exact ih hnd.2 _ hct (by rw [Array.size_setIfInBounds]; exact hfit)

theorem writePixel_size (n : Nat) (im : Img) (b : Array Int) (q p : Nat) :
    (writePixel n im b q p).size = b.size := by
  rw [writePixel_eq, writeComps_size]

/-- a pixel write only touches components whose pixel number is `q` -/
theorem writePixel_other (n : Nat) (hn : 0 < n) (im : Img) (b : Array Int) (q p j : Nat) (h : j / n ≠ q) :
    (writePixel n im b q p)[j]? = b[j]? := by
  rw [writePixel_eq]
  apply writeComps_other
  intro c hc he
  rw [List.mem_range] at hc
  apply h
  rw [← he, Nat.mul_comm q n, Nat.mul_add_div hn, Nat.div_eq_of_lt hc, Nat.add_zero]

theorem writePixel_written (n : Nat) (im : Img) (b : Array Int) (q p c : Nat) (hc : c < n)
    (hfit : (q + 1) * n ≤ b.size) :
    (writePixel n im b q p)[q * n + c]? = some (im.data.getD (p * n + c) 0) := by
  rw [writePixel_eq]
  have hlt : q * n + c < b.size := by
    rw [Nat.add_mul, Nat.one_mul] at hfit
    omega
  exact writeComps_written n q (fun c => im.data.getD (p * n + c) 0) _ List.nodup_range b c (List.mem_range.2 hc) hlt

/-! ### a list of pixel writes -/

/-- the fold `injectImg` performs, over an arbitrary list of (buffer pixel, logical pixel) pairs -/
def writeAll (n : Nat) (im : Img) (L : List (Nat × Nat)) (b : Array Int) : Array Int :=
  L.foldl (fun b qp => writePixel n im b qp.1 qp.2) b

theorem injectImg_eq (v : View) (n : Nat) (im : Img) (buf : Array Int) :
    injectImg v n im buf = writeAll n im ((v.rows 0).flatten).zipIdx buf := rfl

theorem writeAll_size (n : Nat) (im : Img) (L : List (Nat × Nat)) (b : Array Int) :
    (writeAll n im L b).size = b.size := by
  induction L generalizing b with
  | nil => rfl
  | cons a t ih =>
    show (writeAll n im t (writePixel n im b a.1 a.2)).size = b.size
    rw [ih, writePixel_size]

theorem writeAll_other (n : Nat) (hn : 0 < n) (im : Img) (L : List (Nat × Nat)) (b : Array Int) (j : Nat)
    (h : ∀ qp ∈ L, j / n ≠ qp.1) : (writeAll n im L b)[j]? = b[j]? := by
  induction L generalizing b with
  | nil => rfl
  | cons a t ih =>
    show (writeAll n im t (writePixel n im b a.1 a.2))[j]? = b[j]?
    rw [ih _ (fun qp hqp => h qp (List.mem_cons_of_mem _ hqp)),
      writePixel_other n hn im b a.1 a.2 j (h a List.mem_cons_self)]

theorem writeAll_written (n : Nat) (im : Img) (L : List (Nat × Nat)) (hnd : (L.map Prod.fst).Nodup)
    (b : Array Int) (q p c : Nat) (hqp : (q, p) ∈ L) (hc : c < n)
    (hfit : ∀ qp ∈ L, (qp.1 + 1) * n ≤ b.size) :
    (writeAll n im L b)[q * n + c]? = some (im.data.getD (p * n + c) 0) := by
  have hn : 0 < n := by omega
  induction L generalizing b with
  | nil => cases hqp
  | cons a t ih =>
    show (writeAll n im t (writePixel n im b a.1 a.2))[q * n + c]? = _
    rw [List.map_cons, List.nodup_cons] at hnd
    by_cases ha : a = (q, p)
    · subst ha
      rw [writeAll_other n hn im t _ _ (fun qp hqp' => by
        intro he
        apply hnd.1
        have : (q * n + c) / n = q := by
          rw [Nat.mul_comm q n, Nat.mul_add_div hn, Nat.div_eq_of_lt hc, Nat.add_zero]
        rw [this] at he
        rw [show ((q, p) : Nat × Nat).1 = qp.1 from he]
        exact List.mem_map_of_mem hqp')]
      exact writePixel_written n im b q p c hc (hfit _ List.mem_cons_self)
    · have hin : (q, p) ∈ t := by
        rcases List.mem_cons.1 hqp with h | h
        · exact absurd h.symm ha
        · exact h
      refine ih hnd.2 _ hin ?_
      intro qp hqp'
      rw [writePixel_size]
      exact hfit qp (List.mem_cons_of_mem _ hqp')

/-! ### the statements used by C05 -/

theorem inject_size (v : View) (n : Nat) (im : Img) (buf : Array Int) : (injectImg v n im buf).size = buf.size := by
  rw [injectImg_eq, writeAll_size]

theorem inject_outside_unchanged (v : View) (n : Nat) (im : Img) (buf : Array Int) (j : Nat)
    (hout : ∀ q ∈ (v.rows 0).flatten, j / n ≠ q) (hn : 0 < n) :
    (injectImg v n im buf).getD j 0 = buf.getD j 0 := by
  rw [Array.getD_eq_getD_getElem?, Array.getD_eq_getD_getElem?, injectImg_eq,
    writeAll_other n hn im _ buf j (fun qp hqp => hout qp.1 (List.fst_mem_of_mem_zipIdx hqp))]

theorem inject_inside_assigned (v : View) (hwf : v.wf = true) (n : Nat) (im : Img) (buf : Array Int) (k c : Nat)
    (hk : k < ((v.rows 0).flatten).length) (hc : c < n)
    (hfit : ∀ q ∈ (v.rows 0).flatten, (q + 1) * n ≤ buf.size) :
    (injectImg v n im buf).getD (((v.rows 0).flatten).getD k 0 * n + c) 0 = im.data.getD (k * n + c) 0 := by
  have hmem : (((v.rows 0).flatten).getD k 0, k) ∈ ((v.rows 0).flatten).zipIdx := by
    rw [List.mem_zipIdx_iff_getElem?]
    simp [List.getD_eq_getElem?_getD, List.getElem?_eq_getElem hk]
  rw [Array.getD_eq_getD_getElem?, injectImg_eq,
    writeAll_written n im _ (by rw [List.zipIdx_map_fst]; exact idx_nodup v hwf) buf _ k c hmem hc
      (fun qp hqp => hfit qp.1 (List.fst_mem_of_mem_zipIdx hqp))]
  rfl

/-! ### the statements used by C13 -/

theorem extract_dims (v : View) (n : Nat) (buf : Array Int) :
    (extractImg v n buf).w = v.width ∧ (extractImg v n buf).h = v.height ∧ (extractImg v n buf).n = n :=
  ⟨rfl, rfl, rfl⟩

theorem extract_data_size (v : View) (n : Nat) (buf : Array Int) :
    (extractImg v n buf).data.size = ((v.rows 0).flatten).length * n := by
  simp [extractImg]

theorem extract_data_getElem (v : View) (n : Nat) (buf : Array Int) (i : Nat)
    (hi : i < ((v.rows 0).flatten).length * n) :
    (extractImg v n buf).data[i]'(by rw [extract_data_size]; exact hi)
      = buf.getD (((v.rows 0).flatten).getD (i / n) 0 * n + i % n) 0 := by
  simp [extractImg, List.getD_eq_getElem?_getD]

theorem extract_depends_on_view_only (v : View) (n : Nat) (buf buf' : Array Int)
    (h : ∀ q ∈ (v.rows 0).flatten, ∀ c, c < n → buf.getD (q * n + c) 0 = buf'.getD (q * n + c) 0) :
    extractImg v n buf = extractImg v n buf' := by
  have hd : (extractImg v n buf).data = (extractImg v n buf').data := by
    apply Array.ext
    · rw [extract_data_size, extract_data_size]
    · intro i h1 h2
      have hi : i < ((v.rows 0).flatten).length * n := by rw [extract_data_size] at h1; exact h1
      have hn : 0 < n := by
        rcases Nat.eq_zero_or_pos n with h0 | h0
        · rw [h0] at hi; omega
        · exact h0
      have hq : i / n < ((v.rows 0).flatten).length := by
        rw [Nat.div_lt_iff_lt_mul hn]; exact hi
      rw [extract_data_getElem v n buf i hi, extract_data_getElem v n buf' i hi]
      apply h _ _ _ (Nat.mod_lt _ hn)
      rw [List.getD_eq_getElem?_getD, List.getElem?_eq_getElem hq]
      exact List.getElem_mem hq
  show Img.mk _ _ _ _ = Img.mk _ _ _ _
  exact congrArg (Img.mk v.width v.height n) hd

theorem extract_inject (v : View) (hwf : v.wf = true) (n : Nat) (hn : 0 < n) (im : Img) (buf : Array Int)
    (hdim : im.data.size = ((v.rows 0).flatten).length * n)
    (hfit : ∀ q ∈ (v.rows 0).flatten, (q + 1) * n ≤ buf.size) :
    (extractImg v n (injectImg v n im buf)).data = im.data := by
  apply Array.ext
  · rw [extract_data_size, hdim]
  · intro i h1 h2
    have hi : i < ((v.rows 0).flatten).length * n := by rw [extract_data_size] at h1; exact h1
    have hq : i / n < ((v.rows 0).flatten).length := by
      rw [Nat.div_lt_iff_lt_mul hn]; exact hi
    rw [extract_data_getElem v n _ i hi,
      inject_inside_assigned v hwf n im buf (i / n) (i % n) hq (Nat.mod_lt _ hn) hfit,
      Nat.div_add_mod', Array.getD_eq_getD_getElem?, Array.getElem?_eq_getElem h2]
    rfl

/-! ### typed views: the index list is the contiguous block `[off, off + w*h)` -/

theorem typed_rows_flatten_length (off w h len : Nat) (hw : 0 < w) :
    ((View.rows (View.typed off w h len) 0).flatten).length = w * h := by
  have hw0 : ¬ (w = 0) := by omega
  simp only [View.rows, hw0, if_false, Nat.sub_zero, Nat.zero_add]
  rw [List.length_flatten, List.map_map]
  have : (List.length ∘ fun r => View.seg (off + r * w) w) = fun _ => w := by
    funext r; simp [View.seg]
  rw [this]
  simp [Nat.mul_comm]

theorem typed_rows_mem (off w h len q : Nat) (hq : q ∈ (View.rows (View.typed off w h len) 0).flatten) :
    q < off + w * h := by
  by_cases hw0 : w = 0
  · simp [View.rows, hw0] at hq
  · simp only [View.rows, hw0, if_false, Nat.sub_zero, Nat.zero_add, List.mem_flatten, List.mem_map, List.mem_range] at hq
    obtain ⟨l, ⟨r, hr, rfl⟩, hql⟩ := hq
    simp only [View.seg, List.mem_map, List.mem_range] at hql
    obtain ⟨c, hc, rfl⟩ := hql
    have : r * w + c < h * w := by
      have h1 : (r + 1) * w ≤ h * w := Nat.mul_le_mul_right w hr
      have h2 : (r + 1) * w = r * w + w := Nat.succ_mul r w
      omega
    have e : w * h = h * w := Nat.mul_comm w h
    omega

theorem scratch_fully_overwritten (off w h n : Nat) (hn : 0 < n) (im : Img) (g : Array Int)
    (hdim : im.data.size = w * h * n) (hw : 0 < w)
    (hfit : (off + w * h) * n ≤ g.size) :
    (extractImg (View.typed off w h (w * h)) n (injectImg (View.typed off w h (w * h)) n im g)).data = im.data := by
  apply extract_inject _ (by simp [View.wf]) n hn im g
  · rw [typed_rows_flatten_length off w h (w * h) hw]; exact hdim
  · intro q hq
    have := typed_rows_mem off w h (w * h) q hq
    have h1 : (q + 1) * n ≤ (off + w * h) * n := Nat.mul_le_mul_right n this
    omega

end Fir.Proofs
