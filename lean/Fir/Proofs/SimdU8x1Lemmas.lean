/-
  Fir.Proofs.SimdU8x1Lemmas - the SSE4.1 horizontal kernels for single-channel 8-bit images (`Fir.Model.SimdU8x1`)
  equal the portable kernel: the four lanes together gain the dot product of the coefficients consumed.
-/
import Fir.Model.SimdU8x1
import Fir.Model.Resample
import Fir.Proofs.SimdU8x4Lemmas

set_option linter.unnecessarySeqFocus false
set_option linter.unreachableTactic false
set_option linter.unusedTactic false
set_option linter.unusedSimpArgs false

namespace Fir.Proofs
open Fir Fir.SimdU8x4 Fir.SimdU8x1 Fir.Gen

theorem w32_zero1 : wrap32 0 = 0 := by decide

theorem w32_rep (a : Int) : ∃ q : Int, wrap32 a = a + 4294967296 * q := by
  unfold wrap32 wrapInt
  simp only
  split
  · exact ⟨-(a / 4294967296), by have := Int.emod_add_mul_ediv a 4294967296; norm_num at *; omega⟩
  · exact ⟨-(a / 4294967296) - 1, by have := Int.emod_add_mul_ediv a 4294967296; norm_num at *; omega⟩

theorem w32_shift (t q : Int) : wrap32 (t + 4294967296 * q) = wrap32 t := by
  apply wrapInt_congr
  norm_num [Int.add_mul_emod_self_left]

/-- the horizontal sum of four wrapped lanes and the wrapped rounding constant -/
theorem w32_sum5 (a b c d e : Int) : wrap32 (wrap32 a + wrap32 b + wrap32 c + wrap32 d + wrap32 e) = wrap32 (a + b + c + d + e) := by
  obtain ⟨qa, ha⟩ := w32_rep a
  obtain ⟨qb, hb⟩ := w32_rep b
  obtain ⟨qc, hc⟩ := w32_rep c
  obtain ⟨qd, hd⟩ := w32_rep d
  obtain ⟨qe, he⟩ := w32_rep e
  rw [ha, hb, hc, hd, he]
  have : a + 4294967296 * qa + (b + 4294967296 * qb) + (c + 4294967296 * qc) + (d + 4294967296 * qd) + (e + 4294967296 * qe)
      = (a + b + c + d + e) + 4294967296 * (qa + qb + qc + qd + qe) := by ring
  rw [this, w32_shift]

theorem dot1_append (row : List Int) (a b : List Int) (x : Nat) :
    dot1 row (a ++ b) x = dot1 row a x + dot1 row b (x + a.length) := by
  induction a generalizing x with
  | nil => simp [dot1]
  | cons k a ih =>
    simp only [List.cons_append, dot1, ih, List.length_cons]
    have : x + 1 + a.length = x + (a.length + 1) := by omega
    rw [this]; ring

theorem acc8_eq1 (t0 t1 t2 t3 : Int) (row : List Int) (x : Nat) (k0 k1 k2 k3 k4 k5 k6 k7 : Int) :
    ∃ u0 u1 u2 u3 : Int,
      SimdU8x1.acc8 [wrap32 t0, wrap32 t1, wrap32 t2, wrap32 t3] row x [k0, k1, k2, k3, k4, k5, k6, k7]
        = [wrap32 u0, wrap32 u1, wrap32 u2, wrap32 u3] ∧
      u0 + u1 + u2 + u3 = t0 + t1 + t2 + t3 + dot1 row [k0, k1, k2, k3, k4, k5, k6, k7] x := by
  refine ⟨t0 + (row.getD (x + 0) 0 % 256 * wrap16 k0 + row.getD (x + 1) 0 % 256 * wrap16 k1),
          t1 + (row.getD (x + 2) 0 % 256 * wrap16 k2 + row.getD (x + 3) 0 % 256 * wrap16 k3),
          t2 + (row.getD (x + 4) 0 % 256 * wrap16 k4 + row.getD (x + 5) 0 % 256 * wrap16 k5),
          t3 + (row.getD (x + 6) 0 % 256 * wrap16 k6 + row.getD (x + 7) 0 % 256 * wrap16 k7), ?_, ?_⟩
  · simp only [SimdU8x1.acc8, cvt, add32, madd, i16At, kBytes,
      List.range, List.range.loop, List.map, List.flatMap_cons, List.flatMap_nil, List.append_nil, List.replicate,
      List.cons_append, List.nil_append, List.getD_cons_succ, List.getD_cons_zero, List.zipWith]
    simp [i16_byte, i16_lohi, w32_add_left, w32_add_right]
  · simp only [dot1]; ring_nf

theorem acc4_eq1 (t0 t1 t2 t3 : Int) (row : List Int) (x : Nat) (k0 k1 k2 k3 : Int) :
    ∃ u0 u1 u2 u3 : Int,
      SimdU8x1.acc4 [wrap32 t0, wrap32 t1, wrap32 t2, wrap32 t3] row x [k0, k1, k2, k3]
        = [wrap32 u0, wrap32 u1, wrap32 u2, wrap32 u3] ∧
      u0 + u1 + u2 + u3 = t0 + t1 + t2 + t3 + dot1 row [k0, k1, k2, k3] x := by
  refine ⟨t0 + (row.getD (x + 0) 0 % 256 * wrap16 k0 + row.getD (x + 1) 0 % 256 * wrap16 k1),
          t1 + (row.getD (x + 2) 0 % 256 * wrap16 k2 + row.getD (x + 3) 0 % 256 * wrap16 k3), t2, t3, ?_, ?_⟩
  · simp only [SimdU8x1.acc4, cvt, low64, add32, madd, i16At, kBytes,
      List.range, List.range.loop, List.map, List.flatMap_cons, List.flatMap_nil, List.append_nil, List.replicate,
      List.cons_append, List.nil_append, List.getD_cons_succ, List.getD_cons_zero, List.zipWith]
    simp [i16_byte, i16_lohi, i16_zero, w32_add_left, w32_add_right, w32_zero1, w32_idem]
  · simp only [dot1]; ring_nf

theorem loop8_spec1 (row : List Int) : ∀ (n : Nat) (ks : List Int) (_hn : ks.length ≤ n) (x : Nat) (t0 t1 t2 t3 : Int),
    ∃ u0 u1 u2 u3 : Int,
      SimdU8x1.loop8 row ks x [wrap32 t0, wrap32 t1, wrap32 t2, wrap32 t3]
        = ([wrap32 u0, wrap32 u1, wrap32 u2, wrap32 u3], x + 8 * (ks.length / 8), ks.drop (8 * (ks.length / 8))) ∧
      u0 + u1 + u2 + u3 = t0 + t1 + t2 + t3 + dot1 row (ks.take (8 * (ks.length / 8))) x := by
  intro n
  induction n with
  | zero =>
    intro ks hn x t0 t1 t2 t3
    have : ks = [] := List.length_eq_zero_iff.mp (by omega)
    subst this
    exact ⟨t0, t1, t2, t3, by simp [SimdU8x1.loop8], by simp [dot1]⟩
  | succ n ih =>
    intro ks hn x t0 t1 t2 t3
    by_cases h8 : 8 ≤ ks.length
    · match ks, h8, hn with
      | k0 :: k1 :: k2 :: k3 :: k4 :: k5 :: k6 :: k7 :: rest, _, hn =>
        rw [SimdU8x1.loop8, dif_pos (by simp)]
        simp only [List.take, List.drop]
        obtain ⟨v0, v1, v2, v3, hacc, hsum⟩ := acc8_eq1 t0 t1 t2 t3 row x k0 k1 k2 k3 k4 k5 k6 k7
        rw [hacc]
        obtain ⟨u0, u1, u2, u3, hrun, hs⟩ := ih rest (by simp at hn; omega) (x + 8) v0 v1 v2 v3
        have hl : (k0 :: k1 :: k2 :: k3 :: k4 :: k5 :: k6 :: k7 :: rest).length / 8 = rest.length / 8 + 1 := by
          simp only [List.length_cons]; omega
        have hmul : 8 * (rest.length / 8 + 1) = 8 * (rest.length / 8) + 8 := by ring
        refine ⟨u0, u1, u2, u3, ?_, ?_⟩
        · rw [hrun, hl, hmul]
          simp only [List.drop_succ_cons, Nat.add_assoc]
          congr 2
          omega
        · rw [hl, hmul]
          simp only [List.take_succ_cons]
          have e := dot1_append row [k0, k1, k2, k3, k4, k5, k6, k7] (rest.take (8 * (rest.length / 8))) x
          simp only [List.cons_append, List.nil_append, List.length_cons, List.length_nil] at e
          rw [hs, e]; linarith
    · have hdiv : ks.length / 8 = 0 := Nat.div_eq_of_lt (by omega)
      refine ⟨t0, t1, t2, t3, ?_, ?_⟩
      · rw [SimdU8x1.loop8, dif_neg h8, hdiv]; simp
      · rw [hdiv]; simp [dot1]

theorem scalar_eq (row : List Int) (ks : List Int) : ∀ (x : Nat) (t : Int),
    scalar row ks x (wrap32 t) = wrap32 (t + dot1 row ks x) := by
  induction ks with
  | nil => intro x t; simp [scalar, dot1]
  | cons k ks ih =>
    intro x t
    simp only [scalar, dot1]
    rw [w32_add_left, ih]
    congr 1; ring

/-- **the SSE4.1 kernels for single-channel 8-bit images equal the portable kernel** (one row and each of four rows) -/
theorem u8x1_sse4_pixel_eq_portable (p : Nat) (row : List Int) (start : Nat) (ks : List Int) :
    SimdU8x1.pixel p row start ks = clip8 (2 ^ (p - 1) + dot1 row ks start) p := by
  unfold SimdU8x1.pixel
  simp only
  have h0 : ([0, 0, 0, 0] : List Int) = [wrap32 0, wrap32 0, wrap32 0, wrap32 0] := by simp [w32_zero1]
  rw [h0]
  obtain ⟨u0, u1, u2, u3, hrun, hs⟩ := loop8_spec1 row ks.length ks (le_refl _) start 0 0 0 0
  rw [hrun]
  simp only
  set m := 8 * (ks.length / 8) with hm
  have hmle : m ≤ ks.length := by omega
  have hrestlen : (ks.drop m).length < 8 := by simp only [List.length_drop]; omega
  have hsplit : dot1 row ks start = dot1 row (ks.take m) start + dot1 row (ks.drop m) (start + m) := by
    have := dot1_append row (ks.take m) (ks.drop m) start
    rw [List.take_append_drop, List.length_take, Nat.min_eq_left hmle] at this
    exact this
  have clipw : ∀ t : Int, (clip8_table (clip16_index (wrap32 t) p) : Int) = clip8 t p := by
    intro t; unfold clip8; rfl
  by_cases h4 : (ks.drop m).length ≥ 4
  · simp only [h4, if_true]
    generalize hrest : ks.drop m = rest at *
    match rest, h4, hrestlen with
    | r0 :: r1 :: r2 :: r3 :: rest', _, _ =>
      simp only [List.take, List.drop]
      obtain ⟨v0, v1, v2, v3, hacc, hsum⟩ := acc4_eq1 u0 u1 u2 u3 row (start + m) r0 r1 r2 r3
      rw [hacc]
      simp only [List.getD_cons_succ, List.getD_cons_zero]
      rw [w32_sum5, scalar_eq, clipw]
      congr 1
      have e := dot1_append row [r0, r1, r2, r3] rest' (start + m)
      simp only [List.cons_append, List.nil_append, List.length_cons, List.length_nil] at e
      rw [hsplit, e]; linarith
  · simp only [h4, if_false]
    simp only [List.getD_cons_succ, List.getD_cons_zero]
    rw [w32_sum5, scalar_eq, clipw]
    congr 1
    rw [hsplit]; linarith

end Fir.Proofs
