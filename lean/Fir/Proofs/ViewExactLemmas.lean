/-
  Fir.Proofs.ViewExactLemmas - an accepted (well-formed) view exposes exactly `height - start` rows of
  exactly `width` pixels each, for every nesting depth (C04: "an accepted view only ever exposes rows of
  exactly its width taken from inside the underlying image").
-/
import Fir.Model.View
import Fir.Proofs.ViewLemmas
namespace Fir.Proofs
open Fir Fir.View

theorem seg_length (a n : Nat) : (seg a n).length = n := by simp [seg]

theorem wf_rows_exact (v : View) (hwf : v.wf = true) (hw : 0 < v.width) (s : Nat) :
    (v.rows s).length = v.height - s ∧ ∀ row ∈ v.rows s, row.length = v.width := by
  induction v generalizing s with
  | typed off w h len =>
    simp only [View.width] at hw
    have hw0 : w ≠ 0 := by omega
    simp only [rows, hw0, if_false, View.height, View.width]
    refine ⟨by simp, fun row hrow => ?_⟩
    simp only [List.mem_map, List.mem_range] at hrow
    obtain ⟨r, _, rfl⟩ := hrow
    exact seg_length _ _
  | crop inner l t w h ih =>
    simp only [wf, cropValid, Bool.and_eq_true, decide_eq_true_eq] at hwf
    obtain ⟨hin, ⟨⟨⟨hl, ht⟩, hlw⟩, hth⟩⟩ := hwf
    have hiw : 0 < inner.width := by omega
    obtain ⟨hlen, hrows⟩ := ih hin hiw (t + s)
    simp only [rows, View.height, View.width]
    refine ⟨?_, fun row hrow => ?_⟩
    · simp only [List.length_map, List.length_take, hlen]
      omega
    · simp only [List.mem_map] at hrow
      obtain ⟨r0, hr0, rfl⟩ := hrow
      have hr0' : r0 ∈ inner.rows (t + s) := List.mem_of_mem_take hr0
      have := hrows r0 hr0'
      simp only [List.length_take, List.length_drop, this]
      omega

/-- every pixel index a cropped view exposes is exposed by its parent (nothing outside the underlying image) -/
theorem crop_rows_subset (inner : View) (l t w h s : Nat) (q : Nat)
    (hq : q ∈ ((View.crop inner l t w h).rows s).flatten) : q ∈ (inner.rows 0).flatten := by
  simp only [rows, List.mem_flatten, List.mem_map] at hq
  obtain ⟨row, ⟨r0, hr0, rfl⟩, hqr⟩ := hq
  have h1 : r0 ∈ inner.rows (t + s) := List.mem_of_mem_take hr0
  have h2 : q ∈ r0 := List.mem_of_mem_drop (List.mem_of_mem_take hqr)
  rw [rows_eq_drop] at h1
  exact List.mem_flatten.mpr ⟨r0, List.mem_of_mem_drop h1, h2⟩

end Fir.Proofs
