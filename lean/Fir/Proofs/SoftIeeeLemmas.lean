/-
  Fir.Proofs.SoftIeeeLemmas - the executable binary32 rounding of the soft-float model *is* IEEE-754
  round-to-nearest-even: `valQ (rnd24 n d) = flP 24 (n / d)` in the normal range.  The two descriptions of
  rounding used in this project - the kernel-computable one over naturals (complete-domain `decide` proofs of
  C17, the SIMD alpha lanes of C02) and the mathematical one over ℚ (premises of the float theorems) - agree.
-/
import Fir.Proofs.SoftLemmas
import Fir.Proofs.IeeeLemmas

namespace Fir.Proofs
open Fir.Soft Fir.Ieee

/-- `rneDiv n d` is round-half-even of the rational `n / d` -/
theorem rneDiv_eq_rne (n d : ℕ) (hd : 0 < d) : ((rneDiv n d : ℕ) : ℤ) = rne ((n : ℚ) / d) := by
  have hdq : (0 : ℚ) < d := by exact_mod_cast hd
  have hdiv : (n : ℚ) = (d : ℚ) * ((n / d : ℕ) : ℚ) + ((n % d : ℕ) : ℚ) := by
    exact_mod_cast (Nat.div_add_mod n d).symm
  have hr : n % d < d := Nat.mod_lt _ hd
  have hrq : ((n % d : ℕ) : ℚ) < d := by exact_mod_cast hr
  have hr0 : (0 : ℚ) ≤ ((n % d : ℕ) : ℚ) := by positivity
  have key : (n : ℚ) / d = ((n / d : ℕ) : ℚ) + ((n % d : ℕ) : ℚ) / d := by
    rw [hdiv]; field_simp
  have hfrac0 : 0 ≤ ((n % d : ℕ) : ℚ) / d := by positivity
  have hfrac1 : ((n % d : ℕ) : ℚ) / d < 1 := by rw [div_lt_one hdq]; exact hrq
  have hfloor : ⌊(n : ℚ) / d⌋ = ((n / d : ℕ) : ℤ) := by
    rw [Int.floor_eq_iff, Int.cast_natCast, key]; constructor <;> linarith
  have hfr : (n : ℚ) / d - ⌊(n : ℚ) / d⌋ = ((n % d : ℕ) : ℚ) / d := by
    rw [hfloor, Int.cast_natCast, key]; ring
  unfold rneDiv rne
  simp only
  rw [hfr, hfloor]
  by_cases h1 : 2 * (n % d) > d
  · have hq : (d : ℚ) < 2 * ((n % d : ℕ) : ℚ) := by exact_mod_cast h1
    have hgt : 1 / 2 < ((n % d : ℕ) : ℚ) / d := by rw [lt_div_iff₀ hdq]; linarith
    rw [if_pos h1, if_neg (by linarith), if_pos hgt]; push_cast; ring
  · rw [if_neg h1]
    by_cases h2 : 2 * (n % d) = d
    · have hq : 2 * ((n % d : ℕ) : ℚ) = d := by exact_mod_cast h2
      have heq : ((n % d : ℕ) : ℚ) / d = 1 / 2 := by rw [div_eq_iff hdq.ne']; linarith
      rw [if_pos h2, heq, if_neg (lt_irrefl _), if_neg (lt_irrefl _)]
      by_cases h3 : n / d % 2 = 1
      · have : ¬ Even ((n / d : ℕ) : ℤ) := by
          rw [Int.even_iff]; omega
        rw [if_pos h3, if_neg this]; push_cast; ring
      · have : Even ((n / d : ℕ) : ℤ) := by
          rw [Int.even_iff]; omega
        rw [if_neg h3, if_pos this]
    · have hlt : 2 * (n % d) < d := by omega
      have hq : 2 * ((n % d : ℕ) : ℚ) < d := by exact_mod_cast hlt
      have hl : ((n % d : ℕ) : ℚ) / d < 1 / 2 := by rw [div_lt_iff₀ hdq]; linarith
      rw [if_neg h2, if_pos hl]

set_option exponentiation.threshold 600 in
/-- `floorLog2Ratio` never under-estimates either: `n / d < 2^(E + 1 - bias)` -/
theorem floorLog2Ratio_upper (n d : ℕ) (hn : 1 ≤ n) (hd : 1 ≤ d) (hn2 : n < 2 ^ 512) (hd2 : d < 2 ^ 150) :
    n * 2 ^ bias < d * 2 ^ (floorLog2Ratio n d + 1) := by
  obtain ⟨hln1, hln2⟩ := lg2_spec n hn hn2
  obtain ⟨hld1, hld2⟩ := lg2_spec d hd (lt_trans hd2 (by norm_num))
  have hld : lg2 d < 150 := lg2_lt_of_lt d 150 hd hd2 (by norm_num)
  unfold floorLog2Ratio
  simp only
  set ln := lg2 n
  set ld := lg2 d
  have hB : 150 ≤ bias := by decide
  generalize bias = B at hB ⊢
  split
  · -- E = ln + B - ld
    have e : 2 ^ (ln + B - ld + 1) * 2 ^ ld = 2 ^ (ln + 1) * 2 ^ B := by
      have : ln + B - ld + 1 + ld = ln + 1 + B := by omega
      rw [← pow_add, ← pow_add, this]
    have hpos : 0 < 2 ^ ld := Nat.two_pow_pos _
    apply Nat.lt_of_mul_lt_mul_right (a := 2 ^ ld)
    calc n * 2 ^ B * 2 ^ ld < 2 ^ (ln + 1) * 2 ^ B * 2 ^ ld := by
          apply Nat.mul_lt_mul_of_pos_right _ hpos
          exact Nat.mul_lt_mul_of_pos_right hln2 (Nat.two_pow_pos _)
      _ = 2 ^ ld * (2 ^ (ln + 1) * 2 ^ B) := by ring
      _ ≤ d * (2 ^ (ln + 1) * 2 ^ B) := Nat.mul_le_mul_right _ hld1
      _ = d * 2 ^ (ln + B - ld + 1) * 2 ^ ld := by rw [← e]; ring
  · rename_i htest
    -- E = ln + B - ld - 1, E + 1 = ln + B - ld
    have hE : ln + B - ld - 1 + 1 = ln + B - ld := by omega
    rw [hE]
    have e : 2 ^ (ln + B - ld) * 2 ^ ld = 2 ^ ln * 2 ^ B := by
      have : ln + B - ld + ld = ln + B := by omega
      rw [← pow_add, ← pow_add, this]
    have hpos : 0 < 2 ^ ld := Nat.two_pow_pos _
    apply Nat.lt_of_mul_lt_mul_right (a := 2 ^ ld)
    have htest' : n * 2 ^ ld < d * 2 ^ ln := by omega
    calc n * 2 ^ B * 2 ^ ld = n * 2 ^ ld * 2 ^ B := by ring
      _ < d * 2 ^ ln * 2 ^ B := Nat.mul_lt_mul_of_pos_right htest' (Nat.two_pow_pos _)
      _ = d * 2 ^ (ln + B - ld) * 2 ^ ld := by rw [mul_assoc d, ← e]; ring

set_option exponentiation.threshold 600 in
/-- **the executable binary32 rounding is IEEE round-to-nearest-even** (normal range) -/
theorem rnd24_eq_flP (n d : ℕ) (hn : 1 ≤ n) (hd : 1 ≤ d) (hn2 : n < 2 ^ 512) (hd2 : d < 2 ^ 150)
    (hnormal : bias - 126 ≤ floorLog2Ratio n d) :
    valQ (rnd24 n d) = flP 24 ((n : ℚ) / d) := by
  have hlow := floorLog2Ratio_lower n d hn hd hn2 hd2
  have hup := floorLog2Ratio_upper n d hn hd hn2 hd2
  have hdq : (0 : ℚ) < d := by exact_mod_cast hd
  have hnq : (0 : ℚ) < n := by exact_mod_cast hn
  have hx : (0 : ℚ) < (n : ℚ) / d := by positivity
  unfold rnd24
  rw [if_neg (show ¬ (n = 0 ∨ d = 0) by omega)]
  simp only
  have hB : 150 ≤ bias := by decide
  unfold valQ
  generalize hE : floorLog2Ratio n d = E at hlow hup hnormal ⊢
  generalize bias = B at hB hlow hup hnormal ⊢
  rw [if_neg (show ¬ E < B - 126 by omega)]
  have hE23 : 23 ≤ E := by omega
  -- the binade of x = n / d
  have hlowq : (d : ℚ) * 2 ^ E ≤ n * 2 ^ B := by exact_mod_cast hlow
  have hupq : (n : ℚ) * 2 ^ B < d * 2 ^ (E + 1) := by exact_mod_cast hup
  have h2B : (0 : ℚ) < 2 ^ B := by positivity
  have hz1 : (2 : ℚ) ^ ((E : ℤ) - B) ≤ (n : ℚ) / d := by
    rw [zpow_sub₀ (by norm_num), zpow_natCast, zpow_natCast, div_le_div_iff₀ h2B hdq]
    linarith
  have hz2 : (n : ℚ) / d < (2 : ℚ) ^ ((E : ℤ) - B + 1) := by
    have e : (E : ℤ) - B + 1 = ((E + 1 : ℕ) : ℤ) - B := by push_cast; ring
    rw [e, zpow_sub₀ (by norm_num), zpow_natCast, zpow_natCast, div_lt_div_iff₀ hdq h2B]
    linarith
  have hlog : Int.log 2 ((n : ℚ) / d) = (E : ℤ) - B := by
    have h1 : (E : ℤ) - B ≤ Int.log 2 ((n : ℚ) / d) :=
      (Int.zpow_le_iff_le_log (b := 2) (by norm_num) hx).mp (by exact_mod_cast hz1)
    have h2 : Int.log 2 ((n : ℚ) / d) < (E : ℤ) - B + 1 :=
      (Int.lt_zpow_iff_log_lt (b := 2) (by norm_num) hx).mp (by exact_mod_cast hz2)
    omega
  have hlp : lastPlace 24 ((n : ℚ) / d) = ((E - 23 : ℕ) : ℤ) - B := by
    unfold lastPlace
    rw [abs_of_pos hx, hlog]
    have : ((E - 23 : ℕ) : ℤ) = (E : ℤ) - 23 := by omega
    rw [this]; push_cast; ring
  rw [flP_pos_eq 24 _ hx, hlp]
  set sh := E - 23 with hsh
  have hzp : (2 : ℚ) ^ ((sh : ℤ) - B) = 2 ^ sh / 2 ^ B := by
    rw [zpow_sub₀ (by norm_num), zpow_natCast, zpow_natCast]
  -- the significand
  have hm : ((if sh ≥ B then rneDiv n (d * 2 ^ (sh - B)) else rneDiv (n * 2 ^ (B - sh)) d : ℕ) : ℤ)
      = rne ((n : ℚ) / d / 2 ^ ((sh : ℤ) - B)) := by
    split
    · rename_i hge
      rw [rneDiv_eq_rne n (d * 2 ^ (sh - B)) (Nat.mul_pos (by omega) (Nat.two_pow_pos _))]
      have hp : (2 : ℚ) ^ sh = 2 ^ B * 2 ^ (sh - B) := by
        have : B + (sh - B) = sh := by omega
        rw [← pow_add, this]
      have harg : (n : ℚ) / ((d * 2 ^ (sh - B) : ℕ) : ℚ) = (n : ℚ) / d / 2 ^ ((sh : ℤ) - B) := by
        rw [hzp, hp]; push_cast; field_simp
      rw [harg]
    · rename_i hlt
      rw [rneDiv_eq_rne (n * 2 ^ (B - sh)) d (by omega)]
      have hp : (2 : ℚ) ^ B = 2 ^ sh * 2 ^ (B - sh) := by
        have : sh + (B - sh) = B := by omega
        rw [← pow_add, this]
      have harg : ((n * 2 ^ (B - sh) : ℕ) : ℚ) / d = (n : ℚ) / d / 2 ^ ((sh : ℤ) - B) := by
        rw [hzp, hp]; push_cast; field_simp
      rw [harg]
  generalize (if sh ≥ B then rneDiv n (d * 2 ^ (sh - B)) else rneDiv (n * 2 ^ (B - sh)) d) = m at hm ⊢
  have hmq : (rne ((n : ℚ) / d / 2 ^ ((sh : ℤ) - B)) : ℚ) = (m : ℚ) := by
    rw [← hm]; push_cast; rfl
  rw [hmq, hzp]
  split
  · rename_i hcarry
    simp only
    rw [hcarry, pow_succ]; push_cast; ring
  · simp only
    ring

set_option exponentiation.threshold 600 in
/-- the same for operands below 2^64 (every use in this project): no side condition left -/
theorem rnd24_eq_flP_small (n d : ℕ) (hn : 1 ≤ n) (hd : 1 ≤ d) (hn2 : n < 2 ^ 64) (hd2 : d < 2 ^ 64) :
    valQ (rnd24 n d) = flP 24 ((n : ℚ) / d) := by
  have hB : 150 ≤ bias := by decide
  have hlgd : lg2 d < 64 := lg2_lt_of_lt d 64 hd hd2 (by norm_num)
  have hge := floorLog2Ratio_ge n d (by omega)
  exact rnd24_eq_flP n d hn hd (lt_trans hn2 (by norm_num)) (lt_trans hd2 (by norm_num)) (by omega)

/-- consequently the soft-float rounding is monotone in its numerator -/
theorem rnd24_mono (n n' d : ℕ) (hn : 1 ≤ n) (hnn : n ≤ n') (hd : 1 ≤ d) (hn2 : n' < 2 ^ 64) (hd2 : d < 2 ^ 64) :
    valQ (rnd24 n d) ≤ valQ (rnd24 n' d) := by
  rw [rnd24_eq_flP_small n d hn hd (lt_of_le_of_lt hnn hn2) hd2, rnd24_eq_flP_small n' d (le_trans hn hnn) hd hn2 hd2]
  apply flP_monotone 24 (by norm_num)
  have hdq : (0 : ℚ) < d := by exact_mod_cast hd
  exact div_le_div_of_nonneg_right (by exact_mod_cast hnn) hdq.le

end Fir.Proofs
