/-
  Fir.Proofs.ColorLemmas - lifting the complete-domain check `tableOk` to ∀-statements.
-/
import Fir.Model.ColorTable
namespace Fir.Proofs

theorem tableOk_endpoints (n bits : Nat) (chunks : List Nat) (h : tableOk n bits chunks = true) :
    tableEntry bits chunks 0 = 0 ∧ tableEntry bits chunks (n - 1) = 2 ^ bits - 1 := by
  simp only [tableOk, Bool.and_eq_true, beq_iff_eq] at h
  exact ⟨h.1.1, h.1.2⟩

theorem tableOk_step (n bits : Nat) (chunks : List Nat) (h : tableOk n bits chunks = true)
    (i : Nat) (hi : i + 1 < n) (hn : n % 256 = 0) :
    tableEntry bits chunks i ≤ tableEntry bits chunks (i + 1) := by
  simp only [tableOk, Bool.and_eq_true, List.all_eq_true, List.mem_range, Bool.or_eq_true,
    decide_eq_true_eq] at h
  have h2 := h.2 (i / 256) (by omega) (i % 256) (by omega)
  have e : 256 * (i / 256) + i % 256 = i := by omega
  rw [e] at h2
  omega

theorem tableOk_mono (n bits : Nat) (chunks : List Nat) (h : tableOk n bits chunks = true) (hn : n % 256 = 0)
    (i j : Nat) (hij : i ≤ j) (hj : j < n) : tableEntry bits chunks i ≤ tableEntry bits chunks j := by
  induction j with
  | zero => have : i = 0 := by omega
            subst this; exact Nat.le_refl _
  | succ m ih =>
    by_cases e : i = m + 1
    · subst e; exact Nat.le_refl _
    · exact Nat.le_trans (ih (by omega) (by omega)) (tableOk_step n bits chunks h m hj hn)

end Fir.Proofs
