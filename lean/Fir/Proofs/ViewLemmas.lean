/-
  Fir.Proofs.ViewLemmas - lemmas about the view model (Fir/Model/View.lean) used by C14:
  splitting a view yields an exact, ordered, non-overlapping tiling.
-/
import Fir.Model.View
import Mathlib.Data.List.Nodup

namespace Fir.Proofs
open Fir Fir.View

/-! ### arithmetic of the part sizes / offsets -/

/-- size of part `i` -/
def sz (n k i : Nat) : Nat := n / k + (if i < n % k then 1 else 0)

/-- offset of part `i` relative to the start of the band -/
def offs (n k i : Nat) : Nat := i * (n / k) + min i (n % k)

theorem splitSizes_eq (n k : Nat) : splitSizes n k = (List.range k).map (sz n k) := rfl

theorem splitOffsets_eq (s n k : Nat) :
    splitOffsets s n k = (List.range k).map (fun i => s + offs n k i) := by
  simp [splitOffsets, offs, Nat.add_assoc]

theorem offs_zero (n k : Nat) : offs n k 0 = 0 := by simp [offs]

theorem offs_succ (n k i : Nat) : offs n k (i + 1) = offs n k i + sz n k i := by
  simp only [offs, sz, Nat.succ_mul]
  split <;> omega

theorem offs_full (n k : Nat) (hk : 0 < k) : offs n k k = n := by
  have h1 := Nat.div_add_mod n k
  have h2 := Nat.mod_lt n hk
  simp only [offs]
  rw [Nat.min_eq_right (Nat.le_of_lt h2)]
  exact h1

theorem offs_mono (n k i j : Nat) (h : i ≤ j) : offs n k i ≤ offs n k j := by
  induction j with
  | zero => have : i = 0 := by omega
            subst this; exact Nat.le_refl _
  | succ j ih =>
    rcases Nat.lt_or_ge i (j + 1) with h1 | h1
    · have := ih (by omega)
      rw [offs_succ]; omega
    · have : i = j + 1 := by omega
      subst this; exact Nat.le_refl _

theorem offs_add_sz_le (n k i : Nat) (hi : i < k) : offs n k i + sz n k i ≤ n := by
  rw [← offs_succ]
  have := offs_mono n k (i + 1) k hi
  rwa [offs_full n k (by omega)] at this

theorem sz_pos (n k i : Nat) (hk : 0 < k) (hkn : k ≤ n) : 0 < sz n k i := by
  have : 0 < n / k := Nat.div_pos hkn hk
  simp only [sz]; omega

theorem sum_sz (n k j : Nat) : ((List.range j).map (sz n k)).sum = offs n k j := by
  induction j with
  | zero => simp [offs_zero]
  | succ j ih => rw [List.range_succ, List.map_append, List.sum_append, ih, offs_succ]; simp

theorem splitSizes_sum (n k : Nat) (hk : 0 < k) : (splitSizes n k).sum = n := by
  rw [splitSizes_eq, sum_sz, offs_full n k hk]

theorem splitRejected_eq_false_iff (e s n k : Nat) :
    splitRejected e s n k = false ↔ (1 ≤ k ∧ k ≤ n ∧ n ≤ e ∧ s + n ≤ e) := by
  simp only [splitRejected, Bool.or_eq_false_iff, decide_eq_false_iff_not]
  omega

theorem zip_offsets_sizes (s n k : Nat) :
    (splitOffsets s n k).zip (splitSizes n k) = (List.range k).map (fun i => (s + offs n k i, sz n k i)) := by
  rw [splitOffsets_eq, splitSizes_eq, List.zip_map']

/-! ### list facts -/

/-- gluing consecutive runs of a function over `[0, offs j)` -/
theorem flatten_runs {α : Type} (g : Nat → α) (n k j : Nat) :
    ((List.range j).map (fun i => (List.range (sz n k i)).map (fun r => g (offs n k i + r)))).flatten
      = (List.range (offs n k j)).map g := by
  induction j with
  | zero => simp [offs_zero]
  | succ j ih =>
    rw [List.range_succ, List.map_append, List.flatten_append, ih, offs_succ, List.range_add]
    simp

/-- gluing consecutive column slices of a row -/
theorem flatten_cols {α : Type} (row : List α) (s n k j : Nat) :
    ((List.range j).map (fun i => (row.drop (s + offs n k i)).take (sz n k i))).flatten
      = (row.drop s).take (offs n k j) := by
  induction j with
  | zero => simp [offs_zero]
  | succ j ih =>
    rw [List.range_succ, List.map_append, List.flatten_append, ih, offs_succ, List.take_add]
    simp [List.drop_drop]

theorem flatten_map_sublist {α : Type} (f : List α → List α) (hf : ∀ l, (f l).Sublist l) (L : List (List α)) :
    ((L.map f).flatten).Sublist L.flatten := by
  induction L with
  | nil => simp
  | cons a L ih => simpa using List.Sublist.append (hf a) ih

theorem flatten_take_sublist {α : Type} (L : List (List α)) (n : Nat) :
    ((L.take n).flatten).Sublist L.flatten := by
  induction L generalizing n with
  | nil => simp
  | cons a L ih =>
    cases n with
    | zero => simp
    | succ n => simpa using List.Sublist.append (List.Sublist.refl a) (ih n)

theorem getD_map_nil {α β : Type} (f : List α → List β) (hf : f [] = []) (L : List (List α)) (r : Nat) :
    (L.map f).getD r [] = f (L.getD r []) := by
  simp only [List.getD_eq_getElem?_getD, List.getElem?_map]
  cases L[r]? <;> simp [hf]

theorem getD_take {α : Type} (L : List α) (d : α) (r h : Nat) (hr : r < h) :
    (L.take h).getD r d = L.getD r d := by
  simp [List.getD_eq_getElem?_getD, hr]

theorem getD_drop {α : Type} (L : List α) (d : α) (r t : Nat) :
    (L.drop t).getD r d = L.getD (t + r) d := by
  simp [List.getD_eq_getElem?_getD, List.getElem?_drop]

/-! ### rows of a view -/

theorem rows_length_le (v : View) (s : Nat) : (v.rows s).length ≤ v.height - s := by
  cases v with
  | typed off w h len =>
    simp only [rows, height]
    split <;> simp
  | crop inner l t w h =>
    simp only [rows, height, List.length_map, List.length_take]
    omega

theorem row_length_le (v : View) (s : Nat) (row : List Nat) (hrow : row ∈ v.rows s) :
    row.length ≤ v.width := by
  cases v with
  | typed off w h len =>
    simp only [rows] at hrow
    split at hrow
    · simp at hrow
    · simp only [List.mem_map] at hrow
      obtain ⟨r, _, rfl⟩ := hrow
      simp [seg, width]
  | crop inner l t w h =>
    simp only [rows, List.mem_map] at hrow
    obtain ⟨r, _, rfl⟩ := hrow
    simp only [width, List.length_take]
    omega

theorem getD_row_length_le (v : View) (s r : Nat) : ((v.rows s).getD r []).length ≤ v.width := by
  rw [List.getD_eq_getElem?_getD]
  cases h : (v.rows s)[r]? with
  | none => simp
  | some row => exact row_length_le v s row (List.mem_of_getElem? h)

/-- `iter_rows(s + a)` skips `a` more rows -/
theorem rows_add (v : View) (s a : Nat) : v.rows (s + a) = (v.rows s).drop a := by
  induction v generalizing s a with
  | typed off w h len =>
    simp only [rows]
    split
    · simp
    · apply List.ext_getElem
      · simp; omega
      · intro i h1 h2
        simp [Nat.add_assoc]
  | crop inner l t w h ih =>
    simp only [rows]
    rw [← Nat.add_assoc, ih, ← List.map_drop, List.drop_take, Nat.sub_add_eq]

theorem rows_eq_drop (v : View) (s : Nat) : v.rows s = (v.rows 0).drop s := by
  have := rows_add v 0 s
  simpa using this

/-- row `r` of a cropped view -/
theorem crop_row_getD (p : View) (l t w h r : Nat) (hr : r < h) :
    ((crop p l t w h).rows 0).getD r [] = (((p.rows 0).getD (t + r) []).drop l).take w := by
  simp only [rows, Nat.add_zero, Nat.sub_zero]
  rw [getD_map_nil _ (by simp), getD_take _ _ _ _ hr, rows_eq_drop, getD_drop]

/-! ### splitting: `None` exactly for invalid requests -/

theorem splitH_typed (off w h len s n k : Nat) :
    (typed off w h len).splitH s n k =
      if splitRejected h s n k then none else
      some ((List.range k).map fun i => typed (off + (s + offs n k i) * w) w (sz n k i) (sz n k i * w)) := by
  simp only [splitH, height, zip_offsets_sizes, List.map_map]
  rfl

theorem splitH_crop (inner : View) (l t w h s n k : Nat) :
    (crop inner l t w h).splitH s n k =
      if splitRejected h s n k then none else
      (inner.splitH (s + t) n k).map fun ps => ps.map fun p => crop p l 0 w p.height := by
  simp only [splitH]
  rfl

theorem splitW_typed (off w h len s n k : Nat) :
    (typed off w h len).splitW s n k =
      if splitRejected w s n k then none else
      some ((List.range k).map fun i => crop (typed off w h len) (s + offs n k i) 0 (sz n k i) h) := by
  simp only [splitW, width, zip_offsets_sizes, List.map_map]
  rfl

theorem splitW_crop (inner : View) (l t w h s n k : Nat) :
    (crop inner l t w h).splitW s n k =
      if splitRejected w s n k then none else
      (inner.splitW (s + l) n k).map fun ps => ps.map fun p => crop p 0 t p.width h := by
  simp only [splitW]
  rfl

theorem splitH_none_iff (v : View) (hwf : v.wf = true) (s n k : Nat) :
    v.splitH s n k = none ↔ ¬ (1 ≤ k ∧ k ≤ n ∧ n ≤ v.height ∧ s + n ≤ v.height) := by
  induction v generalizing s with
  | typed off w h len =>
    rw [splitH_typed, ← splitRejected_eq_false_iff]
    simp only [height]
    cases splitRejected h s n k <;> simp
  | crop inner l t w h ih =>
    simp only [wf, cropValid, Bool.and_eq_true, decide_eq_true_eq] at hwf
    rw [splitH_crop, ← splitRejected_eq_false_iff]
    simp only [height]
    cases hr : splitRejected h s n k
    · simp only [Bool.false_eq_true, if_false, Option.map_eq_none_iff, ih hwf.1]
      rw [splitRejected_eq_false_iff] at hr
      simp; omega
    · simp

theorem splitW_none_iff (v : View) (hwf : v.wf = true) (s n k : Nat) :
    v.splitW s n k = none ↔ ¬ (1 ≤ k ∧ k ≤ n ∧ n ≤ v.width ∧ s + n ≤ v.width) := by
  induction v generalizing s with
  | typed off w h len =>
    rw [splitW_typed, ← splitRejected_eq_false_iff]
    simp only [width]
    cases splitRejected w s n k <;> simp
  | crop inner l t w h ih =>
    simp only [wf, cropValid, Bool.and_eq_true, decide_eq_true_eq] at hwf
    rw [splitW_crop, ← splitRejected_eq_false_iff]
    simp only [width]
    cases hr : splitRejected w s n k
    · simp only [Bool.false_eq_true, if_false, Option.map_eq_none_iff, ih hwf.1]
      rw [splitRejected_eq_false_iff] at hr
      simp; omega
    · simp

/-! ### splitting: the parts tile the band -/

theorem splitH_tiles (v : View) (hwf : v.wf = true) (s n k : Nat) (ps : List View)
    (h : v.splitH s n k = some ps) :
    ps.length = k ∧ ps.map View.height = splitSizes n k ∧
    (∀ p ∈ ps, p.width = v.width ∧ p.wf = true) ∧
    (ps.map (fun p => p.rows 0)).flatten = (v.rows s).take n := by
  induction v generalizing s ps with
  | typed off w H len =>
    rw [splitH_typed] at h
    cases hr : splitRejected H s n k
    case true => simp [hr] at h
    rw [hr] at h
    simp only [Bool.false_eq_true, if_false, Option.some.injEq] at h
    rw [splitRejected_eq_false_iff] at hr
    subst h
    refine ⟨by simp, ?_, ?_, ?_⟩
    · rw [splitSizes_eq, List.map_map]; rfl
    · intro p hp
      simp only [List.mem_map, List.mem_range] at hp
      obtain ⟨i, _, rfl⟩ := hp
      simp [width, wf, Nat.mul_comm]
    · rw [List.map_map]
      by_cases hw : w = 0
      · subst hw
        simp only [rows, if_true, Function.comp_def]
        simp
      · simp only [rows, hw, if_false, Function.comp_def]
        rw [← List.map_take, List.take_range, Nat.min_eq_left (by omega)]
        have := flatten_runs (fun x => seg (off + (s + x) * w) w) n k k
        rw [offs_full n k (by omega)] at this
        rw [← this]
        congr 1
        apply List.map_congr_left
        intro i _
        apply List.map_congr_left
        intro r _
        congr 1
        simp only [Nat.zero_add, Nat.add_mul, Nat.add_assoc]
  | crop inner l t w H ih =>
    simp only [wf, cropValid, Bool.and_eq_true, decide_eq_true_eq] at hwf
    rw [splitH_crop] at h
    cases hr : splitRejected H s n k
    case true => simp [hr] at h
    rw [hr] at h
    simp only [Bool.false_eq_true, if_false, Option.map_eq_some_iff] at h
    obtain ⟨ps', h', rfl⟩ := h
    rw [splitRejected_eq_false_iff] at hr
    obtain ⟨h1, h2, h3, h4⟩ := ih hwf.1 (s + t) ps' h'
    refine ⟨by simpa using h1, ?_, ?_, ?_⟩
    · rw [List.map_map, ← h2]; rfl
    · intro p hp
      simp only [List.mem_map] at hp
      obtain ⟨q, hq, rfl⟩ := hp
      have hq' := h3 q hq
      have hpos : 0 < q.height := by
        have : q.height ∈ splitSizes n k := by rw [← h2]; exact List.mem_map_of_mem hq
        rw [splitSizes_eq] at this
        simp only [List.mem_map] at this
        obtain ⟨i, _, hi⟩ := this
        rw [← hi]; exact sz_pos n k i (by omega) (by omega)
      have hqw : q.width = inner.width := hq'.1
      refine ⟨rfl, ?_⟩
      simp only [wf, cropValid, hq'.2, Bool.and_eq_true, decide_eq_true_eq, true_and, hqw]
      omega
    · rw [List.map_map]
      have hrow : ∀ p : View, ((fun p => p.rows 0) ∘ fun p => crop p l 0 w p.height) p
          = (fun L : List (List Nat) => L.map (fun row => (row.drop l).take w)) (p.rows 0) := by
        intro p
        simp only [Function.comp, rows, Nat.add_zero, Nat.sub_zero]
        rw [List.take_of_length_le]
        have := rows_length_le p 0
        omega
      rw [show ((fun p => p.rows 0) ∘ fun p => crop p l 0 w p.height)
            = (fun L : List (List Nat) => L.map (fun row => (row.drop l).take w)) ∘ (fun p => p.rows 0) from
          funext hrow]
      rw [← List.map_map, ← List.map_flatten, h4]
      simp only [rows]
      rw [← List.map_take, List.take_take, Nat.min_eq_left (by omega), Nat.add_comm t s]

theorem splitW_tiles (v : View) (hwf : v.wf = true) (hh : 0 < v.height) (s n k : Nat) (ps : List View)
    (h : v.splitW s n k = some ps) :
    ps.length = k ∧ ps.map View.width = splitSizes n k ∧
    (∀ p ∈ ps, p.height = v.height ∧ p.wf = true) ∧
    (∀ r, r < v.height →
      (ps.map (fun p => (p.rows 0).getD r [])).flatten = (((v.rows 0).getD r []).drop s).take n) := by
  induction v generalizing s ps with
  | typed off w H len =>
    rw [splitW_typed] at h
    cases hr : splitRejected w s n k
    case true => simp [hr] at h
    rw [hr] at h
    simp only [Bool.false_eq_true, if_false, Option.some.injEq] at h
    rw [splitRejected_eq_false_iff] at hr
    subst h
    simp only [height] at hh
    refine ⟨by simp, ?_, ?_, ?_⟩
    · rw [splitSizes_eq, List.map_map]; rfl
    · intro p hp
      simp only [List.mem_map, List.mem_range] at hp
      obtain ⟨i, hi, rfl⟩ := hp
      refine ⟨rfl, ?_⟩
      have h1 := offs_add_sz_le n k i hi
      have h2 := sz_pos n k i (by omega) (by omega)
      simp only [wf, decide_eq_true_eq] at hwf
      simp only [wf, cropValid, Bool.and_eq_true, decide_eq_true_eq]
      simp only [width, height]
      omega
    · intro r hr'
      simp only [height] at hr'
      rw [List.map_map]
      have := flatten_cols ((rows (typed off w H len) 0).getD r []) s n k k
      rw [offs_full n k (by omega)] at this
      rw [← this]
      congr 1
      apply List.map_congr_left
      intro i _
      simp only [Function.comp]
      rw [crop_row_getD _ _ _ _ _ _ hr', Nat.zero_add]
  | crop inner l t w H ih =>
    simp only [wf, cropValid, Bool.and_eq_true, decide_eq_true_eq] at hwf
    simp only [height] at hh
    rw [splitW_crop] at h
    cases hr : splitRejected w s n k
    case true => simp [hr] at h
    rw [hr] at h
    simp only [Bool.false_eq_true, if_false, Option.map_eq_some_iff] at h
    obtain ⟨ps', h', rfl⟩ := h
    rw [splitRejected_eq_false_iff] at hr
    obtain ⟨h1, h2, h3, h4⟩ := ih hwf.1 (by omega) (s + l) ps' h'
    refine ⟨by simpa using h1, ?_, ?_, ?_⟩
    · rw [List.map_map, ← h2]; rfl
    · intro p hp
      simp only [List.mem_map] at hp
      obtain ⟨q, hq, rfl⟩ := hp
      have hq' := h3 q hq
      have hpos : 0 < q.width := by
        have : q.width ∈ splitSizes n k := by rw [← h2]; exact List.mem_map_of_mem hq
        rw [splitSizes_eq] at this
        simp only [List.mem_map] at this
        obtain ⟨i, _, hi⟩ := this
        rw [← hi]; exact sz_pos n k i (by omega) (by omega)
      have hqh : q.height = inner.height := hq'.1
      refine ⟨rfl, ?_⟩
      simp only [wf, cropValid, hq'.2, Bool.and_eq_true, decide_eq_true_eq, true_and, hqh]
      omega
    · intro r hr'
      simp only [height] at hr'
      rw [List.map_map]
      have hrow : ∀ p : View, ((fun p => (p.rows 0).getD r []) ∘ fun p => crop p 0 t p.width H) p
          = (fun p => (p.rows 0).getD (t + r) []) p := by
        intro p
        simp only [Function.comp]
        rw [crop_row_getD _ _ _ _ _ _ hr', List.drop_zero, List.take_of_length_le]
        exact getD_row_length_le p 0 (t + r)
      rw [funext hrow, h4 (t + r) (by omega), crop_row_getD _ _ _ _ _ _ hr']
      rw [List.drop_take, List.take_take, List.drop_drop, Nat.min_eq_left (by omega), Nat.add_comm l s]

/-! ### parts never alias -/

theorem seg_nodup (a n : Nat) : (seg a n).Nodup := by
  unfold seg
  exact List.Nodup.map (fun x y h => by simpa using h) List.nodup_range

theorem mem_seg (a n x : Nat) : x ∈ seg a n ↔ a ≤ x ∧ x < a + n := by
  simp only [seg, List.mem_map, List.mem_range]
  constructor
  · rintro ⟨c, hc, rfl⟩; omega
  · intro h; exact ⟨x - a, by omega, by omega⟩

/-- the indices exposed from row `s` on are pairwise distinct (no well-formedness needed) -/
theorem rows_flatten_nodup (v : View) (s : Nat) : ((v.rows s).flatten).Nodup := by
  induction v generalizing s with
  | typed off w h len =>
    simp only [rows]
    split
    · simp
    · rw [List.nodup_flatten]
      constructor
      · intro l hl
        simp only [List.mem_map] at hl
        obtain ⟨r, _, rfl⟩ := hl
        exact seg_nodup _ _
      · rw [List.pairwise_map]
        refine List.Pairwise.imp ?_ List.pairwise_lt_range
        intro a b hab
        rw [List.disjoint_left]
        intro x hx hx'
        rw [mem_seg] at hx hx'
        have : (s + a + 1) * w ≤ (s + b) * w := Nat.mul_le_mul_right _ (by omega)
        rw [Nat.add_mul, Nat.one_mul] at this
        omega
  | crop inner l t w h ih =>
    simp only [rows]
    refine List.Sublist.nodup ?_ (ih (t + s))
    refine List.Sublist.trans (flatten_map_sublist _ ?_ _) (flatten_take_sublist _ _)
    intro row
    exact List.Sublist.trans (List.take_sublist _ _) (List.drop_sublist _ _)

theorem idx_nodup (v : View) (_hwf : v.wf = true) : ((v.rows 0).flatten).Nodup :=
  rows_flatten_nodup v 0

theorem splitH_parts_subset (v : View) (hwf : v.wf = true) (s n k : Nat) (ps : List View)
    (h : v.splitH s n k = some ps) (p : View) (hp : p ∈ ps) (x : Nat) (hx : x ∈ (p.rows 0).flatten) :
    x ∈ ((v.rows s).take n).flatten := by
  rw [← (splitH_tiles v hwf s n k ps h).2.2.2]
  rw [List.mem_flatten] at hx ⊢
  obtain ⟨row, hrow, hxr⟩ := hx
  refine ⟨row, ?_, hxr⟩
  rw [List.mem_flatten]
  exact ⟨p.rows 0, List.mem_map_of_mem hp, hrow⟩

theorem splitH_parts_disjoint (v : View) (hwf : v.wf = true) (s n k : Nat) (ps : List View)
    (h : v.splitH s n k = some ps) (i j : Nat) (hij : i < j) (hj : j < ps.length) (x : Nat)
    (hx : x ∈ ((ps[i]'(by omega)).rows 0).flatten) : x ∉ ((ps[j]).rows 0).flatten := by
  have ht := (splitH_tiles v hwf s n k ps h).2.2.2
  have hnd : ((ps.map (fun p => (p.rows 0).flatten)).flatten).Nodup := by
    have : (ps.map (fun p => (p.rows 0).flatten)) = (ps.map (fun p => p.rows 0)).map List.flatten := by
      rw [List.map_map]; rfl
    rw [this, ← List.flatten_flatten, ht]
    exact List.Sublist.nodup (flatten_take_sublist _ _) (rows_flatten_nodup v s)
  rw [List.nodup_flatten] at hnd
  have hp := hnd.2
  rw [List.pairwise_iff_getElem] at hp
  have := hp i j (by simp; omega) (by simpa using hj) hij
  simp only [List.getElem_map] at this
  exact List.disjoint_left.mp this hx


theorem getD_eq_getElem' {α : Type} (L : List (List α)) (i : Nat) (h : i < L.length) : L.getD i [] = L[i] := by
  simp [List.getD_eq_getElem?_getD, h]

theorem lt_length_of_mem_getD {α : Type} (L : List (List α)) (i : Nat) (x : α) (hx : x ∈ L.getD i []) :
    i < L.length := by
  apply Classical.byContradiction
  intro hcon
  have : L.getD i [] = [] := by
    simp only [List.getD_eq_getElem?_getD]
    rw [List.getElem?_eq_none (by omega)]; rfl
  rw [this] at hx
  simp at hx

theorem getD_disjoint_lt {α : Type} (L : List (List α)) (hnd : L.flatten.Nodup) (i j : Nat) (hij : i < j)
    (x : α) (hi : x ∈ L.getD i []) (hj : x ∈ L.getD j []) : False := by
  have hj' := lt_length_of_mem_getD L j x hj
  rw [getD_eq_getElem' L i (by omega)] at hi
  rw [getD_eq_getElem' L j hj'] at hj
  have hp := (List.nodup_flatten.mp hnd).2
  rw [List.pairwise_iff_getElem] at hp
  exact List.disjoint_left.mp (hp i j (by omega) hj' hij) hi hj

theorem getD_disjoint {α : Type} (L : List (List α)) (hnd : L.flatten.Nodup) (i j : Nat) (hne : i ≠ j)
    (x : α) (hi : x ∈ L.getD i []) (hj : x ∈ L.getD j []) : False := by
  rcases Nat.lt_or_gt_of_ne hne with h | h
  · exact getD_disjoint_lt L hnd i j h x hi hj
  · exact getD_disjoint_lt L hnd j i h x hj hi

theorem getD_nodup {α : Type} (L : List (List α)) (hnd : L.flatten.Nodup) (i : Nat) : (L.getD i []).Nodup := by
  by_cases h : i < L.length
  · rw [getD_eq_getElem' L i h]
    exact (List.nodup_flatten.mp hnd).1 _ (List.getElem_mem h)
  · have : L.getD i [] = [] := by
      simp only [List.getD_eq_getElem?_getD]
      rw [List.getElem?_eq_none (by omega)]; rfl
    rw [this]; exact List.nodup_nil

theorem mem_flatten_getD {α : Type} (L : List (List α)) (x : α) (hx : x ∈ L.flatten) :
    ∃ r, r < L.length ∧ x ∈ L.getD r [] := by
  rw [List.mem_flatten] at hx
  obtain ⟨l, hl, hxl⟩ := hx
  obtain ⟨r, hr, rfl⟩ := List.mem_iff_getElem.mp hl
  exact ⟨r, hr, by rw [getD_eq_getElem' L r hr]; exact hxl⟩

/-- an index in row `r` of a part of a width split lies in row `r` of the view -/
theorem splitW_part_row_mem (v : View) (hwf : v.wf = true) (hh : 0 < v.height) (s n k : Nat) (ps : List View)
    (h : v.splitW s n k = some ps) (p : View) (hp : p ∈ ps) (x : Nat) (hx : x ∈ (p.rows 0).flatten) :
    ∃ r, r < v.height ∧ x ∈ (p.rows 0).getD r [] ∧ x ∈ (v.rows 0).getD r [] := by
  obtain ⟨_, _, h3, h4⟩ := splitW_tiles v hwf hh s n k ps h
  obtain ⟨r, hr, hxr⟩ := mem_flatten_getD _ x hx
  have hrv : r < v.height := by
    have := rows_length_le p 0
    have := (h3 p hp).1
    omega
  refine ⟨r, hrv, hxr, ?_⟩
  have : x ∈ (ps.map (fun p => (p.rows 0).getD r [])).flatten :=
    List.mem_flatten.mpr ⟨_, List.mem_map_of_mem hp, hxr⟩
  rw [h4 r hrv] at this
  exact List.mem_of_mem_drop (List.mem_of_mem_take this)

theorem splitW_parts_disjoint (v : View) (hwf : v.wf = true) (hh : 0 < v.height) (s n k : Nat) (ps : List View)
    (h : v.splitW s n k = some ps) (i j : Nat) (hij : i < j) (hj : j < ps.length) (x : Nat)
    (hx : x ∈ ((ps[i]'(by omega)).rows 0).flatten) : x ∉ ((ps[j]).rows 0).flatten := by
  intro hx'
  obtain ⟨r, hr, hxr, hxv⟩ := splitW_part_row_mem v hwf hh s n k ps h _ (List.getElem_mem _) x hx
  obtain ⟨r', hr', hxr', hxv'⟩ := splitW_part_row_mem v hwf hh s n k ps h _ (List.getElem_mem _) x hx'
  have hvnd := rows_flatten_nodup v 0
  have hrr : r = r' := by
    apply Classical.byContradiction
    intro hne
    exact getD_disjoint _ hvnd r r' hne x hxv hxv'
  subst hrr
  have h4 := (splitW_tiles v hwf hh s n k ps h).2.2.2 r hr
  have hnd : ((ps.map (fun p => (p.rows 0).getD r [])).flatten).Nodup := by
    rw [h4]
    exact List.Sublist.nodup (List.Sublist.trans (List.take_sublist _ _) (List.drop_sublist _ _))
      (getD_nodup _ hvnd r)
  have hp := (List.nodup_flatten.mp hnd).2
  rw [List.pairwise_iff_getElem] at hp
  have := hp i j (by simp; omega) (by simpa using hj) hij
  simp only [List.getElem_map] at this
  exact List.disjoint_left.mp this hxr hxr'

end Fir.Proofs
