/-
  Fir.Proofs.SimdU8x2Lemmas - the SSE4.1 horizontal kernels for two-channel 8-bit images (`Fir.Model.SimdU8x2`, masks
  re-extracted from the source) against the portable kernel.

  Both kernels keep two partial sums per channel.  `StepOK` says of a piece of a kernel (one 8 / 4 / 2 / 1 step, a
  remainder, a whole loop) what it adds to the four lanes: increments `e0 .. e3` whose pairs add up to the channel's dot
  product over the coefficients consumed, each bounded by `255 * Σ|k|`.  Pieces compose (`StepOK.comp`), so the loop and
  every remainder branch follow from the single steps; the final `saturating_add` is then exact under the headroom bound.
-/
import Fir.Model.SimdU8x2
import Fir.Model.Resample
import Fir.Proofs.FixedLemmas
import Fir.Proofs.SimdU8x4Lemmas
import Mathlib.Tactic.Ring
import Mathlib.Tactic.Linarith

set_option linter.unnecessarySeqFocus false
set_option linter.unreachableTactic false
set_option linter.unusedTactic false
set_option linter.unusedSimpArgs false

namespace Fir.Proofs.U8x2
open Fir Fir.SimdU8x2 Fir.Gen Fir.Proofs
open Fir.SimdU8x4 (wrap32 pshufb madd add32 i16At i16pair wrap16 kBytes clone4)

/-- one product of the kernels: byte `j` after pixel `x` of the row times a coefficient -/
def pb (row : List Int) (x j : Nat) (k : Int) : Int := row.getD (2 * x + j) 0 % 256 * wrap16 k

theorem pb_bound (row : List Int) (x j : Nat) (k : Int) :
    -(255 * ((wrap16 k).natAbs : Int)) ≤ pb row x j k ∧ pb row x j k ≤ 255 * ((wrap16 k).natAbs : Int) := by
  unfold pb
  generalize wrap16 k = κ
  have hb0 : 0 ≤ row.getD (2 * x + j) 0 % 256 := Int.emod_nonneg _ (by decide)
  have hb1 : row.getD (2 * x + j) 0 % 256 < 256 := Int.emod_lt_of_pos _ (by decide)
  generalize row.getD (2 * x + j) 0 % 256 = b at *
  rcases Int.natAbs_eq κ with h | h
  · rw [h] at *; simp only [Int.natAbs_natCast]
    have : (0 : Int) ≤ (κ.natAbs : Int) := Int.natCast_nonneg _
    constructor <;> nlinarith
  · have hn : (0 : Int) ≤ (κ.natAbs : Int) := Int.natCast_nonneg _
    generalize (κ.natAbs : Int) = n at *
    subst h
    constructor <;> nlinarith

theorem absSum_nonneg (ks : List Int) : 0 ≤ absSum ks := by
  induction ks with
  | nil => simp [absSum]
  | cons k ks ih => simp only [absSum]; have : (0 : Int) ≤ ((wrap16 k).natAbs : Int) := Int.natCast_nonneg _; omega

theorem absSum_append (a b : List Int) : absSum (a ++ b) = absSum a + absSum b := by
  induction a with
  | nil => simp [absSum]
  | cons k a ih => simp only [List.cons_append, absSum, ih]; ring

theorem dot2_append (row : List Int) (c : Nat) (a b : List Int) (x : Nat) :
    dot2 row c (a ++ b) x = dot2 row c a x + dot2 row c b (x + a.length) := by
  induction a generalizing x with
  | nil => simp [dot2]
  | cons k a ih =>
    simp only [List.cons_append, dot2, ih, List.length_cons]
    have : x + 1 + a.length = x + (a.length + 1) := by omega
    rw [this]; ring

theorem dot2_bound (row : List Int) (c : Nat) (ks : List Int) : ∀ x : Nat,
    -(255 * absSum ks) ≤ dot2 row c ks x ∧ dot2 row c ks x ≤ 255 * absSum ks := by
  induction ks with
  | nil => intro x; simp [dot2, absSum]
  | cons k ks ih =>
    intro x
    have h := pb_bound row x c k
    have h' := ih (x + 1)
    simp only [dot2, absSum]
    unfold pb at h
    constructor <;> linarith [h.1, h.2, h'.1, h'.2]

/-- what a piece `f` of a kernel does to the four lanes while consuming the coefficients `ks` at pixel `x`;
    `pr = true`: lanes `[L, L, A, A]` (four-row kernel), `pr = false`: lanes `[L, A, L, A]` (one-row kernel) -/
def StepOK (pr : Bool) (row : List Int) (f : List Int → List Int) (ks : List Int) (x : Nat) : Prop :=
  ∀ a0 a1 a2 a3 : Int, ∃ e0 e1 e2 e3 : Int,
    f [wrap32 a0, wrap32 a1, wrap32 a2, wrap32 a3] = [wrap32 (a0 + e0), wrap32 (a1 + e1), wrap32 (a2 + e2), wrap32 (a3 + e3)] ∧
    (if pr then e0 + e1 else e0 + e2) = dot2 row 0 ks x ∧
    (if pr then e2 + e3 else e1 + e3) = dot2 row 1 ks x ∧
    (-(255 * absSum ks) ≤ e0 ∧ e0 ≤ 255 * absSum ks) ∧ (-(255 * absSum ks) ≤ e1 ∧ e1 ≤ 255 * absSum ks) ∧
    (-(255 * absSum ks) ≤ e2 ∧ e2 ≤ 255 * absSum ks) ∧ (-(255 * absSum ks) ≤ e3 ∧ e3 ≤ 255 * absSum ks)

theorem StepOK.id (pr : Bool) (row : List Int) (x : Nat) : StepOK pr row (fun s => s) [] x := by
  intro a0 a1 a2 a3
  refine ⟨0, 0, 0, 0, by simp, ?_, ?_, ?_⟩ <;> simp [dot2, absSum]

theorem StepOK.comp {pr : Bool} {row : List Int} {f g : List Int → List Int} {ks1 ks2 : List Int} {x : Nat}
    (hf : StepOK pr row f ks1 x) (hg : StepOK pr row g ks2 (x + ks1.length)) :
    StepOK pr row (fun s => g (f s)) (ks1 ++ ks2) x := by
  intro a0 a1 a2 a3
  obtain ⟨e0, e1, e2, e3, hfe, hL, hA, b0, b1, b2, b3⟩ := hf a0 a1 a2 a3
  obtain ⟨d0, d1, d2, d3, hge, hL', hA', c0, c1, c2, c3⟩ := hg (a0 + e0) (a1 + e1) (a2 + e2) (a3 + e3)
  have n1 := absSum_nonneg ks1
  have n2 := absSum_nonneg ks2
  refine ⟨e0 + d0, e1 + d1, e2 + d2, e3 + d3, ?_, ?_, ?_, ?_, ?_, ?_, ?_⟩
  · simp only [hfe, hge, add_assoc]
  · rw [dot2_append, ← hL, ← hL']; cases pr <;> simp <;> ring
  · rw [dot2_append, ← hA, ← hA']; cases pr <;> simp <;> ring
  all_goals (rw [absSum_append]; constructor <;> linarith [b0.1, b0.2, b1.1, b1.2, b2.1, b2.2, b3.1, b3.2, c0.1, c0.2, c1.1, c1.2, c2.1, c2.2, c3.1, c3.2])

/-! ### the four-row kernel: single steps -/

theorem acc8r_eq (a0 a1 a2 a3 : Int) (row : List Int) (x : Nat) (k0 k1 k2 k3 k4 k5 k6 k7 : Int) :
    acc8r [wrap32 a0, wrap32 a1, wrap32 a2, wrap32 a3] row x [k0, k1, k2, k3, k4, k5, k6, k7]
      = [wrap32 (a0 + (pb row x 0 k0 + pb row x 2 k1 + pb row x 8 k4 + pb row x 10 k5)),
         wrap32 (a1 + (pb row x 4 k2 + pb row x 6 k3 + pb row x 12 k6 + pb row x 14 k7)),
         wrap32 (a2 + (pb row x 1 k0 + pb row x 3 k1 + pb row x 9 k4 + pb row x 11 k5)),
         wrap32 (a3 + (pb row x 5 k2 + pb row x 7 k3 + pb row x 13 k6 + pb row x 15 k7))] := by
  simp only [acc8r, set1x64, src2, add32, madd, pshufb, i16At, kBytes, u8x2_sse4_four_sh1, u8x2_sse4_four_sh2, pb,
    List.take, List.drop, List.range, List.range.loop, List.map, List.flatMap_cons, List.flatMap_nil, List.append_nil, List.replicate,
    List.cons_append, List.nil_append, List.getD_cons_succ, List.getD_cons_zero, List.zipWith]
  simp [i16_byte, i16_lohi, w32_add_left, w32_add_right]
  refine ⟨?_, ?_, ?_, ?_⟩ <;> (congr 1 <;> ring_nf)

theorem acc4r_eq (a0 a1 a2 a3 : Int) (row : List Int) (x : Nat) (k0 k1 k2 k3 : Int) :
    acc4r [wrap32 a0, wrap32 a1, wrap32 a2, wrap32 a3] row x [k0, k1, k2, k3]
      = [wrap32 (a0 + (pb row x 0 k0 + pb row x 2 k1)), wrap32 (a1 + (pb row x 4 k2 + pb row x 6 k3)),
         wrap32 (a2 + (pb row x 1 k0 + pb row x 3 k1)), wrap32 (a3 + (pb row x 5 k2 + pb row x 7 k3))] := by
  simp only [acc4r, set1x64, src2, add32, madd, pshufb, i16At, kBytes, u8x2_sse4_four_sh1, pb,
    List.range, List.range.loop, List.map, List.flatMap_cons, List.flatMap_nil, List.append_nil, List.replicate,
    List.cons_append, List.nil_append, List.getD_cons_succ, List.getD_cons_zero, List.zipWith]
  simp [i16_byte, i16_lohi, w32_add_left, w32_add_right]

theorem acc2r_eq (a0 a1 a2 a3 : Int) (row : List Int) (x : Nat) (k0 k1 : Int) :
    acc2r [wrap32 a0, wrap32 a1, wrap32 a2, wrap32 a3] row x [k0, k1]
      = [wrap32 (a0 + (pb row x 0 k0 + pb row x 2 k1)), wrap32 (a1 + 0),
         wrap32 (a2 + (pb row x 1 k0 + pb row x 3 k1)), wrap32 (a3 + 0)] := by
  simp only [acc2r, clone4, src2, add32, madd, pshufb, i16At, kBytes, u8x2_sse4_four_sh1, pb,
    List.range, List.range.loop, List.map, List.flatMap_cons, List.flatMap_nil, List.append_nil, List.replicate,
    List.cons_append, List.nil_append, List.getD_cons_succ, List.getD_cons_zero, List.zipWith]
  simp [i16_byte, i16_zero, i16_lohi, w32_add_left, w32_add_right, w32_idem]

theorem acc1r_eq (a0 a1 a2 a3 : Int) (row : List Int) (x : Nat) (k : Int) :
    acc1r [wrap32 a0, wrap32 a1, wrap32 a2, wrap32 a3] row x k
      = [wrap32 (a0 + pb row x 0 k), wrap32 (a1 + 0), wrap32 (a2 + pb row x 1 k), wrap32 (a3 + 0)] := by
  have hk : i16pair (wrap16 k % 256) (wrap16 k / 256 % 256) = wrap16 k := by rw [i16_lohi, wrap16_idem]
  simp only [acc1r, set1x32, clone4, src2, add32, madd, pshufb, i16At, u8x2_sse4_four_sh1, pb,
    List.range, List.range.loop, List.map, List.append_nil, List.replicate,
    List.cons_append, List.nil_append, List.getD_cons_succ, List.getD_cons_zero, List.zipWith]
  simp [i16_byte, i16_zero, hk, w32_add_left, w32_add_right, w32_idem]

/-! ### single steps as `StepOK` -/

theorem step8r (row : List Int) (x : Nat) (k0 k1 k2 k3 k4 k5 k6 k7 : Int) :
    StepOK true row (fun s => acc8r s row x [k0, k1, k2, k3, k4, k5, k6, k7]) [k0, k1, k2, k3, k4, k5, k6, k7] x := by
  intro a0 a1 a2 a3
  have h0 := pb_bound row x 0 k0; have h1 := pb_bound row x 1 k0; have h2 := pb_bound row x 2 k1; have h3 := pb_bound row x 3 k1
  have h4 := pb_bound row x 4 k2; have h5 := pb_bound row x 5 k2; have h6 := pb_bound row x 6 k3; have h7 := pb_bound row x 7 k3
  have h8 := pb_bound row x 8 k4; have h9 := pb_bound row x 9 k4; have h10 := pb_bound row x 10 k5; have h11 := pb_bound row x 11 k5
  have h12 := pb_bound row x 12 k6; have h13 := pb_bound row x 13 k6; have h14 := pb_bound row x 14 k7; have h15 := pb_bound row x 15 k7
  refine ⟨_, _, _, _, acc8r_eq a0 a1 a2 a3 row x k0 k1 k2 k3 k4 k5 k6 k7, ?_, ?_, ?_, ?_, ?_, ?_⟩
  · simp only [if_true, dot2, pb] <;> ring_nf
  · simp only [if_true, dot2, pb] <;> ring_nf
  all_goals (simp only [absSum]; omega)

theorem step4r (row : List Int) (x : Nat) (k0 k1 k2 k3 : Int) :
    StepOK true row (fun s => acc4r s row x [k0, k1, k2, k3]) [k0, k1, k2, k3] x := by
  intro a0 a1 a2 a3
  have h0 := pb_bound row x 0 k0; have h1 := pb_bound row x 1 k0; have h2 := pb_bound row x 2 k1; have h3 := pb_bound row x 3 k1
  have h4 := pb_bound row x 4 k2; have h5 := pb_bound row x 5 k2; have h6 := pb_bound row x 6 k3; have h7 := pb_bound row x 7 k3
  refine ⟨_, _, _, _, acc4r_eq a0 a1 a2 a3 row x k0 k1 k2 k3, ?_, ?_, ?_, ?_, ?_, ?_⟩
  · simp only [if_true, dot2, pb] <;> ring_nf
  · simp only [if_true, dot2, pb] <;> ring_nf
  all_goals (simp only [absSum]; omega)

theorem step2r (row : List Int) (x : Nat) (k0 k1 : Int) :
    StepOK true row (fun s => acc2r s row x [k0, k1]) [k0, k1] x := by
  intro a0 a1 a2 a3
  have h0 := pb_bound row x 0 k0; have h1 := pb_bound row x 1 k0; have h2 := pb_bound row x 2 k1; have h3 := pb_bound row x 3 k1
  refine ⟨_, _, _, _, acc2r_eq a0 a1 a2 a3 row x k0 k1, ?_, ?_, ?_, ?_, ?_, ?_⟩
  · simp only [if_true, dot2, pb] <;> ring_nf
  · simp only [if_true, dot2, pb] <;> ring_nf
  all_goals (simp only [absSum]; omega)

theorem step1r (row : List Int) (x : Nat) (k : Int) :
    StepOK true row (fun s => acc1r s row x k) [k] x := by
  intro a0 a1 a2 a3
  have h0 := pb_bound row x 0 k; have h1 := pb_bound row x 1 k
  refine ⟨_, _, _, _, acc1r_eq a0 a1 a2 a3 row x k, ?_, ?_, ?_, ?_, ?_, ?_⟩
  · simp only [if_true, dot2, pb] <;> ring_nf
  · simp only [if_true, dot2, pb] <;> ring_nf
  all_goals (simp only [absSum]; omega)

/-! ### the remainder and the loop of the four-row kernel -/

theorem tailR0 (s row : List Int) (x : Nat) : tailR s row x [] = s := rfl
theorem tailR1 (s row : List Int) (x : Nat) (k0 : Int) : tailR s row x [k0] = acc1r s row x k0 := rfl
theorem tailR2 (s row : List Int) (x : Nat) (k0 k1 : Int) : tailR s row x [k0, k1] = acc2r s row x [k0, k1] := rfl
theorem tailR3 (s row : List Int) (x : Nat) (k0 k1 k2 : Int) :
    tailR s row x [k0, k1, k2] = acc1r (acc2r s row x [k0, k1]) row (x + 2) k2 := rfl
theorem tailR4 (s row : List Int) (x : Nat) (k0 k1 k2 k3 : Int) : tailR s row x [k0, k1, k2, k3] = acc4r s row x [k0, k1, k2, k3] := rfl
theorem tailR5 (s row : List Int) (x : Nat) (k0 k1 k2 k3 k4 : Int) :
    tailR s row x [k0, k1, k2, k3, k4] = acc1r (acc4r s row x [k0, k1, k2, k3]) row (x + 4) k4 := rfl
theorem tailR6 (s row : List Int) (x : Nat) (k0 k1 k2 k3 k4 k5 : Int) :
    tailR s row x [k0, k1, k2, k3, k4, k5] = acc2r (acc4r s row x [k0, k1, k2, k3]) row (x + 4) [k4, k5] := rfl
theorem tailR7 (s row : List Int) (x : Nat) (k0 k1 k2 k3 k4 k5 k6 : Int) :
    tailR s row x [k0, k1, k2, k3, k4, k5, k6]
      = acc1r (acc2r (acc4r s row x [k0, k1, k2, k3]) row (x + 4) [k4, k5]) row (x + 4 + 2) k6 := rfl

theorem tailR_ok (row : List Int) (x : Nat) (ks : List Int) (hlen : ks.length < 8) :
    StepOK true row (fun s => tailR s row x ks) ks x := by
  match ks, hlen with
  | [], _ => exact StepOK.id true row x
  | [k0], _ => simpa only [tailR1] using step1r row x k0
  | [k0, k1], _ => simpa only [tailR2] using step2r row x k0 k1
  | [k0, k1, k2], _ =>
    have := StepOK.comp (step2r row x k0 k1) (step1r row (x + 2) k2)
    simpa only [tailR3, List.cons_append, List.nil_append] using this
  | [k0, k1, k2, k3], _ => simpa only [tailR4] using step4r row x k0 k1 k2 k3
  | [k0, k1, k2, k3, k4], _ =>
    have := StepOK.comp (step4r row x k0 k1 k2 k3) (step1r row (x + 4) k4)
    simpa only [tailR5, List.cons_append, List.nil_append] using this
  | [k0, k1, k2, k3, k4, k5], _ =>
    have := StepOK.comp (step4r row x k0 k1 k2 k3) (step2r row (x + 4) k4 k5)
    simpa only [tailR6, List.cons_append, List.nil_append] using this
  | [k0, k1, k2, k3, k4, k5, k6], _ =>
    have := StepOK.comp (StepOK.comp (step4r row x k0 k1 k2 k3) (step2r row (x + 4) k4 k5)) (step1r row (x + 4 + 2) k6)
    simpa only [tailR7, List.cons_append, List.nil_append] using this
  | _ :: _ :: _ :: _ :: _ :: _ :: _ :: _ :: _, h => exfalso; simp at h; omega

theorem loopR_ok (row : List Int) (n : Nat) : ∀ (ks : List Int), ks.length ≤ n → ∀ x : Nat,
    StepOK true row (fun s => loopR row ks x s) ks x := by
  induction n with
  | zero =>
    intro ks hn x
    have : ks = [] := List.eq_nil_of_length_eq_zero (by omega)
    subst this
    have : (fun s => loopR row [] x s) = fun s => s := by funext s; rw [loopR]; simp [tailR0]
    rw [this]; exact StepOK.id true row x
  | succ n ih =>
    intro ks hn x
    by_cases h8 : 8 ≤ ks.length
    · match ks, h8, hn with
      | k0 :: k1 :: k2 :: k3 :: k4 :: k5 :: k6 :: k7 :: rest, _, hn =>
        have hrest : rest.length ≤ n := by simp at hn; omega
        have hc := StepOK.comp (step8r row x k0 k1 k2 k3 k4 k5 k6 k7) (ih rest hrest (x + 8))
        have e : (fun s => loopR row (k0 :: k1 :: k2 :: k3 :: k4 :: k5 :: k6 :: k7 :: rest) x s)
            = fun s => loopR row rest (x + 8) (acc8r s row x [k0, k1, k2, k3, k4, k5, k6, k7]) := by
          funext s; rw [loopR]; simp
        rw [e]
        simpa using hc
    · have e : (fun s => loopR row ks x s) = fun s => tailR s row x ks := by
        funext s; rw [loopR, dif_neg h8]
      rw [e]; exact tailR_ok row x ks (by omega)

/-! ### the one-row kernel: lanes `[L, A, L, A]` -/

theorem acc8_eq (a0 a1 a2 a3 : Int) (row : List Int) (x : Nat) (k0 k1 k2 k3 k4 k5 k6 k7 : Int) :
    SimdU8x2.acc8 [wrap32 a0, wrap32 a1, wrap32 a2, wrap32 a3] row x [k0, k1, k2, k3, k4, k5, k6, k7]
      = [wrap32 (a0 + (pb row x 0 k0 + pb row x 2 k1 + pb row x 8 k4 + pb row x 10 k5)),
         wrap32 (a1 + (pb row x 1 k0 + pb row x 3 k1 + pb row x 9 k4 + pb row x 11 k5)),
         wrap32 (a2 + (pb row x 4 k2 + pb row x 6 k3 + pb row x 12 k6 + pb row x 14 k7)),
         wrap32 (a3 + (pb row x 5 k2 + pb row x 7 k3 + pb row x 13 k6 + pb row x 15 k7))] := by
  simp only [SimdU8x2.acc8, src2, add32, madd, pshufb, i16At, kBytes, u8x2_sse4_one_pix_sh1, u8x2_sse4_one_pix_sh2,
    u8x2_sse4_one_coeff_sh1, u8x2_sse4_one_coeff_sh2, pb,
    List.range, List.range.loop, List.map, List.flatMap_cons, List.flatMap_nil, List.append_nil, List.replicate,
    List.cons_append, List.nil_append, List.getD_cons_succ, List.getD_cons_zero, List.zipWith]
  simp [i16_byte, i16_lohi, w32_add_left, w32_add_right]
  refine ⟨?_, ?_, ?_, ?_⟩ <;> (congr 1 <;> ring_nf)

theorem acc4_eq (a0 a1 a2 a3 : Int) (row : List Int) (x : Nat) (k0 k1 k2 k3 : Int) :
    SimdU8x2.acc4 [wrap32 a0, wrap32 a1, wrap32 a2, wrap32 a3] row x k0 k1 k2 k3
      = [wrap32 (a0 + (pb row x 0 k0 + pb row x 2 k1)), wrap32 (a1 + (pb row x 1 k0 + pb row x 3 k1)),
         wrap32 (a2 + (pb row x 4 k2 + pb row x 6 k3)), wrap32 (a3 + (pb row x 5 k2 + pb row x 7 k3))] := by
  simp only [SimdU8x2.acc4, src2, add32, madd, pshufb, i16At, kBytes, u8x2_sse4_one_pix_sh3, pb,
    List.range, List.range.loop, List.map, List.flatMap_cons, List.flatMap_nil, List.append_nil, List.replicate,
    List.cons_append, List.nil_append, List.getD_cons_succ, List.getD_cons_zero, List.zipWith]
  simp [i16_byte, i16_lohi, w32_add_left, w32_add_right]

theorem accRem1_eq (a0 a1 a2 a3 : Int) (row : List Int) (x : Nat) (k0 : Int) :
    accRem [wrap32 a0, wrap32 a1, wrap32 a2, wrap32 a3] row x [k0]
      = [wrap32 (a0 + pb row x 0 k0), wrap32 (a1 + pb row x 1 k0), wrap32 (a2 + 0), wrap32 (a3 + 0)] := by
  simp only [accRem, add32, madd, i16At, kBytes, pb, List.length_cons, List.length_nil,
    List.range, List.range.loop, List.map, List.flatMap_cons, List.flatMap_nil, List.append_nil,
    List.cons_append, List.nil_append, List.getD_cons_succ, List.getD_cons_zero, List.zipWith]
  simp [i16_byte, i16_zero, i16_lohi, w32_add_left, w32_add_right, w32_idem]

theorem accRem2_eq (a0 a1 a2 a3 : Int) (row : List Int) (x : Nat) (k0 k1 : Int) :
    accRem [wrap32 a0, wrap32 a1, wrap32 a2, wrap32 a3] row x [k0, k1]
      = [wrap32 (a0 + (pb row x 0 k0 + pb row x 2 k1)), wrap32 (a1 + (pb row x 1 k0 + pb row x 3 k1)), wrap32 (a2 + 0), wrap32 (a3 + 0)] := by
  simp only [accRem, add32, madd, i16At, kBytes, pb, List.length_cons, List.length_nil,
    List.range, List.range.loop, List.map, List.flatMap_cons, List.flatMap_nil, List.append_nil,
    List.cons_append, List.nil_append, List.getD_cons_succ, List.getD_cons_zero, List.zipWith]
  simp [i16_byte, i16_zero, i16_lohi, w32_add_left, w32_add_right, w32_idem]
  refine ⟨?_, ?_⟩ <;> (congr 1 <;> ring_nf)

theorem accRem3_eq (a0 a1 a2 a3 : Int) (row : List Int) (x : Nat) (k0 k1 k2 : Int) :
    accRem [wrap32 a0, wrap32 a1, wrap32 a2, wrap32 a3] row x [k0, k1, k2]
      = [wrap32 (a0 + (pb row x 0 k0 + pb row x 2 k1)), wrap32 (a1 + (pb row x 1 k0 + pb row x 3 k1)),
         wrap32 (a2 + pb row x 4 k2), wrap32 (a3 + pb row x 5 k2)] := by
  simp only [accRem, add32, madd, i16At, kBytes, pb, List.length_cons, List.length_nil,
    List.range, List.range.loop, List.map, List.flatMap_cons, List.flatMap_nil, List.append_nil,
    List.cons_append, List.nil_append, List.getD_cons_succ, List.getD_cons_zero, List.zipWith]
  simp [i16_byte, i16_zero, i16_lohi, w32_add_left, w32_add_right, w32_idem]
  refine ⟨?_, ?_, ?_, ?_⟩ <;> (congr 1 <;> ring_nf)

theorem step8 (row : List Int) (x : Nat) (k0 k1 k2 k3 k4 k5 k6 k7 : Int) :
    StepOK false row (fun s => SimdU8x2.acc8 s row x [k0, k1, k2, k3, k4, k5, k6, k7]) [k0, k1, k2, k3, k4, k5, k6, k7] x := by
  intro a0 a1 a2 a3
  have h0 := pb_bound row x 0 k0; have h1 := pb_bound row x 1 k0; have h2 := pb_bound row x 2 k1; have h3 := pb_bound row x 3 k1
  have h4 := pb_bound row x 4 k2; have h5 := pb_bound row x 5 k2; have h6 := pb_bound row x 6 k3; have h7 := pb_bound row x 7 k3
  have h8 := pb_bound row x 8 k4; have h9 := pb_bound row x 9 k4; have h10 := pb_bound row x 10 k5; have h11 := pb_bound row x 11 k5
  have h12 := pb_bound row x 12 k6; have h13 := pb_bound row x 13 k6; have h14 := pb_bound row x 14 k7; have h15 := pb_bound row x 15 k7
  refine ⟨_, _, _, _, acc8_eq a0 a1 a2 a3 row x k0 k1 k2 k3 k4 k5 k6 k7, ?_, ?_, ?_, ?_, ?_, ?_⟩
  · simp only [Bool.false_eq_true, if_false, dot2, pb] <;> ring_nf
  · simp only [Bool.false_eq_true, if_false, dot2, pb] <;> ring_nf
  all_goals (simp only [absSum]; omega)

theorem step4 (row : List Int) (x : Nat) (k0 k1 k2 k3 : Int) :
    StepOK false row (fun s => SimdU8x2.acc4 s row x k0 k1 k2 k3) [k0, k1, k2, k3] x := by
  intro a0 a1 a2 a3
  have h0 := pb_bound row x 0 k0; have h1 := pb_bound row x 1 k0; have h2 := pb_bound row x 2 k1; have h3 := pb_bound row x 3 k1
  have h4 := pb_bound row x 4 k2; have h5 := pb_bound row x 5 k2; have h6 := pb_bound row x 6 k3; have h7 := pb_bound row x 7 k3
  refine ⟨_, _, _, _, acc4_eq a0 a1 a2 a3 row x k0 k1 k2 k3, ?_, ?_, ?_, ?_, ?_, ?_⟩
  · simp only [Bool.false_eq_true, if_false, dot2, pb] <;> ring_nf
  · simp only [Bool.false_eq_true, if_false, dot2, pb] <;> ring_nf
  all_goals (simp only [absSum]; omega)

theorem stepRem (row : List Int) (x : Nat) (ks : List Int) (h1 : 1 ≤ ks.length) (h3 : ks.length ≤ 3) :
    StepOK false row (fun s => accRem s row x ks) ks x := by
  intro a0 a1 a2 a3
  match ks, h1, h3 with
  | [k0], _, _ =>
    have h0 := pb_bound row x 0 k0; have h1 := pb_bound row x 1 k0
    refine ⟨_, _, _, _, accRem1_eq a0 a1 a2 a3 row x k0, ?_, ?_, ?_, ?_, ?_, ?_⟩
    · simp only [Bool.false_eq_true, if_false, dot2, pb] <;> ring_nf
    · simp only [Bool.false_eq_true, if_false, dot2, pb] <;> ring_nf
    all_goals (simp only [absSum]; omega)
  | [k0, k1], _, _ =>
    have h0 := pb_bound row x 0 k0; have h1 := pb_bound row x 1 k0; have h2 := pb_bound row x 2 k1; have h3 := pb_bound row x 3 k1
    refine ⟨_, _, _, _, accRem2_eq a0 a1 a2 a3 row x k0 k1, ?_, ?_, ?_, ?_, ?_, ?_⟩
    · simp only [Bool.false_eq_true, if_false, dot2, pb] <;> ring_nf
    · simp only [Bool.false_eq_true, if_false, dot2, pb] <;> ring_nf
    all_goals (simp only [absSum]; omega)
  | [k0, k1, k2], _, _ =>
    have h0 := pb_bound row x 0 k0; have h1 := pb_bound row x 1 k0; have h2 := pb_bound row x 2 k1; have h3 := pb_bound row x 3 k1
    have h4 := pb_bound row x 4 k2; have h5 := pb_bound row x 5 k2
    refine ⟨_, _, _, _, accRem3_eq a0 a1 a2 a3 row x k0 k1 k2, ?_, ?_, ?_, ?_, ?_, ?_⟩
    · simp only [Bool.false_eq_true, if_false, dot2, pb] <;> ring_nf
    · simp only [Bool.false_eq_true, if_false, dot2, pb] <;> ring_nf
    all_goals (simp only [absSum]; omega)
  | _ :: _ :: _ :: _ :: _, _, h => exfalso; simp at h

theorem tail_ok (row : List Int) (x : Nat) (ks : List Int) (hlen : ks.length < 8) :
    StepOK false row (fun s => SimdU8x2.tail s row x ks) ks x := by
  match ks, hlen with
  | [], _ => exact StepOK.id false row x
  | [k0], _ => exact stepRem row x [k0] (by simp) (by simp)
  | [k0, k1], _ => exact stepRem row x [k0, k1] (by simp) (by simp)
  | [k0, k1, k2], _ => exact stepRem row x [k0, k1, k2] (by simp) (by simp)
  | [k0, k1, k2, k3], _ => exact step4 row x k0 k1 k2 k3
  | k0 :: k1 :: k2 :: k3 :: k4 :: rest, h =>
    have hr : (k4 :: rest).length ≤ 3 := by simp at h ⊢; omega
    have := StepOK.comp (step4 row x k0 k1 k2 k3) (stepRem row (x + 4) (k4 :: rest) (by simp) hr)
    simpa only [SimdU8x2.tail, List.isEmpty_cons, Bool.false_eq_true, if_false, List.cons_append, List.nil_append, List.length_cons, List.length_nil] using this

theorem loop_ok (row : List Int) (n : Nat) : ∀ (ks : List Int), ks.length ≤ n → ∀ x : Nat,
    StepOK false row (fun s => SimdU8x2.loop row ks x s) ks x := by
  induction n with
  | zero =>
    intro ks hn x
    have : ks = [] := List.eq_nil_of_length_eq_zero (by omega)
    subst this
    have : (fun s => SimdU8x2.loop row [] x s) = fun s => s := by funext s; rw [SimdU8x2.loop]; simp [SimdU8x2.tail]
    rw [this]; exact StepOK.id false row x
  | succ n ih =>
    intro ks hn x
    by_cases h8 : 8 ≤ ks.length
    · match ks, h8, hn with
      | k0 :: k1 :: k2 :: k3 :: k4 :: k5 :: k6 :: k7 :: rest, _, hn =>
        have hrest : rest.length ≤ n := by simp at hn; omega
        have hc := StepOK.comp (step8 row x k0 k1 k2 k3 k4 k5 k6 k7) (ih rest hrest (x + 8))
        have e : (fun s => SimdU8x2.loop row (k0 :: k1 :: k2 :: k3 :: k4 :: k5 :: k6 :: k7 :: rest) x s)
            = fun s => SimdU8x2.loop row rest (x + 8) (SimdU8x2.acc8 s row x [k0, k1, k2, k3, k4, k5, k6, k7]) := by
          funext s; rw [SimdU8x2.loop]; simp
        rw [e]
        simpa using hc
    · have e : (fun s => SimdU8x2.loop row ks x s) = fun s => SimdU8x2.tail s row x ks := by
        funext s; rw [SimdU8x2.loop, dif_neg h8]
      rw [e]; exact tail_ok row x ks (by omega)

/-! ### the saturating join of the two halves and the final pixel -/

theorem join_exact (p : Nat) (hp2 : 2 ≤ p) (t e f B d : Int) (ht : t = 2 ^ (p - 2))
    (he : -B ≤ e ∧ e ≤ B) (hf : -B ≤ f ∧ f ≤ B) (hd : -B ≤ d ∧ d ≤ B) (hsum : e + f = d)
    (hB : B + 2 ^ (p - 1) < (2 : Int) ^ 31) :
    SimdU8x2.clip (satAdd (wrap32 (wrap32 t + e)) (wrap32 (wrap32 t + f))) p = clip8 (2 ^ (p - 1) + d) p := by
  have h2 : (2 : Int) ^ (p - 1) = 2 * 2 ^ (p - 2) := by
    have := pow2_pred (p - 1) (by omega)
    rwa [show p - 1 - 1 = p - 2 by omega] at this
  have htpos : (0 : Int) < 2 ^ (p - 2) := pow2_pos _
  have hwt : wrap32 t = t := wrapInt32_id t (by rw [ht]; omega) (by rw [ht]; omega)
  have hwe : wrap32 (t + e) = t + e := wrapInt32_id _ (by rw [ht]; omega) (by rw [ht]; omega)
  have hwf : wrap32 (t + f) = t + f := wrapInt32_id _ (by rw [ht]; omega) (by rw [ht]; omega)
  rw [hwt, hwe, hwf]
  have hs : satAdd (t + e) (t + f) = 2 ^ (p - 1) + d := by
    unfold satAdd; rw [ht, h2]; omega
  rw [hs]
  unfold SimdU8x2.clip clip8
  rw [wrapInt32_id _ (by rw [h2]; omega) (by omega)]

/-- **each row of the SSE4.1 four-row kernel of U8x2 equals the portable kernel** under the `i32` headroom bound -/
theorem pixelR_eq_portable (p : Nat) (hp2 : 2 ≤ p) (row : List Int) (start : Nat) (ks : List Int)
    (hB : 255 * absSum ks + 2 ^ (p - 1) < (2 : Int) ^ 31) :
    pixelR p row start ks = [clip8 (2 ^ (p - 1) + dot2 row 0 ks start) p, clip8 (2 ^ (p - 1) + dot2 row 1 ks start) p] := by
  unfold pixelR
  simp only
  obtain ⟨e0, e1, e2, e3, hrun, hL, hA, b0, b1, b2, b3⟩ :=
    loopR_ok row ks.length ks (le_refl _) start (wrap32 (2 ^ (p - 2))) (wrap32 (2 ^ (p - 2))) (wrap32 (2 ^ (p - 2))) (wrap32 (2 ^ (p - 2)))
  simp only [w32_idem] at hrun
  rw [hrun]
  simp only [List.getD_cons_succ, List.getD_cons_zero, if_true] at hL hA ⊢
  rw [join_exact p hp2 _ e1 e0 _ _ rfl b1 b0 (dot2_bound row 0 ks start) (by rw [← hL]; ring) hB,
      join_exact p hp2 _ e3 e2 _ _ rfl b3 b2 (dot2_bound row 1 ks start) (by rw [← hA]; ring) hB]

/-- **the SSE4.1 one-row kernel of U8x2 equals the portable kernel** under the `i32` headroom bound -/
theorem pixel_eq_portable (p : Nat) (hp2 : 2 ≤ p) (row : List Int) (start : Nat) (ks : List Int)
    (hB : 255 * absSum ks + 2 ^ (p - 1) < (2 : Int) ^ 31) :
    SimdU8x2.pixel p row start ks = [clip8 (2 ^ (p - 1) + dot2 row 0 ks start) p, clip8 (2 ^ (p - 1) + dot2 row 1 ks start) p] := by
  unfold SimdU8x2.pixel
  simp only
  obtain ⟨e0, e1, e2, e3, hrun, hL, hA, b0, b1, b2, b3⟩ :=
    loop_ok row ks.length ks (le_refl _) start (wrap32 (2 ^ (p - 2))) (wrap32 (2 ^ (p - 2))) (wrap32 (2 ^ (p - 2))) (wrap32 (2 ^ (p - 2)))
  simp only [w32_idem] at hrun
  rw [hrun]
  simp only [List.getD_cons_succ, List.getD_cons_zero, Bool.false_eq_true, if_false] at hL hA ⊢
  rw [join_exact p hp2 _ e0 e2 _ _ rfl b0 b2 (dot2_bound row 0 ks start) hL hB,
      join_exact p hp2 _ e1 e3 _ _ rfl b1 b3 (dot2_bound row 1 ks start) hA hB]

end Fir.Proofs.U8x2
