/-
  Fir.Proofs.SimdPassIntLemmas - the lane-accurate SIMD kernels of the 16-bit formats and of U8x2 in the vocabulary of the portable
  model: every channel of the pixel a kernel stores is `Fir.passInt` (the function every C01 / C10 / C18 theorem is about) of the
  same coefficients and the same window of source samples.
-/
import Fir.Proofs.SimdU16x1Lemmas
import Fir.Proofs.SimdU16x2Lemmas
import Fir.Proofs.SimdU16x3Lemmas
import Fir.Proofs.SimdU16x4Lemmas
import Fir.Proofs.SimdU8x2Lemmas

set_option linter.unusedSimpArgs false

namespace Fir.Proofs.PassInt
open Fir Fir.Gen Fir.Proofs
open Fir.SimdU8x4 (wrap32 wrap16)

/-- a strided dot product in the form all kernel models use equals `dotL` on the window of samples -/
theorem stride_eq_dotL (row : List Int) (n c : Nat) (M : Int) (wr : Int → Int) (f : List Int → Nat → Int)
    (hnil : ∀ x, f [] x = 0)
    (hcons : ∀ k ks x, f (k :: ks) x = row.getD (n * x + c) 0 % M * wr k + f ks (x + 1))
    (hb : ∀ i, row.getD i 0 % M = row.getD i 0) :
    ∀ (ks : List Int) (x : Nat), (∀ k ∈ ks, wr k = k) →
      f ks x = dotL ks ((List.range ks.length).map fun i => row.getD (n * (x + i) + c) 0) := by
  intro ks
  induction ks with
  | nil => intro x _; simp [hnil, dotL]
  | cons k ks ih =>
    intro x hk
    have hw : wr k = k := hk k (List.mem_cons_self ..)
    simp only [hcons, List.length_cons, List.range_succ_eq_map, List.map_cons, List.map_map]
    rw [dotL_cons, ih (x + 1) (fun k' hk' => hk k' (List.mem_cons_of_mem _ hk')), hw, hb]
    have e : ((fun i => row.getD (n * (x + i) + c) 0) ∘ Nat.succ) = fun i => row.getD (n * (x + 1 + i) + c) 0 := by
      funext i; simp only [Function.comp, Nat.succ_eq_add_one]; congr 2; congr 1; omega
    rw [e]
    simp only [Nat.add_zero]
    ring

theorem w32_id (k : Int) (h : -2147483648 ≤ k ∧ k ≤ 2147483647) : wrap32 k = k :=
  wrapInt32_id k (by omega) (by omega)

theorem w16_id (k : Int) (h : -32768 ≤ k ∧ k ≤ 32767) : wrap16 k = k := by unfold wrap16; omega

theorem m65536 (row : List Int) (hb : ∀ i, 0 ≤ row.getD i 0 ∧ row.getD i 0 ≤ 65535) (i : Nat) :
    row.getD i 0 % 65536 = row.getD i 0 := by have := hb i; omega

theorem m256 (row : List Int) (hb : ∀ i, 0 ≤ row.getD i 0 ∧ row.getD i 0 ≤ 255) (i : Nat) :
    row.getD i 0 % 256 = row.getD i 0 := by have := hb i; omega

theorem u16x1 (p : Nat) (row : List Int) (start : Nat) (ks : List Int)
    (hk : ∀ k ∈ ks, -2147483648 ≤ k ∧ k ≤ 2147483647) (hb : ∀ i, 0 ≤ row.getD i 0 ∧ row.getD i 0 ≤ 65535) :
    SimdU16x1.pixel p row start ks = passInt .u16 ks ((List.range ks.length).map fun i => row.getD (1 * (start + i) + 0) 0) p := by
  rw [U16x1.pixel_eq_portable]
  unfold passInt
  simp only
  rw [stride_eq_dotL row 1 0 65536 wrap32 (SimdU16x1.dot16 row) (fun _ => rfl)
    (fun k ks x => by simp [SimdU16x1.dot16]) (m65536 row hb) ks start (fun k h => w32_id k (hk k h))]

theorem u16x2 (p : Nat) (row : List Int) (start : Nat) (ks : List Int) (c : Nat) (hc : c < 2)
    (hk : ∀ k ∈ ks, -2147483648 ≤ k ∧ k ≤ 2147483647) (hb : ∀ i, 0 ≤ row.getD i 0 ∧ row.getD i 0 ≤ 65535) :
    (SimdU16x2.pixel p row start ks).getD c 0
      = passInt .u16 ks ((List.range ks.length).map fun i => row.getD (2 * (start + i) + c) 0) p := by
  rw [U16x2.pixel_eq_portable]
  unfold passInt
  simp only
  rw [← stride_eq_dotL row 2 c 65536 wrap32 (SimdU16x2.dotLA row c) (fun _ => rfl)
    (fun k ks x => rfl) (m65536 row hb) ks start (fun k h => w32_id k (hk k h))]
  match c, hc with
  | 0, _ => rfl
  | 1, _ => rfl

theorem u16x3 (p w : Nat) (hp2 : 2 ≤ p) (row : List Int) (start : Nat) (ks : List Int) (c : Nat) (hc : c < 3)
    (hk : ∀ k ∈ ks, -2147483648 ≤ k ∧ k ≤ 2147483647) (hb : ∀ i, 0 ≤ row.getD i 0 ∧ row.getD i 0 ≤ 65535) :
    (SimdU16x3.pixel p w row start ks).getD c 0
      = passInt .u16 ks ((List.range ks.length).map fun i => row.getD (3 * (start + i) + c) 0) p ∧
    (SimdU16x3.pixelR p w row start ks).getD c 0
      = passInt .u16 ks ((List.range ks.length).map fun i => row.getD (3 * (start + i) + c) 0) p := by
  rw [U16x3.pixel_eq_portable p w hp2, U16x3.pixelR_eq_portable]
  unfold passInt
  simp only
  rw [← stride_eq_dotL row 3 c 65536 wrap32 (SimdU16x3.dot3 row c) (fun _ => rfl)
    (fun k ks x => rfl) (m65536 row hb) ks start (fun k h => w32_id k (hk k h))]
  match c, hc with
  | 0, _ => exact ⟨rfl, rfl⟩
  | 1, _ => exact ⟨rfl, rfl⟩
  | 2, _ => exact ⟨rfl, rfl⟩

theorem u16x4 (p : Nat) (row : List Int) (start : Nat) (ks : List Int) (c : Nat) (hc : c < 4)
    (hk : ∀ k ∈ ks, -2147483648 ≤ k ∧ k ≤ 2147483647) (hb : ∀ i, 0 ≤ row.getD i 0 ∧ row.getD i 0 ≤ 65535) :
    (SimdU16x4.pixel p row start ks).getD c 0
      = passInt .u16 ks ((List.range ks.length).map fun i => row.getD (4 * (start + i) + c) 0) p := by
  rw [U16x4.pixel_eq_portable]
  unfold passInt
  simp only
  rw [← stride_eq_dotL row 4 c 65536 wrap32 (SimdU16x4.dotC16 row c) (fun _ => rfl)
    (fun k ks x => rfl) (m65536 row hb) ks start (fun k h => w32_id k (hk k h))]
  match c, hc with
  | 0, _ => rfl
  | 1, _ => rfl
  | 2, _ => rfl
  | 3, _ => rfl

theorem u8x2 (p : Nat) (hp2 : 2 ≤ p) (row : List Int) (start : Nat) (ks : List Int) (c : Nat) (hc : c < 2)
    (hB : 255 * SimdU8x2.absSum ks + 2 ^ (p - 1) < (2 : Int) ^ 31)
    (hk : ∀ k ∈ ks, -32768 ≤ k ∧ k ≤ 32767) (hb : ∀ i, 0 ≤ row.getD i 0 ∧ row.getD i 0 ≤ 255) :
    (SimdU8x2.pixel p row start ks).getD c 0
      = passInt .u8 ks ((List.range ks.length).map fun i => row.getD (2 * (start + i) + c) 0) p ∧
    (SimdU8x2.pixelR p row start ks).getD c 0
      = passInt .u8 ks ((List.range ks.length).map fun i => row.getD (2 * (start + i) + c) 0) p := by
  rw [U8x2.pixel_eq_portable p hp2 row start ks hB, U8x2.pixelR_eq_portable p hp2 row start ks hB]
  unfold passInt
  simp only
  rw [← stride_eq_dotL row 2 c 256 wrap16 (SimdU8x2.dot2 row c) (fun _ => rfl)
    (fun k ks x => rfl) (m256 row hb) ks start (fun k h => w16_id k (hk k h))]
  match c, hc with
  | 0, _ => exact ⟨rfl, rfl⟩
  | 1, _ => exact ⟨rfl, rfl⟩

end Fir.Proofs.PassInt
