/-
  Fir.Proofs.SimdU16x4ALemmas - the AVX2 one-row horizontal kernel for RGBA16 (`Fir.Model.SimdU16x4A`) equals the portable
  kernel: each half of its masks is the SSE4.1 mask, so each half of a step is an SSE4.1 step (`acc2_eq`, `acc1_eq`); the two
  halves together gain the dot product of the coefficients consumed (`StepA`, compositional).
-/
import Fir.Model.SimdU16x4A
import Fir.Proofs.SimdU16x4Lemmas
import Fir.Proofs.SimdU16x1Lemmas
import Mathlib.Tactic.Ring
import Mathlib.Tactic.Linarith

set_option linter.unnecessarySeqFocus false
set_option linter.unreachableTactic false
set_option linter.unusedTactic false
set_option linter.unusedSimpArgs false

namespace Fir.Proofs.U16x4A
open Fir Fir.SimdU16x4 Fir.SimdU16x4A Fir.Gen Fir.Proofs
open Fir.SimdU8x4 (wrap32 pshufb)
open Fir.SimdVertU16 (wrap64 s32 add64 mulEpi32)
open Fir.Proofs.U16x1 (w64_idem w32_zero s32_zero)

theorem masks_lo : u16x4_avx2_one_rg02_lo = u16x4_sse4_rg0 ∧ u16x4_avx2_one_rg13_lo = u16x4_sse4_rg1 ∧
    u16x4_avx2_one_ba02_lo = u16x4_sse4_ba0 ∧ u16x4_avx2_one_ba13_lo = u16x4_sse4_ba1 := by
  refine ⟨?_, ?_, ?_, ?_⟩ <;> decide

theorem masks_hi : u16x4_avx2_one_rg02_hi = u16x4_sse4_rg0 ∧ u16x4_avx2_one_rg13_hi = u16x4_sse4_rg1 ∧
    u16x4_avx2_one_ba02_hi = u16x4_sse4_ba0 ∧ u16x4_avx2_one_ba13_hi = u16x4_sse4_ba1 := by
  refine ⟨?_, ?_, ?_, ?_⟩ <;> decide

theorem half2_sse (s : St) (row : List Int) (x : Nat) (k0 k1 : Int) :
    half2 u16x4_sse4_rg0 u16x4_sse4_rg1 u16x4_sse4_ba0 u16x4_sse4_ba1 s (src4 row x 2) k0 k1 = SimdU16x4.acc2 s row x k0 k1 := rfl

theorem half1_sse (s : St) (row : List Int) (x : Nat) (k : Int) :
    half1 u16x4_sse4_rg0 u16x4_sse4_ba0 s (src4 row x 1) k = SimdU16x4.acc1 s row x k := rfl

theorem w64_zero : wrap64 0 = 0 := by decide

theorem half1_zero (t0 t1 t2 t3 : Int) :
    half1 u16x4_sse4_rg0 u16x4_sse4_ba0 [[wrap64 t0, wrap64 t1], [wrap64 t2, wrap64 t3]] (List.replicate 16 0) 0
      = [[wrap64 (t0 + 0), wrap64 (t1 + 0)], [wrap64 (t2 + 0), wrap64 (t3 + 0)]] := by
  simp only [half1, add64, mulEpi32, pshufb, u16x4_sse4_rg0, u16x4_sse4_ba0,
    List.range, List.range.loop, List.map, List.replicate, List.getD_cons_succ, List.getD_cons_zero, List.zipWith]
  simp [s32_zero, w32_zero, w64_idem, w64_zero]

/-- the state with the eight lane values `a` (low half) and `b` (high half) -/
def st (a0 a1 a2 a3 b0 b1 b2 b3 : Int) : St × St :=
  ([[wrap64 a0, wrap64 a1], [wrap64 a2, wrap64 a3]], [[wrap64 b0, wrap64 b1], [wrap64 b2, wrap64 b3]])

def StepA (row : List Int) (f : St × St → St × St) (ks : List Int) (x : Nat) : Prop :=
  ∀ a0 a1 a2 a3 b0 b1 b2 b3 : Int, ∃ e0 e1 e2 e3 d0 d1 d2 d3 : Int,
    f (st a0 a1 a2 a3 b0 b1 b2 b3) = st (a0 + e0) (a1 + e1) (a2 + e2) (a3 + e3) (b0 + d0) (b1 + d1) (b2 + d2) (b3 + d3) ∧
    e0 + d0 = dotC16 row 0 ks x ∧ e1 + d1 = dotC16 row 1 ks x ∧ e2 + d2 = dotC16 row 2 ks x ∧ e3 + d3 = dotC16 row 3 ks x

theorem dotC16_append (row : List Int) (c : Nat) (a b : List Int) (x : Nat) :
    dotC16 row c (a ++ b) x = dotC16 row c a x + dotC16 row c b (x + a.length) := by
  induction a generalizing x with
  | nil => simp [dotC16]
  | cons k a ih =>
    simp only [List.cons_append, dotC16, ih, List.length_cons]
    have : x + 1 + a.length = x + (a.length + 1) := by omega
    rw [this]; ring

theorem StepA.id (row : List Int) (x : Nat) : StepA row (fun s => s) [] x := by
  intro a0 a1 a2 a3 b0 b1 b2 b3
  exact ⟨0, 0, 0, 0, 0, 0, 0, 0, by simp, by simp [dotC16], by simp [dotC16], by simp [dotC16], by simp [dotC16]⟩

theorem StepA.comp {row : List Int} {f g : St × St → St × St} {ks1 ks2 : List Int} {x : Nat}
    (hf : StepA row f ks1 x) (hg : StepA row g ks2 (x + ks1.length)) :
    StepA row (fun s => g (f s)) (ks1 ++ ks2) x := by
  intro a0 a1 a2 a3 b0 b1 b2 b3
  obtain ⟨e0, e1, e2, e3, d0, d1, d2, d3, hfe, h0, h1, h2, h3⟩ := hf a0 a1 a2 a3 b0 b1 b2 b3
  obtain ⟨e0', e1', e2', e3', d0', d1', d2', d3', hge, h0', h1', h2', h3'⟩ :=
    hg (a0 + e0) (a1 + e1) (a2 + e2) (a3 + e3) (b0 + d0) (b1 + d1) (b2 + d2) (b3 + d3)
  refine ⟨e0 + e0', e1 + e1', e2 + e2', e3 + e3', d0 + d0', d1 + d1', d2 + d2', d3 + d3', ?_, ?_, ?_, ?_, ?_⟩
  · simp only [hfe, hge, add_assoc]
  all_goals (rw [dotC16_append]; linarith)

theorem step4 (row : List Int) (x : Nat) (k0 k1 k2 k3 : Int) :
    StepA row (fun s => acc4A s row x k0 k1 k2 k3) [k0, k1, k2, k3] x := by
  intro a0 a1 a2 a3 b0 b1 b2 b3
  have hrun : acc4A (st a0 a1 a2 a3 b0 b1 b2 b3) row x k0 k1 k2 k3
      = st (a0 + dotC16 row 0 [k0, k1] x) (a1 + dotC16 row 1 [k0, k1] x) (a2 + dotC16 row 2 [k0, k1] x) (a3 + dotC16 row 3 [k0, k1] x)
           (b0 + dotC16 row 0 [k2, k3] (x + 2)) (b1 + dotC16 row 1 [k2, k3] (x + 2)) (b2 + dotC16 row 2 [k2, k3] (x + 2))
           (b3 + dotC16 row 3 [k2, k3] (x + 2)) := by
    simp only [acc4A, st, masks_lo.1, masks_lo.2.1, masks_lo.2.2.1, masks_lo.2.2.2, masks_hi.1, masks_hi.2.1, masks_hi.2.2.1,
      masks_hi.2.2.2, half2_sse, U16x4.acc2_eq]
  refine ⟨_, _, _, _, _, _, _, _, hrun, ?_, ?_, ?_, ?_⟩ <;> (simp only [dotC16]; ring_nf)

theorem step2 (row : List Int) (x : Nat) (k0 k1 : Int) :
    StepA row (fun s => acc2A s row x k0 k1) [k0, k1] x := by
  intro a0 a1 a2 a3 b0 b1 b2 b3
  have hrun : acc2A (st a0 a1 a2 a3 b0 b1 b2 b3) row x k0 k1
      = st (a0 + dotC16 row 0 [k0] x) (a1 + dotC16 row 1 [k0] x) (a2 + dotC16 row 2 [k0] x) (a3 + dotC16 row 3 [k0] x)
           (b0 + dotC16 row 0 [k1] (x + 1)) (b1 + dotC16 row 1 [k1] (x + 1)) (b2 + dotC16 row 2 [k1] (x + 1))
           (b3 + dotC16 row 3 [k1] (x + 1)) := by
    simp only [acc2A, st, masks_lo.1, masks_lo.2.2.1, masks_hi.1, masks_hi.2.2.1, half1_sse, U16x4.acc1_eq]
  refine ⟨_, _, _, _, _, _, _, _, hrun, ?_, ?_, ?_, ?_⟩ <;> (simp only [dotC16]; ring_nf)

theorem step1 (row : List Int) (x : Nat) (k : Int) :
    StepA row (fun s => acc1A s row x k) [k] x := by
  intro a0 a1 a2 a3 b0 b1 b2 b3
  have hrun : acc1A (st a0 a1 a2 a3 b0 b1 b2 b3) row x k
      = st (a0 + dotC16 row 0 [k] x) (a1 + dotC16 row 1 [k] x) (a2 + dotC16 row 2 [k] x) (a3 + dotC16 row 3 [k] x)
           (b0 + 0) (b1 + 0) (b2 + 0) (b3 + 0) := by
    simp only [acc1A, st, masks_lo.1, masks_lo.2.2.1, masks_hi.1, masks_hi.2.2.1, half1_sse, U16x4.acc1_eq, half1_zero]
  refine ⟨_, _, _, _, _, _, _, _, hrun, ?_, ?_, ?_, ?_⟩ <;> (simp only [dotC16]; ring_nf)

theorem loopA_ok (row : List Int) : ∀ (n : Nat) (ks : List Int), ks.length ≤ n → ∀ x : Nat,
    StepA row (fun s => loopA row ks x s) ks x := by
  intro n
  induction n with
  | zero =>
    intro ks hn x
    have : ks = [] := List.eq_nil_of_length_eq_zero (by omega)
    subst this
    simpa [loopA] using StepA.id row x
  | succ n ih =>
    intro ks hn x
    match ks, hn with
    | [], _ => simpa [loopA] using StepA.id row x
    | [k], _ => simpa [loopA] using step1 row x k
    | [k0, k1], _ => simpa [loopA] using step2 row x k0 k1
    | [k0, k1, k2], _ =>
      have := StepA.comp (step2 row x k0 k1) (step1 row (x + 2) k2)
      simpa [loopA] using this
    | k0 :: k1 :: k2 :: k3 :: rest, hn =>
      have := StepA.comp (step4 row x k0 k1 k2 k3) (ih rest (by simp at hn; omega) (x + 4))
      simpa [loopA] using this

theorem join (e d c t : Int) (h : e + d = t) :
    wrap64 (wrap64 (wrap64 (0 + e) + wrap64 (0 + d)) + wrap64 c) = wrapInt 64 (c + t) := by
  apply wrapInt_congr
  have h1 : wrap64 (0 + e) % 2 ^ 64 = (0 + e) % 2 ^ 64 := wrapInt_emod 64 _
  have h2 : wrap64 (0 + d) % 2 ^ 64 = (0 + d) % 2 ^ 64 := wrapInt_emod 64 _
  have h3 : wrap64 c % 2 ^ 64 = c % 2 ^ 64 := wrapInt_emod 64 c
  have h4 : wrap64 (wrap64 (0 + e) + wrap64 (0 + d)) % 2 ^ 64 = (wrap64 (0 + e) + wrap64 (0 + d)) % 2 ^ 64 := wrapInt_emod 64 _
  rw [← h]
  generalize wrap64 (wrap64 (0 + e) + wrap64 (0 + d)) = s01 at *
  generalize wrap64 (0 + e) = w0 at *
  generalize wrap64 (0 + d) = w1 at *
  generalize wrap64 c = wc at *
  omega

/-- **the AVX2 one-row kernel for RGBA16 equals the portable kernel** -/
theorem pixelA_eq_portable (p : Nat) (row : List Int) (start : Nat) (ks : List Int) :
    pixelA p row start ks
      = [clip16 (2 ^ (p - 1) + dotC16 row 0 ks start) p, clip16 (2 ^ (p - 1) + dotC16 row 1 ks start) p,
         clip16 (2 ^ (p - 1) + dotC16 row 2 ks start) p, clip16 (2 ^ (p - 1) + dotC16 row 3 ks start) p] := by
  unfold pixelA
  simp only
  have h0 : (([[0, 0], [0, 0]], [[0, 0], [0, 0]]) : St × St) = st 0 0 0 0 0 0 0 0 := by decide
  rw [h0]
  obtain ⟨e0, e1, e2, e3, d0, d1, d2, d3, hrun, h0, h1, h2, h3⟩ := loopA_ok row ks.length ks (le_refl _) start 0 0 0 0 0 0 0 0
  beta_reduce at hrun
  rw [hrun]
  simp only [st, List.flatten, List.append_nil, List.cons_append, List.nil_append, List.range, List.range.loop, List.map,
    List.getD_cons_succ, List.getD_cons_zero, List.flatten_cons, List.flatten_nil, List.append_eq, List.append_nil,
    List.cons_append, List.nil_append, List.getD_cons_succ, List.getD_cons_zero]
  rw [join e0 d0 _ _ h0, join e1 d1 _ _ h1, join e2 d2 _ _ h2, join e3 d3 _ _ h3]
  rfl

end Fir.Proofs.U16x4A
