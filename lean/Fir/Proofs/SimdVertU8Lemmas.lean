/-
  Fir.Proofs.SimdVertU8Lemmas - the SSE4.1 vertical pass for 8-bit components (`Fir.Model.SimdVertU8`): the
  8-component and the 4-component steps add to every lane the product of the coefficient(s) with the matching
  component of the one or two source rows, so a whole chunk equals the portable kernel.
-/
import Fir.Model.SimdVertU8
import Fir.Proofs.SimdU8x4Lemmas

set_option linter.unnecessarySeqFocus false
set_option linter.unreachableTactic false
set_option linter.unusedTactic false

namespace Fir.Proofs
open Fir Fir.SimdU8x4 Fir.SimdVertU8 Fir.Gen

theorem pair8_eq (t0 t1 t2 t3 t4 t5 t6 t7 : Int) (rA rB : List Int) (x : Nat) (k0 k1 : Int) :
    pair8 ([wrap32 t0, wrap32 t1, wrap32 t2, wrap32 t3], [wrap32 t4, wrap32 t5, wrap32 t6, wrap32 t7]) rA rB x k0 k1
      = ([wrap32 (t0 + (rA.getD (x + 0) 0 % 256 * wrap16 k0 + rB.getD (x + 0) 0 % 256 * wrap16 k1)),
          wrap32 (t1 + (rA.getD (x + 1) 0 % 256 * wrap16 k0 + rB.getD (x + 1) 0 % 256 * wrap16 k1)),
          wrap32 (t2 + (rA.getD (x + 2) 0 % 256 * wrap16 k0 + rB.getD (x + 2) 0 % 256 * wrap16 k1)),
          wrap32 (t3 + (rA.getD (x + 3) 0 % 256 * wrap16 k0 + rB.getD (x + 3) 0 % 256 * wrap16 k1))],
         [wrap32 (t4 + (rA.getD (x + 4) 0 % 256 * wrap16 k0 + rB.getD (x + 4) 0 % 256 * wrap16 k1)),
          wrap32 (t5 + (rA.getD (x + 5) 0 % 256 * wrap16 k0 + rB.getD (x + 5) 0 % 256 * wrap16 k1)),
          wrap32 (t6 + (rA.getD (x + 6) 0 % 256 * wrap16 k0 + rB.getD (x + 6) 0 % 256 * wrap16 k1)),
          wrap32 (t7 + (rA.getD (x + 7) 0 % 256 * wrap16 k0 + rB.getD (x + 7) 0 % 256 * wrap16 k1))]) := by
  simp only [pair8, clone4, unpacklo8, unpackhi8, zero16, load8, add32, madd, i16At, kBytes,
    List.range, List.range.loop, List.map, List.flatMap_cons, List.flatMap_nil, List.append_nil, List.replicate,
    List.cons_append, List.nil_append, List.getD_cons_succ, List.getD_cons_zero, List.zipWith]
  simp [i16_byte, i16_lohi, w32_add_left, w32_add_right]

theorem last8_eq (t0 t1 t2 t3 t4 t5 t6 t7 : Int) (r : List Int) (x : Nat) (k : Int) :
    last8 ([wrap32 t0, wrap32 t1, wrap32 t2, wrap32 t3], [wrap32 t4, wrap32 t5, wrap32 t6, wrap32 t7]) r x k
      = ([wrap32 (t0 + r.getD (x + 0) 0 % 256 * wrap16 k), wrap32 (t1 + r.getD (x + 1) 0 % 256 * wrap16 k),
          wrap32 (t2 + r.getD (x + 2) 0 % 256 * wrap16 k), wrap32 (t3 + r.getD (x + 3) 0 % 256 * wrap16 k)],
         [wrap32 (t4 + r.getD (x + 4) 0 % 256 * wrap16 k), wrap32 (t5 + r.getD (x + 5) 0 % 256 * wrap16 k),
          wrap32 (t6 + r.getD (x + 6) 0 % 256 * wrap16 k), wrap32 (t7 + r.getD (x + 7) 0 % 256 * wrap16 k)]) := by
  have hk : i16pair (wrap16 k % 256) (wrap16 k / 256 % 256) = wrap16 k := by rw [i16_lohi, wrap16_idem]
  simp only [last8, set1k, clone4, unpacklo8, unpackhi8, zero16, load8, add32, madd, i16At,
    List.range, List.range.loop, List.map, List.flatMap_cons, List.flatMap_nil, List.append_nil, List.replicate,
    List.cons_append, List.nil_append, List.getD_cons_succ, List.getD_cons_zero, List.zipWith]
  simp [i16_byte, i16_zero, hk, w32_add_left, w32_add_right]

theorem dotV_nil_right (rows : List (List Int)) (x : Nat) : dotV rows [] x = 0 := by
  cases rows <;> simp [dotV]

theorem loop8_nil (x : Nat) (rows : List (List Int)) (s : List Int × List Int) : loop8 x rows [] s = s := by
  cases rows with
  | nil => simp [loop8]
  | cons r rows => cases rows <;> simp [loop8]

theorem loop8_one (x : Nat) (r : List Int) (rows : List (List Int)) (k : Int) (s : List Int × List Int) :
    loop8 x (r :: rows) [k] s = last8 s r x k := by
  cases rows <;> simp [loop8]

theorem loop8_eq_aux (x : Nat) : ∀ (n : Nat) (ks : List Int) (_hn : ks.length ≤ n) (rows : List (List Int))
    (_h : ks.length ≤ rows.length) (t0 t1 t2 t3 t4 t5 t6 t7 : Int),
    loop8 x rows ks ([wrap32 t0, wrap32 t1, wrap32 t2, wrap32 t3], [wrap32 t4, wrap32 t5, wrap32 t6, wrap32 t7])
      = ([wrap32 (t0 + dotV rows ks (x + 0)), wrap32 (t1 + dotV rows ks (x + 1)),
          wrap32 (t2 + dotV rows ks (x + 2)), wrap32 (t3 + dotV rows ks (x + 3))],
         [wrap32 (t4 + dotV rows ks (x + 4)), wrap32 (t5 + dotV rows ks (x + 5)),
          wrap32 (t6 + dotV rows ks (x + 6)), wrap32 (t7 + dotV rows ks (x + 7))]) := by
  intro n
  induction n with
  | zero =>
    intro ks hn rows _ t0 t1 t2 t3 t4 t5 t6 t7
    have : ks = [] := List.length_eq_zero_iff.mp (by omega)
    subst this
    simp [loop8_nil, dotV_nil_right]
  | succ n ih =>
    intro ks hn rows h t0 t1 t2 t3 t4 t5 t6 t7
    match ks, rows, h, hn with
    | [], rows, _, _ => simp [loop8_nil, dotV_nil_right]
    | [k], r :: rows, _, _ =>
      rw [loop8_one, last8_eq]
      simp [dotV, dotV_nil_right]
    | k0 :: k1 :: ks', rA :: rB :: rows', h, hn =>
      simp only [loop8]
      rw [pair8_eq]
      rw [ih ks' (by simp at hn; omega) rows' (by simp at h; omega)]
      simp only [dotV, add_assoc]
    | [_], [], h, _ => simp at h
    | _ :: _ :: _, [], h, _ => simp at h
    | _ :: _ :: _, [_], h, _ => simp at h

theorem loop8_eq (x : Nat) (ks : List Int) (rows : List (List Int)) (h : ks.length ≤ rows.length) (t0 t1 t2 t3 t4 t5 t6 t7 : Int) :
    loop8 x rows ks ([wrap32 t0, wrap32 t1, wrap32 t2, wrap32 t3], [wrap32 t4, wrap32 t5, wrap32 t6, wrap32 t7])
      = ([wrap32 (t0 + dotV rows ks (x + 0)), wrap32 (t1 + dotV rows ks (x + 1)),
          wrap32 (t2 + dotV rows ks (x + 2)), wrap32 (t3 + dotV rows ks (x + 3))],
         [wrap32 (t4 + dotV rows ks (x + 4)), wrap32 (t5 + dotV rows ks (x + 5)),
          wrap32 (t6 + dotV rows ks (x + 6)), wrap32 (t7 + dotV rows ks (x + 7))]) :=
  loop8_eq_aux x ks.length ks (le_refl _) rows h t0 t1 t2 t3 t4 t5 t6 t7

/-- **the 8-component step of the SSE4.1 vertical pass equals the portable kernel**, for every number of
    rows (pairs of rows and an odd last row) and every content -/
theorem vert_u8_sse4_chunk8_eq (p : Nat) (hp : p < 32) (rows : List (List Int)) (ks : List Int) (h : ks.length ≤ rows.length) (x : Nat) :
    chunk8 p rows ks x = (List.range 8).map fun j => clip8 (2 ^ (p - 1) + dotV rows ks (x + j)) p := by
  unfold chunk8
  simp only
  rw [loop8_eq x ks rows h]
  simp [List.range, List.range.loop, lane_finish _ p hp]

/-! ### the 4-component step -/

theorem pair4_eq (t0 t1 t2 t3 : Int) (rA rB : List Int) (x : Nat) (k0 k1 : Int) :
    pair4 [wrap32 t0, wrap32 t1, wrap32 t2, wrap32 t3] rA rB x k0 k1
      = [wrap32 (t0 + (rA.getD (x + 0) 0 % 256 * wrap16 k0 + rB.getD (x + 0) 0 % 256 * wrap16 k1)),
         wrap32 (t1 + (rA.getD (x + 1) 0 % 256 * wrap16 k0 + rB.getD (x + 1) 0 % 256 * wrap16 k1)),
         wrap32 (t2 + (rA.getD (x + 2) 0 % 256 * wrap16 k0 + rB.getD (x + 2) 0 % 256 * wrap16 k1)),
         wrap32 (t3 + (rA.getD (x + 3) 0 % 256 * wrap16 k0 + rB.getD (x + 3) 0 % 256 * wrap16 k1))] := by
  simp only [pair4, clone4, unpacklo8, zero16, load4, add32, madd, i16At, kBytes,
    List.range, List.range.loop, List.map, List.flatMap_cons, List.flatMap_nil, List.append_nil, List.replicate,
    List.cons_append, List.nil_append, List.getD_cons_succ, List.getD_cons_zero, List.zipWith]
  simp [i16_byte, i16_lohi, w32_add_left, w32_add_right]

theorem last4_eq (t0 t1 t2 t3 : Int) (r : List Int) (x : Nat) (k : Int) :
    last4 [wrap32 t0, wrap32 t1, wrap32 t2, wrap32 t3] r x k
      = [wrap32 (t0 + r.getD (x + 0) 0 % 256 * wrap16 k), wrap32 (t1 + r.getD (x + 1) 0 % 256 * wrap16 k),
         wrap32 (t2 + r.getD (x + 2) 0 % 256 * wrap16 k), wrap32 (t3 + r.getD (x + 3) 0 % 256 * wrap16 k)] := by
  have hk : i16pair (wrap16 k % 256) (wrap16 k / 256 % 256) = wrap16 k := by rw [i16_lohi, wrap16_idem]
  simp only [last4, set1k, clone4, load4, add32, madd, i16At,
    List.range, List.range.loop, List.map, List.append_nil, List.replicate,
    List.cons_append, List.nil_append, List.getD_cons_succ, List.getD_cons_zero, List.zipWith]
  simp [i16_byte, i16_zero, hk, w32_add_left, w32_add_right]

theorem loop4_nil (x : Nat) (rows : List (List Int)) (s : List Int) : loop4 x rows [] s = s := by
  cases rows with
  | nil => simp [loop4]
  | cons r rows => cases rows <;> simp [loop4]

theorem loop4_one (x : Nat) (r : List Int) (rows : List (List Int)) (k : Int) (s : List Int) :
    loop4 x (r :: rows) [k] s = last4 s r x k := by
  cases rows <;> simp [loop4]

theorem loop4_eq_aux (x : Nat) : ∀ (n : Nat) (ks : List Int) (_hn : ks.length ≤ n) (rows : List (List Int))
    (_h : ks.length ≤ rows.length) (t0 t1 t2 t3 : Int),
    loop4 x rows ks [wrap32 t0, wrap32 t1, wrap32 t2, wrap32 t3]
      = [wrap32 (t0 + dotV rows ks (x + 0)), wrap32 (t1 + dotV rows ks (x + 1)),
         wrap32 (t2 + dotV rows ks (x + 2)), wrap32 (t3 + dotV rows ks (x + 3))] := by
  intro n
  induction n with
  | zero =>
    intro ks hn rows _ t0 t1 t2 t3
    have : ks = [] := List.length_eq_zero_iff.mp (by omega)
    subst this
    simp [loop4_nil, dotV_nil_right]
  | succ n ih =>
    intro ks hn rows h t0 t1 t2 t3
    match ks, rows, h, hn with
    | [], rows, _, _ => simp [loop4_nil, dotV_nil_right]
    | [k], r :: rows, _, _ =>
      rw [loop4_one, last4_eq]
      simp [dotV, dotV_nil_right]
    | k0 :: k1 :: ks', rA :: rB :: rows', h, hn =>
      simp only [loop4]
      rw [pair4_eq]
      rw [ih ks' (by simp at hn; omega) rows' (by simp at h; omega)]
      simp only [dotV, add_assoc]
    | [_], [], h, _ => simp at h
    | _ :: _ :: _, [], h, _ => simp at h
    | _ :: _ :: _, [_], h, _ => simp at h

/-- **the 4-component step of the SSE4.1 vertical pass equals the portable kernel** -/
theorem vert_u8_sse4_chunk4_eq (p : Nat) (hp : p < 32) (rows : List (List Int)) (ks : List Int) (h : ks.length ≤ rows.length) (x : Nat) :
    chunk4 p rows ks x = (List.range 4).map fun j => clip8 (2 ^ (p - 1) + dotV rows ks (x + j)) p := by
  unfold chunk4
  simp only
  rw [loop4_eq_aux x ks.length ks (le_refl _) rows h]
  simp [List.range, List.range.loop, lane_finish _ p hp]

/-! ### the 32-component step: two independent 16-byte column blocks -/

theorem pair16_eq (t0 t1 t2 t3 t4 t5 t6 t7 t8 t9 t10 t11 t12 t13 t14 t15 : Int) (rA rB : List Int) (x : Nat) (k0 k1 : Int) :
    pair16 [[wrap32 t0, wrap32 t1, wrap32 t2, wrap32 t3], [wrap32 t4, wrap32 t5, wrap32 t6, wrap32 t7], [wrap32 t8, wrap32 t9, wrap32 t10, wrap32 t11], [wrap32 t12, wrap32 t13, wrap32 t14, wrap32 t15]] rA rB x k0 k1
      = [[wrap32 (t0 + (rA.getD (x + 0) 0 % 256 * wrap16 k0 + rB.getD (x + 0) 0 % 256 * wrap16 k1)), wrap32 (t1 + (rA.getD (x + 1) 0 % 256 * wrap16 k0 + rB.getD (x + 1) 0 % 256 * wrap16 k1)), wrap32 (t2 + (rA.getD (x + 2) 0 % 256 * wrap16 k0 + rB.getD (x + 2) 0 % 256 * wrap16 k1)), wrap32 (t3 + (rA.getD (x + 3) 0 % 256 * wrap16 k0 + rB.getD (x + 3) 0 % 256 * wrap16 k1))], [wrap32 (t4 + (rA.getD (x + 4) 0 % 256 * wrap16 k0 + rB.getD (x + 4) 0 % 256 * wrap16 k1)), wrap32 (t5 + (rA.getD (x + 5) 0 % 256 * wrap16 k0 + rB.getD (x + 5) 0 % 256 * wrap16 k1)), wrap32 (t6 + (rA.getD (x + 6) 0 % 256 * wrap16 k0 + rB.getD (x + 6) 0 % 256 * wrap16 k1)), wrap32 (t7 + (rA.getD (x + 7) 0 % 256 * wrap16 k0 + rB.getD (x + 7) 0 % 256 * wrap16 k1))], [wrap32 (t8 + (rA.getD (x + 8) 0 % 256 * wrap16 k0 + rB.getD (x + 8) 0 % 256 * wrap16 k1)), wrap32 (t9 + (rA.getD (x + 9) 0 % 256 * wrap16 k0 + rB.getD (x + 9) 0 % 256 * wrap16 k1)), wrap32 (t10 + (rA.getD (x + 10) 0 % 256 * wrap16 k0 + rB.getD (x + 10) 0 % 256 * wrap16 k1)), wrap32 (t11 + (rA.getD (x + 11) 0 % 256 * wrap16 k0 + rB.getD (x + 11) 0 % 256 * wrap16 k1))], [wrap32 (t12 + (rA.getD (x + 12) 0 % 256 * wrap16 k0 + rB.getD (x + 12) 0 % 256 * wrap16 k1)), wrap32 (t13 + (rA.getD (x + 13) 0 % 256 * wrap16 k0 + rB.getD (x + 13) 0 % 256 * wrap16 k1)), wrap32 (t14 + (rA.getD (x + 14) 0 % 256 * wrap16 k0 + rB.getD (x + 14) 0 % 256 * wrap16 k1)), wrap32 (t15 + (rA.getD (x + 15) 0 % 256 * wrap16 k0 + rB.getD (x + 15) 0 % 256 * wrap16 k1))]] := by
  simp only [pair16, clone4, unpacklo8, unpackhi8, zero16, load16, add32, madd, i16At, kBytes,
    List.range, List.range.loop, List.map, List.flatMap_cons, List.flatMap_nil, List.append_nil, List.replicate,
    List.cons_append, List.nil_append, List.getD_cons_succ, List.getD_cons_zero, List.zipWith]
  simp [i16_byte, i16_lohi, w32_add_left, w32_add_right]

theorem last16_eq (t0 t1 t2 t3 t4 t5 t6 t7 t8 t9 t10 t11 t12 t13 t14 t15 : Int) (r : List Int) (x : Nat) (k : Int) :
    last16 [[wrap32 t0, wrap32 t1, wrap32 t2, wrap32 t3], [wrap32 t4, wrap32 t5, wrap32 t6, wrap32 t7], [wrap32 t8, wrap32 t9, wrap32 t10, wrap32 t11], [wrap32 t12, wrap32 t13, wrap32 t14, wrap32 t15]] r x k
      = [[wrap32 (t0 + r.getD (x + 0) 0 % 256 * wrap16 k), wrap32 (t1 + r.getD (x + 1) 0 % 256 * wrap16 k), wrap32 (t2 + r.getD (x + 2) 0 % 256 * wrap16 k), wrap32 (t3 + r.getD (x + 3) 0 % 256 * wrap16 k)], [wrap32 (t4 + r.getD (x + 4) 0 % 256 * wrap16 k), wrap32 (t5 + r.getD (x + 5) 0 % 256 * wrap16 k), wrap32 (t6 + r.getD (x + 6) 0 % 256 * wrap16 k), wrap32 (t7 + r.getD (x + 7) 0 % 256 * wrap16 k)], [wrap32 (t8 + r.getD (x + 8) 0 % 256 * wrap16 k), wrap32 (t9 + r.getD (x + 9) 0 % 256 * wrap16 k), wrap32 (t10 + r.getD (x + 10) 0 % 256 * wrap16 k), wrap32 (t11 + r.getD (x + 11) 0 % 256 * wrap16 k)], [wrap32 (t12 + r.getD (x + 12) 0 % 256 * wrap16 k), wrap32 (t13 + r.getD (x + 13) 0 % 256 * wrap16 k), wrap32 (t14 + r.getD (x + 14) 0 % 256 * wrap16 k), wrap32 (t15 + r.getD (x + 15) 0 % 256 * wrap16 k)]] := by
  have hk : i16pair (wrap16 k % 256) (wrap16 k / 256 % 256) = wrap16 k := by rw [i16_lohi, wrap16_idem]
  simp only [last16, set1k, clone4, unpacklo8, unpackhi8, zero16, load16, add32, madd, i16At,
    List.range, List.range.loop, List.map, List.flatMap_cons, List.flatMap_nil, List.append_nil, List.replicate,
    List.cons_append, List.nil_append, List.getD_cons_succ, List.getD_cons_zero, List.zipWith]
  simp [i16_byte, i16_zero, hk, w32_add_left, w32_add_right]

theorem loop16_nil (x : Nat) (rows : List (List Int)) (s : List (List Int)) : loop16 x rows [] s = s := by
  cases rows with
  | nil => simp [loop16]
  | cons r rows => cases rows <;> simp [loop16]

theorem loop16_one (x : Nat) (r : List Int) (rows : List (List Int)) (k : Int) (s : List (List Int)) :
    loop16 x (r :: rows) [k] s = last16 s r x k := by
  cases rows <;> simp [loop16]

theorem loop16_eq_aux (x : Nat) : ∀ (n : Nat) (ks : List Int) (_hn : ks.length ≤ n) (rows : List (List Int))
    (_h : ks.length ≤ rows.length) (t0 t1 t2 t3 t4 t5 t6 t7 t8 t9 t10 t11 t12 t13 t14 t15 : Int),
    loop16 x rows ks [[wrap32 t0, wrap32 t1, wrap32 t2, wrap32 t3], [wrap32 t4, wrap32 t5, wrap32 t6, wrap32 t7], [wrap32 t8, wrap32 t9, wrap32 t10, wrap32 t11], [wrap32 t12, wrap32 t13, wrap32 t14, wrap32 t15]]
      = [[wrap32 (t0 + dotV rows ks (x + 0)), wrap32 (t1 + dotV rows ks (x + 1)), wrap32 (t2 + dotV rows ks (x + 2)), wrap32 (t3 + dotV rows ks (x + 3))], [wrap32 (t4 + dotV rows ks (x + 4)), wrap32 (t5 + dotV rows ks (x + 5)), wrap32 (t6 + dotV rows ks (x + 6)), wrap32 (t7 + dotV rows ks (x + 7))], [wrap32 (t8 + dotV rows ks (x + 8)), wrap32 (t9 + dotV rows ks (x + 9)), wrap32 (t10 + dotV rows ks (x + 10)), wrap32 (t11 + dotV rows ks (x + 11))], [wrap32 (t12 + dotV rows ks (x + 12)), wrap32 (t13 + dotV rows ks (x + 13)), wrap32 (t14 + dotV rows ks (x + 14)), wrap32 (t15 + dotV rows ks (x + 15))]] := by
  intro n
  induction n with
  | zero =>
    intro ks hn rows _ t0 t1 t2 t3 t4 t5 t6 t7 t8 t9 t10 t11 t12 t13 t14 t15
    have : ks = [] := List.length_eq_zero_iff.mp (by omega)
    subst this
    simp [loop16_nil, dotV_nil_right]
  | succ n ih =>
    intro ks hn rows h t0 t1 t2 t3 t4 t5 t6 t7 t8 t9 t10 t11 t12 t13 t14 t15
    match ks, rows, h, hn with
    | [], rows, _, _ => simp [loop16_nil, dotV_nil_right]
    | [k], r :: rows, _, _ =>
      rw [loop16_one, last16_eq]
      simp [dotV, dotV_nil_right]
    | k0 :: k1 :: ks', rA :: rB :: rows', h, hn =>
      simp only [loop16]
      rw [pair16_eq]
      rw [ih ks' (by simp at hn; omega) rows' (by simp at h; omega)]
      simp only [dotV, add_assoc]
    | [_], [], h, _ => simp at h
    | _ :: _ :: _, [], h, _ => simp at h
    | _ :: _ :: _, [_], h, _ => simp at h

theorem block16_eq (p : Nat) (hp : p < 32) (rows : List (List Int)) (ks : List Int) (h : ks.length ≤ rows.length) (x : Nat) :
    block16 p rows ks x = (List.range 16).map fun j => clip8 (2 ^ (p - 1) + dotV rows ks (x + j)) p := by
  unfold block16
  simp only
  rw [loop16_eq_aux x ks.length ks (le_refl _) rows h]
  simp [List.range, List.range.loop, lane_finish _ p hp]

/-- **the 32-component step of the SSE4.1 vertical pass equals the portable kernel** -/
theorem vert_u8_sse4_chunk32_eq (p : Nat) (hp : p < 32) (rows : List (List Int)) (ks : List Int) (h : ks.length ≤ rows.length) (x : Nat) :
    chunk32 p rows ks x = (List.range 32).map fun j => clip8 (2 ^ (p - 1) + dotV rows ks (x + j)) p := by
  unfold chunk32
  rw [block16_eq p hp rows ks h x, block16_eq p hp rows ks h (x + 16)]
  simp [List.range, List.range.loop, Nat.add_assoc]

end Fir.Proofs
