/-
  Fir.Proofs.SimdDiv16Lemmas - the SSE4.1 / AVX2 16-bit `divide_alpha` lane
  (src/alpha/u16x2/{sse4,avx2}.rs, src/alpha/u16x4/{sse4,avx2}.rs):

      s  = _mm_mul_ps(cvtepi32_ps(colour), 65535.0)          one binary32 rounding (colour·65535 < 2^32)
      q  = _mm_div_ps(s, cvtepi32_ps(alpha))                 one binary32 rounding
      r' = _mm_min_ps(q, 65535.0) & (alpha != 0)             saturation, zero for alpha = 0
      n  = _mm_cvtps_epi32(r')                               an integer nearest to r'

  under the standard model of rounding with the unit roundoff u = 2^-24 of binary32.  The conversions
  `cvtepi32_ps` of 16-bit values are exact.  Conclusion: the lane is *faithful and saturating* exactly like
  the portable `div_and_clip16`, so the two differ by at most one unit (C02) and both satisfy C06.
-/
import Mathlib.Algebra.Order.Field.Basic
import Mathlib.Data.Rat.Cast.Order
import Mathlib.Tactic.Linarith
import Mathlib.Tactic.Ring
import Mathlib.Tactic.Positivity
import Mathlib.Tactic.NormNum
import Mathlib.Tactic.FieldSimp
import Fir.Spec.Alpha

namespace Fir.Proofs
open Fir.Spec

/-- an integer within 1 (strictly) of the rational `cm/a` is one of its two integer neighbours -/
theorem neighbour_of_close (c m a r : ℕ) (ha : 0 < a) (h : |(r : ℚ) - (c * m : ℚ) / a| < 1) :
    c * m / a ≤ r ∧ r ≤ (c * m + a - 1) / a := by
  have haq : (0 : ℚ) < a := by exact_mod_cast ha
  rw [abs_lt] at h
  obtain ⟨h1, h2⟩ := h
  have e : (c * m : ℚ) / a * a = c * m := by field_simp
  have k1 : ((c * m : ℕ) : ℚ) < ((r + 1) * a : ℕ) := by
    push_cast
    have := mul_lt_mul_of_pos_right h1 haq
    nlinarith
  have k2 : ((r * a : ℕ) : ℚ) < ((c * m + a : ℕ) : ℚ) := by
    push_cast
    have := mul_lt_mul_of_pos_right h2 haq
    nlinarith
  have k1' : c * m < (r + 1) * a := by exact_mod_cast k1
  have k2' : r * a < c * m + a := by exact_mod_cast k2
  constructor
  · have : c * m / a < r + 1 := (Nat.div_lt_iff_lt_mul ha).mpr k1'
    omega
  · apply (Nat.le_div_iff_mul_le ha).mpr
    omega

/-- **the SIMD 16-bit divide lane is faithful and saturating.**  `s`, `q` are the two rounded
    intermediate values (relative error at most 2^-24 each), `n` the integer `cvtps_epi32` returns
    (any integer nearest to the saturated quotient - round-to-nearest-even is one). -/
theorem simd_div16_lane_faithful (c a : ℕ) (hc : c < 65536) (ha0 : 0 < a) (ha : a < 65536)
    (s q : ℚ) (n : ℤ)
    (hs : |s - (c : ℚ) * 65535| ≤ 1 / 2 ^ 24 * |(c : ℚ) * 65535|)
    (hq : |q - s / a| ≤ 1 / 2 ^ 24 * |s / a|)
    (hn : |(n : ℚ) - min q 65535| ≤ 1 / 2) :
    0 ≤ n ∧ divFaithful 65535 c a n.toNat := by
  have haq : (0 : ℚ) < a := by exact_mod_cast ha0
  have hcq : (0 : ℚ) ≤ c := by exact_mod_cast Nat.zero_le c
  set e : ℚ := (c : ℚ) * 65535 / a with he
  have he0 : 0 ≤ e := by positivity
  -- |s/a − e| ≤ u·e
  have hsa : |s / a - e| ≤ 1 / 2 ^ 24 * e := by
    have : s / a - e = (s - (c : ℚ) * 65535) / a := by rw [he]; ring
    rw [this, abs_div, abs_of_pos haq]
    have h1 : |(c : ℚ) * 65535| = (c : ℚ) * 65535 := abs_of_nonneg (by positivity)
    rw [h1] at hs
    have : 1 / 2 ^ 24 * e = (1 / 2 ^ 24 * ((c : ℚ) * 65535)) / a := by rw [he]; ring
    rw [this]
    exact div_le_div_of_nonneg_right hs haq.le
  have hsabs : |s / a| ≤ (1 + 1 / 2 ^ 24) * e := by
    have : s / a = e + (s / a - e) := by ring
    rw [this]
    refine (abs_add_le _ _).trans ?_
    rw [abs_of_nonneg he0]; linarith
  -- |q − e| ≤ (2u + u²)·e
  have hqe : |q - e| ≤ (2 / 2 ^ 24 + 1 / 2 ^ 48) * e := by
    have : q - e = (q - s / a) + (s / a - e) := by ring
    rw [this]
    refine (abs_add_le _ _).trans ?_
    have h2 : (1 : ℚ) / 2 ^ 24 * |s / a| ≤ 1 / 2 ^ 24 * ((1 + 1 / 2 ^ 24) * e) :=
      mul_le_mul_of_nonneg_left hsabs (by positivity)
    have : (2 / 2 ^ 24 + 1 / 2 ^ 48 : ℚ) * e = 1 / 2 ^ 24 * ((1 + 1 / 2 ^ 24) * e) + 1 / 2 ^ 24 * e := by ring
    linarith
  rw [abs_le] at hqe hn
  by_cases hca : c ≤ a
  · -- no saturation needed: e ≤ 65535 and the lane is within 1/2 + 0.008 of e
    have he1 : e ≤ 65535 := by
      rw [he, div_le_iff₀ haq]
      have : (c : ℚ) ≤ a := by exact_mod_cast hca
      nlinarith
    have hmin : |min q 65535 - e| ≤ (2 / 2 ^ 24 + 1 / 2 ^ 48) * e := by
      rw [abs_le]
      constructor
      · rcases le_total q 65535 with h | h
        · rw [min_eq_left h]; linarith [hqe.1]
        · rw [min_eq_right h]; nlinarith
      · rcases le_total q 65535 with h | h
        · rw [min_eq_left h]; linarith [hqe.2]
        · rw [min_eq_right h]; linarith [hqe.2]
    rw [abs_le] at hmin
    have hsmall : (2 / 2 ^ 24 + 1 / 2 ^ 48 : ℚ) * e < 1 / 2 := by
      have : (2 / 2 ^ 24 + 1 / 2 ^ 48 : ℚ) * e ≤ (2 / 2 ^ 24 + 1 / 2 ^ 48) * 65535 :=
        mul_le_mul_of_nonneg_left he1 (by positivity)
      have : (2 / 2 ^ 24 + 1 / 2 ^ 48 : ℚ) * 65535 < 1 / 2 := by norm_num
      linarith
    have hn0 : 0 ≤ n := by
      have : (-1 : ℚ) < n := by linarith [hn.1, hmin.1]
      have : (-1 : ℤ) < n := by exact_mod_cast this
      omega
    refine ⟨hn0, ?_⟩
    obtain ⟨r, rfl⟩ : ∃ r : ℕ, n = r := ⟨n.toNat, (Int.toNat_of_nonneg hn0).symm⟩
    simp only [Int.toNat_natCast]
    have hclose : |(r : ℚ) - ((c * 65535 : ℕ) : ℚ) / a| < 1 := by
      push_cast
      rw [abs_lt]
      have e' : ((r : ℤ) : ℚ) = (r : ℚ) := by norm_cast
      rw [e'] at hn
      constructor <;> linarith [hn.1, hn.2, hmin.1, hmin.2]
    have hb := neighbour_of_close c 65535 a r ha0 (by simpa using hclose)
    have hfl : c * 65535 / a ≤ 65535 := by
      apply Nat.div_le_of_le_mul
      nlinarith
    have hce : (c * 65535 + a - 1) / a ≤ 65535 := by
      have : c * 65535 ≤ a * 65535 := Nat.mul_le_mul_right _ hca
      have : (c * 65535 + a - 1) / a < 65536 := (Nat.div_lt_iff_lt_mul ha0).mpr (by omega)
      omega
    have h3 : (c * 65535 + a - 1) / a ≤ c * 65535 / a + 1 := by
      have : c * 65535 + a - 1 < (c * 65535 / a + 1 + 1) * a := by
        have h := Nat.lt_mul_div_succ (c * 65535) ha0
        have e : (c * 65535 / a + 1 + 1) * a = a * (c * 65535 / a + 1) + a := by ring
        omega
      have := (Nat.div_lt_iff_lt_mul ha0).mpr this
      omega
    unfold divFaithful
    rw [if_neg (by omega)]
    rw [Nat.min_eq_right hfl, Nat.min_eq_right hce]
    omega
  · -- colour > alpha: the quotient is at least 65536·(1 − 2^-22) > 65535, the lane saturates
    have hca' : a + 1 ≤ c := by omega
    have he2 : (65536 : ℚ) ≤ e := by
      rw [he, le_div_iff₀ haq]
      have h1 : ((a : ℚ) + 1) ≤ c := by exact_mod_cast hca'
      have h2 : (a : ℚ) ≤ 65535 := by exact_mod_cast (by omega : a ≤ 65535)
      nlinarith
    have hq1 : (65535 : ℚ) ≤ q := by
      have h1 : e - (2 / 2 ^ 24 + 1 / 2 ^ 48) * e ≤ q := by linarith [hqe.1]
      have h2 : (65535 : ℚ) ≤ (1 - (2 / 2 ^ 24 + 1 / 2 ^ 48)) * 65536 := by norm_num
      have h3 : (1 - (2 / 2 ^ 24 + 1 / 2 ^ 48) : ℚ) * 65536 ≤ (1 - (2 / 2 ^ 24 + 1 / 2 ^ 48)) * e :=
        mul_le_mul_of_nonneg_left he2 (by norm_num)
      linarith
    rw [min_eq_right hq1] at hn
    have hn1 : n = 65535 := by
      have h1 : ((65534 : ℤ) : ℚ) < n := by push_cast; linarith [hn.1]
      have h2 : (n : ℚ) < ((65536 : ℤ) : ℚ) := by push_cast; linarith [hn.2]
      have h1' : (65534 : ℤ) < n := by exact_mod_cast h1
      have h2' : n < (65536 : ℤ) := by exact_mod_cast h2
      omega
    subst hn1
    refine ⟨by norm_num, ?_⟩
    unfold divFaithful
    rw [if_neg (by omega)]
    left
    have : 65535 ≤ c * 65535 / a := by
      apply (Nat.le_div_iff_mul_le ha0).mpr
      have : a ≤ c := by omega
      nlinarith
    simp [Nat.min_eq_left this]

/-- two faithful results for the same (colour, alpha) differ by at most one unit -/
theorem faithful_within_one (m c a r r' : ℕ) (h : divFaithful m c a r) (h' : divFaithful m c a r') :
    (r : ℤ) - r' ≤ 1 ∧ (r' : ℤ) - r ≤ 1 := by
  unfold divFaithful at h h'
  by_cases ha : a = 0
  · simp only [ha, if_true] at h h'; subst h; subst h'; simp
  · have hpos : 0 < a := Nat.pos_of_ne_zero ha
    simp only [ha, if_false] at h h'
    have h3 : (c * m + a - 1) / a ≤ c * m / a + 1 := by
      have : c * m + a - 1 < (c * m / a + 1 + 1) * a := by
        have h := Nat.lt_mul_div_succ (c * m) hpos
        have e : (c * m / a + 1 + 1) * a = a * (c * m / a + 1) + a := by ring
        omega
      have := (Nat.div_lt_iff_lt_mul hpos).mpr this
      omega
    have h4 : c * m / a ≤ (c * m + a - 1) / a := Nat.div_le_div_right (by omega)
    omega

end Fir.Proofs
