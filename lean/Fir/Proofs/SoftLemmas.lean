/-
  Fir.Proofs.SoftLemmas - the exact binary32 rounding of `Fir.Model.SoftF32` obeys the standard model:
  `rnd24 n d` is within `2^-24 · n/d` of `n/d` (normal range).  With it the premises of
  `simd_div16_lane_faithful` are discharged for the executable lane `Fir.Simd.simdDiv16`, the very function
  the correspondence check compares with the SSE4.1 / AVX2 kernels.
-/
import Fir.Model.SoftF32
import Fir.Model.SimdAlpha
import Fir.Proofs.SimdDiv16Lemmas
import Mathlib.Algebra.Order.Field.Basic
import Mathlib.Data.Rat.Cast.Order
import Mathlib.Tactic.Linarith
import Mathlib.Tactic.Ring
import Mathlib.Tactic.Positivity
import Mathlib.Tactic.NormNum
import Mathlib.Tactic.FieldSimp

namespace Fir.Proofs
open Fir.Soft

/-! ### `lg2` is the integer binary logarithm -/

theorem lgStep_inv (n k : ℕ) (x : ℕ × ℕ) (hx : x.1 = n / 2 ^ x.2) : (lgStep k x).1 = n / 2 ^ (lgStep k x).2 := by
  unfold lgStep
  split
  · simp only
    rw [hx, Nat.div_div_eq_div_mul, ← pow_add]
  · exact hx

theorem lgStep_lt (k : ℕ) (x : ℕ × ℕ) (hB : x.1 < 2 ^ (2 * k)) : (lgStep k x).1 < 2 ^ k := by
  unfold lgStep
  split
  · simp only
    apply (Nat.div_lt_iff_lt_mul (Nat.two_pow_pos k)).mpr
    have : (2 : ℕ) ^ (2 * k) = 2 ^ k * 2 ^ k := by rw [two_mul, pow_add]
    omega
  · omega

theorem lgStep_pos (k : ℕ) (x : ℕ × ℕ) (h : 1 ≤ x.1) : 1 ≤ (lgStep k x).1 := by
  unfold lgStep
  split
  · rename_i hge
    simp only
    exact Nat.div_pos hge (Nat.two_pow_pos k)
  · exact h

/-- one step keeps the three facts: invariant, positivity, halved bound -/
theorem lgStep_all (n k : ℕ) (x : ℕ × ℕ) (h : x.1 = n / 2 ^ x.2 ∧ 1 ≤ x.1 ∧ x.1 < 2 ^ (2 * k)) :
    (lgStep k x).1 = n / 2 ^ (lgStep k x).2 ∧ 1 ≤ (lgStep k x).1 ∧ (lgStep k x).1 < 2 ^ k :=
  ⟨lgStep_inv n k x h.1, lgStep_pos k x h.2.1, lgStep_lt k x h.2.2⟩

set_option exponentiation.threshold 600 in
theorem lg2_spec (n : ℕ) (h1 : 1 ≤ n) (h2 : n < 2 ^ 512) : 2 ^ lg2 n ≤ n ∧ n < 2 ^ (lg2 n + 1) := by
  have s9 : ((n, 0) : ℕ × ℕ).1 = n / 2 ^ ((n, 0) : ℕ × ℕ).2 ∧ 1 ≤ ((n, 0) : ℕ × ℕ).1 ∧ ((n, 0) : ℕ × ℕ).1 < 2 ^ (2 * 256) := by
    refine ⟨by simp, h1, ?_⟩
    have : (2 : ℕ) ^ (2 * 256) = 2 ^ 512 := by norm_num
    simpa [this] using h2
  have s8 := lgStep_all n 256 _ s9
  have s7 := lgStep_all n 128 _ s8
  have s6 := lgStep_all n 64 _ s7
  have s5 := lgStep_all n 32 _ s6
  have s4 := lgStep_all n 16 _ s5
  have s3 := lgStep_all n 8 _ s4
  have s2 := lgStep_all n 4 _ s3
  have s1 := lgStep_all n 2 _ s2
  have s0 := lgStep_all n 1 _ s1
  clear s1 s2 s3 s4 s5 s6 s7 s8 s9
  have e : lg2 n = (lgStep 1 (lgStep 2 (lgStep 4 (lgStep 8 (lgStep 16 (lgStep 32 (lgStep 64 (lgStep 128 (lgStep 256 (n, 0)))))))))).2 := rfl
  rw [e]
  generalize lgStep 1 (lgStep 2 (lgStep 4 (lgStep 8 (lgStep 16 (lgStep 32 (lgStep 64 (lgStep 128 (lgStep 256 (n, 0))))))))) = x0 at s0 ⊢
  obtain ⟨i0, p0, b0⟩ := s0
  have hx : x0.1 = 1 := by
    have : x0.1 < 2 := by simpa using b0
    omega
  have hone : n / 2 ^ x0.2 = 1 := by rw [← i0]; exact hx
  have hpos : 0 < 2 ^ x0.2 := Nat.two_pow_pos _
  constructor
  · have := (Nat.le_div_iff_mul_le hpos).mp (le_of_eq hone.symm)
    omega
  · have h3 : n / 2 ^ x0.2 < 2 := by omega
    have := (Nat.div_lt_iff_lt_mul hpos).mp h3
    rw [pow_succ]; omega

/-! ### `floorLog2Ratio` never over-estimates: `2^(E - bias) ≤ n / d` -/

set_option exponentiation.threshold 600 in
theorem floorLog2Ratio_lower (n d : ℕ) (hn : 1 ≤ n) (hd : 1 ≤ d) (hn2 : n < 2 ^ 512) (hd2 : d < 2 ^ 150) :
    d * 2 ^ floorLog2Ratio n d ≤ n * 2 ^ bias := by
  obtain ⟨hln1, hln2⟩ := lg2_spec n hn hn2
  obtain ⟨hld1, hld2⟩ := lg2_spec d hd (lt_trans hd2 (by norm_num))
  have hld : lg2 d < 150 := by
    by_contra hcon
    have : (2 : ℕ) ^ 150 ≤ 2 ^ lg2 d := Nat.pow_le_pow_right (by norm_num) (by omega)
    omega
  unfold floorLog2Ratio
  simp only
  set ln := lg2 n
  set ld := lg2 d
  have hB : 150 ≤ bias := by decide
  generalize bias = B at hB ⊢
  split
  · rename_i htest
    -- E = ln + bias - ld, and 2^E * 2^ld = 2^(ln + bias)
    have e : 2 ^ (ln + B - ld) * 2 ^ ld = 2 ^ ln * 2 ^ B := by
      have : ln + B - ld + ld = ln + B := by omega
      rw [← pow_add, ← pow_add, this]
    have hpos : 0 < 2 ^ ld := Nat.two_pow_pos _
    apply Nat.le_of_mul_le_mul_right _ hpos
    calc d * 2 ^ (ln + B - ld) * 2 ^ ld = d * (2 ^ (ln + B - ld) * 2 ^ ld) := by ring
      _ = d * 2 ^ ln * 2 ^ B := by rw [e]; ring
      _ ≤ n * 2 ^ ld * 2 ^ B := Nat.mul_le_mul_right _ htest
      _ = n * 2 ^ B * 2 ^ ld := by ring
  · -- E = ln + bias - ld - 1, and 2^E * 2^(ld+1) = 2^(ln + bias)
    have e : 2 ^ (ln + B - ld - 1) * 2 ^ (ld + 1) = 2 ^ ln * 2 ^ B := by
      have : ln + B - ld - 1 + (ld + 1) = ln + B := by omega
      rw [← pow_add, ← pow_add, this]
    have hpos : 0 < 2 ^ (ld + 1) := Nat.two_pow_pos _
    apply Nat.le_of_mul_le_mul_right _ hpos
    calc d * 2 ^ (ln + B - ld - 1) * 2 ^ (ld + 1) = d * (2 ^ (ln + B - ld - 1) * 2 ^ (ld + 1)) := by ring
      _ = d * 2 ^ ln * 2 ^ B := by rw [e]; ring
      _ ≤ 2 ^ (ld + 1) * n * 2 ^ B := by
          apply Nat.mul_le_mul_right
          exact Nat.mul_le_mul (le_of_lt hld2) hln1
      _ = n * 2 ^ B * 2 ^ (ld + 1) := by ring

/-! ### round-to-nearest-even of a quotient is within 1/2 -/

theorem rneDiv_err (n d : ℕ) (hd : 0 < d) : |((rneDiv n d : ℕ) : ℚ) - (n : ℚ) / d| ≤ 1 / 2 := by
  have hdq : (0 : ℚ) < d := by exact_mod_cast hd
  have hdiv : (n : ℚ) = (d : ℚ) * ((n / d : ℕ) : ℚ) + ((n % d : ℕ) : ℚ) := by
    exact_mod_cast (Nat.div_add_mod n d).symm
  have hr : n % d < d := Nat.mod_lt _ hd
  have hrq : ((n % d : ℕ) : ℚ) < d := by exact_mod_cast hr
  have hr0 : (0 : ℚ) ≤ ((n % d : ℕ) : ℚ) := by positivity
  have key : (n : ℚ) / d = ((n / d : ℕ) : ℚ) + ((n % d : ℕ) : ℚ) / d := by
    rw [hdiv]; field_simp
  unfold rneDiv
  simp only
  rw [key, abs_le]
  split
  · rename_i h
    have hq : (d : ℚ) < 2 * ((n % d : ℕ) : ℚ) := by exact_mod_cast h
    have : ((n % d : ℕ) : ℚ) / d > 1 / 2 := by rw [gt_iff_lt, lt_div_iff₀ hdq]; linarith
    have : ((n % d : ℕ) : ℚ) / d < 1 := by rw [div_lt_one hdq]; exact hrq
    push_cast; constructor <;> linarith
  · split
    · rename_i h1 h2
      have hq : 2 * ((n % d : ℕ) : ℚ) = d := by exact_mod_cast h2
      have : ((n % d : ℕ) : ℚ) / d = 1 / 2 := by rw [div_eq_iff hdq.ne']; linarith
      split <;> (push_cast; constructor <;> linarith)
    · rename_i h1 h2
      have hq : 2 * ((n % d : ℕ) : ℚ) < d := by
        have : 2 * (n % d) < d := by omega
        exact_mod_cast this
      have h3 : ((n % d : ℕ) : ℚ) / d < 1 / 2 := by rw [div_lt_iff₀ hdq]; linarith
      have h4 : 0 ≤ ((n % d : ℕ) : ℚ) / d := by positivity
      constructor <;> linarith

/-! ### `rnd24` obeys the standard model of rounding (normal range) -/

/-- value of a dyadic `(m, eb)` : `m · 2^(eb - bias)` -/
def valQ (x : ℕ × ℕ) : ℚ := (x.1 : ℚ) * 2 ^ x.2 / 2 ^ bias

theorem val_err (m sh B : ℕ) (r : ℚ) (hm : |(m : ℚ) - r * 2 ^ B / 2 ^ sh| ≤ 1 / 2) :
    |(m : ℚ) * 2 ^ sh / 2 ^ B - r| ≤ 2 ^ sh / 2 ^ B / 2 := by
  have h1 : (0 : ℚ) < 2 ^ sh := by positivity
  have h2 : (0 : ℚ) < 2 ^ B := by positivity
  have e : (m : ℚ) * 2 ^ sh / 2 ^ B - r = (2 ^ sh / 2 ^ B) * ((m : ℚ) - r * 2 ^ B / 2 ^ sh) := by
    field_simp
  rw [e, abs_mul, abs_of_pos (by positivity : (0 : ℚ) < 2 ^ sh / 2 ^ B)]
  have := mul_le_mul_of_nonneg_left hm (by positivity : (0 : ℚ) ≤ 2 ^ sh / 2 ^ B)
  linarith

set_option exponentiation.threshold 600 in
theorem rnd24_relerr (n d : ℕ) (hn : 1 ≤ n) (hd : 1 ≤ d) (hn2 : n < 2 ^ 512) (hd2 : d < 2 ^ 150)
    (hnormal : bias - 126 ≤ floorLog2Ratio n d) :
    |valQ (rnd24 n d) - (n : ℚ) / d| ≤ 1 / 2 ^ 24 * ((n : ℚ) / d) := by
  have hlow := floorLog2Ratio_lower n d hn hd hn2 hd2
  have hdq : (0 : ℚ) < d := by exact_mod_cast hd
  have hnq : (0 : ℚ) < n := by exact_mod_cast hn
  unfold rnd24
  rw [if_neg (by omega)]
  simp only
  have hB : 150 ≤ bias := by decide
  unfold valQ
  generalize hE : floorLog2Ratio n d = E at hlow hnormal ⊢
  generalize bias = B at hB hlow hnormal ⊢
  rw [if_neg (by omega : ¬ E < B - 126)]
  -- the common bound on the rounded significand
  have hE23 : 23 ≤ E := by omega
  have hpowE : (2 : ℚ) ^ E = 2 ^ (E - 23) * 2 ^ 23 := by
    have : E - 23 + 23 = E := by omega
    rw [← pow_add, this]
  have hlowq : (d : ℚ) * 2 ^ E ≤ n * 2 ^ B := by exact_mod_cast hlow
  have hbound : (2 : ℚ) ^ (E - 23) / 2 ^ B / 2 ≤ 1 / 2 ^ 24 * ((n : ℚ) / d) := by
    have hX : (2 : ℚ) ^ E ≤ (n : ℚ) / d * 2 ^ B := by
      rw [div_mul_eq_mul_div, le_div_iff₀ hdq]; linarith
    rw [div_div, div_le_iff₀ (by positivity)]
    have e : 1 / 2 ^ 24 * ((n : ℚ) / d) * (2 ^ B * 2) = ((n : ℚ) / d * 2 ^ B) / 2 ^ 23 := by ring
    rw [e, le_div_iff₀ (by positivity), ← hpowE]
    exact hX
  have hm : ∀ m : ℕ, m = (if E - 23 ≥ B then rneDiv n (d * 2 ^ (E - 23 - B)) else rneDiv (n * 2 ^ (B - (E - 23))) d) →
      |(m : ℚ) * 2 ^ (E - 23) / 2 ^ B - (n : ℚ) / d| ≤ 2 ^ (E - 23) / 2 ^ B / 2 := by
    intro m hmdef
    apply val_err
    split at hmdef
    · rename_i hge
      have hpos : 0 < d * 2 ^ (E - 23 - B) := Nat.mul_pos (by omega) (Nat.two_pow_pos _)
      have := rneDiv_err n (d * 2 ^ (E - 23 - B)) hpos
      rw [← hmdef] at this
      have e : (n : ℚ) / d * 2 ^ B / 2 ^ (E - 23) = (n : ℚ) / ((d * 2 ^ (E - 23 - B) : ℕ) : ℚ) := by
        have hp : (2 : ℚ) ^ (E - 23) = 2 ^ B * 2 ^ (E - 23 - B) := by
          have : B + (E - 23 - B) = E - 23 := by omega
          rw [← pow_add, this]
        push_cast
        rw [hp]; field_simp
      rw [e]; exact this
    · rename_i hlt
      have := rneDiv_err (n * 2 ^ (B - (E - 23))) d (by omega)
      rw [← hmdef] at this
      have e : (n : ℚ) / d * 2 ^ B / 2 ^ (E - 23) = ((n * 2 ^ (B - (E - 23)) : ℕ) : ℚ) / d := by
        have hp : (2 : ℚ) ^ B = 2 ^ (E - 23) * 2 ^ (B - (E - 23)) := by
          have : E - 23 + (B - (E - 23)) = B := by omega
          rw [← pow_add, this]
        push_cast
        rw [hp]; field_simp
      rw [e]; exact this
  generalize hmdef : (if E - 23 ≥ B then rneDiv n (d * 2 ^ (E - 23 - B)) else rneDiv (n * 2 ^ (B - (E - 23))) d) = m
  have hmm := hm m hmdef.symm
  split
  · rename_i hcarry
    -- significand rounded up to 2^24: (2^23, sh + 1) has the same value
    rw [hcarry] at hmm
    have e : ((8388608 : ℕ) : ℚ) * 2 ^ (E - 23 + 1) / 2 ^ B = ((16777216 : ℕ) : ℚ) * 2 ^ (E - 23) / 2 ^ B := by
      rw [pow_succ]; push_cast; ring
    simp only
    rw [e]
    exact hmm.trans hbound
  · exact hmm.trans hbound

/-! ### helpers about dyadics -/

theorem valQ_of_ge (x : ℕ × ℕ) (h : bias ≤ x.2) : valQ x = ((x.1 * 2 ^ (x.2 - bias) : ℕ) : ℚ) := by
  unfold valQ
  have : x.2 = bias + (x.2 - bias) := by omega
  generalize bias = B at *
  push_cast
  rw [this, pow_add]
  have : (0 : ℚ) < 2 ^ B := by positivity
  have e : B + (x.2 - B) - B = x.2 - B := by omega
  rw [e]
  field_simp

theorem valQ_of_lt (x : ℕ × ℕ) (h : x.2 < bias) : valQ x = (x.1 : ℚ) / 2 ^ (bias - x.2) := by
  unfold valQ
  have hb : bias = x.2 + (bias - x.2) := by omega
  generalize bias = B at *
  conv_lhs => rw [hb, pow_add]
  have : (0 : ℚ) < 2 ^ x.2 := by positivity
  field_simp

theorem dyadicGe_iff (x : ℕ × ℕ) (v : ℕ) : Fir.Simd.dyadicGe x v = true ↔ (v : ℚ) ≤ valQ x := by
  unfold Fir.Simd.dyadicGe
  split
  · rename_i h
    rw [valQ_of_ge x h, decide_eq_true_eq]
    exact ⟨fun h => by exact_mod_cast h, fun h => by exact_mod_cast h⟩
  · rename_i h
    rw [valQ_of_lt x (by omega), decide_eq_true_eq, le_div_iff₀ (by positivity)]
    exact ⟨fun h => by exact_mod_cast h, fun h => by exact_mod_cast h⟩

theorem cvtps_near (x : ℕ × ℕ) (hx : valQ x < 2147483647) :
    |((Fir.Simd.cvtpsNonneg x : ℕ) : ℚ) - valQ x| ≤ 1 / 2 := by
  unfold Fir.Simd.cvtpsNonneg
  simp only
  split
  · rename_i h
    have hv := valQ_of_ge x h
    have hlt : x.1 * 2 ^ (x.2 - bias) < 2147483648 := by
      have : ((x.1 * 2 ^ (x.2 - bias) : ℕ) : ℚ) < 2147483647 := by rw [← hv]; exact hx
      have : x.1 * 2 ^ (x.2 - bias) < 2147483647 := by exact_mod_cast this
      omega
    rw [if_neg (by omega), hv]
    simp
  · rename_i h
    have hv := valQ_of_lt x (by omega)
    have hpos : 0 < 2 ^ (bias - x.2) := Nat.two_pow_pos _
    have herr := rneDiv_err x.1 (2 ^ (bias - x.2)) hpos
    have hcast : (((2 ^ (bias - x.2) : ℕ)) : ℚ) = 2 ^ (bias - x.2) := by push_cast; rfl
    rw [hcast, ← hv] at herr
    have hlt : rneDiv x.1 (2 ^ (bias - x.2)) < 2147483648 := by
      rw [abs_le] at herr
      have : ((rneDiv x.1 (2 ^ (bias - x.2)) : ℕ) : ℚ) < 2147483648 := by linarith [herr.2]
      exact_mod_cast this
    rw [if_neg (by omega)]
    exact herr

/-! ### the executable 16-bit SIMD lane is faithful for all 2^32 pairs -/

theorem floorLog2Ratio_ge (n d : ℕ) (h : lg2 d + 1 ≤ lg2 n + bias) :
    lg2 n + bias ≤ floorLog2Ratio n d + lg2 d + 1 := by
  unfold floorLog2Ratio
  simp only
  split <;> omega

theorem rnd24_snd (n d : ℕ) (hn : n ≠ 0) (hd : d ≠ 0) (hnormal : bias - 126 ≤ floorLog2Ratio n d) :
    (rnd24 n d).2 = floorLog2Ratio n d - 23 ∨ (rnd24 n d).2 = floorLog2Ratio n d - 23 + 1 := by
  unfold rnd24
  rw [if_neg (show ¬ (n = 0 ∨ d = 0) by omega)]
  simp only
  rw [if_neg (show ¬ floorLog2Ratio n d < bias - 126 by omega)]
  generalize (if floorLog2Ratio n d - 23 ≥ bias then rneDiv n (d * 2 ^ (floorLog2Ratio n d - 23 - bias))
    else rneDiv (n * 2 ^ (bias - (floorLog2Ratio n d - 23))) d) = m
  split
  · right; rfl
  · left; rfl

theorem rnd24_zero (d : ℕ) : rnd24 0 d = (0, bias) := by simp [rnd24]

set_option exponentiation.threshold 600 in
theorem lg2_lt_of_lt (n k : ℕ) (hn : 1 ≤ n) (h : n < 2 ^ k) (hk : k ≤ 512) : lg2 n < k := by
  have hn2 : n < 2 ^ 512 := lt_of_lt_of_le h (Nat.pow_le_pow_right (by norm_num) hk)
  obtain ⟨h1, _⟩ := lg2_spec n hn hn2
  by_contra hcon
  have : (2 : ℕ) ^ k ≤ 2 ^ lg2 n := Nat.pow_le_pow_right (by norm_num) (by omega)
  omega

set_option exponentiation.threshold 600 in
theorem lg2_ge_of_ge (n k : ℕ) (hn2 : n < 2 ^ 512) (h : 2 ^ k ≤ n) : k ≤ lg2 n := by
  have hn : 1 ≤ n := le_trans (Nat.one_le_two_pow) h
  obtain ⟨_, h2⟩ := lg2_spec n hn hn2
  by_contra hcon
  have : (2 : ℕ) ^ (lg2 n + 1) ≤ 2 ^ k := Nat.pow_le_pow_right (by norm_num) (by omega)
  omega

/-- the tail of the lane: saturation and conversion to an integer, given the two rounded values -/
theorem lane_tail (c a : ℕ) (hc : c < 65536) (ha0 : 0 < a) (ha : a < 65536) (S : ℚ) (q : ℕ × ℕ)
    (hs : |S - (c : ℚ) * 65535| ≤ 1 / 2 ^ 24 * |(c : ℚ) * 65535|)
    (hq : |valQ q - S / a| ≤ 1 / 2 ^ 24 * |S / a|) :
    Fir.Spec.divFaithful 65535 c a (if Fir.Simd.dyadicGe q 65535 = true then 65535 else Fir.Simd.cvtpsNonneg q) := by
  set r : ℕ := if Fir.Simd.dyadicGe q 65535 = true then 65535 else Fir.Simd.cvtpsNonneg q with hr
  have hn : |(((r : ℕ) : ℤ) : ℚ) - min (valQ q) 65535| ≤ 1 / 2 := by
    rw [hr]
    split
    · rename_i hge
      have := (dyadicGe_iff q 65535).mp hge
      rw [min_eq_right (by exact_mod_cast this)]
      norm_num
    · rename_i hge
      have hlt : valQ q < 65535 := by
        by_contra hcon
        exact hge ((dyadicGe_iff q 65535).mpr (by push_cast; linarith))
      rw [min_eq_left hlt.le]
      have := cvtps_near q (by linarith)
      simpa using this
  have := (simd_div16_lane_faithful c a hc ha0 ha S (valQ q) (r : ℤ) hs hq hn).2
  simpa using this

set_option exponentiation.threshold 600 in
/-- second rounding + tail, for any representation `n2 / d2` of the exact quotient `S / a` -/
theorem lane_from_ratio (c a : ℕ) (hc : c < 65536) (ha0 : 0 < a) (ha : a < 65536) (S : ℚ) (hS : 0 < S) (n2 d2 : ℕ)
    (hs : |S - (c : ℚ) * 65535| ≤ 1 / 2 ^ 24 * |(c : ℚ) * 65535|)
    (hratio : (n2 : ℚ) / d2 = S / a) (hn2 : n2 < 2 ^ 42) (hd2pos : 1 ≤ d2) (hd2 : d2 < 2 ^ 25) :
    Fir.Spec.divFaithful 65535 c a
      (if Fir.Simd.dyadicGe (rnd24 n2 d2) 65535 = true then 65535 else Fir.Simd.cvtpsNonneg (rnd24 n2 d2)) := by
  have haq : (0 : ℚ) < a := by exact_mod_cast ha0
  have hd2q : (0 : ℚ) < d2 := by exact_mod_cast hd2pos
  have hn2pos : 1 ≤ n2 := by
    have : (0 : ℚ) < (n2 : ℚ) / d2 := by rw [hratio]; positivity
    have : (0 : ℚ) < n2 := by
      by_contra hcon
      have h0 : (n2 : ℚ) ≤ 0 := not_lt.mp hcon
      have : (n2 : ℚ) / d2 ≤ 0 := div_nonpos_of_nonpos_of_nonneg h0 hd2q.le
      linarith
    have : 0 < n2 := by exact_mod_cast this
    omega
  have hn2' : n2 < 2 ^ 512 := lt_trans hn2 (by norm_num)
  have hd2' : d2 < 2 ^ 150 := lt_trans hd2 (by norm_num)
  have hlgd : lg2 d2 < 25 := lg2_lt_of_lt d2 25 hd2pos hd2 (by norm_num)
  have hB : 150 ≤ bias := by decide
  have hge := floorLog2Ratio_ge n2 d2 (by omega)
  have hnormal : bias - 126 ≤ floorLog2Ratio n2 d2 := by omega
  have hrel := rnd24_relerr n2 d2 hn2pos hd2pos hn2' hd2' hnormal
  rw [hratio] at hrel
  have hq : |valQ (rnd24 n2 d2) - S / a| ≤ 1 / 2 ^ 24 * |S / a| := by
    rw [abs_of_pos (by positivity : (0 : ℚ) < S / a)]; exact hrel
  exact lane_tail c a hc ha0 ha S (rnd24 n2 d2) hs hq

set_option exponentiation.threshold 600 in
/-- **the executable SIMD 16-bit divide lane is faithful and saturating for all 2^32 (colour, alpha)
    pairs** - no premise about rounding left: both binary32 operations are evaluated exactly by `rnd24`,
    whose relative error is proved above; the same function is compared with the SSE4.1 / AVX2 kernels
    by the correspondence check -/
theorem simdDiv16_faithful (c a : ℕ) (hc : c < 65536) (ha : a < 65536) :
    Fir.Spec.divFaithful 65535 c a (Fir.Simd.simdDiv16 c a) := by
  by_cases ha0 : a = 0
  · subst ha0; simp [Fir.Simd.simdDiv16, Fir.Spec.divFaithful]
  have hapos : 0 < a := Nat.pos_of_ne_zero ha0
  have haq : (0 : ℚ) < a := by exact_mod_cast hapos
  have hB : 150 ≤ bias := by decide
  by_cases hc0 : c = 0
  · subst hc0
    have h0 : Fir.Simd.simdDiv16 0 a = 0 := by
      unfold Fir.Simd.simdDiv16
      rw [if_neg ha0]
      simp [rnd24_zero, Fir.Simd.dyadicGe, Fir.Simd.cvtpsNonneg]
    rw [h0]; simp [Fir.Spec.divFaithful, ha0]
  have hcpos : 1 ≤ c := by omega
  have hcq : (1 : ℚ) ≤ c := by exact_mod_cast hcpos
  unfold Fir.Simd.simdDiv16
  rw [if_neg ha0]
  simp only
  -- first rounding: s = fl(c * 65535)
  have hn1lo : 2 ^ 15 ≤ c * 65535 := by omega
  have hn1hi : c * 65535 < 2 ^ 32 := by omega
  have hn1' : c * 65535 < 2 ^ 512 := lt_trans hn1hi (by norm_num)
  have hlg1 : lg2 1 = 0 := by decide
  have hlgn1 : 15 ≤ lg2 (c * 65535) := lg2_ge_of_ge _ 15 hn1' hn1lo
  have hE1ge := floorLog2Ratio_ge (c * 65535) 1 (by rw [hlg1]; omega)
  rw [hlg1] at hE1ge
  have hnormal1 : bias - 126 ≤ floorLog2Ratio (c * 65535) 1 := by omega
  have hrel1 := rnd24_relerr (c * 65535) 1 (by omega) (le_refl 1) hn1' (by norm_num) hnormal1
  have hsnd1 := rnd24_snd (c * 65535) 1 (by omega) (by norm_num) hnormal1
  generalize rnd24 (c * 65535) 1 = s at hrel1 hsnd1 ⊢
  have hs2 : bias ≤ s.2 + 9 := by omega
  have hcast : (((c * 65535 : ℕ)) : ℚ) / ((1 : ℕ) : ℚ) = (c : ℚ) * 65535 := by push_cast; ring
  rw [hcast] at hrel1
  have hs : |valQ s - (c : ℚ) * 65535| ≤ 1 / 2 ^ 24 * |(c : ℚ) * 65535| := by
    rw [abs_of_pos (by positivity : (0 : ℚ) < (c : ℚ) * 65535)]; exact hrel1
  rw [abs_le] at hrel1
  have hcq2 : (c : ℚ) ≤ 65535 := by exact_mod_cast (by omega : c ≤ 65535)
  have hSpos : 0 < valQ s := by linarith only [hrel1.1, hcq]
  have hShi : valQ s < 2 ^ 33 := by linarith only [hrel1.2, hcq2]
  by_cases hge : s.2 ≥ bias
  · rw [if_pos hge]
    have hv := valQ_of_ge s hge
    apply lane_from_ratio c a hc hapos ha (valQ s) hSpos _ _ hs
    · rw [hv]
    · have : ((s.1 * 2 ^ (s.2 - bias) : ℕ) : ℚ) < ((2 ^ 33 : ℕ) : ℚ) := by rw [← hv]; push_cast; exact hShi
      have : s.1 * 2 ^ (s.2 - bias) < 2 ^ 33 := by exact_mod_cast this
      exact lt_trans this (by norm_num)
    · exact hapos
    · exact lt_trans ha (by norm_num)
  · rw [if_neg hge]
    have hlt : s.2 < bias := by omega
    have hv := valQ_of_lt s hlt
    have hk : bias - s.2 ≤ 9 := by omega
    have hpk : (2 : ℕ) ^ (bias - s.2) ≤ 2 ^ 9 := Nat.pow_le_pow_right (by norm_num) hk
    have hpkpos : 0 < 2 ^ (bias - s.2) := Nat.two_pow_pos _
    have hpkq : (0 : ℚ) < 2 ^ (bias - s.2) := by positivity
    have hpkq9 : (2 : ℚ) ^ (bias - s.2) ≤ 2 ^ 9 := by exact_mod_cast hpk
    apply lane_from_ratio c a hc hapos ha (valQ s) hSpos _ _ hs
    · rw [hv]; push_cast; field_simp
    · -- s.1 = S * 2^k < 2^33 * 2^9
      have h1 : (s.1 : ℚ) = valQ s * 2 ^ (bias - s.2) := by rw [hv]; field_simp
      have h2 : (s.1 : ℚ) < 2 ^ 33 * 2 ^ 9 := by
        rw [h1]
        calc valQ s * 2 ^ (bias - s.2) < 2 ^ 33 * 2 ^ (bias - s.2) := by
              apply mul_lt_mul_of_pos_right hShi hpkq
          _ ≤ 2 ^ 33 * 2 ^ 9 := by apply mul_le_mul_of_nonneg_left hpkq9 (by positivity)
      have h3 : ((s.1 : ℕ) : ℚ) < ((2 ^ 42 : ℕ) : ℚ) := by push_cast; norm_num at h2 ⊢; linarith
      exact_mod_cast h3
    · exact Nat.mul_pos hapos hpkpos
    · calc a * 2 ^ (bias - s.2) < 65536 * 2 ^ 9 := by
            apply Nat.mul_lt_mul_of_lt_of_le ha hpk (by norm_num)
        _ = 2 ^ 25 := by norm_num

end Fir.Proofs
