/-
  Fir.Proofs.GeomLemmas - the clamped window `[x_min, x_max)` of `precompute_coefficients`
  (src/convolution/mod.rs) for an arbitrary rounding function:

      x_min = (in_center - filter_radius).floor().max(0.) as u32
      x_max = (in_center + filter_radius).ceil().min(in_size as f64) as u32
      window_size = (filter_radius.ceil() as usize * 2 + 1).min(in_size)       (saturating)

  `fl : ℚ → ℚ` rounds the one subtraction / addition; it is only assumed monotone and exact on the few integers
  named in each statement (IEEE round-to-nearest is exact on all integers up to 2^53: `Fir.Ieee.flP_int`).  `c` is the centre *as computed* (whatever rounding produced it),
  `r ≥ 0` the radius as computed.
-/
import Mathlib.Algebra.Order.Floor.Ring
import Mathlib.Order.Monotone.Basic
import Mathlib.Tactic.Linarith
import Mathlib.Tactic.Ring
import Mathlib.Data.Rat.Floor

namespace Fir.Proofs

/-- `x_min` -/
def xMinOf (fl : ℚ → ℚ) (c r : ℚ) : ℕ := ⌊fl (c - r)⌋.toNat
/-- `x_max` -/
def xMaxOf (fl : ℚ → ℚ) (c r : ℚ) (inSize : ℕ) : ℕ := min ⌈fl (c + r)⌉.toNat inSize
/-- `window_size` -/
def windowSizeOf (r : ℚ) (inSize : ℕ) : ℕ := min (⌈r⌉.toNat * 2 + 1) inSize

theorem floor_ge_of_int (fl : ℚ → ℚ) (hfl : Monotone fl) (x : ℚ) (n : ℤ) (hn : fl n = n) (h : (n : ℚ) ≤ x) :
    n ≤ ⌊fl x⌋ := by
  apply Int.le_floor.mpr
  have := hfl h
  rwa [hn] at this

theorem ceil_le_of_int (fl : ℚ → ℚ) (hfl : Monotone fl) (x : ℚ) (n : ℤ) (hn : fl n = n) (h : x ≤ (n : ℚ)) :
    ⌈fl x⌉ ≤ n := by
  apply Int.ceil_le.mpr
  have := hfl h
  rwa [hn] at this

/-- the unclamped span is at most `2⌈r⌉ + 1`; `fl` only has to be exact on the two integers
    `⌈c⌉ + ⌈r⌉` and `⌊c⌋ - ⌈r⌉` -/
theorem span_int (fl : ℚ → ℚ) (hfl : Monotone fl) (c r : ℚ)
    (h1 : fl ((⌈c⌉ + ⌈r⌉ : ℤ) : ℚ) = ((⌈c⌉ + ⌈r⌉ : ℤ) : ℚ)) (h2 : fl ((⌊c⌋ - ⌈r⌉ : ℤ) : ℚ) = ((⌊c⌋ - ⌈r⌉ : ℤ) : ℚ)) :
    ⌈fl (c + r)⌉ - ⌊fl (c - r)⌋ ≤ 2 * ⌈r⌉ + 1 := by
  have h1' : ⌈fl (c + r)⌉ ≤ ⌈c⌉ + ⌈r⌉ := by
    apply ceil_le_of_int fl hfl _ _ h1
    push_cast
    linarith [Int.le_ceil c, Int.le_ceil r]
  have h2' : ⌊c⌋ - ⌈r⌉ ≤ ⌊fl (c - r)⌋ := by
    apply floor_ge_of_int fl hfl _ _ h2
    push_cast
    linarith [Int.floor_le c, Int.le_ceil r]
  have h3 : ⌈c⌉ ≤ ⌊c⌋ + 1 := Int.ceil_le_floor_add_one c
  omega

/-- **`x_min ≤ x_max`** (so `bound_end - bound_start` cannot underflow and `Bounds.window` applies) as
    soon as the radius is non-negative and the window starts inside the image; `fl` only has to be exact on
    the integer `in_size` -/
theorem xmin_le_xmax (fl : ℚ → ℚ) (hfl : Monotone fl) (c r : ℚ) (inSize : ℕ)
    (hsz : fl ((inSize : ℤ) : ℚ) = ((inSize : ℤ) : ℚ))
    (hr : 0 ≤ r) (hin : c - r ≤ inSize) : xMinOf fl c r ≤ xMaxOf fl c r inSize := by
  unfold xMinOf xMaxOf
  apply le_min
  · apply Int.toNat_le_toNat
    have h1 : fl (c - r) ≤ fl (c + r) := hfl (by linarith)
    exact (Int.floor_le_floor h1).trans (Int.floor_le_ceil _)
  · have h : ⌊fl (c - r)⌋ ≤ (inSize : ℤ) := by
      have hin' : c - r ≤ ((inSize : ℤ) : ℚ) := by push_cast; exact hin
      have := hfl hin'
      rw [hsz] at this
      exact Int.floor_le_iff.mpr (by linarith)
    omega

/-- **every window fits into `window_size` slots**: `x_max - x_min ≤ min(2⌈r⌉ + 1, in_size)`, so
    `coeffs.resize(cur_index + window_size, 0.)` never truncates the weights just pushed and
    `get_chunks`' `values[0..bound.size]` stays inside its chunk - also with the clamp to `in_size` -/
theorem span_le_window (fl : ℚ → ℚ) (hfl : Monotone fl) (c r : ℚ) (inSize : ℕ) (hr : 0 ≤ r)
    (h1 : fl ((⌈c⌉ + ⌈r⌉ : ℤ) : ℚ) = ((⌈c⌉ + ⌈r⌉ : ℤ) : ℚ)) (h2 : fl ((⌊c⌋ - ⌈r⌉ : ℤ) : ℚ) = ((⌊c⌋ - ⌈r⌉ : ℤ) : ℚ)) :
    xMaxOf fl c r inSize - xMinOf fl c r ≤ windowSizeOf r inSize := by
  unfold xMinOf xMaxOf windowSizeOf
  have hs := span_int fl hfl c r h1 h2
  have hr' : 0 ≤ ⌈r⌉ := Int.ceil_nonneg hr
  have e : ((⌈r⌉.toNat : ℕ) : ℤ) = ⌈r⌉ := Int.toNat_of_nonneg hr'
  apply le_min
  · have : (min ⌈fl (c + r)⌉.toNat inSize : ℕ) ≤ ⌈fl (c + r)⌉.toNat := min_le_left _ _
    omega
  · have : (min ⌈fl (c + r)⌉.toNat inSize : ℕ) ≤ inSize := min_le_right _ _
    omega

end Fir.Proofs
