/-
  Fir.Proofs.SimdU8x4Lemmas - the SSE4.1 U8x4 one-row horizontal kernel (`Fir.Model.SimdU8x4`, shuffle masks
  re-extracted from the source) computes exactly what the portable kernel computes: every 8 / 4 / 2 / 1
  coefficient step adds, to each of the four channel lanes, the dot product of its coefficients with the
  matching bytes of the source pixels (mod 2^32), for every coefficient list and every source row.
-/
import Fir.Model.SimdU8x4
import Fir.Model.Resample
import Fir.Proofs.FixedLemmas
import Mathlib.Tactic.Ring
import Mathlib.Tactic.Linarith

set_option linter.unnecessarySeqFocus false
set_option linter.unreachableTactic false
set_option linter.unusedTactic false

namespace Fir.Proofs
open Fir Fir.SimdU8x4 Fir.Gen

/-! ### arithmetic of lanes -/

theorem i16_byte (a : Int) : i16pair (a % 256) 0 = a % 256 := by
  unfold i16pair; simp only; split <;> omega

theorem i16_zero : i16pair 0 0 = 0 := by decide

theorem i16_lohi (k : Int) : i16pair (k % 256) (k / 256 % 256) = wrap16 k := by
  unfold i16pair wrap16; simp only; split <;> omega

theorem wrap16_idem (k : Int) : wrap16 (wrap16 k) = wrap16 k := by unfold wrap16; omega

theorem w32_add_left (a b : Int) : wrap32 (wrap32 a + b) = wrap32 (a + b) := wrapInt_add 32 a b

theorem w32_add_right (a b : Int) : wrap32 (a + wrap32 b) = wrap32 (a + b) := by
  rw [add_comm, w32_add_left, add_comm]

theorem w32_range (a : Int) : -(2 ^ 31 : Int) ≤ wrap32 a ∧ wrap32 a < 2 ^ 31 := by
  unfold wrap32 wrapInt; simp only; split <;> omega

theorem w32_idem (a : Int) : wrap32 (wrap32 a) = wrap32 a := by
  have := w32_add_left a 0; simpa using this

/-! ### the four kinds of steps -/

theorem acc8_eq (t0 t1 t2 t3 : Int) (row : List Int) (x : Nat) (k0 k1 k2 k3 k4 k5 k6 k7 : Int) :
    acc8 [wrap32 t0, wrap32 t1, wrap32 t2, wrap32 t3] row x [k0, k1, k2, k3, k4, k5, k6, k7]
      = [wrap32 (t0 + dotC row 0 [k0, k1, k2, k3, k4, k5, k6, k7] x), wrap32 (t1 + dotC row 1 [k0, k1, k2, k3, k4, k5, k6, k7] x),
         wrap32 (t2 + dotC row 2 [k0, k1, k2, k3, k4, k5, k6, k7] x), wrap32 (t3 + dotC row 3 [k0, k1, k2, k3, k4, k5, k6, k7] x)] := by
  simp only [acc8, add32, madd, pshufb, i16At, srcBytes, kBytes, u8x4_sse4_sh1, u8x4_sse4_sh2, u8x4_sse4_sh3, u8x4_sse4_sh4,
    u8x4_sse4_sh5, u8x4_sse4_sh6, List.range, List.range.loop, List.map, List.flatMap_cons, List.flatMap_nil, List.append_nil,
    List.cons_append, List.nil_append, List.getD_cons_succ, List.getD_cons_zero, List.zipWith, dotC]
  simp [i16_byte, i16_lohi, w32_add_left, w32_add_right]
  refine ⟨?_, ?_, ?_, ?_⟩ <;> (congr 1 <;> ring_nf)

theorem acc4_eq (t0 t1 t2 t3 : Int) (row : List Int) (x : Nat) (k0 k1 k2 k3 : Int) :
    acc4 [wrap32 t0, wrap32 t1, wrap32 t2, wrap32 t3] row x [k0, k1, k2, k3]
      = [wrap32 (t0 + dotC row 0 [k0, k1, k2, k3] x), wrap32 (t1 + dotC row 1 [k0, k1, k2, k3] x),
         wrap32 (t2 + dotC row 2 [k0, k1, k2, k3] x), wrap32 (t3 + dotC row 3 [k0, k1, k2, k3] x)] := by
  simp only [acc4, low64, add32, madd, pshufb, i16At, srcBytes, kBytes, u8x4_sse4_sh1, u8x4_sse4_sh2, u8x4_sse4_sh3, u8x4_sse4_sh4,
    List.range, List.range.loop, List.map, List.flatMap_cons, List.flatMap_nil, List.append_nil, List.replicate,
    List.cons_append, List.nil_append, List.getD_cons_succ, List.getD_cons_zero, List.zipWith, dotC]
  simp [i16_byte, i16_lohi, w32_add_left, w32_add_right]
  refine ⟨?_, ?_, ?_, ?_⟩ <;> (congr 1 <;> ring_nf)

theorem acc2_eq (t0 t1 t2 t3 : Int) (row : List Int) (x : Nat) (k0 k1 : Int) :
    acc2 [wrap32 t0, wrap32 t1, wrap32 t2, wrap32 t3] row x [k0, k1]
      = [wrap32 (t0 + dotC row 0 [k0, k1] x), wrap32 (t1 + dotC row 1 [k0, k1] x),
         wrap32 (t2 + dotC row 2 [k0, k1] x), wrap32 (t3 + dotC row 3 [k0, k1] x)] := by
  simp only [acc2, low64, add32, madd, pshufb, i16At, srcBytes, kBytes, u8x4_sse4_sh7,
    List.range, List.range.loop, List.map, List.flatMap_cons, List.flatMap_nil, List.append_nil, List.replicate,
    List.cons_append, List.nil_append, List.getD_cons_succ, List.getD_cons_zero, List.zipWith, dotC]
  simp [i16_byte, i16_lohi, w32_add_left, w32_add_right]
  refine ⟨?_, ?_, ?_, ?_⟩ <;> (congr 1 <;> ring_nf)

theorem acc1_eq (t0 t1 t2 t3 : Int) (row : List Int) (x : Nat) (k : Int) :
    acc1 [wrap32 t0, wrap32 t1, wrap32 t2, wrap32 t3] row x k
      = [wrap32 (t0 + dotC row 0 [k] x), wrap32 (t1 + dotC row 1 [k] x),
         wrap32 (t2 + dotC row 2 [k] x), wrap32 (t3 + dotC row 3 [k] x)] := by
  have hk : i16pair (wrap16 k % 256) (wrap16 k / 256 % 256) = wrap16 k := by rw [i16_lohi, wrap16_idem]
  simp only [acc1, add32, madd, i16At, srcBytes,
    List.range, List.range.loop, List.map,
    List.cons_append, List.nil_append, List.getD_cons_succ, List.getD_cons_zero, List.zipWith, dotC]
  simp [i16_byte, i16_zero, hk, w32_add_left, w32_add_right]

/-! ### the remainder and the loop -/

theorem dotC_append (row : List Int) (c : Nat) (a b : List Int) (x : Nat) :
    dotC row c (a ++ b) x = dotC row c a x + dotC row c b (x + a.length) := by
  induction a generalizing x with
  | nil => simp [dotC]
  | cons k a ih =>
    simp only [List.cons_append, dotC, ih, List.length_cons]
    have : x + 1 + a.length = x + (a.length + 1) := by omega
    rw [this]; ring

theorem tail0 (s row : List Int) (x : Nat) : tail s row x [] = s := rfl
theorem tail1 (s row : List Int) (x : Nat) (k0 : Int) : tail s row x [k0] = acc1 s row x k0 := rfl
theorem tail2 (s row : List Int) (x : Nat) (k0 k1 : Int) : tail s row x [k0, k1] = acc2 s row x [k0, k1] := rfl
theorem tail3 (s row : List Int) (x : Nat) (k0 k1 k2 : Int) :
    tail s row x [k0, k1, k2] = acc1 (acc2 s row x [k0, k1]) row (x + 2) k2 := rfl
theorem tail4 (s row : List Int) (x : Nat) (k0 k1 k2 k3 : Int) : tail s row x [k0, k1, k2, k3] = acc4 s row x [k0, k1, k2, k3] := rfl
theorem tail5 (s row : List Int) (x : Nat) (k0 k1 k2 k3 k4 : Int) :
    tail s row x [k0, k1, k2, k3, k4] = acc1 (acc4 s row x [k0, k1, k2, k3]) row (x + 4) k4 := rfl
theorem tail6 (s row : List Int) (x : Nat) (k0 k1 k2 k3 k4 k5 : Int) :
    tail s row x [k0, k1, k2, k3, k4, k5] = acc2 (acc4 s row x [k0, k1, k2, k3]) row (x + 4) [k4, k5] := rfl
theorem tail7 (s row : List Int) (x : Nat) (k0 k1 k2 k3 k4 k5 k6 : Int) :
    tail s row x [k0, k1, k2, k3, k4, k5, k6]
      = acc1 (acc2 (acc4 s row x [k0, k1, k2, k3]) row (x + 4) [k4, k5]) row (x + 4 + 2) k6 := rfl

theorem tail_eq (t0 t1 t2 t3 : Int) (row : List Int) (x : Nat) (ks : List Int) (hlen : ks.length < 8) :
    tail [wrap32 t0, wrap32 t1, wrap32 t2, wrap32 t3] row x ks
      = [wrap32 (t0 + dotC row 0 ks x), wrap32 (t1 + dotC row 1 ks x),
         wrap32 (t2 + dotC row 2 ks x), wrap32 (t3 + dotC row 3 ks x)] := by
  match ks, hlen with
  | [], _ => simp [tail0, dotC]
  | [k0], _ => rw [tail1, acc1_eq]
  | [k0, k1], _ => rw [tail2, acc2_eq]
  | [k0, k1, k2], _ =>
    have e : ∀ c, dotC row c [k0, k1, k2] x = dotC row c [k0, k1] x + dotC row c [k2] (x + 2) :=
      fun c => by simpa using dotC_append row c [k0, k1] [k2] x
    rw [tail3, acc2_eq, acc1_eq]; simp only [e, add_assoc]
  | [k0, k1, k2, k3], _ => rw [tail4, acc4_eq]
  | [k0, k1, k2, k3, k4], _ =>
    have e : ∀ c, dotC row c [k0, k1, k2, k3, k4] x = dotC row c [k0, k1, k2, k3] x + dotC row c [k4] (x + 4) :=
      fun c => by simpa using dotC_append row c [k0, k1, k2, k3] [k4] x
    rw [tail5, acc4_eq, acc1_eq]; simp only [e, add_assoc]
  | [k0, k1, k2, k3, k4, k5], _ =>
    have e : ∀ c, dotC row c [k0, k1, k2, k3, k4, k5] x = dotC row c [k0, k1, k2, k3] x + dotC row c [k4, k5] (x + 4) :=
      fun c => by simpa using dotC_append row c [k0, k1, k2, k3] [k4, k5] x
    rw [tail6, acc4_eq, acc2_eq]; simp only [e, add_assoc]
  | [k0, k1, k2, k3, k4, k5, k6], _ =>
    have e : ∀ c, dotC row c [k0, k1, k2, k3, k4, k5, k6] x
        = dotC row c [k0, k1, k2, k3] x + (dotC row c [k4, k5] (x + 4) + dotC row c [k6] (x + 4 + 2)) := fun c => by
      have h1 := dotC_append row c [k0, k1, k2, k3] [k4, k5, k6] x
      have h2 := dotC_append row c [k4, k5] [k6] (x + 4)
      simp only [List.cons_append, List.nil_append, List.length_cons, List.length_nil] at h1 h2
      rw [h1, h2]
    rw [tail7, acc4_eq, acc2_eq, acc1_eq]; simp only [e, add_assoc]
  | _ :: _ :: _ :: _ :: _ :: _ :: _ :: _ :: _, h => exfalso; simp at h; omega

theorem loop_eq (row : List Int) (ks : List Int) : ∀ (x : Nat) (t0 t1 t2 t3 : Int),
    loop row ks x [wrap32 t0, wrap32 t1, wrap32 t2, wrap32 t3]
      = [wrap32 (t0 + dotC row 0 ks x), wrap32 (t1 + dotC row 1 ks x),
         wrap32 (t2 + dotC row 2 ks x), wrap32 (t3 + dotC row 3 ks x)] := by
  induction hn : ks.length using Nat.strong_induction_on generalizing ks with
  | _ n ih =>
    intro x t0 t1 t2 t3
    rw [loop]
    split
    · rename_i h8
      -- ks = k0 :: ... :: k7 :: rest
      match ks, h8, hn with
      | k0 :: k1 :: k2 :: k3 :: k4 :: k5 :: k6 :: k7 :: rest, _, hn =>
        simp only [List.take, List.drop, acc8_eq]
        have hrest : rest.length < n := by simp at hn; omega
        rw [ih rest.length hrest rest rfl]
        have e : ∀ c, dotC row c (k0 :: k1 :: k2 :: k3 :: k4 :: k5 :: k6 :: k7 :: rest) x
            = dotC row c [k0, k1, k2, k3, k4, k5, k6, k7] x + dotC row c rest (x + 8) := by
          intro c
          have := dotC_append row c [k0, k1, k2, k3, k4, k5, k6, k7] rest x
          simpa using this
        simp only [e]
        refine (List.cons.injEq _ _ _ _).mpr ⟨?_, (List.cons.injEq _ _ _ _).mpr ⟨?_, (List.cons.injEq _ _ _ _).mpr ⟨?_, (List.cons.injEq _ _ _ _).mpr ⟨?_, rfl⟩⟩⟩⟩ <;>
          (congr 1; ring)
    · rename_i h8
      exact tail_eq t0 t1 t2 t3 row x ks (by omega)

/-! ### one destination pixel -/

theorem clip8_wrap (t : Int) (p : Nat) : clip8 (wrap32 t) p = clip8 t p := by
  unfold clip8; rw [show Gen.wrapInt 32 (wrap32 t) = Gen.wrapInt 32 t from w32_idem t]

theorem lane_finish (t : Int) (p : Nat) (hp : p < 32) : packus8 (packs16 (wrap32 t / 2 ^ p)) = clip8 t p := by
  rw [← clip8_wrap, clip8_eq_packs (wrap32 t) p hp (w32_range t)]
  rfl

/-- **the SSE4.1 U8x4 one-row kernel equals the portable kernel**, byte for byte, for every precision the
    dispatch can select, every coefficient list (any length: every 8 / 4 / 2 / 1 remainder branch) and every
    source row -/
theorem u8x4_sse4_pixel_eq_portable (p : Nat) (hp : p < 32) (row : List Int) (start : Nat) (ks : List Int) :
    pixel p row start ks = [clip8 (2 ^ (p - 1) + dotC row 0 ks start) p, clip8 (2 ^ (p - 1) + dotC row 1 ks start) p,
                            clip8 (2 ^ (p - 1) + dotC row 2 ks start) p, clip8 (2 ^ (p - 1) + dotC row 3 ks start) p] := by
  unfold pixel
  simp only
  rw [loop_eq]
  simp only [List.map, lane_finish _ p hp]

/-! ### the four-row kernel (per row) -/

theorem acc4r_eq (t0 t1 t2 t3 : Int) (row : List Int) (x : Nat) (k0 k1 k2 k3 : Int) :
    acc4r [wrap32 t0, wrap32 t1, wrap32 t2, wrap32 t3] row x k0 k1 k2 k3
      = [wrap32 (t0 + dotC row 0 [k0, k1, k2, k3] x), wrap32 (t1 + dotC row 1 [k0, k1, k2, k3] x),
         wrap32 (t2 + dotC row 2 [k0, k1, k2, k3] x), wrap32 (t3 + dotC row 3 [k0, k1, k2, k3] x)] := by
  simp only [acc4r, clone4, add32, madd, pshufb, i16At, srcBytes, kBytes, u8x4_sse4_four_mask_lo, u8x4_sse4_four_mask_hi,
    List.range, List.range.loop, List.map, List.flatMap_cons, List.flatMap_nil, List.append_nil,
    List.cons_append, List.nil_append, List.getD_cons_succ, List.getD_cons_zero, List.zipWith, dotC]
  simp [i16_byte, i16_lohi, w32_add_left, w32_add_right]
  refine ⟨?_, ?_, ?_, ?_⟩ <;> (congr 1 <;> ring_nf)

theorem acc2r_eq (t0 t1 t2 t3 : Int) (row : List Int) (x : Nat) (k0 k1 : Int) :
    acc2r [wrap32 t0, wrap32 t1, wrap32 t2, wrap32 t3] row x k0 k1
      = [wrap32 (t0 + dotC row 0 [k0, k1] x), wrap32 (t1 + dotC row 1 [k0, k1] x),
         wrap32 (t2 + dotC row 2 [k0, k1] x), wrap32 (t3 + dotC row 3 [k0, k1] x)] := by
  simp only [acc2r, clone4, low64, add32, madd, pshufb, i16At, srcBytes, kBytes, u8x4_sse4_four_mask,
    List.range, List.range.loop, List.map, List.flatMap_cons, List.flatMap_nil, List.append_nil, List.replicate,
    List.cons_append, List.nil_append, List.getD_cons_succ, List.getD_cons_zero, List.zipWith, dotC]
  simp [i16_byte, i16_lohi, w32_add_left, w32_add_right]
  refine ⟨?_, ?_, ?_, ?_⟩ <;> (congr 1 <;> ring_nf)

theorem tailR_eq (t0 t1 t2 t3 : Int) (row : List Int) (x : Nat) (ks : List Int) (hlen : ks.length < 4) :
    tailR [wrap32 t0, wrap32 t1, wrap32 t2, wrap32 t3] row x ks
      = [wrap32 (t0 + dotC row 0 ks x), wrap32 (t1 + dotC row 1 ks x),
         wrap32 (t2 + dotC row 2 ks x), wrap32 (t3 + dotC row 3 ks x)] := by
  match ks, hlen with
  | [], _ => simp [tailR, dotC]
  | [k0], _ => simp only [tailR]; rw [acc1_eq]
  | [k0, k1], _ => simp only [tailR]; rw [acc2r_eq]
  | [k0, k1, k2], _ =>
    have e : ∀ c, dotC row c [k0, k1, k2] x = dotC row c [k0, k1] x + dotC row c [k2] (x + 2) :=
      fun c => by simpa using dotC_append row c [k0, k1] [k2] x
    simp only [tailR]; rw [acc2r_eq, acc1_eq]; simp only [e, add_assoc]
  | _ :: _ :: _ :: _ :: _, h => exfalso; simp at h; omega

theorem loopR_eq (row : List Int) (ks : List Int) : ∀ (x : Nat) (t0 t1 t2 t3 : Int),
    loopR row ks x [wrap32 t0, wrap32 t1, wrap32 t2, wrap32 t3]
      = [wrap32 (t0 + dotC row 0 ks x), wrap32 (t1 + dotC row 1 ks x),
         wrap32 (t2 + dotC row 2 ks x), wrap32 (t3 + dotC row 3 ks x)] := by
  induction hn : ks.length using Nat.strong_induction_on generalizing ks with
  | _ n ih =>
    intro x t0 t1 t2 t3
    match ks, hn with
    | k0 :: k1 :: k2 :: k3 :: rest, hn =>
      simp only [loopR]
      rw [acc4r_eq]
      have hrest : rest.length < n := by simp at hn; omega
      rw [ih rest.length hrest rest rfl]
      have e : ∀ c, dotC row c (k0 :: k1 :: k2 :: k3 :: rest) x
          = dotC row c [k0, k1, k2, k3] x + dotC row c rest (x + 4) := by
        intro c
        have := dotC_append row c [k0, k1, k2, k3] rest x
        simpa using this
      simp only [e, add_assoc]
    | [], _ => simp only [loopR]; exact tailR_eq t0 t1 t2 t3 row x [] (by simp)
    | [k0], _ => simp only [loopR]; exact tailR_eq t0 t1 t2 t3 row x [k0] (by simp)
    | [k0, k1], _ => simp only [loopR]; exact tailR_eq t0 t1 t2 t3 row x [k0, k1] (by simp)
    | [k0, k1, k2], _ => simp only [loopR]; exact tailR_eq t0 t1 t2 t3 row x [k0, k1, k2] (by simp)

/-- **each row of the SSE4.1 U8x4 four-row kernel equals the portable kernel**, byte for byte -/
theorem u8x4_sse4_four_rows_pixel_eq_portable (p : Nat) (hp : p < 32) (row : List Int) (start : Nat) (ks : List Int) :
    pixelR p row start ks = [clip8 (2 ^ (p - 1) + dotC row 0 ks start) p, clip8 (2 ^ (p - 1) + dotC row 1 ks start) p,
                             clip8 (2 ^ (p - 1) + dotC row 2 ks start) p, clip8 (2 ^ (p - 1) + dotC row 3 ks start) p] := by
  unfold pixelR
  simp only
  rw [loopR_eq]
  simp only [List.map, lane_finish _ p hp]

/-- hence both kernels of the pass - four-row blocks and leftover rows - store the same bytes for the same row -/
theorem u8x4_sse4_four_rows_eq_one_row (p : Nat) (hp : p < 32) (row : List Int) (start : Nat) (ks : List Int) :
    pixelR p row start ks = pixel p row start ks := by
  rw [u8x4_sse4_four_rows_pixel_eq_portable p hp, u8x4_sse4_pixel_eq_portable p hp]

/-! ### in the vocabulary of the portable model: `Fir.passInt` on the window of source samples -/

theorem dotC_eq_dotL (row : List Int) (c : Nat) (ks : List Int) (x : Nat)
    (hk : ∀ k ∈ ks, -32768 ≤ k ∧ k ≤ 32767) (hb : ∀ i, 0 ≤ row.getD i 0 ∧ row.getD i 0 ≤ 255) :
    dotC row c ks x = dotL ks ((List.range ks.length).map fun i => row.getD (4 * (x + i) + c) 0) := by
  induction ks generalizing x with
  | nil => simp [dotC, dotL]
  | cons k ks ih =>
    have hk0 := hk k (List.mem_cons_self ..)
    have hw : wrap16 k = k := by unfold wrap16; omega
    have hbyte : row.getD (4 * x + c) 0 % 256 = row.getD (4 * x + c) 0 := by
      have := hb (4 * x + c); omega
    simp only [dotC, List.length_cons, List.range_succ_eq_map, List.map_cons, List.map_map]
    rw [dotL_cons, ih (x + 1) (fun k' hk' => hk k' (List.mem_cons_of_mem _ hk')), hw, hbyte]
    have e : ((fun i => row.getD (4 * (x + i) + c) 0) ∘ Nat.succ) = fun i => row.getD (4 * (x + 1 + i) + c) 0 := by
      funext i; simp only [Function.comp, Nat.succ_eq_add_one]; congr 2; omega
    rw [e]
    simp only [Nat.add_zero]
    ring

/-- channel `c` of the pixel the SIMD kernel stores is `Fir.passInt .u8` - the arithmetic of the portable
    kernel that every C01 / C10 / C18 theorem is about - applied to the same coefficients and samples -/
theorem u8x4_sse4_pixel_eq_passInt (p : Nat) (hp : p < 32) (row : List Int) (start : Nat) (ks : List Int) (c : Nat) (hc : c < 4)
    (hk : ∀ k ∈ ks, -32768 ≤ k ∧ k ≤ 32767) (hb : ∀ i, 0 ≤ row.getD i 0 ∧ row.getD i 0 ≤ 255) :
    (pixel p row start ks).getD c 0
      = passInt .u8 ks ((List.range ks.length).map fun i => row.getD (4 * (start + i) + c) 0) p := by
  rw [u8x4_sse4_pixel_eq_portable p hp row start ks]
  unfold passInt
  simp only
  rw [← dotC_eq_dotL row c ks start hk hb]
  match c, hc with
  | 0, _ => rfl
  | 1, _ => rfl
  | 2, _ => rfl
  | 3, _ => rfl

/-! ### the AVX2 one-row kernel -/

theorem acc8A_eq (a0 a1 a2 a3 b0 b1 b2 b3 : Int) (row : List Int) (x : Nat) (k0 k1 k2 k3 k4 k5 k6 k7 : Int) :
    acc8A ([wrap32 a0, wrap32 a1, wrap32 a2, wrap32 a3], [wrap32 b0, wrap32 b1, wrap32 b2, wrap32 b3]) row x [k0, k1, k2, k3, k4, k5, k6, k7]
      = ([wrap32 (a0 + dotC row 0 [k0, k1, k2, k3] x), wrap32 (a1 + dotC row 1 [k0, k1, k2, k3] x),
          wrap32 (a2 + dotC row 2 [k0, k1, k2, k3] x), wrap32 (a3 + dotC row 3 [k0, k1, k2, k3] x)],
         [wrap32 (b0 + dotC row 0 [k4, k5, k6, k7] (x + 4)), wrap32 (b1 + dotC row 1 [k4, k5, k6, k7] (x + 4)),
          wrap32 (b2 + dotC row 2 [k4, k5, k6, k7] (x + 4)), wrap32 (b3 + dotC row 3 [k4, k5, k6, k7] (x + 4))]) := by
  simp only [acc8A, add32, madd, pshufb, i16At, srcBytes, kBytes, u8x4_avx2_one_sh1_lo, u8x4_avx2_one_sh1_hi, u8x4_avx2_one_sh2_lo,
    u8x4_avx2_one_sh2_hi, u8x4_avx2_one_sh3_lo, u8x4_avx2_one_sh3_hi, u8x4_avx2_one_sh4_lo, u8x4_avx2_one_sh4_hi,
    List.range, List.range.loop, List.map, List.flatMap_cons, List.flatMap_nil, List.append_nil,
    List.cons_append, List.nil_append, List.getD_cons_succ, List.getD_cons_zero, List.zipWith, dotC]
  simp [i16_byte, i16_lohi, w32_add_left, w32_add_right]
  refine ⟨⟨?_, ?_, ?_, ?_⟩, ?_, ?_, ?_, ?_⟩ <;> (congr 1 <;> ring_nf)

theorem acc4A_eq (a0 a1 a2 a3 b0 b1 b2 b3 : Int) (row : List Int) (x : Nat) (k0 k1 k2 k3 : Int) :
    acc4A ([wrap32 a0, wrap32 a1, wrap32 a2, wrap32 a3], [wrap32 b0, wrap32 b1, wrap32 b2, wrap32 b3]) row x [k0, k1, k2, k3]
      = ([wrap32 (a0 + dotC row 0 [k0, k1] x), wrap32 (a1 + dotC row 1 [k0, k1] x),
          wrap32 (a2 + dotC row 2 [k0, k1] x), wrap32 (a3 + dotC row 3 [k0, k1] x)],
         [wrap32 (b0 + dotC row 0 [k2, k3] (x + 2)), wrap32 (b1 + dotC row 1 [k2, k3] (x + 2)),
          wrap32 (b2 + dotC row 2 [k2, k3] (x + 2)), wrap32 (b3 + dotC row 3 [k2, k3] (x + 2))]) := by
  simp only [acc4A, low64, add32, madd, pshufb, i16At, srcBytes, kBytes, u8x4_avx2_one_sh5_lo, u8x4_avx2_one_sh5_hi,
    u8x4_avx2_one_sh6_lo, u8x4_avx2_one_sh6_hi,
    List.range, List.range.loop, List.map, List.flatMap_cons, List.flatMap_nil, List.append_nil, List.replicate,
    List.cons_append, List.nil_append, List.getD_cons_succ, List.getD_cons_zero, List.zipWith, dotC]
  simp [i16_byte, i16_lohi, w32_add_left, w32_add_right]
  refine ⟨⟨?_, ?_, ?_, ?_⟩, ?_, ?_, ?_, ?_⟩ <;> (congr 1 <;> ring_nf)

theorem acc2A_eq (t0 t1 t2 t3 : Int) (row : List Int) (x : Nat) (k0 k1 : Int) :
    acc2A [wrap32 t0, wrap32 t1, wrap32 t2, wrap32 t3] row x k0 k1
      = [wrap32 (t0 + dotC row 0 [k0, k1] x), wrap32 (t1 + dotC row 1 [k0, k1] x),
         wrap32 (t2 + dotC row 2 [k0, k1] x), wrap32 (t3 + dotC row 3 [k0, k1] x)] := by
  simp only [acc2A, clone4, low64, add32, madd, pshufb, i16At, srcBytes, kBytes, u8x4_avx2_one_sh7,
    List.range, List.range.loop, List.map, List.flatMap_cons, List.flatMap_nil, List.append_nil, List.replicate,
    List.cons_append, List.nil_append, List.getD_cons_succ, List.getD_cons_zero, List.zipWith, dotC]
  simp [i16_byte, i16_lohi, w32_add_left, w32_add_right]
  refine ⟨?_, ?_, ?_, ?_⟩ <;> (congr 1 <;> ring_nf)

theorem loop2A_eq (row : List Int) : ∀ (n : Nat) (ks : List Int) (_hn : ks.length ≤ n) (x : Nat) (t0 t1 t2 t3 : Int),
    loop2A row ks x [wrap32 t0, wrap32 t1, wrap32 t2, wrap32 t3]
      = [wrap32 (t0 + dotC row 0 ks x), wrap32 (t1 + dotC row 1 ks x),
         wrap32 (t2 + dotC row 2 ks x), wrap32 (t3 + dotC row 3 ks x)] := by
  intro n
  induction n with
  | zero =>
    intro ks hn x t0 t1 t2 t3
    have : ks = [] := List.length_eq_zero_iff.mp (by omega)
    subst this
    simp [loop2A, dotC]
  | succ n ih =>
    intro ks hn x t0 t1 t2 t3
    match ks, hn with
    | [], _ => simp [loop2A, dotC]
    | [k], _ => simp only [loop2A]; rw [acc1_eq]
    | k0 :: k1 :: rest, hn =>
      simp only [loop2A]
      rw [acc2A_eq, ih rest (by simp at hn; omega)]
      have e : ∀ c, dotC row c (k0 :: k1 :: rest) x = dotC row c [k0, k1] x + dotC row c rest (x + 2) := by
        intro c
        have := dotC_append row c [k0, k1] rest x
        simpa using this
      simp only [e, add_assoc]

/-- the 8-coefficient loop: the two half accumulators together gain the dot product of the coefficients consumed -/
theorem loop8A_spec (row : List Int) : ∀ (n : Nat) (ks : List Int) (_hn : ks.length ≤ n) (x : Nat) (a0 a1 a2 a3 b0 b1 b2 b3 : Int),
    ∃ a0' a1' a2' a3' b0' b1' b2' b3' : Int,
      loop8A row ks x ([wrap32 a0, wrap32 a1, wrap32 a2, wrap32 a3], [wrap32 b0, wrap32 b1, wrap32 b2, wrap32 b3])
        = (([wrap32 a0', wrap32 a1', wrap32 a2', wrap32 a3'], [wrap32 b0', wrap32 b1', wrap32 b2', wrap32 b3']),
           x + 8 * (ks.length / 8), ks.drop (8 * (ks.length / 8))) ∧
      a0' + b0' = a0 + b0 + dotC row 0 (ks.take (8 * (ks.length / 8))) x ∧
      a1' + b1' = a1 + b1 + dotC row 1 (ks.take (8 * (ks.length / 8))) x ∧
      a2' + b2' = a2 + b2 + dotC row 2 (ks.take (8 * (ks.length / 8))) x ∧
      a3' + b3' = a3 + b3 + dotC row 3 (ks.take (8 * (ks.length / 8))) x := by
  intro n
  induction n with
  | zero =>
    intro ks hn x a0 a1 a2 a3 b0 b1 b2 b3
    have : ks = [] := List.length_eq_zero_iff.mp (by omega)
    subst this
    refine ⟨a0, a1, a2, a3, b0, b1, b2, b3, ?_, ?_, ?_, ?_, ?_⟩ <;> simp [loop8A, dotC]
  | succ n ih =>
    intro ks hn x a0 a1 a2 a3 b0 b1 b2 b3
    by_cases h8 : 8 ≤ ks.length
    · match ks, h8, hn with
      | k0 :: k1 :: k2 :: k3 :: k4 :: k5 :: k6 :: k7 :: rest, _, hn =>
        rw [loop8A, dif_pos (by simp)]
        simp only [List.take, List.drop]
        rw [acc8A_eq]
        obtain ⟨a0', a1', a2', a3', b0', b1', b2', b3', hrun, h0, h1, h2, h3⟩ :=
          ih rest (by simp at hn; omega) (x + 8) (a0 + dotC row 0 [k0, k1, k2, k3] x) (a1 + dotC row 1 [k0, k1, k2, k3] x)
            (a2 + dotC row 2 [k0, k1, k2, k3] x) (a3 + dotC row 3 [k0, k1, k2, k3] x)
            (b0 + dotC row 0 [k4, k5, k6, k7] (x + 4)) (b1 + dotC row 1 [k4, k5, k6, k7] (x + 4))
            (b2 + dotC row 2 [k4, k5, k6, k7] (x + 4)) (b3 + dotC row 3 [k4, k5, k6, k7] (x + 4))
        have hl : (k0 :: k1 :: k2 :: k3 :: k4 :: k5 :: k6 :: k7 :: rest).length / 8 = rest.length / 8 + 1 := by
          simp only [List.length_cons]; omega
        have hmul : 8 * (rest.length / 8 + 1) = 8 * (rest.length / 8) + 8 := by ring
        refine ⟨a0', a1', a2', a3', b0', b1', b2', b3', ?_, ?_, ?_, ?_, ?_⟩
        · rw [hrun, hl, hmul]
          simp only [List.drop_succ_cons, Nat.add_assoc]
          congr 2
          omega
        all_goals
          rw [hl, hmul]
          simp only [List.take_succ_cons]
          have e := fun c => dotC_append row c [k0, k1, k2, k3, k4, k5, k6, k7] (rest.take (8 * (rest.length / 8))) x
          have e4 := fun c => dotC_append row c [k0, k1, k2, k3] [k4, k5, k6, k7] x
          simp only [List.cons_append, List.nil_append, List.length_cons, List.length_nil] at e e4
        · rw [h0, e 0, e4 0]; ring
        · rw [h1, e 1, e4 1]; ring
        · rw [h2, e 2, e4 2]; ring
        · rw [h3, e 3, e4 3]; ring
    · have hdiv : ks.length / 8 = 0 := Nat.div_eq_of_lt (by omega)
      refine ⟨a0, a1, a2, a3, b0, b1, b2, b3, ?_, ?_, ?_, ?_, ?_⟩
      · rw [loop8A, dif_neg h8, hdiv]; simp
      all_goals (rw [hdiv]; simp [dotC])

theorem pow2_half (p : Nat) (hp2 : 2 ≤ p) : (2 : Int) ^ (p - 2) + 2 ^ (p - 2) = 2 ^ (p - 1) := by
  obtain ⟨q, rfl⟩ : ∃ q, p = q + 2 := ⟨p - 2, by omega⟩
  have : q + 2 - 1 = q + 1 := by omega
  rw [this]; simp only [Nat.add_sub_cancel]; rw [pow_succ]; ring

/-- **the AVX2 U8x4 one-row kernel equals the portable kernel**, byte for byte (precision at least 2: the kernel
    starts its two half accumulators at `1 << (PRECISION - 2)`) -/
theorem u8x4_avx2_pixel_eq_portable (p : Nat) (hp2 : 2 ≤ p) (hp : p < 32) (row : List Int) (start : Nat) (ks : List Int) :
    pixelA p row start ks = [clip8 (2 ^ (p - 1) + dotC row 0 ks start) p, clip8 (2 ^ (p - 1) + dotC row 1 ks start) p,
                             clip8 (2 ^ (p - 1) + dotC row 2 ks start) p, clip8 (2 ^ (p - 1) + dotC row 3 ks start) p] := by
  unfold pixelA
  by_cases hlen : ks.length < 8
  · simp only [hlen, if_true]
    rw [loop2A_eq row ks.length ks (le_refl _)]
    simp only [List.map, lane_finish _ p hp]
  · simp only [hlen, if_false]
    obtain ⟨a0, a1, a2, a3, b0, b1, b2, b3, hrun, h0, h1, h2, h3⟩ :=
      loop8A_spec row ks.length ks (le_refl _) start (2 ^ (p - 2)) (2 ^ (p - 2)) (2 ^ (p - 2)) (2 ^ (p - 2))
        (2 ^ (p - 2)) (2 ^ (p - 2)) (2 ^ (p - 2)) (2 ^ (p - 2))
    rw [hrun]
    simp only
    set m := 8 * (ks.length / 8) with hm
    have hmle : m ≤ ks.length := by omega
    have hrestlen : (ks.drop m).length < 8 := by simp only [List.length_drop]; omega
    have hsplit : ∀ c, dotC row c ks start = dotC row c (ks.take m) start + dotC row c (ks.drop m) (start + m) := by
      intro c
      have := dotC_append row c (ks.take m) (ks.drop m) start
      rw [List.take_append_drop, List.length_take, Nat.min_eq_left hmle] at this
      exact this
    have hh := pow2_half p hp2
    by_cases h4 : (ks.drop m).length ≥ 4
    · simp only [h4, if_true]
      generalize hrest : ks.drop m = rest at *
      match rest, h4, hrestlen with
      | r0 :: r1 :: r2 :: r3 :: rest', _, hl =>
        simp only [List.take, List.drop]
        rw [acc4A_eq]
        simp only [add32, List.zipWith, w32_add_left, w32_add_right]
        rw [loop2A_eq row rest'.length rest' (le_refl _)]
        simp only [List.map, lane_finish _ p hp]
        have e : ∀ c, dotC row c (r0 :: r1 :: r2 :: r3 :: rest') (start + m)
            = dotC row c [r0, r1] (start + m) + dotC row c [r2, r3] (start + m + 2) + dotC row c rest' (start + m + 4) := by
          intro c
          have e1 := dotC_append row c [r0, r1, r2, r3] rest' (start + m)
          have e2 := dotC_append row c [r0, r1] [r2, r3] (start + m)
          simp only [List.cons_append, List.nil_append, List.length_cons, List.length_nil] at e1 e2
          rw [e1, e2]
        refine (List.cons.injEq _ _ _ _).mpr ⟨?_, (List.cons.injEq _ _ _ _).mpr ⟨?_, (List.cons.injEq _ _ _ _).mpr ⟨?_, (List.cons.injEq _ _ _ _).mpr ⟨?_, rfl⟩⟩⟩⟩
        · congr 1; rw [hsplit 0, e 0]; linarith
        · congr 1; rw [hsplit 1, e 1]; linarith
        · congr 1; rw [hsplit 2, e 2]; linarith
        · congr 1; rw [hsplit 3, e 3]; linarith
    · simp only [h4, if_false]
      simp only [add32, List.zipWith, w32_add_left, w32_add_right]
      rw [loop2A_eq row (ks.drop m).length (ks.drop m) (le_refl _)]
      simp only [List.map, lane_finish _ p hp]
      refine (List.cons.injEq _ _ _ _).mpr ⟨?_, (List.cons.injEq _ _ _ _).mpr ⟨?_, (List.cons.injEq _ _ _ _).mpr ⟨?_, (List.cons.injEq _ _ _ _).mpr ⟨?_, rfl⟩⟩⟩⟩
      · congr 1; rw [hsplit 0]; linarith
      · congr 1; rw [hsplit 1]; linarith
      · congr 1; rw [hsplit 2]; linarith
      · congr 1; rw [hsplit 3]; linarith

end Fir.Proofs
