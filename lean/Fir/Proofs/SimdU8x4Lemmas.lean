/-
  Fir.Proofs.SimdU8x4Lemmas - the SSE4.1 U8x4 one-row horizontal kernel (`Fir.Model.SimdU8x4`, shuffle masks
  re-extracted from the source) computes exactly what the portable kernel computes: every 8 / 4 / 2 / 1
  coefficient step adds, to each of the four channel lanes, the dot product of its coefficients with the
  matching bytes of the source pixels (mod 2^32), for every coefficient list and every source row.
-/
import Fir.Model.SimdU8x4
import Fir.Model.Resample
import Fir.Proofs.FixedLemmas
import Mathlib.Tactic.Ring
import Mathlib.Tactic.Linarith

set_option linter.unnecessarySeqFocus false
set_option linter.unreachableTactic false
set_option linter.unusedTactic false

namespace Fir.Proofs
open Fir Fir.SimdU8x4 Fir.Gen

/-! ### arithmetic of lanes -/

theorem i16_byte (a : Int) : i16pair (a % 256) 0 = a % 256 := by
  unfold i16pair; simp only; split <;> omega

theorem i16_zero : i16pair 0 0 = 0 := by decide

theorem i16_lohi (k : Int) : i16pair (k % 256) (k / 256 % 256) = wrap16 k := by
  unfold i16pair wrap16; simp only; split <;> omega

theorem wrap16_idem (k : Int) : wrap16 (wrap16 k) = wrap16 k := by unfold wrap16; omega

theorem w32_add_left (a b : Int) : wrap32 (wrap32 a + b) = wrap32 (a + b) := wrapInt_add 32 a b

theorem w32_add_right (a b : Int) : wrap32 (a + wrap32 b) = wrap32 (a + b) := by
  rw [add_comm, w32_add_left, add_comm]

theorem w32_range (a : Int) : -(2 ^ 31 : Int) ≤ wrap32 a ∧ wrap32 a < 2 ^ 31 := by
  unfold wrap32 wrapInt; simp only; split <;> omega

theorem w32_idem (a : Int) : wrap32 (wrap32 a) = wrap32 a := by
  have := w32_add_left a 0; simpa using this

/-! ### the four kinds of steps -/

theorem acc8_eq (t0 t1 t2 t3 : Int) (row : List Int) (x : Nat) (k0 k1 k2 k3 k4 k5 k6 k7 : Int) :
    acc8 [wrap32 t0, wrap32 t1, wrap32 t2, wrap32 t3] row x [k0, k1, k2, k3, k4, k5, k6, k7]
      = [wrap32 (t0 + dotC row 0 [k0, k1, k2, k3, k4, k5, k6, k7] x), wrap32 (t1 + dotC row 1 [k0, k1, k2, k3, k4, k5, k6, k7] x),
         wrap32 (t2 + dotC row 2 [k0, k1, k2, k3, k4, k5, k6, k7] x), wrap32 (t3 + dotC row 3 [k0, k1, k2, k3, k4, k5, k6, k7] x)] := by
  simp only [acc8, add32, madd, pshufb, i16At, srcBytes, kBytes, u8x4_sse4_sh1, u8x4_sse4_sh2, u8x4_sse4_sh3, u8x4_sse4_sh4,
    u8x4_sse4_sh5, u8x4_sse4_sh6, List.range, List.range.loop, List.map, List.flatMap_cons, List.flatMap_nil, List.append_nil,
    List.cons_append, List.nil_append, List.getD_cons_succ, List.getD_cons_zero, List.zipWith, dotC]
  simp [i16_byte, i16_lohi, w32_add_left, w32_add_right]
  refine ⟨?_, ?_, ?_, ?_⟩ <;> (congr 1 <;> ring_nf)

theorem acc4_eq (t0 t1 t2 t3 : Int) (row : List Int) (x : Nat) (k0 k1 k2 k3 : Int) :
    acc4 [wrap32 t0, wrap32 t1, wrap32 t2, wrap32 t3] row x [k0, k1, k2, k3]
      = [wrap32 (t0 + dotC row 0 [k0, k1, k2, k3] x), wrap32 (t1 + dotC row 1 [k0, k1, k2, k3] x),
         wrap32 (t2 + dotC row 2 [k0, k1, k2, k3] x), wrap32 (t3 + dotC row 3 [k0, k1, k2, k3] x)] := by
  simp only [acc4, low64, add32, madd, pshufb, i16At, srcBytes, kBytes, u8x4_sse4_sh1, u8x4_sse4_sh2, u8x4_sse4_sh3, u8x4_sse4_sh4,
    List.range, List.range.loop, List.map, List.flatMap_cons, List.flatMap_nil, List.append_nil, List.replicate,
    List.cons_append, List.nil_append, List.getD_cons_succ, List.getD_cons_zero, List.zipWith, dotC]
  simp [i16_byte, i16_lohi, w32_add_left, w32_add_right]
  refine ⟨?_, ?_, ?_, ?_⟩ <;> (congr 1 <;> ring_nf)

theorem acc2_eq (t0 t1 t2 t3 : Int) (row : List Int) (x : Nat) (k0 k1 : Int) :
    acc2 [wrap32 t0, wrap32 t1, wrap32 t2, wrap32 t3] row x [k0, k1]
      = [wrap32 (t0 + dotC row 0 [k0, k1] x), wrap32 (t1 + dotC row 1 [k0, k1] x),
         wrap32 (t2 + dotC row 2 [k0, k1] x), wrap32 (t3 + dotC row 3 [k0, k1] x)] := by
  simp only [acc2, low64, add32, madd, pshufb, i16At, srcBytes, kBytes, u8x4_sse4_sh7,
    List.range, List.range.loop, List.map, List.flatMap_cons, List.flatMap_nil, List.append_nil, List.replicate,
    List.cons_append, List.nil_append, List.getD_cons_succ, List.getD_cons_zero, List.zipWith, dotC]
  simp [i16_byte, i16_lohi, w32_add_left, w32_add_right]
  refine ⟨?_, ?_, ?_, ?_⟩ <;> (congr 1 <;> ring_nf)

theorem acc1_eq (t0 t1 t2 t3 : Int) (row : List Int) (x : Nat) (k : Int) :
    acc1 [wrap32 t0, wrap32 t1, wrap32 t2, wrap32 t3] row x k
      = [wrap32 (t0 + dotC row 0 [k] x), wrap32 (t1 + dotC row 1 [k] x),
         wrap32 (t2 + dotC row 2 [k] x), wrap32 (t3 + dotC row 3 [k] x)] := by
  have hk : i16pair (wrap16 k % 256) (wrap16 k / 256 % 256) = wrap16 k := by rw [i16_lohi, wrap16_idem]
  simp only [acc1, add32, madd, i16At, srcBytes,
    List.range, List.range.loop, List.map,
    List.cons_append, List.nil_append, List.getD_cons_succ, List.getD_cons_zero, List.zipWith, dotC]
  simp [i16_byte, i16_zero, hk, w32_add_left, w32_add_right]

/-! ### the remainder and the loop -/

theorem dotC_append (row : List Int) (c : Nat) (a b : List Int) (x : Nat) :
    dotC row c (a ++ b) x = dotC row c a x + dotC row c b (x + a.length) := by
  induction a generalizing x with
  | nil => simp [dotC]
  | cons k a ih =>
    simp only [List.cons_append, dotC, ih, List.length_cons]
    have : x + 1 + a.length = x + (a.length + 1) := by omega
    rw [this]; ring

theorem tail0 (s row : List Int) (x : Nat) : tail s row x [] = s := rfl
theorem tail1 (s row : List Int) (x : Nat) (k0 : Int) : tail s row x [k0] = acc1 s row x k0 := rfl
theorem tail2 (s row : List Int) (x : Nat) (k0 k1 : Int) : tail s row x [k0, k1] = acc2 s row x [k0, k1] := rfl
theorem tail3 (s row : List Int) (x : Nat) (k0 k1 k2 : Int) :
    tail s row x [k0, k1, k2] = acc1 (acc2 s row x [k0, k1]) row (x + 2) k2 := rfl
theorem tail4 (s row : List Int) (x : Nat) (k0 k1 k2 k3 : Int) : tail s row x [k0, k1, k2, k3] = acc4 s row x [k0, k1, k2, k3] := rfl
theorem tail5 (s row : List Int) (x : Nat) (k0 k1 k2 k3 k4 : Int) :
    tail s row x [k0, k1, k2, k3, k4] = acc1 (acc4 s row x [k0, k1, k2, k3]) row (x + 4) k4 := rfl
theorem tail6 (s row : List Int) (x : Nat) (k0 k1 k2 k3 k4 k5 : Int) :
    tail s row x [k0, k1, k2, k3, k4, k5] = acc2 (acc4 s row x [k0, k1, k2, k3]) row (x + 4) [k4, k5] := rfl
theorem tail7 (s row : List Int) (x : Nat) (k0 k1 k2 k3 k4 k5 k6 : Int) :
    tail s row x [k0, k1, k2, k3, k4, k5, k6]
      = acc1 (acc2 (acc4 s row x [k0, k1, k2, k3]) row (x + 4) [k4, k5]) row (x + 4 + 2) k6 := rfl

theorem tail_eq (t0 t1 t2 t3 : Int) (row : List Int) (x : Nat) (ks : List Int) (hlen : ks.length < 8) :
    tail [wrap32 t0, wrap32 t1, wrap32 t2, wrap32 t3] row x ks
      = [wrap32 (t0 + dotC row 0 ks x), wrap32 (t1 + dotC row 1 ks x),
         wrap32 (t2 + dotC row 2 ks x), wrap32 (t3 + dotC row 3 ks x)] := by
  match ks, hlen with
  | [], _ => simp [tail0, dotC]
  | [k0], _ => rw [tail1, acc1_eq]
  | [k0, k1], _ => rw [tail2, acc2_eq]
  | [k0, k1, k2], _ =>
    have e : ∀ c, dotC row c [k0, k1, k2] x = dotC row c [k0, k1] x + dotC row c [k2] (x + 2) :=
      fun c => by simpa using dotC_append row c [k0, k1] [k2] x
    rw [tail3, acc2_eq, acc1_eq]; simp only [e, add_assoc]
  | [k0, k1, k2, k3], _ => rw [tail4, acc4_eq]
  | [k0, k1, k2, k3, k4], _ =>
    have e : ∀ c, dotC row c [k0, k1, k2, k3, k4] x = dotC row c [k0, k1, k2, k3] x + dotC row c [k4] (x + 4) :=
      fun c => by simpa using dotC_append row c [k0, k1, k2, k3] [k4] x
    rw [tail5, acc4_eq, acc1_eq]; simp only [e, add_assoc]
  | [k0, k1, k2, k3, k4, k5], _ =>
    have e : ∀ c, dotC row c [k0, k1, k2, k3, k4, k5] x = dotC row c [k0, k1, k2, k3] x + dotC row c [k4, k5] (x + 4) :=
      fun c => by simpa using dotC_append row c [k0, k1, k2, k3] [k4, k5] x
    rw [tail6, acc4_eq, acc2_eq]; simp only [e, add_assoc]
  | [k0, k1, k2, k3, k4, k5, k6], _ =>
    have e : ∀ c, dotC row c [k0, k1, k2, k3, k4, k5, k6] x
        = dotC row c [k0, k1, k2, k3] x + (dotC row c [k4, k5] (x + 4) + dotC row c [k6] (x + 4 + 2)) := fun c => by
      have h1 := dotC_append row c [k0, k1, k2, k3] [k4, k5, k6] x
      have h2 := dotC_append row c [k4, k5] [k6] (x + 4)
      simp only [List.cons_append, List.nil_append, List.length_cons, List.length_nil] at h1 h2
      rw [h1, h2]
    rw [tail7, acc4_eq, acc2_eq, acc1_eq]; simp only [e, add_assoc]
  | _ :: _ :: _ :: _ :: _ :: _ :: _ :: _ :: _, h => exfalso; simp at h; omega

theorem loop_eq (row : List Int) (ks : List Int) : ∀ (x : Nat) (t0 t1 t2 t3 : Int),
    loop row ks x [wrap32 t0, wrap32 t1, wrap32 t2, wrap32 t3]
      = [wrap32 (t0 + dotC row 0 ks x), wrap32 (t1 + dotC row 1 ks x),
         wrap32 (t2 + dotC row 2 ks x), wrap32 (t3 + dotC row 3 ks x)] := by
  induction hn : ks.length using Nat.strong_induction_on generalizing ks with
  | _ n ih =>
    intro x t0 t1 t2 t3
    rw [loop]
    split
    · rename_i h8
      -- ks = k0 :: ... :: k7 :: rest
      match ks, h8, hn with
      | k0 :: k1 :: k2 :: k3 :: k4 :: k5 :: k6 :: k7 :: rest, _, hn =>
        simp only [List.take, List.drop, acc8_eq]
        have hrest : rest.length < n := by simp at hn; omega
        rw [ih rest.length hrest rest rfl]
        have e : ∀ c, dotC row c (k0 :: k1 :: k2 :: k3 :: k4 :: k5 :: k6 :: k7 :: rest) x
            = dotC row c [k0, k1, k2, k3, k4, k5, k6, k7] x + dotC row c rest (x + 8) := by
          intro c
          have := dotC_append row c [k0, k1, k2, k3, k4, k5, k6, k7] rest x
          simpa using this
        simp only [e]
        refine (List.cons.injEq _ _ _ _).mpr ⟨?_, (List.cons.injEq _ _ _ _).mpr ⟨?_, (List.cons.injEq _ _ _ _).mpr ⟨?_, (List.cons.injEq _ _ _ _).mpr ⟨?_, rfl⟩⟩⟩⟩ <;>
          (congr 1; ring)
    · rename_i h8
      exact tail_eq t0 t1 t2 t3 row x ks (by omega)

/-! ### one destination pixel -/

theorem clip8_wrap (t : Int) (p : Nat) : clip8 (wrap32 t) p = clip8 t p := by
  unfold clip8; rw [show Gen.wrapInt 32 (wrap32 t) = Gen.wrapInt 32 t from w32_idem t]

theorem lane_finish (t : Int) (p : Nat) (hp : p < 32) : packus8 (packs16 (wrap32 t / 2 ^ p)) = clip8 t p := by
  rw [← clip8_wrap, clip8_eq_packs (wrap32 t) p hp (w32_range t)]
  rfl

/-- **the SSE4.1 U8x4 one-row kernel equals the portable kernel**, byte for byte, for every precision the
    dispatch can select, every coefficient list (any length: every 8 / 4 / 2 / 1 remainder branch) and every
    source row -/
theorem u8x4_sse4_pixel_eq_portable (p : Nat) (hp : p < 32) (row : List Int) (start : Nat) (ks : List Int) :
    pixel p row start ks = [clip8 (2 ^ (p - 1) + dotC row 0 ks start) p, clip8 (2 ^ (p - 1) + dotC row 1 ks start) p,
                            clip8 (2 ^ (p - 1) + dotC row 2 ks start) p, clip8 (2 ^ (p - 1) + dotC row 3 ks start) p] := by
  unfold pixel
  simp only
  rw [loop_eq]
  simp only [List.map, lane_finish _ p hp]

/-! ### the four-row kernel (per row) -/

theorem acc4r_eq (t0 t1 t2 t3 : Int) (row : List Int) (x : Nat) (k0 k1 k2 k3 : Int) :
    acc4r [wrap32 t0, wrap32 t1, wrap32 t2, wrap32 t3] row x k0 k1 k2 k3
      = [wrap32 (t0 + dotC row 0 [k0, k1, k2, k3] x), wrap32 (t1 + dotC row 1 [k0, k1, k2, k3] x),
         wrap32 (t2 + dotC row 2 [k0, k1, k2, k3] x), wrap32 (t3 + dotC row 3 [k0, k1, k2, k3] x)] := by
  simp only [acc4r, clone4, add32, madd, pshufb, i16At, srcBytes, kBytes, u8x4_sse4_four_mask_lo, u8x4_sse4_four_mask_hi,
    List.range, List.range.loop, List.map, List.flatMap_cons, List.flatMap_nil, List.append_nil,
    List.cons_append, List.nil_append, List.getD_cons_succ, List.getD_cons_zero, List.zipWith, dotC]
  simp [i16_byte, i16_lohi, w32_add_left, w32_add_right]
  refine ⟨?_, ?_, ?_, ?_⟩ <;> (congr 1 <;> ring_nf)

theorem acc2r_eq (t0 t1 t2 t3 : Int) (row : List Int) (x : Nat) (k0 k1 : Int) :
    acc2r [wrap32 t0, wrap32 t1, wrap32 t2, wrap32 t3] row x k0 k1
      = [wrap32 (t0 + dotC row 0 [k0, k1] x), wrap32 (t1 + dotC row 1 [k0, k1] x),
         wrap32 (t2 + dotC row 2 [k0, k1] x), wrap32 (t3 + dotC row 3 [k0, k1] x)] := by
  simp only [acc2r, clone4, low64, add32, madd, pshufb, i16At, srcBytes, kBytes, u8x4_sse4_four_mask,
    List.range, List.range.loop, List.map, List.flatMap_cons, List.flatMap_nil, List.append_nil, List.replicate,
    List.cons_append, List.nil_append, List.getD_cons_succ, List.getD_cons_zero, List.zipWith, dotC]
  simp [i16_byte, i16_lohi, w32_add_left, w32_add_right]
  refine ⟨?_, ?_, ?_, ?_⟩ <;> (congr 1 <;> ring_nf)

theorem tailR_eq (t0 t1 t2 t3 : Int) (row : List Int) (x : Nat) (ks : List Int) (hlen : ks.length < 4) :
    tailR [wrap32 t0, wrap32 t1, wrap32 t2, wrap32 t3] row x ks
      = [wrap32 (t0 + dotC row 0 ks x), wrap32 (t1 + dotC row 1 ks x),
         wrap32 (t2 + dotC row 2 ks x), wrap32 (t3 + dotC row 3 ks x)] := by
  match ks, hlen with
  | [], _ => simp [tailR, dotC]
  | [k0], _ => simp only [tailR]; rw [acc1_eq]
  | [k0, k1], _ => simp only [tailR]; rw [acc2r_eq]
  | [k0, k1, k2], _ =>
    have e : ∀ c, dotC row c [k0, k1, k2] x = dotC row c [k0, k1] x + dotC row c [k2] (x + 2) :=
      fun c => by simpa using dotC_append row c [k0, k1] [k2] x
    simp only [tailR]; rw [acc2r_eq, acc1_eq]; simp only [e, add_assoc]
  | _ :: _ :: _ :: _ :: _, h => exfalso; simp at h; omega

theorem loopR_eq (row : List Int) (ks : List Int) : ∀ (x : Nat) (t0 t1 t2 t3 : Int),
    loopR row ks x [wrap32 t0, wrap32 t1, wrap32 t2, wrap32 t3]
      = [wrap32 (t0 + dotC row 0 ks x), wrap32 (t1 + dotC row 1 ks x),
         wrap32 (t2 + dotC row 2 ks x), wrap32 (t3 + dotC row 3 ks x)] := by
  induction hn : ks.length using Nat.strong_induction_on generalizing ks with
  | _ n ih =>
    intro x t0 t1 t2 t3
    match ks, hn with
    | k0 :: k1 :: k2 :: k3 :: rest, hn =>
      simp only [loopR]
      rw [acc4r_eq]
      have hrest : rest.length < n := by simp at hn; omega
      rw [ih rest.length hrest rest rfl]
      have e : ∀ c, dotC row c (k0 :: k1 :: k2 :: k3 :: rest) x
          = dotC row c [k0, k1, k2, k3] x + dotC row c rest (x + 4) := by
        intro c
        have := dotC_append row c [k0, k1, k2, k3] rest x
        simpa using this
      simp only [e, add_assoc]
    | [], _ => simp only [loopR]; exact tailR_eq t0 t1 t2 t3 row x [] (by simp)
    | [k0], _ => simp only [loopR]; exact tailR_eq t0 t1 t2 t3 row x [k0] (by simp)
    | [k0, k1], _ => simp only [loopR]; exact tailR_eq t0 t1 t2 t3 row x [k0, k1] (by simp)
    | [k0, k1, k2], _ => simp only [loopR]; exact tailR_eq t0 t1 t2 t3 row x [k0, k1, k2] (by simp)

/-- **each row of the SSE4.1 U8x4 four-row kernel equals the portable kernel**, byte for byte -/
theorem u8x4_sse4_four_rows_pixel_eq_portable (p : Nat) (hp : p < 32) (row : List Int) (start : Nat) (ks : List Int) :
    pixelR p row start ks = [clip8 (2 ^ (p - 1) + dotC row 0 ks start) p, clip8 (2 ^ (p - 1) + dotC row 1 ks start) p,
                             clip8 (2 ^ (p - 1) + dotC row 2 ks start) p, clip8 (2 ^ (p - 1) + dotC row 3 ks start) p] := by
  unfold pixelR
  simp only
  rw [loopR_eq]
  simp only [List.map, lane_finish _ p hp]

/-- hence both kernels of the pass - four-row blocks and leftover rows - store the same bytes for the same row -/
theorem u8x4_sse4_four_rows_eq_one_row (p : Nat) (hp : p < 32) (row : List Int) (start : Nat) (ks : List Int) :
    pixelR p row start ks = pixel p row start ks := by
  rw [u8x4_sse4_four_rows_pixel_eq_portable p hp, u8x4_sse4_pixel_eq_portable p hp]

/-! ### in the vocabulary of the portable model: `Fir.passInt` on the window of source samples -/

theorem dotC_eq_dotL (row : List Int) (c : Nat) (ks : List Int) (x : Nat)
    (hk : ∀ k ∈ ks, -32768 ≤ k ∧ k ≤ 32767) (hb : ∀ i, 0 ≤ row.getD i 0 ∧ row.getD i 0 ≤ 255) :
    dotC row c ks x = dotL ks ((List.range ks.length).map fun i => row.getD (4 * (x + i) + c) 0) := by
  induction ks generalizing x with
  | nil => simp [dotC, dotL]
  | cons k ks ih =>
    have hk0 := hk k (List.mem_cons_self ..)
    have hw : wrap16 k = k := by unfold wrap16; omega
    have hbyte : row.getD (4 * x + c) 0 % 256 = row.getD (4 * x + c) 0 := by
      have := hb (4 * x + c); omega
    simp only [dotC, List.length_cons, List.range_succ_eq_map, List.map_cons, List.map_map]
    rw [dotL_cons, ih (x + 1) (fun k' hk' => hk k' (List.mem_cons_of_mem _ hk')), hw, hbyte]
    have e : ((fun i => row.getD (4 * (x + i) + c) 0) ∘ Nat.succ) = fun i => row.getD (4 * (x + 1 + i) + c) 0 := by
      funext i; simp only [Function.comp, Nat.succ_eq_add_one]; congr 2; omega
    rw [e]
    simp only [Nat.add_zero]
    ring

/-- channel `c` of the pixel the SIMD kernel stores is `Fir.passInt .u8` - the arithmetic of the portable
    kernel that every C01 / C10 / C18 theorem is about - applied to the same coefficients and samples -/
theorem u8x4_sse4_pixel_eq_passInt (p : Nat) (hp : p < 32) (row : List Int) (start : Nat) (ks : List Int) (c : Nat) (hc : c < 4)
    (hk : ∀ k ∈ ks, -32768 ≤ k ∧ k ≤ 32767) (hb : ∀ i, 0 ≤ row.getD i 0 ∧ row.getD i 0 ≤ 255) :
    (pixel p row start ks).getD c 0
      = passInt .u8 ks ((List.range ks.length).map fun i => row.getD (4 * (start + i) + c) 0) p := by
  rw [u8x4_sse4_pixel_eq_portable p hp row start ks]
  unfold passInt
  simp only
  rw [← dotC_eq_dotL row c ks start hk hb]
  match c, hc with
  | 0, _ => rfl
  | 1, _ => rfl
  | 2, _ => rfl
  | 3, _ => rfl

end Fir.Proofs
