/-
  Fir.Proofs.SimdU16x1Lemmas - the SSE4.1 horizontal kernels for single-channel 16-bit images (`Fir.Model.SimdU16x1`, masks
  from the source) equal the portable kernel.  `Step16` says what a piece of the kernel adds to the two 64-bit lanes: increments
  whose sum is the dot product of the coefficients consumed (mod 2^64 nothing is lost: all additions are wrapping `i64`
  additions, as in the portable kernel).  Pieces compose, so every remainder branch and the 8-loop follow from the four steps.
-/
import Fir.Model.SimdU16x1
import Fir.Model.Resample
import Fir.Proofs.SimdVertU16Lemmas
import Mathlib.Tactic.Ring
import Mathlib.Tactic.Linarith

set_option linter.unnecessarySeqFocus false
set_option linter.unreachableTactic false
set_option linter.unusedTactic false
set_option linter.unusedSimpArgs false

namespace Fir.Proofs.U16x1
open Fir Fir.SimdU16x1 Fir.Gen Fir.Proofs
open Fir.SimdU8x4 (wrap32 pshufb)
open Fir.SimdVertU16 (wrap64 s32 add64)

theorem s32_zero : s32 0 0 0 0 = 0 := by decide

theorem w64_idem (a : Int) : wrap64 (wrap64 a) = wrap64 a := by
  have := w64_add_left a 0; simpa using this

theorem w32_zero : wrap32 0 = 0 := by decide

theorem dot16_append (row : List Int) (a b : List Int) (x : Nat) :
    dot16 row (a ++ b) x = dot16 row a x + dot16 row b (x + a.length) := by
  induction a generalizing x with
  | nil => simp [dot16]
  | cons k a ih =>
    simp only [List.cons_append, dot16, ih, List.length_cons]
    have : x + 1 + a.length = x + (a.length + 1) := by omega
    rw [this]; ring

/-- what a piece `f` of the kernel does to the two lanes while consuming the coefficients `ks` at pixel `x` -/
def Step16 (row : List Int) (f : List Int → List Int) (ks : List Int) (x : Nat) : Prop :=
  ∀ a0 a1 : Int, ∃ e0 e1 : Int,
    f [wrap64 a0, wrap64 a1] = [wrap64 (a0 + e0), wrap64 (a1 + e1)] ∧ e0 + e1 = dot16 row ks x

theorem Step16.id (row : List Int) (x : Nat) : Step16 row (fun s => s) [] x := by
  intro a0 a1; exact ⟨0, 0, by simp, by simp [dot16]⟩

theorem Step16.comp {row : List Int} {f g : List Int → List Int} {ks1 ks2 : List Int} {x : Nat}
    (hf : Step16 row f ks1 x) (hg : Step16 row g ks2 (x + ks1.length)) :
    Step16 row (fun s => g (f s)) (ks1 ++ ks2) x := by
  intro a0 a1
  obtain ⟨e0, e1, hfe, hs⟩ := hf a0 a1
  obtain ⟨d0, d1, hge, hs'⟩ := hg (a0 + e0) (a1 + e1)
  refine ⟨e0 + d0, e1 + d1, ?_, ?_⟩
  · simp only [hfe, hge, add_assoc]
  · rw [dot16_append, ← hs, ← hs']; ring

/-! ### the four kinds of steps -/

theorem acc8_eq (a0 a1 : Int) (row : List Int) (x : Nat) (k0 k1 k2 k3 k4 k5 k6 k7 : Int) :
    acc8 [wrap64 a0, wrap64 a1] row x [k0, k1, k2, k3, k4, k5, k6, k7]
      = [wrap64 (a0 + (row.getD (x + 0) 0 % 65536 * wrap32 k0 + row.getD (x + 2) 0 % 65536 * wrap32 k2
                        + row.getD (x + 4) 0 % 65536 * wrap32 k4 + row.getD (x + 6) 0 % 65536 * wrap32 k6)),
         wrap64 (a1 + (row.getD (x + 1) 0 % 65536 * wrap32 k1 + row.getD (x + 3) 0 % 65536 * wrap32 k3
                        + row.getD (x + 5) 0 % 65536 * wrap32 k5 + row.getD (x + 7) 0 % 65536 * wrap32 k7))] := by
  simp only [acc8, src16, add64, mul2, pshufb, u16x1_sse4_l01, u16x1_sse4_l23, u16x1_sse4_l45, u16x1_sse4_l67,
    List.range, List.range.loop, List.map, List.flatMap_cons, List.flatMap_nil, List.append_nil, List.replicate,
    List.cons_append, List.nil_append, List.getD_cons_succ, List.getD_cons_zero, List.zipWith]
  simp [s32_u16, w64_add_left, w64_add_right]
  refine ⟨?_, ?_⟩ <;> (congr 1 <;> ring_nf)

theorem acc4_eq (a0 a1 : Int) (row : List Int) (x : Nat) (k0 k1 k2 k3 : Int) :
    acc4 [wrap64 a0, wrap64 a1] row x [k0, k1, k2, k3]
      = [wrap64 (a0 + (row.getD (x + 0) 0 % 65536 * wrap32 k0 + row.getD (x + 2) 0 % 65536 * wrap32 k2)),
         wrap64 (a1 + (row.getD (x + 1) 0 % 65536 * wrap32 k1 + row.getD (x + 3) 0 % 65536 * wrap32 k3))] := by
  simp only [acc4, src16, add64, mul2, pshufb, u16x1_sse4_l01, u16x1_sse4_l23,
    List.range, List.range.loop, List.map, List.flatMap_cons, List.flatMap_nil, List.append_nil, List.replicate,
    List.cons_append, List.nil_append, List.getD_cons_succ, List.getD_cons_zero, List.zipWith]
  simp [s32_u16, w64_add_left, w64_add_right]
  refine ⟨?_, ?_⟩ <;> (congr 1 <;> ring_nf)

theorem acc2_eq (a0 a1 : Int) (row : List Int) (x : Nat) (k0 k1 : Int) :
    acc2 [wrap64 a0, wrap64 a1] row x [k0, k1]
      = [wrap64 (a0 + row.getD (x + 0) 0 % 65536 * wrap32 k0), wrap64 (a1 + row.getD (x + 1) 0 % 65536 * wrap32 k1)] := by
  simp only [acc2, src16, add64, mul2, pshufb, u16x1_sse4_l01,
    List.range, List.range.loop, List.map, List.flatMap_cons, List.flatMap_nil, List.append_nil, List.replicate,
    List.cons_append, List.nil_append, List.getD_cons_succ, List.getD_cons_zero, List.zipWith]
  simp [s32_u16, w64_add_left, w64_add_right]

theorem acc1_eq (a0 a1 : Int) (row : List Int) (x : Nat) (k : Int) :
    acc1 [wrap64 a0, wrap64 a1] row x k
      = [wrap64 (a0 + row.getD (x + 0) 0 % 65536 * wrap32 k), wrap64 (a1 + 0)] := by
  simp only [acc1, src16, add64, mul2,
    List.range, List.range.loop, List.map, List.flatMap_cons, List.flatMap_nil, List.append_nil, List.replicate,
    List.cons_append, List.nil_append, List.getD_cons_succ, List.getD_cons_zero, List.zipWith]
  simp [s32_u16, s32_zero, w32_zero, w64_add_left, w64_add_right, w64_idem]

theorem step8 (row : List Int) (x : Nat) (k0 k1 k2 k3 k4 k5 k6 k7 : Int) :
    Step16 row (fun s => acc8 s row x [k0, k1, k2, k3, k4, k5, k6, k7]) [k0, k1, k2, k3, k4, k5, k6, k7] x := by
  intro a0 a1
  refine ⟨_, _, acc8_eq a0 a1 row x k0 k1 k2 k3 k4 k5 k6 k7, ?_⟩
  simp only [dot16] <;> ring_nf

theorem step4 (row : List Int) (x : Nat) (k0 k1 k2 k3 : Int) :
    Step16 row (fun s => acc4 s row x [k0, k1, k2, k3]) [k0, k1, k2, k3] x := by
  intro a0 a1
  refine ⟨_, _, acc4_eq a0 a1 row x k0 k1 k2 k3, ?_⟩
  simp only [dot16] <;> ring_nf

theorem step2 (row : List Int) (x : Nat) (k0 k1 : Int) :
    Step16 row (fun s => acc2 s row x [k0, k1]) [k0, k1] x := by
  intro a0 a1
  refine ⟨_, _, acc2_eq a0 a1 row x k0 k1, ?_⟩
  simp only [dot16] <;> ring_nf

theorem step1 (row : List Int) (x : Nat) (k : Int) :
    Step16 row (fun s => acc1 s row x k) [k] x := by
  intro a0 a1
  refine ⟨_, _, acc1_eq a0 a1 row x k, ?_⟩
  simp only [dot16] <;> ring_nf

/-! ### the remainder and the loop -/

theorem tail0 (s row : List Int) (x : Nat) : SimdU16x1.tail s row x [] = s := rfl
theorem tail1 (s row : List Int) (x : Nat) (k0 : Int) : SimdU16x1.tail s row x [k0] = acc1 s row x k0 := rfl
theorem tail2 (s row : List Int) (x : Nat) (k0 k1 : Int) : SimdU16x1.tail s row x [k0, k1] = acc2 s row x [k0, k1] := rfl
theorem tail3 (s row : List Int) (x : Nat) (k0 k1 k2 : Int) :
    SimdU16x1.tail s row x [k0, k1, k2] = acc1 (acc2 s row x [k0, k1]) row (x + 2) k2 := rfl
theorem tail4 (s row : List Int) (x : Nat) (k0 k1 k2 k3 : Int) :
    SimdU16x1.tail s row x [k0, k1, k2, k3] = acc4 s row x [k0, k1, k2, k3] := rfl
theorem tail5 (s row : List Int) (x : Nat) (k0 k1 k2 k3 k4 : Int) :
    SimdU16x1.tail s row x [k0, k1, k2, k3, k4] = acc1 (acc4 s row x [k0, k1, k2, k3]) row (x + 4) k4 := rfl
theorem tail6 (s row : List Int) (x : Nat) (k0 k1 k2 k3 k4 k5 : Int) :
    SimdU16x1.tail s row x [k0, k1, k2, k3, k4, k5] = acc2 (acc4 s row x [k0, k1, k2, k3]) row (x + 4) [k4, k5] := rfl
theorem tail7 (s row : List Int) (x : Nat) (k0 k1 k2 k3 k4 k5 k6 : Int) :
    SimdU16x1.tail s row x [k0, k1, k2, k3, k4, k5, k6]
      = acc1 (acc2 (acc4 s row x [k0, k1, k2, k3]) row (x + 4) [k4, k5]) row (x + 4 + 2) k6 := rfl

theorem tail_ok (row : List Int) (x : Nat) (ks : List Int) (hlen : ks.length < 8) :
    Step16 row (fun s => SimdU16x1.tail s row x ks) ks x := by
  match ks, hlen with
  | [], _ => exact Step16.id row x
  | [k0], _ => simpa only [tail1] using step1 row x k0
  | [k0, k1], _ => simpa only [tail2] using step2 row x k0 k1
  | [k0, k1, k2], _ =>
    have := Step16.comp (step2 row x k0 k1) (step1 row (x + 2) k2)
    simpa only [tail3, List.cons_append, List.nil_append] using this
  | [k0, k1, k2, k3], _ => simpa only [tail4] using step4 row x k0 k1 k2 k3
  | [k0, k1, k2, k3, k4], _ =>
    have := Step16.comp (step4 row x k0 k1 k2 k3) (step1 row (x + 4) k4)
    simpa only [tail5, List.cons_append, List.nil_append] using this
  | [k0, k1, k2, k3, k4, k5], _ =>
    have := Step16.comp (step4 row x k0 k1 k2 k3) (step2 row (x + 4) k4 k5)
    simpa only [tail6, List.cons_append, List.nil_append] using this
  | [k0, k1, k2, k3, k4, k5, k6], _ =>
    have := Step16.comp (Step16.comp (step4 row x k0 k1 k2 k3) (step2 row (x + 4) k4 k5)) (step1 row (x + 4 + 2) k6)
    simpa only [tail7, List.cons_append, List.nil_append] using this
  | _ :: _ :: _ :: _ :: _ :: _ :: _ :: _ :: _, h => exfalso; simp at h; omega

theorem loop_ok (row : List Int) (n : Nat) : ∀ (ks : List Int), ks.length ≤ n → ∀ x : Nat,
    Step16 row (fun s => SimdU16x1.loop row ks x s) ks x := by
  induction n with
  | zero =>
    intro ks hn x
    have : ks = [] := List.eq_nil_of_length_eq_zero (by omega)
    subst this
    have : (fun s => SimdU16x1.loop row [] x s) = fun s => s := by funext s; rw [SimdU16x1.loop]; simp [tail0]
    rw [this]; exact Step16.id row x
  | succ n ih =>
    intro ks hn x
    by_cases h8 : 8 ≤ ks.length
    · match ks, h8, hn with
      | k0 :: k1 :: k2 :: k3 :: k4 :: k5 :: k6 :: k7 :: rest, _, hn =>
        have hrest : rest.length ≤ n := by simp at hn; omega
        have hc := Step16.comp (step8 row x k0 k1 k2 k3 k4 k5 k6 k7) (ih rest hrest (x + 8))
        have e : (fun s => SimdU16x1.loop row (k0 :: k1 :: k2 :: k3 :: k4 :: k5 :: k6 :: k7 :: rest) x s)
            = fun s => SimdU16x1.loop row rest (x + 8) (acc8 s row x [k0, k1, k2, k3, k4, k5, k6, k7]) := by
          funext s; rw [SimdU16x1.loop]; simp
        rw [e]
        simpa using hc
    · have e : (fun s => SimdU16x1.loop row ks x s) = fun s => SimdU16x1.tail s row x ks := by
        funext s; rw [SimdU16x1.loop, dif_neg h8]
      rw [e]; exact tail_ok row x ks (by omega)

/-- **the SSE4.1 kernels for single-channel 16-bit images equal the portable kernel** (one row and each of four rows),
    for every precision, every coefficient list and every source row -/
theorem pixel_eq_portable (p : Nat) (row : List Int) (start : Nat) (ks : List Int) :
    SimdU16x1.pixel p row start ks = clip16 (2 ^ (p - 1) + dot16 row ks start) p := by
  unfold SimdU16x1.pixel
  simp only
  have h0 : ([0, 0] : List Int) = [wrap64 0, wrap64 0] := by decide
  rw [h0]
  obtain ⟨e0, e1, hrun, hs⟩ := loop_ok row ks.length ks (le_refl _) start 0 0
  beta_reduce at hrun
  rw [hrun]
  simp only [List.getD_cons_succ, List.getD_cons_zero, zero_add]
  unfold clip16
  apply congrArg (fun v => ((clip32 v p : Nat) : Int))
  apply wrapInt_congr
  have h1 : wrap64 e0 % 2 ^ 64 = e0 % 2 ^ 64 := wrapInt_emod 64 e0
  have h2 : wrap64 e1 % 2 ^ 64 = e1 % 2 ^ 64 := wrapInt_emod 64 e1
  have h3 : wrap64 (2 ^ (p - 1)) % 2 ^ 64 = 2 ^ (p - 1) % 2 ^ 64 := wrapInt_emod 64 (2 ^ (p - 1))
  have h4 : wrap64 (wrap64 e0 + wrap64 e1) % 2 ^ 64 = (wrap64 e0 + wrap64 e1) % 2 ^ 64 := wrapInt_emod 64 (wrap64 e0 + wrap64 e1)
  rw [← hs]
  generalize (2 : Int) ^ (p - 1) = c at *
  generalize wrap64 (wrap64 e0 + wrap64 e1) = s01 at *
  generalize wrap64 e0 = w0 at *
  generalize wrap64 e1 = w1 at *
  generalize wrap64 c = wc at *
  omega

end Fir.Proofs.U16x1
