/-
  Fir.Proofs.SimdU8x1ALemmas - the AVX2 kernels for single-channel 8-bit images (`Fir.Model.SimdU8x1A`) equal the portable kernel:
  each half of a 16-step is the SSE4.1 8-step (`acc8_eq1`), the eight lanes together gain the dot product of the coefficients
  consumed, and the wrapped horizontal sum of wrapped lanes is the wrapped total.
-/
import Fir.Model.SimdU8x1A
import Fir.Proofs.SimdU8x1Lemmas
import Mathlib.Tactic.Ring
import Mathlib.Tactic.Linarith

set_option linter.unnecessarySeqFocus false
set_option linter.unreachableTactic false
set_option linter.unusedTactic false
set_option linter.unusedSimpArgs false

namespace Fir.Proofs.U8x1A
open Fir Fir.SimdU8x1 Fir.SimdU8x1A Fir.Gen Fir.Proofs
open Fir.SimdU8x4 (wrap32 wrap16 add32)

def st (a0 a1 a2 a3 b0 b1 b2 b3 : Int) : St :=
  ([wrap32 a0, wrap32 a1, wrap32 a2, wrap32 a3], [wrap32 b0, wrap32 b1, wrap32 b2, wrap32 b3])

theorem acc16A_spec (a0 a1 a2 a3 b0 b1 b2 b3 : Int) (row : List Int) (x : Nat)
    (k0 k1 k2 k3 k4 k5 k6 k7 k8 k9 k10 k11 k12 k13 k14 k15 : Int) :
    ∃ u0 u1 u2 u3 v0 v1 v2 v3 : Int,
      acc16A (st a0 a1 a2 a3 b0 b1 b2 b3) row x [k0, k1, k2, k3, k4, k5, k6, k7, k8, k9, k10, k11, k12, k13, k14, k15]
        = st u0 u1 u2 u3 v0 v1 v2 v3 ∧
      u0 + u1 + u2 + u3 + v0 + v1 + v2 + v3
        = a0 + a1 + a2 + a3 + b0 + b1 + b2 + b3 + dot1 row [k0, k1, k2, k3, k4, k5, k6, k7, k8, k9, k10, k11, k12, k13, k14, k15] x := by
  obtain ⟨u0, u1, u2, u3, h1, hs1⟩ := acc8_eq1 a0 a1 a2 a3 row x k0 k1 k2 k3 k4 k5 k6 k7
  obtain ⟨v0, v1, v2, v3, h2, hs2⟩ := acc8_eq1 b0 b1 b2 b3 row (x + 8) k8 k9 k10 k11 k12 k13 k14 k15
  refine ⟨u0, u1, u2, u3, v0, v1, v2, v3, ?_, ?_⟩
  · simp only [acc16A, st, List.take, List.drop, h1, h2]
  · have := dot1_append row [k0, k1, k2, k3, k4, k5, k6, k7] [k8, k9, k10, k11, k12, k13, k14, k15] x
    simp only [List.cons_append, List.nil_append, List.length_cons, List.length_nil] at this
    rw [this]; linarith

theorem acc8A_spec (a0 a1 a2 a3 b0 b1 b2 b3 : Int) (row : List Int) (x : Nat) (k0 k1 k2 k3 k4 k5 k6 k7 : Int) :
    ∃ u0 u1 u2 u3 : Int,
      acc8A (st a0 a1 a2 a3 b0 b1 b2 b3) row x [k0, k1, k2, k3, k4, k5, k6, k7] = st u0 u1 u2 u3 b0 b1 b2 b3 ∧
      u0 + u1 + u2 + u3 = a0 + a1 + a2 + a3 + dot1 row [k0, k1, k2, k3, k4, k5, k6, k7] x := by
  obtain ⟨u0, u1, u2, u3, h1, hs1⟩ := acc8_eq1 a0 a1 a2 a3 row x k0 k1 k2 k3 k4 k5 k6 k7
  refine ⟨u0, u1, u2, u3, ?_, hs1⟩
  simp only [acc8A, st, h1, add32, List.zipWith, add_zero, w32_idem]

theorem loopA_spec (row : List Int) : ∀ (n : Nat) (ks : List Int) (_hn : ks.length ≤ n) (x : Nat) (a0 a1 a2 a3 b0 b1 b2 b3 : Int),
    ∃ u0 u1 u2 u3 v0 v1 v2 v3 : Int,
      loopA row ks x (st a0 a1 a2 a3 b0 b1 b2 b3)
        = (st u0 u1 u2 u3 v0 v1 v2 v3, x + 16 * (ks.length / 16), ks.drop (16 * (ks.length / 16))) ∧
      u0 + u1 + u2 + u3 + v0 + v1 + v2 + v3
        = a0 + a1 + a2 + a3 + b0 + b1 + b2 + b3 + dot1 row (ks.take (16 * (ks.length / 16))) x := by
  intro n
  induction n with
  | zero =>
    intro ks hn x a0 a1 a2 a3 b0 b1 b2 b3
    have : ks = [] := List.eq_nil_of_length_eq_zero (by omega)
    subst this
    refine ⟨a0, a1, a2, a3, b0, b1, b2, b3, ?_, ?_⟩
    · rw [loopA]; simp
    · simp [dot1]
  | succ n ih =>
    intro ks hn x a0 a1 a2 a3 b0 b1 b2 b3
    by_cases h16 : 16 ≤ ks.length
    · match ks, h16, hn with
      | k0 :: k1 :: k2 :: k3 :: k4 :: k5 :: k6 :: k7 :: k8 :: k9 :: k10 :: k11 :: k12 :: k13 :: k14 :: k15 :: rest, _, hn =>
        obtain ⟨p0, p1, p2, p3, q0, q1, q2, q3, hacc, hsum⟩ :=
          acc16A_spec a0 a1 a2 a3 b0 b1 b2 b3 row x k0 k1 k2 k3 k4 k5 k6 k7 k8 k9 k10 k11 k12 k13 k14 k15
        obtain ⟨u0, u1, u2, u3, v0, v1, v2, v3, hrun, hs⟩ := ih rest (by simp at hn; omega) (x + 16) p0 p1 p2 p3 q0 q1 q2 q3
        have hl : (k0 :: k1 :: k2 :: k3 :: k4 :: k5 :: k6 :: k7 :: k8 :: k9 :: k10 :: k11 :: k12 :: k13 :: k14 :: k15 :: rest).length / 16
            = rest.length / 16 + 1 := by
          simp only [List.length_cons]; omega
        have hmul : 16 * (rest.length / 16 + 1) = 16 * (rest.length / 16) + 16 := by ring
        refine ⟨u0, u1, u2, u3, v0, v1, v2, v3, ?_, ?_⟩
        · rw [loopA, dif_pos (by simp)]
          simp only [List.take, List.drop, hacc, hrun, hl, hmul]
          simp only [List.drop_succ_cons, Nat.add_assoc]
          congr 2
          omega
        · rw [hl, hmul]
          simp only [List.take_succ_cons]
          have e := dot1_append row [k0, k1, k2, k3, k4, k5, k6, k7, k8, k9, k10, k11, k12, k13, k14, k15]
            (rest.take (16 * (rest.length / 16))) x
          simp only [List.cons_append, List.nil_append, List.length_cons, List.length_nil] at e
          rw [hs, e]; linarith
    · have hdiv : ks.length / 16 = 0 := Nat.div_eq_of_lt (by omega)
      refine ⟨a0, a1, a2, a3, b0, b1, b2, b3, ?_, ?_⟩
      · rw [loopA, dif_neg h16, hdiv]; simp
      · rw [hdiv]; simp [dot1]

/-- the wrapped horizontal sum of eight wrapped lanes is the wrapped total -/
theorem hsum_eq (a0 a1 a2 a3 b0 b1 b2 b3 : Int) :
    hsum (st a0 a1 a2 a3 b0 b1 b2 b3) = wrap32 (a0 + a1 + a2 + a3 + b0 + b1 + b2 + b3) := by
  simp only [hsum, st, add32, List.zipWith, List.getD_cons_succ, List.getD_cons_zero]
  simp only [w32_add_left, w32_add_right]
  congr 1; ring

/-- **the AVX2 kernels for single-channel 8-bit images equal the portable kernel** (one row and each of four rows), for every
    precision of at least 4 (eight lanes started at `1 << (precision - 4)`), every coefficient list and every source row -/
theorem pixelA_eq_portable (p : Nat) (hp4 : 4 ≤ p) (row : List Int) (start : Nat) (ks : List Int) :
    pixelA p row start ks = clip8 (2 ^ (p - 1) + dot1 row ks start) p := by
  unfold pixelA
  simp only
  obtain ⟨u0, u1, u2, u3, v0, v1, v2, v3, hrun, hs⟩ := loopA_spec row ks.length ks (le_refl _) start
    (2 ^ (p - 4)) (2 ^ (p - 4)) (2 ^ (p - 4)) (2 ^ (p - 4)) (2 ^ (p - 4)) (2 ^ (p - 4)) (2 ^ (p - 4)) (2 ^ (p - 4))
  simp only [st] at hrun
  rw [hrun]
  simp only
  have hpow : (2 : Int) ^ (p - 1) = 8 * 2 ^ (p - 4) := by
    have : p - 1 = (p - 4) + 3 := by omega
    rw [this, pow_add]; norm_num; ring
  set m := 16 * (ks.length / 16) with hm
  have hmle : m ≤ ks.length := by omega
  have hrestlen : (ks.drop m).length < 16 := by simp only [List.length_drop]; omega
  have hsplit : dot1 row ks start = dot1 row (ks.take m) start + dot1 row (ks.drop m) (start + m) := by
    have := dot1_append row (ks.take m) (ks.drop m) start
    rw [List.take_append_drop, List.length_take, Nat.min_eq_left hmle] at this
    exact this
  have clipw : ∀ t : Int, (clip8_table (clip16_index (wrap32 t) p) : Int) = clip8 t p := by
    intro t; unfold clip8; rfl
  have hst : (([wrap32 u0, wrap32 u1, wrap32 u2, wrap32 u3], [wrap32 v0, wrap32 v1, wrap32 v2, wrap32 v3]) : St)
      = st u0 u1 u2 u3 v0 v1 v2 v3 := rfl
  by_cases h8 : (ks.drop m).length ≥ 8
  · simp only [h8, if_true]
    generalize hrest : ks.drop m = rest at *
    match rest, h8, hrestlen with
    | r0 :: r1 :: r2 :: r3 :: r4 :: r5 :: r6 :: r7 :: rest', _, _ =>
      simp only [List.take, List.drop]
      rw [hst]
      obtain ⟨w0, w1, w2, w3, hacc, hsum⟩ := acc8A_spec u0 u1 u2 u3 v0 v1 v2 v3 row (start + m) r0 r1 r2 r3 r4 r5 r6 r7
      rw [hacc, hsum_eq, scalar_eq, clipw]
      congr 1
      have e := dot1_append row [r0, r1, r2, r3, r4, r5, r6, r7] rest' (start + m)
      simp only [List.cons_append, List.nil_append, List.length_cons, List.length_nil] at e
      rw [hsplit, e, hpow]; linarith
  · simp only [h8, if_false]
    rw [hst, hsum_eq, scalar_eq, clipw]
    congr 1
    rw [hsplit, hpow]; linarith

end Fir.Proofs.U8x1A
