/-
  Fir.Proofs.IeeeLemmas - IEEE-754 round-to-nearest-even to `p` significant bits as a function ℚ → ℚ
  (unbounded exponent range: no overflow, no underflow), and the three properties the float theorems of this
  project take as premises about "the rounding function":

    * `RelErr (flP p) 2^-p`           standard model of rounding      (C01, C02, C10: error bounds)
    * `Monotone (flP p)`                                               (C03, C11, C15, C17, C18)
    * `flP p n = n` for integers |n| ≤ 2^p                             (C03 window arithmetic)

  So every theorem stated "for all `fl` with ..." holds in particular for binary64 (`p = 53`) and binary32
  (`p = 24`) arithmetic as the standard defines it; what stays trusted is that the hardware implements this
  function and that no overflow / underflow occurs (ranges here are far inside the normal range).
-/
import Mathlib.Data.Int.Log
import Mathlib.Algebra.Order.Floor.Ring
import Mathlib.Data.Rat.Floor
import Mathlib.Algebra.Order.Field.Basic
import Mathlib.Algebra.Order.Field.Power
import Mathlib.Order.Monotone.Basic
import Mathlib.Tactic.Linarith
import Mathlib.Tactic.Ring
import Mathlib.Tactic.Positivity
import Mathlib.Tactic.NormNum
import Mathlib.Tactic.FieldSimp
import Fir.Proofs.FloatLemmas

namespace Fir.Ieee

/-! ### round half to even, to an integer -/

noncomputable def rne (y : ℚ) : ℤ :=
  if y - ⌊y⌋ < 1 / 2 then ⌊y⌋
  else if 1 / 2 < y - ⌊y⌋ then ⌊y⌋ + 1
  else if Even ⌊y⌋ then ⌊y⌋ else ⌊y⌋ + 1

theorem rne_err (y : ℚ) : |(rne y : ℚ) - y| ≤ 1 / 2 := by
  have h1 := Int.floor_le y
  have h2 := Int.lt_floor_add_one y
  unfold rne
  rw [abs_le]
  split_ifs <;> push_cast <;> constructor <;> linarith

theorem floor_le_rne (y : ℚ) : ⌊y⌋ ≤ rne y := by
  unfold rne; split_ifs <;> omega

theorem rne_le_floor_add_one (y : ℚ) : rne y ≤ ⌊y⌋ + 1 := by
  unfold rne; split_ifs <;> omega

theorem rne_int (n : ℤ) : rne (n : ℚ) = n := by
  unfold rne
  simp

theorem rne_mono {y z : ℚ} (h : y ≤ z) : rne y ≤ rne z := by
  rcases lt_or_eq_of_le (Int.floor_le_floor h) with hlt | heq
  · calc rne y ≤ ⌊y⌋ + 1 := rne_le_floor_add_one y
      _ ≤ ⌊z⌋ := hlt
      _ ≤ rne z := floor_le_rne z
  · -- same integer part: compare the fractional parts
    have hf : y - ⌊y⌋ ≤ z - ⌊z⌋ := by rw [heq]; linarith
    unfold rne
    rw [heq]
    by_cases h1 : z - ⌊z⌋ < 1 / 2
    · have : y - (⌊z⌋ : ℚ) < 1 / 2 := by rw [← heq]; linarith
      rw [if_pos this, if_pos h1]
    · rw [if_neg h1]
      by_cases h2 : 1 / 2 < z - ⌊z⌋
      · rw [if_pos h2]
        split_ifs <;> omega
      · rw [if_neg h2]
        have hz : z - ⌊z⌋ = 1 / 2 := le_antisymm (not_lt.mp h2) (not_lt.mp h1)
        by_cases h3 : y - (⌊z⌋ : ℚ) < 1 / 2
        · rw [if_pos h3]; split_ifs <;> omega
        · rw [if_neg h3]
          have h4 : ¬ (1 / 2 < y - (⌊z⌋ : ℚ)) := by rw [← heq]; linarith
          rw [if_neg h4]

theorem rne_ge_of_int_le (a : ℤ) (y : ℚ) (h : (a : ℚ) ≤ y) : a ≤ rne y := by
  have := rne_mono h; rwa [rne_int] at this

theorem rne_le_of_le_int (b : ℤ) (y : ℚ) (h : y ≤ (b : ℚ)) : rne y ≤ b := by
  have := rne_mono h; rwa [rne_int] at this

/-! ### rounding to `p` significant bits -/

/-- exponent of the last place of a `p`-bit significand for `|x| ∈ [2^e, 2^(e+1))` -/
noncomputable def lastPlace (p : ℕ) (x : ℚ) : ℤ := Int.log 2 |x| - p + 1

/-- round-to-nearest-even to `p` significant bits -/
noncomputable def flP (p : ℕ) (x : ℚ) : ℚ :=
  if x = 0 then 0
  else if 0 < x then (rne (x / 2 ^ lastPlace p x) : ℚ) * 2 ^ lastPlace p x
  else -((rne (-x / 2 ^ lastPlace p x) : ℚ) * 2 ^ lastPlace p x)

theorem lastPlace_neg (p : ℕ) (x : ℚ) : lastPlace p (-x) = lastPlace p x := by simp [lastPlace]

theorem flP_neg (p : ℕ) (x : ℚ) : flP p (-x) = -flP p x := by
  unfold flP
  rcases lt_trichotomy x 0 with h | h | h
  · have h1 : ¬ (-x = 0) := by intro h'; linarith [neg_eq_zero.mp h']
    have h2 : (0 : ℚ) < -x := by linarith
    have h3 : ¬ (x = 0) := ne_of_lt h
    have h4 : ¬ (0 < x) := not_lt.mpr h.le
    rw [if_neg h1, if_pos h2, if_neg h3, if_neg h4, lastPlace_neg]
    ring
  · subst h; simp
  · have h1 : ¬ (-x = 0) := by intro h'; linarith [neg_eq_zero.mp h']
    have h2 : ¬ ((0 : ℚ) < -x) := by linarith
    have h3 : ¬ (x = 0) := ne_of_gt h
    rw [if_neg h1, if_neg h2, if_neg h3, if_pos h, lastPlace_neg, neg_neg]

theorem flP_zero (p : ℕ) : flP p 0 = 0 := by simp [flP]

theorem flP_pos_eq (p : ℕ) (x : ℚ) (h : 0 < x) :
    flP p x = (rne (x / 2 ^ lastPlace p x) : ℚ) * 2 ^ lastPlace p x := by
  unfold flP; rw [if_neg (ne_of_gt h), if_pos h]

/-- for `x > 0`: `2^e ≤ x < 2^(e+1)` with `e = Int.log 2 x` -/
theorem log_bounds (x : ℚ) (h : 0 < x) : (2 : ℚ) ^ Int.log 2 x ≤ x ∧ x < (2 : ℚ) ^ (Int.log 2 x + 1) := by
  have h1 := Int.zpow_log_le_self (b := 2) (by norm_num) h
  have h2 := Int.lt_zpow_succ_log_self (b := 2) (by norm_num) x
  exact ⟨by exact_mod_cast h1, by exact_mod_cast h2⟩

/-- the scaled significand of a positive `x` lies in `[2^(p-1), 2^p)` -/
theorem significand_bounds (p : ℕ) (hp : 1 ≤ p) (x : ℚ) (h : 0 < x) :
    (2 : ℚ) ^ (p - 1 : ℕ) ≤ x / 2 ^ lastPlace p x ∧ x / 2 ^ lastPlace p x < (2 : ℚ) ^ p := by
  obtain ⟨h1, h2⟩ := log_bounds x h
  have hs : (0 : ℚ) < 2 ^ lastPlace p x := by positivity
  unfold lastPlace at *
  rw [abs_of_pos h] at *
  set e := Int.log 2 x
  constructor
  · rw [le_div_iff₀ hs]
    calc (2 : ℚ) ^ (p - 1 : ℕ) * 2 ^ (e - p + 1) = 2 ^ e := by
          rw [← zpow_natCast, ← zpow_add₀ (by norm_num)]
          congr 1
          have : ((p - 1 : ℕ) : ℤ) = (p : ℤ) - 1 := by omega
          rw [this]; ring
      _ ≤ x := h1
  · rw [div_lt_iff₀ hs]
    calc x < 2 ^ (e + 1) := h2
      _ = (2 : ℚ) ^ p * 2 ^ (e - p + 1) := by
          rw [← zpow_natCast, ← zpow_add₀ (by norm_num)]
          congr 1; ring

/-- **standard model of rounding**: relative error at most `2^-p` -/
theorem flP_relErr (p : ℕ) (_hp : 1 ≤ p) : Fir.Flt.RelErr (flP p) (1 / 2 ^ p) := by
  intro y
  -- it suffices to treat positive arguments
  have pos : ∀ x : ℚ, 0 < x → |flP p x - x| ≤ 1 / 2 ^ p * |x| := by
    intro x h
    rw [flP_pos_eq p x h, abs_of_pos h]
    have hs : (0 : ℚ) < 2 ^ lastPlace p x := by positivity
    have herr := rne_err (x / 2 ^ lastPlace p x)
    have e : (rne (x / 2 ^ lastPlace p x) : ℚ) * 2 ^ lastPlace p x - x
        = ((rne (x / 2 ^ lastPlace p x) : ℚ) - x / 2 ^ lastPlace p x) * 2 ^ lastPlace p x := by
      field_simp
    rw [e, abs_mul, abs_of_pos hs]
    obtain ⟨h1, _⟩ := log_bounds x h
    have hle : (2 : ℚ) ^ lastPlace p x / 2 ≤ 1 / 2 ^ p * x := by
      unfold lastPlace
      rw [abs_of_pos h]
      have : (2 : ℚ) ^ (Int.log 2 x - p + 1) = 2 ^ Int.log 2 x * (1 / 2 ^ p) * 2 := by
        rw [zpow_add₀ (by norm_num), zpow_sub₀ (by norm_num), zpow_natCast]
        field_simp
      rw [this]
      have hp2 : (0 : ℚ) < 1 / 2 ^ p := by positivity
      nlinarith
    calc |(rne (x / 2 ^ lastPlace p x) : ℚ) - x / 2 ^ lastPlace p x| * 2 ^ lastPlace p x
        ≤ 1 / 2 * 2 ^ lastPlace p x := mul_le_mul_of_nonneg_right herr hs.le
      _ = 2 ^ lastPlace p x / 2 := by ring
      _ ≤ 1 / 2 ^ p * x := hle
  rcases lt_trichotomy y 0 with h | h | h
  · have := pos (-y) (by linarith)
    rw [flP_neg, abs_neg] at this
    have e : -flP p y - -y = -(flP p y - y) := by ring
    rwa [e, abs_neg] at this
  · subst h; simp [flP_zero]
  · exact pos y h

/-- positive arguments round into their own closed binade -/
theorem flP_binade (p : ℕ) (hp : 1 ≤ p) (x : ℚ) (h : 0 < x) :
    (2 : ℚ) ^ Int.log 2 x ≤ flP p x ∧ flP p x ≤ (2 : ℚ) ^ (Int.log 2 x + 1) := by
  obtain ⟨hlo, hhi⟩ := significand_bounds p hp x h
  rw [flP_pos_eq p x h]
  have hs : (0 : ℚ) < 2 ^ lastPlace p x := by positivity
  have h1 : ((2 ^ (p - 1) : ℕ) : ℤ) ≤ rne (x / 2 ^ lastPlace p x) :=
    rne_ge_of_int_le _ _ (by push_cast; exact hlo)
  have h2 : rne (x / 2 ^ lastPlace p x) ≤ ((2 ^ p : ℕ) : ℤ) :=
    rne_le_of_le_int _ _ (by push_cast; exact hhi.le)
  have h1q : ((2 : ℚ) ^ (p - 1 : ℕ)) ≤ (rne (x / 2 ^ lastPlace p x) : ℚ) := by exact_mod_cast h1
  have h2q : (rne (x / 2 ^ lastPlace p x) : ℚ) ≤ (2 : ℚ) ^ p := by exact_mod_cast h2
  have e1 : (2 : ℚ) ^ Int.log 2 x = 2 ^ (p - 1 : ℕ) * 2 ^ lastPlace p x := by
    unfold lastPlace; rw [abs_of_pos h, ← zpow_natCast, ← zpow_add₀ (by norm_num)]
    congr 1
    have : ((p - 1 : ℕ) : ℤ) = (p : ℤ) - 1 := by omega
    rw [this]; ring
  have e2 : (2 : ℚ) ^ (Int.log 2 x + 1) = 2 ^ p * 2 ^ lastPlace p x := by
    unfold lastPlace; rw [abs_of_pos h, ← zpow_natCast, ← zpow_add₀ (by norm_num)]
    congr 1; ring
  rw [e1, e2]
  exact ⟨mul_le_mul_of_nonneg_right h1q hs.le, mul_le_mul_of_nonneg_right h2q hs.le⟩

theorem flP_pos (p : ℕ) (hp : 1 ≤ p) (x : ℚ) (h : 0 < x) : 0 < flP p x :=
  lt_of_lt_of_le (by positivity) (flP_binade p hp x h).1

theorem flP_mono_pos (p : ℕ) (hp : 1 ≤ p) (x y : ℚ) (hx : 0 < x) (hxy : x ≤ y) : flP p x ≤ flP p y := by
  have hy : 0 < y := lt_of_lt_of_le hx hxy
  rcases lt_or_eq_of_le (Int.log_mono_right (b := 2) hx hxy) with hlt | heq
  · -- different binades
    calc flP p x ≤ (2 : ℚ) ^ (Int.log 2 x + 1) := (flP_binade p hp x hx).2
      _ ≤ (2 : ℚ) ^ Int.log 2 y := zpow_le_zpow_right₀ (by norm_num) (by omega)
      _ ≤ flP p y := (flP_binade p hp y hy).1
  · -- same binade, same scale
    have hl : lastPlace p x = lastPlace p y := by
      unfold lastPlace; rw [abs_of_pos hx, abs_of_pos hy, heq]
    rw [flP_pos_eq p x hx, flP_pos_eq p y hy, hl]
    have hs : (0 : ℚ) < 2 ^ lastPlace p y := by positivity
    apply mul_le_mul_of_nonneg_right _ hs.le
    have : x / 2 ^ lastPlace p y ≤ y / 2 ^ lastPlace p y := div_le_div_of_nonneg_right hxy hs.le
    exact_mod_cast rne_mono this

/-- **round-to-nearest-even is monotone** -/
theorem flP_monotone (p : ℕ) (hp : 1 ≤ p) : Monotone (flP p) := by
  intro x y hxy
  rcases lt_trichotomy x 0 with hx | hx | hx
  · rcases lt_trichotomy y 0 with hy | hy | hy
    · -- both negative: flP x = -flP(-x), -y ≤ -x
      have := flP_mono_pos p hp (-y) (-x) (by linarith) (by linarith)
      rw [flP_neg, flP_neg] at this
      linarith
    · subst hy
      have := flP_pos p hp (-x) (by linarith)
      rw [flP_neg] at this
      rw [flP_zero]; linarith
    · have h1 := flP_pos p hp (-x) (by linarith)
      rw [flP_neg] at h1
      have h2 := flP_pos p hp y hy
      linarith
  · subst hx
    rcases lt_or_eq_of_le hxy with hy | hy
    · rw [flP_zero]; exact (flP_pos p hp y hy).le
    · rw [← hy]
  · exact flP_mono_pos p hp x y hx hxy

/-- **integers of at most `p` bits are exact** -/
theorem flP_int (p : ℕ) (hp : 1 ≤ p) (n : ℤ) (hn : |n| ≤ 2 ^ p) : flP p (n : ℚ) = n := by
  -- positive case
  have pos : ∀ m : ℤ, 0 < m → m ≤ 2 ^ p → flP p (m : ℚ) = m := by
    intro m hm0 hm
    have hmq : (0 : ℚ) < m := by exact_mod_cast hm0
    rw [flP_pos_eq p _ hmq]
    obtain ⟨hlo, hhi⟩ := log_bounds (m : ℚ) hmq
    -- the last place is at most 2^0 when m < 2^p, and 2^1 only for m = 2^p
    have hle : Int.log 2 (m : ℚ) ≤ p := by
      by_contra hcon
      have h1 : (p : ℤ) + 1 ≤ Int.log 2 (m : ℚ) := by omega
      have h2 : (2 : ℚ) ^ ((p : ℤ) + 1) ≤ 2 ^ Int.log 2 (m : ℚ) := zpow_le_zpow_right₀ (by norm_num) h1
      have h3 : (m : ℚ) ≤ 2 ^ p := by exact_mod_cast hm
      have h4 : (2 : ℚ) ^ ((p : ℤ) + 1) = 2 ^ p * 2 := by rw [zpow_add₀ (by norm_num), zpow_natCast]; norm_num
      have h5 : (0 : ℚ) < 2 ^ p := by positivity
      linarith
    rcases lt_or_eq_of_le hle with hlt | heq
    · -- lastPlace ≤ 0: m / 2^lastPlace = m * 2^k is an integer
      have hk : lastPlace p (m : ℚ) ≤ 0 := by unfold lastPlace; rw [abs_of_pos hmq]; omega
      obtain ⟨k, hk'⟩ : ∃ k : ℕ, lastPlace p (m : ℚ) = -(k : ℤ) := ⟨(-lastPlace p (m : ℚ)).toNat, by omega⟩
      rw [hk', zpow_neg, zpow_natCast]
      have e : (m : ℚ) / (2 ^ k)⁻¹ = ((m * 2 ^ k : ℤ) : ℚ) := by push_cast; field_simp
      rw [e, rne_int]; push_cast; field_simp
    · -- m lies in [2^p, 2^(p+1)) and m ≤ 2^p: m = 2^p, last place 2^1
      have hm2 : (m : ℚ) = 2 ^ p := by
        have h3 : (m : ℚ) ≤ 2 ^ p := by exact_mod_cast hm
        have h4 : (2 : ℚ) ^ (p : ℤ) ≤ m := by rw [← heq]; exact hlo
        rw [zpow_natCast] at h4
        linarith
      have hl : lastPlace p (m : ℚ) = 1 := by unfold lastPlace; rw [abs_of_pos hmq, heq]; ring
      rw [hl, hm2]
      obtain ⟨q, hq⟩ : ∃ q : ℕ, p = q + 1 := ⟨p - 1, by omega⟩
      have e : (2 : ℚ) ^ p / 2 ^ (1 : ℤ) = ((2 ^ q : ℕ) : ℤ) := by
        rw [hq, pow_succ]; push_cast; field_simp
      rw [e, rne_int, hq, pow_succ]; push_cast; ring
  rcases lt_trichotomy n 0 with h | h | h
  · have := pos (-n) (by omega) (by rw [abs_of_neg h] at hn; exact hn)
    have e : ((-n : ℤ) : ℚ) = -(n : ℚ) := by push_cast; ring
    rw [e, flP_neg] at this
    linarith
  · subst h; simp [flP_zero]
  · exact pos n h (by rw [abs_of_pos h] at hn; exact hn)

/-! ### representable values are fixed: `flP` is idempotent -/

/-- a value `M · 2^k` with a significand of at most `p` bits (`0 < M ≤ 2^p`) is representable -/
theorem flP_of_dyadic (p : ℕ) (hp : 1 ≤ p) (M k : ℤ) (hM : 0 < M) (hM2 : M ≤ 2 ^ p) :
    flP p ((M : ℚ) * 2 ^ k) = (M : ℚ) * 2 ^ k := by
  have hMq : (0 : ℚ) < M := by exact_mod_cast hM
  have hv : (0 : ℚ) < (M : ℚ) * 2 ^ k := by positivity
  rw [flP_pos_eq p _ hv]
  obtain ⟨hlo, hhi⟩ := log_bounds _ hv
  set v : ℚ := (M : ℚ) * 2 ^ k with hvdef
  have hMq2 : (M : ℚ) ≤ 2 ^ p := by exact_mod_cast hM2
  -- log v ≤ k + p, with equality only for M = 2^p
  have hle : Int.log 2 v ≤ k + p := by
    by_contra hcon
    have h1 : k + p + 1 ≤ Int.log 2 v := by omega
    have h2 : (2 : ℚ) ^ (k + p + 1) ≤ 2 ^ Int.log 2 v := zpow_le_zpow_right₀ (by norm_num) h1
    have h3 : v ≤ 2 ^ (k + p) := by
      rw [hvdef, zpow_add₀ (by norm_num), zpow_natCast, mul_comm ((2 : ℚ) ^ k)]
      exact mul_le_mul_of_nonneg_right hMq2 (by positivity)
    have h4 : (2 : ℚ) ^ (k + p + 1) = 2 ^ (k + p) * 2 := by rw [zpow_add₀ (by norm_num)]; norm_num
    have h5 : (0 : ℚ) < 2 ^ (k + p) := by positivity
    linarith
  rcases lt_or_eq_of_le hle with hlt | heq
  · -- last place k' ≤ k: the significand is the integer M * 2^(k - k')
    have hk : lastPlace p v ≤ k := by unfold lastPlace; rw [abs_of_pos hv]; omega
    generalize lastPlace p v = L at hk ⊢
    obtain ⟨d, hd⟩ : ∃ d : ℕ, k = L + d := ⟨(k - L).toNat, by omega⟩
    have hL0 : (0 : ℚ) < 2 ^ L := by positivity
    have hvL : v = ((M * 2 ^ d : ℤ) : ℚ) * 2 ^ L := by
      rw [hvdef, hd, zpow_add₀ (by norm_num), zpow_natCast]; push_cast; ring
    have e : v / 2 ^ L = ((M * 2 ^ d : ℤ) : ℚ) := by
      rw [hvL]; field_simp
    rw [e, rne_int, ← hvL]
  · -- M = 2^p: v = 2^(k+p), last place k + 1, significand 2^(p-1)
    have hM3 : (M : ℚ) = 2 ^ p := by
      have h4 : (2 : ℚ) ^ (k + p) ≤ v := by rw [← heq]; exact hlo
      rw [hvdef, zpow_add₀ (by norm_num), zpow_natCast, mul_comm ((2 : ℚ) ^ k)] at h4
      have hk0 : (0 : ℚ) < 2 ^ k := by positivity
      have := le_of_mul_le_mul_right h4 hk0
      linarith
    have hl : lastPlace p v = k + 1 := by unfold lastPlace; rw [abs_of_pos hv, heq]; ring
    obtain ⟨q, hq⟩ : ∃ q : ℕ, p = q + 1 := ⟨p - 1, by omega⟩
    have e : v / 2 ^ lastPlace p v = ((2 ^ q : ℕ) : ℤ) := by
      rw [hl, hvdef, hM3, hq, zpow_add₀ (by norm_num), pow_succ]; push_cast; field_simp
    rw [e, rne_int, hl, hvdef, hM3, hq, zpow_add₀ (by norm_num), pow_succ]; push_cast; ring

/-- the result of a rounding is representable: rounding it again changes nothing -/
theorem flP_idem (p : ℕ) (hp : 1 ≤ p) (x : ℚ) : flP p (flP p x) = flP p x := by
  have pos : ∀ y : ℚ, 0 < y → flP p (flP p y) = flP p y := by
    intro y hy
    obtain ⟨hlo, hhi⟩ := significand_bounds p hp y hy
    rw [flP_pos_eq p y hy]
    have h1 : ((2 ^ (p - 1) : ℕ) : ℤ) ≤ rne (y / 2 ^ lastPlace p y) :=
      rne_ge_of_int_le _ _ (by push_cast; exact hlo)
    have h2 : rne (y / 2 ^ lastPlace p y) ≤ ((2 ^ p : ℕ) : ℤ) :=
      rne_le_of_le_int _ _ (by push_cast; exact hhi.le)
    have hpos : 0 < rne (y / 2 ^ lastPlace p y) := lt_of_lt_of_le (by positivity) h1
    exact flP_of_dyadic p hp _ _ hpos (by exact_mod_cast h2)
  rcases lt_trichotomy x 0 with h | h | h
  · have := pos (-x) (by linarith)
    rw [flP_neg, flP_neg] at this
    linarith
  · subst h; simp [flP_zero]
  · exact pos x h

end Fir.Ieee
