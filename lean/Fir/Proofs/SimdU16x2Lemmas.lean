/-
  Fir.Proofs.SimdU16x2Lemmas - the SSE4.1 horizontal kernels for LA16 (`Fir.Model.SimdU16x2`, masks from the source) equal the
  portable kernel: the 4-, 2- and 1-coefficient steps add, to the lane of each channel, the products of that channel's
  components with the coefficients (mod 2^64), for every coefficient list and every source row.
-/
import Fir.Model.SimdU16x2
import Fir.Model.Resample
import Fir.Proofs.SimdVertU16Lemmas
import Mathlib.Tactic.Ring

set_option linter.unnecessarySeqFocus false
set_option linter.unreachableTactic false
set_option linter.unusedTactic false
set_option linter.unusedSimpArgs false

namespace Fir.Proofs.U16x2
open Fir Fir.SimdU16x2 Fir.Gen Fir.Proofs
open Fir.SimdU8x4 (wrap32 pshufb)
open Fir.SimdVertU16 (wrap64 s32 add64 mulEpi32)

theorem acc4_eq (t0 t1 : Int) (row : List Int) (x : Nat) (k0 k1 k2 k3 : Int) :
    acc4 [wrap64 t0, wrap64 t1] row x k0 k1 k2 k3
      = [wrap64 (t0 + dotLA row 0 [k0, k1, k2, k3] x), wrap64 (t1 + dotLA row 1 [k0, k1, k2, k3] x)] := by
  simp only [acc4, srcLA, add64, mulEpi32, pshufb, u16x2_sse4_p0, u16x2_sse4_p1, u16x2_sse4_p2, u16x2_sse4_p3, dotLA,
    List.range, List.range.loop, List.map, List.flatMap_cons, List.flatMap_nil, List.append_nil, List.replicate,
    List.cons_append, List.nil_append, List.getD_cons_succ, List.getD_cons_zero, List.zipWith]
  simp [s32_u16, w64_add_left, w64_add_right]
  refine ⟨?_, ?_⟩ <;> (congr 1 <;> ring_nf)

theorem acc2_eq (t0 t1 : Int) (row : List Int) (x : Nat) (k0 k1 : Int) :
    acc2 [wrap64 t0, wrap64 t1] row x k0 k1
      = [wrap64 (t0 + dotLA row 0 [k0, k1] x), wrap64 (t1 + dotLA row 1 [k0, k1] x)] := by
  simp only [acc2, srcLA, add64, mulEpi32, pshufb, u16x2_sse4_p0, u16x2_sse4_p1, dotLA,
    List.range, List.range.loop, List.map, List.flatMap_cons, List.flatMap_nil, List.append_nil, List.replicate,
    List.cons_append, List.nil_append, List.getD_cons_succ, List.getD_cons_zero, List.zipWith]
  simp [s32_u16, w64_add_left, w64_add_right]
  refine ⟨?_, ?_⟩ <;> (congr 1 <;> ring_nf)

theorem acc1_eq (t0 t1 : Int) (row : List Int) (x : Nat) (k : Int) :
    acc1 [wrap64 t0, wrap64 t1] row x k
      = [wrap64 (t0 + dotLA row 0 [k] x), wrap64 (t1 + dotLA row 1 [k] x)] := by
  simp only [acc1, srcLA, add64, mulEpi32, pshufb, u16x2_sse4_p0, dotLA,
    List.range, List.range.loop, List.map, List.flatMap_cons, List.flatMap_nil, List.append_nil, List.replicate,
    List.cons_append, List.nil_append, List.getD_cons_succ, List.getD_cons_zero, List.zipWith]
  simp [s32_u16, w64_add_left, w64_add_right]

theorem loop_eq (row : List Int) : ∀ (n : Nat) (ks : List Int) (_hn : ks.length ≤ n) (x : Nat) (t0 t1 : Int),
    SimdU16x2.loop row ks x [wrap64 t0, wrap64 t1]
      = [wrap64 (t0 + dotLA row 0 ks x), wrap64 (t1 + dotLA row 1 ks x)] := by
  intro n
  induction n with
  | zero =>
    intro ks hn x t0 t1
    have : ks = [] := List.eq_nil_of_length_eq_zero (by omega)
    subst this; simp [SimdU16x2.loop, dotLA]
  | succ n ih =>
    intro ks hn x t0 t1
    match ks, hn with
    | [], _ => simp [SimdU16x2.loop, dotLA]
    | [k], _ => rw [SimdU16x2.loop, acc1_eq]
    | [k0, k1], _ => rw [SimdU16x2.loop, acc2_eq]
    | [k0, k1, k2], _ =>
      rw [SimdU16x2.loop, acc2_eq, acc1_eq]
      simp only [dotLA]
      refine (List.cons.injEq _ _ _ _).mpr ⟨?_, (List.cons.injEq _ _ _ _).mpr ⟨?_, rfl⟩⟩ <;> (congr 1; ring)
    | k0 :: k1 :: k2 :: k3 :: rest, hn =>
      rw [SimdU16x2.loop, acc4_eq, ih rest (by simp at hn; omega)]
      simp only [dotLA]
      refine (List.cons.injEq _ _ _ _).mpr ⟨?_, (List.cons.injEq _ _ _ _).mpr ⟨?_, rfl⟩⟩ <;> (congr 1; ring)

/-- **the SSE4.1 horizontal kernels for LA16 equal the portable kernel** (one row and each of four rows) -/
theorem pixel_eq_portable (p : Nat) (row : List Int) (start : Nat) (ks : List Int) :
    SimdU16x2.pixel p row start ks
      = [clip16 (2 ^ (p - 1) + dotLA row 0 ks start) p, clip16 (2 ^ (p - 1) + dotLA row 1 ks start) p] := by
  unfold SimdU16x2.pixel
  simp only
  rw [loop_eq row ks.length ks (le_refl _)]
  simp [clip16]

end Fir.Proofs.U16x2
