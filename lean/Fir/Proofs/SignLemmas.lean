/-
  Fir.Proofs.SignLemmas - non-negative kernels give non-negative weights and coefficients
  (`precompute_coefficients`: `ww += w`, `w /= ww`; normalisers: `(w * 2^p).round() as i16 / i32`), for
  every monotone rounding `fl` with `fl 0 = 0`.  Magnitudes are irrelevant - only signs are used.
-/
import Mathlib.Algebra.Order.Floor.Ring
import Mathlib.Data.Rat.Floor
import Mathlib.Algebra.Order.Field.Basic
import Mathlib.Order.Monotone.Basic
import Mathlib.Tactic.Linarith
import Mathlib.Tactic.Positivity
namespace Fir.Proofs

/-- Rust's `f64::round` (half away from zero) as an integer -/
def roundHalfAway (p : ℚ) : ℤ := if 0 ≤ p then ⌊p + 1 / 2⌋ else -⌊-p + 1 / 2⌋

theorem roundHalfAway_nonneg (p : ℚ) (hp : 0 ≤ p) : 0 ≤ roundHalfAway p := by
  unfold roundHalfAway
  rw [if_pos hp]
  exact Int.floor_nonneg.mpr (by linarith)

/-- the running sum `ww` of non-negative weights is non-negative -/
theorem sum_weights_nonneg (fl : ℚ → ℚ) (hfl : Monotone fl) (h0 : fl 0 = 0) (ws : List ℚ) (hw : ∀ w ∈ ws, 0 ≤ w)
    (s : ℚ) (hs : 0 ≤ s) : 0 ≤ ws.foldl (fun s w => fl (s + w)) s := by
  induction ws generalizing s with
  | nil => simpa using hs
  | cons w ws ih =>
    simp only [List.foldl_cons]
    apply ih (fun w' hw' => hw w' (List.mem_cons_of_mem _ hw'))
    have := hfl (show (0 : ℚ) ≤ s + w by have := hw w (List.mem_cons_self ..); linarith)
    rwa [h0] at this

/-- a non-negative kernel value divided by a positive sum and scaled by `2^p` stays non-negative through
    every rounding, and so does the integer coefficient -/
theorem nonneg_weights (fl : ℚ → ℚ) (hfl : Monotone fl) (h0 : fl 0 = 0) (w ww P : ℚ) (hw : 0 ≤ w) (hww : 0 < ww) (hP : 0 ≤ P) :
    0 ≤ fl (w / ww) ∧ 0 ≤ roundHalfAway (fl (fl (w / ww) * P)) := by
  have h1 : 0 ≤ fl (w / ww) := by
    have := hfl (show (0 : ℚ) ≤ w / ww by positivity)
    rwa [h0] at this
  refine ⟨h1, roundHalfAway_nonneg _ ?_⟩
  have := hfl (mul_nonneg h1 hP)
  rwa [h0] at this

end Fir.Proofs
