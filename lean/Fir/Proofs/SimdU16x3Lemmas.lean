/-
  Fir.Proofs.SimdU16x3Lemmas - the SSE4.1 horizontal kernels for RGB16 (`Fir.Model.SimdU16x3`, masks from the source) equal the
  portable kernel for every row width (both branches of the width guard).  `Step3`: a piece of the kernel adds the R and G dot
  products to the two lanes of `rg`, and to the two lanes of `bb` increments whose sum is the B dot product.
-/
import Fir.Model.SimdU16x3
import Fir.Model.Resample
import Fir.Proofs.SimdU16x1Lemmas
import Mathlib.Tactic.Ring
import Mathlib.Tactic.Linarith

set_option linter.unnecessarySeqFocus false
set_option linter.unreachableTactic false
set_option linter.unusedTactic false
set_option linter.unusedSimpArgs false

namespace Fir.Proofs.U16x3
open Fir Fir.SimdU16x3 Fir.Gen Fir.Proofs
open Fir.SimdU8x4 (wrap32 pshufb)
open Fir.SimdVertU16 (wrap64 s32 add64 mulEpi32)
open Fir.SimdU16x1 (mul2)
open Fir.Proofs.U16x1 (w64_idem w32_zero)

theorem dot3_append (row : List Int) (c : Nat) (a b : List Int) (x : Nat) :
    dot3 row c (a ++ b) x = dot3 row c a x + dot3 row c b (x + a.length) := by
  induction a generalizing x with
  | nil => simp [dot3]
  | cons k a ih =>
    simp only [List.cons_append, dot3, ih, List.length_cons]
    have : x + 1 + a.length = x + (a.length + 1) := by omega
    rw [this]; ring

def Step3 (row : List Int) (f : List (List Int) → List (List Int)) (ks : List Int) (x : Nat) : Prop :=
  ∀ t0 t1 t2 t3 : Int, ∃ e2 e3 : Int,
    f [[wrap64 t0, wrap64 t1], [wrap64 t2, wrap64 t3]]
      = [[wrap64 (t0 + dot3 row 0 ks x), wrap64 (t1 + dot3 row 1 ks x)], [wrap64 (t2 + e2), wrap64 (t3 + e3)]] ∧
    e2 + e3 = dot3 row 2 ks x

theorem Step3.id (row : List Int) (x : Nat) : Step3 row (fun s => s) [] x := by
  intro t0 t1 t2 t3; exact ⟨0, 0, by simp [dot3], by simp [dot3]⟩

theorem Step3.comp {row : List Int} {f g : List (List Int) → List (List Int)} {ks1 ks2 : List Int} {x : Nat}
    (hf : Step3 row f ks1 x) (hg : Step3 row g ks2 (x + ks1.length)) :
    Step3 row (fun s => g (f s)) (ks1 ++ ks2) x := by
  intro t0 t1 t2 t3
  obtain ⟨e2, e3, hfe, hs⟩ := hf t0 t1 t2 t3
  obtain ⟨d2, d3, hge, hs'⟩ := hg (t0 + dot3 row 0 ks1 x) (t1 + dot3 row 1 ks1 x) (t2 + e2) (t3 + e3)
  refine ⟨e2 + d2, e3 + d3, ?_, ?_⟩
  · simp only [hfe, hge, dot3_append, add_assoc]
  · rw [dot3_append, ← hs, ← hs']; ring

theorem acc2_eq (t0 t1 t2 t3 : Int) (row : List Int) (x : Nat) (k0 k1 : Int) :
    acc2 [[wrap64 t0, wrap64 t1], [wrap64 t2, wrap64 t3]] row x k0 k1
      = [[wrap64 (t0 + dot3 row 0 [k0, k1] x), wrap64 (t1 + dot3 row 1 [k0, k1] x)],
         [wrap64 (t2 + row.getD (3 * x + 2) 0 % 65536 * wrap32 k0), wrap64 (t3 + row.getD (3 * x + 5) 0 % 65536 * wrap32 k1)]] := by
  simp only [acc2, src3, add64, mulEpi32, mul2, pshufb, u16x3_sse4_rg0, u16x3_sse4_rg1, u16x3_sse4_bb, dot3,
    List.range, List.range.loop, List.map, List.flatMap_cons, List.flatMap_nil, List.append_nil, List.replicate,
    List.cons_append, List.nil_append, List.getD_cons_succ, List.getD_cons_zero, List.zipWith]
  simp [s32_u16, w64_add_left, w64_add_right]
  refine ⟨?_, ?_⟩ <;> (congr 1 <;> ring_nf)

theorem acc1_eq (t0 t1 t2 t3 : Int) (row : List Int) (x : Nat) (k : Int) :
    acc1 [[wrap64 t0, wrap64 t1], [wrap64 t2, wrap64 t3]] row x k
      = [[wrap64 (t0 + dot3 row 0 [k] x), wrap64 (t1 + dot3 row 1 [k] x)],
         [wrap64 (t2 + row.getD (3 * x + 2) 0 % 65536 * wrap32 k), wrap64 (t3 + 0)]] := by
  simp only [acc1, add64, dot3, List.getD_cons_succ, List.getD_cons_zero, List.zipWith]
  simp [w64_add_left, w64_add_right, w64_idem]

theorem step2 (row : List Int) (x : Nat) (k0 k1 : Int) : Step3 row (fun s => acc2 s row x k0 k1) [k0, k1] x := by
  intro t0 t1 t2 t3
  refine ⟨_, _, acc2_eq t0 t1 t2 t3 row x k0 k1, ?_⟩
  simp only [dot3] <;> ring_nf

theorem step1 (row : List Int) (x : Nat) (k : Int) : Step3 row (fun s => acc1 s row x k) [k] x := by
  intro t0 t1 t2 t3
  refine ⟨_, _, acc1_eq t0 t1 t2 t3 row x k, ?_⟩
  simp only [dot3] <;> ring_nf

theorem scalars_ok (row : List Int) : ∀ (ks : List Int) (x : Nat), Step3 row (fun s => scalars row ks x s) ks x := by
  intro ks
  induction ks with
  | nil => intro x; simpa [scalars] using Step3.id row x
  | cons k ks ih =>
    intro x
    have := Step3.comp (step1 row x k) (ih (x + 1))
    simpa [scalars] using this

theorem pairs_ok (row : List Int) : ∀ (n : Nat) (ks : List Int), ks.length ≤ n → ∀ x : Nat,
    Step3 row (fun s => pairs row ks x s) ks x := by
  intro n
  induction n with
  | zero =>
    intro ks hn x
    have : ks = [] := List.eq_nil_of_length_eq_zero (by omega)
    subst this
    simpa [pairs, scalars] using Step3.id row x
  | succ n ih =>
    intro ks hn x
    match ks, hn with
    | [], _ => simpa [pairs, scalars] using Step3.id row x
    | [k], _ =>
      have := scalars_ok row [k] x
      simpa [pairs] using this
    | k0 :: k1 :: rest, hn =>
      have := Step3.comp (step2 row x k0 k1) (ih rest (by simp at hn; omega) (x + 2))
      simpa [pairs] using this

theorem run_ok (w : Nat) (row : List Int) (start : Nat) (ks : List Int) :
    Step3 row (fun s => run w row start ks s) ks start := by
  unfold run
  by_cases h : w - (start + ks.length) ≥ 1
  · simp only [h, if_true]; exact pairs_ok row ks.length ks (le_refl _) start
  · simp only [h, if_false]; exact scalars_ok row ks start

theorem sum3 (a b c d : Int) (h : wrap64 a % 2 ^ 64 = a % 2 ^ 64) (hb : wrap64 b % 2 ^ 64 = b % 2 ^ 64)
    (e : a + b = c + d) : wrap64 (wrap64 a + wrap64 b) = wrapInt 64 (c + d) := by
  apply wrapInt_congr
  rw [← e]
  generalize wrap64 a = wa at *
  generalize wrap64 b = wb at *
  omega

/-- **the SSE4.1 one-row kernel for RGB16 equals the portable kernel**, for every row width -/
theorem pixel_eq_portable (p w : Nat) (hp2 : 2 ≤ p) (row : List Int) (start : Nat) (ks : List Int) :
    SimdU16x3.pixel p w row start ks
      = [clip16 (2 ^ (p - 1) + dot3 row 0 ks start) p, clip16 (2 ^ (p - 1) + dot3 row 1 ks start) p,
         clip16 (2 ^ (p - 1) + dot3 row 2 ks start) p] := by
  unfold SimdU16x3.pixel
  simp only
  obtain ⟨e2, e3, hrun, hs⟩ := run_ok w row start ks (2 ^ (p - 1)) (2 ^ (p - 1)) (2 ^ (p - 2)) (2 ^ (p - 2))
  beta_reduce at hrun
  rw [hrun]
  simp only [List.getD_cons_succ, List.getD_cons_zero]
  have h2 : (2 : Int) ^ (p - 1) = 2 ^ (p - 2) + 2 ^ (p - 2) := by
    have := pow2_pred (p - 1) (by omega)
    rw [show p - 1 - 1 = p - 2 by omega] at this
    omega
  have hB := sum3 (2 ^ (p - 2) + e2) (2 ^ (p - 2) + e3) (2 ^ (p - 1)) (dot3 row 2 ks start)
    (wrapInt_emod 64 _) (wrapInt_emod 64 _) (by rw [h2, ← hs]; ring)
  rw [hB]
  rfl

/-- **each row of the SSE4.1 four-row kernel for RGB16 equals the portable kernel**, for every row width -/
theorem pixelR_eq_portable (p w : Nat) (row : List Int) (start : Nat) (ks : List Int) :
    SimdU16x3.pixelR p w row start ks
      = [clip16 (2 ^ (p - 1) + dot3 row 0 ks start) p, clip16 (2 ^ (p - 1) + dot3 row 1 ks start) p,
         clip16 (2 ^ (p - 1) + dot3 row 2 ks start) p] := by
  unfold SimdU16x3.pixelR
  simp only
  have h0 : ([[0, 0], [0, 0]] : List (List Int)) = [[wrap64 0, wrap64 0], [wrap64 0, wrap64 0]] := by decide
  rw [h0]
  obtain ⟨e2, e3, hrun, hs⟩ := run_ok w row start ks 0 0 0 0
  beta_reduce at hrun
  rw [hrun]
  simp only [List.getD_cons_succ, List.getD_cons_zero, zero_add]
  unfold clip16
  have hB : wrap64 (wrap64 (wrap64 e2 + wrap64 e3) + wrap64 (2 ^ (p - 1))) = wrapInt 64 (2 ^ (p - 1) + dot3 row 2 ks start) := by
    apply wrapInt_congr
    have h1 : wrap64 e2 % 2 ^ 64 = e2 % 2 ^ 64 := wrapInt_emod 64 e2
    have h2 : wrap64 e3 % 2 ^ 64 = e3 % 2 ^ 64 := wrapInt_emod 64 e3
    have h3 : wrap64 (2 ^ (p - 1)) % 2 ^ 64 = 2 ^ (p - 1) % 2 ^ 64 := wrapInt_emod 64 (2 ^ (p - 1))
    have h4 : wrap64 (wrap64 e2 + wrap64 e3) % 2 ^ 64 = (wrap64 e2 + wrap64 e3) % 2 ^ 64 := wrapInt_emod 64 _
    rw [← hs]
    generalize (2 : Int) ^ (p - 1) = c at *
    generalize wrap64 (wrap64 e2 + wrap64 e3) = s01 at *
    generalize wrap64 e2 = w0 at *
    generalize wrap64 e3 = w1 at *
    generalize wrap64 c = wc at *
    omega
  rw [hB, w64_add_left, w64_add_right, w64_add_left, w64_add_right]
  simp only [add_comm]

/-- every 128-bit load of the pair loop lies inside the row of `w` pixels (16 bytes from pixel `x`, 6 bytes per pixel) -/
theorem loads_in_row (w start : Nat) (ks : List Int) : ∀ x ∈ loads w start ks, 6 * x + 16 ≤ 6 * w := by
  intro x hx
  unfold loads at hx
  split at hx
  · rename_i h
    simp only [List.mem_map, List.mem_range] at hx
    obtain ⟨i, hi, rfl⟩ := hx
    omega
  · simp at hx

end Fir.Proofs.U16x3
