/-
  Fir.Proofs.SchedLemmas - lemmas about the schedule model (Fir/Model/Sched.lean) used by C08:
  writes to distinct indices commute, and banded passes perform the writes of the sequential pass.
-/
import Fir.Model.Sched
import Fir.Proofs.ViewLemmas
import Mathlib.Data.List.Perm.Basic

namespace Fir.Proofs
open Fir Fir.View

/-! ### writes to distinct indices commute -/

theorem write_comm (m : Mem) (a b : Nat × Int) (h : a.1 ≠ b.1) :
    (m.write a).write b = (m.write b).write a := by
  funext j
  simp only [Mem.write]
  by_cases h1 : j = b.1
  · have h2 : ¬ j = a.1 := fun h2 => h (h2.symm.trans h1)
    simp only [if_pos h1, if_neg h2]
  · by_cases h2 : j = a.1
    · simp only [if_neg h1, if_pos h2]
    · simp only [if_neg h1, if_neg h2]

theorem applyWrites_cons (w : Nat × Int) (ws : List (Nat × Int)) (m : Mem) :
    applyWrites (w :: ws) m = applyWrites ws (m.write w) := rfl

/-- two orders of the same writes with pairwise distinct targets produce the same memory -/
theorem writes_perm_invariant (ws1 ws2 : List (Nat × Int)) (hp : ws1.Perm ws2)
    (hnd : (ws1.map Prod.fst).Nodup) (m : Mem) : applyWrites ws1 m = applyWrites ws2 m := by
  induction hp generalizing m with
  | nil => rfl
  | cons x _ ih =>
    rw [applyWrites_cons, applyWrites_cons]
    rw [List.map_cons, List.nodup_cons] at hnd
    exact ih hnd.2 _
  | swap x y l =>
    rw [applyWrites_cons, applyWrites_cons, applyWrites_cons, applyWrites_cons]
    simp only [List.map_cons, List.nodup_cons, List.mem_cons, not_or] at hnd
    rw [write_comm m y x hnd.1.1]
  | trans h1 _ ih1 ih2 =>
    exact (ih1 hnd m).trans (ih2 ((List.Perm.nodup_iff (List.Perm.map Prod.fst h1)).mp hnd) m)

/-! ### row bands -/

/-- a well-formed view of positive width yields exactly `height - s` rows from row `s` -/
theorem rows_length (v : View) (hwf : v.wf = true) (hw : 0 < v.width) (s : Nat) :
    (v.rows s).length = v.height - s := by
  induction v generalizing s with
  | typed off w h len =>
    simp only [width] at hw
    simp only [rows, height]
    rw [if_neg (by omega)]
    simp
  | crop inner l t w h ih =>
    simp only [wf, cropValid, Bool.and_eq_true, decide_eq_true_eq] at hwf
    simp only [rows, height, List.length_map, List.length_take]
    rw [ih hwf.1 (by omega)]
    omega

/-- zipping two flattened lists whose blocks have pairwise equal lengths is the flattening of the
    block-wise zips -/
theorem zip_flatten_blocks {α β : Type} (A : List (List α)) (B : List (List β))
    (h : A.map List.length = B.map List.length) :
    ((A.zip B).map fun ab => ab.1.zip ab.2).flatten = A.flatten.zip B.flatten := by
  induction A generalizing B with
  | nil => simp
  | cons a A ih =>
    cases B with
    | nil => simp at h
    | cons b B =>
      simp only [List.map_cons, List.cons.injEq] at h
      simp only [List.zip_cons_cons, List.map_cons, List.flatten_cons]
      rw [ih B h.2, List.zip_append h.1]

/-- `zip` truncates: a `take` on the left at least as long as the right list is irrelevant -/
theorem zip_take_left {α β : Type} (l : List α) (r : List β) (n : Nat) (h : r.length ≤ n) :
    (l.take n).zip r = l.zip r := by
  induction l generalizing r n with
  | nil => simp
  | cons a l ih =>
    cases r with
    | nil => simp
    | cons b r =>
      cases n with
      | zero => simp at h
      | succ n =>
        simp only [List.length_cons, Nat.add_le_add_iff_right] at h
        simp only [List.take_succ_cons, List.zip_cons_cons, ih r n h]

theorem rowPassWrites_eq (f : List Int → List Int) (mem : Mem) (sR dR : List (List Nat)) :
    rowPassWrites f mem sR dR
      = ((sR.zip dR).map fun sd => sd.2.zip (f (sd.1.map mem))).flatten := rfl

theorem banded_rows_eq_sequential (f : List Int → List Int) (mem : Mem) (src dst : View)
    (hsw : src.wf = true) (hdw : dst.wf = true) (hsp : 0 < src.width) (hdp : 0 < dst.width)
    (offset k : Nat) (sps dps : List View)
    (hs : src.splitH offset dst.height k = some sps) (hd : dst.splitH 0 dst.height k = some dps) :
    ((sps.zip dps).map fun (sp, dp) => rowPassWrites f mem (sp.rows 0) (dp.rows 0)).flatten
      = rowPassWrites f mem (src.rows offset) (dst.rows 0) := by
  obtain ⟨_, s2, s3, s4⟩ := splitH_tiles src hsw offset dst.height k sps hs
  obtain ⟨_, d2, d3, d4⟩ := splitH_tiles dst hdw 0 dst.height k dps hd
  -- block lengths agree
  have hlenS : (sps.map fun p => p.rows 0).map List.length = splitSizes dst.height k := by
    rw [← s2, List.map_map]
    apply List.map_congr_left
    intro p hp
    have := s3 p hp
    simp only [Function.comp]
    rw [rows_length p this.2 (by omega)]
    simp
  have hlenD : (dps.map fun p => p.rows 0).map List.length = splitSizes dst.height k := by
    rw [← d2, List.map_map]
    apply List.map_congr_left
    intro p hp
    have := d3 p hp
    simp only [Function.comp]
    rw [rows_length p this.2 (by omega)]
    simp
  have hz := zip_flatten_blocks (sps.map fun p => p.rows 0) (dps.map fun p => p.rows 0)
    (hlenS.trans hlenD.symm)
  rw [s4, d4, List.zip_map, List.map_map] at hz
  have hdl : (dst.rows 0).take dst.height = dst.rows 0 :=
    List.take_of_length_le (by have := rows_length_le dst 0; omega)
  rw [hdl, zip_take_left _ _ _ (by have := rows_length_le dst 0; omega)] at hz
  rw [rowPassWrites_eq f mem (src.rows offset), ← hz, List.map_flatten, List.flatten_flatten,
    List.map_map, List.map_map]
  rfl

/-! ### column bands -/

/-- row `r` of part `i` of a width split is the `i`-th column slice of row `r` of the view -/
theorem splitW_part_row (v : View) (hwf : v.wf = true) (hh : 0 < v.height) (s n k : Nat)
    (ps : List View) (h : v.splitW s n k = some ps) (i : Nat) (hi : i < k) (r : Nat)
    (hr : r < v.height) :
    ((ps.getD i default).rows 0).getD r []
      = (((v.rows 0).getD r []).drop (s + offs n k i)).take (sz n k i) := by
  induction v generalizing s ps r with
  | typed off w H len =>
    rw [splitW_typed] at h
    cases hrj : splitRejected w s n k
    case true => simp [hrj] at h
    rw [hrj] at h
    simp only [Bool.false_eq_true, if_false, Option.some.injEq] at h
    subst h
    simp only [height] at hr
    have : ((List.range k).map fun i => crop (typed off w H len) (s + offs n k i) 0 (sz n k i) H).getD i default
        = crop (typed off w H len) (s + offs n k i) 0 (sz n k i) H := by
      simp [List.getD_eq_getElem?_getD, hi]
    rw [this, crop_row_getD _ _ _ _ _ _ hr, Nat.zero_add]
  | crop inner l t w H ih =>
    have hwf' := hwf
    simp only [wf, cropValid, Bool.and_eq_true, decide_eq_true_eq] at hwf
    simp only [height] at hh hr
    rw [splitW_crop] at h
    cases hrj : splitRejected w s n k
    case true => simp [hrj] at h
    rw [hrj] at h
    simp only [Bool.false_eq_true, if_false, Option.map_eq_some_iff] at h
    obtain ⟨ps', h', rfl⟩ := h
    rw [splitRejected_eq_false_iff] at hrj
    have hlen := (splitW_tiles inner hwf.1 (by omega) (s + l) n k ps' h').1
    have : (ps'.map fun p => crop p 0 t p.width H).getD i default
        = crop (ps'.getD i default) 0 t (ps'.getD i default).width H := by
      simp [List.getD_eq_getElem?_getD, hlen, hi]
    rw [this, crop_row_getD _ _ _ _ _ _ hr, List.drop_zero, List.take_of_length_le
      (getD_row_length_le _ 0 (t + r)), ih hwf.1 (by omega) (s + l) ps' h' (t + r) (by omega),
      crop_row_getD _ _ _ _ _ _ hr]
    have hle := offs_add_sz_le n k i hi
    rw [List.drop_take, List.take_take, List.drop_drop, Nat.min_eq_left (by omega)]
    congr 2
    omega

theorem banded_cols_aligned (src dst : View) (hsw : src.wf = true) (hdw : dst.wf = true)
    (hsh : 0 < src.height) (hdh : 0 < dst.height)
    (offset k : Nat) (sps dps : List View)
    (hs : src.splitW offset dst.width k = some sps) (hd : dst.splitW 0 dst.width k = some dps)
    (i : Nat) (hi : i < k) (r : Nat) :
    ∃ a n, (r < src.height → ((sps.getD i default).rows 0).getD r []
              = (((src.rows 0).getD r []).drop (offset + a)).take n) ∧
           (r < dst.height → ((dps.getD i default).rows 0).getD r []
              = (((dst.rows 0).getD r []).drop a).take n) := by
  refine ⟨offs dst.width k i, sz dst.width k i, ?_, ?_⟩
  · intro hr
    exact splitW_part_row src hsw hsh offset dst.width k sps hs i hi r hr
  · intro hr
    have := splitW_part_row dst hdw hdh 0 dst.width k dps hd i hi r hr
    rwa [Nat.zero_add] at this

theorem mem_flatten_of_mem_getD {α : Type} (L : List (List α)) (r : Nat) (x : α)
    (hx : x ∈ L.getD r []) : x ∈ L.flatten := by
  have hr := lt_length_of_mem_getD L r x hx
  rw [getD_eq_getElem' L r hr] at hx
  exact List.mem_flatten.mpr ⟨_, List.getElem_mem hr, hx⟩

theorem banded_cols_perm (dst : View) (hdw : dst.wf = true) (hdh : 0 < dst.height) (k : Nat)
    (dps : List View) (hd : dst.splitW 0 dst.width k = some dps) :
    ((dps.map fun p => (p.rows 0).flatten).flatten).Perm (dst.rows 0).flatten := by
  obtain ⟨_, _, h3, h4⟩ := splitW_tiles dst hdw hdh 0 dst.width k dps hd
  have hndL : ((dps.map fun p => (p.rows 0).flatten).flatten).Nodup := by
    rw [List.nodup_flatten]
    constructor
    · intro l hl
      simp only [List.mem_map] at hl
      obtain ⟨p, _, rfl⟩ := hl
      exact rows_flatten_nodup p 0
    · rw [List.pairwise_iff_getElem]
      intro i j hi hj hij
      simp only [List.length_map] at hi hj
      simp only [List.getElem_map]
      rw [List.disjoint_left]
      intro x hx
      exact splitW_parts_disjoint dst hdw hdh 0 dst.width k dps hd i j hij hj x hx
  rw [List.perm_ext_iff_of_nodup hndL (idx_nodup dst hdw)]
  intro x
  constructor
  · intro hx
    rw [List.mem_flatten] at hx
    obtain ⟨l, hl, hxl⟩ := hx
    simp only [List.mem_map] at hl
    obtain ⟨p, hp, rfl⟩ := hl
    obtain ⟨r, _, _, hxv⟩ := splitW_part_row_mem dst hdw hdh 0 dst.width k dps hd p hp x hxl
    exact mem_flatten_of_mem_getD _ r x hxv
  · intro hx
    obtain ⟨r, hr, hxr⟩ := mem_flatten_getD _ x hx
    have hrh : r < dst.height := by
      have := rows_length_le dst 0
      omega
    have h4r := h4 r hrh
    rw [List.drop_zero, List.take_of_length_le (getD_row_length_le dst 0 r)] at h4r
    rw [← h4r, List.mem_flatten] at hxr
    obtain ⟨l, hl, hxl⟩ := hxr
    simp only [List.mem_map] at hl
    obtain ⟨p, hp, rfl⟩ := hl
    exact List.mem_flatten.mpr ⟨_, List.mem_map_of_mem hp, mem_flatten_of_mem_getD _ r x hxl⟩

end Fir.Proofs
