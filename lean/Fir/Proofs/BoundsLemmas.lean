/-
  Fir.Proofs.BoundsLemmas - helper lemmas for C03 (window arithmetic, temporary-image extent,
  clip indices, precision loop, constify arms).
-/
import Fir.Model.Bounds
import Fir.Generated.Clip
import Fir.Generated.Constify
namespace Fir.Proofs
open Fir.Bounds Fir.Gen

/-! ### leading / trailing -/

theorem leading_inv (isZero : Nat → Bool) (xMax : Nat) :
    ∀ (fuel x bs pushed : Nat), x ≤ xMax → fuel = xMax - x → bs + pushed = x →
      (leading isZero x xMax bs pushed fuel).1 + (leading isZero x xMax bs pushed fuel).2 = xMax ∧
      bs ≤ (leading isZero x xMax bs pushed fuel).1 := by
  intro fuel
  induction fuel with
  | zero =>
    intro x bs pushed hx hf hs
    simp only [leading]
    omega
  | succ n ih =>
    intro x bs pushed hx hf hs
    have hlt : x < xMax := by omega
    simp only [leading, if_pos hlt]
    split
    · rename_i h
      have := ih (x + 1) (bs + 1) pushed (by omega) (by omega) (by omega)
      omega
    · have := ih (x + 1) bs (pushed + 1) (by omega) (by omega) (by omega)
      omega

theorem leading_le_nonzero (isZero : Nat → Bool) (xMax t : Nat) (ht : isZero t = false) :
    ∀ (fuel x bs pushed : Nat), bs ≤ t → (leading isZero x xMax bs pushed fuel).1 ≤ t := by
  intro fuel
  induction fuel with
  | zero => intro x bs pushed hb; simpa only [leading] using hb
  | succ n ih =>
    intro x bs pushed hb
    simp only [leading]
    split
    · split
      · rename_i h
        apply ih
        have hne : x ≠ t := by
          intro hxt
          rw [hxt, ht] at h
          exact absurd h.2 (by decide)
        omega
      · exact ih _ _ _ hb
    · exact hb

theorem trailing_le (isZero : Nat → Bool) (bs : Nat) :
    ∀ (fuel be : Nat), trailing isZero bs be fuel ≤ be := by
  intro fuel
  induction fuel with
  | zero => intro be; simp only [trailing]; omega
  | succ n ih =>
    intro be
    simp only [trailing]
    split
    · omega
    · have := ih (be - 1); omega

theorem trailing_ge_start (isZero : Nat → Bool) (bs : Nat) :
    ∀ (fuel be : Nat), bs ≤ be → bs ≤ trailing isZero bs be fuel := by
  intro fuel
  induction fuel with
  | zero => intro be h; simpa only [trailing] using h
  | succ n ih =>
    intro be h
    simp only [trailing]
    split
    · exact h
    · rename_i hn
      apply ih
      omega

theorem trailing_ge_nonzero (isZero : Nat → Bool) (bs t : Nat) (ht : isZero t = false) :
    ∀ (fuel be : Nat), t + 1 ≤ be → t + 1 ≤ trailing isZero bs be fuel := by
  intro fuel
  induction fuel with
  | zero => intro be h; simpa only [trailing] using h
  | succ n ih =>
    intro be h
    simp only [trailing]
    split
    · exact h
    · rename_i hn
      apply ih
      have hne : be - 1 ≠ t := by
        intro hbt
        apply hn
        right
        rw [hbt]; exact ht
      omega

theorem window_in_source (isZero : Nat → Bool) (xMin xMax inSize : Nat) (h1 : xMin ≤ xMax) (h2 : xMax ≤ inSize) :
    let w := window isZero xMin xMax
    xMin ≤ w.1 ∧ w.1 + w.2.1 ≤ xMax ∧ w.1 + w.2.1 ≤ inSize ∧ w.2.1 ≤ w.2.2 ∧ w.1 + w.2.2 = xMax := by
  intro w
  have hl := leading_inv isZero xMax (xMax - xMin) xMin xMin 0 h1 rfl rfl
  have ht := trailing_le isZero (leading isZero xMin xMax xMin 0 (xMax - xMin)).1 (xMax - xMin) xMax
  have hw1 : w.1 = (leading isZero xMin xMax xMin 0 (xMax - xMin)).1 := rfl
  have hw2 : w.2.1 = trailing isZero (leading isZero xMin xMax xMin 0 (xMax - xMin)).1 xMax (xMax - xMin)
      - (leading isZero xMin xMax xMin 0 (xMax - xMin)).1 := rfl
  have hw3 : w.2.2 = (leading isZero xMin xMax xMin 0 (xMax - xMin)).2 := rfl
  rw [hw1, hw2, hw3]
  omega

theorem window_nonempty (isZero : Nat → Bool) (xMin xMax x : Nat) (hx : xMin ≤ x ∧ x < xMax) (hnz : isZero x = false) :
    0 < (window isZero xMin xMax).2.1 := by
  have hl := leading_le_nonzero isZero xMax x hnz (xMax - xMin) xMin xMin 0 hx.1
  have ht := trailing_ge_nonzero isZero (leading isZero xMin xMax xMin 0 (xMax - xMin)).1 x hnz
    (xMax - xMin) xMax (by omega)
  have hw2 : (window isZero xMin xMax).2.1 =
      trailing isZero (leading isZero xMin xMax xMin 0 (xMax - xMin)).1 xMax (xMax - xMin)
      - (leading isZero xMin xMax xMin 0 (xMax - xMin)).1 := rfl
  rw [hw2]
  omega

/-! ### temporary image extent -/

theorem foldl_min_le_init (l : List (Nat × Nat)) :
    ∀ init : Nat, l.foldl (fun m b => min m b.1) init ≤ init := by
  induction l with
  | nil => intro init; simp
  | cons a l ih =>
    intro init
    simp only [List.foldl_cons]
    have := ih (min init a.1)
    omega

theorem foldl_min_le_mem (l : List (Nat × Nat)) (b : Nat × Nat) (hb : b ∈ l) :
    ∀ init : Nat, l.foldl (fun m b => min m b.1) init ≤ b.1 := by
  induction l with
  | nil => cases hb
  | cons a l ih =>
    intro init
    simp only [List.foldl_cons]
    rcases List.mem_cons.mp hb with h | h
    · subst h
      have := foldl_min_le_init l (min init b.1)
      omega
    · exact ih h _

theorem foldl_max_ge_init (l : List (Nat × Nat)) :
    ∀ init : Nat, init ≤ l.foldl (fun m b => max m (b.1 + b.2)) init := by
  induction l with
  | nil => intro init; simp
  | cons a l ih =>
    intro init
    simp only [List.foldl_cons]
    have := ih (max init (a.1 + a.2))
    omega

theorem foldl_max_ge_mem (l : List (Nat × Nat)) (b : Nat × Nat) (hb : b ∈ l) :
    ∀ init : Nat, b.1 + b.2 ≤ l.foldl (fun m b => max m (b.1 + b.2)) init := by
  induction l with
  | nil => cases hb
  | cons a l ih =>
    intro init
    simp only [List.foldl_cons]
    rcases List.mem_cons.mp hb with h | h
    · subst h
      have := foldl_max_ge_init l (max init (b.1 + b.2))
      omega
    · exact ih h _

theorem temp_image_fits (bounds : List (Nat × Nat)) (b : Nat × Nat) (hb : b ∈ bounds) :
    let e := tempExtent bounds
    e.1 ≤ b.1 ∧ (b.1 - e.1) + b.2 ≤ e.2 - e.1 := by
  intro e
  have h1 : e.1 ≤ b.1 := foldl_min_le_mem bounds b hb _
  have h2 : b.1 + b.2 ≤ e.2 := foldl_max_ge_mem bounds b hb _
  omega

theorem shift_bounds_same_samples (bounds : List (Nat × Nat)) (b : Nat × Nat) (hb : b ∈ bounds) (i : Nat) :
    (tempExtent bounds).1 + ((b.1 - (tempExtent bounds).1) + i) = b.1 + i := by
  have h1 : (tempExtent bounds).1 ≤ b.1 := foldl_min_le_mem bounds b hb _
  omega

/-! ### clip -/

theorem wrapInt32_id_nonneg (x : Int) (h0 : 0 ≤ x) (h1 : x < 2147483648) : wrapInt 32 x = x := by
  unfold wrapInt
  have hp : (2 : Int) ^ 32 = 4294967296 := by decide
  simp only [hp]
  have hm : x % 4294967296 = x := Int.emod_eq_of_lt h0 (by omega)
  rw [hm]
  split <;> omega

theorem clip_index_in_table (v : Int) (p : Nat) (_hv : -(2 ^ 31 : Int) ≤ v ∧ v < 2 ^ 31) (hp : p < 32) :
    clip16_index v p < clip8_table_size ∧ clip16_index_ok v p := by
  unfold clip16_index clip16_index_ok clip8_table_size
  generalize v / 2 ^ p = q
  have hs0 : 0 ≤ max (-640) (min 639 q) + 640 := by omega
  have hs1 : max (-640) (min 639 q) + 640 ≤ 1279 := by omega
  rw [wrapInt32_id_nonneg _ hs0 (by omega)]
  refine ⟨?_, hp, by decide, by decide, by omega, by omega⟩
  omega

theorem clip32_total (v : Int) (p : Nat) (hp : p < 64) : clip32_ok v p ∧ clip32 v p ≤ 65535 := by
  unfold clip32_ok clip32
  generalize v / 2 ^ p = q
  refine ⟨hp, ?_⟩
  omega

/-! ### precision loop -/

theorem precisionLoop_bounds (next : Nat → Int) (limit : Int) :
    ∀ (fuel cur : Nat), cur ≤ precisionLoop next limit cur fuel ∧
      (0 < fuel → precisionLoop next limit cur fuel < cur + fuel) := by
  intro fuel
  induction fuel with
  | zero => intro cur; simp [precisionLoop]
  | succ n ih =>
    intro cur
    simp only [precisionLoop]
    split
    · omega
    · split
      · omega
      · have := ih (cur + 1)
        omega

theorem precision_lt_bits (next : Nat → Int) (limit : Int) (bits : Nat) (hb : 0 < bits) :
    precisionOf next limit bits < bits := by
  have := (precisionLoop_bounds next limit bits 0).2 hb
  unfold precisionOf
  omega

theorem precision_ge_one (next : Nat → Int) (limit : Int) (bits : Nat) (hb : 2 ≤ bits) (h0 : next 0 < limit) :
    1 ≤ precisionOf next limit bits := by
  unfold precisionOf
  obtain ⟨n, rfl⟩ : ∃ n, bits = n + 1 := ⟨bits - 1, by omega⟩
  simp only [precisionLoop]
  rw [if_neg (by omega), if_neg (by omega)]
  exact (precisionLoop_bounds next limit n 1).1

/-! ### constify arms -/

theorem precision_in_arms (p : Nat) (h1 : 1 ≤ p) (h2 : p < PRECISION_BITS) :
    p ∈ constify_arms ∧ p ∉ constify_noop_arms ∧ p ≤ constify_mask := by
  have key : ∀ q : Fin 22, 1 ≤ q.val →
      q.val ∈ constify_arms ∧ q.val ∉ constify_noop_arms ∧ q.val ≤ constify_mask := by decide
  exact key ⟨p, h2⟩ h1

end Fir.Proofs
