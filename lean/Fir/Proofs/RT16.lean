/-
  Fir.Proofs.RT16 - facts about the u16 <-> f32 soft-float conversions for *all* 65,536 values,
  assembled from 16 kernel-evaluated chunks.
-/
import Fir.Proofs.RT16.Def
import Fir.Proofs.RT16.C00
import Fir.Proofs.RT16.C01
import Fir.Proofs.RT16.C02
import Fir.Proofs.RT16.C03
import Fir.Proofs.RT16.C04
import Fir.Proofs.RT16.C05
import Fir.Proofs.RT16.C06
import Fir.Proofs.RT16.C07
import Fir.Proofs.RT16.C08
import Fir.Proofs.RT16.C09
import Fir.Proofs.RT16.C10
import Fir.Proofs.RT16.C11
import Fir.Proofs.RT16.C12
import Fir.Proofs.RT16.C13
import Fir.Proofs.RT16.C14
import Fir.Proofs.RT16.C15

namespace Fir.Proofs.RT16

theorem chunk_lift (base : Nat)
    (h : (List.range 16).all (fun hi => (List.range 256).all (fun lo => u16Ok (base + 256 * hi + lo))) = true)
    (x : Nat) (h1 : base ≤ x) (h2 : x < base + 4096) : u16Ok x = true := by
  rw [List.all_eq_true] at h
  have ha := h ((x - base) / 256) (List.mem_range.mpr (by omega))
  rw [List.all_eq_true] at ha
  have hb := ha ((x - base) % 256) (List.mem_range.mpr (by omega))
  have e : base + 256 * ((x - base) / 256) + (x - base) % 256 = x := by omega
  rw [e] at hb
  exact hb

theorem u16Ok_all (x : Nat) (hx : x < 65536) : u16Ok x = true := by
  have hcases : x < 4096 ∨ (4096 ≤ x ∧ x < 8192) ∨ (8192 ≤ x ∧ x < 12288) ∨ (12288 ≤ x ∧ x < 16384) ∨
      (16384 ≤ x ∧ x < 20480) ∨ (20480 ≤ x ∧ x < 24576) ∨ (24576 ≤ x ∧ x < 28672) ∨ (28672 ≤ x ∧ x < 32768) ∨
      (32768 ≤ x ∧ x < 36864) ∨ (36864 ≤ x ∧ x < 40960) ∨ (40960 ≤ x ∧ x < 45056) ∨ (45056 ≤ x ∧ x < 49152) ∨
      (49152 ≤ x ∧ x < 53248) ∨ (53248 ≤ x ∧ x < 57344) ∨ (57344 ≤ x ∧ x < 61440) ∨ (61440 ≤ x ∧ x < 65536) := by omega
  rcases hcases with h | h | h | h | h | h | h | h | h | h | h | h | h | h | h | h
  · exact chunk_lift 0 chunk00 x (by omega) (by omega)
  · exact chunk_lift 4096 chunk01 x (by omega) (by omega)
  · exact chunk_lift 8192 chunk02 x (by omega) (by omega)
  · exact chunk_lift 12288 chunk03 x (by omega) (by omega)
  · exact chunk_lift 16384 chunk04 x (by omega) (by omega)
  · exact chunk_lift 20480 chunk05 x (by omega) (by omega)
  · exact chunk_lift 24576 chunk06 x (by omega) (by omega)
  · exact chunk_lift 28672 chunk07 x (by omega) (by omega)
  · exact chunk_lift 32768 chunk08 x (by omega) (by omega)
  · exact chunk_lift 36864 chunk09 x (by omega) (by omega)
  · exact chunk_lift 40960 chunk10 x (by omega) (by omega)
  · exact chunk_lift 45056 chunk11 x (by omega) (by omega)
  · exact chunk_lift 49152 chunk12 x (by omega) (by omega)
  · exact chunk_lift 53248 chunk13 x (by omega) (by omega)
  · exact chunk_lift 57344 chunk14 x (by omega) (by omega)
  · exact chunk_lift 61440 chunk15 x (by omega) (by omega)

end Fir.Proofs.RT16
