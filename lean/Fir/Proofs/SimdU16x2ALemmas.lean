/-
  Fir.Proofs.SimdU16x2ALemmas - the AVX2 one-row horizontal kernel for LA16 (`Fir.Model.SimdU16x2A`) equals the portable kernel:
  each half of its masks is the SSE4.1 mask, so each half of a step is an SSE4.1 step; the two halves together gain the dot
  product of the coefficients consumed (`StepB`, compositional).
-/
import Fir.Model.SimdU16x2A
import Fir.Proofs.SimdU16x2Lemmas
import Fir.Proofs.SimdU16x1Lemmas
import Fir.Proofs.SimdU16x4ALemmas
import Mathlib.Tactic.Ring
import Mathlib.Tactic.Linarith

set_option linter.unnecessarySeqFocus false
set_option linter.unreachableTactic false
set_option linter.unusedTactic false
set_option linter.unusedSimpArgs false

namespace Fir.Proofs.U16x2A
open Fir Fir.SimdU16x2 Fir.SimdU16x2A Fir.Gen Fir.Proofs
open Fir.SimdU8x4 (wrap32 pshufb)
open Fir.SimdVertU16 (wrap64 s32 add64 mulEpi32)
open Fir.Proofs.U16x1 (w64_idem w32_zero s32_zero)

theorem masks_lo : u16x2_avx2_one_p0_lo = u16x2_sse4_p0 ∧ u16x2_avx2_one_p1_lo = u16x2_sse4_p1 ∧
    u16x2_avx2_one_p2_lo = u16x2_sse4_p2 ∧ u16x2_avx2_one_p3_lo = u16x2_sse4_p3 := by
  refine ⟨?_, ?_, ?_, ?_⟩ <;> decide

theorem masks_hi : u16x2_avx2_one_p0_hi = u16x2_sse4_p0 ∧ u16x2_avx2_one_p1_hi = u16x2_sse4_p1 ∧
    u16x2_avx2_one_p2_hi = u16x2_sse4_p2 ∧ u16x2_avx2_one_p3_hi = u16x2_sse4_p3 := by
  refine ⟨?_, ?_, ?_, ?_⟩ <;> decide

theorem h4_sse (s row : List Int) (x : Nat) (k0 k1 k2 k3 : Int) :
    h4 u16x2_sse4_p0 u16x2_sse4_p1 u16x2_sse4_p2 u16x2_sse4_p3 s (srcLA row x 4) k0 k1 k2 k3 = SimdU16x2.acc4 s row x k0 k1 k2 k3 := rfl
theorem h2_sse (s row : List Int) (x : Nat) (k0 k1 : Int) :
    h2 u16x2_sse4_p0 u16x2_sse4_p1 s (srcLA row x 2) k0 k1 = SimdU16x2.acc2 s row x k0 k1 := rfl
theorem h1_sse (s row : List Int) (x : Nat) (k : Int) :
    h1 u16x2_sse4_p0 s (srcLA row x 1) k = SimdU16x2.acc1 s row x k := rfl

theorem w64_zero : wrap64 0 = 0 := by decide

theorem h1_zero (t0 t1 : Int) :
    h1 u16x2_sse4_p0 [wrap64 t0, wrap64 t1] (List.replicate 16 0) 0 = [wrap64 (t0 + 0), wrap64 (t1 + 0)] := by
  simp only [h1, add64, mulEpi32, pshufb, u16x2_sse4_p0,
    List.range, List.range.loop, List.map, List.replicate, List.getD_cons_succ, List.getD_cons_zero, List.zipWith]
  simp [s32_zero, w32_zero, w64_idem, w64_zero]

def st (a0 a1 b0 b1 : Int) : St2 := ([wrap64 a0, wrap64 a1], [wrap64 b0, wrap64 b1])

def StepB (row : List Int) (f : St2 → St2) (ks : List Int) (x : Nat) : Prop :=
  ∀ a0 a1 b0 b1 : Int, ∃ e0 e1 d0 d1 : Int,
    f (st a0 a1 b0 b1) = st (a0 + e0) (a1 + e1) (b0 + d0) (b1 + d1) ∧
    e0 + d0 = dotLA row 0 ks x ∧ e1 + d1 = dotLA row 1 ks x

theorem dotLA_append (row : List Int) (c : Nat) (a b : List Int) (x : Nat) :
    dotLA row c (a ++ b) x = dotLA row c a x + dotLA row c b (x + a.length) := by
  induction a generalizing x with
  | nil => simp [dotLA]
  | cons k a ih =>
    simp only [List.cons_append, dotLA, ih, List.length_cons]
    have : x + 1 + a.length = x + (a.length + 1) := by omega
    rw [this]; ring

theorem StepB.id (row : List Int) (x : Nat) : StepB row (fun s => s) [] x := by
  intro a0 a1 b0 b1
  exact ⟨0, 0, 0, 0, by simp, by simp [dotLA], by simp [dotLA]⟩

theorem StepB.comp {row : List Int} {f g : St2 → St2} {ks1 ks2 : List Int} {x : Nat}
    (hf : StepB row f ks1 x) (hg : StepB row g ks2 (x + ks1.length)) :
    StepB row (fun s => g (f s)) (ks1 ++ ks2) x := by
  intro a0 a1 b0 b1
  obtain ⟨e0, e1, d0, d1, hfe, h0, h1⟩ := hf a0 a1 b0 b1
  obtain ⟨e0', e1', d0', d1', hge, h0', h1'⟩ := hg (a0 + e0) (a1 + e1) (b0 + d0) (b1 + d1)
  refine ⟨e0 + e0', e1 + e1', d0 + d0', d1 + d1', ?_, ?_, ?_⟩
  · simp only [hfe, hge, add_assoc]
  all_goals (rw [dotLA_append]; linarith)

theorem step8 (row : List Int) (x : Nat) (k0 k1 k2 k3 k4 k5 k6 k7 : Int) :
    StepB row (fun s => acc8A s row x k0 k1 k2 k3 k4 k5 k6 k7) [k0, k1, k2, k3, k4, k5, k6, k7] x := by
  intro a0 a1 b0 b1
  have hrun : acc8A (st a0 a1 b0 b1) row x k0 k1 k2 k3 k4 k5 k6 k7
      = st (a0 + dotLA row 0 [k0, k1, k2, k3] x) (a1 + dotLA row 1 [k0, k1, k2, k3] x)
           (b0 + dotLA row 0 [k4, k5, k6, k7] (x + 4)) (b1 + dotLA row 1 [k4, k5, k6, k7] (x + 4)) := by
    simp only [acc8A, st, masks_lo.1, masks_lo.2.1, masks_lo.2.2.1, masks_lo.2.2.2, masks_hi.1, masks_hi.2.1, masks_hi.2.2.1,
      masks_hi.2.2.2, h4_sse, U16x2.acc4_eq]
  refine ⟨_, _, _, _, hrun, ?_, ?_⟩ <;> (simp only [dotLA]; ring_nf)

theorem step4 (row : List Int) (x : Nat) (k0 k1 k2 k3 : Int) :
    StepB row (fun s => acc4A s row x k0 k1 k2 k3) [k0, k1, k2, k3] x := by
  intro a0 a1 b0 b1
  have hrun : acc4A (st a0 a1 b0 b1) row x k0 k1 k2 k3
      = st (a0 + dotLA row 0 [k0, k1] x) (a1 + dotLA row 1 [k0, k1] x)
           (b0 + dotLA row 0 [k2, k3] (x + 2)) (b1 + dotLA row 1 [k2, k3] (x + 2)) := by
    simp only [acc4A, st, masks_lo.1, masks_lo.2.1, masks_hi.1, masks_hi.2.1, h2_sse, U16x2.acc2_eq]
  refine ⟨_, _, _, _, hrun, ?_, ?_⟩ <;> (simp only [dotLA]; ring_nf)

theorem step2 (row : List Int) (x : Nat) (k0 k1 : Int) :
    StepB row (fun s => acc2A s row x k0 k1) [k0, k1] x := by
  intro a0 a1 b0 b1
  have hrun : acc2A (st a0 a1 b0 b1) row x k0 k1
      = st (a0 + dotLA row 0 [k0] x) (a1 + dotLA row 1 [k0] x) (b0 + dotLA row 0 [k1] (x + 1)) (b1 + dotLA row 1 [k1] (x + 1)) := by
    simp only [acc2A, st, masks_lo.1, masks_hi.1, h1_sse, U16x2.acc1_eq]
  refine ⟨_, _, _, _, hrun, ?_, ?_⟩ <;> (simp only [dotLA]; ring_nf)

theorem step1 (row : List Int) (x : Nat) (k : Int) :
    StepB row (fun s => acc1A s row x k) [k] x := by
  intro a0 a1 b0 b1
  have hrun : acc1A (st a0 a1 b0 b1) row x k
      = st (a0 + dotLA row 0 [k] x) (a1 + dotLA row 1 [k] x) (b0 + 0) (b1 + 0) := by
    simp only [acc1A, st, masks_lo.1, masks_hi.1, h1_sse, U16x2.acc1_eq, h1_zero]
  refine ⟨_, _, _, _, hrun, ?_, ?_⟩ <;> (simp only [dotLA]; ring_nf)

theorem loopA_ok (row : List Int) : ∀ (n : Nat) (ks : List Int), ks.length ≤ n → ∀ x : Nat,
    StepB row (fun s => loopA row ks x s) ks x := by
  intro n
  induction n with
  | zero =>
    intro ks hn x
    have : ks = [] := List.eq_nil_of_length_eq_zero (by omega)
    subst this
    simpa [loopA] using StepB.id row x
  | succ n ih =>
    intro ks hn x
    match ks, hn with
    | [], _ => simpa [loopA] using StepB.id row x
    | [k], _ => simpa [loopA] using step1 row x k
    | [k0, k1], _ => simpa [loopA] using step2 row x k0 k1
    | [k0, k1, k2], _ =>
      have := StepB.comp (step2 row x k0 k1) (step1 row (x + 2) k2)
      simpa [loopA] using this
    | [k0, k1, k2, k3], _ => simpa [loopA] using step4 row x k0 k1 k2 k3
    | [k0, k1, k2, k3, k4], _ =>
      have := StepB.comp (step4 row x k0 k1 k2 k3) (step1 row (x + 4) k4)
      simpa [loopA] using this
    | [k0, k1, k2, k3, k4, k5], _ =>
      have := StepB.comp (step4 row x k0 k1 k2 k3) (step2 row (x + 4) k4 k5)
      simpa [loopA] using this
    | [k0, k1, k2, k3, k4, k5, k6], _ =>
      have := StepB.comp (StepB.comp (step4 row x k0 k1 k2 k3) (step2 row (x + 4) k4 k5)) (step1 row (x + 4 + 2) k6)
      simpa [loopA] using this
    | k0 :: k1 :: k2 :: k3 :: k4 :: k5 :: k6 :: k7 :: rest, hn =>
      have := StepB.comp (step8 row x k0 k1 k2 k3 k4 k5 k6 k7) (ih rest (by simp at hn; omega) (x + 8))
      simpa [loopA] using this

/-- **the AVX2 one-row kernel for LA16 equals the portable kernel** -/
theorem pixelA_eq_portable (p : Nat) (row : List Int) (start : Nat) (ks : List Int) :
    pixelA p row start ks
      = [clip16 (2 ^ (p - 1) + dotLA row 0 ks start) p, clip16 (2 ^ (p - 1) + dotLA row 1 ks start) p] := by
  unfold pixelA
  simp only
  have h0 : (([0, 0], [0, 0]) : St2) = st 0 0 0 0 := by decide
  rw [h0]
  obtain ⟨e0, e1, d0, d1, hrun, h0, h1⟩ := loopA_ok row ks.length ks (le_refl _) start 0 0 0 0
  beta_reduce at hrun
  rw [hrun]
  simp only [st, List.range, List.range.loop, List.map, List.getD_cons_succ, List.getD_cons_zero]
  rw [U16x4A.join e0 d0 _ _ h0, U16x4A.join e1 d1 _ _ h1]
  rfl

end Fir.Proofs.U16x2A
