/-
  Fir.Proofs.RowCursorLemmas - the stateful row loop of `resample_nearest` selects exactly the requested rows.
-/
import Fir.Model.RowCursor
namespace Fir.Proofs
open Fir.RowCursor

/-- invariant: iterator position and `next_row_y` agree; a cached row is row `next - 1` -/
def CursorInv (c : Cursor) : Prop := c.pos = c.next ∧ ∀ r, c.cur = some r → r + 1 = c.next

theorem run_eq_reqs (H : Nat) (c : Cursor) (reqs : List Nat) (hinv : CursorInv c)
    (hlt : ∀ r ∈ reqs, r < H)
    (hsorted : reqs.Pairwise (· ≤ ·))
    (hfirst : ∀ r ∈ reqs, (c.cur = none → c.next ≤ r) ∧ (∀ r0, c.cur = some r0 → r0 ≤ r)) :
    run H c reqs = reqs := by
  induction reqs generalizing c with
  | nil => rfl
  | cons req reqs ih =>
    obtain ⟨hpos, hcur⟩ := hinv
    have hreq : req < H := hlt req (List.mem_cons_self ..)
    have hf := hfirst req (List.mem_cons_self ..)
    rw [List.pairwise_cons] at hsorted
    obtain ⟨hle, hs⟩ := hsorted
    simp only [run]
    by_cases hcond : c.cur.isNone ∨ c.next ≤ req
    · -- the cursor advances to row `req`
      have hn : c.next ≤ req := by
        rcases hcond with h | h
        · exact hf.1 (Option.isNone_iff_eq_none.mp h)
        · exact h
      have hstep : step H c req = { next := req + 1, pos := req + 1, cur := some req } := by
        simp only [step, if_pos hcond, nth, hpos]
        have e : c.next + (req - c.next) = req := by omega
        simp [e, hreq]
      rw [hstep]
      simp only
      congr 1
      apply ih
      · exact ⟨rfl, fun r h => by simp at h; subst h; rfl⟩
      · exact fun r hr => hlt r (List.mem_cons_of_mem _ hr)
      · exact hs
      · intro r hr
        refine ⟨fun h => by simp at h, fun r0 h => ?_⟩
        simp at h
        subst h
        exact hle r hr
    · -- the cached row is requested again
      have hc : c.cur.isSome ∧ req < c.next := by
        constructor
        · cases h : c.cur with
          | none => exact absurd (Or.inl (by simp [h])) hcond
          | some _ => rfl
        · omega
      obtain ⟨r0, hr0⟩ := Option.isSome_iff_exists.mp hc.1
      have h1 : r0 + 1 = c.next := hcur r0 hr0
      have h2 : r0 ≤ req := hf.2 r0 hr0
      have hreq0 : r0 = req := by omega
      have hstep : step H c req = c := by simp only [step, if_neg hcond]
      rw [hstep, hr0]
      simp only
      rw [hreq0]
      congr 1
      apply ih
      · exact ⟨hpos, hcur⟩
      · exact fun r hr => hlt r (List.mem_cons_of_mem _ hr)
      · exact hs
      · intro r hr
        refine ⟨fun h => by rw [hr0] at h; simp at h, fun r1 h => ?_⟩
        rw [hr0] at h
        simp at h
        subst h
        rw [hreq0]
        exact hle r hr

/-- started as the code starts it - iterator at the first requested row, no cached row - the loop hands
    out exactly the requested rows, in order, and never breaks early -/
theorem row_cursor_eq_direct (H : Nat) (reqs : List Nat) (hlt : ∀ r ∈ reqs, r < H)
    (hsorted : reqs.Pairwise (· ≤ ·)) :
    run H (init (reqs.headD 0)) reqs = reqs := by
  apply run_eq_reqs
  · exact ⟨rfl, fun r h => by simp [init] at h⟩
  · exact hlt
  · exact hsorted
  · intro r hr
    refine ⟨fun _ => ?_, fun r0 h => by simp [init] at h⟩
    cases reqs with
    | nil => simp at hr
    | cons a as =>
      simp only [init, List.headD_cons]
      rw [List.pairwise_cons] at hsorted
      rcases List.mem_cons.mp hr with h | h
      · omega
      · exact hsorted.1 r h

end Fir.Proofs
