/-
  Fir.Proofs.TwoPass16Lemmas - the 16-bit counterparts of TwoPassLemmas (pass order: horizontal into a
  temporary image of height `tempH` that starts at source row `yFirst`, then vertical), the range
  corollaries of C18 for whole images, and the link to `doConvolution` for 16-bit pixel types.
-/
import Fir.Model.Resample
import Fir.Model.Resizer
import Fir.Proofs.ImageLemmas
import Fir.Proofs.TwoPassLemmas
namespace Fir.Proofs
open Fir

/-! ### C01, 16 bit: one pass on images -/

theorem horizPass_err_u16 (src : Img) (dstW dstH offset : Nat) (c : Coeffs) (ws : Nat → List ℚ)
    (hp1 : 1 ≤ (qOf .u16 c).precision) (hp : (qOf .u16 c).precision < 64)
    (hlen : ∀ x, x < dstW → (chunkAt .u16 c x).2.toList.length = (ws x).length)
    (hq : ∀ x, x < dstW → ∀ i, i < (ws x).length →
      |(((chunkAt .u16 c x).2.toList.getD i 0 : Int) : ℚ) - (ws x).getD i 0 * 2 ^ (qOf .u16 c).precision| ≤ 1 / 2)
    (hsamp : ∀ x y ch, x < dstW → y < dstH → ch < src.n → ∀ s ∈ hWindow .u16 src offset c x y ch, 0 ≤ s ∧ s ≤ 65535)
    (hacc : ∀ x y ch, x < dstW → y < dstH → ch < src.n →
      AccOK16 (chunkAt .u16 c x).2.toList (hWindow .u16 src offset c x y ch) (qOf .u16 c).precision)
    (x y ch : Nat) (hx : x < dstW) (hy : y < dstH) (hc : ch < src.n) :
    |(((horizPass .u16 src dstW dstH offset c).get x y ch : Int) : ℚ)
        - max 0 (min 65535 (idealDotQ (ws x) (hWindow .u16 src offset c x y ch)))|
      ≤ 1 / 2 + ((ws x).length : ℚ) * 65535 / 2 ^ ((qOf .u16 c).precision + 1) := by
  rw [horizPass_get .u16 (by simp) src dstW dstH offset c x y ch hx hy hc]
  exact passInt_err_u16 (ws x) _ _ _ hp1 hp (hlen x hx)
    (by rw [hWindow_length]; exact hlen x hx) (hq x hx) (hsamp x y ch hx hy hc) (hacc x y ch hx hy hc)

theorem vertPass_err_u16 (src : Img) (dstW dstH offset : Nat) (c : Coeffs) (ws : Nat → List ℚ)
    (hp1 : 1 ≤ (qOf .u16 c).precision) (hp : (qOf .u16 c).precision < 64)
    (hlen : ∀ y, y < dstH → (chunkAt .u16 c y).2.toList.length = (ws y).length)
    (hq : ∀ y, y < dstH → ∀ i, i < (ws y).length →
      |(((chunkAt .u16 c y).2.toList.getD i 0 : Int) : ℚ) - (ws y).getD i 0 * 2 ^ (qOf .u16 c).precision| ≤ 1 / 2)
    (hsamp : ∀ x y ch, x < dstW → y < dstH → ch < src.n → ∀ s ∈ vWindow .u16 src offset c x y ch, 0 ≤ s ∧ s ≤ 65535)
    (hacc : ∀ x y ch, x < dstW → y < dstH → ch < src.n →
      AccOK16 (chunkAt .u16 c y).2.toList (vWindow .u16 src offset c x y ch) (qOf .u16 c).precision)
    (x y ch : Nat) (hx : x < dstW) (hy : y < dstH) (hc : ch < src.n) :
    |(((vertPass .u16 src dstW dstH offset c).get x y ch : Int) : ℚ)
        - max 0 (min 65535 (idealDotQ (ws y) (vWindow .u16 src offset c x y ch)))|
      ≤ 1 / 2 + ((ws y).length : ℚ) * 65535 / 2 ^ ((qOf .u16 c).precision + 1) := by
  rw [vertPass_get .u16 (by simp) src dstW dstH offset c x y ch hx hy hc]
  exact passInt_err_u16 (ws y) _ _ _ hp1 hp (hlen y hy)
    (by rw [vWindow_length]; exact hlen y hy) (hq y hy) (hsamp x y ch hx hy hc) (hacc x y ch hx hy hc)

/-! ### C01, 16 bit: both passes (horizontal first) -/

/-- ideal temporary sample at destination column `x`, temporary row `ty` -/
def idealTemp16 (src : Img) (yFirst : Nat) (hc : Coeffs) (wsH : Nat → List ℚ) (x ty ch : Nat) : ℚ :=
  max 0 (min 65535 (idealDotQ (wsH x) (hWindow .u16 src yFirst hc x ty ch)))

/-- the ideal separable result at destination pixel (x, y), 16-bit pass order -/
def idealTwoPass16 (src : Img) (yFirst : Nat) (hc vc : Coeffs) (wsH wsV : Nat → List ℚ) (x y ch : Nat) : ℚ :=
  max 0 (min 65535 (idealDotQQ (wsV y)
    ((List.range (chunkAt .u16 vc y).2.size).map fun j => idealTemp16 src yFirst hc wsH x ((chunkAt .u16 vc y).1 + j) ch)))

theorem twoPass_err_u16 (src : Img) (dstW dstH tempH yFirst : Nat) (hc vc : Coeffs) (wsH wsV : Nat → List ℚ)
    (hpH1 : 1 ≤ (qOf .u16 hc).precision) (hpH : (qOf .u16 hc).precision < 64)
    (hpV1 : 1 ≤ (qOf .u16 vc).precision) (hpV : (qOf .u16 vc).precision < 64)
    (hlenH : ∀ x, x < dstW → (chunkAt .u16 hc x).2.toList.length = (wsH x).length)
    (hqH : ∀ x, x < dstW → ∀ i, i < (wsH x).length →
      |(((chunkAt .u16 hc x).2.toList.getD i 0 : Int) : ℚ) - (wsH x).getD i 0 * 2 ^ (qOf .u16 hc).precision| ≤ 1 / 2)
    (hsamp : ∀ x y ch, x < dstW → y < tempH → ch < src.n → ∀ s ∈ hWindow .u16 src yFirst hc x y ch, 0 ≤ s ∧ s ≤ 65535)
    (haccH : ∀ x y ch, x < dstW → y < tempH → ch < src.n →
      AccOK16 (chunkAt .u16 hc x).2.toList (hWindow .u16 src yFirst hc x y ch) (qOf .u16 hc).precision)
    (hlenV : ∀ y, y < dstH → (chunkAt .u16 vc y).2.toList.length = (wsV y).length)
    (hqV : ∀ y, y < dstH → ∀ i, i < (wsV y).length →
      |(((chunkAt .u16 vc y).2.toList.getD i 0 : Int) : ℚ) - (wsV y).getD i 0 * 2 ^ (qOf .u16 vc).precision| ≤ 1 / 2)
    (hfit : ∀ y, y < dstH → (chunkAt .u16 vc y).1 + (chunkAt .u16 vc y).2.size ≤ tempH)
    (haccV : ∀ x y ch, x < dstW → y < dstH → ch < src.n →
      AccOK16 (chunkAt .u16 vc y).2.toList (vWindow .u16 (horizPass .u16 src dstW tempH yFirst hc) 0 vc x y ch) (qOf .u16 vc).precision)
    (x y ch : Nat) (hx : x < dstW) (hy : y < dstH) (hc' : ch < src.n) :
    |(((vertPass .u16 (horizPass .u16 src dstW tempH yFirst hc) dstW dstH 0 vc).get x y ch : Int) : ℚ)
        - idealTwoPass16 src yFirst hc vc wsH wsV x y ch|
      ≤ (1 / 2 + ((wsV y).length : ℚ) * 65535 / 2 ^ ((qOf .u16 vc).precision + 1))
        + ((wsV y).map (|·|)).sum * (1 / 2 + ((wsH x).length : ℚ) * 65535 / 2 ^ ((qOf .u16 hc).precision + 1)) := by
  have hf := hfit y hy
  have hsz : (chunkAt .u16 vc y).2.size = (wsV y).length := by
    rw [← hlenV y hy, Array.length_toList]
  have h1 := vertPass_err_u16 (horizPass .u16 src dstW tempH yFirst hc) dstW dstH 0 vc wsV hpV1 hpV hlenV hqV
    (by
      intro x' y' ch' hx' hy' hch' s hs
      unfold vWindow window at hs
      rw [List.mem_map] at hs
      obtain ⟨j, hj, rfl⟩ := hs
      rw [List.mem_range] at hj
      have hf' := hfit y' hy'
      have hty : (chunkAt .u16 vc y').1 + j < tempH := by omega
      have hx0 : 0 + x' < dstW := by omega
      rw [horizPass_get .u16 (by simp) src dstW tempH yFirst hc _ _ ch' hx0 hty hch']
      exact passInt_u16_range _ _ _ hpH (haccH _ _ ch' hx0 hty hch'))
    haccV x y ch hx hy hc'
  have h2 : |max 0 (min 65535 (idealDotQ (wsV y) (vWindow .u16 (horizPass .u16 src dstW tempH yFirst hc) 0 vc x y ch)))
        - idealTwoPass16 src yFirst hc vc wsH wsV x y ch|
      ≤ ((wsV y).map (|·|)).sum * (1 / 2 + ((wsH x).length : ℚ) * 65535 / 2 ^ ((qOf .u16 hc).precision + 1)) := by
    unfold idealTwoPass16
    refine (clamp_lipschitz 0 65535 (by norm_num) _ _).trans ?_
    rw [idealDotQ_eq_QQ_map]
    unfold idealDotQQ
    refine two_pass_err (wsV y) _ _ _ ?_ ?_ ?_
    · rw [List.length_map, vWindow_length, hlenV y hy]
    · rw [List.length_map, List.length_range, hsz]
    · intro i hi
      have hi' : i < (chunkAt .u16 vc y).2.size := by omega
      have hty : (chunkAt .u16 vc y).1 + i < tempH := by omega
      have hx0 : 0 + x < dstW := by omega
      have e1 : ((vWindow .u16 (horizPass .u16 src dstW tempH yFirst hc) 0 vc x y ch).map
            fun (x : Int) => (x : ℚ)).getD i 0
          = (((horizPass .u16 src dstW tempH yFirst hc).get (0 + x) ((chunkAt .u16 vc y).1 + i) ch : Int) : ℚ) := by
        simp [vWindow, window, List.getD_eq_getElem?_getD, hi']
      have e2 : ((List.range (chunkAt .u16 vc y).2.size).map
            fun j => idealTemp16 src yFirst hc wsH x ((chunkAt .u16 vc y).1 + j) ch).getD i 0
          = idealTemp16 src yFirst hc wsH x ((chunkAt .u16 vc y).1 + i) ch := by
        simp [List.getD_eq_getElem?_getD, hi']
      rw [e1, e2]
      have h3 := horizPass_err_u16 src dstW tempH yFirst hc wsH hpH1 hpH hlenH hqH hsamp haccH
        (0 + x) ((chunkAt .u16 vc y).1 + i) ch hx0 hty hc'
      rw [Nat.zero_add] at h3 ⊢
      exact h3
  have htri := abs_sub_le
    ((((vertPass .u16 (horizPass .u16 src dstW tempH yFirst hc) dstW dstH 0 vc).get x y ch : Int) : ℚ))
    (max 0 (min 65535 (idealDotQ (wsV y) (vWindow .u16 (horizPass .u16 src dstW tempH yFirst hc) 0 vc x y ch))))
    (idealTwoPass16 src yFirst hc vc wsH wsV x y ch)
  linarith

/-! ### C18: order preservation (16-bit order) and the range corollaries for whole images -/

/-- `vertPass_monotone_u16` with the pointwise order only required for the samples actually read -/
theorem vertPass_monotone_u16_inrange (src src' : Img) (dstW dstH offset : Nat) (c : Coeffs) (hn : src.n = src'.n)
    (hp : (qOf .u16 c).precision < 64)
    (hk : ∀ y, y < dstH → ∀ k ∈ (chunkAt .u16 c y).2.toList, 0 ≤ k)
    (hle : ∀ x y ch j, x < dstW → y < dstH → ch < src.n → j < (chunkAt .u16 c y).2.size →
      src.get (offset + x) ((chunkAt .u16 c y).1 + j) ch ≤ src'.get (offset + x) ((chunkAt .u16 c y).1 + j) ch)
    (hacc : ∀ x y ch, x < dstW → y < dstH → ch < src.n →
      AccOK16 (chunkAt .u16 c y).2.toList (vWindow .u16 src offset c x y ch) (qOf .u16 c).precision ∧
      AccOK16 (chunkAt .u16 c y).2.toList (vWindow .u16 src' offset c x y ch) (qOf .u16 c).precision)
    (x y ch : Nat) (hx : x < dstW) (hy : y < dstH) (hc : ch < src.n) :
    (vertPass .u16 src dstW dstH offset c).get x y ch ≤ (vertPass .u16 src' dstW dstH offset c).get x y ch := by
  have hc' : ch < src'.n := hn ▸ hc
  rw [vertPass_get .u16 (by simp) src dstW dstH offset c x y ch hx hy hc,
    vertPass_get .u16 (by simp) src' dstW dstH offset c x y ch hx hy hc']
  obtain ⟨h1, h2⟩ := hacc x y ch hx hy hc
  refine pass_monotone_u16 _ _ _ _ hp (hk y hy) ?_ ?_ h1 h2
  · rw [vWindow_length, vWindow_length]
  · intro i hi
    unfold vWindow at hi ⊢
    rw [window_length] at hi
    rw [window_getD _ _ _ hi, window_getD _ _ _ hi]
    exact hle x y ch i hx hy hc hi

theorem twoPass_monotone_u16 (src src' : Img) (dstW dstH tempH yFirst : Nat) (hc vc : Coeffs) (hn : src.n = src'.n)
    (hpH : (qOf .u16 hc).precision < 64) (hpV : (qOf .u16 vc).precision < 64)
    (hkH : ∀ x, x < dstW → ∀ k ∈ (chunkAt .u16 hc x).2.toList, 0 ≤ k)
    (hkV : ∀ y, y < dstH → ∀ k ∈ (chunkAt .u16 vc y).2.toList, 0 ≤ k)
    (hle : ∀ x y ch j, src.get ((chunkAt .u16 hc x).1 + j) (yFirst + y) ch ≤ src'.get ((chunkAt .u16 hc x).1 + j) (yFirst + y) ch)
    (haccH : ∀ x y ch, x < dstW → y < tempH → ch < src.n →
      AccOK16 (chunkAt .u16 hc x).2.toList (hWindow .u16 src yFirst hc x y ch) (qOf .u16 hc).precision ∧
      AccOK16 (chunkAt .u16 hc x).2.toList (hWindow .u16 src' yFirst hc x y ch) (qOf .u16 hc).precision)
    (hfit : ∀ y, y < dstH → (chunkAt .u16 vc y).1 + (chunkAt .u16 vc y).2.size ≤ tempH)
    (haccV : ∀ x y ch, x < dstW → y < dstH → ch < src.n →
      AccOK16 (chunkAt .u16 vc y).2.toList (vWindow .u16 (horizPass .u16 src dstW tempH yFirst hc) 0 vc x y ch) (qOf .u16 vc).precision ∧
      AccOK16 (chunkAt .u16 vc y).2.toList (vWindow .u16 (horizPass .u16 src' dstW tempH yFirst hc) 0 vc x y ch) (qOf .u16 vc).precision)
    (x y ch : Nat) (hx : x < dstW) (hy : y < dstH) (hc' : ch < src.n) :
    (vertPass .u16 (horizPass .u16 src dstW tempH yFirst hc) dstW dstH 0 vc).get x y ch
      ≤ (vertPass .u16 (horizPass .u16 src' dstW tempH yFirst hc) dstW dstH 0 vc).get x y ch := by
  refine vertPass_monotone_u16_inrange (horizPass .u16 src dstW tempH yFirst hc) (horizPass .u16 src' dstW tempH yFirst hc)
    dstW dstH 0 vc hn hpV hkV ?_ haccV x y ch hx hy hc'
  intro x' y' ch' j hx' hy' hch' hj
  have hf := hfit y' hy'
  exact horizPass_monotone_u16 src src' dstW tempH yFirst hc hn hpH hkH hle haccH _ _ _
    (by omega) (by omega) hch'

/-- no overshoot, one 8-bit horizontal pass on a whole image: if every sample read lies in `[lo, hi]`, the
    coefficients are non-negative and every window reproduces the constants `lo` and `hi` (the `QuantOK`
    inequalities of C10 at `lo` and at `hi`), every component of the result lies in `[lo, hi]` -/
theorem horizPass_range_u8 (src : Img) (dstW dstH offset : Nat) (c : Coeffs) (lo hi : Int)
    (hlo0 : 0 ≤ lo) (hlh : lo ≤ hi) (hhi : hi ≤ 255)
    (hp1 : 1 ≤ (qOf .u8 c).precision) (hp : (qOf .u8 c).precision ≤ 22)
    (hk : ∀ x, x < dstW → ∀ k ∈ (chunkAt .u8 c x).2.toList, 0 ≤ k)
    (hread : ∀ x y ch, x < dstW → y < dstH → ch < src.n → ∀ s ∈ hWindow .u8 src offset c x y ch, lo ≤ s ∧ s ≤ hi)
    (hqlo : ∀ x, x < dstW →
      -(2 ^ ((qOf .u8 c).precision - 1) : Int) ≤ lo * ((chunkAt .u8 c x).2.toList.sum - 2 ^ (qOf .u8 c).precision) ∧
      lo * ((chunkAt .u8 c x).2.toList.sum - 2 ^ (qOf .u8 c).precision) < 2 ^ ((qOf .u8 c).precision - 1))
    (hqhi : ∀ x, x < dstW →
      -(2 ^ ((qOf .u8 c).precision - 1) : Int) ≤ hi * ((chunkAt .u8 c x).2.toList.sum - 2 ^ (qOf .u8 c).precision) ∧
      hi * ((chunkAt .u8 c x).2.toList.sum - 2 ^ (qOf .u8 c).precision) < 2 ^ ((qOf .u8 c).precision - 1))
    (x y ch : Nat) (hx : x < dstW) (hy : y < dstH) (hc : ch < src.n) :
    lo ≤ (horizPass .u8 src dstW dstH offset c).get x y ch ∧ (horizPass .u8 src dstW dstH offset c).get x y ch ≤ hi := by
  have _hlh := hlh  -- not needed: the bounds follow from `hread` and the QuantOK inequalities alone
  rw [horizPass_get .u8 (by simp) src dstW dstH offset c x y ch hx hy hc]
  exact range_from_uniform_u8 _ _ _ lo hi hp1 hp (hk x hx) (hWindow_length ..) hlo0 hhi
    (hread x y ch hx hy hc) (hqlo x hx).1 (hqlo x hx).2 (hqhi x hx).1 (hqhi x hx).2

theorem vertPass_range_u8 (src : Img) (dstW dstH offset : Nat) (c : Coeffs) (lo hi : Int)
    (hlo0 : 0 ≤ lo) (hlh : lo ≤ hi) (hhi : hi ≤ 255)
    (hp1 : 1 ≤ (qOf .u8 c).precision) (hp : (qOf .u8 c).precision ≤ 22)
    (hk : ∀ y, y < dstH → ∀ k ∈ (chunkAt .u8 c y).2.toList, 0 ≤ k)
    (hread : ∀ x y ch, x < dstW → y < dstH → ch < src.n → ∀ s ∈ vWindow .u8 src offset c x y ch, lo ≤ s ∧ s ≤ hi)
    (hqlo : ∀ y, y < dstH →
      -(2 ^ ((qOf .u8 c).precision - 1) : Int) ≤ lo * ((chunkAt .u8 c y).2.toList.sum - 2 ^ (qOf .u8 c).precision) ∧
      lo * ((chunkAt .u8 c y).2.toList.sum - 2 ^ (qOf .u8 c).precision) < 2 ^ ((qOf .u8 c).precision - 1))
    (hqhi : ∀ y, y < dstH →
      -(2 ^ ((qOf .u8 c).precision - 1) : Int) ≤ hi * ((chunkAt .u8 c y).2.toList.sum - 2 ^ (qOf .u8 c).precision) ∧
      hi * ((chunkAt .u8 c y).2.toList.sum - 2 ^ (qOf .u8 c).precision) < 2 ^ ((qOf .u8 c).precision - 1))
    (x y ch : Nat) (hx : x < dstW) (hy : y < dstH) (hc : ch < src.n) :
    lo ≤ (vertPass .u8 src dstW dstH offset c).get x y ch ∧ (vertPass .u8 src dstW dstH offset c).get x y ch ≤ hi := by
  have _hlh := hlh  -- not needed: the bounds follow from `hread` and the QuantOK inequalities alone
  rw [vertPass_get .u8 (by simp) src dstW dstH offset c x y ch hx hy hc]
  exact range_from_uniform_u8 _ _ _ lo hi hp1 hp (hk y hy) (vWindow_length ..) hlo0 hhi
    (hread x y ch hx hy hc) (hqlo y hy).1 (hqlo y hy).2 (hqhi y hy).1 (hqhi y hy).2

/-- no overshoot through both passes (8-bit order) -/
theorem twoPass_range_u8 (src : Img) (dstW dstH tempW xFirst : Nat) (vc hc : Coeffs) (lo hi : Int)
    (hlo0 : 0 ≤ lo) (hlh : lo ≤ hi) (hhi : hi ≤ 255)
    (hpV1 : 1 ≤ (qOf .u8 vc).precision) (hpV : (qOf .u8 vc).precision ≤ 22)
    (hpH1 : 1 ≤ (qOf .u8 hc).precision) (hpH : (qOf .u8 hc).precision ≤ 22)
    (hkV : ∀ y, y < dstH → ∀ k ∈ (chunkAt .u8 vc y).2.toList, 0 ≤ k)
    (hkH : ∀ x, x < dstW → ∀ k ∈ (chunkAt .u8 hc x).2.toList, 0 ≤ k)
    (hread : ∀ x y ch, x < tempW → y < dstH → ch < src.n → ∀ s ∈ vWindow .u8 src xFirst vc x y ch, lo ≤ s ∧ s ≤ hi)
    (hqVlo : ∀ y, y < dstH →
      -(2 ^ ((qOf .u8 vc).precision - 1) : Int) ≤ lo * ((chunkAt .u8 vc y).2.toList.sum - 2 ^ (qOf .u8 vc).precision) ∧
      lo * ((chunkAt .u8 vc y).2.toList.sum - 2 ^ (qOf .u8 vc).precision) < 2 ^ ((qOf .u8 vc).precision - 1))
    (hqVhi : ∀ y, y < dstH →
      -(2 ^ ((qOf .u8 vc).precision - 1) : Int) ≤ hi * ((chunkAt .u8 vc y).2.toList.sum - 2 ^ (qOf .u8 vc).precision) ∧
      hi * ((chunkAt .u8 vc y).2.toList.sum - 2 ^ (qOf .u8 vc).precision) < 2 ^ ((qOf .u8 vc).precision - 1))
    (hfit : ∀ x, x < dstW → (chunkAt .u8 hc x).1 + (chunkAt .u8 hc x).2.size ≤ tempW)
    (hqHlo : ∀ x, x < dstW →
      -(2 ^ ((qOf .u8 hc).precision - 1) : Int) ≤ lo * ((chunkAt .u8 hc x).2.toList.sum - 2 ^ (qOf .u8 hc).precision) ∧
      lo * ((chunkAt .u8 hc x).2.toList.sum - 2 ^ (qOf .u8 hc).precision) < 2 ^ ((qOf .u8 hc).precision - 1))
    (hqHhi : ∀ x, x < dstW →
      -(2 ^ ((qOf .u8 hc).precision - 1) : Int) ≤ hi * ((chunkAt .u8 hc x).2.toList.sum - 2 ^ (qOf .u8 hc).precision) ∧
      hi * ((chunkAt .u8 hc x).2.toList.sum - 2 ^ (qOf .u8 hc).precision) < 2 ^ ((qOf .u8 hc).precision - 1))
    (x y ch : Nat) (hx : x < dstW) (hy : y < dstH) (hc' : ch < src.n) :
    lo ≤ (horizPass .u8 (vertPass .u8 src tempW dstH xFirst vc) dstW dstH 0 hc).get x y ch ∧
    (horizPass .u8 (vertPass .u8 src tempW dstH xFirst vc) dstW dstH 0 hc).get x y ch ≤ hi := by
  refine horizPass_range_u8 (vertPass .u8 src tempW dstH xFirst vc) dstW dstH 0 hc lo hi hlo0 hlh hhi hpH1 hpH hkH
    ?_ hqHlo hqHhi x y ch hx hy hc'
  intro x' y' ch' hx' hy' hch' s hs
  unfold hWindow window at hs
  rw [List.mem_map] at hs
  obtain ⟨j, hj, rfl⟩ := hs
  rw [List.mem_range] at hj
  have hf := hfit x' hx'
  exact vertPass_range_u8 src tempW dstH xFirst vc lo hi hlo0 hlh hhi hpV1 hpV hkV hread hqVlo hqVhi _ _ _
    (by omega) (by omega) hch'

/-! ### the link to `doConvolution`, pixel types that are not 8-bit -/

theorem doConvolution_two_pass_not_u8 (p : PixT) (hk : (p.kind == CKind.u8) = false) (src prev : Img) (cl ct cw ch : Float) (f : FilterSpec) (adaptive : Bool)
    (hw : prev.w ≠ 0) (hh : prev.h ≠ 0) (hcw : (cw ≤ 0.0) = false) (hch : (ch ≤ 0.0) = false)
    (hneedH : (Float.ofNat prev.w != cw || cl != cl.round) = true)
    (hneedV : (Float.ofNat prev.h != ch || ct != ct.round) = true) :
    let hc := precomputeCoefficients src.w cl (cl + cw) prev.w f adaptive
    let vc := precomputeCoefficients src.h ct (ct + ch) prev.h f adaptive
    doConvolution p src cl ct cw ch prev f adaptive =
      vertPass p.kind (horizPass p.kind src prev.w (boundsLast vc - boundsFirst vc) (boundsFirst vc) hc) prev.w prev.h 0
        { vc with bounds := vc.bounds.map fun b => (b.1 - boundsFirst vc, b.2) } := by
  intro hc vc
  have hcw' : ¬ cw ≤ 0.0 := by simpa using hcw
  have hch' : ¬ ch ≤ 0.0 := by simpa using hch
  have hne : ¬ (prev.w = 0 ∨ prev.h = 0 ∨ cw ≤ 0.0 ∨ ch ≤ 0.0) := by
    rintro (h | h | h | h)
    · exact hw h
    · exact hh h
    · exact hcw' h
    · exact hch' h
  unfold doConvolution
  simp only [if_neg hne, hneedH, hneedV, ite_true, hk]
  rfl

end Fir.Proofs
