/-
  Fir.Proofs.SimdU8x3Lemmas - the SSE4.1 U8x3 one-row kernel (`Fir.Model.SimdU8x3`): whatever number of 16-byte,
  8-byte and single-pixel steps the row width lets it take, it accumulates the dot product of the portable
  kernel; and none of its loads leaves the row.
-/
import Fir.Model.SimdU8x3
import Fir.Proofs.SimdU8x4Lemmas

set_option linter.unnecessarySeqFocus false
set_option linter.unreachableTactic false
set_option linter.unusedTactic false
set_option linter.unusedSimpArgs false

namespace Fir.Proofs
open Fir Fir.SimdU8x4 Fir.SimdU8x3 Fir.Gen

theorem w32_zero : wrap32 0 = 0 := by decide

theorem step4_eq3 (t0 t1 t2 t3 : Int) (row : List Int) (x : Nat) (k0 k1 k2 k3 : Int) :
    step4 [wrap32 t0, wrap32 t1, wrap32 t2, wrap32 t3] row x k0 k1 k2 k3
      = [wrap32 (t0 + dotC3 row 0 [k0, k1, k2, k3] x), wrap32 (t1 + dotC3 row 1 [k0, k1, k2, k3] x),
         wrap32 (t2 + dotC3 row 2 [k0, k1, k2, k3] x), wrap32 t3] := by
  simp only [step4, low64, load, add32, madd, pshufb, i16At, kBytes, u8x3_sse4_pix_sh1, u8x3_sse4_coef_sh1,
    u8x3_sse4_pix_sh2, u8x3_sse4_coef_sh2,
    List.range, List.range.loop, List.map, List.flatMap_cons, List.flatMap_nil, List.append_nil, List.replicate,
    List.cons_append, List.nil_append, List.getD_cons_succ, List.getD_cons_zero, List.zipWith, dotC3]
  simp [i16_byte, i16_lohi, i16_zero, w32_add_left, w32_add_right, w32_zero, w32_idem]
  refine ⟨?_, ?_, ?_⟩ <;> (congr 1 <;> ring_nf)

theorem step2_eq3 (t0 t1 t2 t3 : Int) (row : List Int) (x : Nat) (k0 k1 : Int) :
    step2 [wrap32 t0, wrap32 t1, wrap32 t2, wrap32 t3] row x k0 k1
      = [wrap32 (t0 + dotC3 row 0 [k0, k1] x), wrap32 (t1 + dotC3 row 1 [k0, k1] x),
         wrap32 (t2 + dotC3 row 2 [k0, k1] x), wrap32 t3] := by
  simp only [step2, clone4, load, add32, madd, pshufb, i16At, kBytes, u8x3_sse4_pix_sh1,
    List.range, List.range.loop, List.map, List.flatMap_cons, List.flatMap_nil, List.append_nil, List.replicate,
    List.cons_append, List.nil_append, List.getD_cons_succ, List.getD_cons_zero, List.zipWith, dotC3]
  simp [i16_byte, i16_lohi, i16_zero, w32_add_left, w32_add_right, w32_zero, w32_idem]
  refine ⟨?_, ?_, ?_⟩ <;> (congr 1 <;> ring_nf)

theorem step1_eq3 (t0 t1 t2 t3 : Int) (row : List Int) (x : Nat) (k : Int) :
    step1 [wrap32 t0, wrap32 t1, wrap32 t2, wrap32 t3] row x k
      = [wrap32 (t0 + dotC3 row 0 [k] x), wrap32 (t1 + dotC3 row 1 [k] x),
         wrap32 (t2 + dotC3 row 2 [k] x), wrap32 t3] := by
  have hk : i16pair (wrap16 k % 256) (wrap16 k / 256 % 256) = wrap16 k := by rw [i16_lohi, wrap16_idem]
  simp only [step1, clone4, load, add32, madd, i16At,
    List.range, List.range.loop, List.map, List.append_nil, List.replicate,
    List.cons_append, List.nil_append, List.getD_cons_succ, List.getD_cons_zero, List.zipWith, dotC3]
  simp [i16_byte, i16_zero, hk, w32_add_left, w32_add_right, w32_zero, w32_idem]

theorem dotC3_append (row : List Int) (c : Nat) (a b : List Int) (x : Nat) :
    dotC3 row c (a ++ b) x = dotC3 row c a x + dotC3 row c b (x + a.length) := by
  induction a generalizing x with
  | nil => simp [dotC3]
  | cons k a ih =>
    simp only [List.cons_append, dotC3, ih, List.length_cons]
    have : x + 1 + a.length = x + (a.length + 1) := by omega
    rw [this]; ring

/-- what a loop leaves behind: it consumed a prefix of the coefficients, advanced `x` by its length and added its
    dot product to the three colour lanes -/
def LoopSpec (row ks : List Int) (x : Nat) (t0 t1 t2 t3 : Int) (r : List Int × Nat × List Int) : Prop :=
  ∃ n, n ≤ ks.length ∧ r.1 = ks.drop n ∧ r.2.1 = x + n ∧
    r.2.2 = [wrap32 (t0 + dotC3 row 0 (ks.take n) x), wrap32 (t1 + dotC3 row 1 (ks.take n) x),
             wrap32 (t2 + dotC3 row 2 (ks.take n) x), wrap32 t3]

theorem loop4_spec (maxX : Nat) (row : List Int) : ∀ (m : Nat) (ks : List Int) (_hm : ks.length ≤ m) (x : Nat) (t0 t1 t2 t3 : Int),
    LoopSpec row ks x t0 t1 t2 t3 (loop4 maxX row ks x [wrap32 t0, wrap32 t1, wrap32 t2, wrap32 t3]) := by
  intro m
  induction m with
  | zero =>
    intro ks hm x t0 t1 t2 t3
    have : ks = [] := List.length_eq_zero_iff.mp (by omega)
    subst this
    exact ⟨0, by simp, by simp [loop4], by simp [loop4], by simp [loop4, dotC3]⟩
  | succ m ih =>
    intro ks hm x t0 t1 t2 t3
    match ks, hm with
    | k0 :: k1 :: k2 :: k3 :: rest, hm =>
      by_cases hx : x < maxX
      · simp only [loop4, hx, if_true]
        rw [step4_eq3]
        obtain ⟨n, hn, h1, h2, h3⟩ := ih rest (by simp at hm; omega) (x + 4) (t0 + dotC3 row 0 [k0, k1, k2, k3] x)
          (t1 + dotC3 row 1 [k0, k1, k2, k3] x) (t2 + dotC3 row 2 [k0, k1, k2, k3] x) t3
        refine ⟨n + 4, by simp; omega, by simpa using h1, by rw [h2]; omega, ?_⟩
        rw [h3]
        have e : ∀ c, dotC3 row c ((k0 :: k1 :: k2 :: k3 :: rest).take (n + 4)) x
            = dotC3 row c [k0, k1, k2, k3] x + dotC3 row c (rest.take n) (x + 4) := by
          intro c
          have := dotC3_append row c [k0, k1, k2, k3] (rest.take n) x
          simpa using this
        simp only [e, add_assoc]
      · simp only [loop4, hx, if_false]
        exact ⟨0, by simp, by simp, by simp, by simp [dotC3]⟩
    | [], _ => exact ⟨0, by simp, by simp [loop4], by simp [loop4], by simp [loop4, dotC3]⟩
    | [a], _ => exact ⟨0, by simp, by simp [loop4], by simp [loop4], by simp [loop4, dotC3]⟩
    | [a, b], _ => exact ⟨0, by simp, by simp [loop4], by simp [loop4], by simp [loop4, dotC3]⟩
    | [a, b, c], _ => exact ⟨0, by simp, by simp [loop4], by simp [loop4], by simp [loop4, dotC3]⟩

theorem loop2_spec (maxX : Nat) (row : List Int) : ∀ (m : Nat) (ks : List Int) (_hm : ks.length ≤ m) (x : Nat) (t0 t1 t2 t3 : Int),
    LoopSpec row ks x t0 t1 t2 t3 (loop2 maxX row ks x [wrap32 t0, wrap32 t1, wrap32 t2, wrap32 t3]) := by
  intro m
  induction m with
  | zero =>
    intro ks hm x t0 t1 t2 t3
    have : ks = [] := List.length_eq_zero_iff.mp (by omega)
    subst this
    exact ⟨0, by simp, by simp [loop2], by simp [loop2], by simp [loop2, dotC3]⟩
  | succ m ih =>
    intro ks hm x t0 t1 t2 t3
    match ks, hm with
    | k0 :: k1 :: rest, hm =>
      by_cases hx : x < maxX
      · simp only [loop2, hx, if_true]
        rw [step2_eq3]
        obtain ⟨n, hn, h1, h2, h3⟩ := ih rest (by simp at hm; omega) (x + 2) (t0 + dotC3 row 0 [k0, k1] x)
          (t1 + dotC3 row 1 [k0, k1] x) (t2 + dotC3 row 2 [k0, k1] x) t3
        refine ⟨n + 2, by simp; omega, by simpa using h1, by rw [h2]; omega, ?_⟩
        rw [h3]
        have e : ∀ c, dotC3 row c ((k0 :: k1 :: rest).take (n + 2)) x
            = dotC3 row c [k0, k1] x + dotC3 row c (rest.take n) (x + 2) := by
          intro c
          have := dotC3_append row c [k0, k1] (rest.take n) x
          simpa using this
        simp only [e, add_assoc]
      · simp only [loop2, hx, if_false]
        exact ⟨0, by simp, by simp, by simp, by simp [dotC3]⟩
    | [], _ => exact ⟨0, by simp, by simp [loop2], by simp [loop2], by simp [loop2, dotC3]⟩
    | [a], _ => exact ⟨0, by simp, by simp [loop2], by simp [loop2], by simp [loop2, dotC3]⟩

theorem loop1_eq3 (row : List Int) (ks : List Int) : ∀ (x : Nat) (t0 t1 t2 t3 : Int),
    loop1 row ks x [wrap32 t0, wrap32 t1, wrap32 t2, wrap32 t3]
      = [wrap32 (t0 + dotC3 row 0 ks x), wrap32 (t1 + dotC3 row 1 ks x), wrap32 (t2 + dotC3 row 2 ks x), wrap32 t3] := by
  induction ks with
  | nil => intro x t0 t1 t2 t3; simp [loop1, dotC3]
  | cons k ks ih =>
    intro x t0 t1 t2 t3
    simp only [loop1]
    rw [step1_eq3, ih]
    simp only [dotC3, add_zero, add_assoc]

/-- **the SSE4.1 U8x3 one-row kernel equals the portable kernel** for every row width (every combination of
    16-byte, 8-byte and single-pixel steps the loop guards allow), every coefficient list and every content -/
theorem u8x3_sse4_pixel_eq_portable (p w : Nat) (hp : p < 32) (row : List Int) (start : Nat) (ks : List Int) :
    Fir.SimdU8x3.pixel p w row start ks
      = [clip8 (2 ^ (p - 1) + dotC3 row 0 ks start) p, clip8 (2 ^ (p - 1) + dotC3 row 1 ks start) p,
         clip8 (2 ^ (p - 1) + dotC3 row 2 ks start) p] := by
  unfold Fir.SimdU8x3.pixel
  simp only
  obtain ⟨n4, hn4, h41, h42, h43⟩ := loop4_spec (w - 5) row ks.length ks (le_refl _) start (2 ^ (p - 1)) (2 ^ (p - 1)) (2 ^ (p - 1)) (2 ^ (p - 1))
  rw [h41, h42, h43]
  obtain ⟨n2, hn2, h21, h22, h23⟩ := loop2_spec (w - 2) row (ks.drop n4).length (ks.drop n4) (le_refl _) (start + n4)
    (2 ^ (p - 1) + dotC3 row 0 (ks.take n4) start) (2 ^ (p - 1) + dotC3 row 1 (ks.take n4) start)
    (2 ^ (p - 1) + dotC3 row 2 (ks.take n4) start) (2 ^ (p - 1))
  rw [h21, h22, h23, loop1_eq3]
  simp only [List.map, List.take, lane_finish _ p hp]
  have hsplit : ∀ c, dotC3 row c ks start
      = dotC3 row c (ks.take n4) start + (dotC3 row c ((ks.drop n4).take n2) (start + n4)
          + dotC3 row c ((ks.drop n4).drop n2) (start + n4 + n2)) := by
    intro c
    have e1 := dotC3_append row c (ks.take n4) (ks.drop n4) start
    rw [List.take_append_drop, List.length_take, Nat.min_eq_left hn4] at e1
    have e2 := dotC3_append row c ((ks.drop n4).take n2) ((ks.drop n4).drop n2) (start + n4)
    rw [List.take_append_drop, List.length_take, Nat.min_eq_left hn2] at e2
    rw [e1, e2]
  simp only [hsplit, add_assoc]

/-! ### no load leaves the row -/

theorem loads4_spec (maxX : Nat) : ∀ (m : Nat) (ks : List Int) (_hm : ks.length ≤ m) (x : Nat),
    (∀ e ∈ (loads4 maxX ks x).1, e.2 = 16 ∧ e.1 < maxX) ∧
    (loads4 maxX ks x).2.2 + (loads4 maxX ks x).2.1.length = x + ks.length := by
  intro m
  induction m with
  | zero =>
    intro ks hm x
    have : ks = [] := List.length_eq_zero_iff.mp (by omega)
    subst this; simp [loads4]
  | succ m ih =>
    intro ks hm x
    match ks, hm with
    | k0 :: k1 :: k2 :: k3 :: rest, hm =>
      by_cases hx : x < maxX
      · obtain ⟨h1, h2⟩ := ih rest (by simp at hm; omega) (x + 4)
        simp only [loads4, hx, if_true]
        refine ⟨?_, by simp only [List.length_cons]; omega⟩
        intro e he
        rcases List.mem_cons.mp he with rfl | he
        · exact ⟨rfl, hx⟩
        · exact h1 e he
      · simp [loads4, hx]
    | [], _ => simp [loads4]
    | [a], _ => simp [loads4]
    | [a, b], _ => simp [loads4]
    | [a, b, c], _ => simp [loads4]

theorem loads2_spec (maxX : Nat) : ∀ (m : Nat) (ks : List Int) (_hm : ks.length ≤ m) (x : Nat),
    (∀ e ∈ (loads2 maxX ks x).1, e.2 = 8 ∧ e.1 < maxX) ∧
    (loads2 maxX ks x).2.2 + (loads2 maxX ks x).2.1.length = x + ks.length := by
  intro m
  induction m with
  | zero =>
    intro ks hm x
    have : ks = [] := List.length_eq_zero_iff.mp (by omega)
    subst this; simp [loads2]
  | succ m ih =>
    intro ks hm x
    match ks, hm with
    | k0 :: k1 :: rest, hm =>
      by_cases hx : x < maxX
      · obtain ⟨h1, h2⟩ := ih rest (by simp at hm; omega) (x + 2)
        simp only [loads2, hx, if_true]
        refine ⟨?_, by simp only [List.length_cons]; omega⟩
        intro e he
        rcases List.mem_cons.mp he with rfl | he
        · exact ⟨rfl, hx⟩
        · exact h1 e he
      · simp [loads2, hx]
    | [], _ => simp [loads2]
    | [a], _ => simp [loads2]

/-- **every load of the kernel - 16 bytes, 8 bytes or one pixel - lies inside the row of `w` pixels (`3w` bytes)**
    as soon as the coefficient window does (`start + #coefficients ≤ w`, C03's `window_in_source`): the
    "SAFETY" comments of the kernel as a theorem -/
theorem u8x3_sse4_loads_in_row (w start : Nat) (ks : List Int) (hwin : start + ks.length ≤ w) :
    ∀ e ∈ loads w start ks, 3 * e.1 + e.2 ≤ 3 * w := by
  unfold loads
  simp only
  obtain ⟨h41, h42⟩ := loads4_spec (w - 5) ks.length ks (le_refl _) start
  generalize loads4 (w - 5) ks start = r4 at h41 h42
  obtain ⟨h21, h22⟩ := loads2_spec (w - 2) r4.2.1.length r4.2.1 (le_refl _) r4.2.2
  generalize loads2 (w - 2) r4.2.1 r4.2.2 = r2 at h21 h22
  intro e he
  rcases List.mem_append.mp he with he | he
  · rcases List.mem_append.mp he with he | he
    · obtain ⟨h1, h2⟩ := h41 e he; omega
    · obtain ⟨h1, h2⟩ := h21 e he; omega
  · simp only [List.mem_map, List.mem_range] at he
    obtain ⟨i, hi, rfl⟩ := he
    simp only
    omega

/-! ### the four-row kernel: per row the very same register contents as the one-row kernel -/

theorem step4R_eq_step4 (s row : List Int) (x : Nat) (k0 k1 k2 k3 : Int) :
    step4R s row x k0 k1 k2 k3 = step4 s row x k0 k1 k2 k3 := by
  simp only [step4R, step4, clone4, low64, pshufb, kBytes, u8x3_sse4_four_sh_lo, u8x3_sse4_four_sh_hi, u8x3_sse4_pix_sh1,
    u8x3_sse4_pix_sh2, u8x3_sse4_coef_sh1, u8x3_sse4_coef_sh2, List.map, List.flatMap_cons, List.flatMap_nil, List.append_nil,
    List.replicate, List.cons_append, List.nil_append]
  simp

theorem step2R_eq_step2 (s row : List Int) (x : Nat) (k0 k1 : Int) : step2R s row x k0 k1 = step2 s row x k0 k1 := by
  simp [step2R, step2, u8x3_sse4_four_sh_lo, u8x3_sse4_pix_sh1]

theorem loop4R_eq (maxX : Nat) (row : List Int) : ∀ (m : Nat) (ks : List Int) (_hm : ks.length ≤ m) (x : Nat) (s : List Int),
    loop4R maxX row ks x s = loop4 maxX row ks x s := by
  intro m
  induction m with
  | zero =>
    intro ks hm x s
    have : ks = [] := List.length_eq_zero_iff.mp (by omega)
    subst this; simp [loop4R, loop4]
  | succ m ih =>
    intro ks hm x s
    match ks, hm with
    | k0 :: k1 :: k2 :: k3 :: rest, hm =>
      simp only [loop4R, loop4, step4R_eq_step4]
      split
      · exact ih rest (by simp at hm; omega) _ _
      · rfl
    | [], _ => simp [loop4R, loop4]
    | [a], _ => simp [loop4R, loop4]
    | [a, b], _ => simp [loop4R, loop4]
    | [a, b, c], _ => simp [loop4R, loop4]

theorem loop2R_eq (maxX : Nat) (row : List Int) : ∀ (m : Nat) (ks : List Int) (_hm : ks.length ≤ m) (x : Nat) (s : List Int),
    loop2R maxX row ks x s = loop2 maxX row ks x s := by
  intro m
  induction m with
  | zero =>
    intro ks hm x s
    have : ks = [] := List.length_eq_zero_iff.mp (by omega)
    subst this; simp [loop2R, loop2]
  | succ m ih =>
    intro ks hm x s
    match ks, hm with
    | k0 :: k1 :: rest, hm =>
      simp only [loop2R, loop2, step2R_eq_step2]
      split
      · exact ih rest (by simp at hm; omega) _ _
      · rfl
    | [], _ => simp [loop2R, loop2]
    | [a], _ => simp [loop2R, loop2]

/-- every row of the four-row kernel stores what the one-row kernel stores - hence what the portable kernel stores -/
theorem u8x3_sse4_four_rows_eq_one_row (p w : Nat) (row : List Int) (start : Nat) (ks : List Int) :
    Fir.SimdU8x3.pixelR p w row start ks = Fir.SimdU8x3.pixel p w row start ks := by
  unfold Fir.SimdU8x3.pixelR Fir.SimdU8x3.pixel
  simp only [loop4R_eq _ _ ks.length ks (le_refl _)]
  rw [loop2R_eq _ _ _ _ (le_refl _)]

end Fir.Proofs
