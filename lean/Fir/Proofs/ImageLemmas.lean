/-
  Fir.Proofs.ImageLemmas - lifts the per-window facts (C01 error bound, C10 uniformity, C18 monotonicity
  and range) to whole images produced by the executable model's `horizPass` / `vertPass`, i.e. to the very
  functions the correspondence check compares with the implementation.
-/
import Fir.Model.Resample
import Fir.Proofs.FixedLemmas
import Fir.Proofs.ErrLemmas
import Fir.Proofs.StructLemmas
namespace Fir.Proofs
open Fir

/-- quantised coefficients the model uses for a pass over components of kind `k` -/
def qOf (k : CKind) (c : Coeffs) : QCoeffs := (prepare k c).q

/-- window `i` of a pass: first source index and integer coefficients -/
def chunkAt (k : CKind) (c : Coeffs) (i : Nat) : Nat × Array Int := (qOf k c).chunks.getD i (0, #[])

/-- the samples window `x` of a horizontal pass reads for destination row `y`, channel `ch` -/
def hWindow (k : CKind) (src : Img) (offset : Nat) (c : Coeffs) (x y ch : Nat) : List Int :=
  window (chunkAt k c x).2.size fun j => src.get ((chunkAt k c x).1 + j) (offset + y) ch

/-- the samples window `y` of a vertical pass reads for destination column `x`, channel `ch` -/
def vWindow (k : CKind) (src : Img) (offset : Nat) (c : Coeffs) (x y ch : Nat) : List Int :=
  window (chunkAt k c y).2.size fun j => src.get (offset + x) ((chunkAt k c y).1 + j) ch

theorem window_length (n : Nat) (px : Nat → Int) : (window n px).length = n := by
  simp [window]

theorem window_getD (n : Nat) (px : Nat → Int) (i : Nat) (hi : i < n) : (window n px).getD i 0 = px i := by
  simp [window, List.getD_eq_getElem?_getD, hi]

theorem sum_map_abs_nonneg (ks : List Int) : 0 ≤ (ks.map (|·|)).sum := by
  induction ks with
  | nil => simp
  | cons k ks ih =>
    rw [List.map_cons, List.sum_cons]
    have := abs_nonneg k
    omega

/-- every component of a horizontal integer pass is `passInt` of its window -/
theorem horizPass_get (k : CKind) (hk : k = .u8 ∨ k = .u16) (src : Img) (dstW dstH offset : Nat) (c : Coeffs)
    (x y ch : Nat) (hx : x < dstW) (hy : y < dstH) (hc : ch < src.n) :
    (horizPass k src dstW dstH offset c).get x y ch =
      passInt k (chunkAt k c x).2.toList (hWindow k src offset c x y ch) (qOf k c).precision := by
  simp only [horizPass]
  rw [ofFn_get dstW dstH src.n _ x y ch hx hy hc]
  simp only [mul_add_div hc, mul_add_mod hc, mul_add_div hx, mul_add_mod hx]
  rcases hk with rfl | rfl <;> rfl

/-- every component of a vertical integer pass is `passInt` of its window -/
theorem vertPass_get (k : CKind) (hk : k = .u8 ∨ k = .u16) (src : Img) (dstW dstH offset : Nat) (c : Coeffs)
    (x y ch : Nat) (hx : x < dstW) (hy : y < dstH) (hc : ch < src.n) :
    (vertPass k src dstW dstH offset c).get x y ch =
      passInt k (chunkAt k c y).2.toList (vWindow k src offset c x y ch) (qOf k c).precision := by
  simp only [vertPass]
  rw [ofFn_get dstW dstH src.n _ x y ch hx hy hc]
  simp only [mul_add_div hc, mul_add_mod hc, mul_add_div hx, mul_add_mod hx]
  rcases hk with rfl | rfl <;> rfl

theorem hWindow_length (k : CKind) (src : Img) (offset : Nat) (c : Coeffs) (x y ch : Nat) :
    (hWindow k src offset c x y ch).length = (chunkAt k c x).2.toList.length := by
  simp [hWindow, window]

theorem vWindow_length (k : CKind) (src : Img) (offset : Nat) (c : Coeffs) (x y ch : Nat) :
    (vWindow k src offset c x y ch).length = (chunkAt k c y).2.toList.length := by
  simp [vWindow, window]

/-- the accumulator stays inside `[-B, B]` when `Σ|kᵢ|·M ≤ B` and all samples lie in `[0, M]` -/
theorem dotL_abs_le (ks xs : List Int) (M : Int) (hM : 0 ≤ M) (hx : ∀ x ∈ xs, 0 ≤ x ∧ x ≤ M) :
    |dotL ks xs| ≤ (ks.map (|·|)).sum * M := by
  induction ks generalizing xs with
  | nil => simp [dotL]
  | cons k ks ih =>
    cases xs with
    | nil =>
      rw [dotL_nil_right, abs_zero]
      exact Int.mul_nonneg (sum_map_abs_nonneg _) hM
    | cons x xs =>
      have ih' := ih xs (fun x' hx' => hx x' (List.mem_cons_of_mem _ hx'))
      obtain ⟨hx0, hxM⟩ := hx x (List.mem_cons_self ..)
      rw [dotL_cons, List.map_cons, List.sum_cons, Int.add_mul]
      refine (abs_add_le _ _).trans ?_
      have h1 : |k * x| ≤ |k| * M := by
        rw [abs_mul, abs_of_nonneg hx0]
        exact Int.mul_le_mul_of_nonneg_left hxM (abs_nonneg k)
      omega

/-! ### C10 on images -/

/-- a horizontal 8-bit pass maps a source that is `v` wherever it is read to the constant image `v` -/
theorem horizPass_uniform_u8 (src : Img) (dstW dstH offset : Nat) (c : Coeffs) (v : Int)
    (hv0 : 0 ≤ v) (hv : v ≤ 255) (hp1 : 1 ≤ (qOf .u8 c).precision) (hp : (qOf .u8 c).precision ≤ 22)
    (hread : ∀ x y ch, x < dstW → y < dstH → ch < src.n → ∀ s ∈ hWindow .u8 src offset c x y ch, s = v)
    (hq : ∀ x, x < dstW →
      -(2 ^ ((qOf .u8 c).precision - 1) : Int) ≤ v * ((chunkAt .u8 c x).2.toList.sum - 2 ^ (qOf .u8 c).precision) ∧
      v * ((chunkAt .u8 c x).2.toList.sum - 2 ^ (qOf .u8 c).precision) < 2 ^ ((qOf .u8 c).precision - 1))
    (x y ch : Nat) (hx : x < dstW) (hy : y < dstH) (hc : ch < src.n) :
    (horizPass .u8 src dstW dstH offset c).get x y ch = v := by
  rw [horizPass_get .u8 (by simp) src dstW dstH offset c x y ch hx hy hc]
  have hw : hWindow .u8 src offset c x y ch = List.replicate (chunkAt .u8 c x).2.toList.length v := by
    rw [List.eq_replicate_iff]
    exact ⟨hWindow_length .., hread x y ch hx hy hc⟩
  rw [hw]
  exact uniform_exact_u8 _ _ v hp1 hp hv0 hv (hq x hx).1 (hq x hx).2

theorem vertPass_uniform_u8 (src : Img) (dstW dstH offset : Nat) (c : Coeffs) (v : Int)
    (hv0 : 0 ≤ v) (hv : v ≤ 255) (hp1 : 1 ≤ (qOf .u8 c).precision) (hp : (qOf .u8 c).precision ≤ 22)
    (hread : ∀ x y ch, x < dstW → y < dstH → ch < src.n → ∀ s ∈ vWindow .u8 src offset c x y ch, s = v)
    (hq : ∀ y, y < dstH →
      -(2 ^ ((qOf .u8 c).precision - 1) : Int) ≤ v * ((chunkAt .u8 c y).2.toList.sum - 2 ^ (qOf .u8 c).precision) ∧
      v * ((chunkAt .u8 c y).2.toList.sum - 2 ^ (qOf .u8 c).precision) < 2 ^ ((qOf .u8 c).precision - 1))
    (x y ch : Nat) (hx : x < dstW) (hy : y < dstH) (hc : ch < src.n) :
    (vertPass .u8 src dstW dstH offset c).get x y ch = v := by
  rw [vertPass_get .u8 (by simp) src dstW dstH offset c x y ch hx hy hc]
  have hw : vWindow .u8 src offset c x y ch = List.replicate (chunkAt .u8 c y).2.toList.length v := by
    rw [List.eq_replicate_iff]
    exact ⟨vWindow_length .., hread x y ch hx hy hc⟩
  rw [hw]
  exact uniform_exact_u8 _ _ v hp1 hp hv0 hv (hq y hy).1 (hq y hy).2

theorem horizPass_uniform_u16 (src : Img) (dstW dstH offset : Nat) (c : Coeffs) (v : Int)
    (hv0 : 0 ≤ v) (hv : v ≤ 65535) (hp1 : 1 ≤ (qOf .u16 c).precision) (hp : (qOf .u16 c).precision ≤ 46)
    (hread : ∀ x y ch, x < dstW → y < dstH → ch < src.n → ∀ s ∈ hWindow .u16 src offset c x y ch, s = v)
    (hq : ∀ x, x < dstW →
      -(2 ^ ((qOf .u16 c).precision - 1) : Int) ≤ v * ((chunkAt .u16 c x).2.toList.sum - 2 ^ (qOf .u16 c).precision) ∧
      v * ((chunkAt .u16 c x).2.toList.sum - 2 ^ (qOf .u16 c).precision) < 2 ^ ((qOf .u16 c).precision - 1))
    (x y ch : Nat) (hx : x < dstW) (hy : y < dstH) (hc : ch < src.n) :
    (horizPass .u16 src dstW dstH offset c).get x y ch = v := by
  rw [horizPass_get .u16 (by simp) src dstW dstH offset c x y ch hx hy hc]
  have hw : hWindow .u16 src offset c x y ch = List.replicate (chunkAt .u16 c x).2.toList.length v := by
    rw [List.eq_replicate_iff]
    exact ⟨hWindow_length .., hread x y ch hx hy hc⟩
  rw [hw]
  exact uniform_exact_u16 _ _ v hp1 hp hv0 hv (hq x hx).1 (hq x hx).2

theorem vertPass_uniform_u16 (src : Img) (dstW dstH offset : Nat) (c : Coeffs) (v : Int)
    (hv0 : 0 ≤ v) (hv : v ≤ 65535) (hp1 : 1 ≤ (qOf .u16 c).precision) (hp : (qOf .u16 c).precision ≤ 46)
    (hread : ∀ x y ch, x < dstW → y < dstH → ch < src.n → ∀ s ∈ vWindow .u16 src offset c x y ch, s = v)
    (hq : ∀ y, y < dstH →
      -(2 ^ ((qOf .u16 c).precision - 1) : Int) ≤ v * ((chunkAt .u16 c y).2.toList.sum - 2 ^ (qOf .u16 c).precision) ∧
      v * ((chunkAt .u16 c y).2.toList.sum - 2 ^ (qOf .u16 c).precision) < 2 ^ ((qOf .u16 c).precision - 1))
    (x y ch : Nat) (hx : x < dstW) (hy : y < dstH) (hc : ch < src.n) :
    (vertPass .u16 src dstW dstH offset c).get x y ch = v := by
  rw [vertPass_get .u16 (by simp) src dstW dstH offset c x y ch hx hy hc]
  have hw : vWindow .u16 src offset c x y ch = List.replicate (chunkAt .u16 c y).2.toList.length v := by
    rw [List.eq_replicate_iff]
    exact ⟨vWindow_length .., hread x y ch hx hy hc⟩
  rw [hw]
  exact uniform_exact_u16 _ _ v hp1 hp hv0 hv (hq y hy).1 (hq y hy).2

/-! ### C18 on images -/

/-- 8-bit accumulators stay inside i32 -/
def AccOK8 (ks xs : List Int) (p : Nat) : Prop :=
  -(2 ^ 31 : Int) ≤ 2 ^ (p - 1) + dotL ks xs ∧ 2 ^ (p - 1) + dotL ks xs < 2 ^ 31

/-- 16-bit accumulators stay inside i64 -/
def AccOK16 (ks xs : List Int) (p : Nat) : Prop :=
  -(2 ^ 63 : Int) ≤ 2 ^ (p - 1) + dotL ks xs ∧ 2 ^ (p - 1) + dotL ks xs < 2 ^ 63

/-- the i32 accumulator of an 8-bit window cannot overflow when `255·Σ|kᵢ| + 2^(p−1) < 2^31`
    (at the largest precision 21 that is `Σ|kᵢ|/2^21 < 4.0078`: the documented head-room) -/
theorem accOK8_of_abs_sum (ks xs : List Int) (p : Nat) (hx : ∀ x ∈ xs, 0 ≤ x ∧ x ≤ 255)
    (h : 255 * (ks.map (|·|)).sum + 2 ^ (p - 1) < 2 ^ 31) : AccOK8 ks xs p := by
  have hd := abs_le.mp (dotL_abs_le ks xs 255 (by decide) hx)
  have hP : (0 : Int) < 2 ^ (p - 1) := pow2_pos _
  unfold AccOK8
  constructor <;> omega

theorem accOK16_of_abs_sum (ks xs : List Int) (p : Nat) (hx : ∀ x ∈ xs, 0 ≤ x ∧ x ≤ 65535)
    (h : 65535 * (ks.map (|·|)).sum + 2 ^ (p - 1) < 2 ^ 63) : AccOK16 ks xs p := by
  have hd := abs_le.mp (dotL_abs_le ks xs 65535 (by decide) hx)
  have hP : (0 : Int) < 2 ^ (p - 1) := pow2_pos _
  unfold AccOK16
  constructor <;> omega

/-- order preservation of a whole horizontal 8-bit pass with non-negative coefficients -/
theorem horizPass_monotone_u8 (src src' : Img) (dstW dstH offset : Nat) (c : Coeffs) (hn : src.n = src'.n)
    (hp : (qOf .u8 c).precision < 32)
    (hk : ∀ x, x < dstW → ∀ k ∈ (chunkAt .u8 c x).2.toList, 0 ≤ k)
    (hle : ∀ x y ch j, src.get ((chunkAt .u8 c x).1 + j) (offset + y) ch ≤ src'.get ((chunkAt .u8 c x).1 + j) (offset + y) ch)
    (hacc : ∀ x y ch, x < dstW → y < dstH → ch < src.n →
      AccOK8 (chunkAt .u8 c x).2.toList (hWindow .u8 src offset c x y ch) (qOf .u8 c).precision ∧
      AccOK8 (chunkAt .u8 c x).2.toList (hWindow .u8 src' offset c x y ch) (qOf .u8 c).precision)
    (x y ch : Nat) (hx : x < dstW) (hy : y < dstH) (hc : ch < src.n) :
    (horizPass .u8 src dstW dstH offset c).get x y ch ≤ (horizPass .u8 src' dstW dstH offset c).get x y ch := by
  have hc' : ch < src'.n := hn ▸ hc
  rw [horizPass_get .u8 (by simp) src dstW dstH offset c x y ch hx hy hc,
    horizPass_get .u8 (by simp) src' dstW dstH offset c x y ch hx hy hc']
  obtain ⟨h1, h2⟩ := hacc x y ch hx hy hc
  refine pass_monotone_u8 _ _ _ _ hp (hk x hx) ?_ ?_ h1 h2
  · rw [hWindow_length, hWindow_length]
  · intro i hi
    unfold hWindow at hi ⊢
    rw [window_length] at hi
    rw [window_getD _ _ _ hi, window_getD _ _ _ hi]
    exact hle x y ch i

theorem vertPass_monotone_u8 (src src' : Img) (dstW dstH offset : Nat) (c : Coeffs) (hn : src.n = src'.n)
    (hp : (qOf .u8 c).precision < 32)
    (hk : ∀ y, y < dstH → ∀ k ∈ (chunkAt .u8 c y).2.toList, 0 ≤ k)
    (hle : ∀ x y ch j, src.get (offset + x) ((chunkAt .u8 c y).1 + j) ch ≤ src'.get (offset + x) ((chunkAt .u8 c y).1 + j) ch)
    (hacc : ∀ x y ch, x < dstW → y < dstH → ch < src.n →
      AccOK8 (chunkAt .u8 c y).2.toList (vWindow .u8 src offset c x y ch) (qOf .u8 c).precision ∧
      AccOK8 (chunkAt .u8 c y).2.toList (vWindow .u8 src' offset c x y ch) (qOf .u8 c).precision)
    (x y ch : Nat) (hx : x < dstW) (hy : y < dstH) (hc : ch < src.n) :
    (vertPass .u8 src dstW dstH offset c).get x y ch ≤ (vertPass .u8 src' dstW dstH offset c).get x y ch := by
  have hc' : ch < src'.n := hn ▸ hc
  rw [vertPass_get .u8 (by simp) src dstW dstH offset c x y ch hx hy hc,
    vertPass_get .u8 (by simp) src' dstW dstH offset c x y ch hx hy hc']
  obtain ⟨h1, h2⟩ := hacc x y ch hx hy hc
  refine pass_monotone_u8 _ _ _ _ hp (hk y hy) ?_ ?_ h1 h2
  · rw [vWindow_length, vWindow_length]
  · intro i hi
    unfold vWindow at hi ⊢
    rw [window_length] at hi
    rw [window_getD _ _ _ hi, window_getD _ _ _ hi]
    exact hle x y ch i

theorem horizPass_monotone_u16 (src src' : Img) (dstW dstH offset : Nat) (c : Coeffs) (hn : src.n = src'.n)
    (hp : (qOf .u16 c).precision < 64)
    (hk : ∀ x, x < dstW → ∀ k ∈ (chunkAt .u16 c x).2.toList, 0 ≤ k)
    (hle : ∀ x y ch j, src.get ((chunkAt .u16 c x).1 + j) (offset + y) ch ≤ src'.get ((chunkAt .u16 c x).1 + j) (offset + y) ch)
    (hacc : ∀ x y ch, x < dstW → y < dstH → ch < src.n →
      AccOK16 (chunkAt .u16 c x).2.toList (hWindow .u16 src offset c x y ch) (qOf .u16 c).precision ∧
      AccOK16 (chunkAt .u16 c x).2.toList (hWindow .u16 src' offset c x y ch) (qOf .u16 c).precision)
    (x y ch : Nat) (hx : x < dstW) (hy : y < dstH) (hc : ch < src.n) :
    (horizPass .u16 src dstW dstH offset c).get x y ch ≤ (horizPass .u16 src' dstW dstH offset c).get x y ch := by
  have hc' : ch < src'.n := hn ▸ hc
  rw [horizPass_get .u16 (by simp) src dstW dstH offset c x y ch hx hy hc,
    horizPass_get .u16 (by simp) src' dstW dstH offset c x y ch hx hy hc']
  obtain ⟨h1, h2⟩ := hacc x y ch hx hy hc
  refine pass_monotone_u16 _ _ _ _ hp (hk x hx) ?_ ?_ h1 h2
  · rw [hWindow_length, hWindow_length]
  · intro i hi
    unfold hWindow at hi ⊢
    rw [window_length] at hi
    rw [window_getD _ _ _ hi, window_getD _ _ _ hi]
    exact hle x y ch i

theorem vertPass_monotone_u16 (src src' : Img) (dstW dstH offset : Nat) (c : Coeffs) (hn : src.n = src'.n)
    (hp : (qOf .u16 c).precision < 64)
    (hk : ∀ y, y < dstH → ∀ k ∈ (chunkAt .u16 c y).2.toList, 0 ≤ k)
    (hle : ∀ x y ch j, src.get (offset + x) ((chunkAt .u16 c y).1 + j) ch ≤ src'.get (offset + x) ((chunkAt .u16 c y).1 + j) ch)
    (hacc : ∀ x y ch, x < dstW → y < dstH → ch < src.n →
      AccOK16 (chunkAt .u16 c y).2.toList (vWindow .u16 src offset c x y ch) (qOf .u16 c).precision ∧
      AccOK16 (chunkAt .u16 c y).2.toList (vWindow .u16 src' offset c x y ch) (qOf .u16 c).precision)
    (x y ch : Nat) (hx : x < dstW) (hy : y < dstH) (hc : ch < src.n) :
    (vertPass .u16 src dstW dstH offset c).get x y ch ≤ (vertPass .u16 src' dstW dstH offset c).get x y ch := by
  have hc' : ch < src'.n := hn ▸ hc
  rw [vertPass_get .u16 (by simp) src dstW dstH offset c x y ch hx hy hc,
    vertPass_get .u16 (by simp) src' dstW dstH offset c x y ch hx hy hc']
  obtain ⟨h1, h2⟩ := hacc x y ch hx hy hc
  refine pass_monotone_u16 _ _ _ _ hp (hk y hy) ?_ ?_ h1 h2
  · rw [vWindow_length, vWindow_length]
  · intro i hi
    unfold vWindow at hi ⊢
    rw [window_length] at hi
    rw [window_getD _ _ _ hi, window_getD _ _ _ hi]
    exact hle x y ch i

/-! ### C01 on images -/

/-- ideal value `Σ wᵢ·xᵢ` (same definition as `Fir.C01.idealDot`) -/
def idealDotQ (ws : List ℚ) (xs : List Int) : ℚ := (List.zipWith (fun (w : ℚ) (x : Int) => w * (x : ℚ)) ws xs).sum

/-- one component of an 8-bit pass against the clamped ideal value: at most half a unit of rounding plus
    the coefficient quantisation `n·255/2^(p+1)` -/
theorem passInt_err_u8 (ws : List ℚ) (ks xs : List Int) (p : Nat) (hp1 : 1 ≤ p) (hp : p < 32)
    (hlen : ks.length = ws.length) (hlen2 : xs.length = ws.length)
    (hq : ∀ i, i < ws.length → |(ks.getD i 0 : ℚ) - ws.getD i 0 * 2 ^ p| ≤ 1 / 2)
    (hx : ∀ x ∈ xs, 0 ≤ x ∧ x ≤ 255) (hacc : AccOK8 ks xs p) :
    |((passInt .u8 ks xs p : Int) : ℚ) - max 0 (min 255 (idealDotQ ws xs))| ≤ 1 / 2 + (ws.length : ℚ) * 255 / 2 ^ (p + 1) := by
  obtain ⟨h1, -, -⟩ := pass_round_nearest_u8 ks xs p hp1 hp hacc
  rw [h1]
  have he := pass_err ws ks xs p hp1 255 hlen hlen2 hq (fun x hx' => by
    obtain ⟨a, b⟩ := hx x hx'
    rw [abs_le]
    constructor
    · have : (0 : ℚ) ≤ (x : ℚ) := by exact_mod_cast a
      linarith
    · exact_mod_cast b)
  have hl := clamp_lipschitz 0 255 (by norm_num)
    (((2 ^ (p - 1) + dotL ks xs) / 2 ^ p : Int) : ℚ) (idealDotQ ws xs)
  simp only [Int.cast_max, Int.cast_min, Int.cast_zero, Int.cast_ofNat]
  unfold idealDotQ at hl ⊢
  exact hl.trans he

theorem passInt_err_u16 (ws : List ℚ) (ks xs : List Int) (p : Nat) (hp1 : 1 ≤ p) (hp : p < 64)
    (hlen : ks.length = ws.length) (hlen2 : xs.length = ws.length)
    (hq : ∀ i, i < ws.length → |(ks.getD i 0 : ℚ) - ws.getD i 0 * 2 ^ p| ≤ 1 / 2)
    (hx : ∀ x ∈ xs, 0 ≤ x ∧ x ≤ 65535) (hacc : AccOK16 ks xs p) :
    |((passInt .u16 ks xs p : Int) : ℚ) - max 0 (min 65535 (idealDotQ ws xs))| ≤ 1 / 2 + (ws.length : ℚ) * 65535 / 2 ^ (p + 1) := by
  obtain ⟨h1, -, -⟩ := pass_round_nearest_u16 ks xs p hp1 hp hacc
  rw [h1]
  have he := pass_err ws ks xs p hp1 65535 hlen hlen2 hq (fun x hx' => by
    obtain ⟨a, b⟩ := hx x hx'
    rw [abs_le]
    constructor
    · have : (0 : ℚ) ≤ (x : ℚ) := by exact_mod_cast a
      linarith
    · exact_mod_cast b)
  have hl := clamp_lipschitz 0 65535 (by norm_num)
    (((2 ^ (p - 1) + dotL ks xs) / 2 ^ p : Int) : ℚ) (idealDotQ ws xs)
  simp only [Int.cast_max, Int.cast_min, Int.cast_zero, Int.cast_ofNat]
  unfold idealDotQ at hl ⊢
  exact hl.trans he

/-- image level: every component of the model's horizontal 8-bit pass is within the bound of the clamped
    ideal filter applied to the samples the window reads -/
theorem horizPass_err_u8 (src : Img) (dstW dstH offset : Nat) (c : Coeffs) (ws : Nat → List ℚ)
    (hp1 : 1 ≤ (qOf .u8 c).precision) (hp : (qOf .u8 c).precision < 32)
    (hlen : ∀ x, x < dstW → (chunkAt .u8 c x).2.toList.length = (ws x).length)
    (hq : ∀ x, x < dstW → ∀ i, i < (ws x).length →
      |(((chunkAt .u8 c x).2.toList.getD i 0 : Int) : ℚ) - (ws x).getD i 0 * 2 ^ (qOf .u8 c).precision| ≤ 1 / 2)
    (hsamp : ∀ x y ch, x < dstW → y < dstH → ch < src.n → ∀ s ∈ hWindow .u8 src offset c x y ch, 0 ≤ s ∧ s ≤ 255)
    (hacc : ∀ x y ch, x < dstW → y < dstH → ch < src.n →
      AccOK8 (chunkAt .u8 c x).2.toList (hWindow .u8 src offset c x y ch) (qOf .u8 c).precision)
    (x y ch : Nat) (hx : x < dstW) (hy : y < dstH) (hc : ch < src.n) :
    |(((horizPass .u8 src dstW dstH offset c).get x y ch : Int) : ℚ)
        - max 0 (min 255 (idealDotQ (ws x) (hWindow .u8 src offset c x y ch)))|
      ≤ 1 / 2 + ((ws x).length : ℚ) * 255 / 2 ^ ((qOf .u8 c).precision + 1) := by
  rw [horizPass_get .u8 (by simp) src dstW dstH offset c x y ch hx hy hc]
  exact passInt_err_u8 (ws x) _ _ _ hp1 hp (hlen x hx)
    (by rw [hWindow_length]; exact hlen x hx) (hq x hx) (hsamp x y ch hx hy hc) (hacc x y ch hx hy hc)

theorem vertPass_err_u8 (src : Img) (dstW dstH offset : Nat) (c : Coeffs) (ws : Nat → List ℚ)
    (hp1 : 1 ≤ (qOf .u8 c).precision) (hp : (qOf .u8 c).precision < 32)
    (hlen : ∀ y, y < dstH → (chunkAt .u8 c y).2.toList.length = (ws y).length)
    (hq : ∀ y, y < dstH → ∀ i, i < (ws y).length →
      |(((chunkAt .u8 c y).2.toList.getD i 0 : Int) : ℚ) - (ws y).getD i 0 * 2 ^ (qOf .u8 c).precision| ≤ 1 / 2)
    (hsamp : ∀ x y ch, x < dstW → y < dstH → ch < src.n → ∀ s ∈ vWindow .u8 src offset c x y ch, 0 ≤ s ∧ s ≤ 255)
    (hacc : ∀ x y ch, x < dstW → y < dstH → ch < src.n →
      AccOK8 (chunkAt .u8 c y).2.toList (vWindow .u8 src offset c x y ch) (qOf .u8 c).precision)
    (x y ch : Nat) (hx : x < dstW) (hy : y < dstH) (hc : ch < src.n) :
    |(((vertPass .u8 src dstW dstH offset c).get x y ch : Int) : ℚ)
        - max 0 (min 255 (idealDotQ (ws y) (vWindow .u8 src offset c x y ch)))|
      ≤ 1 / 2 + ((ws y).length : ℚ) * 255 / 2 ^ ((qOf .u8 c).precision + 1) := by
  rw [vertPass_get .u8 (by simp) src dstW dstH offset c x y ch hx hy hc]
  exact passInt_err_u8 (ws y) _ _ _ hp1 hp (hlen y hy)
    (by rw [vWindow_length]; exact hlen y hy) (hq y hy) (hsamp x y ch hx hy hc) (hacc x y ch hx hy hc)

end Fir.Proofs
