/-
  Fir.Proofs.ReadsLemmas - every source sample the passes of `do_convolution` read exists (C03 at the
  level of whole images): for windows that lie inside their axis (`window_in_source` proves that for every
  kernel) the first pass reads inside the source, the temporary image is exactly large enough, and the
  second pass - with bounds shifted by `first` - reads inside the temporary image.  Both pass orders.
-/
import Fir.Model.Bounds
import Fir.Proofs.BoundsLemmas
import Fir.Model.Resizer
namespace Fir.Proofs
open Fir.Bounds

theorem foldl_max_le_bound (l : List (Nat × Nat)) (B : Nat) (h : ∀ b ∈ l, b.1 + b.2 ≤ B) :
    ∀ init : Nat, init ≤ B → l.foldl (fun m b => max m (b.1 + b.2)) init ≤ B := by
  induction l with
  | nil => intro init hi; simpa using hi
  | cons a l ih =>
    intro init hi
    simp only [List.foldl_cons]
    apply ih (fun b hb => h b (List.mem_cons_of_mem _ hb))
    have := h a (List.mem_cons_self ..)
    omega

/-- flat component index of sample (x, y, c) of a `w x h` image of `n` components is inside its buffer -/
theorem sample_index_lt {w h n x y c : Nat} (hx : x < w) (hy : y < h) (hc : c < n) : (y * w + x) * n + c < w * h * n := by
  have e1 : (y + 1) * w = y * w + w := Nat.succ_mul y w
  have h2 : (y + 1) * w ≤ h * w := Nat.mul_le_mul_right w hy
  have e2 : h * w = w * h := Nat.mul_comm h w
  have h1 : y * w + x + 1 ≤ w * h := by omega
  have e3 : (y * w + x + 1) * n = (y * w + x) * n + n := Nat.succ_mul _ n
  have h3 : (y * w + x + 1) * n ≤ w * h * n := Nat.mul_le_mul_right n h1
  omega

/-- **two-pass resize, first pass along the axis of `second` deferred**: `first` = bounds of the pass
    that runs second (they decide which strip of the source the first pass must produce), `inSize` the
    source extent along that axis.  With `e = tempExtent bounds`:
      (1) the strip `[e.1, e.2)` read by the first pass lies inside the source;
      (2) every shifted window of the second pass lies inside the strip of width `e.2 - e.1`;
      (3) shifting never underflows. -/
theorem two_pass_reads_in_bounds (bounds : List (Nat × Nat)) (inSize : Nat) (hin : ∀ b ∈ bounds, b.1 + b.2 ≤ inSize) :
    (∀ x, x < (tempExtent bounds).2 - (tempExtent bounds).1 → (tempExtent bounds).1 + x < inSize) ∧
    (∀ b ∈ bounds, (tempExtent bounds).1 ≤ b.1 ∧
      ∀ j, j < b.2 → (b.1 - (tempExtent bounds).1) + j < (tempExtent bounds).2 - (tempExtent bounds).1) := by
  have hlast : (tempExtent bounds).2 ≤ inSize := foldl_max_le_bound bounds inSize hin 0 (Nat.zero_le _)
  refine ⟨fun x hx => by omega, fun b hb => ?_⟩
  have h := temp_image_fits bounds b hb
  simp only at h
  exact ⟨h.1, fun j hj => by have := h.2; omega⟩

/-- single pass: every sample of every window exists along the convolved axis -/
theorem one_pass_reads_in_bounds (bounds : List (Nat × Nat)) (inSize : Nat) (hin : ∀ b ∈ bounds, b.1 + b.2 ≤ inSize)
    (b : Nat × Nat) (hb : b ∈ bounds) (j : Nat) (hj : j < b.2) : b.1 + j < inSize := by
  have := hin b hb; omega

/-! ### the link to `Fir.doConvolution`: its `boundsFirst` / `boundsLast` are `tempExtent` of the bounds -/

theorem boundsFirst_eq (c : Fir.Coeffs) : Fir.boundsFirst c = (tempExtent c.bounds.toList).1 := by
  unfold Fir.boundsFirst tempExtent
  simp only
  rw [← Array.foldl_toList]
  congr 1
  cases h : c.bounds.toList with
  | nil =>
    have : c.bounds = #[] := by
      apply Array.ext'; simpa using h
    simp [this]
  | cons a l =>
    have hs : 0 < c.bounds.size := by
      have : c.bounds.size = (a :: l).length := by rw [← h]; simp
      simp at this; omega
    have : c.bounds[0] = a := by
      have h0 : c.bounds.toList[0]'(by simpa using hs) = a := by simp [h]
      simpa using h0
    simp [Array.getD, hs, this]

theorem boundsLast_eq (c : Fir.Coeffs) : Fir.boundsLast c = (tempExtent c.bounds.toList).2 := by
  unfold Fir.boundsLast tempExtent
  simp only
  rw [← Array.foldl_toList]

/-- the temporary image `doConvolution` builds and the shifted bounds it hands to the second pass: every
    read of both passes is inside the image it reads from, whenever the windows of the deferred pass lie
    inside their axis -/
theorem doConvolution_temp_reads_in_bounds (c : Fir.Coeffs) (inSize : Nat) (hin : ∀ b ∈ c.bounds.toList, b.1 + b.2 ≤ inSize) :
    (∀ x, x < Fir.boundsLast c - Fir.boundsFirst c → Fir.boundsFirst c + x < inSize) ∧
    (∀ b ∈ c.bounds.toList, Fir.boundsFirst c ≤ b.1 ∧
      ∀ j, j < b.2 → (b.1 - Fir.boundsFirst c) + j < Fir.boundsLast c - Fir.boundsFirst c) := by
  rw [boundsFirst_eq, boundsLast_eq]
  exact two_pass_reads_in_bounds c.bounds.toList inSize hin

end Fir.Proofs
