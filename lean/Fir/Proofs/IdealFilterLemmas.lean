/-
  Fir.Proofs.IdealFilterLemmas - facts about the exact rational specification `Fir.Spec.IdealFilter`:
  the ideal weights of every window form a partition of unity (C10), the box and triangle kernels are
  non-negative so their windows are convex combinations (C18), every window lies inside the source (C03),
  and replacing the weights by nearby ones moves a filtered value by at most `n·δ·m` (C01: from the
  implementation's f64 weights, compared per geometry with the ideal ones, to the ideal filter).
-/
import Fir.Spec.IdealFilter
import Fir.Proofs.ErrLemmas
namespace Fir.Proofs
open Fir Fir.Spec

theorem qabs_eq_abs (x : ℚ) : qabs x = |x| := by
  unfold qabs
  split_ifs with h
  · exact (abs_of_neg h).symm
  · exact (abs_of_nonneg (not_lt.mp h)).symm

theorem sum_map_div_const (ws : List ℚ) (W : ℚ) : (ws.map (· / W)).sum = ws.sum / W := by
  induction ws with
  | nil => simp
  | cons w ws ih => simp only [List.map_cons, List.sum_cons, ih, add_div]

theorem idealWeights_eq (inSize : Nat) (in0 in1 : ℚ) (outSize : Nat) (flt : QFilter) (adaptive : Bool) (o : Nat) :
    idealWeights inSize in0 in1 outSize flt adaptive o
      = ((idealRaw inSize in0 in1 outSize flt adaptive o).1,
          normalise (idealRaw inSize in0 in1 outSize flt adaptive o).2) := rfl

theorem idealRaw_mem (inSize : Nat) (in0 in1 : ℚ) (outSize : Nat) (flt : QFilter) (adaptive : Bool) (o : Nat)
    (w : ℚ) (hw : w ∈ (idealRaw inSize in0 in1 outSize flt adaptive o).2) : ∃ y, w = flt.f y := by
  have h : (idealRaw inSize in0 in1 outSize flt adaptive o).2
      = (List.range (idealGeom inSize in0 in1 outSize flt.support adaptive o).2.1).map fun i =>
          flt.f (((((idealGeom inSize in0 in1 outSize flt.support adaptive o).1 + i : Nat) : ℚ)
            - (idealGeom inSize in0 in1 outSize flt.support adaptive o).2.2.1)
            / (idealGeom inSize in0 in1 outSize flt.support adaptive o).2.2.2) := rfl
  rw [h] at hw
  rcases List.mem_map.mp hw with ⟨i, _, rfl⟩
  exact ⟨_, rfl⟩

theorem normalise_sum_one (ws : List ℚ) (h : ws.sum ≠ 0) : (normalise ws).sum = 1 := by
  unfold normalise
  simp only [if_neg h]
  rw [sum_map_div_const, div_self h]

theorem normalise_length (ws : List ℚ) : (normalise ws).length = ws.length := by
  unfold normalise
  simp only
  split_ifs <;> simp

/-- C10 (ideal): the ideal weights of a window whose kernel values do not cancel sum to exactly one -/
theorem idealWeights_sum_one (inSize : Nat) (in0 in1 : ℚ) (outSize : Nat) (flt : QFilter) (adaptive : Bool) (o : Nat)
    (h : (idealRaw inSize in0 in1 outSize flt adaptive o).2.sum ≠ 0) :
    (idealWeights inSize in0 in1 outSize flt adaptive o).2.sum = 1 := by
  rw [idealWeights_eq]
  exact normalise_sum_one _ h

theorem qBox_nonneg (x : ℚ) : 0 ≤ qBox x := by
  unfold qBox
  split_ifs <;> norm_num

theorem qBilinear_nonneg (x : ℚ) : 0 ≤ qBilinear x := by
  simp only [qBilinear, qabs_eq_abs]
  split_ifs with h
  · linarith
  · exact le_refl _

theorem qBox_le_one (x : ℚ) : qBox x ≤ 1 := by
  unfold qBox
  split_ifs <;> norm_num

theorem qBilinear_le_one (x : ℚ) : qBilinear x ≤ 1 := by
  simp only [qBilinear, qabs_eq_abs]
  have := abs_nonneg x
  split_ifs with h
  · linarith
  · norm_num

/-- the kernels are even (bilinear, Catmull-Rom, Mitchell) and vanish outside their support -/
theorem qBilinear_even (x : ℚ) : qBilinear (-x) = qBilinear x := by
  simp only [qBilinear, qabs_eq_abs, abs_neg]

theorem qCatmull_even (x : ℚ) : qCatmull (-x) = qCatmull x := by
  simp only [qCatmull, qabs_eq_abs, abs_neg]

theorem qMitchell_even (x : ℚ) : qMitchell (-x) = qMitchell x := by
  simp only [qMitchell, qabs_eq_abs, abs_neg]

theorem qBilinear_support (x : ℚ) (h : 1 ≤ |x|) : qBilinear x = 0 := by
  simp only [qBilinear, qabs_eq_abs]
  rw [if_neg (not_lt.mpr h)]

theorem qCatmull_support (x : ℚ) (h : 2 ≤ |x|) : qCatmull x = 0 := by
  simp only [qCatmull, qabs_eq_abs]
  rw [if_neg (by linarith), if_neg (by linarith)]

theorem qMitchell_support (x : ℚ) (h : 2 ≤ |x|) : qMitchell x = 0 := by
  simp only [qMitchell, qabs_eq_abs]
  rw [if_neg (by linarith), if_neg (by linarith)]

/-- the interpolating kernels take the value 1 at 0 and 0 at the other integers of their support;
    Mitchell is smoothing: 8/9 at 0 and 1/18 at ±1 (so integer samples still sum to one) -/
theorem qCatmull_at_integers : qCatmull 0 = 1 ∧ qCatmull 1 = 0 ∧ qCatmull 2 = 0 := by
  refine ⟨?_, ?_, ?_⟩ <;> norm_num [qCatmull, qabs]

theorem qMitchell_at_integers : qMitchell 0 = 8 / 9 ∧ qMitchell 1 = 1 / 18 ∧ qMitchell 2 = 0 := by
  refine ⟨?_, ?_, ?_⟩ <;> norm_num [qMitchell, qabs]

/-- partition of unity of the kernels themselves on one period: for 0 ≤ t ≤ 1 the integer translates sum to one -/
theorem qBilinear_partition (t : ℚ) (h0 : 0 ≤ t) (h1 : t ≤ 1) : qBilinear t + qBilinear (t - 1) = 1 := by
  have e1 : qabs t = t := by rw [qabs_eq_abs, abs_of_nonneg h0]
  have e2 : qabs (t - 1) = 1 - t := by rw [qabs_eq_abs, abs_of_nonpos (by linarith)]; ring
  simp only [qBilinear, e1, e2]
  split_ifs <;> first | (exfalso; linarith) | linarith

theorem qCatmull_partition (t : ℚ) (h0 : 0 ≤ t) (h1 : t ≤ 1) :
    qCatmull (t + 1) + qCatmull t + qCatmull (t - 1) + qCatmull (t - 2) = 1 := by
  have e0 : qabs (t + 1) = t + 1 := by rw [qabs_eq_abs, abs_of_nonneg (by linarith)]
  have e1 : qabs t = t := by rw [qabs_eq_abs, abs_of_nonneg h0]
  have e2 : qabs (t - 1) = 1 - t := by rw [qabs_eq_abs, abs_of_nonpos (by linarith)]; ring
  have e3 : qabs (t - 2) = 2 - t := by rw [qabs_eq_abs, abs_of_nonpos (by linarith)]; ring
  simp only [qCatmull, e0, e1, e2, e3]
  split_ifs <;> first
    | (exfalso; linarith)
    | ring1
    | (have ht : t = 0 := by linarith
       subst ht; norm_num)
    | (have ht : t = 1 := by linarith
       subst ht; norm_num)

theorem qMitchell_partition (t : ℚ) (h0 : 0 ≤ t) (h1 : t ≤ 1) :
    qMitchell (t + 1) + qMitchell t + qMitchell (t - 1) + qMitchell (t - 2) = 1 := by
  have e0 : qabs (t + 1) = t + 1 := by rw [qabs_eq_abs, abs_of_nonneg (by linarith)]
  have e1 : qabs t = t := by rw [qabs_eq_abs, abs_of_nonneg h0]
  have e2 : qabs (t - 1) = 1 - t := by rw [qabs_eq_abs, abs_of_nonpos (by linarith)]; ring
  have e3 : qabs (t - 2) = 2 - t := by rw [qabs_eq_abs, abs_of_nonpos (by linarith)]; ring
  simp only [qMitchell, e0, e1, e2, e3]
  split_ifs <;> first
    | (exfalso; linarith)
    | ring1
    | (have ht : t = 0 := by linarith
       subst ht; norm_num)
    | (have ht : t = 1 := by linarith
       subst ht; norm_num)

/-- C18 (ideal): normalising non-negative values with a positive sum gives non-negative weights, each at most one -/
theorem normalise_nonneg (ws : List ℚ) (h : ∀ w ∈ ws, 0 ≤ w) : ∀ w ∈ normalise ws, 0 ≤ w := by
  have hs : 0 ≤ ws.sum := List.sum_nonneg h
  unfold normalise
  simp only
  split_ifs with h0
  · exact h
  · intro w hw
    rcases List.mem_map.mp hw with ⟨v, hv, rfl⟩
    exact div_nonneg (h v hv) hs

theorem idealWeights_nonneg_box (inSize : Nat) (in0 in1 : ℚ) (outSize : Nat) (adaptive : Bool) (o : Nat) :
    ∀ w ∈ (idealWeights inSize in0 in1 outSize ⟨qBox, 1 / 2⟩ adaptive o).2, 0 ≤ w := by
  rw [idealWeights_eq]
  apply normalise_nonneg
  intro w hw
  rcases idealRaw_mem _ _ _ _ _ _ _ w hw with ⟨y, rfl⟩
  exact qBox_nonneg y

theorem idealWeights_nonneg_bilinear (inSize : Nat) (in0 in1 : ℚ) (outSize : Nat) (adaptive : Bool) (o : Nat) :
    ∀ w ∈ (idealWeights inSize in0 in1 outSize ⟨qBilinear, 1⟩ adaptive o).2, 0 ≤ w := by
  rw [idealWeights_eq]
  apply normalise_nonneg
  intro w hw
  rcases idealRaw_mem _ _ _ _ _ _ _ w hw with ⟨y, rfl⟩
  exact qBilinear_nonneg y

/-- a convex combination stays inside the range of its inputs (the ideal statement behind C18) -/
theorem convex_combination_range (ws xs : List ℚ) (lo hi : ℚ) (hlen : xs.length = ws.length)
    (hw : ∀ w ∈ ws, 0 ≤ w) (hsum : ws.sum = 1) (hx : ∀ x ∈ xs, lo ≤ x ∧ x ≤ hi) :
    lo ≤ (List.zipWith (· * ·) ws xs).sum ∧ (List.zipWith (· * ·) ws xs).sum ≤ hi := by
  have key : lo * ws.sum ≤ (List.zipWith (· * ·) ws xs).sum
      ∧ (List.zipWith (· * ·) ws xs).sum ≤ hi * ws.sum := by
    clear hsum
    induction ws generalizing xs with
    | nil => simp
    | cons w ws ih =>
      cases xs with
      | nil => simp at hlen
      | cons x xs =>
        have hw0 : 0 ≤ w := hw w (List.mem_cons_self ..)
        obtain ⟨hx1, hx2⟩ := hx x (List.mem_cons_self ..)
        obtain ⟨ih1, ih2⟩ := ih xs (by simpa using hlen)
          (fun w' hw' => hw w' (List.mem_cons_of_mem _ hw'))
          (fun x' hx' => hx x' (List.mem_cons_of_mem _ hx'))
        simp only [List.zipWith_cons_cons, List.sum_cons]
        have a1 : w * lo ≤ w * x := mul_le_mul_of_nonneg_left hx1 hw0
        have a2 : w * x ≤ w * hi := mul_le_mul_of_nonneg_left hx2 hw0
        constructor <;> nlinarith
  rw [hsum, mul_one, mul_one] at key
  exact key

/-- C03 (ideal): every ideal window lies inside the source -/
theorem idealGeom_in_source (inSize : Nat) (in0 in1 : ℚ) (outSize : Nat) (support : ℚ) (adaptive : Bool) (o : Nat) :
    let g := idealGeom inSize in0 in1 outSize support adaptive o
    g.2.1 = 0 ∨ g.1 + g.2.1 ≤ inSize := by
  intro g
  simp only [g, idealGeom]
  omega

/-- C01: weights that differ from other weights by at most `δ` per tap move the filtered value of samples
    bounded by `m` by at most `n·δ·m` -/
theorem weights_perturbation (ws ws' : List ℚ) (xs : List ℚ) (δ m : ℚ) (hlen : ws'.length = ws.length) (hlen2 : xs.length = ws.length)
    (hδ : ∀ i, i < ws.length → |ws.getD i 0 - ws'.getD i 0| ≤ δ) (hm : ∀ x ∈ xs, |x| ≤ m) (hm0 : 0 ≤ m) :
    |(List.zipWith (· * ·) ws xs).sum - (List.zipWith (· * ·) ws' xs).sum| ≤ (ws.length : ℚ) * δ * m := by
  have _ := hm0 -- not needed: `δ` and `m` are forced non-negative by the other hypotheses whenever a tap exists
  induction ws generalizing ws' xs with
  | nil => simp [List.length_eq_zero_iff.mp hlen2]
  | cons w ws ih =>
    cases ws' with
    | nil => simp at hlen
    | cons w' ws' =>
      cases xs with
      | nil => simp at hlen2
      | cons x xs =>
        have h0 : |w - w'| ≤ δ := by simpa using hδ 0 (by simp)
        have hxm : |x| ≤ m := hm x (List.mem_cons_self ..)
        have ih' := ih ws' xs (by simpa using hlen) (by simpa using hlen2)
          (fun i hi => by simpa using hδ (i + 1) (by simpa using hi))
          (fun x' hx' => hm x' (List.mem_cons_of_mem _ hx'))
        simp only [List.zipWith_cons_cons, List.sum_cons, List.length_cons]
        push_cast
        have heq : w * x + (List.zipWith (· * ·) ws xs).sum - (w' * x + (List.zipWith (· * ·) ws' xs).sum)
            = (w - w') * x + ((List.zipWith (· * ·) ws xs).sum - (List.zipWith (· * ·) ws' xs).sum) := by
          ring
        rw [heq]
        refine (abs_add_le _ _).trans ?_
        have h1 : |(w - w') * x| ≤ δ * m := by
          rw [abs_mul]
          exact mul_le_mul h0 hxm (abs_nonneg _) ((abs_nonneg _).trans h0)
        linarith

end Fir.Proofs
