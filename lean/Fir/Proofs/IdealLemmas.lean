/-
  Fir.Proofs.IdealLemmas - facts about the *ideal* (exact rational) counterparts of the coefficient
  quantisation (C10) and of the nearest-neighbour coordinate (C11).
-/
import Fir.Model.Resample
import Fir.Proofs.FixedLemmas
import Fir.Proofs.ErrLemmas
import Mathlib.Algebra.Order.Floor.Ring
import Mathlib.Data.Rat.Floor
import Mathlib.Algebra.Order.Field.Basic
import Mathlib.Tactic.Linarith
import Mathlib.Tactic.Ring
import Mathlib.Tactic.Positivity
import Mathlib.Tactic.FieldSimp
import Mathlib.Tactic.NormNum
namespace Fir.Proofs
open Fir

/-- the summed rounding error: `|Σk − P·Σw| ≤ n/2` -/
theorem quant_sum_err (ws : List ℚ) (ks : List Int) (P : ℚ)
    (hlen : ks.length = ws.length)
    (hq : ∀ i, i < ws.length → |(ks.getD i 0 : ℚ) - ws.getD i 0 * P| ≤ 1 / 2) :
    |((ks.sum : Int) : ℚ) - ws.sum * P| ≤ (ws.length : ℚ) / 2 := by
  induction ws generalizing ks with
  | nil => simp [List.length_eq_zero_iff.mp hlen]
  | cons w ws ih =>
    cases ks with
    | nil => simp at hlen
    | cons k ks =>
      have hk : |(k : ℚ) - w * P| ≤ 1 / 2 := by simpa using hq 0 (by simp)
      have ih' := ih ks (by simpa using hlen)
        (fun i hi => by simpa using hq (i + 1) (by simpa using hi))
      simp only [List.sum_cons, List.length_cons]
      push_cast
      have heq : (k : ℚ) + ((ks.sum : Int) : ℚ) - (w + ws.sum) * P
          = ((k : ℚ) - w * P) + (((ks.sum : Int) : ℚ) - ws.sum * P) := by ring
      rw [heq]
      refine (abs_add_le _ _).trans ?_
      linarith

/-- the integer coefficient sum is within `n/2 + ε·2^p` of `2^p` when each coefficient is a rounding
    of `wᵢ·2^p` and the weights sum to one up to `ε` -/
theorem quant_sum_close (ws : List ℚ) (ks : List Int) (p : Nat) (ε : ℚ)
    (hlen : ks.length = ws.length)
    (hq : ∀ i, i < ws.length → |(ks.getD i 0 : ℚ) - ws.getD i 0 * 2 ^ p| ≤ 1 / 2)
    (hsum : |ws.sum - 1| ≤ ε) :
    |((ks.sum - 2 ^ p : Int) : ℚ)| ≤ (ws.length : ℚ) / 2 + ε * 2 ^ p := by
  have h1 := quant_sum_err ws ks (2 ^ p) hlen hq
  have hP : (0 : ℚ) ≤ 2 ^ p := by positivity
  have h2 : |(ws.sum - 1) * (2 : ℚ) ^ p| ≤ ε * 2 ^ p := by
    rw [abs_mul, abs_of_nonneg hP]
    exact mul_le_mul_of_nonneg_right hsum hP
  push_cast
  have heq : ((ks.sum : Int) : ℚ) - 2 ^ p
      = (((ks.sum : Int) : ℚ) - ws.sum * 2 ^ p) + (ws.sum - 1) * 2 ^ p := by ring
  rw [heq]
  refine (abs_add_le _ _).trans ?_
  linarith

/-- ... hence `m·|Σk − 2^p| < 2^(p−1)` as soon as `m·(n/2 + ε·2^p) < 2^(p−1)` -/
theorem quant_sum_close_int (ws : List ℚ) (ks : List Int) (p : Nat) (m : Int) (ε : ℚ) (hm : 0 ≤ m)
    (hlen : ks.length = ws.length)
    (hq : ∀ i, i < ws.length → |(ks.getD i 0 : ℚ) - ws.getD i 0 * 2 ^ p| ≤ 1 / 2)
    (hsum : |ws.sum - 1| ≤ ε)
    (hn : (m : ℚ) * ((ws.length : ℚ) / 2 + ε * 2 ^ p) < 2 ^ (p - 1)) :
    m * |ks.sum - 2 ^ p| < 2 ^ (p - 1) := by
  have h1 := quant_sum_close ws ks p ε hlen hq hsum
  have hm' : (0 : ℚ) ≤ (m : ℚ) := by exact_mod_cast hm
  have h2 : (m : ℚ) * |((ks.sum - 2 ^ p : Int) : ℚ)| < 2 ^ (p - 1) :=
    lt_of_le_of_lt (mul_le_mul_of_nonneg_left h1 hm') hn
  have h3 : ((m * |ks.sum - 2 ^ p| : Int) : ℚ) < ((2 ^ (p - 1) : Int) : ℚ) := by
    rw [Int.cast_mul, Int.cast_abs]
    push_cast at h2 ⊢
    exact h2
  exact Int.cast_lt.mp h3

/-- ideal nearest-neighbour coordinate of destination index `x`: ⌊l + (x + ½)·cw/dw⌋ -/
def nearestIdeal (l cw : ℚ) (dw x : Nat) : Int := ⌊l + ((x : ℚ) + 1 / 2) * cw / (dw : ℚ)⌋

theorem nearestIdeal_centre (l cw : ℚ) (dw x : Nat) :
    (nearestIdeal l cw dw x : ℚ) ≤ l + ((x : ℚ) + 1 / 2) * cw / dw ∧
    l + ((x : ℚ) + 1 / 2) * cw / dw < nearestIdeal l cw dw x + 1 := by
  unfold nearestIdeal
  exact ⟨Int.floor_le _, Int.lt_floor_add_one _⟩

theorem nearestIdeal_in_bounds (l cw : ℚ) (sw dw x : Nat) (hl : 0 ≤ l) (hcw : 0 < cw) (hfit : l + cw ≤ sw)
    (hd : 0 < dw) (hx : x < dw) :
    0 ≤ nearestIdeal l cw dw x ∧ nearestIdeal l cw dw x < sw := by
  unfold nearestIdeal
  have hdq : (0 : ℚ) < (dw : ℚ) := by exact_mod_cast hd
  have hxq : (x : ℚ) + 1 ≤ (dw : ℚ) := by exact_mod_cast hx
  have hx0 : (0 : ℚ) ≤ (x : ℚ) := Nat.cast_nonneg x
  have hfrac0 : 0 ≤ ((x : ℚ) + 1 / 2) * cw / dw := by positivity
  have hfrac1 : ((x : ℚ) + 1 / 2) * cw / dw < cw := by
    rw [div_lt_iff₀ hdq]
    nlinarith
  constructor
  · exact Int.floor_nonneg.mpr (by linarith)
  · rw [Int.floor_lt]
    push_cast
    linarith

theorem nearestIdeal_mono (l cw : ℚ) (dw x x' : Nat) (hcw : 0 ≤ cw) (h : x ≤ x') :
    nearestIdeal l cw dw x ≤ nearestIdeal l cw dw x' := by
  unfold nearestIdeal
  apply Int.floor_le_floor
  have hxq : (x : ℚ) ≤ (x' : ℚ) := by exact_mod_cast h
  have hdq : (0 : ℚ) ≤ (dw : ℚ) := Nat.cast_nonneg dw
  have : ((x : ℚ) + 1 / 2) * cw / dw ≤ ((x' : ℚ) + 1 / 2) * cw / dw := by
    apply div_le_div_of_nonneg_right _ hdq
    exact mul_le_mul_of_nonneg_right (by linarith) hcw
  linarith

/-- up-scaling by an integer factor `k` without crop: every source pixel is repeated exactly `k` times -/
theorem nearestIdeal_integer_upscale (sw k x : Nat) (hk : 0 < k) (hs : 0 < sw) (hx : x < sw * k) :
    nearestIdeal 0 sw (sw * k) x = (x / k : Nat) := by
  unfold nearestIdeal
  have _ := hx
  have hkq : (0 : ℚ) < (k : ℚ) := by exact_mod_cast hk
  have hsq : (0 : ℚ) < (sw : ℚ) := by exact_mod_cast hs
  have hdm : ((k * (x / k) + x % k : Nat) : ℚ) = (x : ℚ) := by rw [Nat.div_add_mod]
  have hmod : ((x % k : Nat) : ℚ) + 1 ≤ (k : ℚ) := by exact_mod_cast Nat.mod_lt x hk
  have hmod0 : (0 : ℚ) ≤ ((x % k : Nat) : ℚ) := Nat.cast_nonneg _
  push_cast at hdm
  have hval : (0 : ℚ) + ((x : ℚ) + 1 / 2) * (sw : ℚ) / ((sw * k : Nat) : ℚ)
      = ((x : ℚ) + 1 / 2) / k := by
    have hs0 : (sw : ℚ) ≠ 0 := ne_of_gt hsq
    have hk0 : (k : ℚ) ≠ 0 := ne_of_gt hkq
    push_cast
    field_simp
    ring
  rw [hval, Int.floor_eq_iff]
  simp only [Int.cast_natCast]
  constructor
  · rw [le_div_iff₀ hkq]
    nlinarith
  · rw [div_lt_iff₀ hkq]
    nlinarith

/-- down-scaling by an odd integer factor `k = 2j+1` without crop picks the middle pixel of every block -/
theorem nearestIdeal_odd_downscale (dw j x : Nat) (hd : 0 < dw) (hx : x < dw) :
    nearestIdeal 0 ((dw * (2 * j + 1) : Nat) : ℚ) dw x = (x * (2 * j + 1) + j : Nat) := by
  unfold nearestIdeal
  have _ := hx
  have hdq : (0 : ℚ) < (dw : ℚ) := by exact_mod_cast hd
  have hval : (0 : ℚ) + ((x : ℚ) + 1 / 2) * ((dw * (2 * j + 1) : Nat) : ℚ) / (dw : ℚ)
      = (x : ℚ) * (2 * j + 1) + j + 1 / 2 := by
    push_cast
    field_simp
    ring
  rw [hval, Int.floor_eq_iff]
  push_cast
  constructor <;> linarith

end Fir.Proofs
