/-
  C03 - No input reachable through the safe API causes UB, a crash or a panic.

  The index arithmetic that decides memory safety, proved for *all* inputs and float-obliviously
  (whatever values floating point, libm or a custom kernel produce):
    * every coefficient window lies inside the source row / column and the bound subtraction cannot
      underflow (`window_in_source`);
    * the temporary image of a two-pass resize contains every shifted window (`temp_image_fits`);
    * the lookup-table index of the 8-bit clip is always inside the 1280-entry table and computed
      without overflow, for every accumulator value and precision (`clip_index_in_table`, translated);
    * every precision the normaliser can choose has a dispatch arm in `constify_imm8!` as soon as the
      largest weight is below 2^14 (`precision_in_arms`, translated arm list);
    * validation, band-count, alpha and conversion arithmetic never overflow (C04, C06, C08, C17),
      nearest indices are in bounds (C11), scratch slices are large enough (C09).
  Not proved: SIMD load footprints (guard pages in the correspondence), the allocator, rayon internals.
-/
import Fir.Model.Bounds
import Fir.Generated.Clip
import Fir.Generated.Constify
import Fir.Props.C04
import Fir.Props.C08
import Fir.Props.C09
import Fir.Props.C11
import Fir.Proofs.BoundsLemmas
import Fir.Proofs.IdealFilterLemmas
import Fir.Proofs.GeomLemmas
import Fir.Proofs.ReadsLemmas
import Fir.Proofs.IeeeLemmas
import Fir.Proofs.SimdU8x3Lemmas
import Fir.Proofs.SimdU16x3Lemmas

namespace Fir.C03
open Fir Fir.Bounds Fir.Gen

/-- for every zero-test (so for every kernel, incl. NaN weights) and every clamped window
    `xMin ≤ xMax ≤ inSize`: start ≤ start + size ≤ xMax ≤ inSize, size ≤ pushed, pushed = xMax - start -/
theorem window_in_source (isZero : Nat → Bool) (xMin xMax inSize : Nat) (h1 : xMin ≤ xMax) (h2 : xMax ≤ inSize) :
    let w := Bounds.window isZero xMin xMax
    xMin ≤ w.1 ∧ w.1 + w.2.1 ≤ xMax ∧ w.1 + w.2.1 ≤ inSize ∧ w.2.1 ≤ w.2.2 ∧ w.1 + w.2.2 = xMax :=
  Fir.Proofs.window_in_source isZero xMin xMax inSize h1 h2

/-- with a window that was not clamped empty (xMin < xMax) and a kernel that is non-zero somewhere in it,
    the window is non-empty -/
theorem window_nonempty (isZero : Nat → Bool) (xMin xMax x : Nat) (hx : xMin ≤ x ∧ x < xMax) (hnz : isZero x = false) :
    0 < (Bounds.window isZero xMin xMax).2.1 :=
  Fir.Proofs.window_nonempty isZero xMin xMax x hx hnz

/-- the temporary image (first = minimal start, last = maximal end over ALL windows - the repaired code)
    contains every shifted window, and shifting does not underflow -/
theorem temp_image_fits (bounds : List (Nat × Nat)) (b : Nat × Nat) (hb : b ∈ bounds) :
    let e := tempExtent bounds
    e.1 ≤ b.1 ∧ (b.1 - e.1) + b.2 ≤ e.2 - e.1 :=
  Fir.Proofs.temp_image_fits bounds b hb

/-- shifted windows address the same samples of the temporary image as the original windows address
    in the source: sample `i` of window `b` is at `b.start - first + i` in an image that starts at `first` -/
theorem shift_bounds_same_samples (bounds : List (Nat × Nat)) (b : Nat × Nat) (hb : b ∈ bounds) (i : Nat) :
    (tempExtent bounds).1 + ((b.1 - (tempExtent bounds).1) + i) = b.1 + i :=
  Fir.Proofs.shift_bounds_same_samples bounds b hb i

/-- the clip-table index is inside the table and is computed without overflow, for EVERY 32-bit
    accumulator value and every precision (false before the repair: out of range for large lobes) -/
theorem clip_index_in_table (v : Int) (p : Nat) (hv : -(2 ^ 31 : Int) ≤ v ∧ v < 2 ^ 31) (hp : p < 32) :
    clip16_index v p < clip8_table_size ∧ clip16_index_ok v p :=
  Fir.Proofs.clip_index_in_table v p hv hp

/-- the 16-bit clip never overflows or over-shifts -/
theorem clip32_total (v : Int) (p : Nat) (hp : p < 64) : clip32_ok v p ∧ clip32 v p ≤ 65535 :=
  Fir.Proofs.clip32_total v p hp

/-- the precision loop returns a value below the number of candidate precisions ... -/
theorem precision_lt_bits (next : Nat → Int) (limit : Int) (bits : Nat) (hb : 0 < bits) :
    precisionOf next limit bits < bits :=
  Fir.Proofs.precision_lt_bits next limit bits hb

/-- ... and at least 1 unless the very first candidate already overflows the coefficient type
    (largest weight ≥ 2^14 for i16 coefficients) -/
theorem precision_ge_one (next : Nat → Int) (limit : Int) (bits : Nat) (hb : 2 ≤ bits) (h0 : next 0 < limit) :
    1 ≤ precisionOf next limit bits :=
  Fir.Proofs.precision_ge_one next limit bits hb h0

/-- every precision 1 .. PRECISION_BITS-1 has a non-trivial dispatch arm that expands the operation
    with that very immediate (translated from src/convolution/macros.rs; false before arm 11 was added) -/
theorem precision_in_arms (p : Nat) (h1 : 1 ≤ p) (h2 : p < PRECISION_BITS) :
    p ∈ constify_arms ∧ p ∉ constify_noop_arms ∧ p ≤ constify_mask :=
  Fir.Proofs.precision_in_arms p h1 h2

/-! ### the clamped window under an arbitrary monotone, integer-exact rounding `fl` -/

/-- `x_min ≤ x_max` - the hypothesis `window_in_source` starts from - whenever the radius is non-negative
    and the (computed) window starts inside the image; `bound_end - bound_start` then cannot underflow.
    `fl` only has to be monotone and exact on the integer `in_size` -/
theorem xmin_le_xmax (fl : ℚ → ℚ) (hfl : Monotone fl) (c r : ℚ) (inSize : ℕ)
    (hsz : fl ((inSize : ℤ) : ℚ) = ((inSize : ℤ) : ℚ)) (hr : 0 ≤ r) (hin : c - r ≤ inSize) :
    Fir.Proofs.xMinOf fl c r ≤ Fir.Proofs.xMaxOf fl c r inSize ∧ Fir.Proofs.xMaxOf fl c r inSize ≤ inSize :=
  ⟨Fir.Proofs.xmin_le_xmax fl hfl c r inSize hsz hr hin, min_le_right _ _⟩

/-- every window fits into the `window_size = min(2⌈r⌉ + 1, in_size)` slots reserved for it (the clamp to
    `in_size` is the repair for huge supports): `coeffs.resize(cur_index + window_size)` never truncates.
    `fl` only has to be monotone and exact on the two integers `⌈c⌉ + ⌈r⌉`, `⌊c⌋ - ⌈r⌉` -/
theorem span_le_window (fl : ℚ → ℚ) (hfl : Monotone fl) (c r : ℚ) (inSize : ℕ) (hr : 0 ≤ r)
    (h1 : fl ((⌈c⌉ + ⌈r⌉ : ℤ) : ℚ) = ((⌈c⌉ + ⌈r⌉ : ℤ) : ℚ)) (h2 : fl ((⌊c⌋ - ⌈r⌉ : ℤ) : ℚ) = ((⌊c⌋ - ⌈r⌉ : ℤ) : ℚ)) :
    Fir.Proofs.xMaxOf fl c r inSize - Fir.Proofs.xMinOf fl c r ≤ Fir.Proofs.windowSizeOf r inSize :=
  Fir.Proofs.span_le_window fl hfl c r inSize hr h1 h2

/-- the reserved slots never exceed the image size, whatever the support (no overflow, no giant allocation) -/
theorem window_size_le_in_size (r : ℚ) (inSize : ℕ) : Fir.Proofs.windowSizeOf r inSize ≤ inSize := min_le_right _ _

example : Fir.Proofs.xMinOf id (7 / 2) (3 / 2) = 2 ∧ Fir.Proofs.xMaxOf id (7 / 2) (3 / 2) 4 = 4 ∧ Fir.Proofs.windowSizeOf (3 / 2) 4 = 4 := by
  have h1 : ⌊((7 : ℚ) / 2 - 3 / 2)⌋ = 2 := by norm_num [Int.floor_eq_iff]
  have h2 : ⌈((7 : ℚ) / 2 + 3 / 2)⌉ = 5 := by norm_num [Int.ceil_eq_iff]
  have h3 : ⌈((3 : ℚ) / 2)⌉ = 2 := by norm_num [Int.ceil_eq_iff]
  simp [Fir.Proofs.xMinOf, Fir.Proofs.xMaxOf, Fir.Proofs.windowSizeOf, h1, h2, h3]

/-! ### non-vacuity -/
example : Bounds.window (fun x => x < 3 || x ≥ 7) 1 9 = (3, 4, 6) := by decide
example : tempExtent [(5, 3), (2, 4), (4, 6)] = (2, 10) := by decide
example : clip16_index (2 ^ 31 - 1) 0 = 1279 ∧ clip16_index (-(2 ^ 31)) 0 = 0 := by decide
example : precisionOf (fun p => 2 ^ (p + 1)) (2 ^ 15) 22 = 14 := by decide

open Fir.Spec in
/-- C03 (ideal): every ideal window lies inside the source -/
theorem idealGeom_in_source (inSize : Nat) (in0 in1 : ℚ) (outSize : Nat) (support : ℚ) (adaptive : Bool) (o : Nat) :
    let g := idealGeom inSize in0 in1 outSize support adaptive o
    g.2.1 = 0 ∨ g.1 + g.2.1 ≤ inSize :=
  Fir.Proofs.idealGeom_in_source inSize in0 in1 outSize support adaptive o


/-! ### every sample the passes of `do_convolution` read exists -/

/-- component index of sample (x, y, c) inside the buffer of a `w x h` image of `n` components -/
theorem sample_index_lt {w h n x y c : Nat} (hx : x < w) (hy : y < h) (hc : c < n) : (y * w + x) * n + c < w * h * n :=
  Fir.Proofs.sample_index_lt hx hy hc

/-- two-pass resize: with `first` / `last` = minimum start / maximum end over ALL windows of the pass that
    runs second (the repaired sizing), the strip the first pass produces lies inside the source, every
    shifted window of the second pass lies inside the strip, and shifting never underflows - for every set
    of windows inside their axis (`window_in_source`: every kernel, every rounding) -/
theorem two_pass_reads_in_bounds (bounds : List (Nat × Nat)) (inSize : Nat) (hin : ∀ b ∈ bounds, b.1 + b.2 ≤ inSize) :
    (∀ x, x < (tempExtent bounds).2 - (tempExtent bounds).1 → (tempExtent bounds).1 + x < inSize) ∧
    (∀ b ∈ bounds, (tempExtent bounds).1 ≤ b.1 ∧
      ∀ j, j < b.2 → (b.1 - (tempExtent bounds).1) + j < (tempExtent bounds).2 - (tempExtent bounds).1) :=
  Fir.Proofs.two_pass_reads_in_bounds bounds inSize hin

/-- the same about the very quantities `Fir.doConvolution` computes (`boundsFirst`, `boundsLast`) -/
theorem doConvolution_temp_reads_in_bounds (c : Fir.Coeffs) (inSize : Nat) (hin : ∀ b ∈ c.bounds.toList, b.1 + b.2 ≤ inSize) :
    (∀ x, x < Fir.boundsLast c - Fir.boundsFirst c → Fir.boundsFirst c + x < inSize) ∧
    (∀ b ∈ c.bounds.toList, Fir.boundsFirst c ≤ b.1 ∧
      ∀ j, j < b.2 → (b.1 - Fir.boundsFirst c) + j < Fir.boundsLast c - Fir.boundsFirst c) :=
  Fir.Proofs.doConvolution_temp_reads_in_bounds c inSize hin


/-! ### the premises about rounding discharged for IEEE-754 round-to-nearest-even (`Fir.Ieee.flP`) -/

section IeeeInstances
open Fir.Ieee Fir.Flt
/-- `xmin_le_xmax` / `span_le_window` for IEEE binary64: coordinates below 2^52 (image sizes are below 2^32) -/
theorem window_ieee (c r : ℚ) (inSize : ℕ) (hr : 0 ≤ r) (hin : c - r ≤ inSize) (hsz : (inSize : ℤ) ≤ 2 ^ 53)
    (hb : |c| + r + 2 ≤ 2 ^ 53) :
    Fir.Proofs.xMinOf (flP 53) c r ≤ Fir.Proofs.xMaxOf (flP 53) c r inSize ∧
    Fir.Proofs.xMaxOf (flP 53) c r inSize - Fir.Proofs.xMinOf (flP 53) c r ≤ Fir.Proofs.windowSizeOf r inSize := by
  have hmono := flP_monotone 53 (by norm_num)
  have hc1 := Int.le_ceil c
  have hc2 := Int.ceil_lt_add_one c
  have hf1 := Int.floor_le c
  have hf2 := Int.lt_floor_add_one c
  have hr1 := Int.le_ceil r
  have hr2 := Int.ceil_lt_add_one r
  have habs := abs_le.mp (le_refl |c|)
  have e1 : flP 53 ((⌈c⌉ + ⌈r⌉ : ℤ) : ℚ) = ((⌈c⌉ + ⌈r⌉ : ℤ) : ℚ) := by
    apply flP_int 53 (by norm_num)
    have : |((⌈c⌉ + ⌈r⌉ : ℤ) : ℚ)| ≤ ((2 ^ 53 : ℤ) : ℚ) := by
      rw [abs_le]; push_cast; constructor <;> linarith
    exact_mod_cast this
  have e2 : flP 53 ((⌊c⌋ - ⌈r⌉ : ℤ) : ℚ) = ((⌊c⌋ - ⌈r⌉ : ℤ) : ℚ) := by
    apply flP_int 53 (by norm_num)
    have : |((⌊c⌋ - ⌈r⌉ : ℤ) : ℚ)| ≤ ((2 ^ 53 : ℤ) : ℚ) := by
      rw [abs_le]; push_cast; constructor <;> linarith
    exact_mod_cast this
  have e3 : flP 53 ((inSize : ℤ) : ℚ) = ((inSize : ℤ) : ℚ) := by
    apply flP_int 53 (by norm_num)
    rw [abs_of_nonneg (by positivity)]; exact hsz
  exact ⟨Fir.Proofs.xmin_le_xmax (flP 53) hmono c r inSize e3 hr hin,
         Fir.Proofs.span_le_window (flP 53) hmono c r inSize hr e1 e2⟩
end IeeeInstances

/-! ### the two documented head-room bits are what keeps the accumulators from overflowing -/

/-- 8-bit formats: with a precision below `PRECISION_BITS` (translated: 32 - 8 - 2) and coefficients whose
    absolute values sum to at most `4·2^p` (normalised weights with `Σ|w| ≤ 4`), the `i32` accumulator of
    every window stays inside `i32` - the premise of `accOK8_of_abs_sum` -/
theorem headroom_u8 (p : Nat) (hp : p < PRECISION_BITS) (S : Int) (hS : S ≤ 4 * 2 ^ p) :
    255 * S + 2 ^ (p - 1) < (2 : Int) ^ 31 := by
  have hp' : p ≤ 21 := by unfold PRECISION_BITS at hp; omega
  have h1 : (2 : Int) ^ p ≤ 2 ^ 21 := Fir.Proofs.pow2_le p 21 hp'
  have h2 : (2 : Int) ^ (p - 1) ≤ 2 ^ p := Fir.Proofs.pow2_le (p - 1) p (by omega)
  generalize (2 : Int) ^ p = P at *
  generalize (2 : Int) ^ (p - 1) = Q at *
  norm_num at h1 ⊢
  omega

/-- 16-bit formats: the same with `PRECISION16_BITS` (translated: 64 - 16 - 2) and the `i64` accumulator -/
theorem headroom_u16 (p : Nat) (hp : p < PRECISION16_BITS) (S : Int) (hS : S ≤ 4 * 2 ^ p) :
    65535 * S + 2 ^ (p - 1) < (2 : Int) ^ 63 := by
  have hp' : p ≤ 45 := by unfold PRECISION16_BITS at hp; omega
  have h1 : (2 : Int) ^ p ≤ 2 ^ 45 := Fir.Proofs.pow2_le p 45 hp'
  have h2 : (2 : Int) ^ (p - 1) ≤ 2 ^ p := Fir.Proofs.pow2_le (p - 1) p (by omega)
  generalize (2 : Int) ^ p = P at *
  generalize (2 : Int) ^ (p - 1) = Q at *
  norm_num at h1 ⊢
  omega

/-! ### SIMD load footprints of one kernel, as a theorem (U8x3, SSE4.1, one row) -/

/-- every 16-byte, 8-byte and single-pixel load of `horiz_convolution_one_row` (src/convolution/u8x3/sse4.rs, modelled in
    `Fir.SimdU8x3.loads` with the kernel's own loop guards `x < src_width - 5` / `- 2`) lies inside the row of `w` pixels
    whenever the coefficient window does - for every width, start and number of coefficients -/
theorem u8x3_sse4_one_row_loads_in_row (w start : Nat) (ks : List Int) (hwin : start + ks.length ≤ w) :
    ∀ e ∈ Fir.SimdU8x3.loads w start ks, 3 * e.1 + e.2 ≤ 3 * w :=
  Fir.Proofs.u8x3_sse4_loads_in_row w start ks hwin

example : Fir.SimdU8x3.loads 15 2 [1, 2, 3, 4, 5, 6, 7, 8, 9, 10, 11, 12, 13] = [(2, 16), (6, 16), (10, 8), (12, 8), (14, 3)] := by decide

/-- the RGB16 twin (src/convolution/u16x3/sse4.rs, both kernels): the pair loop - the only place with a 128-bit load, which covers two
    pixels and a third of the next - runs only when `width - end_x >= 1`; every such load (16 bytes from pixel `x`, 6 bytes per
    pixel; `Fir.SimdU16x3.loads`) lies inside the row of `w` pixels, for every width, start and number of coefficients.  All other
    kernels modelled lane by lane load exactly the pixels whose coefficients they consume (`src*` in their models), so their
    footprint is the coefficient window itself. -/
theorem u16x3_sse4_loads_in_row (w start : Nat) (ks : List Int) :
    ∀ x ∈ Fir.SimdU16x3.loads w start ks, 6 * x + 16 ≤ 6 * w :=
  Fir.Proofs.U16x3.loads_in_row w start ks

example : Fir.SimdU16x3.loads 9 2 [1, 2, 3, 4, 5] = [2, 4] := by decide

/-- ... and when the window ends at the last pixel no 128-bit load is issued at all -/
example : Fir.SimdU16x3.loads 7 2 [1, 2, 3, 4, 5] = [] := by decide

end Fir.C03
