/-
  C10 - A uniform image stays uniform: weights form a partition of unity.

  The theorems are about `Fir.passInt`, the very function the executable model evaluates for every
  destination component of an 8/16-bit pass (fixed-point dot product, rounding constant, arithmetic
  shift, translated clip).  `QuantOK` is a decidable predicate on the *integer* coefficients of one
  window; the correspondence check evaluates it on the implementation's own quantised coefficients
  (through the hook) for every enumerated geometry, and the theorem turns each discharged window into
  "every component value, every position".
-/
import Fir.Model.Resample
import Fir.Proofs.FixedLemmas

namespace Fir.C10
open Fir

/-- the quantised coefficients of a window reproduce the constant `v` exactly:
    `|v·(Σk − 2^p)| < 2^(p−1)` (with the half-open convention of round-half-up) -/
def QuantOK (ks : List Int) (p : Nat) (v : Int) : Prop :=
  -(2 ^ (p - 1) : Int) ≤ v * (ks.sum - 2 ^ p) ∧ v * (ks.sum - 2 ^ p) < 2 ^ (p - 1)

instance (ks : List Int) (p : Nat) (v : Int) : Decidable (QuantOK ks p v) := by
  unfold QuantOK; infer_instance

/-- the dot product of any window with a constant row is the constant times the coefficient sum -/
theorem dot_uniform (ks : List Int) (v : Int) : dotL ks (List.replicate ks.length v) = v * ks.sum :=
  Fir.Proofs.dotL_replicate ks v

/-- 8-bit pass: a constant row of value `v` (any of the 256 values) is mapped to exactly `v`, for every
    window length, every coefficient set with `QuantOK`, every reachable precision -/
theorem uniform_exact_u8 (ks : List Int) (p : Nat) (v : Int) (hp1 : 1 ≤ p) (hp : p ≤ 22)
    (hv0 : 0 ≤ v) (hv : v ≤ 255) (hq : QuantOK ks p v) :
    passInt .u8 ks (List.replicate ks.length v) p = v :=
  Fir.Proofs.uniform_exact_u8 ks p v hp1 hp hv0 hv hq.1 hq.2

/-- 16-bit pass: the same for all 65,536 values -/
theorem uniform_exact_u16 (ks : List Int) (p : Nat) (v : Int) (hp1 : 1 ≤ p) (hp : p ≤ 46)
    (hv0 : 0 ≤ v) (hv : v ≤ 65535) (hq : QuantOK ks p v) :
    passInt .u16 ks (List.replicate ks.length v) p = v :=
  Fir.Proofs.uniform_exact_u16 ks p v hp1 hp hv0 hv hq.1 hq.2

/-- `QuantOK` holds for every value up to `m` as soon as the coefficient sum is within
    `2^(p−1)/m` of `2^p` - in particular whenever the sum is exact -/
theorem quantOK_of_sum_close (ks : List Int) (p : Nat) (m v : Int) (hv0 : 0 ≤ v) (hv : v ≤ m)
    (hs : m * |ks.sum - 2 ^ p| < 2 ^ (p - 1)) : QuantOK ks p v :=
  Fir.Proofs.quantOK_of_sum_close ks p m v hv0 hv hs

/-- two passes: a constant image stays constant through vertical-then-horizontal (u8) or
    horizontal-then-vertical (u16) processing, because the intermediate image is again constant -/
theorem uniform_two_pass (k : CKind) (ks1 ks2 : List Int) (p1 p2 : Nat) (v : Int)
    (h1 : passInt k ks1 (List.replicate ks1.length v) p1 = v)
    (h2 : passInt k ks2 (List.replicate ks2.length v) p2 = v) :
    passInt k ks2 (List.replicate ks2.length (passInt k ks1 (List.replicate ks1.length v) p1)) p2 = v := by
  rw [h1, h2]

/-- KNOWN FINDING F17: beyond several thousand taps `QuantOK` can fail. The Box window of a 13678 -> 1
    down-scale quantises (at precision 21) to 13,678 coefficients 153 = round(2^21 / 13678) whose sum is
    2,092,734; the constant 255 is then mapped to 254 (replayed on the implementation by the check) -/
theorem quantOK_fails_at_13678_taps :
    ¬ QuantOK (List.replicate 13678 153) 21 255 ∧
    passInt .u8 (List.replicate 13678 153) (List.replicate 13678 255) 21 = 254 := by
  constructor
  · unfold QuantOK
    rw [Fir.Proofs.sum_replicate_int]
    decide
  · have h := Fir.Proofs.dotL_replicate (List.replicate 13678 153) 255
    rw [List.length_replicate, Fir.Proofs.sum_replicate_int] at h
    unfold passInt
    simp only [h]
    decide

/-! ### non-vacuity -/
example : QuantOK [4096, 8192, 4096] 14 255 := by decide
example : passInt .u8 [4096, 8192, 4096] (List.replicate 3 200) 14 = 200 := by decide
example : QuantOK [5461, 5462, 5461] 14 255 := by decide

end Fir.C10
