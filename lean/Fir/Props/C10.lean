/-
  C10 - A uniform image stays uniform: weights form a partition of unity.

  The theorems are about `Fir.passInt`, the very function the executable model evaluates for every
  destination component of an 8/16-bit pass (fixed-point dot product, rounding constant, arithmetic
  shift, translated clip).  `QuantOK` is a decidable predicate on the *integer* coefficients of one
  window; the correspondence check evaluates it on the implementation's own quantised coefficients
  (through the hook) for every enumerated geometry, and the theorem turns each discharged window into
  "every component value, every position".
-/
import Fir.Model.Resample
import Fir.Proofs.FixedLemmas
import Fir.Proofs.IdealLemmas
import Fir.Proofs.ImageLemmas
import Fir.Proofs.TwoPassLemmas
import Fir.Proofs.IdealFilterLemmas
import Fir.Proofs.FloatLemmas
import Fir.Proofs.IeeeLemmas
import Fir.Proofs.SimdPassIntLemmas

namespace Fir.C10
open Fir

/-- the quantised coefficients of a window reproduce the constant `v` exactly:
    `|v·(Σk − 2^p)| < 2^(p−1)` (with the half-open convention of round-half-up) -/
def QuantOK (ks : List Int) (p : Nat) (v : Int) : Prop :=
  -(2 ^ (p - 1) : Int) ≤ v * (ks.sum - 2 ^ p) ∧ v * (ks.sum - 2 ^ p) < 2 ^ (p - 1)

instance (ks : List Int) (p : Nat) (v : Int) : Decidable (QuantOK ks p v) := by
  unfold QuantOK; infer_instance

/-- the dot product of any window with a constant row is the constant times the coefficient sum -/
theorem dot_uniform (ks : List Int) (v : Int) : dotL ks (List.replicate ks.length v) = v * ks.sum :=
  Fir.Proofs.dotL_replicate ks v

/-- 8-bit pass: a constant row of value `v` (any of the 256 values) is mapped to exactly `v`, for every
    window length, every coefficient set with `QuantOK`, every reachable precision -/
theorem uniform_exact_u8 (ks : List Int) (p : Nat) (v : Int) (hp1 : 1 ≤ p) (hp : p ≤ 22)
    (hv0 : 0 ≤ v) (hv : v ≤ 255) (hq : QuantOK ks p v) :
    passInt .u8 ks (List.replicate ks.length v) p = v :=
  Fir.Proofs.uniform_exact_u8 ks p v hp1 hp hv0 hv hq.1 hq.2

/-- 16-bit pass: the same for all 65,536 values -/
theorem uniform_exact_u16 (ks : List Int) (p : Nat) (v : Int) (hp1 : 1 ≤ p) (hp : p ≤ 46)
    (hv0 : 0 ≤ v) (hv : v ≤ 65535) (hq : QuantOK ks p v) :
    passInt .u16 ks (List.replicate ks.length v) p = v :=
  Fir.Proofs.uniform_exact_u16 ks p v hp1 hp hv0 hv hq.1 hq.2

/-- `QuantOK` holds for every value up to `m` as soon as the coefficient sum is within
    `2^(p−1)/m` of `2^p` - in particular whenever the sum is exact -/
theorem quantOK_of_sum_close (ks : List Int) (p : Nat) (m v : Int) (hv0 : 0 ≤ v) (hv : v ≤ m)
    (hs : m * |ks.sum - 2 ^ p| < 2 ^ (p - 1)) : QuantOK ks p v :=
  Fir.Proofs.quantOK_of_sum_close ks p m v hv0 hv hs

/-- two passes: a constant image stays constant through vertical-then-horizontal (u8) or
    horizontal-then-vertical (u16) processing, because the intermediate image is again constant -/
theorem uniform_two_pass (k : CKind) (ks1 ks2 : List Int) (p1 p2 : Nat) (v : Int)
    (h1 : passInt k ks1 (List.replicate ks1.length v) p1 = v)
    (h2 : passInt k ks2 (List.replicate ks2.length v) p2 = v) :
    passInt k ks2 (List.replicate ks2.length (passInt k ks1 (List.replicate ks1.length v) p1)) p2 = v := by
  rw [h1, h2]

/-- KNOWN FINDING F17: beyond several thousand taps `QuantOK` can fail. The Box window of a 13678 -> 1
    down-scale quantises (at precision 21) to 13,678 coefficients 153 = round(2^21 / 13678) whose sum is
    2,092,734; the constant 255 is then mapped to 254 (replayed on the implementation by the check) -/
theorem quantOK_fails_at_13678_taps :
    ¬ QuantOK (List.replicate 13678 153) 21 255 ∧
    passInt .u8 (List.replicate 13678 153) (List.replicate 13678 255) 21 = 254 := by
  constructor
  · unfold QuantOK
    rw [Fir.Proofs.sum_replicate_int]
    decide
  · have h := Fir.Proofs.dotL_replicate (List.replicate 13678 153) 255
    rw [List.length_replicate, Fir.Proofs.sum_replicate_int] at h
    unfold passInt
    simp only [h]
    decide

/-- where `QuantOK` comes from: if every integer coefficient is a rounding (either convention) of
    `wᵢ·2^p` for ideal weights that sum to one up to `ε` (the float normalisation error), then `QuantOK`
    holds for every component value up to `m` as soon as `m·(n/2 + ε·2^p) < 2^(p−1)`, `n` the number of
    taps.  For 8-bit data and ε = 0 that is `255·n < 2^p`: at the largest precision 21 every window up to
    8224 taps is exact whatever the kernel - and F17's 13,678 taps lie beyond it. -/
theorem quantOK_of_rounded_weights (ws : List ℚ) (ks : List Int) (p : Nat) (m v : Int) (ε : ℚ)
    (hlen : ks.length = ws.length)
    (hq : ∀ i, i < ws.length → |(ks.getD i 0 : ℚ) - ws.getD i 0 * 2 ^ p| ≤ 1 / 2)
    (hsum : |ws.sum - 1| ≤ ε) (hv0 : 0 ≤ v) (hv : v ≤ m)
    (hn : (m : ℚ) * ((ws.length : ℚ) / 2 + ε * 2 ^ p) < 2 ^ (p - 1)) : QuantOK ks p v :=
  quantOK_of_sum_close ks p m v hv0 hv
    (Fir.Proofs.quant_sum_close_int ws ks p m ε (le_trans hv0 hv) hlen hq hsum hn)

/-- 8-bit, exact weights: every uniform row is reproduced exactly by any window of fewer than `2^p/255` taps -/
theorem uniform_exact_u8_of_rounded_weights (ws : List ℚ) (ks : List Int) (p : Nat) (v : Int)
    (hp1 : 1 ≤ p) (hp : p ≤ 22) (hlen : ks.length = ws.length)
    (hq : ∀ i, i < ws.length → |(ks.getD i 0 : ℚ) - ws.getD i 0 * 2 ^ p| ≤ 1 / 2)
    (hsum : ws.sum = 1) (hv0 : 0 ≤ v) (hv : v ≤ 255)
    (hn : 255 * (ws.length : ℚ) < 2 ^ p) :
    passInt .u8 ks (List.replicate ks.length v) p = v := by
  refine uniform_exact_u8 ks p v hp1 hp hv0 hv
    (quantOK_of_rounded_weights ws ks p 255 v 0 hlen hq (by simp [hsum]) hv0 hv ?_)
  have h2 : (2 : ℚ) ^ p = 2 * 2 ^ (p - 1) := by
    obtain ⟨q, rfl⟩ : ∃ q, p = q + 1 := ⟨p - 1, by omega⟩
    rw [pow_succ, Nat.add_sub_cancel, mul_comm]
  push_cast
  linarith

/-! ### whole images: the statements above lifted to `Fir.horizPass` / `Fir.vertPass`, the functions the
    executable model (and through the correspondence check the implementation) evaluates.
    `Fir.Proofs.chunkAt k c i` is window `i` (first source index, integer coefficients) of the quantised
    coefficients `Fir.Proofs.qOf k c`; `hWindow` / `vWindow` are the samples that window reads. -/
open Fir.Proofs in
/-- 8-bit horizontal pass: if every sample read is `v` and every window satisfies `QuantOK`, every
    component of the result is `v` -/
theorem horizPass_uniform_u8 (src : Img) (dstW dstH offset : Nat) (c : Coeffs) (v : Int)
    (hv0 : 0 ≤ v) (hv : v ≤ 255) (hp1 : 1 ≤ (qOf .u8 c).precision) (hp : (qOf .u8 c).precision ≤ 22)
    (hread : ∀ x y ch, x < dstW → y < dstH → ch < src.n → ∀ s ∈ hWindow .u8 src offset c x y ch, s = v)
    (hq : ∀ x, x < dstW → QuantOK (chunkAt .u8 c x).2.toList (qOf .u8 c).precision v)
    (x y ch : Nat) (hx : x < dstW) (hy : y < dstH) (hc : ch < src.n) :
    (horizPass .u8 src dstW dstH offset c).get x y ch = v :=
  Fir.Proofs.horizPass_uniform_u8 src dstW dstH offset c v hv0 hv hp1 hp hread hq x y ch hx hy hc

open Fir.Proofs in
theorem vertPass_uniform_u8 (src : Img) (dstW dstH offset : Nat) (c : Coeffs) (v : Int)
    (hv0 : 0 ≤ v) (hv : v ≤ 255) (hp1 : 1 ≤ (qOf .u8 c).precision) (hp : (qOf .u8 c).precision ≤ 22)
    (hread : ∀ x y ch, x < dstW → y < dstH → ch < src.n → ∀ s ∈ vWindow .u8 src offset c x y ch, s = v)
    (hq : ∀ y, y < dstH → QuantOK (chunkAt .u8 c y).2.toList (qOf .u8 c).precision v)
    (x y ch : Nat) (hx : x < dstW) (hy : y < dstH) (hc : ch < src.n) :
    (vertPass .u8 src dstW dstH offset c).get x y ch = v :=
  Fir.Proofs.vertPass_uniform_u8 src dstW dstH offset c v hv0 hv hp1 hp hread hq x y ch hx hy hc

open Fir.Proofs in
theorem horizPass_uniform_u16 (src : Img) (dstW dstH offset : Nat) (c : Coeffs) (v : Int)
    (hv0 : 0 ≤ v) (hv : v ≤ 65535) (hp1 : 1 ≤ (qOf .u16 c).precision) (hp : (qOf .u16 c).precision ≤ 46)
    (hread : ∀ x y ch, x < dstW → y < dstH → ch < src.n → ∀ s ∈ hWindow .u16 src offset c x y ch, s = v)
    (hq : ∀ x, x < dstW → QuantOK (chunkAt .u16 c x).2.toList (qOf .u16 c).precision v)
    (x y ch : Nat) (hx : x < dstW) (hy : y < dstH) (hc : ch < src.n) :
    (horizPass .u16 src dstW dstH offset c).get x y ch = v :=
  Fir.Proofs.horizPass_uniform_u16 src dstW dstH offset c v hv0 hv hp1 hp hread hq x y ch hx hy hc

open Fir.Proofs in
theorem vertPass_uniform_u16 (src : Img) (dstW dstH offset : Nat) (c : Coeffs) (v : Int)
    (hv0 : 0 ≤ v) (hv : v ≤ 65535) (hp1 : 1 ≤ (qOf .u16 c).precision) (hp : (qOf .u16 c).precision ≤ 46)
    (hread : ∀ x y ch, x < dstW → y < dstH → ch < src.n → ∀ s ∈ vWindow .u16 src offset c x y ch, s = v)
    (hq : ∀ y, y < dstH → QuantOK (chunkAt .u16 c y).2.toList (qOf .u16 c).precision v)
    (x y ch : Nat) (hx : x < dstW) (hy : y < dstH) (hc : ch < src.n) :
    (vertPass .u16 src dstW dstH offset c).get x y ch = v :=
  Fir.Proofs.vertPass_uniform_u16 src dstW dstH offset c v hv0 hv hp1 hp hread hq x y ch hx hy hc

/-! ### both passes of `do_convolution` composed -/

open Fir.Proofs in
/-- 8-bit order (vertical, then horizontal over the temporary image of width `tempW` that starts at source
    column `xFirst`): if every source sample read is `v`, every window of both passes satisfies the
    `QuantOK` inequalities and every horizontal window lies inside the temporary image, the result is `v` -/
theorem twoPass_uniform_u8 (src : Img) (dstW dstH tempW xFirst : Nat) (vc hc : Coeffs) (v : Int)
    (hv0 : 0 ≤ v) (hv : v ≤ 255)
    (hpV1 : 1 ≤ (qOf .u8 vc).precision) (hpV : (qOf .u8 vc).precision ≤ 22)
    (hpH1 : 1 ≤ (qOf .u8 hc).precision) (hpH : (qOf .u8 hc).precision ≤ 22)
    (hreadV : ∀ x y ch, x < tempW → y < dstH → ch < src.n → ∀ s ∈ vWindow .u8 src xFirst vc x y ch, s = v)
    (hqV : ∀ y, y < dstH →
      -(2 ^ ((qOf .u8 vc).precision - 1) : Int) ≤ v * ((chunkAt .u8 vc y).2.toList.sum - 2 ^ (qOf .u8 vc).precision) ∧
      v * ((chunkAt .u8 vc y).2.toList.sum - 2 ^ (qOf .u8 vc).precision) < 2 ^ ((qOf .u8 vc).precision - 1))
    (hfit : ∀ x, x < dstW → (chunkAt .u8 hc x).1 + (chunkAt .u8 hc x).2.size ≤ tempW)
    (hqH : ∀ x, x < dstW →
      -(2 ^ ((qOf .u8 hc).precision - 1) : Int) ≤ v * ((chunkAt .u8 hc x).2.toList.sum - 2 ^ (qOf .u8 hc).precision) ∧
      v * ((chunkAt .u8 hc x).2.toList.sum - 2 ^ (qOf .u8 hc).precision) < 2 ^ ((qOf .u8 hc).precision - 1))
    (x y ch : Nat) (hx : x < dstW) (hy : y < dstH) (hc' : ch < src.n) :
    (horizPass .u8 (vertPass .u8 src tempW dstH xFirst vc) dstW dstH 0 hc).get x y ch = v :=
  Fir.Proofs.twoPass_uniform_u8 src dstW dstH tempW xFirst vc hc v hv0 hv hpV1 hpV hpH1 hpH hreadV hqV hfit hqH x y ch hx hy hc'

open Fir.Proofs in
/-- 16-bit order (horizontal into a temporary image of height `tempH` that starts at source row `yFirst`,
    then vertical) -/
theorem twoPass_uniform_u16 (src : Img) (dstW dstH tempH yFirst : Nat) (hc vc : Coeffs) (v : Int)
    (hv0 : 0 ≤ v) (hv : v ≤ 65535)
    (hpH1 : 1 ≤ (qOf .u16 hc).precision) (hpH : (qOf .u16 hc).precision ≤ 46)
    (hpV1 : 1 ≤ (qOf .u16 vc).precision) (hpV : (qOf .u16 vc).precision ≤ 46)
    (hreadH : ∀ x y ch, x < dstW → y < tempH → ch < src.n → ∀ s ∈ hWindow .u16 src yFirst hc x y ch, s = v)
    (hqH : ∀ x, x < dstW →
      -(2 ^ ((qOf .u16 hc).precision - 1) : Int) ≤ v * ((chunkAt .u16 hc x).2.toList.sum - 2 ^ (qOf .u16 hc).precision) ∧
      v * ((chunkAt .u16 hc x).2.toList.sum - 2 ^ (qOf .u16 hc).precision) < 2 ^ ((qOf .u16 hc).precision - 1))
    (hfit : ∀ y, y < dstH → (chunkAt .u16 vc y).1 + (chunkAt .u16 vc y).2.size ≤ tempH)
    (hqV : ∀ y, y < dstH →
      -(2 ^ ((qOf .u16 vc).precision - 1) : Int) ≤ v * ((chunkAt .u16 vc y).2.toList.sum - 2 ^ (qOf .u16 vc).precision) ∧
      v * ((chunkAt .u16 vc y).2.toList.sum - 2 ^ (qOf .u16 vc).precision) < 2 ^ ((qOf .u16 vc).precision - 1))
    (x y ch : Nat) (hx : x < dstW) (hy : y < dstH) (hc' : ch < src.n) :
    (vertPass .u16 (horizPass .u16 src dstW tempH yFirst hc) dstW dstH 0 vc).get x y ch = v :=
  Fir.Proofs.twoPass_uniform_u16 src dstW dstH tempH yFirst hc vc v hv0 hv hpH1 hpH hpV1 hpV hreadH hqH hfit hqV x y ch hx hy hc'

/-! ### the ideal weights (`Fir.Spec.IdealFilter`, exact rationals): a partition of unity.
    The correspondence check compares the implementation's f64 weights with `Fir.Spec.idealWeights` (within 1e-9, every
    window of every generated geometry, polynomial kernels) and checks that they are the numbers the integer
    coefficients are roundings of (hypothesis `hq` above, exactly, all kernels). -/

open Fir.Spec in
theorem normalise_sum_one (ws : List ℚ) (h : ws.sum ≠ 0) : (normalise ws).sum = 1 :=
  Fir.Proofs.normalise_sum_one ws h

open Fir.Spec in
/-- C10 (ideal): the ideal weights of a window whose kernel values do not cancel sum to exactly one -/
theorem idealWeights_sum_one (inSize : Nat) (in0 in1 : ℚ) (outSize : Nat) (flt : QFilter) (adaptive : Bool) (o : Nat)
    (h : (idealRaw inSize in0 in1 outSize flt adaptive o).2.sum ≠ 0) :
    (idealWeights inSize in0 in1 outSize flt adaptive o).2.sum = 1 :=
  Fir.Proofs.idealWeights_sum_one inSize in0 in1 outSize flt adaptive o h

open Fir.Spec in
/-- partition of unity of the kernels themselves on one period: for 0 ≤ t ≤ 1 the integer translates sum to one -/
theorem qBilinear_partition (t : ℚ) (h0 : 0 ≤ t) (h1 : t ≤ 1) : qBilinear t + qBilinear (t - 1) = 1 :=
  Fir.Proofs.qBilinear_partition t h0 h1

open Fir.Spec in
theorem qCatmull_partition (t : ℚ) (h0 : 0 ≤ t) (h1 : t ≤ 1) :
    qCatmull (t + 1) + qCatmull t + qCatmull (t - 1) + qCatmull (t - 2) = 1 :=
  Fir.Proofs.qCatmull_partition t h0 h1

open Fir.Spec in
theorem qMitchell_partition (t : ℚ) (h0 : 0 ≤ t) (h1 : t ≤ 1) :
    qMitchell (t + 1) + qMitchell t + qMitchell (t - 1) + qMitchell (t - 2) = 1 :=
  Fir.Proofs.qMitchell_partition t h0 h1

open Fir.Spec in
/-- the interpolating kernels take the value 1 at 0 and 0 at the other integers of their support;
    Mitchell is smoothing: 8/9 at 0 and 1/18 at ±1 (so integer samples still sum to one) -/
theorem qCatmull_at_integers : qCatmull 0 = 1 ∧ qCatmull 1 = 0 ∧ qCatmull 2 = 0 :=
  Fir.Proofs.qCatmull_at_integers 

open Fir.Spec in
theorem qMitchell_at_integers : qMitchell 0 = 8 / 9 ∧ qMitchell 1 = 1 / 18 ∧ qMitchell 2 = 0 :=
  Fir.Proofs.qMitchell_at_integers 

/-! ### I32 and the float formats -/

open Fir.Flt in
/-- a constant row `v` through the f64 accumulation (any summation order) comes out as `v` up to the
    accumulated rounding `γ(depth)·|v|·Σ|kᵢ|` and the defect `|v|·|Σkᵢ − 1|` of the f64 weights from a
    partition of unity (checked per geometry on the implementation's weights: ≤ 1e-9, in fact ≤ n·2^-53).
    For I32 the final `round()` absorbs it whenever the total is below 1/2; for F32 it is below one ulp
    of `v` (2^-24·|v|) as soon as `γ·Σ|k| + |Σk − 1| < 2^-25` -/
theorem uniform_float (fl : ℚ → ℚ) (u : ℚ) (hu : 0 ≤ u) (hfl : RelErr fl u) (v : ℚ) (k : ℕ → ℚ) (t : Shape) :
    |t.eval fl (fun _ => v) k - v| ≤ gam u t.depth * (|v| * t.kAbs k) + |v| * |t.kSum k - 1| :=
  Fir.Flt.uniform_float fl u hu hfl v k t

/-- I32: if the accumulated value is within less than 1/2 of the integer `v`, every integer nearest to it is `v` -/
theorem uniform_i32 (v r : ℤ) (s : ℚ) (hs : |s - v| < 1 / 2) (hr : |(r : ℚ) - s| ≤ 1 / 2) : r = v := by
  rw [abs_lt] at hs
  rw [abs_le] at hr
  have h1 : ((r - v : ℤ) : ℚ) < 1 := by push_cast; linarith
  have h2 : (-1 : ℚ) < ((r - v : ℤ) : ℚ) := by push_cast; linarith
  have h1' : r - v < 1 := by exact_mod_cast h1
  have h2' : -1 < r - v := by exact_mod_cast h2
  omega

/-! ### non-vacuity -/
example : QuantOK [4096, 8192, 4096] 14 255 := by decide
example : passInt .u8 [4096, 8192, 4096] (List.replicate 3 200) 14 = 200 := by decide
example : QuantOK [5461, 5462, 5461] 14 255 := by decide

/-! ### the premises about rounding discharged for IEEE-754 round-to-nearest-even (`Fir.Ieee.flP`) -/

section IeeeInstances
open Fir.Ieee Fir.Flt
/-- `uniform_float` for IEEE binary64 -/
theorem uniform_float_ieee (v : ℚ) (k : ℕ → ℚ) (t : Shape) :
    |t.eval (flP 53) (fun _ => v) k - v| ≤ gam (1 / 2 ^ 53) t.depth * (|v| * t.kAbs k) + |v| * |t.kSum k - 1| :=
  uniform_float (flP 53) (1 / 2 ^ 53) (by positivity) (flP_relErr 53 (by norm_num)) v k t
end IeeeInstances

/-! ### the exactness theorems reach the SIMD back-ends

    The lane-accurate models of the SSE4.1 horizontal kernels (`Fir.SimdU16x4.pixel` for RGBA16, `Fir.SimdU8x4.pixel` for RGBA8; proved
    equal to `passInt` in Fir.C02, executed against the real kernels on every run) give the very value of a uniform row, under the same
    premise on the quantised coefficients as the portable kernel. -/

theorem uniform_exact_u16x4_sse4 (ks : List Int) (p : Nat) (v : Int) (row : List Int) (start c : Nat) (hc : c < 4)
    (hp1 : 1 ≤ p) (hp : p ≤ 46) (hv0 : 0 ≤ v) (hv : v ≤ 65535)
    (hk : ∀ k ∈ ks, -2147483648 ≤ k ∧ k ≤ 2147483647) (hrow : ∀ i, row.getD i 0 = v) (hq : QuantOK ks p v) :
    (Fir.SimdU16x4.pixel p row start ks).getD c 0 = v := by
  rw [Fir.Proofs.PassInt.u16x4 p row start ks c hc hk (fun i => by rw [hrow i]; exact ⟨hv0, hv⟩)]
  have : ((List.range ks.length).map fun i => row.getD (4 * (start + i) + c) 0) = List.replicate ks.length v := by
    apply List.ext_getElem
    · simp
    · intro i h1 h2
      simp only [List.getElem_map, List.getElem_range, List.getElem_replicate]
      exact hrow _
  rw [this]
  exact Fir.Proofs.uniform_exact_u16 ks p v hp1 hp hv0 hv hq.1 hq.2

theorem uniform_exact_u8x4_sse4 (ks : List Int) (p : Nat) (v : Int) (row : List Int) (start c : Nat) (hc : c < 4)
    (hp1 : 1 ≤ p) (hp : p ≤ 22) (hv0 : 0 ≤ v) (hv : v ≤ 255)
    (hk : ∀ k ∈ ks, -32768 ≤ k ∧ k ≤ 32767) (hrow : ∀ i, row.getD i 0 = v) (hq : QuantOK ks p v) :
    (Fir.SimdU8x4.pixel p row start ks).getD c 0 = v := by
  rw [Fir.Proofs.u8x4_sse4_pixel_eq_passInt p (by omega) row start ks c hc hk (fun i => by rw [hrow i]; exact ⟨hv0, hv⟩)]
  have : ((List.range ks.length).map fun i => row.getD (4 * (start + i) + c) 0) = List.replicate ks.length v := by
    apply List.ext_getElem
    · simp
    · intro i h1 h2
      simp only [List.getElem_map, List.getElem_range, List.getElem_replicate]
      exact hrow _
  rw [this]
  exact Fir.Proofs.uniform_exact_u8 ks p v hp1 hp hv0 hv hq.1 hq.2

end Fir.C10
