/-
  C05 - A resize writes every destination pixel and nothing else.

  Two layers.
  (1) Index level: results reach memory only through `injectImg`, which writes through the view's row
      index lists - exactly the destination rectangle, every pixel of it, nothing else (oversized
      buffers, surroundings of a cropped view).
  (2) Value level: on success with at least one required pass (or Nearest, or the copy path) the
      logical result of `resizeModel` does not depend on the previous destination content (nothing
      stale survives); on a crop error or a zero dimension the previous content is returned unchanged.
  The source buffer is never an output of the model; the harness checks it byte for byte.
-/
import Fir.Model.Resizer
import Fir.Model.ProtoResize
import Fir.Proofs.ViewLemmas
import Fir.Proofs.StructLemmas
import Fir.Proofs.LayoutLemmas

namespace Fir.C05
open Fir

/-- writing an image through a view leaves every buffer component outside the view's pixels unchanged -/
theorem inject_outside_unchanged (v : View) (n : Nat) (im : Img) (buf : Array Int) (j : Nat)
    (hout : ∀ q ∈ (v.rows 0).flatten, j / n ≠ q) (hn : 0 < n) :
    (injectImg v n im buf).getD j 0 = buf.getD j 0 :=
  Fir.Proofs.inject_outside_unchanged v n im buf j hout hn

/-- ... keeps the size of the buffer ... -/
theorem inject_size (v : View) (n : Nat) (im : Img) (buf : Array Int) : (injectImg v n im buf).size = buf.size :=
  Fir.Proofs.inject_size v n im buf

/-- ... and assigns every pixel of the view: the `k`-th exposed buffer pixel receives logical pixel `k` -/
theorem inject_inside_assigned (v : View) (hwf : v.wf = true) (n : Nat) (im : Img) (buf : Array Int) (k c : Nat)
    (hk : k < ((v.rows 0).flatten).length) (hc : c < n)
    (hfit : ∀ q ∈ (v.rows 0).flatten, (q + 1) * n ≤ buf.size) :
    (injectImg v n im buf).getD (((v.rows 0).flatten).getD k 0 * n + c) 0 = im.data.getD (k * n + c) 0 :=
  Fir.Proofs.inject_inside_assigned v hwf n im buf k c hk hc hfit

/-- on a crop error the destination is returned untouched -/
theorem error_leaves_destination (p : PixT) (src prev : Img) (alg : Alg) (useAlpha : Bool) (cl ct cw ch : Float)
    (hne : (cw == 0.0 || ch == 0.0 || prev.w == 0 || prev.h == 0) = false)
    (hcrop : cropCheck floatOps src.w src.h cl ct cw ch ≠ 0) :
    resizeModel p src prev ⟨alg, .box cl ct cw ch, useAlpha⟩ = (cropCheck floatOps src.w src.h cl ct cw ch, prev) :=
  Fir.Proofs.error_leaves_destination p src prev alg useAlpha cl ct cw ch hne hcrop

/-- when a dimension is zero the call is a no-op that returns Ok -/
theorem zero_size_leaves_destination (p : PixT) (src prev : Img) (alg : Alg) (useAlpha : Bool) (cl ct cw ch : Float)
    (hz : (cw == 0.0 || ch == 0.0 || prev.w == 0 || prev.h == 0) = true) :
    resizeModel p src prev ⟨alg, .box cl ct cw ch, useAlpha⟩ = (0, prev) :=
  Fir.Proofs.zero_size_leaves_destination p src prev alg useAlpha cl ct cw ch hz

/-- convolution with at least one required pass, and horizontal windows that are not all empty (always
    so for the built-in filters; the exception is known finding F18): the result is independent of what the
    destination held before (two destinations of the same size give the same result) -/
theorem convolution_overwrites_everything (p : PixT) (src prev prev' : Img) (cl ct cw ch : Float) (f : FilterSpec) (adaptive : Bool)
    (hw : prev'.w = prev.w) (hh : prev'.h = prev.h)
    (hne : ¬ (prev.w = 0 ∨ prev.h = 0 ∨ cw ≤ 0.0 ∨ ch ≤ 0.0))
    (hpass : (Float.ofNat prev.w != cw || cl != cl.round) = true ∨ (Float.ofNat prev.h != ch || ct != ct.round) = true)
    (htemp : boundsLast (precomputeCoefficients src.w cl (cl + cw) prev.w f adaptive)
               - boundsFirst (precomputeCoefficients src.w cl (cl + cw) prev.w f adaptive) ≠ 0) :
    doConvolution p src cl ct cw ch prev f adaptive = doConvolution p src cl ct cw ch prev' f adaptive :=
  Fir.Proofs.convolution_overwrites_everything p src prev prev' cl ct cw ch f adaptive hw hh hne hpass htemp

/-- Nearest: likewise -/
theorem nearest_overwrites_everything (src prev prev' : Img) (cl ct cw ch : Float)
    (hw : prev'.w = prev.w) (hh : prev'.h = prev.h)
    (hne : ¬ (prev.w = 0 ∨ prev.h = 0 ∨ cw ≤ 0.0 ∨ ch ≤ 0.0 ∨ src.h = 0)) :
    nearestPass src cl ct cw ch prev = nearestPass src cl ct cw ch prev' :=
  Fir.Proofs.nearest_overwrites_everything src prev prev' cl ct cw ch hw hh hne

/-- every pass produces an image of exactly the requested size with every component defined -/
theorem pass_sizes (k : CKind) (src : Img) (dstW dstH offset : Nat) (c : Coeffs) :
    (horizPass k src dstW dstH offset c).data.size = dstW * dstH * src.n ∧
    (vertPass k src dstW dstH offset c).data.size = dstW * dstH * src.n :=
  Fir.Proofs.pass_sizes k src dstW dstH offset c

end Fir.C05
