/-
  C01 - Convolution resizing equals the ideal separable filter within rounding error.

  Proved here (all window lengths, all contents, all precisions in range), about `Fir.passInt`, the
  arithmetic of one destination component of an 8/16-bit pass:
    * the result is the exact fixed-point sum rounded to nearest and clamped (`pass_round_nearest`),
    * against ideal real weights `wᵢ` the unclamped result is within 1/2 + Σ|xᵢ|·2^-(p+1) of Σwᵢxᵢ when
      every integer coefficient is the ideal one rounded to nearest (`pass_err`),
    * clamping is 1-Lipschitz, so a second pass adds its own error to Σ|w₂|·(error of pass 1) (`two_pass_err`).
  The structure "SuperSampling = Convolution applied to the nearest-neighbour intermediate" and the pass
  order / bound shifting are the model's control flow (`Fir.resampleSuperSampling`, `Fir.doConvolution`),
  tied to the code by correspondence.  Not proved: accuracy of the f64 evaluation of the kernels and of
  their normalisation (libm); the implementation's coefficients are compared bit for bit with the
  model's Float mirror on every run.
-/
import Fir.Model.Resample
import Fir.Model.Resizer
import Fir.Proofs.FixedLemmas
import Fir.Proofs.ErrLemmas
import Fir.Proofs.ImageLemmas
import Fir.Proofs.TwoPassLemmas
import Fir.Proofs.IdealFilterLemmas
import Fir.Proofs.TwoPass16Lemmas
import Fir.Proofs.FloatLemmas
import Fir.Proofs.IeeeLemmas

namespace Fir.C01
open Fir

/-- rounding is to nearest: with `a = Σkᵢxᵢ` the unclamped result `y = ⌊(2^(p−1) + a) / 2^p⌋` satisfies
    `|2^p·y − a| ≤ 2^(p−1)` - half a unit of the fixed-point sum - and the returned component is `y`
    clamped to the component range -/
theorem pass_round_nearest_u8 (ks xs : List Int) (p : Nat) (hp1 : 1 ≤ p) (hp : p < 32)
    (h : -(2 ^ 31 : Int) ≤ 2 ^ (p - 1) + dotL ks xs ∧ 2 ^ (p - 1) + dotL ks xs < 2 ^ 31) :
    let y := (2 ^ (p - 1) + dotL ks xs) / 2 ^ p
    passInt .u8 ks xs p = max 0 (min 255 y) ∧
    2 ^ p * y - dotL ks xs ≤ 2 ^ (p - 1) ∧ dotL ks xs - 2 ^ p * y < 2 ^ (p - 1) :=
  Fir.Proofs.pass_round_nearest_u8 ks xs p hp1 hp h

theorem pass_round_nearest_u16 (ks xs : List Int) (p : Nat) (hp1 : 1 ≤ p) (hp : p < 64)
    (h : -(2 ^ 63 : Int) ≤ 2 ^ (p - 1) + dotL ks xs ∧ 2 ^ (p - 1) + dotL ks xs < 2 ^ 63) :
    let y := (2 ^ (p - 1) + dotL ks xs) / 2 ^ p
    passInt .u16 ks xs p = max 0 (min 65535 y) ∧
    2 ^ p * y - dotL ks xs ≤ 2 ^ (p - 1) ∧ dotL ks xs - 2 ^ p * y < 2 ^ (p - 1) :=
  Fir.Proofs.pass_round_nearest_u16 ks xs p hp1 hp h

/-- ideal value `Σ wᵢ·xᵢ` -/
def idealDot (ws : List ℚ) (xs : List Int) : ℚ := (List.zipWith (fun (w : ℚ) (x : Int) => w * (x : ℚ)) ws xs).sum

/-- error of one pass against the ideal weights: half a unit of rounding plus the coefficient
    quantisation, for every window whose integer coefficients are within 1/2 of `wᵢ·2^p` -/
theorem pass_err (ws : List ℚ) (ks xs : List Int) (p : Nat) (hp1 : 1 ≤ p) (m : ℚ)
    (hlen : ks.length = ws.length) (hlen2 : xs.length = ws.length)
    (hq : ∀ i, i < ws.length → |(ks.getD i 0 : ℚ) - ws.getD i 0 * 2 ^ p| ≤ 1 / 2)
    (hx : ∀ x ∈ xs, |(x : ℚ)| ≤ m) :
    |(((2 ^ (p - 1) + dotL ks xs) / 2 ^ p : Int) : ℚ) - idealDot ws xs| ≤ 1 / 2 + (ws.length : ℚ) * m / 2 ^ (p + 1) :=
  Fir.Proofs.pass_err ws ks xs p hp1 m hlen hlen2 hq hx

/-- clamping to the component range never increases the distance to a value inside the range -/
theorem clamp_lipschitz (lo hi : ℚ) (hlh : lo ≤ hi) (a b : ℚ) :
    |max lo (min hi a) - max lo (min hi b)| ≤ |a - b| :=
  Fir.Proofs.clamp_lipschitz lo hi hlh a b

/-- two passes: the error of the second pass plus `Σ|w₂|` times the error of the first -/
theorem two_pass_err (ws : List ℚ) (xs ys : List ℚ) (e : ℚ) (hlen : xs.length = ws.length) (hlen2 : ys.length = ws.length)
    (hxy : ∀ i, i < ws.length → |xs.getD i 0 - ys.getD i 0| ≤ e) :
    |(List.zipWith (· * ·) ws xs).sum - (List.zipWith (· * ·) ws ys).sum| ≤ (ws.map (|·|)).sum * e :=
  Fir.Proofs.two_pass_err ws xs ys e hlen hlen2 hxy

/-! ### whole images (`Fir.horizPass` / `Fir.vertPass` of the executable model) -/

/-- one 8-bit component against the *clamped* ideal value: half a unit of rounding plus the coefficient
    quantisation `n·255/2^(p+1)` -/
theorem passInt_err_u8 (ws : List ℚ) (ks xs : List Int) (p : Nat) (hp1 : 1 ≤ p) (hp : p < 32)
    (hlen : ks.length = ws.length) (hlen2 : xs.length = ws.length)
    (hq : ∀ i, i < ws.length → |(ks.getD i 0 : ℚ) - ws.getD i 0 * 2 ^ p| ≤ 1 / 2)
    (hx : ∀ x ∈ xs, 0 ≤ x ∧ x ≤ 255) (hacc : Fir.Proofs.AccOK8 ks xs p) :
    |((passInt .u8 ks xs p : Int) : ℚ) - max 0 (min 255 (idealDot ws xs))| ≤ 1 / 2 + (ws.length : ℚ) * 255 / 2 ^ (p + 1) :=
  Fir.Proofs.passInt_err_u8 ws ks xs p hp1 hp hlen hlen2 hq hx hacc

theorem passInt_err_u16 (ws : List ℚ) (ks xs : List Int) (p : Nat) (hp1 : 1 ≤ p) (hp : p < 64)
    (hlen : ks.length = ws.length) (hlen2 : xs.length = ws.length)
    (hq : ∀ i, i < ws.length → |(ks.getD i 0 : ℚ) - ws.getD i 0 * 2 ^ p| ≤ 1 / 2)
    (hx : ∀ x ∈ xs, 0 ≤ x ∧ x ≤ 65535) (hacc : Fir.Proofs.AccOK16 ks xs p) :
    |((passInt .u16 ks xs p : Int) : ℚ) - max 0 (min 65535 (idealDot ws xs))| ≤ 1 / 2 + (ws.length : ℚ) * 65535 / 2 ^ (p + 1) :=
  Fir.Proofs.passInt_err_u16 ws ks xs p hp1 hp hlen hlen2 hq hx hacc

open Fir.Proofs in
/-- every component of the model's horizontal 8-bit pass is within the bound of the clamped ideal filter
    `Σ wᵢ·xᵢ` (weights `ws x` of which the integer coefficients are roundings) applied to the samples read -/
theorem horizPass_err_u8 (src : Img) (dstW dstH offset : Nat) (c : Coeffs) (ws : Nat → List ℚ)
    (hp1 : 1 ≤ (qOf .u8 c).precision) (hp : (qOf .u8 c).precision < 32)
    (hlen : ∀ x, x < dstW → (chunkAt .u8 c x).2.toList.length = (ws x).length)
    (hq : ∀ x, x < dstW → ∀ i, i < (ws x).length →
      |(((chunkAt .u8 c x).2.toList.getD i 0 : Int) : ℚ) - (ws x).getD i 0 * 2 ^ (qOf .u8 c).precision| ≤ 1 / 2)
    (hsamp : ∀ x y ch, x < dstW → y < dstH → ch < src.n → ∀ s ∈ hWindow .u8 src offset c x y ch, 0 ≤ s ∧ s ≤ 255)
    (hacc : ∀ x y ch, x < dstW → y < dstH → ch < src.n →
      AccOK8 (chunkAt .u8 c x).2.toList (hWindow .u8 src offset c x y ch) (qOf .u8 c).precision)
    (x y ch : Nat) (hx : x < dstW) (hy : y < dstH) (hc : ch < src.n) :
    |(((horizPass .u8 src dstW dstH offset c).get x y ch : Int) : ℚ)
        - max 0 (min 255 (idealDot (ws x) (hWindow .u8 src offset c x y ch)))|
      ≤ 1 / 2 + ((ws x).length : ℚ) * 255 / 2 ^ ((qOf .u8 c).precision + 1) :=
  Fir.Proofs.horizPass_err_u8 src dstW dstH offset c ws hp1 hp hlen hq hsamp hacc x y ch hx hy hc

open Fir.Proofs in
theorem vertPass_err_u8 (src : Img) (dstW dstH offset : Nat) (c : Coeffs) (ws : Nat → List ℚ)
    (hp1 : 1 ≤ (qOf .u8 c).precision) (hp : (qOf .u8 c).precision < 32)
    (hlen : ∀ y, y < dstH → (chunkAt .u8 c y).2.toList.length = (ws y).length)
    (hq : ∀ y, y < dstH → ∀ i, i < (ws y).length →
      |(((chunkAt .u8 c y).2.toList.getD i 0 : Int) : ℚ) - (ws y).getD i 0 * 2 ^ (qOf .u8 c).precision| ≤ 1 / 2)
    (hsamp : ∀ x y ch, x < dstW → y < dstH → ch < src.n → ∀ s ∈ vWindow .u8 src offset c x y ch, 0 ≤ s ∧ s ≤ 255)
    (hacc : ∀ x y ch, x < dstW → y < dstH → ch < src.n →
      AccOK8 (chunkAt .u8 c y).2.toList (vWindow .u8 src offset c x y ch) (qOf .u8 c).precision)
    (x y ch : Nat) (hx : x < dstW) (hy : y < dstH) (hc : ch < src.n) :
    |(((vertPass .u8 src dstW dstH offset c).get x y ch : Int) : ℚ)
        - max 0 (min 255 (idealDot (ws y) (vWindow .u8 src offset c x y ch)))|
      ≤ 1 / 2 + ((ws y).length : ℚ) * 255 / 2 ^ ((qOf .u8 c).precision + 1) :=
  Fir.Proofs.vertPass_err_u8 src dstW dstH offset c ws hp1 hp hlen hq hsamp hacc x y ch hx hy hc

/-! ### both passes of `do_convolution` composed (8-bit order): the accumulated error against the ideal separable filter
    `Fir.Proofs.idealTwoPass8` (exact rationals, clamped to the component range after each pass like the pipeline) -/

open Fir.Proofs in
/-- every component of the model's two-pass 8-bit result is within
    `(1/2 + n_H·255/2^(p_H+1)) + Σ|w^H|·(1/2 + n_V·255/2^(p_V+1))` of the ideal separable filter -/
theorem twoPass_err_u8 (src : Img) (dstW dstH tempW xFirst : Nat) (vc hc : Coeffs) (wsV wsH : Nat → List ℚ)
    (hpV1 : 1 ≤ (qOf .u8 vc).precision) (hpV : (qOf .u8 vc).precision < 32)
    (hpH1 : 1 ≤ (qOf .u8 hc).precision) (hpH : (qOf .u8 hc).precision < 32)
    (hlenV : ∀ y, y < dstH → (chunkAt .u8 vc y).2.toList.length = (wsV y).length)
    (hqV : ∀ y, y < dstH → ∀ i, i < (wsV y).length →
      |(((chunkAt .u8 vc y).2.toList.getD i 0 : Int) : ℚ) - (wsV y).getD i 0 * 2 ^ (qOf .u8 vc).precision| ≤ 1 / 2)
    (hsamp : ∀ x y ch, x < tempW → y < dstH → ch < src.n → ∀ s ∈ vWindow .u8 src xFirst vc x y ch, 0 ≤ s ∧ s ≤ 255)
    (haccV : ∀ x y ch, x < tempW → y < dstH → ch < src.n →
      AccOK8 (chunkAt .u8 vc y).2.toList (vWindow .u8 src xFirst vc x y ch) (qOf .u8 vc).precision)
    (hlenH : ∀ x, x < dstW → (chunkAt .u8 hc x).2.toList.length = (wsH x).length)
    (hqH : ∀ x, x < dstW → ∀ i, i < (wsH x).length →
      |(((chunkAt .u8 hc x).2.toList.getD i 0 : Int) : ℚ) - (wsH x).getD i 0 * 2 ^ (qOf .u8 hc).precision| ≤ 1 / 2)
    (hfit : ∀ x, x < dstW → (chunkAt .u8 hc x).1 + (chunkAt .u8 hc x).2.size ≤ tempW)
    (haccH : ∀ x y ch, x < dstW → y < dstH → ch < src.n →
      AccOK8 (chunkAt .u8 hc x).2.toList (hWindow .u8 (vertPass .u8 src tempW dstH xFirst vc) 0 hc x y ch) (qOf .u8 hc).precision)
    (x y ch : Nat) (hx : x < dstW) (hy : y < dstH) (hc' : ch < src.n) :
    |(((horizPass .u8 (vertPass .u8 src tempW dstH xFirst vc) dstW dstH 0 hc).get x y ch : Int) : ℚ)
        - idealTwoPass8 src xFirst vc hc wsV wsH x y ch|
      ≤ (1 / 2 + ((wsH x).length : ℚ) * 255 / 2 ^ ((qOf .u8 hc).precision + 1))
        + ((wsH x).map (|·|)).sum * (1 / 2 + ((wsV y).length : ℚ) * 255 / 2 ^ ((qOf .u8 vc).precision + 1)) :=
  Fir.Proofs.twoPass_err_u8 src dstW dstH tempW xFirst vc hc wsV wsH hpV1 hpV hpH1 hpH hlenV hqV hsamp haccV hlenH hqH hfit haccH x y ch hx hy hc'

open Fir.Proofs in
/-- when both passes are needed and the pixel type is 8-bit, `doConvolution` IS the composition the
    theorems above speak about (temporary image = columns `[boundsFirst, boundsLast)` of the vertical pass,
    horizontal windows shifted by `boundsFirst`) -/
theorem doConvolution_two_pass_u8 (p : PixT) (hk : p.kind = .u8) (src prev : Img) (cl ct cw ch : Float) (f : FilterSpec) (adaptive : Bool)
    (hw : prev.w ≠ 0) (hh : prev.h ≠ 0) (hcw : (cw ≤ 0.0) = false) (hch : (ch ≤ 0.0) = false)
    (hneedH : (Float.ofNat prev.w != cw || cl != cl.round) = true)
    (hneedV : (Float.ofNat prev.h != ch || ct != ct.round) = true)
    (htemp : boundsLast (precomputeCoefficients src.w cl (cl + cw) prev.w f adaptive)
              - boundsFirst (precomputeCoefficients src.w cl (cl + cw) prev.w f adaptive) ≠ 0) :
    let hc := precomputeCoefficients src.w cl (cl + cw) prev.w f adaptive
    let vc := precomputeCoefficients src.h ct (ct + ch) prev.h f adaptive
    doConvolution p src cl ct cw ch prev f adaptive =
      horizPass .u8 (vertPass .u8 src (boundsLast hc - boundsFirst hc) prev.h (boundsFirst hc) vc) prev.w prev.h 0
        { hc with bounds := hc.bounds.map fun b => (b.1 - boundsFirst hc, b.2) } :=
  Fir.Proofs.doConvolution_two_pass_u8 p hk src prev cl ct cw ch f adaptive hw hh hcw hch hneedH hneedV htemp

/-! ### from the implementation's f64 weights to the ideal kernel (`Fir.Spec.IdealFilter`): the per-geometry comparison
    `|w_f64 − w_ideal| ≤ δ = 1e-9` of the correspondence check costs at most `n·δ·m` -/

open Fir.Spec in
/-- C01: weights that differ from other weights by at most `δ` per tap move the filtered value of samples
    bounded by `m` by at most `n·δ·m` -/
theorem weights_perturbation (ws ws' : List ℚ) (xs : List ℚ) (δ m : ℚ) (hlen : ws'.length = ws.length) (hlen2 : xs.length = ws.length)
    (hδ : ∀ i, i < ws.length → |ws.getD i 0 - ws'.getD i 0| ≤ δ) (hm : ∀ x ∈ xs, |x| ≤ m) (hm0 : 0 ≤ m) :
    |(List.zipWith (· * ·) ws xs).sum - (List.zipWith (· * ·) ws' xs).sum| ≤ (ws.length : ℚ) * δ * m :=
  Fir.Proofs.weights_perturbation ws ws' xs δ m hlen hlen2 hδ hm hm0

open Fir.Spec in
theorem qBilinear_support (x : ℚ) (h : 1 ≤ |x|) : qBilinear x = 0 :=
  Fir.Proofs.qBilinear_support x h

open Fir.Spec in
theorem qCatmull_support (x : ℚ) (h : 2 ≤ |x|) : qCatmull x = 0 :=
  Fir.Proofs.qCatmull_support x h

open Fir.Spec in
theorem qMitchell_support (x : ℚ) (h : 2 ≤ |x|) : qMitchell x = 0 :=
  Fir.Proofs.qMitchell_support x h

open Fir.Spec in
/-- the kernels are even (bilinear, Catmull-Rom, Mitchell) and vanish outside their support -/
theorem qBilinear_even (x : ℚ) : qBilinear (-x) = qBilinear x :=
  Fir.Proofs.qBilinear_even x

open Fir.Spec in
theorem qCatmull_even (x : ℚ) : qCatmull (-x) = qCatmull x :=
  Fir.Proofs.qCatmull_even x

open Fir.Spec in
theorem qMitchell_even (x : ℚ) : qMitchell (-x) = qMitchell x :=
  Fir.Proofs.qMitchell_even x

/-! ### 16-bit components (pass order: horizontal, then vertical) -/

open Fir.Proofs in
theorem horizPass_err_u16 (src : Img) (dstW dstH offset : Nat) (c : Coeffs) (ws : Nat → List ℚ)
    (hp1 : 1 ≤ (qOf .u16 c).precision) (hp : (qOf .u16 c).precision < 64)
    (hlen : ∀ x, x < dstW → (chunkAt .u16 c x).2.toList.length = (ws x).length)
    (hq : ∀ x, x < dstW → ∀ i, i < (ws x).length →
      |(((chunkAt .u16 c x).2.toList.getD i 0 : Int) : ℚ) - (ws x).getD i 0 * 2 ^ (qOf .u16 c).precision| ≤ 1 / 2)
    (hsamp : ∀ x y ch, x < dstW → y < dstH → ch < src.n → ∀ s ∈ hWindow .u16 src offset c x y ch, 0 ≤ s ∧ s ≤ 65535)
    (hacc : ∀ x y ch, x < dstW → y < dstH → ch < src.n →
      AccOK16 (chunkAt .u16 c x).2.toList (hWindow .u16 src offset c x y ch) (qOf .u16 c).precision)
    (x y ch : Nat) (hx : x < dstW) (hy : y < dstH) (hc : ch < src.n) :
    |(((horizPass .u16 src dstW dstH offset c).get x y ch : Int) : ℚ)
        - max 0 (min 65535 (idealDotQ (ws x) (hWindow .u16 src offset c x y ch)))|
      ≤ 1 / 2 + ((ws x).length : ℚ) * 65535 / 2 ^ ((qOf .u16 c).precision + 1) :=
  Fir.Proofs.horizPass_err_u16 src dstW dstH offset c ws hp1 hp hlen hq hsamp hacc x y ch hx hy hc

open Fir.Proofs in
theorem vertPass_err_u16 (src : Img) (dstW dstH offset : Nat) (c : Coeffs) (ws : Nat → List ℚ)
    (hp1 : 1 ≤ (qOf .u16 c).precision) (hp : (qOf .u16 c).precision < 64)
    (hlen : ∀ y, y < dstH → (chunkAt .u16 c y).2.toList.length = (ws y).length)
    (hq : ∀ y, y < dstH → ∀ i, i < (ws y).length →
      |(((chunkAt .u16 c y).2.toList.getD i 0 : Int) : ℚ) - (ws y).getD i 0 * 2 ^ (qOf .u16 c).precision| ≤ 1 / 2)
    (hsamp : ∀ x y ch, x < dstW → y < dstH → ch < src.n → ∀ s ∈ vWindow .u16 src offset c x y ch, 0 ≤ s ∧ s ≤ 65535)
    (hacc : ∀ x y ch, x < dstW → y < dstH → ch < src.n →
      AccOK16 (chunkAt .u16 c y).2.toList (vWindow .u16 src offset c x y ch) (qOf .u16 c).precision)
    (x y ch : Nat) (hx : x < dstW) (hy : y < dstH) (hc : ch < src.n) :
    |(((vertPass .u16 src dstW dstH offset c).get x y ch : Int) : ℚ)
        - max 0 (min 65535 (idealDotQ (ws y) (vWindow .u16 src offset c x y ch)))|
      ≤ 1 / 2 + ((ws y).length : ℚ) * 65535 / 2 ^ ((qOf .u16 c).precision + 1) :=
  Fir.Proofs.vertPass_err_u16 src dstW dstH offset c ws hp1 hp hlen hq hsamp hacc x y ch hx hy hc

open Fir.Proofs in
theorem twoPass_err_u16 (src : Img) (dstW dstH tempH yFirst : Nat) (hc vc : Coeffs) (wsH wsV : Nat → List ℚ)
    (hpH1 : 1 ≤ (qOf .u16 hc).precision) (hpH : (qOf .u16 hc).precision < 64)
    (hpV1 : 1 ≤ (qOf .u16 vc).precision) (hpV : (qOf .u16 vc).precision < 64)
    (hlenH : ∀ x, x < dstW → (chunkAt .u16 hc x).2.toList.length = (wsH x).length)
    (hqH : ∀ x, x < dstW → ∀ i, i < (wsH x).length →
      |(((chunkAt .u16 hc x).2.toList.getD i 0 : Int) : ℚ) - (wsH x).getD i 0 * 2 ^ (qOf .u16 hc).precision| ≤ 1 / 2)
    (hsamp : ∀ x y ch, x < dstW → y < tempH → ch < src.n → ∀ s ∈ hWindow .u16 src yFirst hc x y ch, 0 ≤ s ∧ s ≤ 65535)
    (haccH : ∀ x y ch, x < dstW → y < tempH → ch < src.n →
      AccOK16 (chunkAt .u16 hc x).2.toList (hWindow .u16 src yFirst hc x y ch) (qOf .u16 hc).precision)
    (hlenV : ∀ y, y < dstH → (chunkAt .u16 vc y).2.toList.length = (wsV y).length)
    (hqV : ∀ y, y < dstH → ∀ i, i < (wsV y).length →
      |(((chunkAt .u16 vc y).2.toList.getD i 0 : Int) : ℚ) - (wsV y).getD i 0 * 2 ^ (qOf .u16 vc).precision| ≤ 1 / 2)
    (hfit : ∀ y, y < dstH → (chunkAt .u16 vc y).1 + (chunkAt .u16 vc y).2.size ≤ tempH)
    (haccV : ∀ x y ch, x < dstW → y < dstH → ch < src.n →
      AccOK16 (chunkAt .u16 vc y).2.toList (vWindow .u16 (horizPass .u16 src dstW tempH yFirst hc) 0 vc x y ch) (qOf .u16 vc).precision)
    (x y ch : Nat) (hx : x < dstW) (hy : y < dstH) (hc' : ch < src.n) :
    |(((vertPass .u16 (horizPass .u16 src dstW tempH yFirst hc) dstW dstH 0 vc).get x y ch : Int) : ℚ)
        - idealTwoPass16 src yFirst hc vc wsH wsV x y ch|
      ≤ (1 / 2 + ((wsV y).length : ℚ) * 65535 / 2 ^ ((qOf .u16 vc).precision + 1))
        + ((wsV y).map (|·|)).sum * (1 / 2 + ((wsH x).length : ℚ) * 65535 / 2 ^ ((qOf .u16 hc).precision + 1)) :=
  Fir.Proofs.twoPass_err_u16 src dstW dstH tempH yFirst hc vc wsH wsV hpH1 hpH hpV1 hpV hlenH hqH hsamp haccH hlenV hqV hfit haccV x y ch hx hy hc'

open Fir.Proofs in
theorem doConvolution_two_pass_not_u8 (p : PixT) (hk : (p.kind == CKind.u8) = false) (src prev : Img) (cl ct cw ch : Float) (f : FilterSpec) (adaptive : Bool)
    (hw : prev.w ≠ 0) (hh : prev.h ≠ 0) (hcw : (cw ≤ 0.0) = false) (hch : (ch ≤ 0.0) = false)
    (hneedH : (Float.ofNat prev.w != cw || cl != cl.round) = true)
    (hneedV : (Float.ofNat prev.h != ch || ct != ct.round) = true) :
    let hc := precomputeCoefficients src.w cl (cl + cw) prev.w f adaptive
    let vc := precomputeCoefficients src.h ct (ct + ch) prev.h f adaptive
    doConvolution p src cl ct cw ch prev f adaptive =
      vertPass p.kind (horizPass p.kind src prev.w (boundsLast vc - boundsFirst vc) (boundsFirst vc) hc) prev.w prev.h 0
        { vc with bounds := vc.bounds.map fun b => (b.1 - boundsFirst vc, b.2) } :=
  Fir.Proofs.doConvolution_two_pass_not_u8 p hk src prev cl ct cw ch f adaptive hw hh hcw hch hneedH hneedV

/-- SuperSampling is the convolution of the nearest-neighbour intermediate image it documents
    (factor > 1.2), or the plain convolution (otherwise) - by the model's control flow -/
theorem supersampling_is_conv_of_nearest (p : PixT) (src prev : Img) (cl ct cw ch : Float) (f : FilterSpec) (m : Nat) (useAlpha : Bool)
    (hne : ¬ (prev.w = 0 ∨ prev.h = 0 ∨ cw ≤ 0.0 ∨ ch ≤ 0.0)) :
    resampleSuperSampling p src cl ct cw ch prev f m useAlpha =
      if ssFactor cw ch prev.w prev.h m > 1.2 then
        let tmpW := ssTmpDim cw (ssFactor cw ch prev.w prev.h m)
        let tmpH := ssTmpDim ch (ssFactor cw ch prev.w prev.h m)
        let tmp := nearestPass src cl ct cw ch (Img.fill tmpW tmpH src.n 0)
        match copyImage tmp 0.0 0.0 (Float.ofNat tmpW) (Float.ofNat tmpH) prev with
        | some r => r
        | none => resampleConvolution p tmp 0.0 0.0 (Float.ofNat tmpW) (Float.ofNat tmpH) prev f true useAlpha
      else resampleConvolution p src cl ct cw ch prev f true useAlpha := by
  unfold resampleSuperSampling
  rw [if_neg hne]
  rfl

/-- the super-sampling threshold and the supports of the built-in filters are the documented ones
    (translated from src/resizer.rs and src/convolution/filters.rs) -/
theorem documented_constants :
    Fir.Gen.ssThresholdNum = 12 ∧ Fir.Gen.ssThresholdDen = 10 ∧
    Fir.Gen.filterSupports = [("Box", "box_filter", 5, 10), ("Bilinear", "bilinear_filter", 10, 10),
      ("Hamming", "hamming_filter", 10, 10), ("CatmullRom", "catmul_filter", 20, 10), ("Mitchell", "mitchell_filter", 20, 10),
      ("Gaussian", "gaussian_filter", 30, 10), ("Lanczos3", "lanczos_filter", 30, 10)] := by
  decide

/-! ### I32 and the float formats: `ss += px as f64 * k`, then `round() as i32` / `as f32`

    stated for every rounding function `fl` with relative error `u` (binary64: u = 2^-53), see
    Fir.Proofs.FloatLemmas; the loop `accF` is the portable kernel's accumulation, every product and
    every addition rounded once -/

open Fir.Flt in
/-- accumulated f64 error of one pass of `n` taps: `|ŝ − Σxᵢkᵢ| ≤ ((1+u)^(n+1) − 1)·Σ|xᵢkᵢ|` -/
theorem pass_err_f64 (fl : ℚ → ℚ) (u : ℚ) (hu : 0 ≤ u) (hfl : RelErr fl u) (ks xs : List ℚ) (hlen : ks.length = xs.length) :
    |accF fl ks xs 0 - dotQ ks xs| ≤ gam u ks.length * dotAbs ks xs :=
  accF_err fl u hu hfl ks xs hlen

open Fir.Flt in
/-- I32: the stored value `r = ss.round() as i32` (no saturation) is within half a unit plus the
    accumulated f64 error of the exact weighted sum -/
theorem pass_err_i32 (fl : ℚ → ℚ) (u : ℚ) (hu : 0 ≤ u) (hfl : RelErr fl u) (ks xs : List ℚ) (hlen : ks.length = xs.length)
    (r : ℤ) (hr : |(r : ℚ) - accF fl ks xs 0| ≤ 1 / 2) :
    |(r : ℚ) - dotQ ks xs| ≤ 1 / 2 + gam u ks.length * dotAbs ks xs :=
  finish_i32_err r _ _ _ (accF_err fl u hu hfl ks xs hlen) hr

open Fir.Flt in
/-- F32: the stored value `ss as f32` is one binary32 rounding (u32 = 2^-24) of the accumulated sum:
    "a few f32 ulps" = `u32·(|s| + E) + E` with `E` the f64 accumulation error -/
theorem pass_err_f32 (fl fl32 : ℚ → ℚ) (u u32 : ℚ) (hu : 0 ≤ u) (hu32 : 0 ≤ u32) (hfl : RelErr fl u) (hfl32 : RelErr fl32 u32)
    (ks xs : List ℚ) (hlen : ks.length = xs.length) :
    |fl32 (accF fl ks xs 0) - dotQ ks xs|
      ≤ u32 * (|dotQ ks xs| + gam u ks.length * dotAbs ks xs) + gam u ks.length * dotAbs ks xs :=
  finish_f32_err fl32 u32 hu32 hfl32 _ _ _ (accF_err fl u hu hfl ks xs hlen)

open Fir.Flt in
/-- the same bound for every summation order (SIMD lanes + horizontal add), by depth of the tree -/
theorem pass_err_f64_any_order (fl : ℚ → ℚ) (u : ℚ) (hu : 0 ≤ u) (hfl : RelErr fl u) (x k : ℕ → ℚ) (t : Shape) :
    |t.eval fl x k - t.exact x k| ≤ gam u t.depth * t.absSum x k :=
  tree_err fl u hu hfl x k t

/-- non-vacuity: the identity is a rounding with error 0, and then the loop is exact -/
example : Fir.Flt.accF id [1 / 2, 1 / 2] [10, 21] 0 = 31 / 2 := by norm_num [Fir.Flt.accF]
example : Fir.Flt.RelErr id 0 := by intro y; simp

/-! ### non-vacuity -/
example : passInt .u8 [8192, 8192] [10, 21] 14 = 16 := by decide

/-! ### the premises about rounding discharged for IEEE-754 round-to-nearest-even (`Fir.Ieee.flP`) -/

section IeeeInstances
open Fir.Ieee Fir.Flt
/-- `pass_err_f64` for binary64 arithmetic as IEEE-754 defines it (`flP 53`: round-to-nearest-even, proved
    to have relative error 2^-53): no premise about the rounding function is left -/
theorem pass_err_f64_ieee (ks xs : List ℚ) (hlen : ks.length = xs.length) :
    |accF (flP 53) ks xs 0 - dotQ ks xs| ≤ gam (1 / 2 ^ 53) ks.length * dotAbs ks xs :=
  pass_err_f64 (flP 53) (1 / 2 ^ 53) (by positivity) (flP_relErr 53 (by norm_num)) ks xs hlen

/-- `pass_err_f32` with IEEE binary64 accumulation and the IEEE binary32 final rounding -/
theorem pass_err_f32_ieee (ks xs : List ℚ) (hlen : ks.length = xs.length) :
    |flP 24 (accF (flP 53) ks xs 0) - dotQ ks xs|
      ≤ 1 / 2 ^ 24 * (|dotQ ks xs| + gam (1 / 2 ^ 53) ks.length * dotAbs ks xs) + gam (1 / 2 ^ 53) ks.length * dotAbs ks xs :=
  pass_err_f32 (flP 53) (flP 24) (1 / 2 ^ 53) (1 / 2 ^ 24) (by positivity) (by positivity)
    (flP_relErr 53 (by norm_num)) (flP_relErr 24 (by norm_num)) ks xs hlen
end IeeeInstances

end Fir.C01
