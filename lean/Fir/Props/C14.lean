/-
  C14 - Splitting a view yields an exact, ordered, non-overlapping tiling.

  Property theorems about `Fir.View.splitH` / `Fir.View.splitW` (Fir/Model/View.lean), the model of
  split_by_height / split_by_width and their mutable variants for every container kind (typed images
  split their slice, cropped views delegate to the wrapped view and re-wrap, to any nesting depth).
  No bound on sizes: everything is list induction / arithmetic.
-/
import Fir.Model.View
import Fir.Proofs.ViewLemmas

namespace Fir.C14
open Fir Fir.View

/-- all buffer indices a view exposes, row by row -/
def idx (v : View) : List Nat := (v.rows 0).flatten

/-! ### sizes: `k` parts, `n / k` each, the first `n % k` one larger -/

theorem splitSizes_length (n k : Nat) : (splitSizes n k).length = k := by
  simp [splitSizes]

theorem splitSizes_sum (n k : Nat) (hk : 0 < k) : (splitSizes n k).sum = n :=
  Fir.Proofs.splitSizes_sum n k hk

theorem splitSizes_differ_by_at_most_one (n k : Nat) (a b : Nat) (ha : a ∈ splitSizes n k) (hb : b ∈ splitSizes n k) :
    a ≤ b + 1 := by
  simp only [splitSizes, List.mem_map, List.mem_range] at ha hb
  obtain ⟨i, _, rfl⟩ := ha
  obtain ⟨j, _, rfl⟩ := hb
  split <;> split <;> omega

theorem splitSizes_pos (n k : Nat) (hk : 0 < k) (hkn : k ≤ n) (a : Nat) (ha : a ∈ splitSizes n k) : 0 < a := by
  simp only [splitSizes, List.mem_map, List.mem_range] at ha
  obtain ⟨i, _, rfl⟩ := ha
  have : 0 < n / k := Nat.div_pos hkn hk
  omega

/-! ### `None` exactly for invalid requests -/

theorem splitH_none_iff (v : View) (hwf : v.wf = true) (s n k : Nat) :
    v.splitH s n k = none ↔ ¬ (1 ≤ k ∧ k ≤ n ∧ n ≤ v.height ∧ s + n ≤ v.height) :=
  Fir.Proofs.splitH_none_iff v hwf s n k

theorem splitW_none_iff (v : View) (hwf : v.wf = true) (s n k : Nat) :
    v.splitW s n k = none ↔ ¬ (1 ≤ k ∧ k ≤ n ∧ n ≤ v.width ∧ s + n ≤ v.width) :=
  Fir.Proofs.splitW_none_iff v hwf s n k

/-! ### the parts tile the requested band exactly once, in order -/

/-- split by height, every container kind, every nesting depth: `k` parts, heights as `splitSizes`,
    every part as wide as the view and itself a well-formed view, and the rows of the parts, glued
    in order, are exactly the rows `[s, s+n)` of the view -/
theorem splitH_tiles (v : View) (hwf : v.wf = true) (s n k : Nat) (ps : List View)
    (h : v.splitH s n k = some ps) :
    ps.length = k ∧ ps.map View.height = splitSizes n k ∧
    (∀ p ∈ ps, p.width = v.width ∧ p.wf = true) ∧
    (ps.map (fun p => p.rows 0)).flatten = (v.rows s).take n :=
  Fir.Proofs.splitH_tiles v hwf s n k ps h

/-- split by width: `k` parts, widths as `splitSizes`, every part as high as the view, and in every
    row the pixels of the parts, glued in order, are exactly the columns `[s, s+n)` of that row -/
theorem splitW_tiles (v : View) (hwf : v.wf = true) (hh : 0 < v.height) (s n k : Nat) (ps : List View)
    (h : v.splitW s n k = some ps) :
    ps.length = k ∧ ps.map View.width = splitSizes n k ∧
    (∀ p ∈ ps, p.height = v.height ∧ p.wf = true) ∧
    (∀ r, r < v.height →
      (ps.map (fun p => (p.rows 0).getD r [])).flatten = (((v.rows 0).getD r []).drop s).take n) :=
  Fir.Proofs.splitW_tiles v hwf hh s n k ps h

/-! ### parts never alias (so mutable parts may be written concurrently) -/

/-- a well-formed view exposes every buffer index at most once -/
theorem idx_nodup (v : View) (hwf : v.wf = true) : (idx v).Nodup :=
  Fir.Proofs.idx_nodup v hwf

theorem splitH_parts_disjoint (v : View) (hwf : v.wf = true) (s n k : Nat) (ps : List View)
    (h : v.splitH s n k = some ps) (i j : Nat) (hij : i < j) (hj : j < ps.length) (x : Nat)
    (hx : x ∈ idx (ps[i]'(by omega))) : x ∉ idx (ps[j]) :=
  Fir.Proofs.splitH_parts_disjoint v hwf s n k ps h i j hij hj x hx

theorem splitW_parts_disjoint (v : View) (hwf : v.wf = true) (hh : 0 < v.height) (s n k : Nat) (ps : List View)
    (h : v.splitW s n k = some ps) (i j : Nat) (hij : i < j) (hj : j < ps.length) (x : Nat)
    (hx : x ∈ idx (ps[i]'(by omega))) : x ∉ idx (ps[j]) :=
  Fir.Proofs.splitW_parts_disjoint v hwf hh s n k ps h i j hij hj x hx

/-- every index exposed by a part is exposed by the view it was split from (parts expose nothing
    outside the band) -/
theorem splitH_parts_subset (v : View) (hwf : v.wf = true) (s n k : Nat) (ps : List View)
    (h : v.splitH s n k = some ps) (p : View) (hp : p ∈ ps) (x : Nat) (hx : x ∈ idx p) :
    x ∈ ((v.rows s).take n).flatten :=
  Fir.Proofs.splitH_parts_subset v hwf s n k ps h p hp x hx

/-! ### split of a split: a part is again a well-formed view, so all of the above applies to it -/

theorem split_of_split (v : View) (hwf : v.wf = true) (s n k : Nat) (ps : List View)
    (h : v.splitH s n k = some ps) (p : View) (hp : p ∈ ps) (s2 n2 k2 : Nat) (qs : List View)
    (h2 : p.splitW s2 n2 k2 = some qs) (hph : 0 < p.height) :
    qs.length = k2 ∧ (∀ q ∈ qs, q.wf = true) ∧
    (∀ r, r < p.height →
      (qs.map (fun q => (q.rows 0).getD r [])).flatten = (((p.rows 0).getD r []).drop s2).take n2) := by
  have hpwf := ((splitH_tiles v hwf s n k ps h).2.2.1 p hp).2
  have t := splitW_tiles p hpwf hph s2 n2 k2 qs h2
  exact ⟨t.1, fun q hq => (t.2.2.1 q hq).2, t.2.2.2⟩

/-! ### non-vacuity -/
example : (View.crop (View.typed 0 5 4 20) 1 1 3 2).wf = true := by decide
example : ((View.crop (View.typed 0 5 4 20) 1 1 3 2).splitW 1 2 2).isSome = true := by decide
example : ((View.typed 0 3 7 21).splitH 1 5 3).map (·.map View.height) = some [2, 2, 1] := by decide

end Fir.C14
