/-
  C12 - Resizing to the same size is an exact copy.

  About `Fir.resizeModel` (src/resizer.rs, resize_typed): the copy fast path precedes the algorithm
  dispatch, so whenever the crop box is integer-aligned and has the destination's size the result is
  the bit-exact copy of that region - for every algorithm, pixel type, alpha setting; nothing is
  computed from the values.  Float tests are opaque to the kernel: the theorems hold for every value
  they can take ("float-oblivious").
-/
import Fir.Model.Resizer
import Fir.Proofs.StructLemmas

namespace Fir.C12
open Fir

/-- `copy_image` succeeds exactly when all four crop fields are integers and the crop size is the
    destination size (as the u32 the code compares with) -/
theorem copyImage_some_iff (src prev : Img) (cl ct cw ch : Float) :
    (copyImage src cl ct cw ch prev).isSome = true ↔
      ((cl != cl.round || ct != ct.round || cw != cw.round || ch != ch.round) = false ∧
       (prev.w != cw.toUInt32.toNat || prev.h != ch.toUInt32.toNat) = false) :=
  Fir.Proofs.copyImage_some_iff src prev cl ct cw ch

/-- when it succeeds on a non-empty destination, the result is the region copied pixel by pixel -/
theorem copyImage_is_copy (src prev r : Img) (cl ct cw ch : Float) (h : copyImage src cl ct cw ch prev = some r)
    (hw : 0 < prev.w) (hh : 0 < prev.h) :
    r = copyPass src cl.toUInt32.toNat ct.toUInt32.toNat prev.w prev.h :=
  Fir.Proofs.copyImage_is_copy src prev r cl ct cw ch h hw hh

/-- every component of the copy is the corresponding source component, unchanged -/
theorem copyPass_get (src : Img) (l t w h x y c : Nat) (hx : x < w) (hy : y < h) (hc : c < src.n) :
    (copyPass src l t w h).get x y c = src.get (l + x) (t + y) c :=
  Fir.Proofs.copyPass_get src l t w h x y c hx hy hc

/-- same size => copy, for EVERY algorithm and alpha setting (explicit crop box) -/
theorem same_size_is_copy (p : PixT) (src prev r : Img) (alg : Alg) (useAlpha : Bool) (cl ct cw ch : Float)
    (hne : (cw == 0.0 || ch == 0.0 || prev.w == 0 || prev.h == 0) = false)
    (hcrop : cropCheck floatOps src.w src.h cl ct cw ch = 0)
    (hcopy : copyImage src cl ct cw ch prev = some r) :
    resizeModel p src prev ⟨alg, .box cl ct cw ch, useAlpha⟩ = (0, r) :=
  Fir.Proofs.same_size_is_copy p src prev r alg useAlpha cl ct cw ch hne hcrop hcopy

/-- ... and for the whole source (no cropping option) -/
theorem same_size_is_copy_nocrop (p : PixT) (src prev r : Img) (alg : Alg) (useAlpha : Bool)
    (hne : (Float.ofNat src.w == 0.0 || Float.ofNat src.h == 0.0 || prev.w == 0 || prev.h == 0) = false)
    (hcrop : cropCheck floatOps src.w src.h 0.0 0.0 (Float.ofNat src.w) (Float.ofNat src.h) = 0)
    (hcopy : copyImage src 0.0 0.0 (Float.ofNat src.w) (Float.ofNat src.h) prev = some r) :
    resizeModel p src prev ⟨alg, .none, useAlpha⟩ = (0, r) :=
  Fir.Proofs.same_size_is_copy_nocrop p src prev r alg useAlpha hne hcrop hcopy

/-- only the width matches (and `left` is an integer): no horizontal coefficients are computed; the
    result is the vertical pass alone, and its column `x` reads source column `left + x` only -/
theorem one_dim_no_resample (p : PixT) (src prev : Img) (cl ct cw ch : Float) (f : FilterSpec) (adaptive : Bool)
    (hne : ¬ (prev.w = 0 ∨ prev.h = 0 ∨ cw ≤ 0.0 ∨ ch ≤ 0.0))
    (hH : (Float.ofNat prev.w != cw || cl != cl.round) = false)
    (hV : (Float.ofNat prev.h != ch || ct != ct.round) = true) :
    doConvolution p src cl ct cw ch prev f adaptive =
      vertPass p.kind src prev.w prev.h cl.toUInt32.toNat (precomputeCoefficients src.h ct (ct + ch) prev.h f adaptive) :=
  Fir.Proofs.one_dim_no_resample p src prev cl ct cw ch f adaptive hne hH hV

/-- a vertical pass never mixes columns: component (x, y, c) is a function of source column `offset + x` only -/
theorem vertPass_column_local (k : CKind) (src src' : Img) (dstW dstH offset : Nat) (c : Coeffs) (x y ch : Nat)
    (hx : x < dstW) (hy : y < dstH) (hch : ch < src.n) (hn : src'.n = src.n)
    (hcol : ∀ r, src'.get (offset + x) r ch = src.get (offset + x) r ch) :
    (vertPass k src' dstW dstH offset c).get x y ch = (vertPass k src dstW dstH offset c).get x y ch :=
  Fir.Proofs.vertPass_column_local k src src' dstW dstH offset c x y ch hx hy hch hn hcol

/-- a super-sampling intermediate that already has the destination size is copied, not convolved -/
theorem ss_internal_same_size (p : PixT) (src prev r : Img) (cl ct cw ch : Float) (f : FilterSpec) (m : Nat) (useAlpha : Bool)
    (hne : ¬ (prev.w = 0 ∨ prev.h = 0 ∨ cw ≤ 0.0 ∨ ch ≤ 0.0))
    (hfac : (ssFactor cw ch prev.w prev.h m > 1.2) = true)
    (hcopy : copyImage
        (nearestPass src cl ct cw ch (Img.fill (ssTmpDim cw (ssFactor cw ch prev.w prev.h m)) (ssTmpDim ch (ssFactor cw ch prev.w prev.h m)) src.n 0))
        0.0 0.0 (Float.ofNat (ssTmpDim cw (ssFactor cw ch prev.w prev.h m))) (Float.ofNat (ssTmpDim ch (ssFactor cw ch prev.w prev.h m)))
        prev = some r) :
    resampleSuperSampling p src cl ct cw ch prev f m useAlpha = r :=
  Fir.Proofs.ss_internal_same_size p src prev r cl ct cw ch f m useAlpha hne hfac hcopy

end Fir.C12
