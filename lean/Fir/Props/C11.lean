/-
  C11 - Nearest-neighbour resizing picks the source pixel under each destination centre.

  About `Fir.nearestPass` (resample_nearest in src/resizer.rs): every destination component is a
  bit-exact copy of a source component - no arithmetic on the values, no alpha processing (the
  dispatch precedes any alpha code) - taken from column `nearestCol x`, row `nearestRow y`, which are
  always inside the source.  That these indices equal ⌊left + (x+½)·cw/dw⌋ is the float-noise clause:
  the correspondence check compares them with the exact rational coordinate on every generated case.
-/
import Fir.Model.Resizer
import Fir.Proofs.StructLemmas
import Fir.Proofs.IdealLemmas
import Fir.Proofs.RowCursorLemmas
import Mathlib.Algebra.Order.Floor.Ring
import Mathlib.Order.Monotone.Basic
import Fir.Proofs.IeeeLemmas

namespace Fir.C11
open Fir

/-- the selected source column / row always exist (clamped to the last column / row) -/
theorem nearest_in_bounds (srcW srcH : Nat) (hw : 0 < srcW) (hh : 0 < srcH) (xs xsc ys ysc : Float) (x y : Nat) :
    nearestCol srcW xs xsc x < srcW ∧ nearestRow srcH ys ysc y < srcH :=
  Fir.Proofs.nearest_in_bounds srcW srcH hw hh xs xsc ys ysc x y

/-- destination pixel (x, y) is a bit-exact copy of source pixel (nearestCol x, nearestRow y) -/
theorem nearest_copy (src prev : Img) (cl ct cw ch : Float) (x y c : Nat)
    (hne : ¬ (prev.w = 0 ∨ prev.h = 0 ∨ cw ≤ 0.0 ∨ ch ≤ 0.0 ∨ src.h = 0))
    (hx : x < prev.w) (hy : y < prev.h) (hc : c < src.n) :
    (nearestPass src cl ct cw ch prev).get x y c =
      src.get (nearestCol src.w (cl + cw / Float.ofNat prev.w * 0.5) (cw / Float.ofNat prev.w) x)
              (nearestRow src.h (ct + ch / Float.ofNat prev.h * 0.5) (ch / Float.ofNat prev.h) y) c :=
  Fir.Proofs.nearest_copy src prev cl ct cw ch x y c hne hx hy hc

/-- the result has the destination's size, whatever the source and the crop box -/
theorem nearest_dims (src prev : Img) (cl ct cw ch : Float) :
    (nearestPass src cl ct cw ch prev).w = prev.w ∧ (nearestPass src cl ct cw ch prev).h = prev.h :=
  Fir.Proofs.nearest_dims src prev cl ct cw ch

/-- Nearest never takes the alpha path: the result does not depend on the alpha setting or pixel type -/
theorem nearest_no_alpha (p p' : PixT) (src prev : Img) (crop : Cropping) (a a' : Bool) :
    resizeModel p src prev ⟨.nearest, crop, a⟩ = resizeModel p' src prev ⟨.nearest, crop, a'⟩ :=
  Fir.Proofs.nearest_no_alpha p p' src prev crop a a'

/-! ### the row loop of `resample_nearest` (forward-only iterator + cached row) against direct indexing -/

open Fir.RowCursor in
/-- the stateful loop (`src_rows.nth(req - next_row_y)`, cached `cur_row`, `next_row_y = req + 1`) hands
    the destination rows exactly the requested source rows, in order, without ever hitting `break`, for
    every non-decreasing sequence of requested rows inside the source - so `Fir.nearestPass`, which
    indexes row `nearestRow y` directly, describes it -/
theorem row_cursor_eq_direct (H : Nat) (reqs : List Nat) (hlt : ∀ r ∈ reqs, r < H) (hsorted : reqs.Pairwise (· ≤ ·)) :
    run H (init (reqs.headD 0)) reqs = reqs :=
  Fir.Proofs.row_cursor_eq_direct H reqs hlt hsorted

/-- the requested rows `min(⌊y⌋, H-1)` are non-decreasing: `y += y_scale` with `y_scale ≥ 0` never
    decreases under any monotone rounding that keeps representable values fixed -/
theorem requested_rows_sorted (fl : ℚ → ℚ) (hfl : Monotone fl) (y : ℕ → ℚ) (step : ℚ) (hs : 0 ≤ step)
    (hy : ∀ k, y (k + 1) = fl (y k + step)) (hfix : ∀ k, fl (y k) = y k) (maxY : ℕ) (k : ℕ) :
    min ⌊y k⌋.toNat maxY ≤ min ⌊y (k + 1)⌋.toNat maxY := by
  have h : y k ≤ y (k + 1) := by
    rw [hy k, ← hfix k]
    apply hfl
    rw [hfix k]; linarith
  exact min_le_min (Int.toNat_le_toNat (Int.floor_mono h)) (le_refl _)

example : Fir.RowCursor.run 5 (Fir.RowCursor.init 1) [1, 1, 2, 4, 4] = [1, 1, 2, 4, 4] := by decide

/-! ### the ideal coordinate (exact rationals) - what the float-noise clause is measured against.
    `Fir.Proofs.nearestIdeal l cw dw x = ⌊l + (x+½)·cw/dw⌋` is the coordinate the correspondence oracle
    (`checkNearest`) evaluates for every generated case. -/

/-- the selected source pixel is the one whose extent [i, i+1) contains the destination centre -/
theorem ideal_pixel_under_centre (l cw : ℚ) (dw x : Nat) :
    (Fir.Proofs.nearestIdeal l cw dw x : ℚ) ≤ l + ((x : ℚ) + 1 / 2) * cw / dw ∧
    l + ((x : ℚ) + 1 / 2) * cw / dw < Fir.Proofs.nearestIdeal l cw dw x + 1 :=
  Fir.Proofs.nearestIdeal_centre l cw dw x

/-- for every crop box inside the source the ideal coordinate is a valid source index: no clamping is
    needed in exact arithmetic (the clamp of the code only absorbs float noise) -/
theorem ideal_in_bounds (l cw : ℚ) (sw dw x : Nat) (hl : 0 ≤ l) (hcw : 0 < cw) (hfit : l + cw ≤ sw)
    (hd : 0 < dw) (hx : x < dw) :
    0 ≤ Fir.Proofs.nearestIdeal l cw dw x ∧ Fir.Proofs.nearestIdeal l cw dw x < sw :=
  Fir.Proofs.nearestIdeal_in_bounds l cw sw dw x hl hcw hfit hd hx

/-- order of pixels is preserved -/
theorem ideal_mono (l cw : ℚ) (dw x x' : Nat) (hcw : 0 ≤ cw) (h : x ≤ x') :
    Fir.Proofs.nearestIdeal l cw dw x ≤ Fir.Proofs.nearestIdeal l cw dw x' :=
  Fir.Proofs.nearestIdeal_mono l cw dw x x' hcw h

/-- integer up-scaling repeats every source pixel exactly `k` times -/
theorem ideal_integer_upscale (sw k x : Nat) (hk : 0 < k) (hs : 0 < sw) (hx : x < sw * k) :
    Fir.Proofs.nearestIdeal 0 sw (sw * k) x = (x / k : Nat) :=
  Fir.Proofs.nearestIdeal_integer_upscale sw k x hk hs hx

/-- odd integer down-scaling picks the middle pixel of every block -/
theorem ideal_odd_downscale (dw j x : Nat) (hd : 0 < dw) (hx : x < dw) :
    Fir.Proofs.nearestIdeal 0 ((dw * (2 * j + 1) : Nat) : ℚ) dw x = (x * (2 * j + 1) + j : Nat) :=
  Fir.Proofs.nearestIdeal_odd_downscale dw j x hd hx

example : Fir.Proofs.nearestIdeal 0 4 8 5 = 2 := by
  unfold Fir.Proofs.nearestIdeal; norm_num [Int.floor_eq_iff]

/-! ### the premises about rounding discharged for IEEE-754 round-to-nearest-even (`Fir.Ieee.flP`) -/

section IeeeInstances
open Fir.Ieee Fir.Flt
/-- the requested rows are non-decreasing for IEEE binary64 (`y += y_scale`, `y_scale ≥ 0`, start representable) -/
theorem requested_rows_sorted_ieee (y : ℕ → ℚ) (step : ℚ) (hs : 0 ≤ step)
    (hy : ∀ k, y (k + 1) = flP 53 (y k + step)) (h0 : flP 53 (y 0) = y 0) (maxY : ℕ) (k : ℕ) :
    min ⌊y k⌋.toNat maxY ≤ min ⌊y (k + 1)⌋.toNat maxY := by
  apply requested_rows_sorted (flP 53) (flP_monotone 53 (by norm_num)) y step hs hy _ maxY k
  intro j
  cases j with
  | zero => exact h0
  | succ j => rw [hy j]; exact flP_idem 53 (by norm_num) _
end IeeeInstances

end Fir.C11
