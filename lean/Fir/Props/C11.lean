/-
  C11 - Nearest-neighbour resizing picks the source pixel under each destination centre.

  About `Fir.nearestPass` (resample_nearest in src/resizer.rs): every destination component is a
  bit-exact copy of a source component - no arithmetic on the values, no alpha processing (the
  dispatch precedes any alpha code) - taken from column `nearestCol x`, row `nearestRow y`, which are
  always inside the source.  That these indices equal ⌊left + (x+½)·cw/dw⌋ is the float-noise clause:
  the correspondence check compares them with the exact rational coordinate on every generated case.
-/
import Fir.Model.Resizer
import Fir.Proofs.StructLemmas

namespace Fir.C11
open Fir

/-- the selected source column / row always exist (clamped to the last column / row) -/
theorem nearest_in_bounds (srcW srcH : Nat) (hw : 0 < srcW) (hh : 0 < srcH) (xs xsc ys ysc : Float) (x y : Nat) :
    nearestCol srcW xs xsc x < srcW ∧ nearestRow srcH ys ysc y < srcH :=
  Fir.Proofs.nearest_in_bounds srcW srcH hw hh xs xsc ys ysc x y

/-- destination pixel (x, y) is a bit-exact copy of source pixel (nearestCol x, nearestRow y) -/
theorem nearest_copy (src prev : Img) (cl ct cw ch : Float) (x y c : Nat)
    (hne : ¬ (prev.w = 0 ∨ prev.h = 0 ∨ cw ≤ 0.0 ∨ ch ≤ 0.0 ∨ src.h = 0))
    (hx : x < prev.w) (hy : y < prev.h) (hc : c < src.n) :
    (nearestPass src cl ct cw ch prev).get x y c =
      src.get (nearestCol src.w (cl + cw / Float.ofNat prev.w * 0.5) (cw / Float.ofNat prev.w) x)
              (nearestRow src.h (ct + ch / Float.ofNat prev.h * 0.5) (ch / Float.ofNat prev.h) y) c :=
  Fir.Proofs.nearest_copy src prev cl ct cw ch x y c hne hx hy hc

/-- the result has the destination's size, whatever the source and the crop box -/
theorem nearest_dims (src prev : Img) (cl ct cw ch : Float) :
    (nearestPass src cl ct cw ch prev).w = prev.w ∧ (nearestPass src cl ct cw ch prev).h = prev.h :=
  Fir.Proofs.nearest_dims src prev cl ct cw ch

/-- Nearest never takes the alpha path: the result does not depend on the alpha setting or pixel type -/
theorem nearest_no_alpha (p p' : PixT) (src prev : Img) (crop : Cropping) (a a' : Bool) :
    resizeModel p src prev ⟨.nearest, crop, a⟩ = resizeModel p' src prev ⟨.nearest, crop, a'⟩ :=
  Fir.Proofs.nearest_no_alpha p p' src prev crop a a'

end Fir.C11
