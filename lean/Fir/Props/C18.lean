/-
  C18 - Non-negative filters never overshoot and preserve the order of inputs.

  Theorems about `Fir.passInt` (the arithmetic of one destination component of an 8/16-bit pass):
  with non-negative integer coefficients the pass is monotone in every source sample, and - together
  with C10's `QuantOK` at the two range ends - its result stays inside the range of its inputs.
  That the coefficients of Box / Bilinear / Hamming / Gaussian windows are non-negative is checked
  on the implementation's own quantised coefficients for every generated geometry (sign of the f64
  kernel values is not a kernel-checked fact).  Float formats: see DESIGN (monotone under any
  monotone rounding); they are covered by the correspondence oracle with one ulp of slack.
-/
import Fir.Model.Resample
import Fir.Props.C10
import Fir.Proofs.FixedLemmas
import Fir.Proofs.ImageLemmas
import Fir.Proofs.TwoPassLemmas
import Fir.Proofs.IdealFilterLemmas
import Fir.Proofs.TwoPass16Lemmas
import Fir.Proofs.FloatLemmas
import Fir.Proofs.SignLemmas
import Fir.Proofs.IeeeLemmas

namespace Fir.C18
open Fir

/-- pointwise order on rows of equal length -/
def RowLe (xs ys : List Int) : Prop := xs.length = ys.length ∧ ∀ i, i < xs.length → xs.getD i 0 ≤ ys.getD i 0

instance (xs ys : List Int) : Decidable (RowLe xs ys) := by
  unfold RowLe; infer_instance

/-- increasing any source samples never decreases the exact dot product when all coefficients are ≥ 0 -/
theorem dot_monotone (ks xs ys : List Int) (hk : ∀ k ∈ ks, 0 ≤ k) (h : RowLe xs ys) : dotL ks xs ≤ dotL ks ys :=
  Fir.Proofs.dotL_monotone ks xs ys hk h.1 h.2

/-- 8-bit pass: order preserving (the sums are assumed to fit the i32 accumulator, as they do whenever
    the window's coefficient sum is within the two head-room bits; see C03) -/
theorem pass_monotone_u8 (ks xs ys : List Int) (p : Nat) (hp : p < 32) (hk : ∀ k ∈ ks, 0 ≤ k) (h : RowLe xs ys)
    (hx : -(2 ^ 31 : Int) ≤ 2 ^ (p - 1) + dotL ks xs ∧ 2 ^ (p - 1) + dotL ks xs < 2 ^ 31)
    (hy : -(2 ^ 31 : Int) ≤ 2 ^ (p - 1) + dotL ks ys ∧ 2 ^ (p - 1) + dotL ks ys < 2 ^ 31) :
    passInt .u8 ks xs p ≤ passInt .u8 ks ys p :=
  Fir.Proofs.pass_monotone_u8 ks xs ys p hp hk h.1 h.2 hx hy

/-- 16-bit pass: order preserving -/
theorem pass_monotone_u16 (ks xs ys : List Int) (p : Nat) (hp : p < 64) (hk : ∀ k ∈ ks, 0 ≤ k) (h : RowLe xs ys)
    (hx : -(2 ^ 63 : Int) ≤ 2 ^ (p - 1) + dotL ks xs ∧ 2 ^ (p - 1) + dotL ks xs < 2 ^ 63)
    (hy : -(2 ^ 63 : Int) ≤ 2 ^ (p - 1) + dotL ks ys ∧ 2 ^ (p - 1) + dotL ks ys < 2 ^ 63) :
    passInt .u16 ks xs p ≤ passInt .u16 ks ys p :=
  Fir.Proofs.pass_monotone_u16 ks xs ys p hp hk h.1 h.2 hx hy

/-- range preservation (8 bit): if every sample of the window lies in `[lo, hi]`, coefficients are
    non-negative and the window reproduces the constants `lo` and `hi` (C10), the result lies in `[lo, hi]` -/
theorem range_from_uniform_u8 (ks xs : List Int) (p : Nat) (lo hi : Int) (hp1 : 1 ≤ p) (hp : p ≤ 22)
    (hk : ∀ k ∈ ks, 0 ≤ k) (hlen : xs.length = ks.length)
    (hlo0 : 0 ≤ lo) (hhi : hi ≤ 255) (hx : ∀ x ∈ xs, lo ≤ x ∧ x ≤ hi)
    (hqlo : C10.QuantOK ks p lo) (hqhi : C10.QuantOK ks p hi) :
    lo ≤ passInt .u8 ks xs p ∧ passInt .u8 ks xs p ≤ hi :=
  Fir.Proofs.range_from_uniform_u8 ks xs p lo hi hp1 hp hk hlen hlo0 hhi hx hqlo.1 hqlo.2 hqhi.1 hqhi.2

/-- zero-extended 8-bit samples are non-negative 16-bit lanes and a pair product of `madd_epi16`
    cannot overflow: |a·k + a'·k'| < 2^31 for 0 ≤ a, a' ≤ 255, |k|, |k'| ≤ 2^15 -/
theorem madd_epi16_exact (a a' k k' : Int) (ha : 0 ≤ a ∧ a ≤ 255) (ha' : 0 ≤ a' ∧ a' ≤ 255)
    (hk : -32768 ≤ k ∧ k ≤ 32767) (hk' : -32768 ≤ k' ∧ k' ≤ 32767) :
    -(2 ^ 31 : Int) < a * k + a' * k' ∧ a * k + a' * k' < 2 ^ 31 :=
  Fir.Proofs.madd_epi16_exact a a' k k' ha ha' hk hk'

/-! ### whole images (`Fir.horizPass` / `Fir.vertPass` of the executable model) -/

/-- the i32 accumulator of an 8-bit window cannot overflow inside the documented head-room:
    `255·Σ|kᵢ| + 2^(p−1) < 2^31` -/
theorem accOK8_of_abs_sum (ks xs : List Int) (p : Nat) (hx : ∀ x ∈ xs, 0 ≤ x ∧ x ≤ 255)
    (h : 255 * (ks.map (|·|)).sum + 2 ^ (p - 1) < 2 ^ 31) : Fir.Proofs.AccOK8 ks xs p :=
  Fir.Proofs.accOK8_of_abs_sum ks xs p hx h

theorem accOK16_of_abs_sum (ks xs : List Int) (p : Nat) (hx : ∀ x ∈ xs, 0 ≤ x ∧ x ≤ 65535)
    (h : 65535 * (ks.map (|·|)).sum + 2 ^ (p - 1) < 2 ^ 63) : Fir.Proofs.AccOK16 ks xs p :=
  Fir.Proofs.accOK16_of_abs_sum ks xs p hx h

open Fir.Proofs in
/-- order preservation of a whole horizontal 8-bit pass with non-negative coefficients: if `src ≤ src'`
    wherever the pass reads, the result of `src` is ≤ the result of `src'` at every component -/
theorem horizPass_monotone_u8 (src src' : Img) (dstW dstH offset : Nat) (c : Coeffs) (hn : src.n = src'.n)
    (hp : (qOf .u8 c).precision < 32)
    (hk : ∀ x, x < dstW → ∀ k ∈ (chunkAt .u8 c x).2.toList, 0 ≤ k)
    (hle : ∀ x y ch j, src.get ((chunkAt .u8 c x).1 + j) (offset + y) ch ≤ src'.get ((chunkAt .u8 c x).1 + j) (offset + y) ch)
    (hacc : ∀ x y ch, x < dstW → y < dstH → ch < src.n →
      AccOK8 (chunkAt .u8 c x).2.toList (hWindow .u8 src offset c x y ch) (qOf .u8 c).precision ∧
      AccOK8 (chunkAt .u8 c x).2.toList (hWindow .u8 src' offset c x y ch) (qOf .u8 c).precision)
    (x y ch : Nat) (hx : x < dstW) (hy : y < dstH) (hc : ch < src.n) :
    (horizPass .u8 src dstW dstH offset c).get x y ch ≤ (horizPass .u8 src' dstW dstH offset c).get x y ch :=
  Fir.Proofs.horizPass_monotone_u8 src src' dstW dstH offset c hn hp hk hle hacc x y ch hx hy hc

open Fir.Proofs in
theorem vertPass_monotone_u8 (src src' : Img) (dstW dstH offset : Nat) (c : Coeffs) (hn : src.n = src'.n)
    (hp : (qOf .u8 c).precision < 32)
    (hk : ∀ y, y < dstH → ∀ k ∈ (chunkAt .u8 c y).2.toList, 0 ≤ k)
    (hle : ∀ x y ch j, src.get (offset + x) ((chunkAt .u8 c y).1 + j) ch ≤ src'.get (offset + x) ((chunkAt .u8 c y).1 + j) ch)
    (hacc : ∀ x y ch, x < dstW → y < dstH → ch < src.n →
      AccOK8 (chunkAt .u8 c y).2.toList (vWindow .u8 src offset c x y ch) (qOf .u8 c).precision ∧
      AccOK8 (chunkAt .u8 c y).2.toList (vWindow .u8 src' offset c x y ch) (qOf .u8 c).precision)
    (x y ch : Nat) (hx : x < dstW) (hy : y < dstH) (hc : ch < src.n) :
    (vertPass .u8 src dstW dstH offset c).get x y ch ≤ (vertPass .u8 src' dstW dstH offset c).get x y ch :=
  Fir.Proofs.vertPass_monotone_u8 src src' dstW dstH offset c hn hp hk hle hacc x y ch hx hy hc

open Fir.Proofs in
theorem horizPass_monotone_u16 (src src' : Img) (dstW dstH offset : Nat) (c : Coeffs) (hn : src.n = src'.n)
    (hp : (qOf .u16 c).precision < 64)
    (hk : ∀ x, x < dstW → ∀ k ∈ (chunkAt .u16 c x).2.toList, 0 ≤ k)
    (hle : ∀ x y ch j, src.get ((chunkAt .u16 c x).1 + j) (offset + y) ch ≤ src'.get ((chunkAt .u16 c x).1 + j) (offset + y) ch)
    (hacc : ∀ x y ch, x < dstW → y < dstH → ch < src.n →
      AccOK16 (chunkAt .u16 c x).2.toList (hWindow .u16 src offset c x y ch) (qOf .u16 c).precision ∧
      AccOK16 (chunkAt .u16 c x).2.toList (hWindow .u16 src' offset c x y ch) (qOf .u16 c).precision)
    (x y ch : Nat) (hx : x < dstW) (hy : y < dstH) (hc : ch < src.n) :
    (horizPass .u16 src dstW dstH offset c).get x y ch ≤ (horizPass .u16 src' dstW dstH offset c).get x y ch :=
  Fir.Proofs.horizPass_monotone_u16 src src' dstW dstH offset c hn hp hk hle hacc x y ch hx hy hc

open Fir.Proofs in
theorem vertPass_monotone_u16 (src src' : Img) (dstW dstH offset : Nat) (c : Coeffs) (hn : src.n = src'.n)
    (hp : (qOf .u16 c).precision < 64)
    (hk : ∀ y, y < dstH → ∀ k ∈ (chunkAt .u16 c y).2.toList, 0 ≤ k)
    (hle : ∀ x y ch j, src.get (offset + x) ((chunkAt .u16 c y).1 + j) ch ≤ src'.get (offset + x) ((chunkAt .u16 c y).1 + j) ch)
    (hacc : ∀ x y ch, x < dstW → y < dstH → ch < src.n →
      AccOK16 (chunkAt .u16 c y).2.toList (vWindow .u16 src offset c x y ch) (qOf .u16 c).precision ∧
      AccOK16 (chunkAt .u16 c y).2.toList (vWindow .u16 src' offset c x y ch) (qOf .u16 c).precision)
    (x y ch : Nat) (hx : x < dstW) (hy : y < dstH) (hc : ch < src.n) :
    (vertPass .u16 src dstW dstH offset c).get x y ch ≤ (vertPass .u16 src' dstW dstH offset c).get x y ch :=
  Fir.Proofs.vertPass_monotone_u16 src src' dstW dstH offset c hn hp hk hle hacc x y ch hx hy hc

/-! ### both passes of `do_convolution` composed (8-bit order) -/

open Fir.Proofs in
theorem twoPass_monotone_u8 (src src' : Img) (dstW dstH tempW xFirst : Nat) (vc hc : Coeffs) (hn : src.n = src'.n)
    (hpV : (qOf .u8 vc).precision < 32) (hpH : (qOf .u8 hc).precision < 32)
    (hkV : ∀ y, y < dstH → ∀ k ∈ (chunkAt .u8 vc y).2.toList, 0 ≤ k)
    (hkH : ∀ x, x < dstW → ∀ k ∈ (chunkAt .u8 hc x).2.toList, 0 ≤ k)
    (hle : ∀ x y ch j, src.get (xFirst + x) ((chunkAt .u8 vc y).1 + j) ch ≤ src'.get (xFirst + x) ((chunkAt .u8 vc y).1 + j) ch)
    (haccV : ∀ x y ch, x < tempW → y < dstH → ch < src.n →
      AccOK8 (chunkAt .u8 vc y).2.toList (vWindow .u8 src xFirst vc x y ch) (qOf .u8 vc).precision ∧
      AccOK8 (chunkAt .u8 vc y).2.toList (vWindow .u8 src' xFirst vc x y ch) (qOf .u8 vc).precision)
    (hfit : ∀ x, x < dstW → (chunkAt .u8 hc x).1 + (chunkAt .u8 hc x).2.size ≤ tempW)
    (haccH : ∀ x y ch, x < dstW → y < dstH → ch < src.n →
      AccOK8 (chunkAt .u8 hc x).2.toList (hWindow .u8 (vertPass .u8 src tempW dstH xFirst vc) 0 hc x y ch) (qOf .u8 hc).precision ∧
      AccOK8 (chunkAt .u8 hc x).2.toList (hWindow .u8 (vertPass .u8 src' tempW dstH xFirst vc) 0 hc x y ch) (qOf .u8 hc).precision)
    (x y ch : Nat) (hx : x < dstW) (hy : y < dstH) (hc' : ch < src.n) :
    (horizPass .u8 (vertPass .u8 src tempW dstH xFirst vc) dstW dstH 0 hc).get x y ch
      ≤ (horizPass .u8 (vertPass .u8 src' tempW dstH xFirst vc) dstW dstH 0 hc).get x y ch :=
  Fir.Proofs.twoPass_monotone_u8 src src' dstW dstH tempW xFirst vc hc hn hpV hpH hkV hkH hle haccV hfit haccH x y ch hx hy hc'

/-! ### the ideal statement (`Fir.Spec.IdealFilter`): box and triangle windows are convex combinations -/

open Fir.Spec in
theorem qBox_nonneg (x : ℚ) : 0 ≤ qBox x :=
  Fir.Proofs.qBox_nonneg x

open Fir.Spec in
theorem qBilinear_nonneg (x : ℚ) : 0 ≤ qBilinear x :=
  Fir.Proofs.qBilinear_nonneg x

open Fir.Spec in
theorem idealWeights_nonneg_box (inSize : Nat) (in0 in1 : ℚ) (outSize : Nat) (adaptive : Bool) (o : Nat) :
    ∀ w ∈ (idealWeights inSize in0 in1 outSize ⟨qBox, 1 / 2⟩ adaptive o).2, 0 ≤ w :=
  Fir.Proofs.idealWeights_nonneg_box inSize in0 in1 outSize adaptive o

open Fir.Spec in
theorem idealWeights_nonneg_bilinear (inSize : Nat) (in0 in1 : ℚ) (outSize : Nat) (adaptive : Bool) (o : Nat) :
    ∀ w ∈ (idealWeights inSize in0 in1 outSize ⟨qBilinear, 1⟩ adaptive o).2, 0 ≤ w :=
  Fir.Proofs.idealWeights_nonneg_bilinear inSize in0 in1 outSize adaptive o

open Fir.Spec in
/-- a convex combination stays inside the range of its inputs (the ideal statement behind C18) -/
theorem convex_combination_range (ws xs : List ℚ) (lo hi : ℚ) (hlen : xs.length = ws.length)
    (hw : ∀ w ∈ ws, 0 ≤ w) (hsum : ws.sum = 1) (hx : ∀ x ∈ xs, lo ≤ x ∧ x ≤ hi) :
    lo ≤ (List.zipWith (· * ·) ws xs).sum ∧ (List.zipWith (· * ·) ws xs).sum ≤ hi :=
  Fir.Proofs.convex_combination_range ws xs lo hi hlen hw hsum hx

/-! ### no overshoot for whole images, and the 16-bit pass order -/

open Fir.Proofs in
/-- no overshoot, one 8-bit horizontal pass on a whole image: if every sample read lies in `[lo, hi]`, the
    coefficients are non-negative and every window reproduces the constants `lo` and `hi` (the `QuantOK`
    inequalities of C10 at `lo` and at `hi`), every component of the result lies in `[lo, hi]` -/
theorem horizPass_range_u8 (src : Img) (dstW dstH offset : Nat) (c : Coeffs) (lo hi : Int)
    (hlo0 : 0 ≤ lo) (hlh : lo ≤ hi) (hhi : hi ≤ 255)
    (hp1 : 1 ≤ (qOf .u8 c).precision) (hp : (qOf .u8 c).precision ≤ 22)
    (hk : ∀ x, x < dstW → ∀ k ∈ (chunkAt .u8 c x).2.toList, 0 ≤ k)
    (hread : ∀ x y ch, x < dstW → y < dstH → ch < src.n → ∀ s ∈ hWindow .u8 src offset c x y ch, lo ≤ s ∧ s ≤ hi)
    (hqlo : ∀ x, x < dstW →
      -(2 ^ ((qOf .u8 c).precision - 1) : Int) ≤ lo * ((chunkAt .u8 c x).2.toList.sum - 2 ^ (qOf .u8 c).precision) ∧
      lo * ((chunkAt .u8 c x).2.toList.sum - 2 ^ (qOf .u8 c).precision) < 2 ^ ((qOf .u8 c).precision - 1))
    (hqhi : ∀ x, x < dstW →
      -(2 ^ ((qOf .u8 c).precision - 1) : Int) ≤ hi * ((chunkAt .u8 c x).2.toList.sum - 2 ^ (qOf .u8 c).precision) ∧
      hi * ((chunkAt .u8 c x).2.toList.sum - 2 ^ (qOf .u8 c).precision) < 2 ^ ((qOf .u8 c).precision - 1))
    (x y ch : Nat) (hx : x < dstW) (hy : y < dstH) (hc : ch < src.n) :
    lo ≤ (horizPass .u8 src dstW dstH offset c).get x y ch ∧ (horizPass .u8 src dstW dstH offset c).get x y ch ≤ hi :=
  Fir.Proofs.horizPass_range_u8 src dstW dstH offset c lo hi hlo0 hlh hhi hp1 hp hk hread hqlo hqhi x y ch hx hy hc

open Fir.Proofs in
theorem vertPass_range_u8 (src : Img) (dstW dstH offset : Nat) (c : Coeffs) (lo hi : Int)
    (hlo0 : 0 ≤ lo) (hlh : lo ≤ hi) (hhi : hi ≤ 255)
    (hp1 : 1 ≤ (qOf .u8 c).precision) (hp : (qOf .u8 c).precision ≤ 22)
    (hk : ∀ y, y < dstH → ∀ k ∈ (chunkAt .u8 c y).2.toList, 0 ≤ k)
    (hread : ∀ x y ch, x < dstW → y < dstH → ch < src.n → ∀ s ∈ vWindow .u8 src offset c x y ch, lo ≤ s ∧ s ≤ hi)
    (hqlo : ∀ y, y < dstH →
      -(2 ^ ((qOf .u8 c).precision - 1) : Int) ≤ lo * ((chunkAt .u8 c y).2.toList.sum - 2 ^ (qOf .u8 c).precision) ∧
      lo * ((chunkAt .u8 c y).2.toList.sum - 2 ^ (qOf .u8 c).precision) < 2 ^ ((qOf .u8 c).precision - 1))
    (hqhi : ∀ y, y < dstH →
      -(2 ^ ((qOf .u8 c).precision - 1) : Int) ≤ hi * ((chunkAt .u8 c y).2.toList.sum - 2 ^ (qOf .u8 c).precision) ∧
      hi * ((chunkAt .u8 c y).2.toList.sum - 2 ^ (qOf .u8 c).precision) < 2 ^ ((qOf .u8 c).precision - 1))
    (x y ch : Nat) (hx : x < dstW) (hy : y < dstH) (hc : ch < src.n) :
    lo ≤ (vertPass .u8 src dstW dstH offset c).get x y ch ∧ (vertPass .u8 src dstW dstH offset c).get x y ch ≤ hi :=
  Fir.Proofs.vertPass_range_u8 src dstW dstH offset c lo hi hlo0 hlh hhi hp1 hp hk hread hqlo hqhi x y ch hx hy hc

open Fir.Proofs in
/-- no overshoot through both passes (8-bit order) -/
theorem twoPass_range_u8 (src : Img) (dstW dstH tempW xFirst : Nat) (vc hc : Coeffs) (lo hi : Int)
    (hlo0 : 0 ≤ lo) (hlh : lo ≤ hi) (hhi : hi ≤ 255)
    (hpV1 : 1 ≤ (qOf .u8 vc).precision) (hpV : (qOf .u8 vc).precision ≤ 22)
    (hpH1 : 1 ≤ (qOf .u8 hc).precision) (hpH : (qOf .u8 hc).precision ≤ 22)
    (hkV : ∀ y, y < dstH → ∀ k ∈ (chunkAt .u8 vc y).2.toList, 0 ≤ k)
    (hkH : ∀ x, x < dstW → ∀ k ∈ (chunkAt .u8 hc x).2.toList, 0 ≤ k)
    (hread : ∀ x y ch, x < tempW → y < dstH → ch < src.n → ∀ s ∈ vWindow .u8 src xFirst vc x y ch, lo ≤ s ∧ s ≤ hi)
    (hqVlo : ∀ y, y < dstH →
      -(2 ^ ((qOf .u8 vc).precision - 1) : Int) ≤ lo * ((chunkAt .u8 vc y).2.toList.sum - 2 ^ (qOf .u8 vc).precision) ∧
      lo * ((chunkAt .u8 vc y).2.toList.sum - 2 ^ (qOf .u8 vc).precision) < 2 ^ ((qOf .u8 vc).precision - 1))
    (hqVhi : ∀ y, y < dstH →
      -(2 ^ ((qOf .u8 vc).precision - 1) : Int) ≤ hi * ((chunkAt .u8 vc y).2.toList.sum - 2 ^ (qOf .u8 vc).precision) ∧
      hi * ((chunkAt .u8 vc y).2.toList.sum - 2 ^ (qOf .u8 vc).precision) < 2 ^ ((qOf .u8 vc).precision - 1))
    (hfit : ∀ x, x < dstW → (chunkAt .u8 hc x).1 + (chunkAt .u8 hc x).2.size ≤ tempW)
    (hqHlo : ∀ x, x < dstW →
      -(2 ^ ((qOf .u8 hc).precision - 1) : Int) ≤ lo * ((chunkAt .u8 hc x).2.toList.sum - 2 ^ (qOf .u8 hc).precision) ∧
      lo * ((chunkAt .u8 hc x).2.toList.sum - 2 ^ (qOf .u8 hc).precision) < 2 ^ ((qOf .u8 hc).precision - 1))
    (hqHhi : ∀ x, x < dstW →
      -(2 ^ ((qOf .u8 hc).precision - 1) : Int) ≤ hi * ((chunkAt .u8 hc x).2.toList.sum - 2 ^ (qOf .u8 hc).precision) ∧
      hi * ((chunkAt .u8 hc x).2.toList.sum - 2 ^ (qOf .u8 hc).precision) < 2 ^ ((qOf .u8 hc).precision - 1))
    (x y ch : Nat) (hx : x < dstW) (hy : y < dstH) (hc' : ch < src.n) :
    lo ≤ (horizPass .u8 (vertPass .u8 src tempW dstH xFirst vc) dstW dstH 0 hc).get x y ch ∧
    (horizPass .u8 (vertPass .u8 src tempW dstH xFirst vc) dstW dstH 0 hc).get x y ch ≤ hi :=
  Fir.Proofs.twoPass_range_u8 src dstW dstH tempW xFirst vc hc lo hi hlo0 hlh hhi hpV1 hpV hpH1 hpH hkV hkH hread hqVlo hqVhi hfit hqHlo hqHhi x y ch hx hy hc'

open Fir.Proofs in
theorem twoPass_monotone_u16 (src src' : Img) (dstW dstH tempH yFirst : Nat) (hc vc : Coeffs) (hn : src.n = src'.n)
    (hpH : (qOf .u16 hc).precision < 64) (hpV : (qOf .u16 vc).precision < 64)
    (hkH : ∀ x, x < dstW → ∀ k ∈ (chunkAt .u16 hc x).2.toList, 0 ≤ k)
    (hkV : ∀ y, y < dstH → ∀ k ∈ (chunkAt .u16 vc y).2.toList, 0 ≤ k)
    (hle : ∀ x y ch j, src.get ((chunkAt .u16 hc x).1 + j) (yFirst + y) ch ≤ src'.get ((chunkAt .u16 hc x).1 + j) (yFirst + y) ch)
    (haccH : ∀ x y ch, x < dstW → y < tempH → ch < src.n →
      AccOK16 (chunkAt .u16 hc x).2.toList (hWindow .u16 src yFirst hc x y ch) (qOf .u16 hc).precision ∧
      AccOK16 (chunkAt .u16 hc x).2.toList (hWindow .u16 src' yFirst hc x y ch) (qOf .u16 hc).precision)
    (hfit : ∀ y, y < dstH → (chunkAt .u16 vc y).1 + (chunkAt .u16 vc y).2.size ≤ tempH)
    (haccV : ∀ x y ch, x < dstW → y < dstH → ch < src.n →
      AccOK16 (chunkAt .u16 vc y).2.toList (vWindow .u16 (horizPass .u16 src dstW tempH yFirst hc) 0 vc x y ch) (qOf .u16 vc).precision ∧
      AccOK16 (chunkAt .u16 vc y).2.toList (vWindow .u16 (horizPass .u16 src' dstW tempH yFirst hc) 0 vc x y ch) (qOf .u16 vc).precision)
    (x y ch : Nat) (hx : x < dstW) (hy : y < dstH) (hc' : ch < src.n) :
    (vertPass .u16 (horizPass .u16 src dstW tempH yFirst hc) dstW dstH 0 vc).get x y ch
      ≤ (vertPass .u16 (horizPass .u16 src' dstW tempH yFirst hc) dstW dstH 0 vc).get x y ch :=
  Fir.Proofs.twoPass_monotone_u16 src src' dstW dstH tempH yFirst hc vc hn hpH hpV hkH hkV hle haccH hfit haccV x y ch hx hy hc'

/-! ### I32 and the float formats: order preservation is exact for every monotone rounding -/

open Fir.Flt in
/-- raising any sample never lowers the rounded f64 sum when all coefficients are non-negative - for the
    portable loop ... -/
theorem float_pass_monotone (fl : ℚ → ℚ) (hfl : Monotone fl) (ks xs ys : List ℚ) (hk : ∀ k ∈ ks, 0 ≤ k)
    (hxy : List.Forall₂ (· ≤ ·) xs ys) : accF fl ks xs 0 ≤ accF fl ks ys 0 :=
  accF_mono fl hfl ks xs ys hk hxy 0 0 (le_refl 0)

open Fir.Flt in
/-- ... and for every summation order (SIMD lanes, horizontal adds); the final `round() as i32` and
    `as f32` are monotone too (C17.roundHalfAway_mono, `Monotone fl32`), so I32 / F32 results are ordered
    exactly, per back-end -/
theorem float_tree_monotone (fl : ℚ → ℚ) (hfl : Monotone fl) (k : ℕ → ℚ) (hk : ∀ i, 0 ≤ k i) (x y : ℕ → ℚ)
    (hxy : ∀ i, x i ≤ y i) (t : Shape) : t.eval fl x k ≤ t.eval fl y k :=
  eval_mono fl hfl k hk x y hxy t

open Fir.Flt in
/-- no overshoot for floats: the rounded sum of samples in `[lo, hi]` lies between the rounded sums of
    the constant rows `lo` and `hi` (which C10.uniform_float places within rounding error of `lo`, `hi`) -/
theorem float_range (fl : ℚ → ℚ) (hfl : Monotone fl) (k : ℕ → ℚ) (hk : ∀ i, 0 ≤ k i) (x : ℕ → ℚ) (lo hi : ℚ)
    (hx : ∀ i, lo ≤ x i ∧ x i ≤ hi) (t : Shape) :
    t.eval fl (fun _ => lo) k ≤ t.eval fl x k ∧ t.eval fl x k ≤ t.eval fl (fun _ => hi) k :=
  ⟨eval_mono fl hfl k hk _ _ (fun i => (hx i).1) t, eval_mono fl hfl k hk _ _ (fun i => (hx i).2) t⟩

/-! ### signs survive every rounding: non-negative kernel ⇒ non-negative weights and coefficients -/

/-- the running sum `ww += w` of non-negative kernel values is non-negative for every monotone rounding
    with `fl 0 = 0` (so `ww != 0.` means `ww > 0`) -/
theorem weight_sum_nonneg (fl : ℚ → ℚ) (hfl : Monotone fl) (h0 : fl 0 = 0) (ws : List ℚ) (hw : ∀ w ∈ ws, 0 ≤ w) :
    0 ≤ ws.foldl (fun s w => fl (s + w)) 0 :=
  Fir.Proofs.sum_weights_nonneg fl hfl h0 ws hw 0 (le_refl 0)

/-- `w /= ww` and `(w * 2^p).round() as i16 / i32`: a non-negative kernel value gives a non-negative
    normalised weight and a non-negative integer coefficient, whatever the magnitudes and roundings -
    the hypothesis `hk` of the monotonicity / range theorems above, for Box, Bilinear (proved non-negative)
    and for Hamming, Gaussian (sign of the f64 evaluation checked on the real coefficients) -/
theorem nonneg_weights (fl : ℚ → ℚ) (hfl : Monotone fl) (h0 : fl 0 = 0) (w ww P : ℚ) (hw : 0 ≤ w) (hww : 0 < ww) (hP : 0 ≤ P) :
    0 ≤ fl (w / ww) ∧ 0 ≤ Fir.Proofs.roundHalfAway (fl (fl (w / ww) * P)) :=
  Fir.Proofs.nonneg_weights fl hfl h0 w ww P hw hww hP

/-! ### non-vacuity -/
example : passInt .u8 [8192, 8192] [10, 20] 14 ≤ passInt .u8 [8192, 8192] [10, 21] 14 := by decide
example : RowLe [1, 2] [1, 3] := by decide

/-! ### the premises about rounding discharged for IEEE-754 round-to-nearest-even (`Fir.Ieee.flP`) -/

section IeeeInstances
open Fir.Ieee Fir.Flt
/-- order preservation of the f64 accumulation for IEEE binary64, every summation order -/
theorem float_tree_monotone_ieee (k : ℕ → ℚ) (hk : ∀ i, 0 ≤ k i) (x y : ℕ → ℚ) (hxy : ∀ i, x i ≤ y i) (t : Shape) :
    t.eval (flP 53) x k ≤ t.eval (flP 53) y k :=
  float_tree_monotone (flP 53) (flP_monotone 53 (by norm_num)) k hk x y hxy t

/-- ... including the final narrowing to binary32 of the F32 formats -/
theorem float_result_monotone_ieee (k : ℕ → ℚ) (hk : ∀ i, 0 ≤ k i) (x y : ℕ → ℚ) (hxy : ∀ i, x i ≤ y i) (t : Shape) :
    flP 24 (t.eval (flP 53) x k) ≤ flP 24 (t.eval (flP 53) y k) :=
  flP_monotone 24 (by norm_num) (float_tree_monotone_ieee k hk x y hxy t)
end IeeeInstances

/-! ### order preservation reaches the SIMD back-end -/

/-- order preservation reaches the SIMD back-end: with non-negative coefficients, a pointwise smaller RGBA16 row gives a pointwise
    smaller-or-equal result through the lane-accurate model of the SSE4.1 horizontal kernels (`Fir.SimdU16x4.pixel`, equal to
    `passInt` by Fir.C02), provided the `i64` accumulator does not overflow (`Fir.C03.headroom_u16`) -/
theorem monotone_u16x4_sse4 (ks : List Int) (p : Nat) (r1 r2 : List Int) (start c : Nat) (hc : c < 4) (hp : p < 64)
    (hk0 : ∀ k ∈ ks, 0 ≤ k) (hk : ∀ k ∈ ks, -2147483648 ≤ k ∧ k ≤ 2147483647)
    (hb1 : ∀ i, 0 ≤ r1.getD i 0 ∧ r1.getD i 0 ≤ 65535) (hb2 : ∀ i, 0 ≤ r2.getD i 0 ∧ r2.getD i 0 ≤ 65535)
    (hle : ∀ i, r1.getD i 0 ≤ r2.getD i 0)
    (hx : -(2 ^ 63 : Int) ≤ 2 ^ (p - 1) + dotL ks ((List.range ks.length).map fun i => r1.getD (4 * (start + i) + c) 0) ∧
          2 ^ (p - 1) + dotL ks ((List.range ks.length).map fun i => r1.getD (4 * (start + i) + c) 0) < 2 ^ 63)
    (hy : -(2 ^ 63 : Int) ≤ 2 ^ (p - 1) + dotL ks ((List.range ks.length).map fun i => r2.getD (4 * (start + i) + c) 0) ∧
          2 ^ (p - 1) + dotL ks ((List.range ks.length).map fun i => r2.getD (4 * (start + i) + c) 0) < 2 ^ 63) :
    (Fir.SimdU16x4.pixel p r1 start ks).getD c 0 ≤ (Fir.SimdU16x4.pixel p r2 start ks).getD c 0 := by
  rw [Fir.Proofs.PassInt.u16x4 p r1 start ks c hc hk hb1, Fir.Proofs.PassInt.u16x4 p r2 start ks c hc hk hb2]
  apply Fir.Proofs.pass_monotone_u16 ks _ _ p hp hk0 (by simp) _ hx hy
  intro i hi
  simp only [List.length_map, List.length_range] at hi
  simp only [List.getD_eq_getElem?_getD, List.getElem?_map, List.getElem?_range hi, Option.map_some, Option.getD_some]
  simpa [List.getD_eq_getElem?_getD] using hle _

end Fir.C18
