/-
  C18 - Non-negative filters never overshoot and preserve the order of inputs.

  Theorems about `Fir.passInt` (the arithmetic of one destination component of an 8/16-bit pass):
  with non-negative integer coefficients the pass is monotone in every source sample, and - together
  with C10's `QuantOK` at the two range ends - its result stays inside the range of its inputs.
  That the coefficients of Box / Bilinear / Hamming / Gaussian windows are non-negative is checked
  on the implementation's own quantised coefficients for every generated geometry (sign of the f64
  kernel values is not a kernel-checked fact).  Float formats: see DESIGN (monotone under any
  monotone rounding); they are covered by the correspondence oracle with one ulp of slack.
-/
import Fir.Model.Resample
import Fir.Props.C10
import Fir.Proofs.FixedLemmas

namespace Fir.C18
open Fir

/-- pointwise order on rows of equal length -/
def RowLe (xs ys : List Int) : Prop := xs.length = ys.length ∧ ∀ i, i < xs.length → xs.getD i 0 ≤ ys.getD i 0

instance (xs ys : List Int) : Decidable (RowLe xs ys) := by
  unfold RowLe; infer_instance

/-- increasing any source samples never decreases the exact dot product when all coefficients are ≥ 0 -/
theorem dot_monotone (ks xs ys : List Int) (hk : ∀ k ∈ ks, 0 ≤ k) (h : RowLe xs ys) : dotL ks xs ≤ dotL ks ys :=
  Fir.Proofs.dotL_monotone ks xs ys hk h.1 h.2

/-- 8-bit pass: order preserving (the sums are assumed to fit the i32 accumulator, as they do whenever
    the window's coefficient sum is within the two head-room bits; see C03) -/
theorem pass_monotone_u8 (ks xs ys : List Int) (p : Nat) (hp : p < 32) (hk : ∀ k ∈ ks, 0 ≤ k) (h : RowLe xs ys)
    (hx : -(2 ^ 31 : Int) ≤ 2 ^ (p - 1) + dotL ks xs ∧ 2 ^ (p - 1) + dotL ks xs < 2 ^ 31)
    (hy : -(2 ^ 31 : Int) ≤ 2 ^ (p - 1) + dotL ks ys ∧ 2 ^ (p - 1) + dotL ks ys < 2 ^ 31) :
    passInt .u8 ks xs p ≤ passInt .u8 ks ys p :=
  Fir.Proofs.pass_monotone_u8 ks xs ys p hp hk h.1 h.2 hx hy

/-- 16-bit pass: order preserving -/
theorem pass_monotone_u16 (ks xs ys : List Int) (p : Nat) (hp : p < 64) (hk : ∀ k ∈ ks, 0 ≤ k) (h : RowLe xs ys)
    (hx : -(2 ^ 63 : Int) ≤ 2 ^ (p - 1) + dotL ks xs ∧ 2 ^ (p - 1) + dotL ks xs < 2 ^ 63)
    (hy : -(2 ^ 63 : Int) ≤ 2 ^ (p - 1) + dotL ks ys ∧ 2 ^ (p - 1) + dotL ks ys < 2 ^ 63) :
    passInt .u16 ks xs p ≤ passInt .u16 ks ys p :=
  Fir.Proofs.pass_monotone_u16 ks xs ys p hp hk h.1 h.2 hx hy

/-- range preservation (8 bit): if every sample of the window lies in `[lo, hi]`, coefficients are
    non-negative and the window reproduces the constants `lo` and `hi` (C10), the result lies in `[lo, hi]` -/
theorem range_from_uniform_u8 (ks xs : List Int) (p : Nat) (lo hi : Int) (hp1 : 1 ≤ p) (hp : p ≤ 22)
    (hk : ∀ k ∈ ks, 0 ≤ k) (hlen : xs.length = ks.length)
    (hlo0 : 0 ≤ lo) (hhi : hi ≤ 255) (hx : ∀ x ∈ xs, lo ≤ x ∧ x ≤ hi)
    (hqlo : C10.QuantOK ks p lo) (hqhi : C10.QuantOK ks p hi) :
    lo ≤ passInt .u8 ks xs p ∧ passInt .u8 ks xs p ≤ hi :=
  Fir.Proofs.range_from_uniform_u8 ks xs p lo hi hp1 hp hk hlen hlo0 hhi hx hqlo.1 hqlo.2 hqhi.1 hqhi.2

/-- zero-extended 8-bit samples are non-negative 16-bit lanes and a pair product of `madd_epi16`
    cannot overflow: |a·k + a'·k'| < 2^31 for 0 ≤ a, a' ≤ 255, |k|, |k'| ≤ 2^15 -/
theorem madd_epi16_exact (a a' k k' : Int) (ha : 0 ≤ a ∧ a ≤ 255) (ha' : 0 ≤ a' ∧ a' ≤ 255)
    (hk : -32768 ≤ k ∧ k ≤ 32767) (hk' : -32768 ≤ k' ∧ k' ≤ 32767) :
    -(2 ^ 31 : Int) < a * k + a' * k' ∧ a * k + a' * k' < 2 ^ 31 :=
  Fir.Proofs.madd_epi16_exact a a' k k' ha ha' hk hk'

/-! ### non-vacuity -/
example : passInt .u8 [8192, 8192] [10, 20] 14 ≤ passInt .u8 [8192, 8192] [10, 21] 14 := by decide
example : RowLe [1, 2] [1, 3] := by decide

end Fir.C18
