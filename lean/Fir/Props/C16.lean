/-
  C16 - Colour-space mappers are monotone, fix the end points and keep alpha.

  The 16 tables (sRGB and gamma 2.2; forward and backward; 8->8, 8->16, 16->8, 16->16) are *extracted
  from the running implementation* through the public API on every run (tools/extract_tables.py) and
  become Lean literals; each generated module carries its own complete-domain check
  (`tableOk … = true := by decide +kernel`).  Here those checks are lifted to ∀-statements.
  That every entry equals the documented transfer function is established by the correspondence
  check (the model recomputes all tables with Float32 `powf`); it is not a kernel-checked fact.
-/
import Fir.Generated.ColorTables
import Fir.Generated.Color
import Fir.Model.Color
import Fir.Proofs.ColorLemmas

namespace Fir.C16
open Fir Fir.Gen.Color Fir.Proofs

/-- all sixteen tables with their sizes -/
def allTables : List (String × Nat × Nat × List Nat) := [
  ("srgb_fwd_u8_u8", 256, 8, srgb_fwd_u8_u8), ("srgb_fwd_u8_u16", 256, 16, srgb_fwd_u8_u16),
  ("srgb_fwd_u16_u8", 65536, 8, srgb_fwd_u16_u8), ("srgb_fwd_u16_u16", 65536, 16, srgb_fwd_u16_u16),
  ("srgb_bwd_u8_u8", 256, 8, srgb_bwd_u8_u8), ("srgb_bwd_u8_u16", 256, 16, srgb_bwd_u8_u16),
  ("srgb_bwd_u16_u8", 65536, 8, srgb_bwd_u16_u8), ("srgb_bwd_u16_u16", 65536, 16, srgb_bwd_u16_u16),
  ("gamma22_fwd_u8_u8", 256, 8, gamma22_fwd_u8_u8), ("gamma22_fwd_u8_u16", 256, 16, gamma22_fwd_u8_u16),
  ("gamma22_fwd_u16_u8", 65536, 8, gamma22_fwd_u16_u8), ("gamma22_fwd_u16_u16", 65536, 16, gamma22_fwd_u16_u16),
  ("gamma22_bwd_u8_u8", 256, 8, gamma22_bwd_u8_u8), ("gamma22_bwd_u8_u16", 256, 16, gamma22_bwd_u8_u16),
  ("gamma22_bwd_u16_u8", 65536, 8, gamma22_bwd_u16_u8), ("gamma22_bwd_u16_u16", 65536, 16, gamma22_bwd_u16_u16)]

/-- every table passes its complete check -/
theorem all_tables_ok : ∀ t ∈ allTables, tableOk t.2.1 t.2.2.1 t.2.2.2 = true := by
  intro t ht
  simp only [allTables, List.mem_cons, List.not_mem_nil, or_false] at ht
  rcases ht with rfl | rfl | rfl | rfl | rfl | rfl | rfl | rfl | rfl | rfl | rfl | rfl | rfl | rfl | rfl | rfl
  · exact srgb_fwd_u8_u8_ok
  · exact srgb_fwd_u8_u16_ok
  · exact srgb_fwd_u16_u8_ok
  · exact srgb_fwd_u16_u16_ok
  · exact srgb_bwd_u8_u8_ok
  · exact srgb_bwd_u8_u16_ok
  · exact srgb_bwd_u16_u8_ok
  · exact srgb_bwd_u16_u16_ok
  · exact gamma22_fwd_u8_u8_ok
  · exact gamma22_fwd_u8_u16_ok
  · exact gamma22_fwd_u16_u8_ok
  · exact gamma22_fwd_u16_u16_ok
  · exact gamma22_bwd_u8_u8_ok
  · exact gamma22_bwd_u8_u16_ok
  · exact gamma22_bwd_u16_u8_ok
  · exact gamma22_bwd_u16_u16_ok

theorem table_sizes : ∀ t ∈ allTables, t.2.1 % 256 = 0 := by decide

/-- every mapping is monotone non-decreasing over its whole domain (all 256 / 65,536 inputs) -/
theorem tables_monotone (t : String × Nat × Nat × List Nat) (ht : t ∈ allTables) (i j : Nat) (hij : i ≤ j) (hj : j < t.2.1) :
    tableEntry t.2.2.1 t.2.2.2 i ≤ tableEntry t.2.2.1 t.2.2.2 j :=
  tableOk_mono t.2.1 t.2.2.1 t.2.2.2 (all_tables_ok t ht) (table_sizes t ht) i j hij hj

/-- every mapping sends 0 to 0 and the maximum to the maximum -/
theorem tables_endpoints (t : String × Nat × Nat × List Nat) (ht : t ∈ allTables) :
    tableEntry t.2.2.1 t.2.2.2 0 = 0 ∧ tableEntry t.2.2.1 t.2.2.2 (t.2.1 - 1) = 2 ^ t.2.2.1 - 1 :=
  tableOk_endpoints t.2.1 t.2.2.1 t.2.2.2 (all_tables_ok t ht)

/-- 8-bit sRGB -> 16-bit linear -> 8-bit sRGB reproduces every 8-bit value -/
theorem srgb_roundtrip_8_16_8 (v : Nat) (hv : v < 256) :
    tableEntry 8 srgb_bwd_u16_u8 (tableEntry 16 srgb_fwd_u8_u16 v) = v := by
  have h : (List.range 256).all (fun v => tableEntry 8 srgb_bwd_u16_u8 (tableEntry 16 srgb_fwd_u8_u16 v) == v) = true := by
    decide +kernel
  rw [List.all_eq_true] at h
  simpa using h v (List.mem_range.mpr hv)

/-- the source text of the transfer functions, of the table construction and of the alpha-gap logic
    is exactly what Fir.Model.Color mirrors -/
theorem color_sources_as_modelled : Fir.Gen.colorSources = colorSourcesModelled := by rfl

/-- alpha components are never passed through the table: in a row of `n`-component pixels (n = 2 or
    4) component `i` is depth-converted iff it is the last component of its pixel, for every row length -/
theorem gap_positions (n : Nat) (hn : n = 2 ∨ n = 4) (table : Array Nat) (sk dk : CKind) (comps : Array Int)
    (i : Nat) (hi : i < comps.size) :
    (mapComps n table sk dk comps)[i]'(by simp [mapComps, hi]) =
      if i % n = n - 1 then convComp sk dk comps[i] else (table.getD comps[i].toNat 0 : Int) := by
  have e : ((i + 1) % n = 0) ↔ (i % n = n - 1) := by
    rcases hn with rfl | rfl <;> omega
  simp only [mapComps, Array.getElem_ofFn, hn, true_and, e]
  rfl

/-- pixel types without alpha (1 or 3 components) are mapped component by component -/
theorem no_gap_without_alpha (n : Nat) (hn : n = 1 ∨ n = 3) (table : Array Nat) (sk dk : CKind) (comps : Array Int)
    (i : Nat) (hi : i < comps.size) :
    (mapComps n table sk dk comps)[i]'(by simp [mapComps, hi]) = (table.getD comps[i].toNat 0 : Int) := by
  have e : ¬ (n = 2 ∨ n = 4) := by omega
  simp [mapComps, e]

/-- accepted type pairs: the four rows of the dispatch, all depth combinations within a row -/
theorem mapper_rows : Fir.Gen.mapperRows = [("U8", "U16"), ("U8x2", "U16x2"), ("U8x3", "U16x3"), ("U8x4", "U16x4")] := by
  decide

/-! ### non-vacuity -/
example : tableEntry 16 srgb_fwd_u8_u16 255 = 65535 ∧ tableEntry 16 srgb_fwd_u8_u16 128 = 14146 := by decide +kernel
example : ("srgb_bwd_u16_u8", 65536, 8, srgb_bwd_u16_u8) ∈ allTables := by simp [allTables]

end Fir.C16
