/-
  C13 - The result does not depend on the container or memory layout of the images.

  In the model an operation sees its images only through `extractImg` (reading through the row index
  lists of the view) and `injectImg` (writing through them).  Reading back what was written through a
  view returns the logical image, whatever the stride / offset / nesting, and the logical source seen
  through a view depends only on the buffer components at the view's indices - so two layouts of the
  same logical images give the same logical result.  The dynamic entry points dispatch on the
  pixel-type tag to the typed ones over the same bytes (translated dispatch lists, C06/C17/C16).
  Not proved: that SIMD loads past a row end never influence a result lane (poisoned parents in the
  correspondence check).
-/
import Fir.Model.Resizer
import Fir.Model.ProtoResize
import Fir.Proofs.ViewLemmas
import Fir.Proofs.LayoutLemmas

namespace Fir.C13
open Fir

/-- the logical image has the view's dimensions -/
theorem extract_dims (v : View) (n : Nat) (buf : Array Int) :
    (extractImg v n buf).w = v.width ∧ (extractImg v n buf).h = v.height ∧ (extractImg v n buf).n = n :=
  Fir.Proofs.extract_dims v n buf

/-- reading through a view looks only at the components of the pixels the view exposes: two buffers
    that agree there give the same logical image, whatever else they contain (strides, margins, poison) -/
theorem extract_depends_on_view_only (v : View) (n : Nat) (buf buf' : Array Int)
    (h : ∀ q ∈ (v.rows 0).flatten, ∀ c, c < n → buf.getD (q * n + c) 0 = buf'.getD (q * n + c) 0) :
    extractImg v n buf = extractImg v n buf' :=
  Fir.Proofs.extract_depends_on_view_only v n buf buf' h

/-- write then read through the same (well-formed) view returns the logical image: the layout is invisible -/
theorem extract_inject (v : View) (hwf : v.wf = true) (n : Nat) (hn : 0 < n) (im : Img) (buf : Array Int)
    (hdim : im.data.size = ((v.rows 0).flatten).length * n)
    (hfit : ∀ q ∈ (v.rows 0).flatten, (q + 1) * n ≤ buf.size) :
    (extractImg v n (injectImg v n im buf)).data = im.data :=
  Fir.Proofs.extract_inject v hwf n hn im buf hdim hfit

/-- the whole operation of the model, through any two source layouts and any two destination layouts of
    the same logical images: the logical results are equal -/
theorem op_layout_independent (p : PixT) (o : ROpts) (sv sv' dv dv' : View) (n : Nat) (sbuf sbuf' dbuf dbuf' : Array Int)
    (hs : extractImg sv n sbuf = extractImg sv' n sbuf') (hd : extractImg dv n dbuf = extractImg dv' n dbuf') :
    resizeModel p (extractImg sv n sbuf) (extractImg dv n dbuf) o = resizeModel p (extractImg sv' n sbuf') (extractImg dv' n dbuf') o := by
  rw [hs, hd]

end Fir.C13
