/-
  C06 - Alpha multiply is exactly rounded and alpha divide is faithful and saturating.

  Property theorems only.  All statements are about `Fir.Gen.*`, the definitions re-translated
  from src/alpha/common.rs on every run, and about `Fir.mulPixels`/`Fir.divPixels`, the per-image
  model that the correspondence check compares with the real kernels.
-/
import Fir.Generated.Alpha
import Fir.Generated.Lists
import Fir.Model.Alpha
import Fir.Spec.Alpha
import Fir.Proofs.DivG

namespace Fir.C06
open Fir.Gen Fir.Spec

/-! ### multiply: exactly rounded, never overflows -/

/-- ∀ 8-bit colour, alpha: `mul_div_255` is round-half-up of `c·a/255` and no intermediate overflows. -/
theorem mul_div_255_exact (c a : Nat) (hc : c < 256) (ha : a < 256) :
    mul_div_255 c a = mulExact 255 c a ∧ mul_div_255_ok c a := by
  have h : c * a ≤ 255 * 255 := Nat.mul_le_mul (by omega) (by omega)
  unfold mul_div_255 mul_div_255_ok mulExact
  -- whichever order the source multiplies in: one name for the product, then pure linear arithmetic
  have ecomm : a * c = c * a := Nat.mul_comm a c
  try simp only [ecomm]
  generalize c * a = t at *
  try simp (disch := omega) only [Nat.mod_eq_of_lt]
  constructor <;> omega

/-- ∀ 16-bit colour, alpha: `mul_div_65535` is round-half-up of `c·a/65535` and no intermediate overflows. -/
theorem mul_div_65535_exact (c a : Nat) (hc : c < 65536) (ha : a < 65536) :
    mul_div_65535 c a = mulExact 65535 c a ∧ mul_div_65535_ok c a := by
  have h : c * a ≤ 65535 * 65535 := Nat.mul_le_mul (by omega) (by omega)
  unfold mul_div_65535 mul_div_65535_ok mulExact
  -- whichever order the source multiplies in: one name for the product, then pure linear arithmetic
  have ecomm : a * c = c * a := Nat.mul_comm a c
  try simp only [ecomm]
  generalize c * a = t at *
  try simp (disch := omega) only [Nat.mod_eq_of_lt]
  constructor <;> omega

/-! ### reciprocal tables -/

/-- every entry of RECIP_ALPHA is `round(255·2^8 / a)`, entry 0 is 0 -/
theorem recip_alpha_is_round (a : Nat) (ha : a < 256) :
    recip_alpha_ok a ∧ recip_alpha a = if a = 0 then 0 else (2 * (255 * 256) + a) / (2 * a) := by
  have h : ∀ a : Fin 256, recip_alpha_ok a.val ∧
      recip_alpha a.val = if a.val = 0 then 0 else (2 * (255 * 256) + a.val) / (2 * a.val) := by
    decide +kernel
  exact h ⟨a, ha⟩

/-- every entry of RECIP_ALPHA16 is `round(65535·2^33 / a)`, entry 0 is 0 -/
theorem recip_alpha16_is_round (a : Nat) (ha : a < 65536) :
    recip_alpha16_ok a ∧ recip_alpha16 a = if a = 0 then 0 else (2 * (65535 * 2 ^ 33) + a) / (2 * a) := by
  unfold recip_alpha16_ok recip_alpha16
  constructor
  · intro h
    have : 1125882726973440 / a ≤ 1125882726973440 := Nat.div_le_self _ _
    omega
  · by_cases h0 : a = 0
    · simp [h0]
    · have hpos : 0 < a := Nat.pos_of_ne_zero h0
      have hle : 1125882726973440 / a ≤ 1125882726973440 := Nat.div_le_self _ _
      simp only [h0, if_false, show (1 ≤ a ∧ a < 65536) from ⟨hpos, ha⟩, and_self, if_true]
      rw [Nat.mod_eq_of_lt (by omega)]
      have e : (2 * (65535 * 2 ^ 33) + a) / (2 * a) = ((1125882726973440 + a) / a) / 2 := by
        rw [Nat.div_div_eq_div_mul, Nat.mul_comm a 2]
        norm_num
      rw [e, Nat.add_div_right _ hpos]

/-! ### divide: faithful, saturating, zero for alpha = 0, never overflows -/

def div8Check (a c : Nat) : Bool :=
  decide (div_and_clip_ok c (recip_alpha a)) && decide (divFaithful 255 c a (div_and_clip c (recip_alpha a)))

theorem div8_all : (List.range 256).all (fun a => (List.range 256).all (fun c => div8Check a c)) = true := by
  decide +kernel

/-- ∀ 65,536 (colour, alpha) pairs: the 8-bit divide returns `⌊255c/a⌋` or `⌈255c/a⌉` capped at 255,
    0 for alpha 0, and its arithmetic does not overflow -/
theorem div8_faithful (c a : Nat) (hc : c < 256) (ha : a < 256) :
    div_and_clip_ok c (recip_alpha a) ∧ divFaithful 255 c a (div_and_clip c (recip_alpha a)) := by
  have h := div8_all
  rw [List.all_eq_true] at h
  have h2 := h a (List.mem_range.mpr ha)
  rw [List.all_eq_true] at h2
  have h3 := h2 c (List.mem_range.mpr hc)
  simpa [div8Check] using h3

/-- saturation of the 64-bit intermediate never changes the clipped result -/
theorem sat_transparent (t : Nat) :
    min ((min 18446744073709551615 ((min 18446744073709551615 t) + 4294967296)) / 8589934592) 65535
      = min ((t + 4294967296) / 8589934592) 65535 := by
  omega

/-- ∀ 2^32 (colour, alpha) pairs: the 16-bit divide returns `⌊65535c/a⌋` or `⌈65535c/a⌉` capped at
    65535, and 0 for alpha 0 -/
theorem div16_faithful (c a : Nat) (hc : c < 65536) (ha : a < 65536) :
    divFaithful 65535 c a (div_and_clip16 c (recip_alpha16 a)) := by
  unfold divFaithful
  by_cases h0 : a = 0
  · simp [h0, recip_alpha16, div_and_clip16]
  · have hpos : 0 < a := Nat.pos_of_ne_zero h0
    simp only [h0, if_false]
    have hR : recip_alpha16 a = (2 * 65535 * 8589934592 / a + 1) / 2 := by
      unfold recip_alpha16
      have hle : 1125882726973440 / a ≤ 1125882726973440 := Nat.div_le_self _ _
      simp only [show (1 ≤ a ∧ a < 65536) from ⟨hpos, ha⟩, and_self, if_true]
      rw [Nat.mod_eq_of_lt (by omega)]
    have hb := Fir.Proofs.divG_between 65535 c a 8589934592 4294967296 hpos (by norm_num) (by norm_num) (by omega)
    simp only at hb
    rw [← hR] at hb
    unfold div_and_clip16
    rw [sat_transparent]
    generalize (c * recip_alpha16 a + 4294967296) / 8589934592 = r at hb ⊢
    obtain ⟨h1, h2⟩ := hb
    have h3 : (c * 65535 + a - 1) / a ≤ c * 65535 / a + 1 := by
      have : c * 65535 + a - 1 < (c * 65535 / a + 1 + 1) * a := by
        have h := Nat.lt_mul_div_succ (c * 65535) hpos
        have e : (c * 65535 / a + 1 + 1) * a = a * (c * 65535 / a + 1) + a := by ring
        omega
      have := (Nat.div_lt_iff_lt_mul hpos).mpr this
      omega
    have hm : min r 65535 % 65536 = min r 65535 := Nat.mod_eq_of_lt (by omega)
    rw [hm]
    omega

/-- the 16-bit divide never overflows, divides by zero or over-shifts (false before the repair of
    `div_and_clip16`: `c·RECIP_ALPHA16[1]` needs 65 bits for `c ≥ 32769`) -/
theorem div16_no_overflow (c a : Nat) (_hc : c < 65536) (ha : a < 65536) :
    div_and_clip16_ok c (recip_alpha16 a) ∧ recip_alpha16_ok a := by
  refine ⟨by unfold div_and_clip16_ok; omega, (recip_alpha16_is_round a ha).1⟩

/-! ### which pixel types are accepted -/

/-- exactly the six alpha pixel types are dispatched to an implementation by each of the four entry
    points; every other type has the rejecting default `AlphaMulDiv` impl -/
theorem unsupported_rejected :
    alphaSupported = ["U8x2", "U8x4", "U16x2", "U16x4", "F32x2", "F32x4"] ∧
    dispatch_multiply_alpha = alphaSupported ∧ dispatch_multiply_alpha_inplace = alphaSupported ∧
    dispatch_divide_alpha = alphaSupported ∧ dispatch_divide_alpha_inplace = alphaSupported ∧
    alphaRejecting = ["U8", "U8x3", "U16", "U16x3", "I32", "F32", "F32x3"] := by
  decide

/-! ### image level (the model the correspondence check runs against the real kernels) -/

/-- every alpha operation of the model leaves the alpha component of every pixel unchanged -/
theorem alpha_unchanged (n : Nat) (f : Int → Int → Int) (px : Array Int) (i : Nat) (hi : i < px.size)
    (hlast : i % n = n - 1) :
    (mapAlphaPixels n f px)[i]'(by simp [mapAlphaPixels, hi]) = px[i] := by
  simp [mapAlphaPixels, hlast]

/-- model multiply on 8-bit images is the exactly rounded product, component by component -/
theorem mulPixels_u8_exact (n : Nat) (px : Array Int) (i : Nat) (hi : i < px.size) (hcol : i % n ≠ n - 1)
    (hc : 0 ≤ px[i] ∧ px[i] < 256)
    (ha : 0 ≤ px[i - i % n + (n - 1)]! ∧ px[i - i % n + (n - 1)]! < 256) :
    (mulPixels ⟨.u8, n⟩ px)[i]'(by simp [mulPixels, mapAlphaPixels, hi])
      = (mulExact 255 px[i].toNat (px[i - i % n + (n - 1)]!).toNat : Int) := by
  have := (mul_div_255_exact px[i].toNat (px[i - i % n + (n - 1)]!).toNat (by omega) (by omega)).1
  simp [mulPixels, mapAlphaPixels, hcol, mulComp, this]

/-- model divide on 16-bit images is faithful, component by component -/
theorem divPixels_u16_faithful (n : Nat) (px : Array Int) (i : Nat) (hi : i < px.size) (hcol : i % n ≠ n - 1)
    (hc : 0 ≤ px[i] ∧ px[i] < 65536)
    (ha : 0 ≤ px[i - i % n + (n - 1)]! ∧ px[i - i % n + (n - 1)]! < 65536) :
    ∃ r : Nat, (divPixels ⟨.u16, n⟩ px)[i]'(by simp [divPixels, mapAlphaPixels, hi]) = (r : Int) ∧
      divFaithful 65535 px[i].toNat (px[i - i % n + (n - 1)]!).toNat r := by
  refine ⟨_, ?_, div16_faithful px[i].toNat (px[i - i % n + (n - 1)]!).toNat (by omega) (by omega)⟩
  simp [divPixels, mapAlphaPixels, hcol, divComp]

/-! ### non-vacuity: the hypotheses are met by concrete, non-trivial inputs -/

example : mul_div_255 200 128 = 100 ∧ mulExact 255 200 128 = 100 := by decide
example : div_and_clip16 300 (recip_alpha16 200) = 65535 := by decide
example : div_and_clip16 40000 (recip_alpha16 1) = 65535 := by decide
example : divFaithful 65535 1234 4321 (div_and_clip16 1234 (recip_alpha16 4321)) := by decide

end Fir.C06
