/-
  C07 - Alpha-aware resizing ignores the colour of fully transparent pixels.

  Scope: calls that reach a convolution.  C12 demands a bit-exact copy whenever the destination size
  equals an integer-aligned crop (for every alpha setting), and a copy necessarily keeps colours stored
  under alpha = 0; on such calls the two properties cannot both be read literally, C12 is the explicit
  one, so the theorems below are about `resampleConvolution` (what the call does once the copy path is
  not taken).
-/
import Fir.Model.Resizer
import Fir.Generated.Alpha
import Fir.Props.C06
import Fir.Proofs.AlphaLemmas
import Fir.Proofs.AlphaImageLemmas

namespace Fir.C07
open Fir Fir.Gen

/-- multiplying by alpha 0 gives 0, at both depths (translated code) -/
theorem mul_div_255_zero (c : Nat) (hc : c < 256) : mul_div_255 c 0 = 0 := by
  have := (Fir.C06.mul_div_255_exact c 0 hc (by omega)).1
  simpa [Fir.Spec.mulExact] using this

theorem mul_div_65535_zero (c : Nat) (hc : c < 65536) : mul_div_65535 c 0 = 0 := by
  have := (Fir.C06.mul_div_65535_exact c 0 hc (by omega)).1
  simpa [Fir.Spec.mulExact] using this

/-- dividing by alpha 0 gives colour 0, at both depths -/
theorem zero_alpha_zero_colour (c : Nat) :
    div_and_clip c (recip_alpha 0) = 0 ∧ div_and_clip16 c (recip_alpha16 0) = 0 := by
  constructor
  · simp [div_and_clip, recip_alpha]
  · simp [div_and_clip16, recip_alpha16]

/-- two sources that differ only in the colours stored under alpha = 0 have the same premultiplied image
    (8 / 16 bit; `n` components, alpha last) -/
theorem premul_congr (p : PixT) (hk : p.kind = .u8 ∨ p.kind = .u16) (hn : 0 < p.n) (px px' : Array Int)
    (hsz : px.size = px'.size)
    (hrange : ∀ i, i < px.size → 0 ≤ px[i]! ∧ px[i]! ≤ p.kind.maxVal ∧ 0 ≤ px'[i]! ∧ px'[i]! ≤ p.kind.maxVal)
    (halpha : ∀ i, i < px.size → i % p.n = p.n - 1 → px[i]! = px'[i]!)
    (hcol : ∀ i, i < px.size → i % p.n ≠ p.n - 1 → px[i - i % p.n + (p.n - 1)]! ≠ 0 → px[i]! = px'[i]!) :
    mulPixels p px = mulPixels p px' :=
  Fir.Proofs.premul_congr p hk hn px px' hsz hrange halpha hcol

/-- hence the alpha-aware convolution gives identical results for the two sources: every geometry,
    filter, kernel-size mode and previous destination content -/
theorem resize_alpha_congr (p : PixT) (src src' prev : Img) (cl ct cw ch : Float) (f : FilterSpec) (adaptive : Bool)
    (hsup : Gen.alphaSupported.contains p.name = true)
    (hw : src'.w = src.w) (hh : src'.h = src.h) (hn : src'.n = src.n)
    (hmul : mulPixels p src.data = mulPixels p src'.data) :
    resampleConvolution p src cl ct cw ch prev f adaptive true = resampleConvolution p src' cl ct cw ch prev f adaptive true :=
  Fir.Proofs.resize_alpha_congr p src src' prev cl ct cw ch f adaptive hsup hw hh hn hmul

/-- the alpha path is taken exactly for the six alpha pixel types (translated list) -/
theorem alpha_gate : Gen.alphaSupported = ["U8x2", "U8x4", "U16x2", "U16x4", "F32x2", "F32x4"] := by decide

/-- multiply and divide leave the alpha component itself unchanged (C06.alpha_unchanged), so the alpha
    channel of the result is the plain resampling of the alpha channel -/
theorem alpha_channel_untouched_by_muldiv (n : Nat) (f : Int → Int → Int) (px : Array Int) (i : Nat) (hi : i < px.size)
    (hlast : i % n = n - 1) : (mapAlphaPixels n f px)[i]'(by simp [mapAlphaPixels, hi]) = px[i] :=
  Fir.C06.alpha_unchanged n f px i hi hlast

/-- fully opaque 8-bit source: premultiplication is the identity ... -/
theorem opaque_premul_id (c : Nat) (hc : c < 256) : mul_div_255 c 255 = c := by
  have h : ∀ c : Fin 256, mul_div_255 c.val 255 = c.val := by decide +kernel
  exact h ⟨c, hc⟩

/-- ... and so is division by the maximal alpha -/
theorem opaque_div_id (c : Nat) (hc : c < 256) : div_and_clip c (recip_alpha 255) = c := by
  have h : ∀ c : Fin 256, div_and_clip c.val (recip_alpha 255) = c.val := by decide +kernel
  exact h ⟨c, hc⟩

theorem opaque_premul_id16 (c : Nat) (hc : c < 65536) : mul_div_65535 c 65535 = c := by
  have h := (Fir.C06.mul_div_65535_exact c 65535 hc (by omega)).1
  rw [h]; unfold Fir.Spec.mulExact; omega

theorem opaque_div_id16 (c : Nat) (hc : c < 65536) : div_and_clip16 c (recip_alpha16 65535) = c := by
  have h := Fir.C06.div16_faithful c 65535 hc (by omega)
  unfold Fir.Spec.divFaithful at h
  simp only [show (65535 : Nat) ≠ 0 by omega, if_false] at h
  have e1 : c * 65535 / 65535 = c := by omega
  have e2 : (c * 65535 + 65535 - 1) / 65535 = c := by omega
  rw [e1, e2] at h
  omega

/-! ### whole images of the executable model -/

/-- dividing: every colour component of a pixel whose alpha is 0 becomes 0 (8 / 16 bit) -/
theorem divPixels_zero_alpha (p : PixT) (hk : p.kind = .u8 ∨ p.kind = .u16) (hn : 2 ≤ p.n) (px : Array Int)
    (q c : Nat) (hq : q * p.n + (p.n - 1) < px.size) (hc : c < p.n - 1)
    (ha : px[q * p.n + (p.n - 1)]! = 0) :
    (divPixels p px)[q * p.n + c]! = 0 :=
  Fir.Proofs.divPixels_zero_alpha p hk hn px q c hq hc ha

/-- C07, second clause, on the model's alpha-aware convolution: a destination pixel whose resampled alpha
    is zero has zero colour (alpha is the last of the `p.n` components; `q` is a pixel index) -/
theorem resampleConvolution_zero_alpha_zero_colour (p : PixT) (hk : p.kind = .u8 ∨ p.kind = .u16) (hn : 2 ≤ p.n)
    (hsup : Gen.alphaSupported.contains p.name = true)
    (src prev : Img) (cl ct cw ch : Float) (f : FilterSpec) (adaptive : Bool) (q c : Nat) (hc : c < p.n - 1)
    (hq : q * p.n + (p.n - 1) < (resampleConvolution p src cl ct cw ch prev f adaptive true).data.size)
    (ha : (resampleConvolution p src cl ct cw ch prev f adaptive true).data[q * p.n + (p.n - 1)]! = 0) :
    (resampleConvolution p src cl ct cw ch prev f adaptive true).data[q * p.n + c]! = 0 :=
  Fir.Proofs.resampleConvolution_zero_alpha_zero_colour p hk hn hsup src prev cl ct cw ch f adaptive q c hc hq ha

/-- premultiplying a fully opaque image changes nothing (8 / 16 bit, components in range) -/
theorem mulPixels_opaque (p : PixT) (hk : p.kind = .u8 ∨ p.kind = .u16) (hn : 1 ≤ p.n) (px : Array Int)
    (hrange : ∀ i, i < px.size → 0 ≤ px[i]! ∧ px[i]! ≤ p.kind.maxVal)
    (hopaque : ∀ i, i < px.size → i % p.n = p.n - 1 → px[i]! = p.kind.maxVal)
    (hwhole : px.size % p.n = 0) :
    mulPixels p px = px :=
  Fir.Proofs.mulPixels_opaque p hk hn px hrange hopaque hwhole

/-- dividing a fully opaque image changes nothing -/
theorem divPixels_opaque (p : PixT) (hk : p.kind = .u8 ∨ p.kind = .u16) (hn : 1 ≤ p.n) (px : Array Int)
    (hrange : ∀ i, i < px.size → 0 ≤ px[i]! ∧ px[i]! ≤ p.kind.maxVal)
    (hopaque : ∀ i, i < px.size → i % p.n = p.n - 1 → px[i]! = p.kind.maxVal)
    (hwhole : px.size % p.n = 0) :
    divPixels p px = px :=
  Fir.Proofs.divPixels_opaque p hk hn px hrange hopaque hwhole

/-- C07, third clause: for a fully opaque source whose convolved alpha channel is again fully opaque (C10:
    a constant channel stays constant) and whose convolved components are in range, alpha handling is a no-op -/
theorem resampleConvolution_opaque_noop (p : PixT) (hk : p.kind = .u8 ∨ p.kind = .u16) (hn : 1 ≤ p.n)
    (src prev : Img) (cl ct cw ch : Float) (f : FilterSpec) (adaptive : Bool)
    (hsrc_range : ∀ i, i < src.data.size → 0 ≤ src.data[i]! ∧ src.data[i]! ≤ p.kind.maxVal)
    (hsrc_opaque : ∀ i, i < src.data.size → i % p.n = p.n - 1 → src.data[i]! = p.kind.maxVal)
    (hsrc_whole : src.data.size % p.n = 0)
    (hres_range : ∀ i, i < (doConvolution p src cl ct cw ch prev f adaptive).data.size →
        0 ≤ (doConvolution p src cl ct cw ch prev f adaptive).data[i]! ∧ (doConvolution p src cl ct cw ch prev f adaptive).data[i]! ≤ p.kind.maxVal)
    (hres_opaque : ∀ i, i < (doConvolution p src cl ct cw ch prev f adaptive).data.size → i % p.n = p.n - 1 →
        (doConvolution p src cl ct cw ch prev f adaptive).data[i]! = p.kind.maxVal)
    (hres_whole : (doConvolution p src cl ct cw ch prev f adaptive).data.size % p.n = 0) :
    resampleConvolution p src cl ct cw ch prev f adaptive true = resampleConvolution p src cl ct cw ch prev f adaptive false :=
  Fir.Proofs.resampleConvolution_opaque_noop p hk hn src prev cl ct cw ch f adaptive hsrc_range hsrc_opaque hsrc_whole hres_range hres_opaque hres_whole


end Fir.C07
