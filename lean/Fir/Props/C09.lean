/-
  C09 - A reused Resizer behaves exactly like a fresh one.

  State machine `Fir.rstep` / `Fir.rrun` (Fir/Model/ResizerState.lean): scratch buffers grow, are never
  cleared, hold arbitrary garbage, may be dropped (`reset`) or copied (`clone`).  The outcome of every
  resize in any history equals the outcome of the same call on a fresh resizer.  What makes this true in
  the code - every temporary image is fully written before it is read, buffers are put back on every
  path, alignment offsets < pixel size are absorbed by the extra pixel of slack - is C05's
  overwrite theorems plus `temp_buffer_slice_ok`; the tie to the real buffers is the op-sequence
  correspondence (every output compared with a fresh Resizer).
-/
import Fir.Model.ResizerState
import Fir.Proofs.StructLemmas
import Fir.Model.ProtoResize
import Fir.Proofs.LayoutLemmas
import Fir.Proofs.ViewLemmas

namespace Fir.C09
open Fir

/-- the outcome of one operation does not depend on the state it is executed in -/
theorem resize_state_independent (s s' : RState) (op : ROp) : (rstep s op).2 = (rstep s' op).2 :=
  Fir.Proofs.rstep_outcome_state_independent s s' op

/-- any history - resizes of any type/size/algorithm, erroring calls, reset, clone, in any order: the
    k-th outcome equals the outcome of the same operation on a fresh resizer -/
theorem history_independent (s : RState) (ops : List ROp) (k : Nat) (hk : k < ops.length) :
    (rrun s ops).getD k none = (rstep (RState.init s.ext) (ops.getD k .reset)).2 :=
  Fir.Proofs.history_independent s ops k hk

/-- scratch buffers never shrink between resets (so an image carved out of one always fits) -/
theorem buffers_grow (s : RState) (p : PixT) (src prev : Img) (o : ROpts) (need : Nat × Nat × Nat) (g : List Int) :
    let s' := (rstep s (.resize p src prev o need g)).1
    s.alphaLen ≤ s'.alphaLen ∧ s.convLen ≤ s'.convLen ∧ s.ssLen ≤ s'.ssLen ∧
    need.1 ≤ s'.alphaLen ∧ need.2.1 ≤ s'.convLen ∧ need.2.2 ≤ s'.ssLen :=
  Fir.Proofs.buffers_grow s p src prev o need g

/-- scratch content never leaks: a temporary image is a typed view `T(off, w, h, w*h)` carved out of a
    scratch buffer that holds ARBITRARY content `g` from earlier calls; the first pass writes its whole
    result through that view and the second pass reads through the same view - what it reads is exactly
    the first pass's result, for every `g` (so for every history of the resizer) -/
theorem scratch_fully_overwritten (off w h n : Nat) (hn : 0 < n) (im : Img) (g : Array Int)
    (hdim : im.data.size = w * h * n) (hw : 0 < w)
    (hfit : (off + w * h) * n ≤ g.size) :
    (extractImg (View.typed off w h (w * h)) n (injectImg (View.typed off w h (w * h)) n im g)).data = im.data :=
  Fir.Proofs.scratch_fully_overwritten off w h n hn im g hdim hw hfit

/-- `get_temp_image_from_buffer`: a buffer of `count·size + size` bytes holds `count` pixels after
    skipping any alignment offset smaller than the pixel size -/
theorem temp_buffer_slice_ok (count size off : Nat) (hs : 0 < size) (hoff : off < size) :
    count ≤ (count * size + size - off) / size :=
  Fir.Proofs.temp_buffer_slice_ok count size off hs hoff

end Fir.C09
