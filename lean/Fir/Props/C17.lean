/-
  C17 - Depth conversion is monotone, keeps end points, saturates, and is lossless when widening.

  Integer pairs: theorems about `Fir.Gen.conv_*`, re-translated from src/pixels.rs on every run.
  Float pairs: theorems about the exact soft-float model `Fir.Soft` (complete u8 / u16 domains by
  kernel evaluation) and, for arbitrary float inputs, about the shape clamp -> scale -> round ->
  saturating cast under any monotone rounding function.  `float_sources_as_modelled` pins the Rust
  source text of the float conversions to the text the model was written against.
-/
import Fir.Generated.Pixels
import Fir.Generated.Convert
import Fir.Model.Convert
import Fir.Proofs.RT16
import Mathlib.Algebra.Order.Floor.Ring
import Mathlib.Data.Rat.Floor
import Mathlib.Order.Monotone.Basic
import Mathlib.Tactic.Linarith
import Fir.Proofs.IeeeLemmas
import Fir.Proofs.SoftIeeeLemmas

namespace Fir.C17
open Fir.Gen

/-! ### u8 <-> u16 -/

theorem u8_u16_is_bit_replication (x : Nat) (hx : x < 256) : conv_u8_u16 x = 257 * x ∧ conv_u8_u16_ok x := by
  have h : ∀ x : Fin 256, conv_u8_u16 x.val = 257 * x.val ∧ conv_u8_u16_ok x.val := by decide +kernel
  exact h ⟨x, hx⟩

theorem u8_u16_monotone (x y : Nat) (hx : x < 256) (hy : y < 256) (h : x ≤ y) : conv_u8_u16 x ≤ conv_u8_u16 y := by
  rw [(u8_u16_is_bit_replication x hx).1, (u8_u16_is_bit_replication y hy).1]; omega

theorem u8_u16_endpoints : conv_u8_u16 0 = 0 ∧ conv_u8_u16 255 = 65535 := by decide

theorem u16_u8_monotone (x y : Nat) (_hx : x < 65536) (hy : y < 65536) (h : x ≤ y) : conv_u16_u8 x ≤ conv_u16_u8 y := by
  unfold conv_u16_u8; omega

theorem u16_u8_endpoints : conv_u16_u8 0 = 0 ∧ conv_u16_u8 65535 = 255 := by decide

theorem u8_u16_u8_roundtrip (x : Nat) (hx : x < 256) : conv_u16_u8 (conv_u8_u16 x) = x := by
  have h : ∀ x : Fin 256, conv_u16_u8 (conv_u8_u16 x.val) = x.val := by decide +kernel
  exact h ⟨x, hx⟩

/-! ### u8 / u16 <-> i32 -/

theorem wrapInt_id (x : Int) (h1 : -2147483648 ≤ x) (h2 : x < 2147483648) : wrapInt 32 x = x := by
  unfold wrapInt
  have e : ((2 : Int) ^ 32) = 4294967296 := by norm_num
  simp only [e]
  split <;> omega

theorem u8_i32_value (x : Nat) (hx : x < 256) : conv_u8_i32 x = (x : Int) * 8388608 := by
  unfold conv_u8_i32; exact wrapInt_id _ (by omega) (by omega)

theorem u16_i32_value (x : Nat) (hx : x < 65536) : conv_u16_i32 x = (x : Int) * 32768 := by
  unfold conv_u16_i32; exact wrapInt_id _ (by omega) (by omega)

theorem u8_i32_monotone (x y : Nat) (hx : x < 256) (hy : y < 256) (h : x ≤ y) : conv_u8_i32 x ≤ conv_u8_i32 y := by
  rw [u8_i32_value x hx, u8_i32_value y hy]; omega

theorem u16_i32_monotone (x y : Nat) (hx : x < 65536) (hy : y < 65536) (h : x ≤ y) : conv_u16_i32 x ≤ conv_u16_i32 y := by
  rw [u16_i32_value x hx, u16_i32_value y hy]; omega

theorem u8_i32_min : conv_u8_i32 0 = 0 := by decide
theorem u16_i32_min : conv_u16_i32 0 = 0 := by decide

/-- KNOWN FINDING F13a: the end-point clause is *false* for u8 -> i32: 255 does not reach i32::MAX -/
theorem u8_i32_max_not_reached : conv_u8_i32 255 = 2139095040 ∧ conv_u8_i32 255 ≠ 2147483647 := by decide

/-- KNOWN FINDING F13b: the end-point clause is *false* for u16 -> i32: 65535 does not reach i32::MAX -/
theorem u16_i32_max_not_reached : conv_u16_i32 65535 = 2147450880 ∧ conv_u16_i32 65535 ≠ 2147483647 := by decide

theorem i32_u8_monotone (x y : Int) (h : x ≤ y) : conv_i32_u8 x ≤ conv_i32_u8 y := by
  unfold conv_i32_u8; omega

theorem i32_u16_monotone (x y : Int) (h : x ≤ y) : conv_i32_u16 x ≤ conv_i32_u16 y := by
  unfold conv_i32_u16; omega

/-- every non-positive i32 (in particular i32::MIN) maps to 0 and i32::MAX maps to the maximum:
    out-of-range input saturates, the shift/add cannot wrap -/
theorem i32_u8_endpoints (x : Int) (hx : x ≤ 0) : conv_i32_u8 x = 0 ∧ conv_i32_u8 2147483647 = 255 := by
  unfold conv_i32_u8; omega

theorem i32_u16_endpoints (x : Int) (hx : x ≤ 0) : conv_i32_u16 x = 0 ∧ conv_i32_u16 2147483647 = 65535 := by
  unfold conv_i32_u16; omega

theorem u8_i32_u8_roundtrip (x : Nat) (hx : x < 256) : conv_i32_u8 (conv_u8_i32 x) = x := by
  rw [u8_i32_value x hx]; unfold conv_i32_u8; omega

theorem u16_i32_u16_roundtrip (x : Nat) (hx : x < 65536) : conv_i32_u16 (conv_u16_i32 x) = x := by
  rw [u16_i32_value x hx]; unfold conv_i32_u16; omega

/-! ### u8 / u16 <-> f32 on the exact soft-float model (complete domains) -/

open Fir.Soft Fir.Proofs.RT16

def u8Ok (x : Nat) : Bool :=
  let f := unsignedToF32 255 x
  f32ToUnsigned 255 f == x && dyLe f (unsignedToF32 255 (x + 1)) &&
  (x == 0 || (decide (8388608 ≤ f.1) && decide (f.1 < 16777216) && ofBits (toBits f) == f))

theorem u8Ok_all : (List.range 256).all u8Ok = true := by decide +kernel

/-- u8 -> f32 -> u8 is the identity for all 256 values -/
theorem f32_roundtrip_u8 (x : Nat) (hx : x < 256) : f32ToUnsigned 255 (unsignedToF32 255 x) = x := by
  have h := u8Ok_all
  rw [List.all_eq_true] at h
  have := h x (List.mem_range.mpr hx)
  simp only [u8Ok, Bool.and_eq_true, beq_iff_eq] at this
  exact this.1.1

/-- u16 -> f32 -> u16 is the identity for all 65,536 values -/
theorem f32_roundtrip_u16 (x : Nat) (hx : x < 65536) : f32ToUnsigned 65535 (unsignedToF32 65535 x) = x := by
  have := u16Ok_all x hx
  simp only [u16Ok, Bool.and_eq_true, beq_iff_eq] at this
  exact this.1.1

/-- value of a dyadic as a natural number scaled by 2^bias (order-preserving) -/
def dyVal (a : Nat × Nat) : Nat := a.1 * 2 ^ a.2

theorem u16_f32_step (x : Nat) (hx : x < 65536) :
    dyVal (unsignedToF32 65535 x) ≤ dyVal (unsignedToF32 65535 (x + 1)) := by
  have := u16Ok_all x hx
  simp only [u16Ok, Bool.and_eq_true, dyLe, decide_eq_true_eq] at this
  exact this.1.2

/-- u16 -> f32 is monotone on the whole domain -/
theorem u16_f32_monotone (x y : Nat) (hy : y ≤ 65535) (h : x ≤ y) :
    dyVal (unsignedToF32 65535 x) ≤ dyVal (unsignedToF32 65535 y) := by
  induction y with
  | zero => have : x = 0 := by omega
            subst this; exact Nat.le_refl _
  | succ n ih =>
    by_cases hxn : x = n + 1
    · subst hxn; exact Nat.le_refl _
    · exact Nat.le_trans (ih (by omega) (by omega)) (u16_f32_step n (by omega))

theorem u8_f32_step (x : Nat) (hx : x < 256) :
    dyVal (unsignedToF32 255 x) ≤ dyVal (unsignedToF32 255 (x + 1)) := by
  have h := u8Ok_all
  rw [List.all_eq_true] at h
  have := h x (List.mem_range.mpr hx)
  simp only [u8Ok, Bool.and_eq_true, dyLe, decide_eq_true_eq] at this
  exact this.1.2

theorem u8_f32_monotone (x y : Nat) (hy : y ≤ 255) (h : x ≤ y) :
    dyVal (unsignedToF32 255 x) ≤ dyVal (unsignedToF32 255 y) := by
  induction y with
  | zero => have : x = 0 := by omega
            subst this; exact Nat.le_refl _
  | succ n ih =>
    by_cases hxn : x = n + 1
    · subst hxn; exact Nat.le_refl _
    · exact Nat.le_trans (ih (by omega) (by omega)) (u8_f32_step n (by omega))

/-- end points: 0 -> +0.0, max -> 1.0 (IEEE bit patterns), and back -/
theorem unsigned_f32_endpoints :
    toBits (unsignedToF32 255 0) = 0 ∧ toBits (unsignedToF32 255 255) = 0x3f800000 ∧
    toBits (unsignedToF32 65535 0) = 0 ∧ toBits (unsignedToF32 65535 65535) = 0x3f800000 ∧
    f32ToUnsigned 255 (ofBits 0) = 0 ∧ f32ToUnsigned 255 (ofBits 0x3f800000) = 255 ∧
    f32ToUnsigned 65535 (ofBits 0) = 0 ∧ f32ToUnsigned 65535 (ofBits 0x3f800000) = 65535 := by
  decide +kernel

/-- out-of-range float input saturates: everything from 1.0 upwards (here: 1.0, 2.0, 2^100, f32::MAX)
    maps to the maximum -/
theorem f32_unsigned_saturates :
    f32ToUnsigned 255 (ofBits 0x40000000) = 255 ∧ f32ToUnsigned 65535 (ofBits 0x7f7fffff) = 65535 ∧
    f32ToUnsigned 255 (ofBits 0x71800000) = 255 := by
  decide +kernel

/-! ### arbitrary float input: monotone for every monotone rounding function -/

section Abstract
variable (fl : ℚ → ℚ)

/-- `(x.clamp(lo, 1) * m).round() as T` with saturation bounds `[smin, smax]`; `fl` is the rounding of
    the one float multiplication; `round` is half away from zero -/
noncomputable def floatToInt (lo m : ℚ) (smin smax : ℤ) (x : ℚ) : ℤ :=
  let c := max lo (min x 1)
  let p := fl (c * m)
  let r : ℤ := if 0 ≤ p then ⌊p + 1 / 2⌋ else -⌊-p + 1 / 2⌋
  max smin (min r smax)

theorem roundHalfAway_mono : Monotone (fun p : ℚ => (if 0 ≤ p then ⌊p + 1 / 2⌋ else -⌊-p + 1 / 2⌋ : ℤ)) := by
  intro a b hab
  simp only
  by_cases ha : 0 ≤ a
  · have hb : 0 ≤ b := le_trans ha hab
    simp only [ha, hb, if_true]
    exact Int.floor_mono (by linarith)
  · by_cases hb : 0 ≤ b
    · simp only [ha, hb, if_true, if_false]
      have h1 : (0 : ℤ) ≤ ⌊-a + 1 / 2⌋ := Int.floor_nonneg.mpr (by have := not_le.mp ha; linarith)
      have h2 : (0 : ℤ) ≤ ⌊b + 1 / 2⌋ := Int.floor_nonneg.mpr (by linarith)
      omega
    · simp only [ha, hb, if_false]
      have : ⌊-b + 1 / 2⌋ ≤ ⌊-a + 1 / 2⌋ := Int.floor_mono (by linarith)
      omega

/-- f32 -> u8 / u16 / i32 is monotone non-decreasing for **all** inputs, whatever the (monotone)
    rounding of the multiplication does -/
theorem float_to_int_monotone (hfl : Monotone fl) (lo m : ℚ) (hm : 0 ≤ m) (smin smax : ℤ) : Monotone (floatToInt fl lo m smin smax) := by
  intro x y hxy
  unfold floatToInt
  simp only
  have hc : max lo (min x 1) ≤ max lo (min y 1) := max_le_max (le_refl _) (min_le_min hxy (le_refl _))
  have hp : fl (max lo (min x 1) * m) ≤ fl (max lo (min y 1) * m) := hfl (mul_le_mul_of_nonneg_right hc hm)
  have hr := roundHalfAway_mono hp
  simp only at hr
  exact max_le_max (le_refl _) (min_le_min hr (le_refl _))

/-- `i32 -> f32`: `fl (fl x / 2^31)` is monotone -/
theorem int_to_float_monotone (hfl : Monotone fl) : Monotone (fun x : ℚ => fl (fl x / 2147483648)) := by
  intro x y hxy
  exact hfl (div_le_div_of_nonneg_right (hfl hxy) (by norm_num))

end Abstract

/-! ### the tie of the float model to the source text, and the dispatch table -/

/-- the Rust source text of the six float `into_component` bodies is exactly the text the model
    (`Fir.convComp`, `Fir.Soft`, `floatToInt`) was written against -/
theorem float_sources_as_modelled : floatConvSources = floatConvModelled := by decide

/-- supported pairs: same component count; I32 only as a single-component type; everything else
    falls through to the rejecting default arm (checked by the translator) -/
theorem supported_pairs :
    convertPairs = [
      ("U8", ["U8", "U16", "I32", "F32"]), ("U8x2", ["U8x2", "U16x2", "F32x2"]), ("U8x3", ["U8x3", "U16x3", "F32x3"]),
      ("U8x4", ["U8x4", "U16x4", "F32x4"]), ("U16", ["U8", "U16", "I32", "F32"]), ("U16x2", ["U8x2", "U16x2", "F32x2"]),
      ("U16x3", ["U8x3", "U16x3", "F32x3"]), ("U16x4", ["U8x4", "U16x4", "F32x4"]), ("I32", ["U8", "U16", "I32", "F32"]),
      ("F32", ["U8", "U16", "I32", "F32"]), ("F32x2", ["U8x2", "U16x2", "F32x2"]), ("F32x3", ["U8x3", "U16x3", "F32x3"]),
      ("F32x4", ["U8x4", "U16x4", "F32x4"])] := by decide

/-! ### non-vacuity -/
example : conv_i32_u8 (conv_u8_i32 200) = 200 := by decide
example : conv_i32_u16 (-5) = 0 ∧ conv_i32_u16 2147483647 = 65535 := by decide
example : f32ToUnsigned 65535 (unsignedToF32 65535 12345) = 12345 := by decide +kernel

/-! ### the premises about rounding discharged for IEEE-754 round-to-nearest-even (`Fir.Ieee.flP`) -/

section IeeeInstances
open Fir.Ieee Fir.Flt
/-- `float_to_int_monotone` for IEEE binary32 (the `f32 -> u8 / u16 / i32` conversions) -/
theorem float_to_int_monotone_ieee (lo m : ℚ) (hm : 0 ≤ m) (smin smax : ℤ) : Monotone (floatToInt (flP 24) lo m smin smax) :=
  float_to_int_monotone (flP 24) (flP_monotone 24 (by norm_num)) lo m hm smin smax
end IeeeInstances

section SoftIsIeee
open Fir.Soft Fir.Ieee
/-! ### the soft-float model is IEEE round-to-nearest-even -/

/-- the executable binary32 rounding used by the complete-domain proofs above equals the mathematical
    round-to-nearest-even to 24 bits, for all operands below 2^64 -/
theorem soft_rounding_is_ieee (n d : ℕ) (hn : 1 ≤ n) (hd : 1 ≤ d) (hn2 : n < 2 ^ 64) (hd2 : d < 2 ^ 64) :
    Fir.Proofs.valQ (rnd24 n d) = flP 24 ((n : ℚ) / d) :=
  Fir.Proofs.rnd24_eq_flP_small n d hn hd hn2 hd2

/-- `u8 / u16 -> f32` (`x as f32 / max as f32`) is the correctly rounded quotient `x / max`, for every
    component depth below 2^24 - in particular monotone, 0 -> 0 and max -> 1 -/
theorem unsigned_to_f32_correctly_rounded (max x : ℕ) (hx : 1 ≤ x) (hm : 1 ≤ max) (hx2 : x < 2 ^ 24) (hm2 : max < 2 ^ 24) :
    Fir.Proofs.valQ (unsignedToF32 max x) = flP 24 ((x : ℚ) / max) := by
  unfold unsignedToF32
  exact Fir.Proofs.rnd24_eq_flP_small x max hx hm (lt_trans hx2 (by norm_num)) (lt_trans hm2 (by norm_num))

/-- ... hence monotone in `x` for all depths (not only on the two complete domains evaluated above) -/
theorem unsigned_to_f32_monotone (max x y : ℕ) (hx : 1 ≤ x) (hxy : x ≤ y) (hm : 1 ≤ max) (hy2 : y < 2 ^ 24) (hm2 : max < 2 ^ 24) :
    Fir.Proofs.valQ (unsignedToF32 max x) ≤ Fir.Proofs.valQ (unsignedToF32 max y) := by
  unfold unsignedToF32
  exact Fir.Proofs.rnd24_mono x y max hx hxy hm (lt_trans hy2 (by norm_num)) (lt_trans hm2 (by norm_num))

end SoftIsIeee

end Fir.C17
