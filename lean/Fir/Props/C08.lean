/-
  C08 - With the rayon feature the result is independent of thread count and schedule.

  * band-count arithmetic (`calculate_max_{h,v}_parts_number`, re-translated from src/threading.rs on
    every run): total for all u32 sizes - no overflow, no division by zero - and never larger than the
    extent that is split, so the split that follows cannot be refused or panic;
  * a banded pass performs exactly the writes of the sequential pass (rows: the same list; columns: a
    permutation), because the bands are aligned tilings (C14);
  * any interleaving of writes with pairwise distinct targets yields the same memory, so the result
    does not depend on the schedule or on the number of threads.
  The runtime residue (rayon's scheduler, real data-race freedom of the raw-pointer views) is not
  modelled; it is exercised by the correspondence check under real pools of 1..61 threads.
-/
import Fir.Generated.Threading
import Fir.Model.View
import Fir.Model.Sched
import Fir.Proofs.ViewLemmas
import Fir.Proofs.SchedLemmas

namespace Fir.C08
open Fir Fir.Gen Fir.View

/-! ### band-count arithmetic -/

/-- ∀ u32 width, height: the horizontal band count is computed without overflow / division by zero
    and never exceeds the height (0 or 1 mean "do not split") -/
theorem max_h_parts_total (w h : Nat) (hw : w < 4294967296) (hh : h < 4294967296) :
    calculate_max_h_parts_number_ok w h ∧ calculate_max_h_parts_number w h ≤ max h 1 := by
  unfold calculate_max_h_parts_number_ok calculate_max_h_parts_number
  by_cases h0 : w = 0 ∨ h = 0
  · simp [h0]; omega
  · have hw1 : 1 ≤ w := by omega
    have hh1 : 1 ≤ h := by omega
    have hm : 1 ≤ max h w := by omega
    have hm2 : max h w ≤ 4294967295 := by omega
    have hpos : 1 ≤ h * max h w := Nat.mul_le_mul hh1 hm
    have hlt : h * max h w ≤ 4294967295 * 4294967295 := Nat.mul_le_mul (by omega) hm2
    simp only [Bool.or_eq_true, decide_eq_true_eq, h0, if_false]
    -- whichever way round the source writes `max`: one name for the area, then linear arithmetic;
    -- the quotient is bounded by the dividend whatever the divisor is
    have emax : max w h = max h w := Nat.max_comm w h
    try simp only [emax]
    generalize h * max h w = a at *
    have ea : a % 18446744073709551616 = a := Nat.mod_eq_of_lt (by omega)
    simp only [ea]
    refine ⟨?_, ?_⟩
    · refine ⟨by omega, by omega, by omega, ?_⟩ <;> omega
    · exact Nat.le_trans (Nat.div_le_self _ _) (by omega)

/-- the same for the vertical band count and the width -/
theorem max_v_parts_total (w h : Nat) (hw : w < 4294967296) (hh : h < 4294967296) :
    calculate_max_v_parts_number_ok w h ∧ calculate_max_v_parts_number w h ≤ max w 1 := by
  unfold calculate_max_v_parts_number_ok calculate_max_v_parts_number
  by_cases h0 : w = 0 ∨ h = 0
  · simp [h0]; omega
  · have hw1 : 1 ≤ w := by omega
    have hh1 : 1 ≤ h := by omega
    have hm : 1 ≤ max h w := by omega
    have hm2 : max h w ≤ 4294967295 := by omega
    have hpos : 1 ≤ w * max h w := Nat.mul_le_mul hw1 hm
    have hlt : w * max h w ≤ 4294967295 * 4294967295 := Nat.mul_le_mul (by omega) hm2
    simp only [Bool.or_eq_true, decide_eq_true_eq, h0, if_false]
    -- whichever way round the source writes `max`: one name for the area, then linear arithmetic;
    -- the quotient is bounded by the dividend whatever the divisor is
    have emax : max w h = max h w := Nat.max_comm w h
    try simp only [emax]
    generalize w * max h w = a at *
    have ea : a % 18446744073709551616 = a := Nat.mod_eq_of_lt (by omega)
    simp only [ea]
    refine ⟨?_, ?_⟩
    · refine ⟨by omega, by omega, by omega, ?_⟩ <;> omega
    · exact Nat.le_trans (Nat.div_le_self _ _) (by omega)

/-- hence the split attempted by the threading code (`parts = min threads max_parts`, taken only when
    both are > 1) always satisfies the precondition `1 ≤ parts ≤ extent` of C14 -/
theorem split_precondition (w h threads : Nat) (hw : w < 4294967296) (hh : h < 4294967296)
    (ht : 1 < threads) (hm : 1 < calculate_max_h_parts_number w h) :
    1 ≤ min threads (calculate_max_h_parts_number w h) ∧ min threads (calculate_max_h_parts_number w h) ≤ h := by
  have := (max_h_parts_total w h hw hh).2
  omega

/-! ### schedule independence -/

/-- two orders of the same writes with pairwise distinct targets produce the same memory -/
theorem writes_perm_invariant (ws1 ws2 : List (Nat × Int)) (hp : ws1.Perm ws2)
    (hnd : (ws1.map Prod.fst).Nodup) (m : Mem) : applyWrites ws1 m = applyWrites ws2 m :=
  Fir.Proofs.writes_perm_invariant ws1 ws2 hp hnd m

/-- every schedule - any interleaving, any permutation of the writes of all tasks - ends in the memory
    that running the tasks one after the other produces, provided the tasks write distinct indices -/
theorem schedule_independent (tasks : List (List (Nat × Int))) (sched : List (Nat × Int))
    (hs : sched.Perm tasks.flatten) (hnd : (tasks.flatten.map Prod.fst).Nodup) (m : Mem) :
    applyWrites sched m = applyWrites tasks.flatten m :=
  Fir.Proofs.writes_perm_invariant sched tasks.flatten hs
    ((List.Perm.nodup_iff (List.Perm.map Prod.fst hs)).mpr hnd) m

/-! ### banded = sequential -/

/-- row bands (horizontal pass, alpha operations): splitting source rows `[offset, offset+H)` and the
    destination into the same number of parts and running the row kernel per part performs literally
    the same list of writes as the whole-image kernel -/
theorem banded_rows_eq_sequential (f : List Int → List Int) (mem : Mem) (src dst : View)
    (hsw : src.wf = true) (hdw : dst.wf = true) (hsp : 0 < src.width) (hdp : 0 < dst.width)
    (offset k : Nat) (sps dps : List View)
    (hs : src.splitH offset dst.height k = some sps) (hd : dst.splitH 0 dst.height k = some dps) :
    ((sps.zip dps).map fun (sp, dp) => rowPassWrites f mem (sp.rows 0) (dp.rows 0)).flatten
      = rowPassWrites f mem (src.rows offset) (dst.rows 0) :=
  Fir.Proofs.banded_rows_eq_sequential f mem src dst hsw hdw hsp hdp offset k sps dps hs hd

/-- column bands (vertical pass): part `i` of the source and part `i` of the destination are the same
    relative column range, row by row (so a band is processed with offset 0) -/
theorem banded_cols_aligned (src dst : View) (hsw : src.wf = true) (hdw : dst.wf = true)
    (hsh : 0 < src.height) (hdh : 0 < dst.height)
    (offset k : Nat) (sps dps : List View)
    (hs : src.splitW offset dst.width k = some sps) (hd : dst.splitW 0 dst.width k = some dps)
    (i : Nat) (hi : i < k) (r : Nat) :
    ∃ a n, (r < src.height → ((sps.getD i default).rows 0).getD r [] = (((src.rows 0).getD r []).drop (offset + a)).take n) ∧
           (r < dst.height → ((dps.getD i default).rows 0).getD r [] = (((dst.rows 0).getD r []).drop a).take n) :=
  Fir.Proofs.banded_cols_aligned src dst hsw hdw hsh hdh offset k sps dps hs hd i hi r

/-- the destination indices written by all column bands together are a permutation of the indices
    of the destination, each exactly once -/
theorem banded_cols_perm (dst : View) (hdw : dst.wf = true) (hdh : 0 < dst.height) (k : Nat) (dps : List View)
    (hd : dst.splitW 0 dst.width k = some dps) :
    ((dps.map fun p => (p.rows 0).flatten).flatten).Perm (dst.rows 0).flatten :=
  Fir.Proofs.banded_cols_perm dst hdw hdh k dps hd

/-- hence, for any per-pixel value function, the banded vertical pass leaves the same memory as the
    sequential one - under every schedule -/
theorem banded_cols_eq_sequential (val : Nat → Int) (dst : View) (hdw : dst.wf = true) (hdh : 0 < dst.height)
    (k : Nat) (dps : List View) (hd : dst.splitW 0 dst.width k = some dps) (m : Mem) :
    applyWrites (((dps.map fun p => (p.rows 0).flatten).flatten).map fun i => (i, val i)) m
      = applyWrites (((dst.rows 0).flatten).map fun i => (i, val i)) m := by
  apply Fir.Proofs.writes_perm_invariant
  · exact List.Perm.map _ (banded_cols_perm dst hdw hdh k dps hd)
  · have hnd : ((dst.rows 0).flatten).Nodup := Fir.Proofs.idx_nodup dst hdw
    have hp := banded_cols_perm dst hdw hdh k dps hd
    have : (((dps.map fun p => (p.rows 0).flatten).flatten).map fun i => (i, val i)).map Prod.fst
        = (dps.map fun p => (p.rows 0).flatten).flatten := by
      simp [List.map_map, Function.comp_def]
    rw [this]
    exact (List.Perm.nodup_iff hp).mpr hnd

/-! ### non-vacuity -/
example : calculate_max_h_parts_number 1 65536 = 256 ∧ calculate_max_h_parts_number_ok 1 65536 := by decide
example : calculate_max_v_parts_number 4294967295 4294967295 = 256 := by decide
example : ((View.typed 0 4 6 24).splitH 0 6 3).isSome = true := by decide

end Fir.C08
