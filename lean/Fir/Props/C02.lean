/-
  C02 - SIMD back-ends compute the same image as the portable back-end.

  Proved: re-association / chunking of an integer dot product cannot change it (also modulo 2^32 /
  2^64, i.e. with wrapping accumulators); the SIMD finishing sequence `srai -> packs_epi32 ->
  packus_epi16` equals the translated clip table for *every* accumulator value; pair products of
  `madd_epi16` are exact (C18.madd_epi16_exact).  Not modelled: shuffle masks, lane placement, load
  widths (tied by correspondence over every residue of kernel length and width), NEON, WASM.
-/
import Fir.Model.Resample
import Fir.Proofs.FixedLemmas
import Fir.Model.SimdAlpha
import Fir.Generated.Alpha
import Fir.Generated.SimdAlpha
import Fir.Proofs.SimdDiv16Lemmas
import Fir.Proofs.SoftLemmas
import Fir.Proofs.FloatLemmas
import Fir.Props.C06
import Fir.Proofs.IeeeLemmas
import Fir.Proofs.SimdU8x4Lemmas
import Fir.Proofs.SimdVertU8Lemmas
import Fir.Proofs.SimdU8x3Lemmas
import Fir.Proofs.SimdVertU16Lemmas
import Fir.Proofs.SimdU8x1Lemmas
import Fir.Proofs.SimdU8x2Lemmas
import Fir.Proofs.SimdU16x1Lemmas
import Fir.Proofs.SimdU16x4Lemmas
import Fir.Proofs.SimdU16x2Lemmas
import Fir.Proofs.SimdU16x3Lemmas
import Fir.Proofs.SimdPassIntLemmas
import Fir.Proofs.SimdU16x4ALemmas
import Fir.Proofs.SimdU16x2ALemmas
import Fir.Proofs.SimdU16x1ALemmas
import Fir.Proofs.SimdU8x1ALemmas
import Fir.Proofs.SimdU8x2ALemmas

namespace Fir.C02
open Fir

/-- splitting a window at any position: the dot product is the sum of the dot products of the pieces -/
theorem dot_append (ks1 ks2 xs1 xs2 : List Int) (h : ks1.length = xs1.length) :
    dotL (ks1 ++ ks2) (xs1 ++ xs2) = dotL ks1 xs1 + dotL ks2 xs2 :=
  Fir.Proofs.dotL_append ks1 ks2 xs1 xs2 h

/-- any chunk plan (blocks of 8 / 4 / 2 / 1 coefficients, any number of partial accumulators added up
    in any grouping): the sum of the per-chunk dot products is the sequential dot product -/
theorem dotChunked_eq_dot (chunks : List (List Int × List Int)) (h : ∀ c ∈ chunks, c.1.length = c.2.length) :
    (chunks.map fun c => dotL c.1 c.2).sum = dotL (chunks.map (·.1)).flatten (chunks.map (·.2)).flatten :=
  Fir.Proofs.dotChunked_eq_dot chunks h

/-- partial accumulators may be combined in any order -/
theorem partial_sums_perm (parts parts' : List Int) (h : parts.Perm parts') : parts.sum = parts'.sum :=
  Fir.Proofs.sum_perm parts parts' h

/-- wrapping accumulators: adding modulo 2^bits after every step equals wrapping once at the end -/
theorem wrap_add (bits : Nat) (a b : Int) :
    Fir.Gen.wrapInt bits (Fir.Gen.wrapInt bits a + b) = Fir.Gen.wrapInt bits (a + b) :=
  Fir.Proofs.wrapInt_add bits a b

/-- `_mm_packs_epi32` on one lane -/
def packs16 (x : Int) : Int := max (-32768) (min 32767 x)
/-- `_mm_packus_epi16` on one lane -/
def packus8 (x : Int) : Int := max 0 (min 255 x)

/-- the SIMD finishing sequence equals the portable clip for every 32-bit accumulator value and every
    precision: `CLIP8[clamp(v >> p) + 640] = packus_epi16(packs_epi32(v >> p))` -/
theorem clip_table_eq_packs (v : Int) (p : Nat) (hp : p < 32) (hv : -(2 ^ 31 : Int) ≤ v ∧ v < 2 ^ 31) :
    clip8 v p = packus8 (packs16 (v / 2 ^ p)) :=
  Fir.Proofs.clip8_eq_packs v p hp hv

/-- 16-bit: `Normalizer32::clip` is the clamp the SIMD kernels perform with `packus_epi32` -/
theorem clip16_eq_clamp (v : Int) (p : Nat) (hp : p < 64) (hv : -(2 ^ 63 : Int) ≤ v ∧ v < 2 ^ 63) :
    clip16 v p = max 0 (min 65535 (v / 2 ^ p)) :=
  Fir.Proofs.clip16_eq_clamp v p hp hv

/-! ### the SSE4.1 / AVX2 8-bit alpha divide (f32 reciprocal, Q8.8 x Q9.7 `mulhrs`, unsigned min) -/

theorem simd_div8_all : (List.range 256).all (fun a => (List.range 256).all (fun c =>
    Fir.Simd.simdDiv8 c a == Fir.Gen.div_and_clip c (Fir.Gen.recip_alpha a))) = true := by
  decide +kernel

/-- the per-lane model of the SIMD 8-bit `divide_alpha` (exact f32 quotient 65280/alpha, conversion to
    a signed Q8.8 lane, `_mm_mulhrs_epi16`, `_mm_min_epu16`) equals the portable `div_and_clip` with the
    translated reciprocal table for all 65,536 (colour, alpha) pairs - incl. alpha = 0 (integer
    indefinite -> 0) and alpha = 1 (the Q8.8 lane is negative, the unsigned minimum saturates) -/
theorem simd_div8_eq (c a : Nat) (hc : c < 256) (ha : a < 256) :
    Fir.Simd.simdDiv8 c a = Fir.Gen.div_and_clip c (Fir.Gen.recip_alpha a) := by
  have h := simd_div8_all
  rw [List.all_eq_true] at h
  have h2 := h a (List.mem_range.mpr ha)
  rw [List.all_eq_true] at h2
  simpa using h2 c (List.mem_range.mpr hc)


/-! ### the SSE4.1 / AVX2 16-bit alpha divide (two binary32 roundings, `min_ps`, zero mask, `cvtps_epi32`) -/

/-- the lane `cvtps_epi32(min_ps(div_ps(mul_ps(c, 65535.0), a), 65535.0))` is faithful and saturating for
    all 2^32 (colour, alpha) pairs with alpha > 0, under the standard model of binary32 rounding
    (`s`, `q`: the rounded product and quotient, relative error ≤ 2^-24 each; `n`: any integer nearest
    to the saturated quotient, as `cvtps_epi32` returns) -/
theorem simd_div16_faithful (c a : Nat) (hc : c < 65536) (ha0 : 0 < a) (ha : a < 65536) (s q : ℚ) (n : ℤ)
    (hs : |s - (c : ℚ) * 65535| ≤ 1 / 2 ^ 24 * |(c : ℚ) * 65535|)
    (hq : |q - s / a| ≤ 1 / 2 ^ 24 * |s / a|)
    (hn : |(n : ℚ) - min q 65535| ≤ 1 / 2) :
    0 ≤ n ∧ Fir.Spec.divFaithful 65535 c a n.toNat :=
  Fir.Proofs.simd_div16_lane_faithful c a hc ha0 ha s q n hs hq hn

/-- hence the SIMD lane and the portable (translated) `div_and_clip16` differ by at most one unit - the
    exception C02 grants for 16-bit alpha division - for every colour and every alpha > 0; for alpha = 0
    both give 0 (the lane is masked with `cmpneq_ps`, the table entry is 0) -/
theorem simd_div16_within_one (c a : Nat) (hc : c < 65536) (ha0 : 0 < a) (ha : a < 65536) (s q : ℚ) (n : ℤ)
    (hs : |s - (c : ℚ) * 65535| ≤ 1 / 2 ^ 24 * |(c : ℚ) * 65535|)
    (hq : |q - s / a| ≤ 1 / 2 ^ 24 * |s / a|)
    (hn : |(n : ℚ) - min q 65535| ≤ 1 / 2) :
    let portable := Fir.Gen.div_and_clip16 c (Fir.Gen.recip_alpha16 a)
    (n.toNat : ℤ) - portable ≤ 1 ∧ (portable : ℤ) - n.toNat ≤ 1 :=
  Fir.Proofs.faithful_within_one 65535 c a _ _
    (Fir.Proofs.simd_div16_lane_faithful c a hc ha0 ha s q n hs hq hn).2 (Fir.C06.div16_faithful c a hc ha)

/-- **unconditional**: the executable 16-bit SIMD lane `Fir.Simd.simdDiv16` - the function the
    correspondence check compares with the four SSE4.1 / AVX2 kernels, both binary32 operations evaluated
    exactly - is faithful and saturating for ALL 2^32 (colour, alpha) pairs; no premise about rounding is
    left: the relative error 2^-24 of the exact binary32 rounding `rnd24` is itself proved
    (`Fir.Proofs.rnd24_relerr`, via the correctness of the integer logarithm `lg2`) -/
theorem simd_div16_all (c a : Nat) (hc : c < 65536) (ha : a < 65536) :
    Fir.Spec.divFaithful 65535 c a (Fir.Simd.simdDiv16 c a) :=
  Fir.Proofs.simdDiv16_faithful c a hc ha

/-- and therefore within one unit of the portable (translated) `div_and_clip16`, for all 2^32 pairs -/
theorem simd_div16_all_within_one (c a : Nat) (hc : c < 65536) (ha : a < 65536) :
    let portable := Fir.Gen.div_and_clip16 c (Fir.Gen.recip_alpha16 a)
    ((Fir.Simd.simdDiv16 c a : Nat) : ℤ) - portable ≤ 1 ∧ (portable : ℤ) - (Fir.Simd.simdDiv16 c a : Nat) ≤ 1 :=
  Fir.Proofs.faithful_within_one 65535 c a _ _ (Fir.Proofs.simdDiv16_faithful c a hc ha) (Fir.C06.div16_faithful c a hc ha)

/-- the exact binary32 rounding of the model obeys the standard model of rounding in the normal range -/
theorem soft_rounding_relerr (n d : ℕ) (hn : 1 ≤ n) (hd : 1 ≤ d) (hn2 : n < 2 ^ 512) (hd2 : d < 2 ^ 150)
    (hnormal : Fir.Soft.bias - 126 ≤ Fir.Soft.floorLog2Ratio n d) :
    |Fir.Proofs.valQ (Fir.Soft.rnd24 n d) - (n : ℚ) / d| ≤ 1 / 2 ^ 24 * ((n : ℚ) / d) :=
  Fir.Proofs.rnd24_relerr n d hn hd hn2 hd2 hnormal

/-- the executable lane model used by the correspondence check gives 0 for alpha = 0 -/
theorem simd_div16_zero_alpha (c : Nat) : Fir.Simd.simdDiv16 c 0 = 0 := by simp [Fir.Simd.simdDiv16]

/-- the four 16-bit SIMD divide lanes are the ones the theorem was written against: one `mul_ps` by
    65535.0, one `div_ps`, `min_ps`, the `cmpneq_ps` zero mask and `cvtps_epi32` per vector, nothing else
    (multiset of arithmetic intrinsics re-extracted from the source on every run) -/
theorem simd_div16_source_as_modelled : Fir.Gen.simdDiv16Skeleton = [
  ("src/alpha/u16x2/sse4.rs::divide_alpha_4_pixels", "set1_ps(65535.0) and_ps cmpneq_ps cvtepi32_ps cvtepi32_ps cvtps_epi32 div_ps min_ps mul_ps"),
  ("src/alpha/u16x2/avx2.rs::divide_alpha_8_pixels", "set1_ps(65535.0) and_ps cmpneq_ps cvtepi32_ps cvtepi32_ps cvtps_epi32 div_ps min_ps mul_ps"),
  ("src/alpha/u16x4/sse4.rs::divide_alpha_2_pixels", "set1_ps(65535.0) and_ps and_ps cmpneq_ps cmpneq_ps cvtepi32_ps cvtepi32_ps cvtepi32_ps cvtepi32_ps cvtps_epi32 cvtps_epi32 div_ps div_ps min_ps min_ps mul_ps mul_ps packus_epi32"),
  ("src/alpha/u16x4/avx2.rs::divide_alpha_4_pixels", "set1_ps(65535.0) and_ps and_ps cmpneq_ps cmpneq_ps cvtepi32_ps cvtepi32_ps cvtepi32_ps cvtepi32_ps cvtps_epi32 cvtps_epi32 div_ps div_ps min_ps min_ps mul_ps mul_ps packus_epi32")] := by rfl

/-! ### float formats: a re-associated f64 sum -/

open Fir.Flt in
/-- I32 / F32 kernels accumulate rounded products in f64: the portable kernel as a left comb, the SIMD
    kernels in two or four lanes joined by a horizontal add.  Any two such summation orders over the same
    products differ by at most `(γ(d) + γ(d'))·Σ|xᵢkᵢ|`, `γ(d) = (1+u)^(d+1) − 1`, for every rounding with
    relative error `u` (2^-53 for binary64) - "the f32 rounding of a re-associated f64 sum" -/
theorem reassoc_err (fl : ℚ → ℚ) (u : ℚ) (hu : 0 ≤ u) (hfl : RelErr fl u) (x k : ℕ → ℚ) (t t' : Shape)
    (hperm : t.leaves.Perm t'.leaves) :
    |t.eval fl x k - t'.eval fl x k| ≤ (gam u t.depth + gam u t'.depth) * t.absSum x k :=
  Fir.Flt.reassoc_err fl u hu hfl x k t t' hperm

open Fir.Flt in
/-- the portable loop `ss = 0.0; ss += x as f64 * k` *is* such a tree: the left comb over the taps -/
theorem native_loop_is_comb (fl : ℚ → ℚ) (ks xs : List ℚ) (hlen : ks.length = xs.length) (j : ℕ) (t : Shape)
    (x k : ℕ → ℚ) (hx : ∀ i, i < xs.length → x (j + i) = xs.getD i 0) (hk : ∀ i, i < ks.length → k (j + i) = ks.getD i 0) :
    accF fl ks xs (t.eval fl x k) = (comb ks.length j t).eval fl x k :=
  Fir.Flt.accF_eq_comb fl ks xs hlen j t x k hx hk

/-! ### non-vacuity (16-bit lane): exact values meet the rounding hypotheses; the soft-float lane agrees -/
example : Fir.Simd.simdDiv16 300 200 = 65535 ∧ Fir.Simd.simdDiv16 1234 4321 = 18716 ∧
    Fir.Gen.div_and_clip16 1234 (Fir.Gen.recip_alpha16 4321) = 18716 ∧ Fir.Simd.simdDiv16 40000 1 = 65535 := by decide
example : (0 : ℤ) ≤ 3 ∧ Fir.Spec.divFaithful 65535 2 43690 (3 : ℤ).toNat :=
  simd_div16_faithful 2 43690 (by norm_num) (by norm_num) (by norm_num) 131070 (131070 / 43690) 3
    (by norm_num) (by norm_num) (by norm_num [abs_le])

/-! ### non-vacuity -/
example : clip8 (300 * 2 ^ 14) 14 = 255 ∧ clip8 (-5) 3 = 0 ∧ clip8 (77 * 2 ^ 12 + 5) 12 = 77 := by decide

/-- the source of the SIMD 8-bit divide kernels is the one `Fir.Simd.simdDiv8` was written against:
    the same intrinsics in the same order with the same immediates and constants (extracted from
    src/alpha/u8x{2,4}/{sse4,avx2}.rs by the translator on every run) -/
theorem simd_div8_source_as_modelled : Fir.Gen.simdDiv8Skeleton = [
  ("src/alpha/u8x4/sse4.rs::divide_alpha_4_pixels", "set1_epi32(0xff000000u32 as i32) set1_ps(255.0 * 256.0) set1_epi16(0xff) cvtepi32_ps cvtps_epi32 div_ps min_epu16 mulhrs_epi16 min_epu16 mulhrs_epi16 packus_epi16"),
  ("src/alpha/u8x4/avx2.rs::divide_alpha_8_pixels", "set1_epi32(0xff000000u32 as i32) set1_ps(255.0 * 256.0) set1_epi16(0xff) cvtepi32_ps cvtps_epi32 div_ps min_epu16 mulhrs_epi16 min_epu16 mulhrs_epi16 packus_epi16"),
  ("src/alpha/u8x2/sse4.rs::divide_alpha_8_pixels", "set1_epi16(0xff00u16 as i16) set1_epi16(0xff) set1_ps(255.0 * 256.0) cvtepi32_ps cvtps_epi32 div_ps cvtepi32_ps cvtps_epi32 div_ps mulhrs_epi16 min_epu16"),
  ("src/alpha/u8x2/avx2.rs::divide_alpha_16_pixels", "set1_epi16(0xff00u16 as i16) set1_epi16(0xff) set1_ps(255.0 * 256.0) cvtepi32_ps cvtps_epi32 div_ps cvtepi32_ps cvtps_epi32 div_ps mulhrs_epi16 min_epu16")] := by rfl

/-! ### the premises about rounding discharged for IEEE-754 round-to-nearest-even (`Fir.Ieee.flP`) -/

section IeeeInstances
open Fir.Ieee Fir.Flt
/-- `reassoc_err` for IEEE binary64 -/
theorem reassoc_err_ieee (x k : ℕ → ℚ) (t t' : Shape) (hperm : t.leaves.Perm t'.leaves) :
    |t.eval (flP 53) x k - t'.eval (flP 53) x k| ≤ (gam (1 / 2 ^ 53) t.depth + gam (1 / 2 ^ 53) t'.depth) * t.absSum x k :=
  reassoc_err (flP 53) (1 / 2 ^ 53) (by positivity) (flP_relErr 53 (by norm_num)) x k t t' hperm
end IeeeInstances

/-! ### one SIMD kernel modelled down to the bytes of its registers (U8x4, SSE4.1, one-row horizontal pass)

    `Fir.SimdU8x4.pixel` follows `horiz_convolution_one_row` of src/convolution/u8x4/sse4.rs instruction by
    instruction: 16-byte loads, `_mm_shuffle_epi8` with the seven masks `sh1 .. sh7` (re-extracted from the source
    on every run), `_mm_madd_epi16`, `_mm_add_epi32`, the 8 / 4 / 2 / 1 coefficient steps, `srai`, `packs`,
    `packus`.  Here the lane plumbing is *proved*, not sampled. -/

/-- for every precision, every coefficient list (every remainder branch) and every source row the SIMD kernel
    stores exactly the four bytes of the portable kernel: `clip8(2^(p-1) + Σ src[start+i].c · k[i])` -/
theorem u8x4_sse4_one_row_eq_portable (p : Nat) (hp : p < 32) (row : List Int) (start : Nat) (ks : List Int) :
    Fir.SimdU8x4.pixel p row start ks
      = [clip8 (2 ^ (p - 1) + Fir.SimdU8x4.dotC row 0 ks start) p, clip8 (2 ^ (p - 1) + Fir.SimdU8x4.dotC row 1 ks start) p,
         clip8 (2 ^ (p - 1) + Fir.SimdU8x4.dotC row 2 ks start) p, clip8 (2 ^ (p - 1) + Fir.SimdU8x4.dotC row 3 ks start) p] :=
  Fir.Proofs.u8x4_sse4_pixel_eq_portable p hp row start ks

/-- in the vocabulary of the portable model: channel `c` is `Fir.passInt .u8` of the same coefficients and the
    same window of samples (bytes 0..255, coefficients in the i16 range) -/
theorem u8x4_sse4_one_row_eq_passInt (p : Nat) (hp : p < 32) (row : List Int) (start : Nat) (ks : List Int) (c : Nat) (hc : c < 4)
    (hk : ∀ k ∈ ks, -32768 ≤ k ∧ k ≤ 32767) (hb : ∀ i, 0 ≤ row.getD i 0 ∧ row.getD i 0 ≤ 255) :
    (Fir.SimdU8x4.pixel p row start ks).getD c 0
      = passInt .u8 ks ((List.range ks.length).map fun i => row.getD (4 * (start + i) + c) 0) p :=
  Fir.Proofs.u8x4_sse4_pixel_eq_passInt p hp row start ks c hc hk hb

/-- the kernel in the source is the one modelled: every intrinsic / helper call with its arguments, in order
    (the masks themselves are not pinned - they are *used* by the model, so a changed mask changes the theorem) -/
theorem u8x4_sse4_one_row_source_as_modelled : Fir.Gen.u8x4_sse4_one_row_skeleton =
    "_mm_set1_epi32(1 << (PRECISION - 1)) ; chunks_exact(8) ; remainder() ; simd_utils::loadu_si128(k, 0) ; simd_utils::loadu_si128(src_row, x) ; _mm_shuffle_epi8(source, sh1) ; _mm_shuffle_epi8(ksource, sh2) ; _mm_add_epi32(sss, _mm_madd_epi16(pix, mmk)) ; _mm_shuffle_epi8(source, sh3) ; _mm_shuffle_epi8(ksource, sh4) ; _mm_add_epi32(sss, _mm_madd_epi16(pix, mmk)) ; simd_utils::loadu_si128(src_row, x + 4) ; _mm_shuffle_epi8(source, sh1) ; _mm_shuffle_epi8(ksource, sh5) ; _mm_add_epi32(sss, _mm_madd_epi16(pix, mmk)) ; _mm_shuffle_epi8(source, sh3) ; _mm_shuffle_epi8(ksource, sh6) ; _mm_add_epi32(sss, _mm_madd_epi16(pix, mmk)) ; chunks_exact(4) ; remainder() ; simd_utils::loadu_si128(src_row, x) ; simd_utils::loadl_epi64(k, 0) ; _mm_shuffle_epi8(source, sh1) ; _mm_shuffle_epi8(ksource, sh2) ; _mm_add_epi32(sss, _mm_madd_epi16(pix, mmk)) ; _mm_shuffle_epi8(source, sh3) ; _mm_shuffle_epi8(ksource, sh4) ; _mm_add_epi32(sss, _mm_madd_epi16(pix, mmk)) ; chunks_exact(2) ; remainder() ; simd_utils::mm_load_and_clone_i16x2(k) ; simd_utils::loadl_epi64(src_row, x) ; _mm_shuffle_epi8(source, sh7) ; _mm_add_epi32(sss, _mm_madd_epi16(pix, mmk)) ; first() ; simd_utils::mm_cvtepu8_epi32(src_row, x) ; _mm_set1_epi32(k as i32) ; _mm_add_epi32(sss, _mm_madd_epi16(pix, mmk)) ; _mm_srai_epi32::<PRECISION>(sss) ; _mm_packs_epi32(sss, sss) ; _mm_cvtsi128_si32(_mm_packus_epi16(sss, sss))" := by rfl

example : Fir.SimdU8x4.pixel 12 [10, 20, 30, 40, 50, 60, 70, 80, 90, 100, 110, 120] 0 [2048, 1024, 1024] = [40, 50, 60, 70] := by
  rw [u8x4_sse4_one_row_eq_portable 12 (by norm_num)]; decide

/-! ### ... and the four-row kernel of the same pass (`horiz_convolution_four_rows`) -/

/-- every row of a four-row block is computed exactly like the portable kernel (masks `mask_lo`, `mask_hi`, `mask`
    re-extracted from the source; 4 / 2 / 1 coefficient steps) -/
theorem u8x4_sse4_four_rows_eq_portable (p : Nat) (hp : p < 32) (row : List Int) (start : Nat) (ks : List Int) :
    Fir.SimdU8x4.pixelR p row start ks
      = [clip8 (2 ^ (p - 1) + Fir.SimdU8x4.dotC row 0 ks start) p, clip8 (2 ^ (p - 1) + Fir.SimdU8x4.dotC row 1 ks start) p,
         clip8 (2 ^ (p - 1) + Fir.SimdU8x4.dotC row 2 ks start) p, clip8 (2 ^ (p - 1) + Fir.SimdU8x4.dotC row 3 ks start) p] :=
  Fir.Proofs.u8x4_sse4_four_rows_pixel_eq_portable p hp row start ks

/-- so the whole SSE4.1 horizontal pass for U8x4 - four-row blocks and leftover rows alike - stores, for every
    destination pixel, the bytes of the portable pass: which of the two kernels handles a row is invisible -/
theorem u8x4_sse4_four_rows_eq_one_row (p : Nat) (hp : p < 32) (row : List Int) (start : Nat) (ks : List Int) :
    Fir.SimdU8x4.pixelR p row start ks = Fir.SimdU8x4.pixel p row start ks :=
  Fir.Proofs.u8x4_sse4_four_rows_eq_one_row p hp row start ks

theorem u8x4_sse4_four_rows_source_as_modelled : Fir.Gen.u8x4_sse4_four_rows_skeleton =
    "_mm_set1_epi32(1 << (PRECISION - 1)) ; chunks_exact(4) ; remainder() ; simd_utils::mm_load_and_clone_i16x2(k) ; simd_utils::mm_load_and_clone_i16x2(&k[2..]) ; simd_utils::loadu_si128(src_rows[0], x) ; _mm_shuffle_epi8(source, mask_lo) ; _mm_add_epi32(sss0, _mm_madd_epi16(pix, mmk_lo)) ; _mm_shuffle_epi8(source, mask_hi) ; _mm_add_epi32(sss0, _mm_madd_epi16(pix, mmk_hi)) ; simd_utils::loadu_si128(src_rows[1], x) ; _mm_shuffle_epi8(source, mask_lo) ; _mm_add_epi32(sss1, _mm_madd_epi16(pix, mmk_lo)) ; _mm_shuffle_epi8(source, mask_hi) ; _mm_add_epi32(sss1, _mm_madd_epi16(pix, mmk_hi)) ; simd_utils::loadu_si128(src_rows[2], x) ; _mm_shuffle_epi8(source, mask_lo) ; _mm_add_epi32(sss2, _mm_madd_epi16(pix, mmk_lo)) ; _mm_shuffle_epi8(source, mask_hi) ; _mm_add_epi32(sss2, _mm_madd_epi16(pix, mmk_hi)) ; simd_utils::loadu_si128(src_rows[3], x) ; _mm_shuffle_epi8(source, mask_lo) ; _mm_add_epi32(sss3, _mm_madd_epi16(pix, mmk_lo)) ; _mm_shuffle_epi8(source, mask_hi) ; _mm_add_epi32(sss3, _mm_madd_epi16(pix, mmk_hi)) ; chunks_exact(2) ; remainder() ; simd_utils::mm_load_and_clone_i16x2(k) ; simd_utils::loadl_epi64(src_rows[0], x) ; _mm_shuffle_epi8(pix, mask) ; _mm_add_epi32(sss0, _mm_madd_epi16(pix, mmk)) ; simd_utils::loadl_epi64(src_rows[1], x) ; _mm_shuffle_epi8(pix, mask) ; _mm_add_epi32(sss1, _mm_madd_epi16(pix, mmk)) ; simd_utils::loadl_epi64(src_rows[2], x) ; _mm_shuffle_epi8(pix, mask) ; _mm_add_epi32(sss2, _mm_madd_epi16(pix, mmk)) ; simd_utils::loadl_epi64(src_rows[3], x) ; _mm_shuffle_epi8(pix, mask) ; _mm_add_epi32(sss3, _mm_madd_epi16(pix, mmk)) ; first() ; _mm_set1_epi32(k as i32) ; simd_utils::mm_cvtepu8_epi32(src_rows[0], x) ; _mm_add_epi32(sss0, _mm_madd_epi16(pix, mmk)) ; simd_utils::mm_cvtepu8_epi32(src_rows[1], x) ; _mm_add_epi32(sss1, _mm_madd_epi16(pix, mmk)) ; simd_utils::mm_cvtepu8_epi32(src_rows[2], x) ; _mm_add_epi32(sss2, _mm_madd_epi16(pix, mmk)) ; simd_utils::mm_cvtepu8_epi32(src_rows[3], x) ; _mm_add_epi32(sss3, _mm_madd_epi16(pix, mmk)) ; _mm_srai_epi32::<PRECISION>(sss0) ; _mm_srai_epi32::<PRECISION>(sss1) ; _mm_srai_epi32::<PRECISION>(sss2) ; _mm_srai_epi32::<PRECISION>(sss3) ; _mm_packs_epi32(sss0, sss0) ; _mm_packs_epi32(sss1, sss1) ; _mm_packs_epi32(sss2, sss2) ; _mm_packs_epi32(sss3, sss3) ; _mm_cvtsi128_si32(_mm_packus_epi16(sss0, sss0)) ; _mm_cvtsi128_si32(_mm_packus_epi16(sss1, sss1)) ; _mm_cvtsi128_si32(_mm_packus_epi16(sss2, sss2)) ; _mm_cvtsi128_si32(_mm_packus_epi16(sss3, sss3))" := by rfl

/-! ### the SSE4.1 vertical pass for 8-bit components (U8, U8x2, U8x3, U8x4), lane by lane

    `Fir.Model.SimdVertU8` follows `vert_convolution_into_one_row` of src/convolution/vertical_u8/sse4.rs: rows are taken
    two at a time, interleaved with `_mm_unpacklo/hi_epi8`, widened by unpacking with zero, multiplied with a cloned
    coefficient pair by `_mm_madd_epi16`; an odd last row goes through `_mm_set1_epi32(k as i32)`; the destination
    row is cut into chunks of 32, 8 and 4 components (the rest is the portable code).  `dotV rows ks x` is what the
    portable kernel accumulates for component `x`. -/

theorem vert_u8_sse4_chunk32_eq_portable (p : Nat) (hp : p < 32) (rows : List (List Int)) (ks : List Int)
    (h : ks.length ≤ rows.length) (x : Nat) :
    Fir.SimdVertU8.chunk32 p rows ks x = (List.range 32).map fun j => clip8 (2 ^ (p - 1) + Fir.SimdVertU8.dotV rows ks (x + j)) p :=
  Fir.Proofs.vert_u8_sse4_chunk32_eq p hp rows ks h x

theorem vert_u8_sse4_chunk8_eq_portable (p : Nat) (hp : p < 32) (rows : List (List Int)) (ks : List Int)
    (h : ks.length ≤ rows.length) (x : Nat) :
    Fir.SimdVertU8.chunk8 p rows ks x = (List.range 8).map fun j => clip8 (2 ^ (p - 1) + Fir.SimdVertU8.dotV rows ks (x + j)) p :=
  Fir.Proofs.vert_u8_sse4_chunk8_eq p hp rows ks h x

theorem vert_u8_sse4_chunk4_eq_portable (p : Nat) (hp : p < 32) (rows : List (List Int)) (ks : List Int)
    (h : ks.length ≤ rows.length) (x : Nat) :
    Fir.SimdVertU8.chunk4 p rows ks x = (List.range 4).map fun j => clip8 (2 ^ (p - 1) + Fir.SimdVertU8.dotV rows ks (x + j)) p :=
  Fir.Proofs.vert_u8_sse4_chunk4_eq p hp rows ks h x

/-- the call sequence of the kernel in the source is the one modelled -/
theorem vert_u8_sse4_source_as_modelled : Fir.Gen.vert_u8_sse4_skeleton =
    "_mm_set1_epi32(1 << (PRECISION - 1)) ; chunks_exact_mut(32) ; chunks_exact(2) ; remainder() ; iter_2_rows(y_start, max_rows) ; simd_utils::mm_load_and_clone_i16x2(two_coeffs) ; simd_utils::loadu_si128(components1, src_x) ; simd_utils::loadu_si128(components2, src_x) ; _mm_unpacklo_epi8(source1, source2) ; _mm_unpacklo_epi8(source, _mm_setzero_si128()) ; _mm_add_epi32(sss0, _mm_madd_epi16(pix, mmk)) ; _mm_unpackhi_epi8(source, _mm_setzero_si128()) ; _mm_add_epi32(sss1, _mm_madd_epi16(pix, mmk)) ; _mm_unpackhi_epi8(source1, source2) ; _mm_unpacklo_epi8(source, _mm_setzero_si128()) ; _mm_add_epi32(sss2, _mm_madd_epi16(pix, mmk)) ; _mm_unpackhi_epi8(source, _mm_setzero_si128()) ; _mm_add_epi32(sss3, _mm_madd_epi16(pix, mmk)) ; simd_utils::loadu_si128(components1, src_x + 16) ; simd_utils::loadu_si128(components2, src_x + 16) ; _mm_unpacklo_epi8(source1, source2) ; _mm_unpacklo_epi8(source, _mm_setzero_si128()) ; _mm_add_epi32(sss4, _mm_madd_epi16(pix, mmk)) ; _mm_unpackhi_epi8(source, _mm_setzero_si128()) ; _mm_add_epi32(sss5, _mm_madd_epi16(pix, mmk)) ; _mm_unpackhi_epi8(source1, source2) ; _mm_unpacklo_epi8(source, _mm_setzero_si128()) ; _mm_add_epi32(sss6, _mm_madd_epi16(pix, mmk)) ; _mm_unpackhi_epi8(source, _mm_setzero_si128()) ; _mm_add_epi32(sss7, _mm_madd_epi16(pix, mmk)) ; first() ; iter_rows(y_last) ; _mm_set1_epi32(k as i32) ; simd_utils::loadu_si128(components, src_x) ; _mm_unpacklo_epi8(source1, _mm_setzero_si128()) ; _mm_unpacklo_epi8(source, _mm_setzero_si128()) ; _mm_add_epi32(sss0, _mm_madd_epi16(pix, mmk)) ; _mm_unpackhi_epi8(source, _mm_setzero_si128()) ; _mm_add_epi32(sss1, _mm_madd_epi16(pix, mmk)) ; _mm_unpackhi_epi8(source1, _mm_setzero_si128()) ; _mm_unpacklo_epi8(source, _mm_setzero_si128()) ; _mm_add_epi32(sss2, _mm_madd_epi16(pix, mmk)) ; _mm_unpackhi_epi8(source, _mm_setzero_si128()) ; _mm_add_epi32(sss3, _mm_madd_epi16(pix, mmk)) ; simd_utils::loadu_si128(components, src_x + 16) ; _mm_unpacklo_epi8(source1, _mm_setzero_si128()) ; _mm_unpacklo_epi8(source, _mm_setzero_si128()) ; _mm_add_epi32(sss4, _mm_madd_epi16(pix, mmk)) ; _mm_unpackhi_epi8(source, _mm_setzero_si128()) ; _mm_add_epi32(sss5, _mm_madd_epi16(pix, mmk)) ; _mm_unpackhi_epi8(source1, _mm_setzero_si128()) ; _mm_unpacklo_epi8(source, _mm_setzero_si128()) ; _mm_add_epi32(sss6, _mm_madd_epi16(pix, mmk)) ; _mm_unpackhi_epi8(source, _mm_setzero_si128()) ; _mm_add_epi32(sss7, _mm_madd_epi16(pix, mmk)) ; _mm_srai_epi32::<PRECISION>(sss0) ; _mm_srai_epi32::<PRECISION>(sss1) ; _mm_srai_epi32::<PRECISION>(sss2) ; _mm_srai_epi32::<PRECISION>(sss3) ; _mm_srai_epi32::<PRECISION>(sss4) ; _mm_srai_epi32::<PRECISION>(sss5) ; _mm_srai_epi32::<PRECISION>(sss6) ; _mm_srai_epi32::<PRECISION>(sss7) ; _mm_packs_epi32(sss0, sss1) ; _mm_packs_epi32(sss2, sss3) ; _mm_packus_epi16(sss0, sss2) ; _mm_storeu_si128(dst_ptr, sss0) ; _mm_packs_epi32(sss4, sss5) ; _mm_packs_epi32(sss6, sss7) ; _mm_packus_epi16(sss4, sss6) ; _mm_storeu_si128(dst_ptr, sss4) ; into_remainder() ; chunks_exact_mut(8) ; chunks_exact(2) ; remainder() ; iter_2_rows(y_start, max_rows) ; simd_utils::mm_load_and_clone_i16x2(two_coeffs) ; simd_utils::loadl_epi64(components1, src_x) ; simd_utils::loadl_epi64(components2, src_x) ; _mm_unpacklo_epi8(source1, source2) ; _mm_unpacklo_epi8(source, _mm_setzero_si128()) ; _mm_add_epi32(sss0, _mm_madd_epi16(pix, mmk)) ; _mm_unpackhi_epi8(source, _mm_setzero_si128()) ; _mm_add_epi32(sss1, _mm_madd_epi16(pix, mmk)) ; first() ; iter_rows(y_last) ; _mm_set1_epi32(k as i32) ; simd_utils::loadl_epi64(components, src_x) ; _mm_unpacklo_epi8(source1, _mm_setzero_si128()) ; _mm_unpacklo_epi8(source, _mm_setzero_si128()) ; _mm_add_epi32(sss0, _mm_madd_epi16(pix, mmk)) ; _mm_unpackhi_epi8(source, _mm_setzero_si128()) ; _mm_add_epi32(sss1, _mm_madd_epi16(pix, mmk)) ; _mm_srai_epi32::<PRECISION>(sss0) ; _mm_srai_epi32::<PRECISION>(sss1) ; _mm_packs_epi32(sss0, sss1) ; _mm_packus_epi16(sss0, sss0) ; _mm_storel_epi64(dst_ptr, sss0) ; into_remainder() ; chunks_exact_mut(4) ; chunks_exact(2) ; remainder() ; iter_2_rows(y_start, max_rows) ; simd_utils::mm_load_and_clone_i16x2(two_coeffs) ; simd_utils::mm_cvtsi32_si128_from_u8(components1, src_x) ; simd_utils::mm_cvtsi32_si128_from_u8(components2, src_x) ; _mm_unpacklo_epi8(source1, source2) ; _mm_unpacklo_epi8(source, _mm_setzero_si128()) ; _mm_add_epi32(sss, _mm_madd_epi16(pix, mmk)) ; first() ; iter_rows(y_last) ; simd_utils::mm_cvtepu8_epi32_from_u8(components, src_x) ; _mm_set1_epi32(k as i32) ; _mm_add_epi32(sss, _mm_madd_epi16(pix, mmk)) ; _mm_srai_epi32::<PRECISION>(sss) ; _mm_packs_epi32(sss, sss) ; _mm_cvtsi128_si32(_mm_packus_epi16(sss, sss)) ; into_remainder() ; native::convolution_by_u8(src_view, normalizer, 1 << (PRECISION - 1), dst_u8, src_x, y_start, coeffs,)" := by rfl

/-! ### the AVX2 vertical pass for 8-bit components

    src/convolution/vertical_u8/avx2.rs differs from the SSE4.1 file only in the 32-component step, which uses 256-bit
    registers.  Every 256-bit instruction it uses there (`_mm256_unpacklo/hi_epi8`, `_mm256_madd_epi16`,
    `_mm256_add_epi32`, `_mm256_srai_epi32`, `_mm256_packs_epi32`, `_mm256_packus_epi16`) works on the two 128-bit halves
    independently (Intel's definition - the one modelling assumption here), `loadu_si256` is two 16-byte loads and the
    store concatenates the halves: the step is two copies of the 128-bit computation on bytes `[x, x+16)` and
    `[x+16, x+32)`, which is `Fir.SimdVertU8.chunk32 = block16 x ++ block16 (x + 16)`.  The 8- and 4-component steps are the
    SSE4.1 code verbatim.  So the three theorems above are also the theorems of the AVX2 kernel; its call sequence is
    pinned here, and the driver executes the lane model against the AVX2 kernel as well. -/

theorem vert_u8_avx2_chunk32_eq_portable (p : Nat) (hp : p < 32) (rows : List (List Int)) (ks : List Int)
    (h : ks.length ≤ rows.length) (x : Nat) :
    Fir.SimdVertU8.block16 p rows ks x ++ Fir.SimdVertU8.block16 p rows ks (x + 16)
      = (List.range 32).map fun j => clip8 (2 ^ (p - 1) + Fir.SimdVertU8.dotV rows ks (x + j)) p :=
  Fir.Proofs.vert_u8_sse4_chunk32_eq p hp rows ks h x

theorem vert_u8_avx2_source_as_modelled : Fir.Gen.vert_u8_avx2_skeleton =
    "_mm_set1_epi32(1 << (PRECISION as u8 - 1)) ; _mm256_set1_epi32(1 << (PRECISION as u8 - 1)) ; chunks_exact_mut(32) ; chunks_exact(2) ; remainder() ; iter_2_rows(y_start, max_rows) ; simd_utils::mm256_load_and_clone_i16x2(two_coeffs) ; simd_utils::loadu_si256(components1, src_x) ; simd_utils::loadu_si256(components2, src_x) ; _mm256_unpacklo_epi8(source1, source2) ; _mm256_unpacklo_epi8(source, _mm256_setzero_si256()) ; _mm256_add_epi32(sss0, _mm256_madd_epi16(pix, mmk)) ; _mm256_unpackhi_epi8(source, _mm256_setzero_si256()) ; _mm256_add_epi32(sss1, _mm256_madd_epi16(pix, mmk)) ; _mm256_unpackhi_epi8(source1, source2) ; _mm256_unpacklo_epi8(source, _mm256_setzero_si256()) ; _mm256_add_epi32(sss2, _mm256_madd_epi16(pix, mmk)) ; _mm256_unpackhi_epi8(source, _mm256_setzero_si256()) ; _mm256_add_epi32(sss3, _mm256_madd_epi16(pix, mmk)) ; first() ; iter_rows(y_last) ; _mm256_set1_epi32(k as i32) ; simd_utils::loadu_si256(components, src_x) ; _mm256_setzero_si256() ; _mm256_unpacklo_epi8(source1, source2) ; _mm256_unpacklo_epi8(source, _mm256_setzero_si256()) ; _mm256_add_epi32(sss0, _mm256_madd_epi16(pix, mmk)) ; _mm256_unpackhi_epi8(source, _mm256_setzero_si256()) ; _mm256_add_epi32(sss1, _mm256_madd_epi16(pix, mmk)) ; _mm256_unpackhi_epi8(source1, _mm256_setzero_si256()) ; _mm256_unpacklo_epi8(source, _mm256_setzero_si256()) ; _mm256_add_epi32(sss2, _mm256_madd_epi16(pix, mmk)) ; _mm256_unpackhi_epi8(source, _mm256_setzero_si256()) ; _mm256_add_epi32(sss3, _mm256_madd_epi16(pix, mmk)) ; _mm256_srai_epi32::<PRECISION>(sss0) ; _mm256_srai_epi32::<PRECISION>(sss1) ; _mm256_srai_epi32::<PRECISION>(sss2) ; _mm256_srai_epi32::<PRECISION>(sss3) ; _mm256_packs_epi32(sss0, sss1) ; _mm256_packs_epi32(sss2, sss3) ; _mm256_packus_epi16(sss0, sss2) ; _mm256_storeu_si256(dst_ptr, sss0) ; into_remainder() ; chunks_exact_mut(8) ; chunks_exact(2) ; remainder() ; iter_2_rows(y_start, max_rows) ; simd_utils::mm_load_and_clone_i16x2(two_coeffs) ; simd_utils::loadl_epi64(components1, src_x) ; simd_utils::loadl_epi64(components2, src_x) ; _mm_unpacklo_epi8(source1, source2) ; _mm_unpacklo_epi8(source, _mm_setzero_si128()) ; _mm_add_epi32(sss0, _mm_madd_epi16(pix, mmk)) ; _mm_unpackhi_epi8(source, _mm_setzero_si128()) ; _mm_add_epi32(sss1, _mm_madd_epi16(pix, mmk)) ; first() ; iter_rows(y_last) ; _mm_set1_epi32(k as i32) ; simd_utils::loadl_epi64(components, src_x) ; _mm_setzero_si128() ; _mm_unpacklo_epi8(source1, source2) ; _mm_unpacklo_epi8(source, _mm_setzero_si128()) ; _mm_add_epi32(sss0, _mm_madd_epi16(pix, mmk)) ; _mm_unpackhi_epi8(source, _mm_setzero_si128()) ; _mm_add_epi32(sss1, _mm_madd_epi16(pix, mmk)) ; _mm_srai_epi32::<PRECISION>(sss0) ; _mm_srai_epi32::<PRECISION>(sss1) ; _mm_packs_epi32(sss0, sss1) ; _mm_packus_epi16(sss0, sss0) ; _mm_storel_epi64(dst_ptr, sss0) ; into_remainder() ; chunks_exact_mut(4) ; chunks_exact(2) ; remainder() ; iter_2_rows(y_start, max_rows) ; simd_utils::mm_load_and_clone_i16x2(two_coeffs) ; simd_utils::mm_cvtsi32_si128_from_u8(components1, src_x) ; simd_utils::mm_cvtsi32_si128_from_u8(components2, src_x) ; _mm_unpacklo_epi8(row1, row2) ; _mm_unpacklo_epi8(pixels_u8, _mm_setzero_si128()) ; _mm_add_epi32(sss, _mm_madd_epi16(pixels_i16, two_coeffs)) ; first() ; iter_rows(y_last) ; simd_utils::mm_cvtepu8_epi32_from_u8(components, src_x) ; _mm_set1_epi32(k as i32) ; _mm_add_epi32(sss, _mm_madd_epi16(pix, mmk)) ; _mm_srai_epi32::<PRECISION>(sss) ; _mm_packs_epi32(sss, sss) ; _mm_cvtsi128_si32(_mm_packus_epi16(sss, sss)) ; into_remainder() ; native::convolution_by_u8(src_view, normalizer, 1 << (PRECISION as u8 - 1), dst_u8, src_x, y_start, coeffs,)" := by rfl

/-! ### the AVX2 four-row kernel of the U8x4 horizontal pass

    `horiz_convolution_four_rows` of src/convolution/u8x4/avx2.rs keeps two rows in one 256-bit register, one per
    128-bit half (`_mm256_inserti128_si256::<1>`), and applies to both halves the instructions the SSE4.1 kernel applies
    to one row: `_mm256_shuffle_epi8` shuffles each half with the matching half of its mask, `madd` / `add` / `srai` /
    `packs` / `packus` act per half, `_mm256_extracti128_si256` reads the halves back (Intel's definitions - the one
    modelling assumption).  Both halves of both masks are the masks of the SSE4.1 kernel (below, re-extracted on every
    run), the coefficient steps are the same 4 / 2 / 1, so every row of the AVX2 kernel is `Fir.SimdU8x4.pixelR` and
    `u8x4_sse4_four_rows_eq_portable` is its theorem too. -/

theorem u8x4_avx2_four_rows_masks :
    Fir.Gen.u8x4_avx2_four_sh1_lo = Fir.Gen.u8x4_sse4_four_mask_lo ∧ Fir.Gen.u8x4_avx2_four_sh1_hi = Fir.Gen.u8x4_sse4_four_mask_lo ∧
    Fir.Gen.u8x4_avx2_four_sh2_lo = Fir.Gen.u8x4_sse4_four_mask_hi ∧ Fir.Gen.u8x4_avx2_four_sh2_hi = Fir.Gen.u8x4_sse4_four_mask_hi ∧
    Fir.Gen.u8x4_sse4_four_mask = Fir.Gen.u8x4_sse4_four_mask_lo := by decide

theorem u8x4_avx2_four_rows_source_as_modelled : Fir.Gen.u8x4_avx2_four_rows_skeleton =
    "_mm256_setzero_si256 _mm256_set1_epi32 chunks_exact remainder simd_utils::mm256_load_and_clone_i16x2 simd_utils::mm256_load_and_clone_i16x2 _mm256_inserti128_si256::<1> _mm256_castsi128_si256 simd_utils::loadu_si128 simd_utils::loadu_si128 _mm256_shuffle_epi8 _mm256_add_epi32 _mm256_madd_epi16 _mm256_shuffle_epi8 _mm256_add_epi32 _mm256_madd_epi16 _mm256_inserti128_si256::<1> _mm256_castsi128_si256 simd_utils::loadu_si128 simd_utils::loadu_si128 _mm256_shuffle_epi8 _mm256_add_epi32 _mm256_madd_epi16 _mm256_shuffle_epi8 _mm256_add_epi32 _mm256_madd_epi16 chunks_exact remainder simd_utils::mm256_load_and_clone_i16x2 _mm256_inserti128_si256::<1> _mm256_castsi128_si256 simd_utils::loadl_epi64 simd_utils::loadl_epi64 _mm256_shuffle_epi8 _mm256_add_epi32 _mm256_madd_epi16 _mm256_inserti128_si256::<1> _mm256_castsi128_si256 simd_utils::loadl_epi64 simd_utils::loadl_epi64 _mm256_shuffle_epi8 _mm256_add_epi32 _mm256_madd_epi16 first _mm256_set1_epi32 _mm256_inserti128_si256::<1> _mm256_castsi128_si256 simd_utils::mm_cvtepu8_epi32 simd_utils::mm_cvtepu8_epi32 _mm256_add_epi32 _mm256_madd_epi16 _mm256_inserti128_si256::<1> _mm256_castsi128_si256 simd_utils::mm_cvtepu8_epi32 simd_utils::mm_cvtepu8_epi32 _mm256_add_epi32 _mm256_madd_epi16 _mm256_srai_epi32::<PRECISION> _mm256_srai_epi32::<PRECISION> _mm256_packs_epi32 _mm256_packs_epi32 _mm256_packus_epi16 _mm256_packus_epi16 _mm_cvtsi128_si32 _mm256_extracti128_si256::<0> _mm_cvtsi128_si32 _mm256_extracti128_si256::<1> _mm_cvtsi128_si32 _mm256_extracti128_si256::<0> _mm_cvtsi128_si32 _mm256_extracti128_si256::<1>" := by rfl

/-! ### the AVX2 one-row kernel of the U8x4 horizontal pass

    `horiz_convolution_one_row` of src/convolution/u8x4/avx2.rs, modelled with the two 128-bit halves of its 256-bit
    accumulator as a pair (masks `sh1 .. sh6` by halves and `sh7`, re-extracted from the source): 8 and 4 coefficients per
    step in the wide register - started at `1 << (PRECISION - 2)` per half and added at the end - then the 128-bit 2 / 1
    steps; fewer than 8 coefficients never enter the wide part. -/

/-- equal to the portable kernel for every coefficient list and every row, for precisions 2 .. 31 (precision 1 -
    a largest normalised weight of 8192 or more, far outside the documented head-room - would make the kernel
    evaluate `1 << (PRECISION - 2)` with a negative shift) -/
theorem u8x4_avx2_one_row_eq_portable (p : Nat) (hp2 : 2 ≤ p) (hp : p < 32) (row : List Int) (start : Nat) (ks : List Int) :
    Fir.SimdU8x4.pixelA p row start ks
      = [clip8 (2 ^ (p - 1) + Fir.SimdU8x4.dotC row 0 ks start) p, clip8 (2 ^ (p - 1) + Fir.SimdU8x4.dotC row 1 ks start) p,
         clip8 (2 ^ (p - 1) + Fir.SimdU8x4.dotC row 2 ks start) p, clip8 (2 ^ (p - 1) + Fir.SimdU8x4.dotC row 3 ks start) p] :=
  Fir.Proofs.u8x4_avx2_pixel_eq_portable p hp2 hp row start ks

/-- SSE4.1 and AVX2 store the same bytes (C02's statement, for this pass, as a theorem) -/
theorem u8x4_one_row_avx2_eq_sse4 (p : Nat) (hp2 : 2 ≤ p) (hp : p < 32) (row : List Int) (start : Nat) (ks : List Int) :
    Fir.SimdU8x4.pixelA p row start ks = Fir.SimdU8x4.pixel p row start ks := by
  rw [u8x4_avx2_one_row_eq_portable p hp2 hp, u8x4_sse4_one_row_eq_portable p hp]

theorem u8x4_avx2_one_row_source_as_modelled : Fir.Gen.u8x4_avx2_one_row_skeleton =
    "_mm_set1_epi32(1 << (PRECISION - 1)) ; _mm256_set1_epi32(1 << (PRECISION - 2)) ; chunks_exact(8) ; remainder() ; simd_utils::loadu_si128(k, 0) ; _mm256_insertf128_si256::<1>(_mm256_castsi128_si256(tmp), tmp) ; simd_utils::loadu_si256(src_row, x) ; _mm256_shuffle_epi8(source, sh1) ; _mm256_shuffle_epi8(ksource, sh2) ; _mm256_add_epi32(sss256, _mm256_madd_epi16(pix, mmk)) ; _mm256_shuffle_epi8(source, sh3) ; _mm256_shuffle_epi8(ksource, sh4) ; _mm256_add_epi32(sss256, _mm256_madd_epi16(pix, mmk)) ; chunks_exact(4) ; remainder() ; simd_utils::loadl_epi64(k, 0) ; _mm256_insertf128_si256::<1>(_mm256_castsi128_si256(tmp), tmp) ; simd_utils::loadu_si128(src_row, x) ; _mm256_insertf128_si256::<1>(_mm256_castsi128_si256(tmp), tmp) ; _mm256_shuffle_epi8(source, sh5) ; _mm256_shuffle_epi8(ksource, sh6) ; _mm256_add_epi32(sss256, _mm256_madd_epi16(pix, mmk)) ; _mm_add_epi32(_mm256_extracti128_si256::<0>(sss256), _mm256_extracti128_si256::<1>(sss256),) ; chunks_exact(2) ; remainder() ; simd_utils::mm_load_and_clone_i16x2(k) ; simd_utils::loadl_epi64(src_row, x) ; _mm_shuffle_epi8(source, sh7) ; _mm_add_epi32(sss, _mm_madd_epi16(pix, mmk)) ; first() ; simd_utils::mm_cvtepu8_epi32(src_row, x) ; _mm_set1_epi32(k as i32) ; _mm_add_epi32(sss, _mm_madd_epi16(pix, mmk)) ; _mm_srai_epi32::<PRECISION>(sss) ; _mm_packs_epi32(sss, sss) ; _mm_cvtsi128_si32(_mm_packus_epi16(sss, sss))" := by rfl

/-! ### RGB8: the SSE4.1 one-row kernel of U8x3 (`horiz_convolution_one_row` of src/convolution/u8x3/sse4.rs)

    Three bytes per pixel: the 16- and 8-byte loads cover fractions of pixels and the kernel leaves its 4- and
    2-coefficient loops as soon as such a load would pass the end of the row.  `Fir.SimdU8x3.pixel p w ..` keeps these
    data-dependent exits (`w` = row width); masks `pix_sh1`, `coef_sh1`, `pix_sh2`, `coef_sh2` from the source. -/

theorem u8x3_sse4_one_row_eq_portable (p w : Nat) (hp : p < 32) (row : List Int) (start : Nat) (ks : List Int) :
    Fir.SimdU8x3.pixel p w row start ks
      = [clip8 (2 ^ (p - 1) + Fir.SimdU8x3.dotC3 row 0 ks start) p, clip8 (2 ^ (p - 1) + Fir.SimdU8x3.dotC3 row 1 ks start) p,
         clip8 (2 ^ (p - 1) + Fir.SimdU8x3.dotC3 row 2 ks start) p] :=
  Fir.Proofs.u8x3_sse4_pixel_eq_portable p w hp row start ks

theorem u8x3_sse4_one_row_source_as_modelled : Fir.Gen.u8x3_sse4_one_row_skeleton =
    "_mm_set1_epi32(1 << (PRECISION - 1)) ; saturating_sub(5) ; chunks_exact(4) ; simd_utils::loadl_epi64(k, 0) ; simd_utils::loadu_si128(src_row, x) ; _mm_shuffle_epi8(source, pix_sh1) ; _mm_shuffle_epi8(ksource, coef_sh1) ; _mm_add_epi32(sss, _mm_madd_epi16(pix, mmk)) ; _mm_shuffle_epi8(source, pix_sh2) ; _mm_shuffle_epi8(ksource, coef_sh2) ; _mm_add_epi32(sss, _mm_madd_epi16(pix, mmk)) ; saturating_sub(2) ; chunks_exact(2) ; simd_utils::mm_load_and_clone_i16x2(k) ; simd_utils::loadl_epi64(src_row, x) ; _mm_shuffle_epi8(source, pix_sh1) ; _mm_add_epi32(sss, _mm_madd_epi16(pix, mmk)) ; split_at(x - x_start) ; simd_utils::mm_cvtepu8_epi32_u8x3(src_row, x) ; _mm_set1_epi32(k as i32) ; _mm_add_epi32(sss, _mm_madd_epi16(pix, mmk)) ; _mm_srai_epi32::<PRECISION>(sss) ; _mm_packs_epi32(sss, sss) ; _mm_cvtsi128_si32(_mm_packus_epi16(sss, sss)) | if x < max_x ; if x >= max_x ; if x < max_x ; if x >= max_x" := by rfl

/-! ### 16-bit components: the SSE4.1 vertical pass (U16, U16x2, U16x3, U16x4), lane by lane

    `Fir.Model.SimdVertU16` follows `vert_convolution_into_one_row_u16` of src/convolution/vertical_u16/sse4.rs: `_mm_shuffle_epi8`
    with `c_shuffles[0..3]` (from the source) puts two components into the low halves of the 64-bit lanes,
    `_mm_mul_epi32` multiplies them with the `i32` coefficient, `_mm_add_epi64` accumulates in `i64`, and every lane goes
    through the portable `Normalizer32::clip`.  `dotV16 rows ks x` is what the portable kernel accumulates. -/

theorem vert_u16_sse4_chunk16_eq_portable (p : Nat) (rows : List (List Int)) (ks : List Int) (h : ks.length ≤ rows.length) (x : Nat) :
    Fir.SimdVertU16.chunk16 p rows ks x
      = (List.range 16).map fun j => clip16 (2 ^ (p - 1) + Fir.SimdVertU16.dotV16 rows ks (x + j)) p :=
  Fir.Proofs.vert_u16_sse4_chunk16_eq p rows ks h x

theorem vert_u16_sse4_chunk8_eq_portable (p : Nat) (rows : List (List Int)) (ks : List Int) (h : ks.length ≤ rows.length) (x : Nat) :
    Fir.SimdVertU16.block8 p rows ks x
      = (List.range 8).map fun j => clip16 (2 ^ (p - 1) + Fir.SimdVertU16.dotV16 rows ks (x + j)) p :=
  Fir.Proofs.block8u_eq p rows ks h x

theorem vert_u16_sse4_chunk4_eq_portable (p : Nat) (rows : List (List Int)) (ks : List Int) (h : ks.length ≤ rows.length) (x : Nat) :
    Fir.SimdVertU16.chunk4 p rows ks x
      = (List.range 4).map fun j => clip16 (2 ^ (p - 1) + Fir.SimdVertU16.dotV16 rows ks (x + j)) p :=
  Fir.Proofs.vert_u16_sse4_chunk4_eq p rows ks h x

theorem vert_u16_sse4_source_as_modelled : Fir.Gen.vert_u16_sse4_skeleton =
    "_mm_set1_epi64x(1 << (precision - 1)) ; chunks_exact_mut(16) ; chunks_exact(2) ; remainder() ; iter_2_rows(y_start, max_rows) ; _mm_set1_epi64x(two_coeffs[r] as i64) ; simd_utils::loadu_si128(src_rows[r], src_x + x * 8) ; _mm_shuffle_epi8(source, c_shuffles[i]) ; _mm_add_epi64(sums[i][x], _mm_mul_epi32(c_i64x2, coeff_i64x2)) ; first() ; iter_rows(y_start + y) ; _mm_set1_epi64x(k as i64) ; simd_utils::loadu_si128(components, src_x + x * 8) ; _mm_shuffle_epi8(source, c_shuffles[i]) ; _mm_add_epi64(sums[i][x], _mm_mul_epi32(c_i64x2, coeff_i64x2)) ; _mm_storeu_si128(c_buf.as_mut_ptr() as *mut __m128i, sum[x]) ; normalizer.clip(c_buf[0]) ; normalizer.clip(c_buf[1]) ; into_remainder() ; chunks_exact_mut(8) ; chunks_exact(2) ; remainder() ; iter_2_rows(y_start, max_rows) ; _mm_set1_epi64x(two_coeffs[0] as i64) ; _mm_set1_epi64x(two_coeffs[1] as i64) ; simd_utils::loadu_si128(src_rows[r], src_x) ; _mm_shuffle_epi8(source, c_shuffles[i]) ; _mm_add_epi64(sums[i], _mm_mul_epi32(c_i64x2, coeffs_i64[r])) ; first() ; iter_rows(y_start + y) ; _mm_set1_epi64x(k as i64) ; simd_utils::loadu_si128(components, src_x) ; _mm_shuffle_epi8(source, c_shuffles[i]) ; _mm_add_epi64(sums[i], _mm_mul_epi32(c_i64x2, coeff_i64x2)) ; _mm_storeu_si128(c_buf.as_mut_ptr() as *mut __m128i, sum) ; normalizer.clip(c_buf[0]) ; normalizer.clip(c_buf[1]) ; into_remainder() ; chunks_exact_mut(4) ; chunks_exact(2) ; remainder() ; iter_2_rows(y_start, max_rows) ; _mm_set1_epi64x(two_coeffs[0] as i64) ; _mm_set1_epi64x(two_coeffs[1] as i64) ; _mm_set_epi64x(comp_x4[1] as i64, comp_x4[0] as i64) ; _mm_add_epi64(c01, _mm_mul_epi32(c_i64x2, coeffs_i64[r])) ; _mm_set_epi64x(comp_x4[3] as i64, comp_x4[2] as i64) ; _mm_add_epi64(c23, _mm_mul_epi32(c_i64x2, coeffs_i64[r])) ; first() ; iter_rows(y_start + y) ; _mm_set1_epi64x(k as i64) ; _mm_set_epi64x(comp_x4[1] as i64, comp_x4[0] as i64) ; _mm_add_epi64(c01, _mm_mul_epi32(c_i64x2, coeff_i64x2)) ; _mm_set_epi64x(comp_x4[3] as i64, comp_x4[2] as i64) ; _mm_add_epi64(c23, _mm_mul_epi32(c_i64x2, coeff_i64x2)) ; _mm_storeu_si128(c_buf.as_mut_ptr() as *mut __m128i, c01) ; normalizer.clip(c_buf[0]) ; normalizer.clip(c_buf[1]) ; _mm_storeu_si128(c_buf.as_mut_ptr() as *mut __m128i, c23) ; normalizer.clip(c_buf[0]) ; normalizer.clip(c_buf[1]) ; into_remainder() ; convolution_by_u16(src_view, normalizer, initial, dst_u16, src_x, y_start, coeffs,)" := by rfl

/-! ### the AVX2 vertical pass for 16-bit components

    src/convolution/vertical_u16/avx2.rs keeps 16 components in a 256-bit register: every instruction it uses
    (`_mm256_shuffle_epi8`, `_mm256_mul_epi32`, `_mm256_add_epi64`) acts on the two 128-bit halves independently, each half
    of every mask is the SSE4.1 mask (below), rows are taken one by one, and the four lanes of `sum[i]` are stored to
    components `2i, 2i+1` (low half) and `2i+8, 2i+9` (high half): the 16-component step is `block8 x ++ block8 (x + 8)`
    = `Fir.SimdVertU16.chunk16`.  The tail (< 16 components) copies the components into a zeroed 16-element buffer and
    runs the same code; each lane depends only on its own component, so its first components are those of
    `chunk16` as well. -/

theorem vert_u16_avx2_masks :
    Fir.Gen.vert_u16_avx2_shuffles =
      [(Fir.Gen.vert_u16_sse4_sh0, Fir.Gen.vert_u16_sse4_sh0), (Fir.Gen.vert_u16_sse4_sh1, Fir.Gen.vert_u16_sse4_sh1),
       (Fir.Gen.vert_u16_sse4_sh2, Fir.Gen.vert_u16_sse4_sh2), (Fir.Gen.vert_u16_sse4_sh3, Fir.Gen.vert_u16_sse4_sh3)] := by decide

theorem vert_u16_avx2_source_as_modelled : Fir.Gen.vert_u16_avx2_skeleton =
    "_mm256_set1_epi64x(1 << (precision - 1)) ; chunks_exact_mut(16) ; iter_rows(y_start) ; _mm256_set1_epi64x(coeff as i64) ; simd_utils::loadu_si256(components, src_x) ; _mm256_shuffle_epi8(source, shuffles[i]) ; _mm256_add_epi64(sum[i], _mm256_mul_epi32(comp_i64x4, coeff_i64x4)) ; _mm256_storeu_si256(comp_buf.as_mut_ptr() as *mut __m256i, sum[i]) ; get_unchecked_mut(i * 2) ; normalizer.clip(comp_buf[0]) ; get_unchecked_mut(i * 2 + 1) ; normalizer.clip(comp_buf[1]) ; get_unchecked_mut(i * 2 + 8) ; normalizer.clip(comp_buf[2]) ; get_unchecked_mut(i * 2 + 9) ; normalizer.clip(comp_buf[3]) ; into_remainder() ; iter_rows(y_start) ; get_unchecked(src_x..) ; _mm256_set1_epi64x(coeff as i64) ; simd_utils::loadu_si256(&buf, 0) ; _mm256_shuffle_epi8(source, shuffles[i]) ; _mm256_add_epi64(sum[i], _mm256_mul_epi32(comp_i64x4, coeff_i64x4)) ; _mm256_storeu_si256(comp_buf.as_mut_ptr() as *mut __m256i, sum[i]) ; get_unchecked_mut(i * 2) ; normalizer.clip(comp_buf[0]) ; get_unchecked_mut(i * 2 + 1) ; normalizer.clip(comp_buf[1]) ; get_unchecked_mut(i * 2 + 8) ; normalizer.clip(comp_buf[2]) ; get_unchecked_mut(i * 2 + 9) ; normalizer.clip(comp_buf[3])" := by rfl

/-! ### RGB8: the four-row kernel of the same pass -/

/-- per row, `horiz_convolution_four_rows` of src/convolution/u8x3/sse4.rs puts the same bytes into its registers as the
    one-row kernel (masks `sh_lo`, `sh_hi` = `pix_sh1`, `pix_sh2`; cloned coefficient pairs = shuffled coefficient
    register), under the same loop guards: it stores the same pixel, so the whole SSE4.1 horizontal pass of RGB8 equals
    the portable pass -/
theorem u8x3_sse4_four_rows_eq_portable (p w : Nat) (hp : p < 32) (row : List Int) (start : Nat) (ks : List Int) :
    Fir.SimdU8x3.pixelR p w row start ks
      = [clip8 (2 ^ (p - 1) + Fir.SimdU8x3.dotC3 row 0 ks start) p, clip8 (2 ^ (p - 1) + Fir.SimdU8x3.dotC3 row 1 ks start) p,
         clip8 (2 ^ (p - 1) + Fir.SimdU8x3.dotC3 row 2 ks start) p] := by
  rw [Fir.Proofs.u8x3_sse4_four_rows_eq_one_row]
  exact Fir.Proofs.u8x3_sse4_pixel_eq_portable p w hp row start ks

theorem u8x3_sse4_four_rows_source_as_modelled : Fir.Gen.u8x3_sse4_four_rows_skeleton =
    "_mm_setzero_si128() ; _mm_set1_epi32(1 << (PRECISION - 1)) ; saturating_sub(5) ; chunks_exact(4) ; simd_utils::mm_load_and_clone_i16x2(k) ; simd_utils::mm_load_and_clone_i16x2(&k[2..]) ; simd_utils::loadu_si128(src_rows[i], x) ; _mm_shuffle_epi8(source, sh_lo) ; _mm_add_epi32(sss, _mm_madd_epi16(pix, mmk0)) ; _mm_shuffle_epi8(source, sh_hi) ; _mm_add_epi32(sss, _mm_madd_epi16(pix, mmk1)) ; saturating_sub(2) ; chunks_exact(2) ; simd_utils::mm_load_and_clone_i16x2(k) ; simd_utils::loadl_epi64(src_rows[i], x) ; _mm_shuffle_epi8(source, sh_lo) ; _mm_add_epi32(sss_a[i], _mm_madd_epi16(pix, mmk)) ; split_at(x - x_start) ; _mm_set1_epi32(k as i32) ; simd_utils::mm_cvtepu8_epi32_u8x3(src_rows[i], x) ; _mm_add_epi32(sss_a[i], _mm_madd_epi16(pix, mmk)) ; _mm_srai_epi32::<PRECISION>(sss_a[0]) ; _mm_srai_epi32::<PRECISION>(sss_a[1]) ; _mm_srai_epi32::<PRECISION>(sss_a[2]) ; _mm_srai_epi32::<PRECISION>(sss_a[3]) ; _mm_packs_epi32(sss_a[i], zero) ; _mm_cvtsi128_si32(_mm_packus_epi16(sss, zero)) | if x < max_x ; if x >= max_x ; if x < max_x ; if x >= max_x" := by rfl

/-! ### single-channel 8-bit images: the SSE4.1 horizontal kernels of U8 (src/convolution/u8x1/sse4.rs)

    8 pixels widened with `_mm_cvtepu8_epi16` and multiplied with 8 coefficients by `_mm_madd_epi16`, at most one 4-pixel
    step, the horizontal sum of the four lanes plus the rounding constant, a scalar remainder of 0..3 coefficients, the
    portable `Normalizer16::clip`.  The four-row kernel does per row what the one-row kernel does. -/

theorem u8x1_sse4_eq_portable (p : Nat) (row : List Int) (start : Nat) (ks : List Int) :
    Fir.SimdU8x1.pixel p row start ks = clip8 (2 ^ (p - 1) + Fir.SimdU8x1.dot1 row ks start) p :=
  Fir.Proofs.u8x1_sse4_pixel_eq_portable p row start ks

theorem u8x1_sse4_source_as_modelled :
    Fir.Gen.u8x1_sse4_one_row_skeleton = "_mm_setzero_si128() ; normalizer.precision() ; chunks_exact(8) ; remainder() ; _mm_loadu_si128(k.as_ptr() as *const __m128i) ; simd_utils::loadl_epi64(src_row, x) ; _mm_cvtepu8_epi16(pixels_u8x8) ; _mm_add_epi32(result_i32x4, _mm_madd_epi16(pixels_i16x8, coeffs_i16x8)) ; chunks_exact(4) ; remainder() ; next() ; simd_utils::loadl_epi64(k, 0) ; simd_utils::loadl_epi32(src_row, x) ; _mm_cvtepu8_epi16(pixels_u8x4) ; _mm_add_epi32(result_i32x4, _mm_madd_epi16(pixels_i16x4, coeffs_i16x4)) ; _mm_storeu_si128(buf.as_mut_ptr() as *mut __m128i, result_i32x4) ; sum() ; normalizer.clip(result_i32) | let initial = 1 << (normalizer.precision() - 1) ; let mut buf = [0, 0, 0, 0, initial]" ∧
    Fir.Gen.u8x1_sse4_four_rows_skeleton = "_mm_setzero_si128() ; normalizer.precision() ; chunks_exact(8) ; remainder() ; _mm_loadu_si128(k.as_ptr() as *const __m128i) ; simd_utils::loadl_epi64(src_rows[i], x) ; _mm_cvtepu8_epi16(pixels_u8x8) ; _mm_add_epi32(result_i32x4[i], _mm_madd_epi16(pixels_i16x8, coeffs_i16x8)) ; chunks_exact(4) ; remainder() ; next() ; simd_utils::loadl_epi64(k, 0) ; simd_utils::loadl_epi32(src_rows[i], x) ; _mm_cvtepu8_epi16(pixels_u8x4) ; _mm_add_epi32(result_i32x4[i], _mm_madd_epi16(pixels_i16x4, coeffs_i16x4)) ; _mm_storeu_si128(buf.as_mut_ptr() as *mut __m128i, v) ; sum() ; normalizer.clip(v) | let initial = 1 << (normalizer.precision() - 1) ; let mut buf = [0, 0, 0, 0, initial]" := by
  constructor <;> rfl

/-! ### two-channel 8-bit images: the SSE4.1 horizontal kernels of U8x2 (src/convolution/u8x2/sse4.rs)

    Both kernels keep two 32-bit partial sums per channel, each started at `1 << (precision - 2)`, and join them with
    `i32::saturating_add` (`set_dst_pixel` / the end of `horiz_convolution_one_row`); the portable kernel keeps one wrapping
    `i32` per channel.  They agree for every coefficient list inside the `i32` headroom (`255 * Σ|k| + 2^(p-1) < 2^31`),
    which is what the normalizer guarantees (`Fir.C03.headroom_u8`: `p < PRECISION_BITS`, `Σ|k| ≤ 4 * 2^p`).  Every 8 / 4 / 2 / 1
    step of the four-row kernel and the 8 / 4 / gathered 1..3 steps of the one-row kernel are modelled lane by lane. -/

theorem u8x2_sse4_four_rows_eq_portable (p : Nat) (hp2 : 2 ≤ p) (row : List Int) (start : Nat) (ks : List Int)
    (hB : 255 * Fir.SimdU8x2.absSum ks + 2 ^ (p - 1) < (2 : Int) ^ 31) :
    Fir.SimdU8x2.pixelR p row start ks
      = [clip8 (2 ^ (p - 1) + Fir.SimdU8x2.dot2 row 0 ks start) p, clip8 (2 ^ (p - 1) + Fir.SimdU8x2.dot2 row 1 ks start) p] :=
  Fir.Proofs.U8x2.pixelR_eq_portable p hp2 row start ks hB

theorem u8x2_sse4_one_row_eq_portable (p : Nat) (hp2 : 2 ≤ p) (row : List Int) (start : Nat) (ks : List Int)
    (hB : 255 * Fir.SimdU8x2.absSum ks + 2 ^ (p - 1) < (2 : Int) ^ 31) :
    Fir.SimdU8x2.pixel p row start ks
      = [clip8 (2 ^ (p - 1) + Fir.SimdU8x2.dot2 row 0 ks start) p, clip8 (2 ^ (p - 1) + Fir.SimdU8x2.dot2 row 1 ks start) p] :=
  Fir.Proofs.U8x2.pixel_eq_portable p hp2 row start ks hB

/-- with the normalizer's own bounds (`precision < PRECISION_BITS`, translated; `Σ|k| ≤ 4 * 2^precision`) the saturating
    join is exact and both kernels of a pass give the same bytes -/
theorem u8x2_sse4_kernels_agree_normalized (p : Nat) (hp2 : 2 ≤ p) (hp : p < Fir.Gen.PRECISION_BITS) (row : List Int) (start : Nat)
    (ks : List Int) (hS : Fir.SimdU8x2.absSum ks ≤ 4 * 2 ^ p) :
    Fir.SimdU8x2.pixelR p row start ks = Fir.SimdU8x2.pixel p row start ks := by
  have hB : 255 * Fir.SimdU8x2.absSum ks + 2 ^ (p - 1) < (2 : Int) ^ 31 := by
    have hp' : p ≤ 21 := by unfold Fir.Gen.PRECISION_BITS at hp; omega
    have h1 : (2 : Int) ^ p ≤ 2 ^ 21 := Fir.Proofs.pow2_le p 21 hp'
    have h2 : (2 : Int) ^ (p - 1) ≤ 2 ^ p := Fir.Proofs.pow2_le (p - 1) p (by omega)
    generalize (2 : Int) ^ p = P at *
    generalize (2 : Int) ^ (p - 1) = Q at *
    generalize Fir.SimdU8x2.absSum ks = S at *
    norm_num at h1 ⊢
    omega
  rw [u8x2_sse4_four_rows_eq_portable p hp2 row start ks hB, u8x2_sse4_one_row_eq_portable p hp2 row start ks hB]

/-- the hypotheses are met by a concrete non-trivial case (precision 14, three coefficients with a negative lobe) -/
example : (2 ≤ 14) ∧ 255 * Fir.SimdU8x2.absSum [-1000, 18384, -1000] + 2 ^ (14 - 1) < (2 : Int) ^ 31 := by decide

theorem u8x2_sse4_source_as_modelled :
    Fir.Gen.u8x2_sse4_four_sh1 = [0, (-1), 2, (-1), 4, (-1), 6, (-1), 1, (-1), 3, (-1), 5, (-1), 7, (-1)] ∧
    Fir.Gen.u8x2_sse4_four_sh2 = [8, (-1), 10, (-1), 12, (-1), 14, (-1), 9, (-1), 11, (-1), 13, (-1), 15, (-1)] ∧
    Fir.Gen.u8x2_sse4_one_pix_sh1 = [0, (-1), 2, (-1), 1, (-1), 3, (-1), 4, (-1), 6, (-1), 5, (-1), 7, (-1)] ∧
    Fir.Gen.u8x2_sse4_one_coeff_sh1 = [0, 1, 2, 3, 0, 1, 2, 3, 4, 5, 6, 7, 4, 5, 6, 7] ∧
    Fir.Gen.u8x2_sse4_one_pix_sh2 = [8, (-1), 10, (-1), 9, (-1), 11, (-1), 12, (-1), 14, (-1), 13, (-1), 15, (-1)] ∧
    Fir.Gen.u8x2_sse4_one_coeff_sh2 = [8, 9, 10, 11, 8, 9, 10, 11, 12, 13, 14, 15, 12, 13, 14, 15] ∧
    Fir.Gen.u8x2_sse4_one_pix_sh3 = [0, (-1), 2, (-1), 1, (-1), 3, (-1), 4, (-1), 6, (-1), 5, (-1), 7, (-1)] ∧
    Fir.Gen.u8x2_sse4_four_rows_skeleton = "normalizer.precision() ; _mm_set1_epi32(1 << (precision - 2)) ; chunks_exact(8) ; remainder() ; simd_utils::ptr_i16_to_set1_epi64x(k, 0) ; simd_utils::ptr_i16_to_set1_epi64x(k, 4) ; simd_utils::loadu_si128(src_rows[i], x) ; _mm_shuffle_epi8(source, sh1) ; _mm_add_epi32(sss[i], _mm_madd_epi16(pix, mmk0)) ; _mm_shuffle_epi8(source, sh2) ; _mm_add_epi32(tmp_sum, _mm_madd_epi16(pix, mmk1)) ; chunks_exact(4) ; remainder() ; simd_utils::ptr_i16_to_set1_epi64x(k, 0) ; simd_utils::loadl_epi64(src_rows[i], x) ; _mm_shuffle_epi8(source, sh1) ; _mm_add_epi32(sss[i], _mm_madd_epi16(pix, mmk)) ; chunks_exact(2) ; remainder() ; simd_utils::mm_load_and_clone_i16x2(k) ; simd_utils::loadl_epi32(src_rows[i], x) ; _mm_shuffle_epi8(source, sh1) ; _mm_add_epi32(sss[i], _mm_madd_epi16(pix, mmk)) ; first() ; _mm_set1_epi32(k as i32) ; simd_utils::loadl_epi16(src_rows[i], x) ; _mm_shuffle_epi8(source, sh1) ; _mm_add_epi32(sss[i], _mm_madd_epi16(pix, mmk)) ; set_dst_pixel(sss[i], dst_rows[i], dst_x, normalizer)" ∧
    Fir.Gen.u8x2_sse4_one_row_skeleton = "normalizer.precision() ; _mm_set1_epi32(1 << (precision - 2)) ; chunks_exact(8) ; remainder() ; simd_utils::loadu_si128(k, 0) ; simd_utils::loadu_si128(src_row, x) ; _mm_shuffle_epi8(source, pix_sh1) ; _mm_shuffle_epi8(ksource, coeff_sh1) ; _mm_add_epi32(sss, _mm_madd_epi16(pix, mmk)) ; _mm_shuffle_epi8(source, pix_sh2) ; _mm_shuffle_epi8(ksource, coeff_sh2) ; _mm_add_epi32(sss, _mm_madd_epi16(pix, mmk)) ; chunks_exact(4) ; remainder() ; _mm_set_epi16(k[3], k[2], k[3], k[2], k[1], k[0], k[1], k[0]) ; simd_utils::loadl_epi64(src_row, x) ; _mm_shuffle_epi8(source, pix_sh3) ; _mm_add_epi32(sss, _mm_madd_epi16(pix, mmk)) ; is_empty() ; _mm_set_epi16(0, pixels[5], 0, pixels[4], pixels[3], pixels[1], pixels[2], pixels[0],) ; _mm_set_epi16(0, coeffs[2], 0, coeffs[2], coeffs[1], coeffs[0], coeffs[1], coeffs[0],) ; _mm_add_epi32(sss, _mm_madd_epi16(pix, mmk)) ; _mm_extract_epi64::<0>(sss) ; _mm_extract_epi64::<1>(sss) ; saturating_add((hi >> 32) as i32) ; saturating_add((hi & 0xffffffff) as i32) ; normalizer.clip(a32) ; normalizer.clip(l32) | coeffs[i] = coeff ; pixels[i * 2] = pixel[0] as i16 ; pixels[i * 2 + 1] = pixel[1] as i16 ; let a32 = ((lo >> 32) as i32).saturating_add((hi >> 32) as i32) ; let l32 = ((lo & 0xffffffff) as i32).saturating_add((hi & 0xffffffff) as i32) ; dst_row.get_unchecked_mut(dst_x).0 = [l8, a8]" ∧
    Fir.Gen.u8x2_sse4_set_dst_pixel = "let l32x2 = _mm_extract_epi64::<0>(raw) ; let a32x2 = _mm_extract_epi64::<1>(raw) ; let l32 = ((l32x2 >> 32) as i32).saturating_add((l32x2 & 0xffffffff) as i32) ; let a32 = ((a32x2 >> 32) as i32).saturating_add((a32x2 & 0xffffffff) as i32) ; let l8 = normalizer.clip(l32) ; let a8 = normalizer.clip(a32) ; d_row.get_unchecked_mut(dst_x).0 = [l8, a8]" := by
  refine ⟨rfl, rfl, rfl, rfl, rfl, rfl, rfl, rfl, rfl, rfl⟩

/-! ### single-channel 16-bit images: the SSE4.1 horizontal kernels of U16 (src/convolution/u16x1/sse4.rs)

    Two 64-bit accumulators; pairs of pixels moved into the low halves of the lanes by `_mm_shuffle_epi8` (masks from the source),
    multiplied with pairs of `i32` coefficients by `_mm_mul_epi32` and added by `_mm_add_epi64`; steps of 8 / 4 / 2 coefficients
    and a last single one; the two lanes and the rounding constant summed in wrapping `i64`, the portable `Normalizer32::clip`.
    All additions are 64-bit wrapping additions, as in the portable kernel, so equality needs no headroom premise.
    The four-row kernel uses masks of other names; they are proved to be the same masks, and its call sequence is pinned. -/

theorem u16x1_sse4_eq_portable (p : Nat) (row : List Int) (start : Nat) (ks : List Int) :
    Fir.SimdU16x1.pixel p row start ks = clip16 (2 ^ (p - 1) + Fir.SimdU16x1.dot16 row ks start) p :=
  Fir.Proofs.U16x1.pixel_eq_portable p row start ks

theorem u16x1_sse4_four_rows_masks :
    Fir.Gen.u16x1_sse4_four_l01 = Fir.Gen.u16x1_sse4_l01 ∧ Fir.Gen.u16x1_sse4_four_l23 = Fir.Gen.u16x1_sse4_l23 ∧
    Fir.Gen.u16x1_sse4_four_l45 = Fir.Gen.u16x1_sse4_l45 ∧ Fir.Gen.u16x1_sse4_four_l67 = Fir.Gen.u16x1_sse4_l67 := by
  refine ⟨?_, ?_, ?_, ?_⟩ <;> decide

theorem u16x1_sse4_source_as_modelled :
    Fir.Gen.u16x1_sse4_one_row_skeleton = "normalizer.precision() ; _mm_set1_epi64x(0) ; chunks_exact(8) ; remainder() ; _mm_set_epi64x(k[1] as i64, k[0] as i64) ; _mm_set_epi64x(k[3] as i64, k[2] as i64) ; _mm_set_epi64x(k[5] as i64, k[4] as i64) ; _mm_set_epi64x(k[7] as i64, k[6] as i64) ; simd_utils::loadu_si128(src_row, x) ; _mm_shuffle_epi8(source, l01_shuffle) ; _mm_add_epi64(ll_sum, _mm_mul_epi32(l_i64x2, coeff01_i64x2)) ; _mm_shuffle_epi8(source, l23_shuffle) ; _mm_add_epi64(ll_sum, _mm_mul_epi32(l_i64x2, coeff23_i64x2)) ; _mm_shuffle_epi8(source, l45_shuffle) ; _mm_add_epi64(ll_sum, _mm_mul_epi32(l_i64x2, coeff45_i64x2)) ; _mm_shuffle_epi8(source, l67_shuffle) ; _mm_add_epi64(ll_sum, _mm_mul_epi32(l_i64x2, coeff67_i64x2)) ; chunks_exact(4) ; remainder() ; _mm_set_epi64x(k[1] as i64, k[0] as i64) ; _mm_set_epi64x(k[3] as i64, k[2] as i64) ; simd_utils::loadl_epi64(src_row, x) ; _mm_shuffle_epi8(source, l01_shuffle) ; _mm_add_epi64(ll_sum, _mm_mul_epi32(l_i64x2, coeff01_i64x2)) ; _mm_shuffle_epi8(source, l23_shuffle) ; _mm_add_epi64(ll_sum, _mm_mul_epi32(l_i64x2, coeff23_i64x2)) ; chunks_exact(2) ; remainder() ; _mm_set_epi64x(k[1] as i64, k[0] as i64) ; simd_utils::loadl_epi32(src_row, x) ; _mm_shuffle_epi8(source, l01_shuffle) ; _mm_add_epi64(ll_sum, _mm_mul_epi32(l_i64x2, coeff01_i64x2)) ; first() ; _mm_set_epi64x(0, k as i64) ; get_unchecked(x) ; _mm_set_epi64x(0, pixel) ; _mm_add_epi64(ll_sum, _mm_mul_epi32(source, coeff01_i64x2)) ; _mm_storeu_si128(ll_buf.as_mut_ptr() as *mut __m128i, ll_sum) ; normalizer.clip(ll_buf[0] + ll_buf[1] + half_error)" ∧
    Fir.Gen.u16x1_sse4_four_rows_skeleton = "normalizer.precision() ; _mm_set1_epi64x(0) ; chunks_exact(8) ; remainder() ; _mm_set_epi64x(k[1] as i64, k[0] as i64) ; _mm_set_epi64x(k[3] as i64, k[2] as i64) ; _mm_set_epi64x(k[5] as i64, k[4] as i64) ; _mm_set_epi64x(k[7] as i64, k[6] as i64) ; simd_utils::loadu_si128(src_rows[i], x) ; _mm_shuffle_epi8(source, l0l1_shuffle) ; _mm_add_epi64(sum, _mm_mul_epi32(l0l1_i64x2, coeff01_i64x2)) ; _mm_shuffle_epi8(source, l2l3_shuffle) ; _mm_add_epi64(sum, _mm_mul_epi32(l2l3_i64x2, coeff23_i64x2)) ; _mm_shuffle_epi8(source, l4l5_shuffle) ; _mm_add_epi64(sum, _mm_mul_epi32(l4l5_i64x2, coeff45_i64x2)) ; _mm_shuffle_epi8(source, l6l7_shuffle) ; _mm_add_epi64(sum, _mm_mul_epi32(l6l7_i64x2, coeff67_i64x2)) ; chunks_exact(4) ; remainder() ; _mm_set_epi64x(k[1] as i64, k[0] as i64) ; _mm_set_epi64x(k[3] as i64, k[2] as i64) ; simd_utils::loadl_epi64(src_rows[i], x) ; _mm_shuffle_epi8(source, l0l1_shuffle) ; _mm_add_epi64(sum, _mm_mul_epi32(l0l1_i64x2, coeff01_i64x2)) ; _mm_shuffle_epi8(source, l2l3_shuffle) ; _mm_add_epi64(sum, _mm_mul_epi32(l2l3_i64x2, coeff23_i64x2)) ; chunks_exact(2) ; remainder() ; _mm_set_epi64x(k[1] as i64, k[0] as i64) ; simd_utils::loadl_epi32(src_rows[i], x) ; _mm_shuffle_epi8(source, l0l1_shuffle) ; _mm_add_epi64(ll_sum[i], _mm_mul_epi32(l_i64x2, coeff01_i64x2)) ; first() ; _mm_set_epi64x(0, k as i64) ; get_unchecked(x) ; _mm_set_epi64x(0, pixel) ; _mm_add_epi64(ll_sum[i], _mm_mul_epi32(source, coeff01_i64x2)) ; _mm_storeu_si128(ll_buf.as_mut_ptr() as *mut __m128i, ll_sum[i]) ; normalizer.clip(ll_buf.iter().sum::<i64>() + half_error)" := by
  constructor <;> rfl

/-! ### RGBA16: the SSE4.1 horizontal kernels of U16x4 (src/convolution/u16x4/sse4.rs)

    Two accumulators `[R, G]` and `[B, A]` of 64-bit lanes started at `1 << (precision - 1)`, two pixels per load, components
    shuffled into the low halves of the lanes (masks from the source), `_mm_mul_epi32` with `_mm_set1_epi64x(k as i64)`,
    `_mm_add_epi64`; a last single coefficient; each lane through the portable `Normalizer32::clip`. -/

theorem u16x4_sse4_eq_portable (p : Nat) (row : List Int) (start : Nat) (ks : List Int) :
    Fir.SimdU16x4.pixel p row start ks
      = [clip16 (2 ^ (p - 1) + Fir.SimdU16x4.dotC16 row 0 ks start) p, clip16 (2 ^ (p - 1) + Fir.SimdU16x4.dotC16 row 1 ks start) p,
         clip16 (2 ^ (p - 1) + Fir.SimdU16x4.dotC16 row 2 ks start) p, clip16 (2 ^ (p - 1) + Fir.SimdU16x4.dotC16 row 3 ks start) p] :=
  Fir.Proofs.U16x4.pixel_eq_portable p row start ks

theorem u16x4_sse4_four_rows_masks :
    Fir.Gen.u16x4_sse4_four_rg0 = Fir.Gen.u16x4_sse4_rg0 ∧ Fir.Gen.u16x4_sse4_four_rg1 = Fir.Gen.u16x4_sse4_rg1 ∧
    Fir.Gen.u16x4_sse4_four_ba0 = Fir.Gen.u16x4_sse4_ba0 ∧ Fir.Gen.u16x4_sse4_four_ba1 = Fir.Gen.u16x4_sse4_ba1 := by
  refine ⟨?_, ?_, ?_, ?_⟩ <;> decide

theorem u16x4_sse4_source_as_modelled :
    Fir.Gen.u16x4_sse4_one_row_skeleton = "normalizer.precision() ; _mm_set1_epi64x(half_error) ; _mm_set1_epi64x(half_error) ; chunks_exact(2) ; remainder() ; _mm_set1_epi64x(k[0] as i64) ; _mm_set1_epi64x(k[1] as i64) ; simd_utils::loadu_si128(src_row, x) ; _mm_shuffle_epi8(source, rg0_shuffle) ; _mm_add_epi64(rg_sum, _mm_mul_epi32(rg_i64x2, coeff0_i64x2)) ; _mm_shuffle_epi8(source, rg1_shuffle) ; _mm_add_epi64(rg_sum, _mm_mul_epi32(rg_i64x2, coeff1_i64x2)) ; _mm_shuffle_epi8(source, ba0_shuffle) ; _mm_add_epi64(ba_sum, _mm_mul_epi32(ba_i64x2, coeff0_i64x2)) ; _mm_shuffle_epi8(source, ba1_shuffle) ; _mm_add_epi64(ba_sum, _mm_mul_epi32(ba_i64x2, coeff1_i64x2)) ; first() ; _mm_set1_epi64x(k as i64) ; simd_utils::loadl_epi64(src_row, x) ; _mm_shuffle_epi8(source, rg0_shuffle) ; _mm_add_epi64(rg_sum, _mm_mul_epi32(rg_i64x2, coeff0_i64x2)) ; _mm_shuffle_epi8(source, ba0_shuffle) ; _mm_add_epi64(ba_sum, _mm_mul_epi32(ba_i64x2, coeff0_i64x2)) ; _mm_storeu_si128(rg_buf.as_mut_ptr() as *mut __m128i, rg_sum) ; _mm_storeu_si128(ba_buf.as_mut_ptr() as *mut __m128i, ba_sum) ; normalizer.clip(rg_buf[0]) ; normalizer.clip(rg_buf[1]) ; normalizer.clip(ba_buf[0]) ; normalizer.clip(ba_buf[1])" ∧
    Fir.Gen.u16x4_sse4_four_rows_skeleton = "normalizer.precision() ; _mm_set1_epi64x(half_error) ; _mm_set1_epi64x(half_error) ; chunks_exact(2) ; remainder() ; _mm_set1_epi64x(k[0] as i64) ; _mm_set1_epi64x(k[1] as i64) ; simd_utils::loadu_si128(src_rows[i], x) ; _mm_shuffle_epi8(source, rg0_shuffle) ; _mm_add_epi64(sum, _mm_mul_epi32(rg_i64x2, coeff0_i64x2)) ; _mm_shuffle_epi8(source, rg1_shuffle) ; _mm_add_epi64(sum, _mm_mul_epi32(rg_i64x2, coeff1_i64x2)) ; _mm_shuffle_epi8(source, ba0_shuffle) ; _mm_add_epi64(sum, _mm_mul_epi32(ba_i64x2, coeff0_i64x2)) ; _mm_shuffle_epi8(source, ba1_shuffle) ; _mm_add_epi64(sum, _mm_mul_epi32(ba_i64x2, coeff1_i64x2)) ; first() ; _mm_set1_epi64x(k as i64) ; simd_utils::loadl_epi64(src_rows[i], x) ; _mm_shuffle_epi8(source, rg0_shuffle) ; _mm_add_epi64(rg_sum[i], _mm_mul_epi32(rg_i64x2, coeff0_i64x2)) ; _mm_shuffle_epi8(source, ba0_shuffle) ; _mm_add_epi64(ba_sum[i], _mm_mul_epi32(ba_i64x2, coeff0_i64x2)) ; _mm_storeu_si128(rg_buf.as_mut_ptr() as *mut __m128i, rg_sum[i]) ; _mm_storeu_si128(ba_buf.as_mut_ptr() as *mut __m128i, ba_sum[i]) ; normalizer.clip(rg_buf[0]) ; normalizer.clip(rg_buf[1]) ; normalizer.clip(ba_buf[0]) ; normalizer.clip(ba_buf[1])" := by
  constructor <;> rfl

/-! ### LA16: the SSE4.1 horizontal kernels of U16x2 (src/convolution/u16x2/sse4.rs)

    One accumulator `[L, A]` of 64-bit lanes started at `1 << (precision - 1)`; four pixels per load, each shuffled into the low
    halves of the lanes (masks `p0 .. p3` from the source), `_mm_mul_epi32` with `_mm_set1_epi64x(k as i64)`, `_mm_add_epi64`;
    at most one 2-coefficient step and one last coefficient; both lanes through the portable `Normalizer32::clip`. -/

theorem u16x2_sse4_eq_portable (p : Nat) (row : List Int) (start : Nat) (ks : List Int) :
    Fir.SimdU16x2.pixel p row start ks
      = [clip16 (2 ^ (p - 1) + Fir.SimdU16x2.dotLA row 0 ks start) p, clip16 (2 ^ (p - 1) + Fir.SimdU16x2.dotLA row 1 ks start) p] :=
  Fir.Proofs.U16x2.pixel_eq_portable p row start ks

theorem u16x2_sse4_four_rows_masks :
    Fir.Gen.u16x2_sse4_four_p0 = Fir.Gen.u16x2_sse4_p0 ∧ Fir.Gen.u16x2_sse4_four_p1 = Fir.Gen.u16x2_sse4_p1 ∧
    Fir.Gen.u16x2_sse4_four_p2 = Fir.Gen.u16x2_sse4_p2 ∧ Fir.Gen.u16x2_sse4_four_p3 = Fir.Gen.u16x2_sse4_p3 := by
  refine ⟨?_, ?_, ?_, ?_⟩ <;> decide

theorem u16x2_sse4_source_as_modelled :
    Fir.Gen.u16x2_sse4_one_row_skeleton = "normalizer.precision() ; _mm_set1_epi64x(half_error) ; chunks_exact(4) ; remainder() ; _mm_set1_epi64x(k[0] as i64) ; _mm_set1_epi64x(k[1] as i64) ; _mm_set1_epi64x(k[2] as i64) ; _mm_set1_epi64x(k[3] as i64) ; simd_utils::loadu_si128(src_row, x) ; _mm_shuffle_epi8(source, p0_shuffle) ; _mm_add_epi64(ll_sum, _mm_mul_epi32(p_i64x2, coeff0_i64x2)) ; _mm_shuffle_epi8(source, p1_shuffle) ; _mm_add_epi64(ll_sum, _mm_mul_epi32(p_i64x2, coeff1_i64x2)) ; _mm_shuffle_epi8(source, p2_shuffle) ; _mm_add_epi64(ll_sum, _mm_mul_epi32(p_i64x2, coeff2_i64x2)) ; _mm_shuffle_epi8(source, p3_shuffle) ; _mm_add_epi64(ll_sum, _mm_mul_epi32(p_i64x2, coeff3_i64x2)) ; chunks_exact(2) ; remainder() ; _mm_set1_epi64x(k[0] as i64) ; _mm_set1_epi64x(k[1] as i64) ; simd_utils::loadl_epi64(src_row, x) ; _mm_shuffle_epi8(source, p0_shuffle) ; _mm_add_epi64(ll_sum, _mm_mul_epi32(p_i64x2, coeff0_i64x2)) ; _mm_shuffle_epi8(source, p1_shuffle) ; _mm_add_epi64(ll_sum, _mm_mul_epi32(p_i64x2, coeff1_i64x2)) ; first() ; _mm_set1_epi64x(k as i64) ; simd_utils::loadl_epi32(src_row, x) ; _mm_shuffle_epi8(source, p0_shuffle) ; _mm_add_epi64(ll_sum, _mm_mul_epi32(p_i64x2, coeff0_i64x2)) ; _mm_storeu_si128(ll_buf.as_mut_ptr() as *mut __m128i, ll_sum) ; normalizer.clip(ll_buf[0]) ; normalizer.clip(ll_buf[1])" ∧
    Fir.Gen.u16x2_sse4_four_rows_skeleton = "normalizer.precision() ; _mm_set1_epi64x(half_error) ; chunks_exact(4) ; remainder() ; _mm_set1_epi64x(k[0] as i64) ; _mm_set1_epi64x(k[1] as i64) ; _mm_set1_epi64x(k[2] as i64) ; _mm_set1_epi64x(k[3] as i64) ; simd_utils::loadu_si128(src_rows[i], x) ; _mm_shuffle_epi8(source, p0_shuffle) ; _mm_add_epi64(sum, _mm_mul_epi32(p_i64x2, coeff0_i64x2)) ; _mm_shuffle_epi8(source, p1_shuffle) ; _mm_add_epi64(sum, _mm_mul_epi32(p_i64x2, coeff1_i64x2)) ; _mm_shuffle_epi8(source, p2_shuffle) ; _mm_add_epi64(sum, _mm_mul_epi32(p_i64x2, coeff2_i64x2)) ; _mm_shuffle_epi8(source, p3_shuffle) ; _mm_add_epi64(sum, _mm_mul_epi32(p_i64x2, coeff3_i64x2)) ; chunks_exact(2) ; remainder() ; _mm_set1_epi64x(k[0] as i64) ; _mm_set1_epi64x(k[1] as i64) ; simd_utils::loadl_epi64(src_rows[i], x) ; _mm_shuffle_epi8(source, p0_shuffle) ; _mm_add_epi64(sum, _mm_mul_epi32(p_i64x2, coeff0_i64x2)) ; _mm_shuffle_epi8(source, p1_shuffle) ; _mm_add_epi64(sum, _mm_mul_epi32(p_i64x2, coeff1_i64x2)) ; first() ; _mm_set1_epi64x(k as i64) ; simd_utils::loadl_epi32(src_rows[i], x) ; _mm_shuffle_epi8(source, p0_shuffle) ; _mm_add_epi64(ll_sum[i], _mm_mul_epi32(p_i64x2, coeff0_i64x2)) ; _mm_storeu_si128(ll_buf.as_mut_ptr() as *mut __m128i, ll_sum[i]) ; normalizer.clip(ll_buf[0]) ; normalizer.clip(ll_buf[1])" := by
  constructor <;> rfl

/-! ### RGB16: the SSE4.1 horizontal kernels of U16x3 (src/convolution/u16x3/sse4.rs)

    Accumulators `rg = [R, G]` and `bb` (B of even / odd steps, summed at the end).  A 128-bit load covers two pixels and a third
    of the next, so the two-coefficient loop runs only when the window ends before the last pixel (`width - end_x >= 1`);
    otherwise, and for a last odd coefficient, pixels are read component by component.  The one-row kernel starts the lanes at
    `1 << (precision - 1)` / `1 << (precision - 2)`, the four-row kernel at zero (adding `half_error` at the end).  Both equal
    the portable kernel for every row width; the 128-bit loads stay inside the row (C03). -/

theorem u16x3_sse4_one_row_eq_portable (p w : Nat) (hp2 : 2 ≤ p) (row : List Int) (start : Nat) (ks : List Int) :
    Fir.SimdU16x3.pixel p w row start ks
      = [clip16 (2 ^ (p - 1) + Fir.SimdU16x3.dot3 row 0 ks start) p, clip16 (2 ^ (p - 1) + Fir.SimdU16x3.dot3 row 1 ks start) p,
         clip16 (2 ^ (p - 1) + Fir.SimdU16x3.dot3 row 2 ks start) p] :=
  Fir.Proofs.U16x3.pixel_eq_portable p w hp2 row start ks

theorem u16x3_sse4_four_rows_eq_portable (p w : Nat) (row : List Int) (start : Nat) (ks : List Int) :
    Fir.SimdU16x3.pixelR p w row start ks
      = [clip16 (2 ^ (p - 1) + Fir.SimdU16x3.dot3 row 0 ks start) p, clip16 (2 ^ (p - 1) + Fir.SimdU16x3.dot3 row 1 ks start) p,
         clip16 (2 ^ (p - 1) + Fir.SimdU16x3.dot3 row 2 ks start) p] :=
  Fir.Proofs.U16x3.pixelR_eq_portable p w row start ks

/-- every 128-bit load of the pair loop (16 bytes from pixel `x`, 6 bytes per pixel) lies inside the row of `w` pixels -/
theorem u16x3_sse4_loads_in_row (w start : Nat) (ks : List Int) :
    ∀ x ∈ Fir.SimdU16x3.loads w start ks, 6 * x + 16 ≤ 6 * w :=
  Fir.Proofs.U16x3.loads_in_row w start ks

/-- the load list is not empty in general: a window of 5 coefficients at pixel 2 of a row of 9 pixels loads at pixels 2 and 4 -/
example : Fir.SimdU16x3.loads 9 2 [1, 2, 3, 4, 5] = [2, 4] := by decide

theorem u16x3_sse4_four_rows_masks :
    Fir.Gen.u16x3_sse4_four_rg0 = Fir.Gen.u16x3_sse4_rg0 ∧ Fir.Gen.u16x3_sse4_four_rg1 = Fir.Gen.u16x3_sse4_rg1 ∧
    Fir.Gen.u16x3_sse4_four_bb = Fir.Gen.u16x3_sse4_bb := by
  refine ⟨?_, ?_, ?_⟩ <;> decide

theorem u16x3_sse4_source_as_modelled :
    Fir.Gen.u16x3_sse4_one_row_skeleton = "normalizer.precision() ; _mm_set1_epi64x(1 << (precision - 1)) ; _mm_set1_epi64x(1 << (precision - 2)) ; chunks_exact(2) ; remainder() ; _mm_set1_epi64x(k[0] as i64) ; _mm_set1_epi64x(k[1] as i64) ; _mm_set_epi64x(k[1] as i64, k[0] as i64) ; simd_utils::loadu_si128(src_row, x) ; _mm_shuffle_epi8(source, rg0_shuffle) ; _mm_add_epi64(rg_sum, _mm_mul_epi32(rg0_i64x2, coeff0_i64x2)) ; _mm_shuffle_epi8(source, rg1_shuffle) ; _mm_add_epi64(rg_sum, _mm_mul_epi32(rg1_i64x2, coeff1_i64x2)) ; _mm_shuffle_epi8(source, bb_shuffle) ; _mm_add_epi64(bb_sum, _mm_mul_epi32(bb_i64x2, coeff_i64x2)) ; _mm_set1_epi64x(k as i64) ; get_unchecked(x) ; _mm_set_epi64x(pixel.0[1] as i64, pixel.0[0] as i64) ; _mm_add_epi64(rg_sum, _mm_mul_epi32(rg_i64x2, coeff_i64x2)) ; _mm_set_epi64x(0, pixel.0[2] as i64) ; _mm_add_epi64(bb_sum, _mm_mul_epi32(bb_i64x2, coeff_i64x2)) ; _mm_storeu_si128(rg_buf.as_mut_ptr() as *mut __m128i, rg_sum) ; _mm_storeu_si128(bb_buf.as_mut_ptr() as *mut __m128i, bb_sum) ; normalizer.clip(rg_buf[0]) ; normalizer.clip(rg_buf[1]) ; normalizer.clip(bb_buf[0] + bb_buf[1]) | let width = src_row.len() ; let end_x = x + coeffs.len() ; if width - end_x >= 1 ; for &k in coeffs" ∧
    Fir.Gen.u16x3_sse4_four_rows_skeleton = "normalizer.precision() ; _mm_set1_epi8(0) ; _mm_set1_epi8(0) ; chunks_exact(2) ; remainder() ; _mm_set1_epi64x(k[0] as i64) ; _mm_set1_epi64x(k[1] as i64) ; _mm_set_epi64x(k[1] as i64, k[0] as i64) ; simd_utils::loadu_si128(src_rows[i], x) ; _mm_shuffle_epi8(source, rg0_shuffle) ; _mm_add_epi64(rg_sum[i], _mm_mul_epi32(rg0_i64x2, coeff0_i64x2)) ; _mm_shuffle_epi8(source, rg1_shuffle) ; _mm_add_epi64(rg_sum[i], _mm_mul_epi32(rg1_i64x2, coeff1_i64x2)) ; _mm_shuffle_epi8(source, bb_shuffle) ; _mm_add_epi64(bb_sum[i], _mm_mul_epi32(bb_i64x2, coeff_i64x2)) ; _mm_set1_epi64x(k as i64) ; get_unchecked(x) ; _mm_set_epi64x(pixel.0[1] as i64, pixel.0[0] as i64) ; _mm_add_epi64(rg_sum[i], _mm_mul_epi32(rg_i64x2, coeff_i64x2)) ; _mm_set_epi64x(0, pixel.0[2] as i64) ; _mm_add_epi64(bb_sum[i], _mm_mul_epi32(bb_i64x2, coeff_i64x2)) ; _mm_storeu_si128(rg_buf.as_mut_ptr() as *mut __m128i, rg_sum[i]) ; _mm_storeu_si128(bb_buf.as_mut_ptr() as *mut __m128i, bb_sum[i]) ; normalizer.clip(rg_buf[0] + half_error) ; normalizer.clip(rg_buf[1] + half_error) ; normalizer.clip(bb_buf[0] + bb_buf[1] + half_error) | let width = src_rows[0].len() ; let end_x = x + coeffs.len() ; if width - end_x >= 1 ; for &k in coeffs" := by
  constructor <;> rfl

/-! ### the SIMD kernels in the vocabulary of the portable model

    Every channel of the pixel one of these kernels stores is `Fir.passInt` - the arithmetic every C01 / C10 / C18 theorem is
    about - of the same coefficients and the same window of source samples (coefficients in the range of their integer type,
    samples in the range of the component type), so those theorems hold of what the SSE4.1 kernels store. -/

theorem u16x1_sse4_eq_passInt (p : Nat) (row : List Int) (start : Nat) (ks : List Int)
    (hk : ∀ k ∈ ks, -2147483648 ≤ k ∧ k ≤ 2147483647) (hb : ∀ i, 0 ≤ row.getD i 0 ∧ row.getD i 0 ≤ 65535) :
    Fir.SimdU16x1.pixel p row start ks = passInt .u16 ks ((List.range ks.length).map fun i => row.getD (start + i) 0) p := by
  simpa using Fir.Proofs.PassInt.u16x1 p row start ks hk hb

theorem u16x2_sse4_eq_passInt (p : Nat) (row : List Int) (start : Nat) (ks : List Int) (c : Nat) (hc : c < 2)
    (hk : ∀ k ∈ ks, -2147483648 ≤ k ∧ k ≤ 2147483647) (hb : ∀ i, 0 ≤ row.getD i 0 ∧ row.getD i 0 ≤ 65535) :
    (Fir.SimdU16x2.pixel p row start ks).getD c 0
      = passInt .u16 ks ((List.range ks.length).map fun i => row.getD (2 * (start + i) + c) 0) p :=
  Fir.Proofs.PassInt.u16x2 p row start ks c hc hk hb

theorem u16x3_sse4_eq_passInt (p w : Nat) (hp2 : 2 ≤ p) (row : List Int) (start : Nat) (ks : List Int) (c : Nat) (hc : c < 3)
    (hk : ∀ k ∈ ks, -2147483648 ≤ k ∧ k ≤ 2147483647) (hb : ∀ i, 0 ≤ row.getD i 0 ∧ row.getD i 0 ≤ 65535) :
    (Fir.SimdU16x3.pixel p w row start ks).getD c 0
      = passInt .u16 ks ((List.range ks.length).map fun i => row.getD (3 * (start + i) + c) 0) p ∧
    (Fir.SimdU16x3.pixelR p w row start ks).getD c 0
      = passInt .u16 ks ((List.range ks.length).map fun i => row.getD (3 * (start + i) + c) 0) p :=
  Fir.Proofs.PassInt.u16x3 p w hp2 row start ks c hc hk hb

theorem u16x4_sse4_eq_passInt (p : Nat) (row : List Int) (start : Nat) (ks : List Int) (c : Nat) (hc : c < 4)
    (hk : ∀ k ∈ ks, -2147483648 ≤ k ∧ k ≤ 2147483647) (hb : ∀ i, 0 ≤ row.getD i 0 ∧ row.getD i 0 ≤ 65535) :
    (Fir.SimdU16x4.pixel p row start ks).getD c 0
      = passInt .u16 ks ((List.range ks.length).map fun i => row.getD (4 * (start + i) + c) 0) p :=
  Fir.Proofs.PassInt.u16x4 p row start ks c hc hk hb

theorem u8x2_sse4_eq_passInt (p : Nat) (hp2 : 2 ≤ p) (row : List Int) (start : Nat) (ks : List Int) (c : Nat) (hc : c < 2)
    (hB : 255 * Fir.SimdU8x2.absSum ks + 2 ^ (p - 1) < (2 : Int) ^ 31)
    (hk : ∀ k ∈ ks, -32768 ≤ k ∧ k ≤ 32767) (hb : ∀ i, 0 ≤ row.getD i 0 ∧ row.getD i 0 ≤ 255) :
    (Fir.SimdU8x2.pixel p row start ks).getD c 0
      = passInt .u8 ks ((List.range ks.length).map fun i => row.getD (2 * (start + i) + c) 0) p ∧
    (Fir.SimdU8x2.pixelR p row start ks).getD c 0
      = passInt .u8 ks ((List.range ks.length).map fun i => row.getD (2 * (start + i) + c) 0) p :=
  Fir.Proofs.PassInt.u8x2 p hp2 row start ks c hc hB hk hb

/-- hence, for instance, C10's exactness carries over: a uniform RGBA16 row through the SSE4.1 kernel (any channel, any window)
    gives that value whenever the quantised coefficients meet `uniform_exact_u16`'s premise -/
theorem u16x4_sse4_uniform (p : Nat) (row : List Int) (start : Nat) (ks : List Int) (c : Nat) (hc : c < 4) (v : Int)
    (hk : ∀ k ∈ ks, -2147483648 ≤ k ∧ k ≤ 2147483647) (hv0 : 0 ≤ v) (hv : v ≤ 65535) (hrow : ∀ i, row.getD i 0 = v) :
    (Fir.SimdU16x4.pixel p row start ks).getD c 0 = passInt .u16 ks (List.replicate ks.length v) p := by
  rw [u16x4_sse4_eq_passInt p row start ks c hc hk (fun i => by rw [hrow i]; exact ⟨hv0, hv⟩)]
  congr 1
  apply List.ext_getElem
  · simp
  · intro i h1 h2
    simp only [List.getElem_map, List.getElem_range, List.getElem_replicate]
    exact hrow _

/-! ### RGBA16 on AVX2 (src/convolution/u16x4/avx2.rs)

    The four-row kernel keeps two rows per 256-bit register, one per 128-bit half, with the SSE4.1 kernel's instructions (every mask's
    halves are the SSE4.1 masks; call sequence pinned): each of its rows is `Fir.SimdU16x4.pixel`.  The one-row kernel puts pixels 0, 1 of
    a 4-step into the low half and 2, 3 into the high half, one pixel per half in its 2-step, the last coefficient into the low half,
    and joins the halves at the end (`rg_buf[0] + rg_buf[2] + half_error`); it is modelled as `Fir.SimdU16x4A.pixelA` and equals the
    portable kernel - hence the SSE4.1 kernel - for every precision, coefficient list and row. -/

theorem u16x4_avx2_one_row_eq_portable (p : Nat) (row : List Int) (start : Nat) (ks : List Int) :
    Fir.SimdU16x4A.pixelA p row start ks
      = [clip16 (2 ^ (p - 1) + Fir.SimdU16x4.dotC16 row 0 ks start) p, clip16 (2 ^ (p - 1) + Fir.SimdU16x4.dotC16 row 1 ks start) p,
         clip16 (2 ^ (p - 1) + Fir.SimdU16x4.dotC16 row 2 ks start) p, clip16 (2 ^ (p - 1) + Fir.SimdU16x4.dotC16 row 3 ks start) p] :=
  Fir.Proofs.U16x4A.pixelA_eq_portable p row start ks

theorem u16x4_one_row_avx2_eq_sse4 (p : Nat) (row : List Int) (start : Nat) (ks : List Int) :
    Fir.SimdU16x4A.pixelA p row start ks = Fir.SimdU16x4.pixel p row start ks := by
  rw [u16x4_avx2_one_row_eq_portable, u16x4_sse4_eq_portable]

theorem u16x4_avx2_four_rows_masks :
    Fir.Gen.u16x4_avx2_four_rg0_lo = Fir.Gen.u16x4_sse4_rg0 ∧ Fir.Gen.u16x4_avx2_four_rg0_hi = Fir.Gen.u16x4_sse4_rg0 ∧
    Fir.Gen.u16x4_avx2_four_rg1_lo = Fir.Gen.u16x4_sse4_rg1 ∧ Fir.Gen.u16x4_avx2_four_rg1_hi = Fir.Gen.u16x4_sse4_rg1 ∧
    Fir.Gen.u16x4_avx2_four_ba0_lo = Fir.Gen.u16x4_sse4_ba0 ∧ Fir.Gen.u16x4_avx2_four_ba0_hi = Fir.Gen.u16x4_sse4_ba0 ∧
    Fir.Gen.u16x4_avx2_four_ba1_lo = Fir.Gen.u16x4_sse4_ba1 ∧ Fir.Gen.u16x4_avx2_four_ba1_hi = Fir.Gen.u16x4_sse4_ba1 := by
  refine ⟨?_, ?_, ?_, ?_, ?_, ?_, ?_, ?_⟩ <;> decide

theorem u16x4_avx2_source_as_modelled :
    Fir.Gen.u16x4_avx2_one_row_skeleton = "normalizer.precision() ; _mm256_setzero_si256() ; _mm256_setzero_si256() ; chunks_exact(4) ; remainder() ; _mm256_set_epi64x(k[2] as i64, k[2] as i64, k[0] as i64, k[0] as i64) ; _mm256_set_epi64x(k[3] as i64, k[3] as i64, k[1] as i64, k[1] as i64) ; simd_utils::loadu_si256(src_row, x) ; _mm256_shuffle_epi8(source, rg02_shuffle) ; _mm256_add_epi64(rg_sum, _mm256_mul_epi32(rg_i64x4, coeff02_i64x4)) ; _mm256_shuffle_epi8(source, rg13_shuffle) ; _mm256_add_epi64(rg_sum, _mm256_mul_epi32(rg_i64x4, coeff13_i64x4)) ; _mm256_shuffle_epi8(source, ba02_shuffle) ; _mm256_add_epi64(ba_sum, _mm256_mul_epi32(ba_i64x4, coeff02_i64x4)) ; _mm256_shuffle_epi8(source, ba13_shuffle) ; _mm256_add_epi64(ba_sum, _mm256_mul_epi32(ba_i64x4, coeff13_i64x4)) ; chunks_exact(2) ; remainder() ; _mm256_set_epi64x(k[1] as i64, k[1] as i64, k[0] as i64, k[0] as i64) ; _mm256_set_m128i(simd_utils::loadl_epi64(src_row, x + 1), simd_utils::loadl_epi64(src_row, x),) ; _mm256_shuffle_epi8(source, rg02_shuffle) ; _mm256_add_epi64(rg_sum, _mm256_mul_epi32(rg_i64x4, coeff01_i64x4)) ; _mm256_shuffle_epi8(source, ba02_shuffle) ; _mm256_add_epi64(ba_sum, _mm256_mul_epi32(ba_i64x4, coeff01_i64x4)) ; first() ; _mm256_set_epi64x(0, 0, k as i64, k as i64) ; _mm256_set_m128i(_mm_setzero_si128(), simd_utils::loadl_epi64(src_row, x)) ; _mm256_shuffle_epi8(source, rg02_shuffle) ; _mm256_add_epi64(rg_sum, _mm256_mul_epi32(rg_i64x4, coeff_i64x4)) ; _mm256_shuffle_epi8(source, ba02_shuffle) ; _mm256_add_epi64(ba_sum, _mm256_mul_epi32(ba_i64x4, coeff_i64x4)) ; _mm256_storeu_si256(rg_buf.as_mut_ptr() as *mut __m256i, rg_sum) ; _mm256_storeu_si256(ba_buf.as_mut_ptr() as *mut __m256i, ba_sum) ; normalizer.clip(rg_buf[0] + rg_buf[2] + half_error) ; normalizer.clip(rg_buf[1] + rg_buf[3] + half_error) ; normalizer.clip(ba_buf[0] + ba_buf[2] + half_error) ; normalizer.clip(ba_buf[1] + ba_buf[3] + half_error)" ∧
    Fir.Gen.u16x4_avx2_four_rows_skeleton = "normalizer.precision() ; _mm256_set1_epi64x(half_error) ; _mm256_set1_epi64x(half_error) ; chunks_exact(2) ; remainder() ; _mm256_set1_epi64x(k[0] as i64) ; _mm256_set1_epi64x(k[1] as i64) ; _mm256_set_m128i(simd_utils::loadu_si128(src_rows[i * 2 + 1], x), simd_utils::loadu_si128(src_rows[i * 2], x),) ; _mm256_shuffle_epi8(source, rg0_shuffle) ; _mm256_add_epi64(sum, _mm256_mul_epi32(rg_i64x4, coeff0_i64x4)) ; _mm256_shuffle_epi8(source, rg1_shuffle) ; _mm256_add_epi64(sum, _mm256_mul_epi32(rg_i64x4, coeff1_i64x4)) ; _mm256_shuffle_epi8(source, ba0_shuffle) ; _mm256_add_epi64(sum, _mm256_mul_epi32(ba_i64x4, coeff0_i64x4)) ; _mm256_shuffle_epi8(source, ba1_shuffle) ; _mm256_add_epi64(sum, _mm256_mul_epi32(ba_i64x4, coeff1_i64x4)) ; first() ; _mm256_set1_epi64x(k as i64) ; _mm256_set_m128i(simd_utils::loadl_epi64(src_rows[i * 2 + 1], x), simd_utils::loadl_epi64(src_rows[i * 2], x),) ; _mm256_shuffle_epi8(source, rg0_shuffle) ; _mm256_add_epi64(sum, _mm256_mul_epi32(rg_i64x4, coeff0_i64x4)) ; _mm256_shuffle_epi8(source, ba0_shuffle) ; _mm256_add_epi64(sum, _mm256_mul_epi32(ba_i64x4, coeff0_i64x4)) ; _mm256_storeu_si256(rg_buf.as_mut_ptr() as *mut __m256i, rg_sum[i]) ; _mm256_storeu_si256(ba_buf.as_mut_ptr() as *mut __m256i, ba_sum[i]) ; normalizer.clip(rg_buf[0]) ; normalizer.clip(rg_buf[1]) ; normalizer.clip(ba_buf[0]) ; normalizer.clip(ba_buf[1]) ; normalizer.clip(rg_buf[2]) ; normalizer.clip(rg_buf[3]) ; normalizer.clip(ba_buf[2]) ; normalizer.clip(ba_buf[3])" := by
  constructor <;> rfl

/-! ### LA16 on AVX2 (src/convolution/u16x2/avx2.rs)

    Four-row kernel: two rows per 256-bit register, the SSE4.1 instructions per half (mask halves proved equal, call sequence pinned).
    One-row kernel: an 8-step puts pixels 0..3 into the low half and 4..7 into the high half, a 4-step two pixels per half, a 2-step
    one pixel per half, the last coefficient the low half; the halves are joined at the end.  Modelled as `Fir.SimdU16x2A.pixelA`. -/

theorem u16x2_avx2_one_row_eq_portable (p : Nat) (row : List Int) (start : Nat) (ks : List Int) :
    Fir.SimdU16x2A.pixelA p row start ks
      = [clip16 (2 ^ (p - 1) + Fir.SimdU16x2.dotLA row 0 ks start) p, clip16 (2 ^ (p - 1) + Fir.SimdU16x2.dotLA row 1 ks start) p] :=
  Fir.Proofs.U16x2A.pixelA_eq_portable p row start ks

theorem u16x2_one_row_avx2_eq_sse4 (p : Nat) (row : List Int) (start : Nat) (ks : List Int) :
    Fir.SimdU16x2A.pixelA p row start ks = Fir.SimdU16x2.pixel p row start ks := by
  rw [u16x2_avx2_one_row_eq_portable, u16x2_sse4_eq_portable]

theorem u16x2_avx2_four_rows_masks :
    Fir.Gen.u16x2_avx2_four_p0_lo = Fir.Gen.u16x2_sse4_p0 ∧ Fir.Gen.u16x2_avx2_four_p0_hi = Fir.Gen.u16x2_sse4_p0 ∧
    Fir.Gen.u16x2_avx2_four_p1_lo = Fir.Gen.u16x2_sse4_p1 ∧ Fir.Gen.u16x2_avx2_four_p1_hi = Fir.Gen.u16x2_sse4_p1 ∧
    Fir.Gen.u16x2_avx2_four_p2_lo = Fir.Gen.u16x2_sse4_p2 ∧ Fir.Gen.u16x2_avx2_four_p2_hi = Fir.Gen.u16x2_sse4_p2 ∧
    Fir.Gen.u16x2_avx2_four_p3_lo = Fir.Gen.u16x2_sse4_p3 ∧ Fir.Gen.u16x2_avx2_four_p3_hi = Fir.Gen.u16x2_sse4_p3 := by
  refine ⟨?_, ?_, ?_, ?_, ?_, ?_, ?_, ?_⟩ <;> decide

theorem u16x2_avx2_source_as_modelled :
    Fir.Gen.u16x2_avx2_one_row_skeleton = "normalizer.precision() ; _mm256_setzero_si256() ; chunks_exact(8) ; remainder() ; _mm256_set_epi64x(k[4] as i64, k[4] as i64, k[0] as i64, k[0] as i64) ; _mm256_set_epi64x(k[5] as i64, k[5] as i64, k[1] as i64, k[1] as i64) ; _mm256_set_epi64x(k[6] as i64, k[6] as i64, k[2] as i64, k[2] as i64) ; _mm256_set_epi64x(k[7] as i64, k[7] as i64, k[3] as i64, k[3] as i64) ; simd_utils::loadu_si256(src_row, x) ; _mm256_shuffle_epi8(source, p0_shuffle) ; _mm256_add_epi64(ll_sum, _mm256_mul_epi32(pp_i64x4, coeff04_i64x4)) ; _mm256_shuffle_epi8(source, p1_shuffle) ; _mm256_add_epi64(ll_sum, _mm256_mul_epi32(pp_i64x4, coeff15_i64x4)) ; _mm256_shuffle_epi8(source, p2_shuffle) ; _mm256_add_epi64(ll_sum, _mm256_mul_epi32(pp_i64x4, coeff26_i64x4)) ; _mm256_shuffle_epi8(source, p3_shuffle) ; _mm256_add_epi64(ll_sum, _mm256_mul_epi32(pp_i64x4, coeff37_i64x4)) ; chunks_exact(4) ; remainder() ; _mm256_set_epi64x(k[2] as i64, k[2] as i64, k[0] as i64, k[0] as i64) ; _mm256_set_epi64x(k[3] as i64, k[3] as i64, k[1] as i64, k[1] as i64) ; _mm256_set_m128i(simd_utils::loadl_epi64(src_row, x + 2), simd_utils::loadl_epi64(src_row, x),) ; _mm256_shuffle_epi8(source, p0_shuffle) ; _mm256_add_epi64(ll_sum, _mm256_mul_epi32(pp_i64x4, coeff02_i64x4)) ; _mm256_shuffle_epi8(source, p1_shuffle) ; _mm256_add_epi64(ll_sum, _mm256_mul_epi32(pp_i64x4, coeff13_i64x4)) ; chunks_exact(2) ; remainder() ; _mm256_set_epi64x(k[1] as i64, k[1] as i64, k[0] as i64, k[0] as i64) ; _mm256_set_m128i(simd_utils::loadl_epi32(src_row, x + 1), simd_utils::loadl_epi32(src_row, x),) ; _mm256_shuffle_epi8(source, p0_shuffle) ; _mm256_add_epi64(ll_sum, _mm256_mul_epi32(pp_i64x4, coeff01_i64x4)) ; first() ; _mm256_set_epi64x(0, 0, k as i64, k as i64) ; _mm256_set_m128i(_mm_setzero_si128(), simd_utils::loadl_epi32(src_row, x)) ; _mm256_shuffle_epi8(source, p0_shuffle) ; _mm256_add_epi64(ll_sum, _mm256_mul_epi32(p_i64x4, coeff0_i64x4)) ; _mm256_storeu_si256(ll_buf.as_mut_ptr() as *mut __m256i, ll_sum) ; normalizer.clip(ll_buf[0] + ll_buf[2] + half_error) ; normalizer.clip(ll_buf[1] + ll_buf[3] + half_error)" ∧
    Fir.Gen.u16x2_avx2_four_rows_skeleton = "normalizer.precision() ; _mm256_set1_epi64x(half_error) ; chunks_exact(4) ; remainder() ; _mm256_set1_epi64x(k[0] as i64) ; _mm256_set1_epi64x(k[1] as i64) ; _mm256_set1_epi64x(k[2] as i64) ; _mm256_set1_epi64x(k[3] as i64) ; _mm256_set_m128i(simd_utils::loadu_si128(src_rows[i * 2 + 1], x), simd_utils::loadu_si128(src_rows[i * 2], x),) ; _mm256_shuffle_epi8(source, p0_shuffle) ; _mm256_add_epi64(*sum, _mm256_mul_epi32(pp_i64x4, coeff0_i64x4)) ; _mm256_shuffle_epi8(source, p1_shuffle) ; _mm256_add_epi64(*sum, _mm256_mul_epi32(pp_i64x4, coeff1_i64x4)) ; _mm256_shuffle_epi8(source, p2_shuffle) ; _mm256_add_epi64(*sum, _mm256_mul_epi32(pp_i64x4, coeff2_i64x4)) ; _mm256_shuffle_epi8(source, p3_shuffle) ; _mm256_add_epi64(*sum, _mm256_mul_epi32(pp_i64x4, coeff3_i64x4)) ; chunks_exact(2) ; remainder() ; _mm256_set1_epi64x(k[0] as i64) ; _mm256_set1_epi64x(k[1] as i64) ; _mm256_set_m128i(simd_utils::loadl_epi64(src_rows[i * 2 + 1], x), simd_utils::loadl_epi64(src_rows[i * 2], x),) ; _mm256_shuffle_epi8(source, p0_shuffle) ; _mm256_add_epi64(*sum, _mm256_mul_epi32(pp_i64x4, coeff0_i64x4)) ; _mm256_shuffle_epi8(source, p1_shuffle) ; _mm256_add_epi64(*sum, _mm256_mul_epi32(pp_i64x4, coeff1_i64x4)) ; first() ; _mm256_set1_epi64x(k as i64) ; _mm256_set_m128i(simd_utils::loadl_epi32(src_rows[i * 2 + 1], x), simd_utils::loadl_epi32(src_rows[i * 2], x),) ; _mm256_shuffle_epi8(source, p0_shuffle) ; _mm256_add_epi64(*sum, _mm256_mul_epi32(pp_i64x4, coeff0_i64x4)) ; _mm256_storeu_si256(ll_buf.as_mut_ptr() as *mut __m256i, ll) ; normalizer.clip(ll_buf[0]) ; normalizer.clip(ll_buf[1]) ; normalizer.clip(ll_buf[2]) ; normalizer.clip(ll_buf[3])" := by
  constructor <;> rfl

/-! ### single-channel 16-bit images on AVX2 (src/convolution/u16x1/avx2.rs)

    Four-row kernel: two rows per 256-bit register, the SSE4.1 instructions per half (mask halves proved equal, call sequence pinned).
    One-row kernel: 16 / 8 / 4 coefficients split between the halves, a 2-step and the last coefficient in the low half only, the four
    lanes summed at the end.  Modelled as `Fir.SimdU16x1A.pixelA` (all 16 remainder lengths written out). -/

theorem u16x1_avx2_one_row_eq_portable (p : Nat) (row : List Int) (start : Nat) (ks : List Int) :
    Fir.SimdU16x1A.pixelA p row start ks = clip16 (2 ^ (p - 1) + Fir.SimdU16x1.dot16 row ks start) p :=
  Fir.Proofs.U16x1A.pixelA_eq_portable p row start ks

theorem u16x1_one_row_avx2_eq_sse4 (p : Nat) (row : List Int) (start : Nat) (ks : List Int) :
    Fir.SimdU16x1A.pixelA p row start ks = Fir.SimdU16x1.pixel p row start ks := by
  rw [u16x1_avx2_one_row_eq_portable, u16x1_sse4_eq_portable]

theorem u16x1_avx2_four_rows_masks :
    Fir.Gen.u16x1_avx2_four_l01_lo = Fir.Gen.u16x1_sse4_l01 ∧ Fir.Gen.u16x1_avx2_four_l01_hi = Fir.Gen.u16x1_sse4_l01 ∧
    Fir.Gen.u16x1_avx2_four_l23_lo = Fir.Gen.u16x1_sse4_l23 ∧ Fir.Gen.u16x1_avx2_four_l23_hi = Fir.Gen.u16x1_sse4_l23 ∧
    Fir.Gen.u16x1_avx2_four_l45_lo = Fir.Gen.u16x1_sse4_l45 ∧ Fir.Gen.u16x1_avx2_four_l45_hi = Fir.Gen.u16x1_sse4_l45 ∧
    Fir.Gen.u16x1_avx2_four_l67_lo = Fir.Gen.u16x1_sse4_l67 ∧ Fir.Gen.u16x1_avx2_four_l67_hi = Fir.Gen.u16x1_sse4_l67 := by
  refine ⟨?_, ?_, ?_, ?_, ?_, ?_, ?_, ?_⟩ <;> decide

theorem u16x1_avx2_source_as_modelled :
    Fir.Gen.u16x1_avx2_one_row_skeleton = "normalizer.precision() ; _mm256_set1_epi64x(0) ; chunks_exact(16) ; remainder() ; _mm256_set_epi64x(k[9] as i64, k[8] as i64, k[1] as i64, k[0] as i64) ; _mm256_set_epi64x(k[11] as i64, k[10] as i64, k[3] as i64, k[2] as i64) ; _mm256_set_epi64x(k[13] as i64, k[12] as i64, k[5] as i64, k[4] as i64) ; _mm256_set_epi64x(k[15] as i64, k[14] as i64, k[7] as i64, k[6] as i64) ; simd_utils::loadu_si256(src_row, x) ; _mm256_shuffle_epi8(source, l0l1_shuffle) ; _mm256_add_epi64(ll_sum, _mm256_mul_epi32(l0l1_i64x4, coeff0189_i64x4)) ; _mm256_shuffle_epi8(source, l2l3_shuffle) ; _mm256_add_epi64(ll_sum, _mm256_mul_epi32(l2l3_i64x4, coeff23ab_i64x4)) ; _mm256_shuffle_epi8(source, l4l5_shuffle) ; _mm256_add_epi64(ll_sum, _mm256_mul_epi32(l4l5_i64x4, coeff45cd_i64x4)) ; _mm256_shuffle_epi8(source, l6l7_shuffle) ; _mm256_add_epi64(ll_sum, _mm256_mul_epi32(l6l7_i64x4, coeff67ef_i64x4)) ; chunks_exact(8) ; remainder() ; _mm256_set_epi64x(k[5] as i64, k[4] as i64, k[1] as i64, k[0] as i64) ; _mm256_set_epi64x(k[7] as i64, k[6] as i64, k[3] as i64, k[2] as i64) ; _mm256_set_m128i(simd_utils::loadl_epi64(src_row, x + 4), simd_utils::loadl_epi64(src_row, x),) ; _mm256_shuffle_epi8(source, l0l1_shuffle) ; _mm256_add_epi64(ll_sum, _mm256_mul_epi32(l0l1_i64x4, coeff0145_i64x4)) ; _mm256_shuffle_epi8(source, l2l3_shuffle) ; _mm256_add_epi64(ll_sum, _mm256_mul_epi32(l2l3_i64x4, coeff2367_i64x4)) ; chunks_exact(4) ; remainder() ; _mm256_set_epi64x(k[3] as i64, k[2] as i64, k[1] as i64, k[0] as i64) ; _mm256_set_m128i(simd_utils::loadl_epi32(src_row, x + 2), simd_utils::loadl_epi32(src_row, x),) ; _mm256_shuffle_epi8(source, l0l1_shuffle) ; _mm256_add_epi64(ll_sum, _mm256_mul_epi32(l0l1_i64x4, coeff0123_i64x4)) ; chunks_exact(2) ; remainder() ; _mm256_set_epi64x(0, 0, k[1] as i64, k[0] as i64) ; _mm256_set_m128i(_mm_setzero_si128(), simd_utils::loadl_epi32(src_row, x)) ; _mm256_shuffle_epi8(source, l0l1_shuffle) ; _mm256_add_epi64(ll_sum, _mm256_mul_epi32(l0l1_i64x4, coeff01_i64x4)) ; _mm256_set1_epi64x(k as i64) ; _mm256_set_epi64x(0, 0, 0, src_row.get_unchecked(x).0 as i64) ; _mm256_add_epi64(ll_sum, _mm256_mul_epi32(source, coeff0_i64x4)) ; _mm256_storeu_si256(ll_buf.as_mut_ptr() as *mut __m256i, ll_sum) ; normalizer.clip(ll_buf.iter().sum::<i64>() + half_error)" ∧
    Fir.Gen.u16x1_avx2_four_rows_skeleton = "normalizer.precision() ; _mm256_set1_epi64x(0) ; chunks_exact(8) ; remainder() ; _mm256_set_epi64x(k[1] as i64, k[0] as i64, k[1] as i64, k[0] as i64) ; _mm256_set_epi64x(k[3] as i64, k[2] as i64, k[3] as i64, k[2] as i64) ; _mm256_set_epi64x(k[5] as i64, k[4] as i64, k[5] as i64, k[4] as i64) ; _mm256_set_epi64x(k[7] as i64, k[6] as i64, k[7] as i64, k[6] as i64) ; _mm256_set_m128i(simd_utils::loadu_si128(src_rows[i * 2 + 1], x), simd_utils::loadu_si128(src_rows[i * 2], x),) ; _mm256_shuffle_epi8(source, l0l1_shuffle) ; _mm256_add_epi64(*sum, _mm256_mul_epi32(l0l1_i64x4, coeff01_i64x4)) ; _mm256_shuffle_epi8(source, l2l3_shuffle) ; _mm256_add_epi64(*sum, _mm256_mul_epi32(l2l3_i64x4, coeff23_i64x4)) ; _mm256_shuffle_epi8(source, l4l5_shuffle) ; _mm256_add_epi64(*sum, _mm256_mul_epi32(l4l5_i64x4, coeff45_i64x4)) ; _mm256_shuffle_epi8(source, l6l7_shuffle) ; _mm256_add_epi64(*sum, _mm256_mul_epi32(l6l7_i64x4, coeff67_i64x4)) ; chunks_exact(4) ; remainder() ; _mm256_set_epi64x(k[1] as i64, k[0] as i64, k[1] as i64, k[0] as i64) ; _mm256_set_epi64x(k[3] as i64, k[2] as i64, k[3] as i64, k[2] as i64) ; _mm256_set_m128i(simd_utils::loadl_epi64(src_rows[i * 2 + 1], x), simd_utils::loadl_epi64(src_rows[i * 2], x),) ; _mm256_shuffle_epi8(source, l0l1_shuffle) ; _mm256_add_epi64(*sum, _mm256_mul_epi32(l0l1_i64x4, coeff01_i64x4)) ; _mm256_shuffle_epi8(source, l2l3_shuffle) ; _mm256_add_epi64(*sum, _mm256_mul_epi32(l2l3_i64x4, coeff23_i64x4)) ; chunks_exact(2) ; remainder() ; _mm256_set_epi64x(k[1] as i64, k[0] as i64, k[1] as i64, k[0] as i64) ; _mm256_set_m128i(simd_utils::loadl_epi32(src_rows[i * 2 + 1], x), simd_utils::loadl_epi32(src_rows[i * 2], x),) ; _mm256_shuffle_epi8(source, l0l1_shuffle) ; _mm256_add_epi64(*sum, _mm256_mul_epi32(l0l1_i64x4, coeff01_i64x4)) ; _mm256_set1_epi64x(k as i64) ; _mm256_set_epi64x(0, src_rows[i * 2 + 1].get_unchecked(x).0 as i64, 0, src_rows[i * 2].get_unchecked(x).0 as i64,) ; _mm256_add_epi64(*sum, _mm256_mul_epi32(source, coeff0_i64x4)) ; _mm256_storeu_si256(ll_buf.as_mut_ptr() as *mut __m256i, ll) ; normalizer.clip(ll_buf[0] + ll_buf[1] + half_error) ; normalizer.clip(ll_buf[2] + ll_buf[3] + half_error)" := by
  constructor <;> rfl

/-! ### single-channel 8-bit images on AVX2 (src/convolution/u8x1/avx2.rs)

    Eight 32-bit lanes started at `1 << (precision - 4)`; a 16-step is the SSE4.1 8-step in each 128-bit half (`_mm256_cvtepu8_epi16`,
    `_mm256_madd_epi16`), at most one 8-step goes to the low half, `hsum_i32x8_avx2` sums the lanes with wrapping additions, the last
    0..7 coefficients are scalar, the portable `Normalizer16::clip` finishes.  Both kernels do the same per row. -/

theorem u8x1_avx2_eq_portable (p : Nat) (hp4 : 4 ≤ p) (row : List Int) (start : Nat) (ks : List Int) :
    Fir.SimdU8x1A.pixelA p row start ks = clip8 (2 ^ (p - 1) + Fir.SimdU8x1.dot1 row ks start) p :=
  Fir.Proofs.U8x1A.pixelA_eq_portable p hp4 row start ks

theorem u8x1_avx2_eq_sse4 (p : Nat) (hp4 : 4 ≤ p) (row : List Int) (start : Nat) (ks : List Int) :
    Fir.SimdU8x1A.pixelA p row start ks = Fir.SimdU8x1.pixel p row start ks := by
  rw [u8x1_avx2_eq_portable p hp4, u8x1_sse4_eq_portable]

theorem u8x1_avx2_source_as_modelled :
    Fir.Gen.u8x1_avx2_one_row_skeleton = "_mm_setzero_si128() ; normalizer.precision() ; chunks_exact(16) ; remainder() ; _mm256_loadu_si256(k.as_ptr() as *const __m256i) ; simd_utils::loadu_si128(src_row, x) ; _mm256_cvtepu8_epi16(pixels_u8x16) ; _mm256_add_epi32(result_i32x8, _mm256_madd_epi16(pixels_i16x16, coeffs_i16x16),) ; chunks_exact(8) ; remainder() ; next() ; _mm_loadu_si128(k.as_ptr() as *const __m128i) ; simd_utils::loadl_epi64(src_row, x) ; _mm_cvtepu8_epi16(pixels_u8x8) ; _mm256_set_m128i(zero, _mm_madd_epi16(pixels_i16x8, coeffs_i16x8)) ; hsum_i32x8_avx2(result_i32x8) ; normalizer.clip(result_i32) | let initial = _mm256_set1_epi32(1 << (normalizer.precision() - 4)) ; result_i32 += src_row.get_unchecked(x).0 as i32 * coeff_i32" ∧
    Fir.Gen.u8x1_avx2_four_rows_skeleton = "_mm_setzero_si128() ; normalizer.precision() ; chunks_exact(16) ; remainder() ; _mm256_loadu_si256(k.as_ptr() as *const __m256i) ; simd_utils::loadu_si128(src_rows[i], x) ; _mm256_cvtepu8_epi16(pixels_u8x16) ; _mm256_add_epi32(result_i32x8x4[i], _mm256_madd_epi16(pixels_i16x16, coeffs_i16x16),) ; chunks_exact(8) ; remainder() ; next() ; _mm_loadu_si128(k.as_ptr() as *const __m128i) ; simd_utils::loadl_epi64(src_rows[i], x) ; _mm_cvtepu8_epi16(pixels_u8x8) ; _mm256_set_m128i(zero, _mm_madd_epi16(pixels_i16x8, coeffs_i16x8)) ; hsum_i32x8_avx2(v) ; normalizer.clip(v) | let initial = _mm256_set1_epi32(1 << (normalizer.precision() - 4)) ; result_i32x4[i] += src_rows[i].get_unchecked(x).0.to_owned() as i32 * coeff_i32" ∧
    Fir.Gen.u8x1_avx2_hsum8_skeleton = "hsum_i32x8_avx2(v: __m256i) ; _mm_add_epi32(_mm256_castsi256_si128(v), _mm256_extracti128_si256::<1>(v)) ; hsum_epi32_avx(sum128)" ∧
    Fir.Gen.u8x1_avx2_hsum4_skeleton = "hsum_epi32_avx(x: __m128i) ; _mm_unpackhi_epi64(x, x) ; _mm_add_epi32(hi64, x) ; _mm_shuffle_epi32::<I>(sum64) ; _mm_add_epi32(sum64, hi32) ; _mm_cvtsi128_si32(sum32) | const I: i32 = (2 << 6) | (3 << 4) | 1" := by
  refine ⟨rfl, rfl, rfl, rfl⟩

/-! ### two-channel 8-bit images on AVX2, four-row kernel (src/convolution/u8x2/avx2.rs)

    Two rows per 256-bit register, one per 128-bit half, with the SSE4.1 four-row kernel's instructions per half: both halves of
    both masks are the SSE4.1 masks, the call sequence and `set_dst_pixel` (the same saturating join) are pinned - so each of its rows
    is `Fir.SimdU8x2.pixelR`, to which `u8x2_sse4_four_rows_eq_portable` applies; the rows of four-row blocks are executed through
    that model against the AVX2 kernel's output. -/

theorem u8x2_avx2_four_rows_masks :
    Fir.Gen.u8x2_avx2_four_sh1_lo = Fir.Gen.u8x2_sse4_four_sh1 ∧ Fir.Gen.u8x2_avx2_four_sh1_hi = Fir.Gen.u8x2_sse4_four_sh1 ∧
    Fir.Gen.u8x2_avx2_four_sh2_lo = Fir.Gen.u8x2_sse4_four_sh2 ∧ Fir.Gen.u8x2_avx2_four_sh2_hi = Fir.Gen.u8x2_sse4_four_sh2 := by
  refine ⟨?_, ?_, ?_, ?_⟩ <;> decide

theorem u8x2_avx2_four_rows_source_as_modelled :
    Fir.Gen.u8x2_avx2_four_rows_skeleton = "normalizer.precision() ; _mm256_set1_epi32(1 << (precision - 2)) ; chunks_exact(8) ; remainder() ; simd_utils::ptr_i16_to_256set1_epi64x(k, 0) ; simd_utils::ptr_i16_to_256set1_epi64x(k, 4) ; _mm256_castsi128_si256(simd_utils::loadu_si128(src_rows[0], x)) ; simd_utils::loadu_si128(src_rows[1], x) ; _mm256_shuffle_epi8(source, sh1) ; _mm256_add_epi32(sss0, _mm256_madd_epi16(pix, mmk0)) ; _mm256_shuffle_epi8(source, sh2) ; _mm256_add_epi32(sss0, _mm256_madd_epi16(pix, mmk1)) ; _mm256_castsi128_si256(simd_utils::loadu_si128(src_rows[2], x)) ; simd_utils::loadu_si128(src_rows[3], x) ; _mm256_shuffle_epi8(source, sh1) ; _mm256_add_epi32(sss1, _mm256_madd_epi16(pix, mmk0)) ; _mm256_shuffle_epi8(source, sh2) ; _mm256_add_epi32(sss1, _mm256_madd_epi16(pix, mmk1)) ; chunks_exact(4) ; remainder() ; simd_utils::ptr_i16_to_256set1_epi64x(k, 0) ; _mm256_castsi128_si256(simd_utils::loadl_epi64(src_rows[0], x)) ; simd_utils::loadl_epi64(src_rows[1], x) ; _mm256_shuffle_epi8(source, sh1) ; _mm256_add_epi32(sss0, _mm256_madd_epi16(pix, mmk)) ; _mm256_castsi128_si256(simd_utils::loadl_epi64(src_rows[2], x)) ; simd_utils::loadl_epi64(src_rows[3], x) ; _mm256_shuffle_epi8(source, sh1) ; _mm256_add_epi32(sss1, _mm256_madd_epi16(pix, mmk)) ; chunks_exact(2) ; remainder() ; simd_utils::mm256_load_and_clone_i16x2(k) ; _mm256_castsi128_si256(simd_utils::loadl_epi32(src_rows[0], x)) ; simd_utils::loadl_epi32(src_rows[1], x) ; _mm256_shuffle_epi8(source, sh1) ; _mm256_add_epi32(sss0, _mm256_madd_epi16(pix, mmk)) ; _mm256_castsi128_si256(simd_utils::loadl_epi32(src_rows[2], x)) ; simd_utils::loadl_epi32(src_rows[3], x) ; _mm256_shuffle_epi8(source, sh1) ; _mm256_add_epi32(sss1, _mm256_madd_epi16(pix, mmk)) ; first() ; _mm256_set1_epi32(k as i32) ; _mm256_castsi128_si256(simd_utils::loadl_epi16(src_rows[0], x)) ; simd_utils::loadl_epi16(src_rows[1], x) ; _mm256_shuffle_epi8(source, sh1) ; _mm256_add_epi32(sss0, _mm256_madd_epi16(pix, mmk)) ; _mm256_castsi128_si256(simd_utils::loadl_epi16(src_rows[2], x)) ; simd_utils::loadl_epi16(src_rows[3], x) ; _mm256_shuffle_epi8(source, sh1) ; _mm256_add_epi32(sss1, _mm256_madd_epi16(pix, mmk)) ; _mm256_extracti128_si256::<0>(sss0) ; _mm256_extracti128_si256::<1>(sss0) ; set_dst_pixel(lo128, dst_rows[0], dst_x, normalizer) ; set_dst_pixel(hi128, dst_rows[1], dst_x, normalizer) ; _mm256_extracti128_si256::<0>(sss1) ; _mm256_extracti128_si256::<1>(sss1) ; set_dst_pixel(lo128, dst_rows[2], dst_x, normalizer) ; set_dst_pixel(hi128, dst_rows[3], dst_x, normalizer)" ∧
    Fir.Gen.u8x2_avx2_set_dst_pixel = Fir.Gen.u8x2_sse4_set_dst_pixel := by
  constructor
  · rfl
  · rfl

/-! ### two-channel 8-bit images on AVX2, one-row kernel (src/convolution/u8x2/avx2.rs)

    Fewer than 16 coefficients: the 128-bit kernel (4-steps and the gathered remainder).  Otherwise a 256-bit accumulator started at
    `1 << (precision - 3)`: 16-steps (the SSE4.1 8-step per half), at most one 8-step (one 128-bit load duplicated into both halves,
    masks `pix_sh3` / `coeff_sh3`: the first half of the SSE4.1 8-step in the low half, the second in the high half), the halves added,
    then the 128-bit steps; the same saturating join.  Equal to the portable kernel inside the i32 headroom, for precision ≥ 3. -/

theorem u8x2_avx2_one_row_eq_portable (p : Nat) (hp3 : 3 ≤ p) (row : List Int) (start : Nat) (ks : List Int)
    (hB : 255 * Fir.SimdU8x2.absSum ks + 2 ^ (p - 1) < (2 : Int) ^ 31) :
    Fir.SimdU8x2A.pixelA p row start ks
      = [clip8 (2 ^ (p - 1) + Fir.SimdU8x2.dot2 row 0 ks start) p, clip8 (2 ^ (p - 1) + Fir.SimdU8x2.dot2 row 1 ks start) p] :=
  Fir.Proofs.U8x2A.pixelA_eq_portable p hp3 row start ks hB

theorem u8x2_one_row_avx2_eq_sse4 (p : Nat) (hp3 : 3 ≤ p) (row : List Int) (start : Nat) (ks : List Int)
    (hB : 255 * Fir.SimdU8x2.absSum ks + 2 ^ (p - 1) < (2 : Int) ^ 31) :
    Fir.SimdU8x2A.pixelA p row start ks = Fir.SimdU8x2.pixel p row start ks := by
  rw [u8x2_avx2_one_row_eq_portable p hp3 row start ks hB, u8x2_sse4_one_row_eq_portable p (by omega) row start ks hB]

theorem u8x2_avx2_one_row_source_as_modelled :
    Fir.Gen.u8x2_avx2_one_row_skeleton = "normalizer.precision() ; _mm_set1_epi32(1 << (precision - 2)) ; _mm256_set1_epi32(1 << (precision - 3)) ; chunks_exact(16) ; remainder() ; simd_utils::loadu_si256(k, 0) ; simd_utils::loadu_si256(src_row, x) ; _mm256_shuffle_epi8(source, pix_sh1) ; _mm256_shuffle_epi8(ksource, coeff_sh1) ; _mm256_add_epi32(sss256, _mm256_madd_epi16(pix, mmk)) ; _mm256_shuffle_epi8(source, pix_sh2) ; _mm256_shuffle_epi8(ksource, coeff_sh2) ; _mm256_add_epi32(sss256, _mm256_madd_epi16(pix, mmk)) ; chunks_exact(8) ; remainder() ; simd_utils::loadu_si128(k, 0) ; _mm256_insertf128_si256::<1>(_mm256_castsi128_si256(tmp), tmp) ; simd_utils::loadu_si128(src_row, x) ; _mm256_insertf128_si256::<1>(_mm256_castsi128_si256(tmp), tmp) ; _mm256_shuffle_epi8(source, pix_sh3) ; _mm256_shuffle_epi8(ksource, coeff_sh3) ; _mm256_add_epi32(sss256, _mm256_madd_epi16(pix, mmk)) ; _mm_add_epi32(_mm256_extracti128_si256::<0>(sss256), _mm256_extracti128_si256::<1>(sss256),) ; chunks_exact(4) ; remainder() ; _mm_set_epi16(k[3], k[2], k[3], k[2], k[1], k[0], k[1], k[0]) ; simd_utils::loadl_epi64(src_row, x) ; _mm_shuffle_epi8(source, pix_sh4) ; _mm_add_epi32(sss, _mm_madd_epi16(pix, mmk)) ; is_empty() ; _mm_set_epi16(0, pixels[5], 0, pixels[4], pixels[3], pixels[1], pixels[2], pixels[0],) ; _mm_set_epi16(0, coeffs[2], 0, coeffs[2], coeffs[1], coeffs[0], coeffs[1], coeffs[0],) ; _mm_add_epi32(sss, _mm_madd_epi16(pix, mmk)) ; _mm_extract_epi64::<0>(sss) ; _mm_extract_epi64::<1>(sss) ; saturating_add((hi >> 32) as i32) ; saturating_add((hi & 0xffffffff) as i32) ; normalizer.clip(a32) ; normalizer.clip(l32) | if coeffs.len() < 16 ; coeffs[i] = coeff ; pixels[i * 2] = pixel[0] as i16 ; pixels[i * 2 + 1] = pixel[1] as i16 ; let a32 = ((lo >> 32) as i32).saturating_add((hi >> 32) as i32) ; let l32 = ((lo & 0xffffffff) as i32).saturating_add((hi & 0xffffffff) as i32) ; dst_row.get_unchecked_mut(dst_x).0 = [l8, a8]" := by rfl

end Fir.C02
