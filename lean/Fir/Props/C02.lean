/-
  C02 - SIMD back-ends compute the same image as the portable back-end.

  Proved: re-association / chunking of an integer dot product cannot change it (also modulo 2^32 /
  2^64, i.e. with wrapping accumulators); the SIMD finishing sequence `srai -> packs_epi32 ->
  packus_epi16` equals the translated clip table for *every* accumulator value; pair products of
  `madd_epi16` are exact (C18.madd_epi16_exact).  Not modelled: shuffle masks, lane placement, load
  widths (tied by correspondence over every residue of kernel length and width), NEON, WASM.
-/
import Fir.Model.Resample
import Fir.Proofs.FixedLemmas
import Fir.Model.SimdAlpha
import Fir.Generated.Alpha
import Fir.Generated.SimdAlpha

namespace Fir.C02
open Fir

/-- splitting a window at any position: the dot product is the sum of the dot products of the pieces -/
theorem dot_append (ks1 ks2 xs1 xs2 : List Int) (h : ks1.length = xs1.length) :
    dotL (ks1 ++ ks2) (xs1 ++ xs2) = dotL ks1 xs1 + dotL ks2 xs2 :=
  Fir.Proofs.dotL_append ks1 ks2 xs1 xs2 h

/-- any chunk plan (blocks of 8 / 4 / 2 / 1 coefficients, any number of partial accumulators added up
    in any grouping): the sum of the per-chunk dot products is the sequential dot product -/
theorem dotChunked_eq_dot (chunks : List (List Int × List Int)) (h : ∀ c ∈ chunks, c.1.length = c.2.length) :
    (chunks.map fun c => dotL c.1 c.2).sum = dotL (chunks.map (·.1)).flatten (chunks.map (·.2)).flatten :=
  Fir.Proofs.dotChunked_eq_dot chunks h

/-- partial accumulators may be combined in any order -/
theorem partial_sums_perm (parts parts' : List Int) (h : parts.Perm parts') : parts.sum = parts'.sum :=
  Fir.Proofs.sum_perm parts parts' h

/-- wrapping accumulators: adding modulo 2^bits after every step equals wrapping once at the end -/
theorem wrap_add (bits : Nat) (a b : Int) :
    Fir.Gen.wrapInt bits (Fir.Gen.wrapInt bits a + b) = Fir.Gen.wrapInt bits (a + b) :=
  Fir.Proofs.wrapInt_add bits a b

/-- `_mm_packs_epi32` on one lane -/
def packs16 (x : Int) : Int := max (-32768) (min 32767 x)
/-- `_mm_packus_epi16` on one lane -/
def packus8 (x : Int) : Int := max 0 (min 255 x)

/-- the SIMD finishing sequence equals the portable clip for every 32-bit accumulator value and every
    precision: `CLIP8[clamp(v >> p) + 640] = packus_epi16(packs_epi32(v >> p))` -/
theorem clip_table_eq_packs (v : Int) (p : Nat) (hp : p < 32) (hv : -(2 ^ 31 : Int) ≤ v ∧ v < 2 ^ 31) :
    clip8 v p = packus8 (packs16 (v / 2 ^ p)) :=
  Fir.Proofs.clip8_eq_packs v p hp hv

/-- 16-bit: `Normalizer32::clip` is the clamp the SIMD kernels perform with `packus_epi32` -/
theorem clip16_eq_clamp (v : Int) (p : Nat) (hp : p < 64) (hv : -(2 ^ 63 : Int) ≤ v ∧ v < 2 ^ 63) :
    clip16 v p = max 0 (min 65535 (v / 2 ^ p)) :=
  Fir.Proofs.clip16_eq_clamp v p hp hv

/-! ### the SSE4.1 / AVX2 8-bit alpha divide (f32 reciprocal, Q8.8 x Q9.7 `mulhrs`, unsigned min) -/

theorem simd_div8_all : (List.range 256).all (fun a => (List.range 256).all (fun c =>
    Fir.Simd.simdDiv8 c a == Fir.Gen.div_and_clip c (Fir.Gen.recip_alpha a))) = true := by
  decide +kernel

/-- the per-lane model of the SIMD 8-bit `divide_alpha` (exact f32 quotient 65280/alpha, conversion to
    a signed Q8.8 lane, `_mm_mulhrs_epi16`, `_mm_min_epu16`) equals the portable `div_and_clip` with the
    translated reciprocal table for all 65,536 (colour, alpha) pairs - incl. alpha = 0 (integer
    indefinite -> 0) and alpha = 1 (the Q8.8 lane is negative, the unsigned minimum saturates) -/
theorem simd_div8_eq (c a : Nat) (hc : c < 256) (ha : a < 256) :
    Fir.Simd.simdDiv8 c a = Fir.Gen.div_and_clip c (Fir.Gen.recip_alpha a) := by
  have h := simd_div8_all
  rw [List.all_eq_true] at h
  have h2 := h a (List.mem_range.mpr ha)
  rw [List.all_eq_true] at h2
  simpa using h2 c (List.mem_range.mpr hc)

/-! ### non-vacuity -/
example : clip8 (300 * 2 ^ 14) 14 = 255 ∧ clip8 (-5) 3 = 0 ∧ clip8 (77 * 2 ^ 12 + 5) 12 = 77 := by decide

/-- the source of the SIMD 8-bit divide kernels is the one `Fir.Simd.simdDiv8` was written against:
    the same intrinsics in the same order with the same immediates and constants (extracted from
    src/alpha/u8x{2,4}/{sse4,avx2}.rs by the translator on every run) -/
theorem simd_div8_source_as_modelled : Fir.Gen.simdDiv8Skeleton = [
  ("src/alpha/u8x4/sse4.rs::divide_alpha_4_pixels", "set1_epi32(0xff000000u32 as i32) set1_ps(255.0 * 256.0) set1_epi16(0xff) cvtepi32_ps cvtps_epi32 div_ps min_epu16 mulhrs_epi16 min_epu16 mulhrs_epi16 packus_epi16"),
  ("src/alpha/u8x4/avx2.rs::divide_alpha_8_pixels", "set1_epi32(0xff000000u32 as i32) set1_ps(255.0 * 256.0) set1_epi16(0xff) cvtepi32_ps cvtps_epi32 div_ps min_epu16 mulhrs_epi16 min_epu16 mulhrs_epi16 packus_epi16"),
  ("src/alpha/u8x2/sse4.rs::divide_alpha_8_pixels", "set1_epi16(0xff00u16 as i16) set1_epi16(0xff) set1_ps(255.0 * 256.0) cvtepi32_ps cvtps_epi32 div_ps cvtepi32_ps cvtps_epi32 div_ps mulhrs_epi16 min_epu16"),
  ("src/alpha/u8x2/avx2.rs::divide_alpha_16_pixels", "set1_epi16(0xff00u16 as i16) set1_epi16(0xff) set1_ps(255.0 * 256.0) cvtepi32_ps cvtps_epi32 div_ps cvtepi32_ps cvtps_epi32 div_ps mulhrs_epi16 min_epu16")] := by rfl

end Fir.C02
