/-
  C04 - Geometry validation accepts exactly the regions that lie inside the image.

  * `check_crop_box` (translated from src/images/typed_cropped_image.rs on every run): accepted iff
    the rectangle lies inside the image, for ALL u32 sextuples, with the documented error kind and
    without any overflow.
  * constructors' size checks (translated size expressions): accepted iff the buffer holds
    width*height*pixel_size bytes computed in ℕ - no wrap-around for any u32 sizes.
  * `CroppedSrcImageView::crop` on f64 boxes: accepted iff finite, non-negative and inside.
  * an accepted cropped view exposes exactly `h - start` rows of exactly its width, each a
    contiguous piece of the corresponding row of the wrapped view (see also Fir.C14 / ViewLemmas).
-/
import Fir.Generated.Crop
import Fir.Generated.Sizes
import Fir.Generated.CropF64
import Fir.Model.View
import Fir.Model.CropF64
import Fir.Proofs.ViewExactLemmas
import Mathlib.Tactic.SplitIfs

namespace Fir.C04
open Fir.Gen

/-! ### u32 crop boxes -/

/-- ∀ u32 sextuples: Ok iff origin inside and far corner inside (sums in ℕ, i.e. no wrap-around);
    the error kind is "position" iff the origin is outside, "size" otherwise; nothing overflows -/
theorem check_crop_box_iff (W H l t w h : Nat)
    (hW : W < 4294967296) (hH : H < 4294967296) (hl : l < 4294967296) (ht : t < 4294967296)
    (_hw : w < 4294967296) (_hh : h < 4294967296) :
    (check_crop_box W H l t w h = 0 ↔ (l < W ∧ t < H ∧ l + w ≤ W ∧ t + h ≤ H)) ∧
    (check_crop_box W H l t w h = 1 ↔ (l ≥ W ∨ t ≥ H)) ∧
    (check_crop_box W H l t w h = 2 ↔ (l < W ∧ t < H ∧ (l + w > W ∨ t + h > H))) ∧
    check_crop_box_ok W H l t w h := by
  -- shape-independent: whatever order of tests / temporaries the source uses, every path is closed by `omega`
  unfold check_crop_box check_crop_box_ok
  simp only [Bool.or_eq_true, decide_eq_true_eq, ge_iff_le, gt_iff_lt]
  refine ⟨?_, ?_, ?_, ?_⟩ <;>
    (split_ifs <;> (first | omega | trivial | (constructor <;> intro _ <;> omega) | (simp_all; omega) | simp_all))

/-- the translated validation is the `cropValid` predicate of the view model, so every `crop` node of
    a well-formed `View` is one that the real constructors accept, and vice versa -/
theorem check_crop_box_eq_cropValid (inner : View) (l t w h : Nat)
    (hW : inner.width < 4294967296) (hH : inner.height < 4294967296) (hl : l < 4294967296)
    (ht : t < 4294967296) (hw : w < 4294967296) (hh : h < 4294967296) :
    (check_crop_box inner.width inner.height l t w h = 0) ↔ View.cropValid inner l t w h = true := by
  rw [(check_crop_box_iff _ _ l t w h hW hH hl ht hw hh).1]
  simp [View.cropValid, and_assoc]

/-! ### constructors: buffer size -/

/-- ∀ u32 width, height, every pixel size 1..16: the computed requirement never overflows, and a
    buffer (whose length is below 2^63, as every Rust slice is) is accepted iff it holds
    width*height*psize bytes, the product taken in ℕ -/
theorem ctor_size_iff (width height psize len : Nat) (hw : width < 4294967296) (hh : height < 4294967296)
    (hp : 1 ≤ psize ∧ psize ≤ 16) (hlen : len < 9223372036854775808) :
    image_ref_size_ok width height psize ∧ image_vec_size_ok width height psize ∧
    image_slice_size_ok width height psize ∧ typed_buffer_size_ok width height psize ∧
    (¬ (len < image_ref_size width height psize) ↔ width * height * psize ≤ len) ∧
    (¬ (len < image_vec_size width height psize) ↔ width * height * psize ≤ len) ∧
    (¬ (len < image_slice_size width height psize) ↔ width * height * psize ≤ len) ∧
    (¬ (len < typed_buffer_size width height psize) ↔ width * height * psize ≤ len) := by
  have hwh : width * height ≤ 4294967295 * 4294967295 := Nat.mul_le_mul (by omega) (by omega)
  unfold image_ref_size_ok image_vec_size_ok image_slice_size_ok typed_buffer_size_ok
    image_ref_size image_vec_size image_slice_size typed_buffer_size
  generalize width * height = a at *
  have e : a % 18446744073709551616 = a := Nat.mod_eq_of_lt (by omega)
  simp only [e]
  rcases hp with ⟨_, hp2⟩
  have hb : a * psize ≤ 4294967295 * 4294967295 * 16 := Nat.mul_le_mul hwh hp2
  generalize a * psize = b at *
  omega

/-- typed constructors count pixels: width*height never overflows usize -/
theorem ctor_count_iff (width height len : Nat) (hw : width < 4294967296) (hh : height < 4294967296) :
    typed_ref_count_ok width height ∧ typed_slice_count_ok width height ∧ typed_vec_count_ok width height ∧
    (¬ (len < typed_ref_count width height) ↔ width * height ≤ len) ∧
    (¬ (len < typed_slice_count width height) ↔ width * height ≤ len) ∧
    (¬ (len < typed_vec_count width height) ↔ width * height ≤ len) := by
  have hwh : width * height ≤ 4294967295 * 4294967295 := Nat.mul_le_mul (by omega) (by omega)
  unfold typed_ref_count_ok typed_slice_count_ok typed_vec_count_ok typed_ref_count typed_slice_count typed_vec_count
  generalize width * height = a at *
  omega

/-! ### f64 crop boxes (ResizeOptions::crop) -/

/-- the source text of CroppedSrcImageView::crop and of the early-out of resize_typed is exactly what
    `Fir.cropCheck` / `Fir.resizePrologue` mirror -/
theorem crop_steps_as_modelled : cropF64Steps = cropStepsModelled ∧ resizeEarlyOut = earlyOutModelled := by
  decide

/-- Ok iff all three guards pass (any carrier) -/
theorem cropCheck_zero {α : Type} (o : FOps α) (W H : Nat) (l t w h : α) :
    cropCheck o W H l t w h = 0 ↔ (cropC1 o w h = true ∧ cropC2 o W H l t = true ∧ cropC3 o W H l t w h = true) := by
  unfold cropCheck
  cases cropC1 o w h <;> cases cropC2 o W H l t <;> cases cropC3 o W H l t w h <;> simp

/-- a crop box is accepted iff all four fields are finite (no NaN, no infinity), origin and size are
    non-negative, the origin is inside and the (once rounded) far corner is inside - for every
    rounding function `fl` -/
theorem crop_f64_iff (fl : Rat → Rat) (W H : Nat) (l t w h : XF) :
    cropCheck (xfOps fl) W H l t w h = 0 ↔
      ∃ ql qt qw qh : Rat, l = XF.fin ql ∧ t = XF.fin qt ∧ w = XF.fin qw ∧ h = XF.fin qh ∧
        0 ≤ ql ∧ 0 ≤ qt ∧ 0 ≤ qw ∧ 0 ≤ qh ∧ ql < W ∧ qt < H ∧ fl (ql + qw) ≤ W ∧ fl (qt + qh) ≤ H := by
  rw [cropCheck_zero]
  constructor
  · rintro ⟨c1, c2, c3⟩
    simp only [cropC1, cropC2, cropC3, xfOps, Bool.and_eq_true] at c1 c2 c3
    obtain ⟨⟨⟨hl0, ht0⟩, hlW⟩, htH⟩ := c2
    obtain ⟨hw0, hh0⟩ := c1
    obtain ⟨hr, hb⟩ := c3
    cases l <;> simp [XF.le, XF.lt] at hl0 hlW
    cases t <;> simp [XF.le, XF.lt] at ht0 htH
    cases w <;> simp [XF.le, XF.add] at hw0 hr
    cases h <;> simp [XF.le, XF.add] at hh0 hb
    rename_i ql qt qw qh
    exact ⟨ql, qt, qw, qh, rfl, rfl, rfl, rfl, hl0, ht0, hw0, hh0, hlW, htH, hr, hb⟩
  · rintro ⟨ql, qt, qw, qh, rfl, rfl, rfl, rfl, h1, h2, h3, h4, h5, h6, h7, h8⟩
    simp [cropC1, cropC2, cropC3, xfOps, XF.le, XF.lt, XF.add, h1, h2, h3, h4, h5, h6, h7, h8]

/-! ### non-vacuity -/
example : check_crop_box 4 4 1 1 4294967295 2 = 2 := by decide
example : check_crop_box 4 4 1 1 3 3 = 0 := by decide
example : image_slice_size 2147483648 2147483648 4 = 18446744073709551615 := by decide
example : cropCheck (xfOps id) 4 4 (XF.fin 1) (XF.fin 0) (XF.fin (5/2)) (XF.fin 4) = 0 := by decide +kernel
example : cropCheck (xfOps id) 4 4 XF.nan (XF.fin 0) (XF.fin 1) (XF.fin 1) = 1 := by decide +kernel
example : cropCheck (xfOps id) 4 4 (XF.fin (-1)) (XF.fin 0) (XF.fin 1) (XF.fin 1) = 1 := by decide +kernel

/-! ### what an accepted view exposes -/

/-- an accepted (well-formed: every crop passed `check_crop_box`, every typed view fits its buffer) view of
    non-zero width exposes, from any start row, exactly `height - start` rows of exactly `width` pixels -
    for every nesting depth of cropped views -/
theorem accepted_view_rows (v : View) (hwf : v.wf = true) (hw : 0 < v.width) (s : Nat) :
    (v.rows s).length = v.height - s ∧ ∀ row ∈ v.rows s, row.length = v.width :=
  Fir.Proofs.wf_rows_exact v hwf hw s

/-- and every pixel it exposes is a pixel its parent exposes: nothing outside the underlying image -/
theorem accepted_view_inside_parent (inner : View) (l t w h s : Nat) (q : Nat)
    (hq : q ∈ ((View.crop inner l t w h).rows s).flatten) : q ∈ (inner.rows 0).flatten :=
  Fir.Proofs.crop_rows_subset inner l t w h s q hq

example : (View.crop (View.typed 0 5 4 20) 1 1 3 2).wf = true ∧
    (View.crop (View.typed 0 5 4 20) 1 1 3 2).rows 0 = [[6, 7, 8], [11, 12, 13]] := by decide


end Fir.C04
