/-
  C15 - Fit-into-destination crop is in bounds, keeps aspect, honours centering.

  Proved for the ideal rational crop box `Fir.Spec.fitQ` - all positive sizes (no bound), all
  centerings.  The f64 evaluation (`Fir.fitCrop`, a bit-exact mirror of the Rust code, its source text
  pinned below) is tied to the ideal numerically by the correspondence check; the last-ulp in-bounds
  clause for f64 is established by enumeration, not by theorem (DESIGN, C15).
-/
import Fir.Spec.FitCrop
import Fir.Model.FitCrop
import Fir.Proofs.FitCropLemmas
import Mathlib.Order.Monotone.Basic
import Fir.Proofs.IeeeLemmas

namespace Fir.C15
open Fir.Spec

/-- the crop box lies inside the source: 0 ≤ left, left + width ≤ source width (same vertically) -/
theorem fitQ_inside (eps sw sh dw dh cx cy : ℚ) (he : 0 ≤ eps) (hsw : 0 < sw) (hsh : 0 < sh) (hdw : 0 < dw) (hdh : 0 < dh) :
    let b := fitQ eps sw sh dw dh cx cy
    0 ≤ b.1 ∧ b.1 + b.2.2.1 ≤ sw ∧ 0 ≤ b.2.1 ∧ b.2.1 + b.2.2.2 ≤ sh ∧ 0 < b.2.2.1 ∧ 0 < b.2.2.2 :=
  Fir.Proofs.fitQ_inside eps sw sh dw dh cx cy he hsw hsh hdw hdh

/-- the crop box has the destination's aspect ratio - exactly, unless the source ratio is already
    within `eps` of it (then the whole source is taken) -/
theorem fitQ_aspect (eps sw sh dw dh cx cy : ℚ) (he : 0 ≤ eps) (hsw : 0 < sw) (hsh : 0 < sh) (hdw : 0 < dw) (hdh : 0 < dh) :
    let b := fitQ eps sw sh dw dh cx cy
    b.2.2.1 / b.2.2.2 = dw / dh ∨ (|sw / sh - dw / dh| < eps ∧ b.2.2.1 = sw ∧ b.2.2.2 = sh) :=
  Fir.Proofs.fitQ_aspect eps sw sh dw dh cx cy he hsw hsh hdw hdh

/-- the crop box spans the full source in at least one dimension -/
theorem fitQ_spans (eps sw sh dw dh cx cy : ℚ) (hsw : 0 < sw) (hsh : 0 < sh) (hdw : 0 < dw) (hdh : 0 < dh) :
    let b := fitQ eps sw sh dw dh cx cy
    b.2.2.1 = sw ∨ b.2.2.2 = sh :=
  Fir.Proofs.fitQ_spans eps sw sh dw dh cx cy hsw hsh hdw hdh

/-- the fraction of the removed margin on the left / top equals the centering clamped to [0, 1] -/
theorem fitQ_centering (eps sw sh dw dh cx cy : ℚ) :
    let b := fitQ eps sw sh dw dh cx cy
    b.1 = (sw - b.2.2.1) * max 0 (min cx 1) ∧ b.2.1 = (sh - b.2.2.2) * max 0 (min cy 1) :=
  Fir.Proofs.fitQ_centering eps sw sh dw dh cx cy

/-- with eps = 0 (pure mathematics) the aspect ratio is exact -/
theorem fitQ_aspect_exact (sw sh dw dh cx cy : ℚ) (hsw : 0 < sw) (hsh : 0 < sh) (hdw : 0 < dw) (hdh : 0 < dh) :
    let b := fitQ 0 sw sh dw dh cx cy
    b.2.2.1 / b.2.2.2 = dw / dh := by
  intro b
  rcases fitQ_aspect 0 sw sh dw dh cx cy (le_refl 0) hsw hsh hdw hdh with h | ⟨h, _, _⟩
  · exact h
  · exact absurd h (not_lt.mpr (abs_nonneg _))

/-! ### the rounded computation (`fitF`: the code's operation order, every operation rounded by an
    arbitrary monotone `fl`) - clauses that hold for the f64 code whatever the rounding does -/

/-- spans the full source in at least one dimension: exact for the floating-point code too (the branch
    that crops one side returns the other side untouched) -/
theorem fitF_spans (fl : ℚ → ℚ) (eps sw sh dw dh cx cy : ℚ) :
    let b := fitF fl eps sw sh dw dh cx cy
    b.2.2.1 = sw ∨ b.2.2.2 = sh := by
  simp only [fitF]
  split_ifs <;> simp

/-- the origin is never negative and never exceeds the (rounded) removed margin, for every centering
    (incl. values far outside [0, 1], which are clamped), provided the crop size does not exceed the source
    size - the one clause that needs IEEE's last-ulp behaviour and is established by enumeration -/
theorem fitF_origin (fl : ℚ → ℚ) (hfl : Monotone fl) (h0 : fl 0 = 0) (hid : ∀ x, fl (fl x) = fl x)
    (eps sw sh dw dh cx cy : ℚ) :
    let b := fitF fl eps sw sh dw dh cx cy
    (b.2.2.1 ≤ sw → 0 ≤ b.1 ∧ b.1 ≤ fl (sw - b.2.2.1)) ∧ (b.2.2.2 ≤ sh → 0 ≤ b.2.1 ∧ b.2.1 ≤ fl (sh - b.2.2.2)) := by
  have key : ∀ (s c t : ℚ), c ≤ s → 0 ≤ fl (fl (s - c) * max 0 (min t 1)) ∧ fl (fl (s - c) * max 0 (min t 1)) ≤ fl (s - c) := by
    intro s c t hcs
    have hm : 0 ≤ fl (s - c) := by
      have := hfl (show (0 : ℚ) ≤ s - c by linarith); rwa [h0] at this
    have ht0 : (0 : ℚ) ≤ max 0 (min t 1) := le_max_left _ _
    have ht1 : max 0 (min t 1) ≤ (1 : ℚ) := max_le (by norm_num) (min_le_right _ _)
    constructor
    · have := hfl (mul_nonneg hm ht0); rwa [h0] at this
    · calc fl (fl (s - c) * max 0 (min t 1)) ≤ fl (fl (s - c)) := hfl (by nlinarith)
        _ = fl (s - c) := hid _
  simp only [fitF]
  exact ⟨fun h => key _ _ _ h, fun h => key _ _ _ h⟩

/-- centering 0 puts the box at the origin, exactly -/
theorem fitF_centering_zero (fl : ℚ → ℚ) (h0 : fl 0 = 0) (eps sw sh dw dh : ℚ) :
    (fitF fl eps sw sh dw dh 0 0).1 = 0 ∧ (fitF fl eps sw sh dw dh 0 0).2.1 = 0 := by
  simp [fitF, h0]

/-- the source text of CropBox::fit_src_into_dst_size is exactly what `Fir.fitCrop` mirrors -/
theorem fit_source_as_modelled : Fir.Gen.fitCropSource = Fir.fitCropSourceModelled := by rfl

/-! ### non-vacuity -/
example : (0 : ℚ) ≤ 1 / 2 ∧ (0 : ℚ) < 100 := by norm_num

/-! ### the premises about rounding discharged for IEEE-754 round-to-nearest-even (`Fir.Ieee.flP`) -/

section IeeeInstances
open Fir.Ieee Fir.Flt
/-- `fitF_origin` for IEEE binary64 -/
theorem fitF_origin_ieee (eps sw sh dw dh cx cy : ℚ) :
    let b := Fir.Spec.fitF (flP 53) eps sw sh dw dh cx cy
    (b.2.2.1 ≤ sw → 0 ≤ b.1 ∧ b.1 ≤ flP 53 (sw - b.2.2.1)) ∧ (b.2.2.2 ≤ sh → 0 ≤ b.2.1 ∧ b.2.1 ≤ flP 53 (sh - b.2.2.2)) :=
  fitF_origin (flP 53) (flP_monotone 53 (by norm_num)) (flP_zero 53) (flP_idem 53 (by norm_num)) eps sw sh dw dh cx cy
end IeeeInstances

end Fir.C15
