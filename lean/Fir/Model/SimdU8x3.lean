/-
  Fir.Model.SimdU8x3 - lane-accurate model of `horiz_convolution_one_row` of src/convolution/u8x3/sse4.rs (RGB8,
  SSE4.1).  A pixel is three bytes, so a 16-byte load covers 5 pixels and one byte, an 8-byte load 2 pixels and
  two bytes: the kernel leaves its 4- and 2-coefficient loops as soon as such a load would pass the end of the row
  (`max_x = src_width - 5` / `- 2`) and finishes with single pixels.  The model keeps those data-dependent exits;
  `Fir.C02.u8x3_sse4_one_row_eq_portable` proves the result equal to the portable kernel whatever the row width,
  `Fir.C03.u8x3_sse4_one_row_loads_in_row` that no load leaves the row.  Masks: `Fir.Gen.u8x3_sse4_*` (from the source).
-/
import Fir.Model.SimdU8x4
namespace Fir.SimdU8x3
open Fir.Gen Fir.SimdU8x4

/-- `n` bytes of the row starting at pixel `x`, zero-padded to a 16-byte register -/
def load (row : List Int) (x n : Nat) : List Int :=
  ((List.range n).map fun i => row.getD (3 * x + i) 0 % 256) ++ List.replicate (16 - n) 0

def step4 (s row : List Int) (x : Nat) (k0 k1 k2 k3 : Int) : List Int :=
  let ksource := low64 (kBytes [k0, k1, k2, k3])
  let source := load row x 16
  let s := add32 s (madd (pshufb source u8x3_sse4_pix_sh1) (pshufb ksource u8x3_sse4_coef_sh1))
  add32 s (madd (pshufb source u8x3_sse4_pix_sh2) (pshufb ksource u8x3_sse4_coef_sh2))

def step2 (s row : List Int) (x : Nat) (k0 k1 : Int) : List Int :=
  add32 s (madd (pshufb (load row x 8) u8x3_sse4_pix_sh1) (clone4 (kBytes [k0, k1])))

/-- `mm_cvtepu8_epi32_u8x3`: three bytes and a zero, zero-extended to 32-bit lanes; `_mm_set1_epi32(k as i32)` -/
def step1 (s row : List Int) (x : Nat) (k : Int) : List Int :=
  let b := load row x 3
  let pix := [b.getD 0 0, 0, 0, 0, b.getD 1 0, 0, 0, 0, b.getD 2 0, 0, 0, 0, 0, 0, 0, 0]
  let kk := wrap16 k
  add32 s (madd pix (clone4 [kk % 256, (kk / 256) % 256, (kk / 65536) % 256, (kk / 16777216) % 256]))

/-- `if x < max_x { for k in coeffs.chunks_exact(4) { ..; x += 4; if x >= max_x { break } } }` -/
def loop4 (maxX : Nat) (row : List Int) : List Int → Nat → List Int → List Int × Nat × List Int
  | k0 :: k1 :: k2 :: k3 :: rest, x, s =>
    if x < maxX then loop4 maxX row rest (x + 4) (step4 s row x k0 k1 k2 k3) else (k0 :: k1 :: k2 :: k3 :: rest, x, s)
  | ks, x, s => (ks, x, s)

/-- the same for pairs of coefficients and 8-byte loads -/
def loop2 (maxX : Nat) (row : List Int) : List Int → Nat → List Int → List Int × Nat × List Int
  | k0 :: k1 :: rest, x, s =>
    if x < maxX then loop2 maxX row rest (x + 2) (step2 s row x k0 k1) else (k0 :: k1 :: rest, x, s)
  | ks, x, s => (ks, x, s)

/-- `for &k in coeffs { .. x += 1 }` -/
def loop1 (row : List Int) : List Int → Nat → List Int → List Int
  | k :: rest, x, s => loop1 row rest (x + 1) (step1 s row x k)
  | [], _, s => s

/-- one destination pixel of a row of `w` pixels: three bytes -/
def pixel (p w : Nat) (row : List Int) (start : Nat) (ks : List Int) : List Int :=
  let i := wrap32 (2 ^ (p - 1))
  let r4 := loop4 (w - 5) row ks start [i, i, i, i]
  let r2 := loop2 (w - 2) row r4.1 r4.2.1 r4.2.2
  ((loop1 row r2.1 r2.2.1 r2.2.2).map fun v => packus8 (packs16 (v / 2 ^ p))).take 3

/-! ### `horiz_convolution_four_rows` of the same file, one of its four rows: the same loop guards and loads, the masks
    `sh_lo`, `sh_hi`; coefficient pairs are cloned with `mm_load_and_clone_i16x2` instead of being shuffled -/

def step4R (s row : List Int) (x : Nat) (k0 k1 k2 k3 : Int) : List Int :=
  let source := load row x 16
  let s := add32 s (madd (pshufb source u8x3_sse4_four_sh_lo) (clone4 (kBytes [k0, k1])))
  add32 s (madd (pshufb source u8x3_sse4_four_sh_hi) (clone4 (kBytes [k2, k3])))

def step2R (s row : List Int) (x : Nat) (k0 k1 : Int) : List Int :=
  add32 s (madd (pshufb (load row x 8) u8x3_sse4_four_sh_lo) (clone4 (kBytes [k0, k1])))

def loop4R (maxX : Nat) (row : List Int) : List Int → Nat → List Int → List Int × Nat × List Int
  | k0 :: k1 :: k2 :: k3 :: rest, x, s =>
    if x < maxX then loop4R maxX row rest (x + 4) (step4R s row x k0 k1 k2 k3) else (k0 :: k1 :: k2 :: k3 :: rest, x, s)
  | ks, x, s => (ks, x, s)

def loop2R (maxX : Nat) (row : List Int) : List Int → Nat → List Int → List Int × Nat × List Int
  | k0 :: k1 :: rest, x, s =>
    if x < maxX then loop2R maxX row rest (x + 2) (step2R s row x k0 k1) else (k0 :: k1 :: rest, x, s)
  | ks, x, s => (ks, x, s)

def pixelR (p w : Nat) (row : List Int) (start : Nat) (ks : List Int) : List Int :=
  let i := wrap32 (2 ^ (p - 1))
  let r4 := loop4R (w - 5) row ks start [i, i, i, i]
  let r2 := loop2R (w - 2) row r4.1 r4.2.1 r4.2.2
  ((loop1 row r2.1 r2.2.1 r2.2.2).map fun v => packus8 (packs16 (v / 2 ^ p))).take 3


/-- what the portable kernel accumulates for channel `c` -/
def dotC3 (row : List Int) (c : Nat) : List Int → Nat → Int
  | [], _ => 0
  | k :: ks, x => row.getD (3 * x + c) 0 % 256 * wrap16 k + dotC3 row c ks (x + 1)

/-- the memory loads of the kernel as (first pixel, number of bytes), in order -/
def loads4 (maxX : Nat) : List Int → Nat → List (Nat × Nat) × List Int × Nat
  | k0 :: k1 :: k2 :: k3 :: rest, x =>
    if x < maxX then let r := loads4 maxX rest (x + 4); ((x, 16) :: r.1, r.2.1, r.2.2) else ([], k0 :: k1 :: k2 :: k3 :: rest, x)
  | ks, x => ([], ks, x)

def loads2 (maxX : Nat) : List Int → Nat → List (Nat × Nat) × List Int × Nat
  | k0 :: k1 :: rest, x =>
    if x < maxX then let r := loads2 maxX rest (x + 2); ((x, 8) :: r.1, r.2.1, r.2.2) else ([], k0 :: k1 :: rest, x)
  | ks, x => ([], ks, x)

def loads (w : Nat) (start : Nat) (ks : List Int) : List (Nat × Nat) :=
  let r4 := loads4 (w - 5) ks start
  let r2 := loads2 (w - 2) r4.2.1 r4.2.2
  r4.1 ++ r2.1 ++ (List.range r2.2.1.length).map fun i => (r2.2.2 + i, 3)

end Fir.SimdU8x3
