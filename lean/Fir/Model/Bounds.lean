/-
  Fir.Model.Bounds - float-oblivious model of the window computation in `precompute_coefficients`
  (src/convolution/mod.rs) and of the temporary-image geometry in `do_convolution` (src/resizer.rs).

  Everything that comes out of floating point is a *parameter*: the clamped window `[xMin, xMax)` (the
  casts `as u32` after `.max(0.)` / `.min(in_size)`), and for every tap whether its weight compares
  equal to zero.  The index arithmetic on top of it is modelled exactly, so the theorems of C03 hold
  whatever IEEE arithmetic, libm or a custom kernel (incl. NaN weights) produce.
-/
namespace Fir.Bounds

/-- leading-zero trimming: `if x == bound_start && w == 0. { bound_start += 1 } else { push }` over
    x in [xMin, xMax): returns (bound_start, number of pushed weights) -/
def leading (isZero : Nat → Bool) : (x xMax boundStart pushed : Nat) → (fuel : Nat) → Nat × Nat
  | _, _, boundStart, pushed, 0 => (boundStart, pushed)
  | x, xMax, boundStart, pushed, fuel + 1 =>
    if x < xMax then
      if x = boundStart ∧ isZero x = true then leading isZero (x + 1) xMax (boundStart + 1) pushed fuel
      else leading isZero (x + 1) xMax boundStart (pushed + 1) fuel
    else (boundStart, pushed)

/-- trailing-zero trimming over the pushed weights (last pushed weight belongs to sample xMax-1):
    `for c in rev { if bound_end <= bound_start || c != 0. { break }; bound_end -= 1 }` -/
def trailing (isZero : Nat → Bool) (boundStart : Nat) : (boundEnd fuel : Nat) → Nat
  | boundEnd, 0 => boundEnd
  | boundEnd, fuel + 1 =>
    if boundEnd ≤ boundStart ∨ isZero (boundEnd - 1) = false then boundEnd
    else trailing isZero boundStart (boundEnd - 1) fuel

/-- one window: (start, size, pushed) -/
def window (isZero : Nat → Bool) (xMin xMax : Nat) : Nat × Nat × Nat :=
  let (bs, pushed) := leading isZero xMin xMax xMin 0 (xMax - xMin)
  let be := trailing isZero bs xMax (xMax - xMin)
  (bs, be - bs, pushed)

/-- the precision loop of Normalizer16 / Normalizer32, `next p` being the rounded value
    `(max_weight * 2^(p+1)).round()` as the float code computes it -/
def precisionLoop (next : Nat → Int) (limit : Int) : (cur bits : Nat) → Nat
  | cur, 0 => cur
  | cur, fuel + 1 => if next cur ≥ limit then cur else if fuel = 0 then cur else precisionLoop next limit (cur + 1) fuel

/-- precision chosen for `bits` candidate precisions 0 .. bits-1 (bits = PRECISION_BITS) -/
def precisionOf (next : Nat → Int) (limit : Int) (bits : Nat) : Nat := precisionLoop next limit 0 bits

/-- temporary image extent and shifted bounds: first = min start, last = max end -/
def tempExtent (bounds : List (Nat × Nat)) : Nat × Nat :=
  (bounds.foldl (fun m b => min m b.1) (bounds.headD (0, 0)).1, bounds.foldl (fun m b => max m (b.1 + b.2)) 0)

def shiftBounds (bounds : List (Nat × Nat)) (first : Nat) : List (Nat × Nat) := bounds.map fun b => (b.1 - first, b.2)

end Fir.Bounds
