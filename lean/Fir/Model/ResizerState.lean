/-
  Fir.Model.ResizerState - the `Resizer` as a state machine (DESIGN 3.4): three scratch buffers that
  only ever grow (`get_temp_image_from_buffer`: `resize` to the needed length, never cleared,
  `reset_internal_buffers` drops them, `clone` copies them) and the selected CPU extension.  The
  *content* of a scratch buffer is arbitrary garbage from earlier calls; a temporary image carved out
  of it is completely overwritten before it is read (premultiply / first pass / nearest write every
  pixel, C05), which is why `step` computes its outcome with `resizeModel` from the arguments alone.
-/
import Fir.Model.Resizer
namespace Fir

structure RState where
  alphaLen : Nat
  convLen : Nat
  ssLen : Nat
  /-- arbitrary content left behind by earlier calls -/
  garbage : List Int
  ext : String

inductive ROp where
  | resize (p : PixT) (src prev : Img) (o : ROpts) (need : Nat × Nat × Nat) (leftover : List Int)
  | reset
  | clone
  | setExt (e : String)

def RState.init (ext : String) : RState := ⟨0, 0, 0, [], ext⟩

/-- one operation: new state and, for a resize, its outcome -/
def rstep (s : RState) : ROp → RState × Option (RStatus × Img)
  | .resize p src prev o need leftover =>
      ({ s with alphaLen := max s.alphaLen need.1, convLen := max s.convLen need.2.1, ssLen := max s.ssLen need.2.2,
                garbage := leftover }, some (resizeModel p src prev o))
  | .reset => ({ s with alphaLen := 0, convLen := 0, ssLen := 0, garbage := [] }, none)
  | .clone => (s, none)
  | .setExt e => ({ s with ext := e }, none)

/-- outcomes of a whole history -/
def rrun (s : RState) : List ROp → List (Option (RStatus × Img))
  | [] => []
  | op :: ops => (rstep s op).2 :: rrun (rstep s op).1 ops

end Fir
