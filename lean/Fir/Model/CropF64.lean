/-
  Fir.Model.CropF64 - model of CroppedSrcImageView::crop (src/crop_box.rs) and of the prologue of
  Resizer::resize_typed (src/resizer.rs), generic in the float carrier:
    * `Float`  : executable mirror used by the correspondence check,
    * `XF`     : IEEE-like extended rationals (NaN, +-inf, finite) used by the theorems.
  The step list this mirrors is `Fir.Gen.cropF64Steps`, re-extracted from the source on every run and
  pinned by `Fir.C04.crop_steps_as_modelled`.
-/
import Fir.Generated.CropF64
namespace Fir

structure FOps (α : Type) where
  ofNat : Nat → α
  add : α → α → α
  le : α → α → Bool
  lt : α → α → Bool
  eq : α → α → Bool

/-- the steps of `CroppedSrcImageView::crop` as modelled (must equal `Gen.cropF64Steps`) -/
def cropStepsModelled : List (String × String × String) := [
  ("guard", "!(crop_box.width >= 0. && crop_box.height >= 0.)", "WidthOrHeightLessThanZero"),
  ("let", "img_width", "image_view.width() as _"),
  ("let", "img_height", "image_view.height() as _"),
  ("guard", "!(crop_box.left >= 0. && crop_box.top >= 0. && crop_box.left < img_width && crop_box.top < img_height)", "PositionIsOutOfImageBoundaries"),
  ("let", "right", "crop_box.left + crop_box.width"),
  ("let", "bottom", "crop_box.top + crop_box.height"),
  ("guard", "!(right <= img_width && bottom <= img_height)", "SizeIsOutOfImageBoundaries")]

def earlyOutModelled : String :=
  "crop_box.width == 0. || crop_box.height == 0. || dst_view.width() == 0 || dst_view.height() == 0"

/-- `crop_box.width >= 0. && crop_box.height >= 0.` -/
def cropC1 {α : Type} (o : FOps α) (w h : α) : Bool := o.le (o.ofNat 0) w && o.le (o.ofNat 0) h
/-- `left >= 0. && top >= 0. && left < img_width && top < img_height` -/
def cropC2 {α : Type} (o : FOps α) (W H : Nat) (l t : α) : Bool :=
  o.le (o.ofNat 0) l && o.le (o.ofNat 0) t && o.lt l (o.ofNat W) && o.lt t (o.ofNat H)
/-- `left + width <= img_width && top + height <= img_height` -/
def cropC3 {α : Type} (o : FOps α) (W H : Nat) (l t w h : α) : Bool :=
  o.le (o.add l w) (o.ofNat W) && o.le (o.add t h) (o.ofNat H)

/-- 0 = Ok, 1 = PositionIsOutOfImageBoundaries, 2 = SizeIsOutOfImageBoundaries, 3 = WidthOrHeightLessThanZero -/
def cropCheck {α : Type} (o : FOps α) (W H : Nat) (l t w h : α) : Nat :=
  if !(cropC1 o w h) then 3
  else if !(cropC2 o W H l t) then 1
  else if !(cropC3 o W H l t w h) then 2
  else 0

/-- prologue of resize_typed: 4 = early Ok (nothing to do), otherwise the crop check -/
def resizePrologue {α : Type} (o : FOps α) (W H dw dh : Nat) (l t w h : α) : Nat :=
  if o.eq w (o.ofNat 0) || o.eq h (o.ofNat 0) || dw == 0 || dh == 0 then 4 else cropCheck o W H l t w h

def floatOps : FOps Float :=
  { ofNat := Float.ofNat, add := (· + ·), le := fun a b => a ≤ b, lt := fun a b => a < b, eq := fun a b => a == b }

/-- extended rationals with IEEE comparison semantics -/
inductive XF where
  | nan | ninf | pinf
  | fin (q : Rat)
  deriving Inhabited

namespace XF
def le : XF → XF → Bool
  | nan, _ => false
  | _, nan => false
  | ninf, _ => true
  | _, pinf => true
  | pinf, _ => false
  | _, ninf => false
  | fin a, fin b => decide (a ≤ b)

def lt : XF → XF → Bool
  | nan, _ => false
  | _, nan => false
  | pinf, _ => false
  | _, ninf => false
  | ninf, _ => true
  | _, pinf => true
  | fin a, fin b => decide (a < b)

def eq : XF → XF → Bool
  | fin a, fin b => decide (a = b)
  | pinf, pinf => true
  | ninf, ninf => true
  | _, _ => false

/-- addition with one rounding `fl` of finite sums (a finite sum stays finite here; IEEE overflow to
    infinity would only turn an acceptance into a rejection) -/
def add (fl : Rat → Rat) : XF → XF → XF
  | nan, _ => nan
  | _, nan => nan
  | pinf, ninf => nan
  | ninf, pinf => nan
  | pinf, _ => pinf
  | _, pinf => pinf
  | ninf, _ => ninf
  | _, ninf => ninf
  | fin a, fin b => fin (fl (a + b))
end XF

def xfOps (fl : Rat → Rat) : FOps XF :=
  { ofNat := fun n => XF.fin (n : Rat), add := XF.add fl, le := XF.le, lt := XF.lt, eq := XF.eq }

end Fir
