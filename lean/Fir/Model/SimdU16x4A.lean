/-
  Fir.Model.SimdU16x4A - lane-accurate model of the AVX2 one-row horizontal kernel for RGBA16
  (`horiz_convolution_one_row` of src/convolution/u16x4/avx2.rs).  A 256-bit register is a pair of 128-bit halves; every
  instruction used (`_mm256_shuffle_epi8`, `_mm256_mul_epi32`, `_mm256_add_epi64`) acts on the halves independently (Intel's
  definition - the one modelling assumption, as for the other AVX2 kernels), so the state is a pair of SSE-shaped states
  `([R, G], [B, A])`: the low half accumulates pixels 0, 1 of a 4-pixel step (coefficients `k[0]`, `k[1]`), the high half pixels
  2, 3 (`k[2]`, `k[3]`); a 2-step puts one pixel into each half; the last coefficient goes to the low half (`set_epi64x(0, 0, k, k)`,
  high half of the source zeroed).  `rg_buf[0] + rg_buf[2] + half_error` etc. join the halves.  Masks by halves from the source.
  The AVX2 four-row kernel keeps two rows in one register, one per half, with the SSE4.1 kernel's instructions per half
  (masks proved equal by halves in Fir.C02), so each of its rows is `Fir.SimdU16x4.pixel`.
-/
import Fir.Model.SimdU16x4
namespace Fir.SimdU16x4A
open Fir.Gen Fir.SimdU8x4 Fir.SimdVertU16 Fir.SimdU16x4

abbrev St := List (List Int)

/-- one 128-bit half: two pixels, two coefficients -/
def half2 (rgA rgB baA baB : List Int) (s : St) (src : List Int) (k0 k1 : Int) : St :=
  [add64 (add64 (s.getD 0 []) (mulEpi32 (pshufb src rgA) k0)) (mulEpi32 (pshufb src rgB) k1),
   add64 (add64 (s.getD 1 []) (mulEpi32 (pshufb src baA) k0)) (mulEpi32 (pshufb src baB) k1)]

/-- one 128-bit half: one pixel, one coefficient -/
def half1 (rgA baA : List Int) (s : St) (src : List Int) (k : Int) : St :=
  [add64 (s.getD 0 []) (mulEpi32 (pshufb src rgA) k), add64 (s.getD 1 []) (mulEpi32 (pshufb src baA) k)]

/-- `loadu_si256` of four pixels, coefficients `(k0, k0, k2, k2)` and `(k1, k1, k3, k3)` -/
def acc4A (s : St × St) (row : List Int) (x : Nat) (k0 k1 k2 k3 : Int) : St × St :=
  (half2 u16x4_avx2_one_rg02_lo u16x4_avx2_one_rg13_lo u16x4_avx2_one_ba02_lo u16x4_avx2_one_ba13_lo s.1 (src4 row x 2) k0 k1,
   half2 u16x4_avx2_one_rg02_hi u16x4_avx2_one_rg13_hi u16x4_avx2_one_ba02_hi u16x4_avx2_one_ba13_hi s.2 (src4 row (x + 2) 2) k2 k3)

/-- `_mm256_set_m128i(loadl_epi64(x + 1), loadl_epi64(x))`, coefficients `(k0, k0, k1, k1)` -/
def acc2A (s : St × St) (row : List Int) (x : Nat) (k0 k1 : Int) : St × St :=
  (half1 u16x4_avx2_one_rg02_lo u16x4_avx2_one_ba02_lo s.1 (src4 row x 1) k0,
   half1 u16x4_avx2_one_rg02_hi u16x4_avx2_one_ba02_hi s.2 (src4 row (x + 1) 1) k1)

/-- `_mm256_set_m128i(_mm_setzero_si128(), loadl_epi64(x))`, coefficients `(k, k, 0, 0)` -/
def acc1A (s : St × St) (row : List Int) (x : Nat) (k : Int) : St × St :=
  (half1 u16x4_avx2_one_rg02_lo u16x4_avx2_one_ba02_lo s.1 (src4 row x 1) k,
   half1 u16x4_avx2_one_rg02_hi u16x4_avx2_one_ba02_hi s.2 (List.replicate 16 0) 0)

def loopA (row : List Int) : List Int → Nat → St × St → St × St
  | k0 :: k1 :: k2 :: k3 :: ks, x, s => loopA row ks (x + 4) (acc4A s row x k0 k1 k2 k3)
  | [k0, k1, k2], x, s => acc1A (acc2A s row x k0 k1) row (x + 2) k2
  | [k0, k1], x, s => acc2A s row x k0 k1
  | [k], x, s => acc1A s row x k
  | [], _, s => s

/-- one destination pixel: `clip(rg_buf[0] + rg_buf[2] + half_error)`, ... -/
def pixelA (p : Nat) (row : List Int) (start : Nat) (ks : List Int) : List Int :=
  let h := wrap64 (2 ^ (p - 1))
  let s := loopA row ks start ([[0, 0], [0, 0]], [[0, 0], [0, 0]])
  let lo := s.1.flatten
  let hi := s.2.flatten
  (List.range 4).map fun c => (clip32 (wrap64 (wrap64 (lo.getD c 0 + hi.getD c 0) + h)) p : Int)

end Fir.SimdU16x4A
