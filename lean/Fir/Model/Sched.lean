/-
  Fir.Model.Sched - abstract model of a banded (multi-threaded) pass: tasks are lists of single-pixel
  writes `(buffer index, value)`; a schedule is any order in which the writes of all tasks reach
  memory.  Values are computed from the immutable source only, so a task is fully described by its
  write list.
-/
import Fir.Model.View
namespace Fir

/-- memory as a function from buffer index to value -/
abbrev Mem := Nat → Int

def Mem.write (m : Mem) (w : Nat × Int) : Mem := fun j => if j = w.1 then w.2 else m j

/-- perform a sequence of writes -/
def applyWrites (ws : List (Nat × Int)) (m : Mem) : Mem := ws.foldl Mem.write m

/-- writes of a row-wise pass: destination row `k` receives `f` applied to the values of source row `k`;
    rows are zipped exactly as the Rust kernels zip `src.iter_rows(offset)` with `dst.iter_rows_mut(0)` -/
def rowPassWrites (f : List Int → List Int) (src : Mem) (srcRows dstRows : List (List Nat)) : List (Nat × Int) :=
  ((srcRows.zip dstRows).map fun (s, d) => d.zip (f (s.map src))).flatten

end Fir
