/-
  Fir.Model.SimdU8x4 - lane-accurate model of ONE SIMD kernel, down to the bytes of the registers:
  `horiz_convolution_one_row` of src/convolution/u8x4/sse4.rs (U8x4, SSE4.1, one destination pixel).

  A 128-bit register is a list of 16 bytes (0..255), byte 0 first; an `i32x4` accumulator is a list of four
  wrapped integers.  The shuffle masks `sh1 .. sh7` are NOT written here: they are re-extracted from the
  Rust source on every run (`Fir.Gen.u8x4_sse4_sh*`), as is the sequence of intrinsic calls
  (`Fir.Gen.u8x4_sse4_one_row_skeleton`, pinned in Fir.C02).  `Fir.C02.u8x4_sse4_one_row_eq_portable` proves
  that this kernel computes, for every coefficient list and every source row, exactly the bytes of the
  portable kernel - the lane plumbing (which byte goes to which lane, every remainder branch) included.
-/
import Fir.Generated.Prelude
import Fir.Generated.SimdKernels
namespace Fir.SimdU8x4
open Fir.Gen

abbrev wrap32 (x : Int) : Int := wrapInt 32 x

/-- `_mm_shuffle_epi8`: byte `i` of the result is byte `mask[i] & 15` of `r`, or 0 when `mask[i] < 0` -/
def pshufb (r m : List Int) : List Int := m.map fun i => if i < 0 then 0 else r.getD (i.toNat % 16) 0

/-- a signed 16-bit lane from its two bytes -/
def i16pair (lo hi : Int) : Int := let v := lo + 256 * hi; if v < 32768 then v else v - 65536

def i16At (r : List Int) (j : Nat) : Int := i16pair (r.getD (2 * j) 0) (r.getD (2 * j + 1) 0)

/-- `_mm_madd_epi16`: four 32-bit lanes, each the sum of two products of adjacent signed 16-bit lanes -/
def madd (a b : List Int) : List Int :=
  (List.range 4).map fun j => wrap32 (i16At a (2 * j) * i16At b (2 * j) + i16At a (2 * j + 1) * i16At b (2 * j + 1))

/-- `_mm_add_epi32` -/
def add32 (a b : List Int) : List Int := List.zipWith (fun x y => wrap32 (x + y)) a b

/-- the value of an `i16` coefficient (identity on -32768 .. 32767) -/
def wrap16 (k : Int) : Int := (k + 32768) % 65536 - 32768

/-- little-endian bytes of a slice of `i16` coefficients -/
def kBytes (ks : List Int) : List Int := ks.flatMap fun k => [k % 256, (k / 256) % 256]

/-- `n` pixels (4 bytes each) of the source row starting at pixel `x` -/
def srcBytes (row : List Int) (x n : Nat) : List Int := (List.range (4 * n)).map fun i => row.getD (4 * x + i) 0 % 256

/-- a 64-bit load: the upper half of the register is zero -/
def low64 (l : List Int) : List Int := l ++ List.replicate 8 0

/-- the 8-coefficient step -/
def acc8 (s row : List Int) (x : Nat) (k8 : List Int) : List Int :=
  let ksource := kBytes k8
  let source := srcBytes row x 4
  let s := add32 s (madd (pshufb source u8x4_sse4_sh1) (pshufb ksource u8x4_sse4_sh2))
  let s := add32 s (madd (pshufb source u8x4_sse4_sh3) (pshufb ksource u8x4_sse4_sh4))
  let source := srcBytes row (x + 4) 4
  let s := add32 s (madd (pshufb source u8x4_sse4_sh1) (pshufb ksource u8x4_sse4_sh5))
  add32 s (madd (pshufb source u8x4_sse4_sh3) (pshufb ksource u8x4_sse4_sh6))

/-- the 4-coefficient step (`loadl_epi64` of the coefficients) -/
def acc4 (s row : List Int) (x : Nat) (k4 : List Int) : List Int :=
  let source := srcBytes row x 4
  let ksource := low64 (kBytes k4)
  let s := add32 s (madd (pshufb source u8x4_sse4_sh1) (pshufb ksource u8x4_sse4_sh2))
  add32 s (madd (pshufb source u8x4_sse4_sh3) (pshufb ksource u8x4_sse4_sh4))

/-- the 2-coefficient step (`mm_load_and_clone_i16x2`, `loadl_epi64` of two pixels) -/
def acc2 (s row : List Int) (x : Nat) (k2 : List Int) : List Int :=
  let mmk := kBytes k2 ++ kBytes k2 ++ kBytes k2 ++ kBytes k2
  let source := low64 (srcBytes row x 2)
  add32 s (madd (pshufb source u8x4_sse4_sh7) mmk)

/-- the last coefficient (`mm_cvtepu8_epi32` of one pixel, `_mm_set1_epi32(k as i32)`) -/
def acc1 (s row : List Int) (x : Nat) (k : Int) : List Int :=
  let b := srcBytes row x 1
  let pix := [b.getD 0 0, 0, 0, 0, b.getD 1 0, 0, 0, 0, b.getD 2 0, 0, 0, 0, b.getD 3 0, 0, 0, 0]
  let kk := wrap16 k
  let lane := [kk % 256, (kk / 256) % 256, (kk / 65536) % 256, (kk / 16777216) % 256]
  add32 s (madd pix (lane ++ lane ++ lane ++ lane))

/-- remainder of fewer than 8 coefficients: at most one 4-step, one 2-step and one single step -/
def tail (s row : List Int) (x : Nat) (ks : List Int) : List Int :=
  let (s, x, ks) := if ks.length ≥ 4 then (acc4 s row x (ks.take 4), x + 4, ks.drop 4) else (s, x, ks)
  let (s, x, ks) := if ks.length ≥ 2 then (acc2 s row x (ks.take 2), x + 2, ks.drop 2) else (s, x, ks)
  match ks with
  | k :: _ => acc1 s row x k
  | [] => s

/-- `for k in coeffs_by_8 { .. x += 8 }`, then the remainder -/
def loop (row : List Int) (ks : List Int) (x : Nat) (s : List Int) : List Int :=
  if h : 8 ≤ ks.length then loop row (ks.drop 8) (x + 8) (acc8 s row x (ks.take 8))
  else tail s row x ks
termination_by ks.length
decreasing_by simp only [List.length_drop]; omega

/-- `_mm_packs_epi32` and `_mm_packus_epi16` on one lane -/
def packs16 (v : Int) : Int := max (-32768) (min 32767 v)
def packus8 (v : Int) : Int := max 0 (min 255 v)

/-- one destination pixel: `initial`, the loops, `srai`, `packs`, `packus`, low 32 bits -/
def pixel (p : Nat) (row : List Int) (start : Nat) (ks : List Int) : List Int :=
  let initial := wrap32 (2 ^ (p - 1))
  (loop row ks start [initial, initial, initial, initial]).map fun v => packus8 (packs16 (v / 2 ^ p))

/-- what the portable kernel accumulates for channel `c`: `Σ src[start + i].c * k[i]` -/
def dotC (row : List Int) (c : Nat) : List Int → Nat → Int
  | [], _ => 0
  | k :: ks, x => row.getD (4 * x + c) 0 % 256 * wrap16 k + dotC row c ks (x + 1)

/-! ### `horiz_convolution_four_rows`: four rows at a time, each row with the same instructions
    (`mm_load_and_clone_i16x2` of coefficient pairs, masks `mask_lo`, `mask_hi`, `mask` from the source) -/

def clone4 (l : List Int) : List Int := l ++ l ++ l ++ l

/-- the 4-coefficient step for one of the four rows -/
def acc4r (s row : List Int) (x : Nat) (k0 k1 k2 k3 : Int) : List Int :=
  let mmkLo := clone4 (kBytes [k0, k1])
  let mmkHi := clone4 (kBytes [k2, k3])
  let source := srcBytes row x 4
  let s := add32 s (madd (pshufb source u8x4_sse4_four_mask_lo) mmkLo)
  add32 s (madd (pshufb source u8x4_sse4_four_mask_hi) mmkHi)

/-- the 2-coefficient step -/
def acc2r (s row : List Int) (x : Nat) (k0 k1 : Int) : List Int :=
  let mmk := clone4 (kBytes [k0, k1])
  let pix := low64 (srcBytes row x 2)
  add32 s (madd (pshufb pix u8x4_sse4_four_mask) mmk)

/-- fewer than 4 coefficients left: at most one 2-step and one single step (the same as in the one-row kernel) -/
def tailR (s row : List Int) (x : Nat) : List Int → List Int
  | [] => s
  | [k0] => acc1 s row x k0
  | [k0, k1] => acc2r s row x k0 k1
  | k0 :: k1 :: k2 :: _ => acc1 (acc2r s row x k0 k1) row (x + 2) k2

/-- `for k in coeffs_by_4 { .. x += 4 }`, then the remainder -/
def loopR (row : List Int) : List Int → Nat → List Int → List Int
  | k0 :: k1 :: k2 :: k3 :: rest, x, s => loopR row rest (x + 4) (acc4r s row x k0 k1 k2 k3)
  | ks, x, s => tailR s row x ks

/-- one destination pixel of one of the four rows -/
def pixelR (p : Nat) (row : List Int) (start : Nat) (ks : List Int) : List Int :=
  let initial := wrap32 (2 ^ (p - 1))
  (loopR row ks start [initial, initial, initial, initial]).map fun v => packus8 (packs16 (v / 2 ^ p))

/-! ### `horiz_convolution_one_row` of src/convolution/u8x4/avx2.rs

    With 8 or more coefficients the kernel works in a 256-bit register: a pair `(lo, hi)` of 128-bit halves, each
    an `i32x4` accumulator started at `1 << (PRECISION - 2)`; `_mm256_shuffle_epi8` shuffles each half with its half of
    the mask, `madd` / `add` act per half (Intel's definitions); at the end the halves are added.  The 8-step gives
    pixels `x .. x+3` to the low and `x+4 .. x+7` to the high half, the 4-step pixels `x, x+1` and `x+2, x+3`.  Fewer than
    8 coefficients, and what is left after the wide steps, go through the 128-bit 2- and 1-steps. -/

def acc8A (s : List Int × List Int) (row : List Int) (x : Nat) (k8 : List Int) : List Int × List Int :=
  let ks := kBytes k8                         -- `_mm256_insertf128_si256::<1>(cast(tmp), tmp)`: both halves
  let lo := srcBytes row x 4                  -- `loadu_si256(src_row, x)`
  let hi := srcBytes row (x + 4) 4
  let s := (add32 s.1 (madd (pshufb lo u8x4_avx2_one_sh1_lo) (pshufb ks u8x4_avx2_one_sh2_lo)),
            add32 s.2 (madd (pshufb hi u8x4_avx2_one_sh1_hi) (pshufb ks u8x4_avx2_one_sh2_hi)))
  (add32 s.1 (madd (pshufb lo u8x4_avx2_one_sh3_lo) (pshufb ks u8x4_avx2_one_sh4_lo)),
   add32 s.2 (madd (pshufb hi u8x4_avx2_one_sh3_hi) (pshufb ks u8x4_avx2_one_sh4_hi)))

def acc4A (s : List Int × List Int) (row : List Int) (x : Nat) (k4 : List Int) : List Int × List Int :=
  let ks := low64 (kBytes k4)                 -- `loadl_epi64(k, 0)` in both halves
  let src := srcBytes row x 4                 -- `loadu_si128(src_row, x)` in both halves
  (add32 s.1 (madd (pshufb src u8x4_avx2_one_sh5_lo) (pshufb ks u8x4_avx2_one_sh6_lo)),
   add32 s.2 (madd (pshufb src u8x4_avx2_one_sh5_hi) (pshufb ks u8x4_avx2_one_sh6_hi)))

def acc2A (s row : List Int) (x : Nat) (k0 k1 : Int) : List Int :=
  add32 s (madd (pshufb (low64 (srcBytes row x 2)) u8x4_avx2_one_sh7) (clone4 (kBytes [k0, k1])))

/-- `for k in coeffs_by_8` -/
def loop8A (row : List Int) (ks : List Int) (x : Nat) (s : List Int × List Int) : (List Int × List Int) × Nat × List Int :=
  if h : 8 ≤ ks.length then loop8A row (ks.drop 8) (x + 8) (acc8A s row x (ks.take 8))
  else (s, x, ks)
termination_by ks.length
decreasing_by simp only [List.length_drop]; omega

/-- `for k in coeffs_by_2`, then `reminder1.first()` -/
def loop2A (row : List Int) : List Int → Nat → List Int → List Int
  | k0 :: k1 :: rest, x, s => loop2A row rest (x + 2) (acc2A s row x k0 k1)
  | [k], x, s => acc1 s row x k
  | [], _, s => s

def pixelA (p : Nat) (row : List Int) (start : Nat) (ks : List Int) : List Int :=
  let (sss, x, coeffs) :=
    if ks.length < 8 then
      let i := wrap32 (2 ^ (p - 1))
      ([i, i, i, i], start, ks)
    else
      let h := wrap32 (2 ^ (p - 2))
      let r := loop8A row ks start ([h, h, h, h], [h, h, h, h])
      let (s, x, rest) := (r.1, r.2.1, r.2.2)
      let (s, x, rest) := if rest.length ≥ 4 then (acc4A s row x (rest.take 4), x + 4, rest.drop 4) else (s, x, rest)
      (add32 s.1 s.2, x, rest)
  (loop2A row coeffs x sss).map fun v => packus8 (packs16 (v / 2 ^ p))

end Fir.SimdU8x4
