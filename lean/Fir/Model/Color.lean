/-
  Fir.Model.Color - executable mirror of src/color/mod.rs + mappers.rs:
    table[i] = ((map_func(i as f32 / (SIZE-1) as f32) * OUT_MAX as f32).round()) as OUT   (saturating cast)
  and of the image-level mapping with "gaps" (alpha components are depth-converted, not mapped).
  `Float32` is the hardware binary32; `Float32.pow` is the same libm `powf` the Rust code calls.
  The source text mirrored here is pinned by `Fir.Gen.colorSources` (see Fir.C16.color_sources_as_modelled).
-/
import Fir.Model.Basic
import Fir.Model.Alpha
import Fir.Model.Convert
import Fir.Generated.Color
namespace Fir

def f32c (bits : UInt32) : Float32 := Float32.ofBits bits

/-- `input.powf(2.2)` -/
def gammaIntoLinear (x : Float32) : Float32 := x.pow (f32c 0x400ccccd)
/-- `input.powf(1.0 / 2.2)` -/
def linearIntoGamma (x : Float32) : Float32 := x.pow (f32c 0x3ee8ba2e)

/-- `if input < 0.04045 { input / 12.92 } else { ((input + A) / (1. + A)).powf(2.4) }`, A = 0.055 -/
def srgbToLinear (x : Float32) : Float32 :=
  if x < f32c 0x3d25aee6 then x / f32c 0x414eb852
  else ((x + f32c 0x3d6147ae) / f32c 0x3f870a3d).pow (f32c 0x4019999a)

/-- `if input < 0.0031308 { 12.92 * input } else { (1. + A) * input.powf(1. / 2.4) - A }` -/
def linearToSrgb (x : Float32) : Float32 :=
  if x < f32c 0x3b4d2e1c then f32c 0x414eb852 * x
  else f32c 0x3f870a3d * x.pow (f32c 0x3ed55555) - f32c 0x3d6147ae

def transferFn (kind dir : String) : Float32 → Float32 :=
  match kind, dir with
  | "srgb", "fwd" => srgbToLinear
  | "srgb", _ => linearToSrgb
  | _, "fwd" => gammaIntoLinear
  | _, _ => linearIntoGamma

/-- one table entry, as `MappingTable::new` computes it -/
def tableEntryModel (f : Float32 → Float32) (size outBits : Nat) (i : Nat) : Nat :=
  let x := Float32.ofNat i / Float32.ofNat (size - 1)
  let y := (f x * Float32.ofNat (2 ^ outBits - 1)).round
  if outBits = 8 then y.toUInt8.toNat else y.toUInt16.toNat

def tableModel (kind dir : String) (inBits outBits : Nat) : Array Nat :=
  Array.ofFn (n := 2 ^ inBits) fun i => tableEntryModel (transferFn kind dir) (2 ^ inBits) outBits i.val

/-- the text of the sources this file mirrors -/
def colorSourcesModelled : List (String × String) := [
  ("gamma_into_linear", "input.powf(2.2)"),
  ("linear_into_gamma", "input.powf(1.0 / 2.2)"),
  ("srgb_to_linear", "if input < 0.04045 { input / 12.92 } else { const A: f32 = 0.055; ((input + A) / (1. + A)).powf(2.4) }"),
  ("linear_to_srgb", "if input < 0.0031308 { 12.92 * input } else { const A: f32 = 0.055; (1. + A) * input.powf(1. / 2.4) - A }"),
  ("create_gamma_22_mapper", "PixelComponentMapper::new(gamma_into_linear, linear_into_gamma)"),
  ("create_srgb_mapper", "PixelComponentMapper::new(srgb_to_linear, linear_to_srgb)"),
  ("table_entry", "let input_f32 = input as f32 / (SIZE - 1) as f32; *output = Out::from_f32((map_func(input_f32) * Out::max_value().into()).round());"),
  ("gap_condition", "(i + 1) % gap_step != 0"),
  ("gap_dispatch", "2 => self.map_with_gaps(s_comp, d_comp, 2), 4 => self.map_with_gaps(s_comp, d_comp, 4), _ => self.map(s_comp, d_comp),"),
  ("gap_dispatch_inplace", "2 => self.map_with_gaps_inplace(comp, 2), 4 => self.map_with_gaps_inplace(comp, 4), _ => self.map_inplace(comp),")]

/-- map one row of `n`-component pixels: component `i` goes through the table unless it is the last
    component of a 2- or 4-component pixel, which is only depth-converted -/
def mapComps (n : Nat) (table : Array Nat) (sk dk : CKind) (comps : Array Int) : Array Int :=
  Array.ofFn (n := comps.size) fun i =>
    let gap := (n = 2 ∨ n = 4) ∧ (i.val + 1) % n = 0
    if gap then convComp sk dk comps[i] else (table.getD comps[i].toNat 0 : Int)

/-- accepted (source, destination) pairs: same component count, component kinds u8 / u16 -/
def mapSupported (s d : PixT) : Bool :=
  s.n == d.n && (s.kind == .u8 || s.kind == .u16) && (d.kind == .u8 || d.kind == .u16)

end Fir
