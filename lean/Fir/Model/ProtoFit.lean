/-
  Fir.Model.ProtoFit - line-protocol handler for C15.
  fit sw= sh= dw= dh= cx=<f64 hex> cy=<f64 hex> got=<l>,<t>,<w>,<h> (f64 hex) resize=ok|skip|err:..
-/
import Fir.Model.FitCrop
import Fir.Model.CropF64
import Fir.Model.ProtoGeom
namespace Fir

def relClose (a b : Float) (tol : Float) : Bool :=
  a == b || (a - b).abs ≤ tol * (if a.abs < b.abs then b.abs else a.abs)

def handleFit (fs : List (String × String)) : String :=
  match getNat fs "sw", getNat fs "sh", getNat fs "dw", getNat fs "dh", (getField fs "cx").bind f64OfHex, (getField fs "cy").bind f64OfHex,
        getField fs "got", getField fs "resize" with
  | some sw, some sh, some dw, some dh, some cx, some cy, some got, some resize =>
    match (got.splitOn ",").mapM f64OfHex with
    | some [l, t, w, h] =>
      let (ml, mt, mw, mh) := fitCrop sw sh dw dh cx cy
      let same (a b : Float) := a.toBits == b.toBits
      let m : Option String :=
        if same l ml ∧ same t mt ∧ same w mw ∧ same h mh then none
        else some s!"model=({ml},{mt},{mw},{mh}) got=({l},{t},{w},{h})"
      let s : Option String :=
        if sw = 0 ∨ sh = 0 ∨ dw = 0 ∨ dh = 0 then
          (if l == 0 ∧ t == 0 ∧ w == Float.ofNat sw ∧ h == Float.ofNat sh then none else some "zero size must give the full image")
        else
          let fsw := Float.ofNat sw
          let fsh := Float.ofNat sh
          let ccx := f64Clamp cx 0 1
          let ccy := f64Clamp cy 0 1
          if cropCheck floatOps sw sh l t w h ≠ 0 ∨ ¬ (w > 0) ∨ ¬ (h > 0) then some s!"crop box ({l},{t},{w},{h}) is not inside {sw}x{sh}"
          else if resize != "ok" ∧ resize != "skip" then some s!"resize with fit_into_destination: {resize}"
          else if ¬ relClose (w / h) (Float.ofNat dw / Float.ofNat dh) 1e-14 then some s!"aspect {w / h} instead of {Float.ofNat dw / Float.ofNat dh}"
          else if ¬ (w == fsw ∨ h == fsh) then some "the box spans neither dimension of the source"
          else if ¬ relClose l ((fsw - w) * ccx) 1e-14 ∨ ¬ relClose t ((fsh - h) * ccy) 1e-14 then some s!"centering: left={l} top={t}"
          else none
      match m, s with
      | none, none => "OK"
      | some m, none => "MODEL-DIFF " ++ m
      | none, some s => "SPEC-FAIL " ++ s
      | some m, some s => "MODEL-DIFF " ++ m ++ " ; SPEC-FAIL " ++ s
    | _ => if got.startsWith "panic" then "SPEC-FAIL " ++ got else "BAD-REQUEST got"
  | _, _, _, _, _, _, _, _ => "BAD-REQUEST fields"

end Fir
