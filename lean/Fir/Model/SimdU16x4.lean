/-
  Fir.Model.SimdU16x4 - lane-accurate model of the SSE4.1 horizontal kernels for four-channel 16-bit images (RGBA16)
  (`horiz_convolution_one_row` / `horiz_convolution_four_rows` of src/convolution/u16x4/sse4.rs; the four-row kernel does per
  row what the one-row kernel does).  Two accumulators of two 64-bit lanes each, `[R, G]` and `[B, A]`, started at
  `1 << (precision - 1)`; two pixels per 128-bit load, their components moved into the low halves of the lanes by
  `_mm_shuffle_epi8` (masks `rg0`, `rg1`, `ba0`, `ba1`, from the source), multiplied by `_mm_mul_epi32` with
  `_mm_set1_epi64x(k as i64)` and added by `_mm_add_epi64`; a last single coefficient with a 64-bit load; every lane through the
  portable `Normalizer32::clip`.
-/
import Fir.Model.SimdVertU16
namespace Fir.SimdU16x4
open Fir.Gen Fir.SimdU8x4 Fir.SimdVertU16

/-- a load of `n ≤ 2` pixels (four 16-bit components each, little endian) at pixel `x`; the rest of the register is zero -/
def src4 (row : List Int) (x n : Nat) : List Int :=
  ((List.range (4 * n)).flatMap fun i => [row.getD (4 * x + i) 0 % 256, (row.getD (4 * x + i) 0 / 256) % 256])
    ++ List.replicate (16 - 8 * n) 0

/-- two coefficients, two pixels -/
def acc2 (s : List (List Int)) (row : List Int) (x : Nat) (k0 k1 : Int) : List (List Int) :=
  let source := src4 row x 2
  [add64 (add64 (s.getD 0 []) (mulEpi32 (pshufb source u16x4_sse4_rg0) k0)) (mulEpi32 (pshufb source u16x4_sse4_rg1) k1),
   add64 (add64 (s.getD 1 []) (mulEpi32 (pshufb source u16x4_sse4_ba0) k0)) (mulEpi32 (pshufb source u16x4_sse4_ba1) k1)]

/-- the last coefficient (`loadl_epi64`: one pixel) -/
def acc1 (s : List (List Int)) (row : List Int) (x : Nat) (k : Int) : List (List Int) :=
  let source := src4 row x 1
  [add64 (s.getD 0 []) (mulEpi32 (pshufb source u16x4_sse4_rg0) k), add64 (s.getD 1 []) (mulEpi32 (pshufb source u16x4_sse4_ba0) k)]

def loop (row : List Int) : List Int → Nat → List (List Int) → List (List Int)
  | k0 :: k1 :: ks, x, s => loop row ks (x + 2) (acc2 s row x k0 k1)
  | [k], x, s => acc1 s row x k
  | [], _, s => s

/-- one destination pixel: `[clip(rg[0]), clip(rg[1]), clip(ba[0]), clip(ba[1])]` -/
def pixel (p : Nat) (row : List Int) (start : Nat) (ks : List Int) : List Int :=
  let i := wrap64 (2 ^ (p - 1))
  ((loop row ks start [[i, i], [i, i]]).flatten).map fun v => (clip32 v p : Int)

/-- what the portable kernel accumulates for channel `c` -/
def dotC16 (row : List Int) (c : Nat) : List Int → Nat → Int
  | [], _ => 0
  | k :: ks, x => row.getD (4 * x + c) 0 % 65536 * wrap32 k + dotC16 row c ks (x + 1)

end Fir.SimdU16x4
