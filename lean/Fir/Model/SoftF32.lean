/-
  Fir.Model.SoftF32 - a small exact model of IEEE-754 binary32 rounding over the naturals.

  Lean's `Float32` is opaque to the kernel, so theorems about float conversions are stated about
  this model; the correspondence check compares it with the hardware (`Float32`) and with the Rust
  implementation on complete u8/u16 ramps and dense f32 samples.

  A non-negative binary32 value is carried as a dyadic `(m, eb)` meaning `m * 2^(eb - bias)`;
  only `Nat` operations with kernel (GMP) acceleration are used so that complete-domain
  `decide +kernel` proofs stay cheap.
-/
namespace Fir.Soft

/-- exponent bias of the dyadic representation -/
def bias : Nat := 200

/-- round-to-nearest-even of the non-negative rational `n / d` (d > 0) to an integer -/
def rneDiv (n d : Nat) : Nat :=
  let q := n / d
  let r := n % d
  if 2 * r > d then q + 1
  else if 2 * r = d then (if q % 2 = 1 then q + 1 else q)
  else q

/-- one step of the binary search for the bit length -/
@[inline] def lgStep (k : Nat) (x : Nat × Nat) : Nat × Nat :=
  if x.1 ≥ 2 ^ k then (x.1 / 2 ^ k, x.2 + k) else x

/-- `⌊log2 n⌋` for `0 < n < 2^512` by binary search (`Nat.log2` is a well-founded recursion that the
    kernel evaluates slowly; this uses accelerated comparisons and divisions only) -/
def lg2 (n : Nat) : Nat :=
  (lgStep 1 (lgStep 2 (lgStep 4 (lgStep 8 (lgStep 16 (lgStep 32 (lgStep 64 (lgStep 128 (lgStep 256 (n, 0)))))))))).2

/-- `⌊log2 (n/d)⌋ + bias` for n, d > 0 (and n/d > 2^-bias) -/
def floorLog2Ratio (n d : Nat) : Nat :=
  let ln := lg2 n
  let ld := lg2 d
  -- 2^(ln-ld-1) < n/d < 2^(ln-ld+1);  n/d ≥ 2^(ln-ld)  ⟺  n·2^ld ≥ d·2^ln
  if n * 2 ^ ld ≥ d * 2 ^ ln then ln + bias - ld else ln + bias - ld - 1

/-- binary32 rounding (round-to-nearest-even, gradual underflow; no overflow handling: callers stay
    far below 2^128) of the non-negative rational `n / d`; result `(m, eb)`, `m < 2^24` -/
def rnd24 (n d : Nat) : Nat × Nat :=
  if n = 0 ∨ d = 0 then (0, bias) else
  let E := floorLog2Ratio n d
  let sh := (if E < bias - 126 then bias - 126 else E) - 23     -- (biased) exponent of one ulp
  let m := if sh ≥ bias then rneDiv n (d * 2 ^ (sh - bias)) else rneDiv (n * 2 ^ (bias - sh)) d
  if m = 16777216 then (8388608, sh + 1) else (m, sh)

/-- IEEE bit pattern of the non-negative dyadic produced by `rnd24` -/
def toBits (x : Nat × Nat) : Nat :=
  if x.1 = 0 then 0
  else if x.1 < 8388608 then x.1                       -- subnormal (eb = bias - 149)
  else ((x.2 + 23 + 127 - bias) * 8388608) + (x.1 - 8388608)

/-- decode a non-negative, finite binary32 bit pattern into a dyadic -/
def ofBits (b : Nat) : Nat × Nat :=
  let ex := (b / 8388608) % 256
  let fr := b % 8388608
  if ex = 0 then (fr, bias - 149) else (fr + 8388608, ex + bias - 127 - 23)

/-- Rust's `f32::round` (half away from zero) followed by a saturating `as uN` cast, for a
    non-negative dyadic; `max` is the saturation bound -/
def roundSat (x : Nat × Nat) (max : Nat) : Nat :=
  let v := if x.2 ≥ bias then x.1 * 2 ^ (x.2 - bias)
           else (x.1 + 2 ^ (bias - x.2 - 1)) / 2 ^ (bias - x.2)
  min v max

/-- `(x as f32) / (max as f32)` for an unsigned component `x ≤ max < 2^24` (both casts are exact) -/
def unsignedToF32 (max x : Nat) : Nat × Nat := rnd24 x max

/-- `(f.clamp(0., 1.) * max as f32).round() as uN` for a non-negative finite `f` given as a dyadic -/
def f32ToUnsigned (max : Nat) (x : Nat × Nat) : Nat :=
  -- clamp to [0, 1]
  let one : Bool := if x.2 ≥ bias then decide (x.1 * 2 ^ (x.2 - bias) ≥ 1) else decide (x.1 ≥ 2 ^ (bias - x.2))
  let y : Nat × Nat := if one then (8388608, bias - 23) else x
  -- multiply by `max` (exact product, then one rounding)
  let p := if y.2 ≥ bias then rnd24 (y.1 * max * 2 ^ (y.2 - bias)) 1 else rnd24 (y.1 * max) (2 ^ (bias - y.2))
  roundSat p max

end Fir.Soft
