/-
  Fir.Model.ProtoConvert - line-protocol handler for component-type conversion (C17).

  convert src=<PT> dst=<PT> in=<hex> got=<hex>            whole-image conversion, components in order
  convert-rt a=<PT> b=<PT> in=<hex> got=<hex>             a -> b -> a round trip through a wider type
  convert-reject src=<PT> dst=<PT> kind=pair|dims got=<outcome>
-/
import Fir.Model.Convert
import Fir.Model.ProtoAlpha
namespace Fir

/-- numeric order key of a component (f32: sign-magnitude bit pattern -> monotone integer key) -/
def orderKey (k : CKind) (v : Int) : Int :=
  match k with
  | .f32 => if v ≥ 0x80000000 then -(v - 0x80000000) else v
  | _ => v

def isNaNBits (v : Int) : Bool :=
  let b := v.toNat
  (b / 8388608) % 256 == 255 && b % 8388608 != 0

/-- lowest / highest value of the range a kind uses *in conversions towards/from `other`* -/
def rangeLo (k other : CKind) : Int :=
  match k, other with
  | .f32, .i32 => 0xbf800000      -- -1.0
  | .i32, .f32 => -2147483648
  | _, _ => 0

def rangeHi (k _other : CKind) : Int :=
  match k with
  | .u8 => 255 | .u16 => 65535 | .i32 => 2147483647 | .f32 => 0x3f800000

def insertSorted (x : Int × Int) : List (Int × Int) → List (Int × Int)
  | [] => [x]
  | y :: ys => if x.1 ≤ y.1 then x :: y :: ys else y :: insertSorted x ys

/-- C17 specification on one conversion (all components of an image) -/
def convertSpecCheck (s d : CKind) (inp got : Array Int) : List String := Id.run do
  let mut errs : List String := []
  if inp.size ≠ got.size then return ["size"]
  -- end points and saturation
  for i in [0:inp.size] do
    let x := inp[i]!
    let g := got[i]!
    if s == .f32 ∧ isNaNBits x then continue
    if s == d then continue    -- same component type: the identity, nothing saturates
    let kx := orderKey s x
    if kx ≤ orderKey s (rangeLo s d) ∧ canonF32 g ≠ canonF32 (rangeLo d s) ∧ errs.length < 4 then
      errs := s!"endpoint min: in={x} got={g}" :: errs
    if kx ≥ orderKey s (rangeHi s d) ∧ g ≠ rangeHi d s ∧ errs.length < 4 then
      errs := s!"endpoint max: in={x} got={g}" :: errs
  -- monotone: sort by input key (merge sort over arrays via List.mergeSort is not in core: use qsort)
  let pairs : Array (Int × Int) := (Array.range inp.size).filterMap fun i =>
    if s == .f32 ∧ isNaNBits inp[i]! then none else some (orderKey s inp[i]!, orderKey d got[i]!)
  let sorted := pairs.qsort (fun a b => a.1 < b.1 || (a.1 == b.1 && a.2 < b.2))
  for i in [1:sorted.size] do
    let a := sorted[i-1]!
    let b := sorted[i]!
    if a.2 > b.2 ∧ errs.length < 4 then
      errs := s!"not monotone: key {a.1} -> {a.2} but key {b.1} -> {b.2}" :: errs
  return errs.reverse

def handleConvert (fs : List (String × String)) : String :=
  match (getField fs "src").bind PixT.ofName, (getField fs "dst").bind PixT.ofName, getField fs "in", getField fs "got" with
  | some s, some d, some inH, some gotH =>
    match parseComps s.kind inH, parseComps d.kind gotH with
    | some inp, some got =>
      let model := inp.map (convComp s.kind d.kind)
      let soft := inp.map (convCompSoft s.kind d.kind)
      let cm := canonComps d.kind model
      let cg := canonComps d.kind got
      let modelMsg : Option String :=
        match firstDiff cm cg with
        | some i => some s!"comp {i}: in={inp[i]!} model={cm[i]!} got={cg[i]!}"
        | none =>
          -- the soft-float model (the one theorems are about) must agree with the hardware model
          -- wherever it is defined (non-negative finite inputs)
          let softBad := (Array.range inp.size).find? fun i =>
            let x := inp[i]!
            let defined := s.kind != .f32 || (x < 0x7f800000)
            defined && canonF32 soft[i]! != canonF32 model[i]!
          softBad.map fun i => s!"soft-float model differs at comp {i}: in={inp[i]!} soft={soft[i]!} hard={model[i]!}"
      let specErrs := convertSpecCheck s.kind d.kind inp got
      match modelMsg, specErrs with
      | none, [] => "OK"
      | some m, [] => "MODEL-DIFF " ++ m
      | none, es => "SPEC-FAIL " ++ "; ".intercalate es
      | some m, es => "MODEL-DIFF " ++ m ++ " ; SPEC-FAIL " ++ "; ".intercalate es
    | _, _ => "BAD-REQUEST hex"
  | _, _, _, _ => "BAD-REQUEST fields"

def handleConvertRt (fs : List (String × String)) : String :=
  match (getField fs "a").bind PixT.ofName, (getField fs "b").bind PixT.ofName, getField fs "in", getField fs "got" with
  | some a, some b, some inH, some gotH =>
    match parseComps a.kind inH, parseComps a.kind gotH with
    | some inp, some got =>
      let model := inp.map fun x => convComp b.kind a.kind (convComp a.kind b.kind x)
      let m := (firstDiff model got).map fun i => s!"comp {i}: in={inp[i]!} model={model[i]!} got={got[i]!}"
      let sp := (firstDiff inp got).map fun i => s!"round trip {a.name}->{b.name}->{a.name} changes {inp[i]!} into {got[i]!}"
      match m, sp with
      | none, none => "OK"
      | some m, none => "MODEL-DIFF " ++ m
      | none, some s => "SPEC-FAIL " ++ s
      | some m, some s => "MODEL-DIFF " ++ m ++ " ; SPEC-FAIL " ++ s
    | _, _ => "BAD-REQUEST hex"
  | _, _, _, _ => "BAD-REQUEST fields"

def handleConvertReject (fs : List (String × String)) : String :=
  match getField fs "src", getField fs "dst", getField fs "kind", getField fs "got" with
  | some s, some d, some kind, some got =>
    let sup := convertSupported s d
    let model := if !sup then "UnsupportedCombinationOfImageTypes" else if kind == "dims" then "DifferentDimensions" else "ok"
    -- specification: same component count and any component kinds except I32 with more than one
    -- component (which does not exist); a size mismatch is always rejected
    let specOk :=
      match PixT.ofName s, PixT.ofName d with
      | some ps, some pd =>
        let should := ps.n == pd.n
        if !should then got != "ok" else if kind == "dims" then got != "ok" else got == "ok"
      | _, _ => false
    match model == got, specOk with
    | true, true => "OK"
    | false, true => s!"MODEL-DIFF model={model} got={got}"
    | true, false => s!"SPEC-FAIL pair {s}->{d} kind={kind}: {got}"
    | false, false => s!"MODEL-DIFF model={model} got={got} ; SPEC-FAIL pair {s}->{d} kind={kind}: {got}"
  | _, _, _, _ => "BAD-REQUEST fields"

end Fir
