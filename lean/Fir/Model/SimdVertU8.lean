/-
  Fir.Model.SimdVertU8 - lane-accurate model of the SSE4.1 vertical pass for 8-bit components
  (`vert_convolution_into_one_row` of src/convolution/vertical_u8/sse4.rs, shared by U8, U8x2, U8x3 and U8x4):
  the 8-component step (`loadl_epi64`, two accumulators) and the 4-component step (`mm_cvtsi32_si128_from_u8`, one
  accumulator).  Two source rows are interleaved with `_mm_unpacklo_epi8`, widened to 16-bit lanes by
  unpacking with zero, and multiplied by a cloned coefficient pair with `_mm_madd_epi16`; an odd last
  coefficient is handled with `_mm_set1_epi32(k as i32)`.  The call sequence is pinned to the source
  (`Fir.Gen.vert_u8_sse4_skeleton`); `Fir.C02.vert_u8_sse4_chunk8_eq_portable` / `_chunk4_` prove the result equal
  to the portable kernel for every number of rows and every content.
-/
import Fir.Model.SimdU8x4
namespace Fir.SimdVertU8
open Fir.Gen Fir.SimdU8x4

/-- `_mm_unpacklo_epi8`: bytes 0..7 of `a` and `b` interleaved -/
def unpacklo8 (a b : List Int) : List Int :=
  (List.range 8).flatMap fun i => [a.getD i 0, b.getD i 0]

/-- `_mm_unpackhi_epi8`: bytes 8..15 of `a` and `b` interleaved -/
def unpackhi8 (a b : List Int) : List Int :=
  (List.range 8).flatMap fun i => [a.getD (8 + i) 0, b.getD (8 + i) 0]

def zero16 : List Int := List.replicate 16 0

/-- `loadl_epi64(components, x)`: 8 component bytes, upper half zero -/
def load8 (row : List Int) (x : Nat) : List Int := ((List.range 8).map fun i => row.getD (x + i) 0 % 256) ++ List.replicate 8 0

/-- `mm_cvtsi32_si128_from_u8(components, x)`: 4 component bytes, the rest zero -/
def load4 (row : List Int) (x : Nat) : List Int := ((List.range 4).map fun i => row.getD (x + i) 0 % 256) ++ List.replicate 12 0

/-- the four bytes of `k as i32`, in every 32-bit lane -/
def set1k (k : Int) : List Int :=
  let kk := wrap16 k
  clone4 [kk % 256, (kk / 256) % 256, (kk / 65536) % 256, (kk / 16777216) % 256]

/-! ### 8 components at a time -/

/-- two rows, two coefficients -/
def pair8 (s : List Int × List Int) (rowA rowB : List Int) (x : Nat) (k0 k1 : Int) : List Int × List Int :=
  let mmk := clone4 (kBytes [k0, k1])
  let source := unpacklo8 (load8 rowA x) (load8 rowB x)
  (add32 s.1 (madd (unpacklo8 source zero16) mmk), add32 s.2 (madd (unpackhi8 source zero16) mmk))

/-- the odd last row -/
def last8 (s : List Int × List Int) (row : List Int) (x : Nat) (k : Int) : List Int × List Int :=
  let mmk := set1k k
  let source := unpacklo8 (load8 row x) zero16
  (add32 s.1 (madd (unpacklo8 source zero16) mmk), add32 s.2 (madd (unpackhi8 source zero16) mmk))

/-- `for (src_rows, two_coeffs) in iter_2_rows(..).zip(coeffs.chunks_exact(2))`, then the remainder -/
def loop8 (x : Nat) : List (List Int) → List Int → List Int × List Int → List Int × List Int
  | rA :: rB :: rows, k0 :: k1 :: ks, s => loop8 x rows ks (pair8 s rA rB x k0 k1)
  | r :: _, [k], s => last8 s r x k
  | _, _, s => s

/-- one 8-byte destination chunk: `srai`, `packs_epi32(sss0, sss1)`, `packus_epi16`, `storel_epi64` -/
def chunk8 (p : Nat) (rows : List (List Int)) (ks : List Int) (x : Nat) : List Int :=
  let initial := wrap32 (2 ^ (p - 1))
  let i4 := [initial, initial, initial, initial]
  let s := loop8 x rows ks (i4, i4)
  (s.1 ++ s.2).map fun v => packus8 (packs16 (v / 2 ^ p))

/-! ### 4 components -/

def pair4 (s : List Int) (rowA rowB : List Int) (x : Nat) (k0 k1 : Int) : List Int :=
  let mmk := clone4 (kBytes [k0, k1])
  let source := unpacklo8 (load4 rowA x) (load4 rowB x)
  add32 s (madd (unpacklo8 source zero16) mmk)

/-- `mm_cvtepu8_epi32_from_u8`: four bytes zero-extended to 32-bit lanes -/
def last4 (s : List Int) (row : List Int) (x : Nat) (k : Int) : List Int :=
  let b := load4 row x
  let pix := [b.getD 0 0, 0, 0, 0, b.getD 1 0, 0, 0, 0, b.getD 2 0, 0, 0, 0, b.getD 3 0, 0, 0, 0]
  add32 s (madd pix (set1k k))

def loop4 (x : Nat) : List (List Int) → List Int → List Int → List Int
  | rA :: rB :: rows, k0 :: k1 :: ks, s => loop4 x rows ks (pair4 s rA rB x k0 k1)
  | r :: _, [k], s => last4 s r x k
  | _, _, s => s

def chunk4 (p : Nat) (rows : List (List Int)) (ks : List Int) (x : Nat) : List Int :=
  let initial := wrap32 (2 ^ (p - 1))
  (loop4 x rows ks [initial, initial, initial, initial]).map fun v => packus8 (packs16 (v / 2 ^ p))

/-! ### 32 components at a time: two 16-byte loads per row, eight accumulators (four per load) -/

/-- `loadu_si128(components, x)`: 16 component bytes -/
def load16 (row : List Int) (x : Nat) : List Int := (List.range 16).map fun i => row.getD (x + i) 0 % 256

/-- the four accumulators fed by one 16-byte load of two rows -/
def pair16 (s : List (List Int)) (rowA rowB : List Int) (x : Nat) (k0 k1 : Int) : List (List Int) :=
  let mmk := clone4 (kBytes [k0, k1])
  let source1 := load16 rowA x
  let source2 := load16 rowB x
  let lo := unpacklo8 source1 source2
  let hi := unpackhi8 source1 source2
  [add32 (s.getD 0 []) (madd (unpacklo8 lo zero16) mmk), add32 (s.getD 1 []) (madd (unpackhi8 lo zero16) mmk),
   add32 (s.getD 2 []) (madd (unpacklo8 hi zero16) mmk), add32 (s.getD 3 []) (madd (unpackhi8 hi zero16) mmk)]

def last16 (s : List (List Int)) (row : List Int) (x : Nat) (k : Int) : List (List Int) :=
  let mmk := set1k k
  let source1 := load16 row x
  let lo := unpacklo8 source1 zero16
  let hi := unpackhi8 source1 zero16
  [add32 (s.getD 0 []) (madd (unpacklo8 lo zero16) mmk), add32 (s.getD 1 []) (madd (unpackhi8 lo zero16) mmk),
   add32 (s.getD 2 []) (madd (unpacklo8 hi zero16) mmk), add32 (s.getD 3 []) (madd (unpackhi8 hi zero16) mmk)]

/-- the loop over row pairs for one 16-byte column block (the Rust loop updates the block at `x` and the block at
    `x + 16` in the same iteration; they do not interact) -/
def loop16 (x : Nat) : List (List Int) → List Int → List (List Int) → List (List Int)
  | rA :: rB :: rows, k0 :: k1 :: ks, s => loop16 x rows ks (pair16 s rA rB x k0 k1)
  | r :: _, [k], s => last16 s r x k
  | _, _, s => s

/-- 16 destination bytes: `srai`, `packs_epi32(sss0, sss1)`, `packs_epi32(sss2, sss3)`, `packus_epi16` -/
def block16 (p : Nat) (rows : List (List Int)) (ks : List Int) (x : Nat) : List Int :=
  let initial := wrap32 (2 ^ (p - 1))
  let i4 := [initial, initial, initial, initial]
  ((loop16 x rows ks [i4, i4, i4, i4]).flatten).map fun v => packus8 (packs16 (v / 2 ^ p))

/-- one 32-byte destination chunk -/
def chunk32 (p : Nat) (rows : List (List Int)) (ks : List Int) (x : Nat) : List Int :=
  block16 p rows ks x ++ block16 p rows ks (x + 16)


/-- what the portable kernel accumulates for component `x`: `Σ rows[i][x] * k[i]` -/
def dotV : List (List Int) → List Int → Nat → Int
  | r :: rows, k :: ks, x => r.getD x 0 % 256 * wrap16 k + dotV rows ks x
  | _, _, _ => 0

end Fir.SimdVertU8
