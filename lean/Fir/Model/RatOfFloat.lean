/-
  Fir.Model.RatOfFloat - the exact rational value of a finite binary64 number (from its bit pattern).
-/
namespace Fir

/-- exact rational value of a finite binary64 -/
def ratOfF64 (x : Float) : Option Rat :=
  let b := x.toBits.toNat
  let sign : Int := if b ≥ 2 ^ 63 then -1 else 1
  let e : Nat := (b / 2 ^ 52) % 2048
  let m : Nat := b % 2 ^ 52
  if e = 2047 then none
  else if e = 0 then some ((sign * (m : Int) : Int) / ((2 ^ 1074 : Nat) : Rat))
  else
    let mant : Int := sign * ((m + 2 ^ 52 : Nat) : Int)
    if e ≥ 1075 then some ((mant : Rat) * ((2 ^ (e - 1075) : Nat) : Rat)) else some ((mant : Rat) / ((2 ^ (1075 - e) : Nat) : Rat))

/-- a finite binary64 as `m / 2^e` (no normalisation: cheap exact arithmetic on weights) -/
def dyadicOfF64 (x : Float) : Option (Int × Nat) :=
  let b := x.toBits.toNat
  let sign : Int := if b ≥ 2 ^ 63 then -1 else 1
  let e : Nat := (b / 2 ^ 52) % 2048
  let m : Nat := b % 2 ^ 52
  if e = 2047 then none
  else if e = 0 then some (sign * (m : Int), 1074)
  else
    let mant : Int := sign * ((m + 2 ^ 52 : Nat) : Int)
    if e ≥ 1075 then some (mant * ((2 ^ (e - 1075) : Nat) : Int), 0) else some (mant, 1075 - e)

end Fir
