/-
  Fir.Model.Basic - shared vocabulary of the executable model (import-free: core Lean only).

  Pixel components are carried as `Int`:
    u8 / u16  : the value,            i32 : the value,
    f32       : the IEEE-754 bit pattern (0 .. 2^32-1) - floats are never compared as numbers here.
-/
namespace Fir

/-- component kinds of the crate's pixel types -/
inductive CKind | u8 | u16 | i32 | f32
  deriving DecidableEq, Repr, Inhabited

/-- a pixel type: component kind and number of components -/
structure PixT where
  kind : CKind
  n    : Nat
  deriving DecidableEq, Repr, Inhabited

def PixT.ofName : String → Option PixT
  | "U8" => some ⟨.u8, 1⟩ | "U8x2" => some ⟨.u8, 2⟩ | "U8x3" => some ⟨.u8, 3⟩ | "U8x4" => some ⟨.u8, 4⟩
  | "U16" => some ⟨.u16, 1⟩ | "U16x2" => some ⟨.u16, 2⟩ | "U16x3" => some ⟨.u16, 3⟩ | "U16x4" => some ⟨.u16, 4⟩
  | "I32" => some ⟨.i32, 1⟩
  | "F32" => some ⟨.f32, 1⟩ | "F32x2" => some ⟨.f32, 2⟩ | "F32x3" => some ⟨.f32, 3⟩ | "F32x4" => some ⟨.f32, 4⟩
  | _ => none

def PixT.name (p : PixT) : String :=
  let k := match p.kind with | .u8 => "U8" | .u16 => "U16" | .i32 => "I32" | .f32 => "F32"
  if p.n = 1 then k else k ++ "x" ++ toString p.n

def CKind.bytes : CKind → Nat
  | .u8 => 1 | .u16 => 2 | .i32 => 4 | .f32 => 4

/-- size of a pixel in bytes -/
def PixT.size (p : PixT) : Nat := p.kind.bytes * p.n

/-- does the pixel type carry an alpha channel the crate knows about (last component) -/
def PixT.hasAlpha (p : PixT) : Bool :=
  (p.n = 2 || p.n = 4) && (p.kind != .i32)

def CKind.maxVal : CKind → Int
  | .u8 => 255 | .u16 => 65535 | .i32 => 2147483647 | .f32 => 0

/-! ### hex helpers (line protocol) -/

def hexDigit (c : Char) : Option Nat :=
  if '0' ≤ c ∧ c ≤ '9' then some (c.toNat - '0'.toNat)
  else if 'a' ≤ c ∧ c ≤ 'f' then some (c.toNat - 'a'.toNat + 10)
  else if 'A' ≤ c ∧ c ≤ 'F' then some (c.toNat - 'A'.toNat + 10)
  else none

def parseHexNat (s : String) : Option Nat :=
  if s.isEmpty then none else
  s.foldl (fun acc c => match acc, hexDigit c with
    | some a, some d => some (a * 16 + d)
    | _, _ => none) (some 0)

/-- split a hex string into fixed-width big-endian numbers -/
def parseHexComps (s : String) (width : Nat) : Option (Array Nat) := Id.run do
  let cs := s.toList.toArray
  if width = 0 ∨ cs.size % width ≠ 0 then return none
  let mut out : Array Nat := Array.mkEmpty (cs.size / width)
  let mut cur : Nat := 0
  let mut k : Nat := 0
  for c in cs do
    match hexDigit c with
    | none => return none
    | some d =>
      cur := cur * 16 + d
      k := k + 1
      if k = width then
        out := out.push cur
        cur := 0
        k := 0
  return some out

def hexChar (d : Nat) : Char :=
  if d < 10 then Char.ofNat ('0'.toNat + d) else Char.ofNat ('a'.toNat + d - 10)

def toHexFixed (v : Nat) (width : Nat) : String := Id.run do
  let mut cs : List Char := []
  let mut x := v
  for _ in [0:width] do
    cs := hexChar (x % 16) :: cs
    x := x / 16
  return String.ofList cs

/-- components <-> hex: i32 is transported as its 32-bit two's complement pattern -/
def compOfRaw (k : CKind) (raw : Nat) : Int :=
  match k with
  | .i32 => if raw < 2147483648 then raw else (raw : Int) - 4294967296
  | _ => raw

def rawOfComp (k : CKind) (v : Int) : Nat :=
  match k with
  | .i32 => (v % 4294967296).toNat
  | _ => v.toNat

def parseComps (k : CKind) (s : String) : Option (Array Int) :=
  (parseHexComps s (2 * k.bytes)).map (·.map (compOfRaw k))

def compsToHex (k : CKind) (a : Array Int) : String :=
  String.join (a.toList.map fun v => toHexFixed (rawOfComp k v) (2 * k.bytes))

/-- key=value fields of a request line -/
def fieldsOf (line : String) : List (String × String) :=
  (line.splitOn " ").filterMap fun tok =>
    match tok.splitOn "=" with
    | [k, v] => some (k, v)
    | _ => none

def getField (fs : List (String × String)) (k : String) : Option String :=
  (fs.find? (·.1 == k)).map (·.2)

def getNat (fs : List (String × String)) (k : String) : Option Nat :=
  (getField fs k).bind String.toNat?

end Fir
