/-
  Fir.Model.ProtoOracles - the properties' own oracles, judged on what the *implementation* returned
  (independent of the executable model): used by `resize` requests through `check=<name>[,<name>...]`.

    copy      C12  destination = integer-aligned crop region of the source, bit for bit
    nearest   C11  destination pixel (x, y) = source pixel under the centre, exact rational arithmetic
    writeset  C05  (needs fill2/got2) written positions = destination rectangle exactly (or nothing)
    uniform   C10  constant source -> constant destination of the same value (floats: one ulp)
    range     C18  every destination component between min and max of its source channel
    mono      C18  (needs gotB: result for a source that is component-wise >= this one) got <= gotB component-wise
    same2     C07/C09/C13 (needs gotB: result of a related run) gotB must equal got exactly
    alphazero C07  a destination pixel with alpha 0 has colour 0; alpha channel = plain resize of alpha (needs gotplain)
-/
import Fir.Model.ProtoResize
import Fir.Model.RatOfFloat
namespace Fir

def ratFloor (q : Rat) : Int := q.floor

/-- is `q` within 2^-40 (relative to max(1,|q|)) of an integer? then either neighbour is accepted -/
def nearInteger (q : Rat) : Bool :=
  let r := q - (q.floor : Rat)
  let tol : Rat := (if q < 0 then -q else q).ceil.toNat.max 1 / (2 ^ 40 : Nat)
  r ≤ tol || (1 - r) ≤ tol

structure CheckCtx where
  r : ResizeReq
  src : Img           -- logical source
  dstIdx : Array Nat  -- buffer pixel indices of the destination view, row-major
  dw : Nat
  dh : Nat
  status : String
  got : Array Int     -- whole destination buffer (components)
  fill : Int

def CheckCtx.dstComp (c : CheckCtx) (x y ch : Nat) : Int :=
  c.got.getD (c.dstIdx[y * c.dw + x]! * c.r.p.n + ch) 0

/-- the crop box the call works with, as exact rationals (None: not finite) -/
def cropRat (c : CheckCtx) : Option (Rat × Rat × Rat × Rat) :=
  match c.r.opts.crop with
  | .none => some (0, 0, (c.src.w : Rat), (c.src.h : Rat))
  | .box l t w h => do pure (← ratOfF64 l, ← ratOfF64 t, ← ratOfF64 w, ← ratOfF64 h)
  | .fit cx cy =>
    let (l, t, w, h) := fitCrop c.src.w c.src.h c.dw c.dh cx cy
    do pure (← ratOfF64 l, ← ratOfF64 t, ← ratOfF64 w, ← ratOfF64 h)

def checkCopy (c : CheckCtx) : Option String := Id.run do
  if c.status != "ok" then return some s!"status {c.status}"
  match cropRat c with
  | none => return some "crop not finite"
  | some (l, t, _, _) =>
    let l := l.floor.toNat
    let t := t.floor.toNat
    for y in [0:c.dh] do
      for x in [0:c.dw] do
        for ch in [0:c.r.p.n] do
          if c.dstComp x y ch ≠ c.src.get (l + x) (t + y) ch then
            return some s!"pixel ({x},{y}) is not a copy of source pixel ({l + x},{t + y})"
    return none

def checkNearest (c : CheckCtx) : Option String := Id.run do
  if c.status != "ok" then return some s!"status {c.status}"
  match cropRat c with
  | none => return some "crop not finite"
  | some (l, t, w, h) =>
    for y in [0:c.dh] do
      let qy := t + ((y : Rat) + 1 / 2) * h / (c.dh : Rat)
      for x in [0:c.dw] do
        let qx := l + ((x : Rat) + 1 / 2) * w / (c.dw : Rat)
        let candX : List Int := if nearInteger qx then [qx.floor, qx.floor + 1, qx.floor - 1] else [qx.floor]
        let candY : List Int := if nearInteger qy then [qy.floor, qy.floor + 1, qy.floor - 1] else [qy.floor]
        let ok := candX.any fun sx => candY.any fun sy =>
          0 ≤ sx && sx < c.src.w && 0 ≤ sy && sy < c.src.h &&
          (List.range c.r.p.n).all fun ch => c.dstComp x y ch == c.src.get sx.toNat sy.toNat ch
        if ¬ ok then
          return some s!"pixel ({x},{y}) is not source pixel ({qx.floor},{qy.floor})"
    return none

def checkUniform (c : CheckCtx) : Option String := Id.run do
  if c.status != "ok" then return some s!"status {c.status}"
  if c.src.w = 0 ∨ c.src.h = 0 then return none
  for y in [0:c.dh] do
    for x in [0:c.dw] do
      for ch in [0:c.r.p.n] do
        let v := c.src.get 0 0 ch
        let g := c.dstComp x y ch
        if g == v then continue
        if c.r.p.kind == .f32 then
          let fv := f64OfF32Bits v
          let fg := f64OfF32Bits g
          if (fv - fg).abs ≤ ulp32 v then continue
        return some s!"uniform source value {v} became {g} at ({x},{y}) channel {ch}"
  return none

def compKey (k : CKind) (v : Int) : Int :=
  match k with
  | .f32 => if v ≥ 0x80000000 then -(v - 0x80000000) else v
  | _ => v

def checkRange (c : CheckCtx) : Option String := Id.run do
  if c.status != "ok" then return some s!"status {c.status}"
  let k := c.r.p.kind
  for ch in [0:c.r.p.n] do
    let mut lo : Int := compKey k (c.src.get 0 0 ch)
    let mut hi : Int := lo
    for y in [0:c.src.h] do
      for x in [0:c.src.w] do
        let v := compKey k (c.src.get x y ch)
        if v < lo then lo := v
        if v > hi then hi := v
    for y in [0:c.dh] do
      for x in [0:c.dw] do
        let g := compKey k (c.dstComp x y ch)
        -- floats: one ulp of slack
        let slack : Int := if k == .f32 then 1 else 0
        if g < lo - slack ∨ g > hi + slack then
          return some s!"channel {ch} at ({x},{y}): {c.dstComp x y ch} outside the source range"
  return none

/-- positions (pixel indices of the destination buffer) whose components differ from the sentinel -/
def touched (n : Nat) (buf : Array Int) (fill : Int) : Array Bool :=
  Array.ofFn (n := buf.size / n) fun p => (List.range n).any fun ch => buf[p.val * n + ch]! != fill

def checkWriteSet (c : CheckCtx) (got2 : Array Int) (fill2 : Int) (status2 : String) : Option String := Id.run do
  if status2 != c.status then return some "the two runs ended differently"
  let t1 := touched c.r.p.n c.got c.fill
  let t2 := touched c.r.p.n got2 fill2
  let shouldWrite : Bool := c.status == "ok" && c.dw != 0 && c.dh != 0 &&
    (match c.r.opts.crop with | .box _ _ w h => w != 0.0 && h != 0.0 | _ => c.src.w != 0 && c.src.h != 0)
  let inDst : Array Bool := Id.run do
    let mut a := Array.replicate t1.size false
    for i in c.dstIdx do a := a.set! i true
    return a
  for p in [0:t1.size] do
    let w := t1[p]! || t2.getD p false
    if w ∧ ¬ (inDst[p]! ∧ shouldWrite) then return some s!"buffer pixel {p} outside the destination rectangle was written"
    -- a pixel of the rectangle must have been assigned: it cannot keep both sentinels
    if shouldWrite ∧ inDst[p]! ∧ ¬ t1[p]! ∧ ¬ t2.getD p false then return some s!"destination pixel at buffer index {p} was never written"
  -- the written values must not depend on the sentinel
  if shouldWrite then
    for i in c.dstIdx do
      for ch in [0:c.r.p.n] do
        if c.got[i * c.r.p.n + ch]! ≠ got2.getD (i * c.r.p.n + ch) 0 ∧ canonF32 (c.got[i * c.r.p.n + ch]!) ≠ canonF32 (got2.getD (i * c.r.p.n + ch) 0) then
          return some s!"destination pixel at buffer index {i} depends on the previous content"
  return none

def checkSame2 (c : CheckCtx) (got2 : Array Int) : Option String :=
  (firstDiff (canonComps c.r.p.kind c.got) (canonComps c.r.p.kind got2)).map fun i => s!"the two results differ at component {i}: {c.got[i]!} vs {got2.getD i 0}"

def checkMono (c : CheckCtx) (got2 : Array Int) : Option String := Id.run do
  let k := c.r.p.kind
  for i in c.dstIdx do
    for ch in [0:c.r.p.n] do
      let a := compKey k (c.got[i * c.r.p.n + ch]!)
      let b := compKey k (got2.getD (i * c.r.p.n + ch) 0)
      let slack : Int := if k == .f32 then 1 else 0
      if a > b + slack then return some s!"order not preserved at buffer pixel {i} channel {ch}: {c.got[i * c.r.p.n + ch]!} > {got2.getD (i * c.r.p.n + ch) 0}"
  return none

/-- C07: a destination pixel whose alpha is zero has zero colour -/
def checkAlphaZero (c : CheckCtx) : Option String := Id.run do
  if c.status != "ok" then return some s!"status {c.status}"
  let n := c.r.p.n
  for i in c.dstIdx do
    let a := c.got[i * n + n - 1]!
    let isZero := if c.r.p.kind == .f32 then f32OfBits a == 0 else a == 0
    if isZero then
      for ch in [0:n - 1] do
        let v := c.got[i * n + ch]!
        let vz := if c.r.p.kind == .f32 then f32OfBits v == 0 else v == 0
        if ¬ vz then return some s!"transparent destination pixel (buffer index {i}) has colour {v}"
  return none

/-- does the call reach a convolution (C07's scope): not the zero-size early-out, not a crop error, not
    the copy fast path of resize_typed (C12 demands a bit-exact copy there, which necessarily keeps
    colours stored under alpha = 0), not the copy of a same-size super-sampling intermediate -/
def reachesConvolution (r : ResizeReq) : Bool :=
  let src := extractImg r.sview r.p.n r.sbuf
  let dw := r.dview.width
  let dh := r.dview.height
  let prev := Img.fill dw dh r.p.n 0
  let (cl, ct, cw, ch) : Float × Float × Float × Float :=
    match r.opts.crop with
    | .none => (0.0, 0.0, Float.ofNat src.w, Float.ofNat src.h)
    | .box l t w h => (l, t, w, h)
    | .fit cx cy => fitCrop src.w src.h dw dh cx cy
  if cw == 0.0 || ch == 0.0 || dw == 0 || dh == 0 then false
  else if cropCheck floatOps src.w src.h cl ct cw ch ≠ 0 then false
  else if (copyImage src cl ct cw ch prev).isSome then false
  else match r.opts.alg with
    | .nearest => false
    | .ss _ m =>
      let factor := ssFactor cw ch dw dh m
      if factor > 1.2 then
        !(ssTmpDim cw factor == dw && ssTmpDim ch factor == dh)
      else true
    | _ => true

/-! ### C01: the ideal separable filter, evaluated in f64 without fixed point, pass order shortcuts or scratch images -/

/-- real-valued component of a source pixel -/
def realComp (k : CKind) (v : Int) : Float :=
  match k with
  | .f32 => f64OfF32Bits v
  | _ => Float.ofInt v

def clampReal (k : CKind) (x : Float) : Float :=
  match k with
  | .u8 => if x < 0.0 then 0.0 else if x > 255.0 then 255.0 else x
  | .u16 => if x < 0.0 then 0.0 else if x > 65535.0 then 65535.0 else x
  | .i32 => if x < -2147483648.0 then -2147483648.0 else if x > 2147483647.0 then 2147483647.0 else x
  | .f32 => x

/-- largest sum of |w| over the windows -/
def maxAbsSum (fc : Array (Nat × Array Float)) : Float :=
  fc.foldl (fun (m : Float) (ch : Nat × Array Float) =>
    let s : Float := ch.2.foldl (fun (a : Float) (w : Float) => a + w.abs) 0.0
    if s > m then s else m) 0.0

/-- one ideal pass over a real-valued image stored row-major with `n` components; returns (image, max sum |w|) -/
def idealPass (k : CKind) (horiz : Bool) (src : Array Float) (sw : Nat) (n : Nat) (c : Coeffs) (dw dh offset : Nat) : Array Float × Float := Id.run do
  let fc := floatChunks c
  let mut out : Array Float := Array.mkEmpty (dw * dh * n)
  for y in [0:dh] do
    for x in [0:dw] do
      let (start, ks) := fc.getD (if horiz then x else y) (0, #[])
      for ch in [0:n] do
        let mut acc : Float := 0.0
        for j in [0:ks.size] do
          let v : Float := if horiz then src.getD (((offset + y) * sw + (start + j)) * n + ch) 0.0
                           else src.getD (((start + j) * sw + (offset + x)) * n + ch) 0.0
          acc := acc + ks[j]! * v
        out := out.push (clampReal k acc)
  return (out, maxAbsSum fc)

/-- C01 oracle: every destination sample within the rounding error of the ideal two-pass separable
    resampling (only Convolution / Interpolation without alpha processing; other cases return none) -/
def checkIdeal (c : CheckCtx) : Option String := Id.run do
  if c.status != "ok" then return some s!"status {c.status}"
  let r := c.r
  let k := r.p.kind
  let n := r.p.n
  let (f, adaptive) ← match r.opts.alg with
    | .conv f => pure (f, true)
    | .interp f => pure (f, false)
    | _ => return none
  if alphaPathOf r then return none
  let (cl, ct, cw, ch) ← match r.opts.crop with
    | .none => pure ((0.0 : Float), (0.0 : Float), Float.ofNat c.src.w, Float.ofNat c.src.h)
    | .box l t w h => pure (l, t, w, h)
    | .fit cx cy => pure (fitCrop c.src.w c.src.h c.dw c.dh cx cy)
  if c.dw = 0 ∨ c.dh = 0 ∨ !(cw > 0.0) ∨ !(ch > 0.0) then return none
  -- a dimension is resampled unless the crop is integer-aligned and already has the destination size (C12)
  let needH := !(Float.ofNat c.dw == cw && cl == cl.floor)
  let needV := !(Float.ofNat c.dh == ch && ct == ct.floor)
  if !needH && !needV then return none
  let src0 : Array Float := c.src.data.map (realComp k)
  let hc := precomputeCoefficients c.src.w cl (cl + cw) c.dw f adaptive
  let vc := precomputeCoefficients c.src.h ct (ct + ch) c.dh f adaptive
  -- both passes on the full source extent (no temporary-image geometry, no fixed point); clamping between the
  -- passes depends on their order, which is the documented one: vertical first for 8-bit components, else horizontal first
  let cropCols : Array Float → Nat → Nat → Array Float := fun img w h =>
    Array.ofFn (n := c.dw * h * n) fun i =>
      let chn := i.val % n
      let p := i.val / n
      img.getD (((p / c.dw) * w + (cl.toUInt32.toNat + p % c.dw)) * n + chn) 0.0
  let cropRows : Array Float → Nat → Array Float := fun img w =>
    Array.ofFn (n := w * c.dh * n) fun i =>
      let chn := i.val % n
      let p := i.val / n
      img.getD (((ct.toUInt32.toNat + p / w) * w + p % w) * n + chn) 0.0
  let (img2, s1, s2) : Array Float × Float × Float :=
    if k == .u8 then
      -- vertical (all source columns), then horizontal
      let (a, sv) := if needV then idealPass k false src0 c.src.w n vc c.src.w c.dh 0 else (cropRows src0 c.src.w, 0.0)
      let (b, sh) := if needH then idealPass k true a c.src.w n hc c.dw c.dh 0 else (cropCols a c.src.w c.dh, 0.0)
      (b, sv, sh)
    else
      let (a, sh) := if needH then idealPass k true src0 c.src.w n hc c.dw c.src.h 0 else (cropCols src0 c.src.w c.src.h, 0.0)
      let (b, sv) := if needV then idealPass k false a c.dw n vc c.dw c.dh 0 else (cropRows a c.dw, 0.0)
      (b, sh, sv)
  let mabs := src0.foldl (fun m v => if v.abs > m then v.abs else m) 0.0
  let sBoth := (if s1 > 1.0 then s1 else 1.0) * (if s2 > 1.0 then s2 else 1.0)
  let tol : Float := match k with
    | .f32 => 1e-5 * mabs * sBoth + 1e-30
    | _ => 0.6 + 0.55 * (if s1 > s2 then s1 else s2) + 1e-9 * mabs
  for y in [0:c.dh] do
    for x in [0:c.dw] do
      for chn in [0:n] do
        let want := img2.getD ((y * c.dw + x) * n + chn) 0.0
        let g := realComp k (c.dstComp x y chn)
        if !((g - want).abs ≤ tol) then
          return some s!"sample ({x},{y}) channel {chn} is {g}, the ideal separable filter gives {want} (tolerance {tol})"
  return none

def mkCtx (r : ResizeReq) (status : String) (got : Array Int) (fillByte : Nat) : CheckCtx :=
  { r := r, src := extractImg r.sview r.p.n r.sbuf, dstIdx := ((r.dview.rows 0).flatten).toArray,
    dw := r.dview.width, dh := r.dview.height, status := status, got := got, fill := fillComp r.p.kind fillByte }

/-- `resize` request with oracles -/
def handleResizeChecked (fs : List (String × String)) : String :=
  let outside := getField fs "guard" == some "out"
  let gotS := (getField fs "got").getD ""
  -- C03: outside the documented head-room (sum |w| >= 4) integer overflow may panic in the checked build and
  -- the wrapped arithmetic is not modelled: a panic is accepted there, only a crash is not
  if outside then (if gotS.startsWith "ok:" || gotS.startsWith "err:" || gotS.startsWith "panic:" then "OK" else "SPEC-FAIL outcome " ++ gotS.take 60) else
  let base := handleResize fs
  match getField fs "check" with
  | none => base
  | some checks =>
    match parseResizeReq fs, (getField fs "fill").bind parseHexNat, getField fs "got" with
    | some r, some fb, some got =>
      let (gst, ghex) := splitStatus got
      match parseComps r.p.kind ghex with
      | none => base
      | some gbuf =>
        let c := mkCtx r gst gbuf fb
        let got2 : Option (String × Array Int) := (getField fs "got2").bind fun g2 =>
          (parseComps r.p.kind (splitStatus g2).2).map fun b => ((splitStatus g2).1, b)
        let fill2 := ((getField fs "fill2").bind parseHexNat).getD 0
        -- result of a related run (other source content / options / container / resizer history)
        let gotB : Option (String × Array Int) := (getField fs "gotB").bind fun g2 =>
          (parseComps r.p.kind (splitStatus g2).2).map fun b => ((splitStatus g2).1, b)
        let inScope := reachesConvolution r
        let errs : List String := (checks.splitOn ",").filterMap fun name =>
          -- checks prefixed with `conv:` apply only to calls that reach a convolution
          let (name, skip) := if name.startsWith "conv:" then ((name.drop 5).toString, !inScope) else (name, false)
          if skip then none else
          match name with
          | "copy" => checkCopy c
          | "ideal" => checkIdeal c
          | "nopanic" => none   -- judged before the model comparison, see handleResizeChecked
          | "simd" => (match gotB with
            | some (stB, b2) => if stB != gst then some s!"portable back-end ended with {stB}, {r.ext} with {gst}" else
                (compareBuf r (alphaPathOf r) b2 c.got).map fun e => s!"{r.ext} differs from the portable back-end: {e}"
            | none => some "simd needs gotB")
          | "rel" => (match getField fs "rel" with | some "ok" => none | some m => some s!"relational oracle of the harness: {m}" | none => some "rel needs the rel field")
          | "nearest" => checkNearest c
          | "uniform" => checkUniform c
          | "range" => checkRange c
          | "alphazero" => checkAlphaZero c
          | "writeset" => match got2 with
            | some (st2, b2) => checkWriteSet c b2 (fillComp r.p.kind fill2) st2
            | none => some "writeset needs got2"
          | "same2" => match gotB with
            | some (stB, b2) => if stB != gst then some s!"related run ended with {stB}, this one with {gst}" else checkSame2 c b2
            | none => some "same2 needs gotB"
          | "mono" => match gotB with
            | some (_, b2) => checkMono c b2
            | none => some "mono needs gotB"
          | _ => some s!"unknown check {name}"
        if errs.isEmpty then base
        else
          let s := "SPEC-FAIL " ++ "; ".intercalate errs
          if base.startsWith "OK" then s else base ++ " ; " ++ s
    | _, _, _ => base

end Fir
