/-
  Fir.Model.Filters - executable mirror (Lean `Float` = hardware binary64, libm sin/cos/exp as in
  Rust) of src/convolution/filters.rs and of `precompute_coefficients` (src/convolution/mod.rs) and
  of the fixed-point normalisers (src/convolution/optimisations.rs).
-/
import Fir.Model.Basic
import Fir.Generated.Clip
namespace Fir

def piF : Float := Float.ofBits 0x400921FB54442D18

def boxFilter (x : Float) : Float := if x > -0.5 && x ≤ 0.5 then 1.0 else 0.0

def bilinearFilter (x : Float) : Float :=
  let x := x.abs
  if x < 1.0 then 1.0 - x else 0.0

def hammingFilter (x : Float) : Float :=
  let x := x.abs
  if x == 0.0 then 1.0
  else if x ≥ 1.0 then 0.0
  else
    let x := x * piF
    (0.54 + 0.46 * x.cos) * x.sin / x

def catmulFilter (x : Float) : Float :=
  let a : Float := -0.5
  let x := x.abs
  if x < 1.0 then ((a + 2.0) * x - (a + 3.0)) * x * x + 1.0
  else if x < 2.0 then (((x - 5.0) * x + 8.0) * x - 4.0) * a
  else 0.0

def mitchellFilter (x : Float) : Float :=
  let x := x.abs
  if x < 1.0 then (7.0 * x / 6.0 - 2.0) * x * x + 16.0 / 18.0
  else if x < 2.0 then ((2.0 - 7.0 * x / 18.0) * x - 10.0 / 3.0) * x + 16.0 / 9.0
  else 0.0

def gaussian (x r : Float) : Float :=
  (1.0 / ((2.0 * piF).sqrt * r)) * (-(x * x) / (2.0 * (r * r))).exp

def gaussianFilter (x : Float) : Float :=
  if x ≥ -3.0 && x < 3.0 then gaussian x 0.5 else 0.0

def sincFilter (x : Float) : Float :=
  if x == 0.0 then 1.0 else
    let x := x * piF
    x.sin / x

def lanczosFilter (x : Float) : Float :=
  if x ≥ -3.0 && x < 3.0 then sincFilter x * sincFilter (x / 3.0) else 0.0

structure FilterSpec where
  f : Float → Float
  support : Float

/-- custom kernels of the harness (FilterType::Custom), same formulas on both sides:
    `custom~lobes~<a>~<b>`  : a for |x| < 0.5, -b for 0.5 ≤ |x| < 1.5, 0 beyond; support 1.5   (f64 hex parameters)
    `custom~wide~<s>`       : 1 for |x| < s, 0 beyond; support s
    `custom~scaled~<k>`     : k * bilinear; support 1 -/
def customFilter (name : String) : Option FilterSpec :=
  let hexF (s : String) : Option Float := (parseHexNat s).map fun n => Float.ofBits (UInt64.ofNat n)
  match name.splitOn "~" with
  | ["custom", "lobes", a, b] => match hexF a, hexF b with
    | some a, some b => some ⟨fun x => let x := x.abs; if x < 0.5 then a else if x < 1.5 then -b else 0.0, 1.5⟩
    | _, _ => none
  | ["custom", "wide", s] => (hexF s).map fun s => ⟨fun x => if x.abs < s then 1.0 else 0.0, s⟩
  | ["custom", "scaled", k] => (hexF k).map fun k => ⟨fun x => k * bilinearFilter x, 1.0⟩
  | _ => none

def filterOfName : String → Option FilterSpec
  | "box" => some ⟨boxFilter, 0.5⟩
  | "bilinear" => some ⟨bilinearFilter, 1.0⟩
  | "hamming" => some ⟨hammingFilter, 1.0⟩
  | "catmullrom" => some ⟨catmulFilter, 2.0⟩
  | "mitchell" => some ⟨mitchellFilter, 2.0⟩
  | "gaussian" => some ⟨gaussianFilter, 3.0⟩
  | "lanczos3" => some ⟨lanczosFilter, 3.0⟩
  | other => customFilter other

/-- crate-private `Coefficients` -/
structure Coeffs where
  values : Array Float
  windowSize : Nat
  /-- (start, size) -/
  bounds : Array (Nat × Nat)
  deriving Inhabited

def Coeffs.empty : Coeffs := ⟨#[], 0, #[]⟩

/-- mirror of `precompute_coefficients` -/
def precomputeCoefficients (inSize : Nat) (in0 in1 : Float) (outSize : Nat) (flt : FilterSpec) (adaptive : Bool) : Coeffs := Id.run do
  if inSize = 0 ∨ outSize = 0 then return Coeffs.empty
  let scale := (in1 - in0) / Float.ofNat outSize
  if scale < 0.0 || scale.isNaN then return Coeffs.empty
  let filterScale := if adaptive then (if scale < 1.0 then 1.0 else scale) else 1.0   -- scale.max(1.0)
  let filterRadius := flt.support * filterScale
  -- `(filter_radius.ceil() as usize).saturating_mul(2).saturating_add(1).min(in_size as usize)`
  let windowSize := min (min (filterRadius.ceil.toUSize.toNat * 2 + 1) 18446744073709551615) inSize
  let recipFilterScale := 1.0 / filterScale
  let mut coeffs : Array Float := Array.mkEmpty (windowSize * outSize)
  let mut bounds : Array (Nat × Nat) := Array.mkEmpty outSize
  for outX in [0:outSize] do
    let inCenter := in0 + (Float.ofNat outX + 0.5) * scale
    let lo := (inCenter - filterRadius).floor
    let xMin := (if lo < 0.0 then 0.0 else lo).toUInt32.toNat         -- .max(0.) as u32  (NaN.max(0.) = 0.)
    let hi := (inCenter + filterRadius).ceil
    let hi2 := if hi.isNaN then Float.ofNat inSize else if Float.ofNat inSize < hi then Float.ofNat inSize else hi   -- .min(in_size as f64)
    let xMax := hi2.toUInt32.toNat
    let curIndex := coeffs.size
    let mut ww : Float := 0.0
    let center := inCenter - 0.5
    let mut boundStart := xMin
    let mut boundEnd := xMax
    for x in [xMin:xMax] do
      let w := flt.f ((Float.ofNat x - center) * recipFilterScale)
      if x == boundStart && w == 0.0 then
        boundStart := boundStart + 1
      else
        coeffs := coeffs.push w
        ww := ww + w
    -- trailing zeros (the reverse scan cannot leave the entries pushed for this window)
    let mut i := coeffs.size
    while i > 0 do
      if boundEnd ≤ boundStart || coeffs[i - 1]! != 0.0 then break
      boundEnd := boundEnd - 1
      i := i - 1
    if ww != 0.0 then
      for j in [curIndex:coeffs.size] do
        coeffs := coeffs.set! j (coeffs[j]! / ww)
    -- coeffs.resize(cur_index + window_size, 0.)
    let target := curIndex + windowSize
    if coeffs.size > target then
      coeffs := coeffs.extract 0 target
    else
      for _ in [coeffs.size:target] do
        coeffs := coeffs.push 0.0
    bounds := bounds.push (boundStart, boundEnd - boundStart)
  return ⟨coeffs, windowSize, bounds⟩

/-- quantised coefficients: precision and per-destination-sample (start, integer weights) -/
structure QCoeffs where
  precision : Nat
  chunks : Array (Nat × Array Int)
  deriving Inhabited

def maxWeight (c : Coeffs) : Float :=
  -- `max_by(partial_cmp)` returns the last maximal element; the value is what matters
  c.values.foldl (fun m v => if v ≥ m then v else m) (if c.values.size = 0 then 0.0 else c.values[0]!)

/-- `Normalizer16::new` -/
def normalize16 (c : Coeffs) : QCoeffs := Id.run do
  let mw := maxWeight c
  let mut precision : Nat := 0
  for cur in [0:Gen.PRECISION_BITS] do
    precision := cur
    let next := (mw * Float.ofNat (2 ^ (precision + 1))).round.toInt32.toInt
    if next ≥ 2 ^ Gen.MAX_COEFFS_PRECISION then break
  let scale := Float.ofNat (2 ^ precision)
  let mut chunks : Array (Nat × Array Int) := Array.mkEmpty c.bounds.size
  if c.windowSize > 0 then
    for i in [0:c.bounds.size] do
      if (i + 1) * c.windowSize ≤ c.values.size then
        let (start, size) := c.bounds[i]!
        let n := min size c.windowSize
        let vals : Array Int := Array.ofFn (n := n) fun j => ((c.values[i * c.windowSize + j.val]! * scale).round.toInt16.toInt)
        chunks := chunks.push (start, vals)
  return ⟨precision, chunks⟩

/-- `Normalizer32::new` -/
def normalize32 (c : Coeffs) : QCoeffs := Id.run do
  let mw := maxWeight c
  let mut precision : Nat := 0
  for cur in [0:Gen.PRECISION16_BITS] do
    precision := cur
    let next := (mw * Float.ofNat (2 ^ (precision + 1))).round.toInt64.toInt
    if next ≥ 2 ^ Gen.MAX_COEFFS_PRECISION16 then break
  let scale := Float.ofNat (2 ^ precision)
  let mut chunks : Array (Nat × Array Int) := Array.mkEmpty c.bounds.size
  if c.windowSize > 0 then
    for i in [0:c.bounds.size] do
      if (i + 1) * c.windowSize ≤ c.values.size then
        let (start, size) := c.bounds[i]!
        let n := min size c.windowSize
        let vals : Array Int := Array.ofFn (n := n) fun j => ((c.values[i * c.windowSize + j.val]! * scale).round.toInt32.toInt)
        chunks := chunks.push (start, vals)
  return ⟨precision, chunks⟩

/-- f64 chunks (`Coefficients::get_chunks`) -/
def floatChunks (c : Coeffs) : Array (Nat × Array Float) :=
  Array.ofFn (n := c.bounds.size) fun i =>
    let (start, size) := c.bounds[i]!
    (start, Array.ofFn (n := min size c.windowSize) fun j => c.values[i.val * c.windowSize + j.val]!)

end Fir
