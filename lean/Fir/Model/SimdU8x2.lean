/-
  Fir.Model.SimdU8x2 - lane-accurate model of the SSE4.1 horizontal kernels for two-channel 8-bit images
  (`horiz_convolution_four_rows`, `set_dst_pixel` and `horiz_convolution_one_row` of src/convolution/u8x2/sse4.rs).

  Both kernels keep TWO 32-bit partial sums per channel (each started at `1 << (precision - 2)`) and join them at the end
  with `i32::saturating_add` - the one place where these kernels could differ from the portable one, which keeps a single
  wrapping `i32` per channel.  The shuffle masks come from the source on every run (`Fir.Gen.u8x2_sse4_*`), the call
  sequences are pinned in Fir.C02; `Fir.C02.u8x2_sse4_*_eq_portable` prove equality with the portable kernel for every
  coefficient list whose sum of magnitudes leaves the `i32` headroom that `Fir.C03.headroom_u8` establishes.
-/
import Fir.Model.SimdU8x4
import Fir.Generated.Clip
namespace Fir.SimdU8x2
open Fir.Gen Fir.SimdU8x4

/-- a load of `n ≤ 8` pixels (2 bytes each) at pixel `x`; the rest of the register is zero -/
def src2 (row : List Int) (x n : Nat) : List Int :=
  ((List.range (2 * n)).map fun i => row.getD (2 * x + i) 0 % 256) ++ List.replicate (16 - 2 * n) 0

/-- `ptr_i16_to_set1_epi64x`: four coefficients in both 64-bit halves -/
def set1x64 (k4 : List Int) : List Int := kBytes k4 ++ kBytes k4

/-- `_mm_set1_epi32(k as i32)` -/
def set1x32 (k : Int) : List Int :=
  let kk := wrap16 k
  clone4 [kk % 256, (kk / 256) % 256, (kk / 65536) % 256, (kk / 16777216) % 256]

/-- `i32::saturating_add` -/
def satAdd (a b : Int) : Int := max (-2147483648) (min 2147483647 (a + b))

/-- `Normalizer16::clip` (translated index expression and table) -/
def clip (v : Int) (p : Nat) : Int := (clip8_table (clip16_index v p) : Int)

/-! ### `horiz_convolution_four_rows`, one of the four rows; lanes `[L, L, A, A]` -/

def acc8r (s row : List Int) (x : Nat) (k8 : List Int) : List Int :=
  let source := src2 row x 8
  let tmp := add32 s (madd (pshufb source u8x2_sse4_four_sh1) (set1x64 (k8.take 4)))
  add32 tmp (madd (pshufb source u8x2_sse4_four_sh2) (set1x64 (k8.drop 4)))

def acc4r (s row : List Int) (x : Nat) (k4 : List Int) : List Int :=
  add32 s (madd (pshufb (src2 row x 4) u8x2_sse4_four_sh1) (set1x64 k4))

def acc2r (s row : List Int) (x : Nat) (k2 : List Int) : List Int :=
  add32 s (madd (pshufb (src2 row x 2) u8x2_sse4_four_sh1) (clone4 (kBytes k2)))

def acc1r (s row : List Int) (x : Nat) (k : Int) : List Int :=
  add32 s (madd (pshufb (src2 row x 1) u8x2_sse4_four_sh1) (set1x32 k))

/-- fewer than 8 coefficients: at most one 4-step, one 2-step and one single step -/
def tailR (s row : List Int) (x : Nat) (ks : List Int) : List Int :=
  let (s, x, ks) := if ks.length ≥ 4 then (acc4r s row x (ks.take 4), x + 4, ks.drop 4) else (s, x, ks)
  let (s, x, ks) := if ks.length ≥ 2 then (acc2r s row x (ks.take 2), x + 2, ks.drop 2) else (s, x, ks)
  match ks with
  | k :: _ => acc1r s row x k
  | [] => s

def loopR (row : List Int) (ks : List Int) (x : Nat) (s : List Int) : List Int :=
  if h : 8 ≤ ks.length then loopR row (ks.drop 8) (x + 8) (acc8r s row x (ks.take 8))
  else tailR s row x ks
termination_by ks.length
decreasing_by simp only [List.length_drop]; omega

/-- `set_dst_pixel`: lanes 0, 1 are the two halves of L, lanes 2, 3 those of A -/
def pixelR (p : Nat) (row : List Int) (start : Nat) (ks : List Int) : List Int :=
  let initial := wrap32 (2 ^ (p - 2))
  let s := loopR row ks start [initial, initial, initial, initial]
  [clip (satAdd (s.getD 1 0) (s.getD 0 0)) p, clip (satAdd (s.getD 3 0) (s.getD 2 0)) p]

/-! ### `horiz_convolution_one_row`; lanes `[L, A, L, A]` -/

def acc8 (s row : List Int) (x : Nat) (k8 : List Int) : List Int :=
  let ksource := kBytes k8
  let source := src2 row x 8
  let s := add32 s (madd (pshufb source u8x2_sse4_one_pix_sh1) (pshufb ksource u8x2_sse4_one_coeff_sh1))
  add32 s (madd (pshufb source u8x2_sse4_one_pix_sh2) (pshufb ksource u8x2_sse4_one_coeff_sh2))

/-- `_mm_set_epi16(k[3], k[2], k[3], k[2], k[1], k[0], k[1], k[0])` and `loadl_epi64` of four pixels -/
def acc4 (s row : List Int) (x : Nat) (k0 k1 k2 k3 : Int) : List Int :=
  add32 s (madd (pshufb (src2 row x 4) u8x2_sse4_one_pix_sh3) (kBytes [k0, k1, k0, k1, k2, k3, k2, k3]))

/-- the last 1..3 coefficients: pixels and coefficients gathered in scalar code into zero-initialised arrays,
    `_mm_set_epi16(0, pixels[5], 0, pixels[4], pixels[3], pixels[1], pixels[2], pixels[0])`,
    `_mm_set_epi16(0, coeffs[2], 0, coeffs[2], coeffs[1], coeffs[0], coeffs[1], coeffs[0])` -/
def accRem (s row : List Int) (x : Nat) (ks : List Int) : List Int :=
  let n := ks.length
  let P (i c : Nat) : Int := if i < n then row.getD (2 * (x + i) + c) 0 % 256 else 0
  let K (i : Nat) : Int := if i < n then ks.getD i 0 else 0
  let pix := [P 0 0, 0, P 1 0, 0, P 0 1, 0, P 1 1, 0, P 2 0, 0, 0, 0, P 2 1, 0, 0, 0]
  let mmk := kBytes [K 0, K 1, K 0, K 1, K 2, 0, K 2, 0]
  add32 s (madd pix mmk)

/-- fewer than 8 coefficients: at most one 4-step, then the gathered remainder -/
def tail (s row : List Int) (x : Nat) : List Int → List Int
  | k0 :: k1 :: k2 :: k3 :: rest => if rest.isEmpty then acc4 s row x k0 k1 k2 k3 else accRem (acc4 s row x k0 k1 k2 k3) row (x + 4) rest
  | [] => s
  | ks => accRem s row x ks

def loop (row : List Int) (ks : List Int) (x : Nat) (s : List Int) : List Int :=
  if h : 8 ≤ ks.length then loop row (ks.drop 8) (x + 8) (acc8 s row x (ks.take 8))
  else tail s row x ks
termination_by ks.length
decreasing_by simp only [List.length_drop]; omega

/-- `lo` = lanes 0, 1, `hi` = lanes 2, 3: `a32 = lane1 ⊕ lane3`, `l32 = lane0 ⊕ lane2`, stored as `[l8, a8]` -/
def pixel (p : Nat) (row : List Int) (start : Nat) (ks : List Int) : List Int :=
  let initial := wrap32 (2 ^ (p - 2))
  let s := loop row ks start [initial, initial, initial, initial]
  [clip (satAdd (s.getD 0 0) (s.getD 2 0)) p, clip (satAdd (s.getD 1 0) (s.getD 3 0)) p]

/-- what the portable kernel accumulates for channel `c` -/
def dot2 (row : List Int) (c : Nat) : List Int → Nat → Int
  | [], _ => 0
  | k :: ks, x => row.getD (2 * x + c) 0 % 256 * wrap16 k + dot2 row c ks (x + 1)

/-- `Σ |k|` over the coefficients of one destination pixel -/
def absSum : List Int → Int
  | [] => 0
  | k :: ks => (wrap16 k).natAbs + absSum ks

end Fir.SimdU8x2
