/-
  Fir.Model.ColorTable - representation of the mapping tables extracted from the running
  implementation (DESIGN 4.2): a table of `n` entries of `bits` bits is a list of big numerals, each
  packing 256 consecutive entries (entry k of a chunk in bits [k*bits, (k+1)*bits)).
-/
namespace Fir

def tableEntry (bits : Nat) (chunks : List Nat) (i : Nat) : Nat :=
  (chunks.getD (i / 256) 0 >>> (bits * (i % 256))) % 2 ^ bits

/-- complete check of one table: 0 ↦ 0, max ↦ max, and every consecutive pair is ordered -/
def tableOk (n bits : Nat) (chunks : List Nat) : Bool :=
  tableEntry bits chunks 0 == 0 && tableEntry bits chunks (n - 1) == 2 ^ bits - 1 &&
  (List.range (n / 256)).all fun hi => (List.range 256).all fun lo =>
    let i := 256 * hi + lo
    decide (i + 1 ≥ n) || decide (tableEntry bits chunks i ≤ tableEntry bits chunks (i + 1))

end Fir
