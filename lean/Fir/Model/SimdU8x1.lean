/-
  Fir.Model.SimdU8x1 - lane-accurate model of the SSE4.1 horizontal kernels for single-channel 8-bit images
  (`horiz_convolution_one_row` / `horiz_convolution_four_rows` of src/convolution/u8x1/sse4.rs; the four-row kernel does per
  row exactly what the one-row kernel does): 8 pixels are widened with `_mm_cvtepu8_epi16` and multiplied with 8
  coefficients by `_mm_madd_epi16` into four 32-bit lanes; at most one 4-pixel step follows (`loadl_epi32`); the four
  lanes and the rounding constant are summed (`buf.iter().sum()`), the last 0..3 coefficients are handled in scalar
  code and the result goes through the portable `Normalizer16::clip`.
-/
import Fir.Model.SimdU8x4
import Fir.Generated.Clip
namespace Fir.SimdU8x1
open Fir.Gen Fir.SimdU8x4

/-- `_mm_cvtepu8_epi16` of the `n ≤ 8` bytes loaded at pixel `x` (the rest of the register is zero) -/
def cvt (row : List Int) (x n : Nat) : List Int :=
  ((List.range n).flatMap fun i => [row.getD (x + i) 0 % 256, 0]) ++ List.replicate (16 - 2 * n) 0

def acc8 (s row : List Int) (x : Nat) (k8 : List Int) : List Int := add32 s (madd (cvt row x 8) (kBytes k8))
def acc4 (s row : List Int) (x : Nat) (k4 : List Int) : List Int := add32 s (madd (cvt row x 4) (low64 (kBytes k4)))

/-- `for k in coeffs_by_8` -/
def loop8 (row : List Int) (ks : List Int) (x : Nat) (s : List Int) : List Int × Nat × List Int :=
  if h : 8 ≤ ks.length then loop8 row (ks.drop 8) (x + 8) (acc8 s row x (ks.take 8))
  else (s, x, ks)
termination_by ks.length
decreasing_by simp only [List.length_drop]; omega

/-- `for &coeff in reminder4 { result += src[x] as i32 * coeff as i32; x += 1 }` -/
def scalar (row : List Int) : List Int → Nat → Int → Int
  | k :: rest, x, r => scalar row rest (x + 1) (wrap32 (r + row.getD x 0 % 256 * wrap16 k))
  | [], _, r => r

/-- one destination pixel (one component) -/
def pixel (p : Nat) (row : List Int) (start : Nat) (ks : List Int) : Int :=
  let r8 := loop8 row ks start [0, 0, 0, 0]
  let (s, x, rest) := (r8.1, r8.2.1, r8.2.2)
  let (s, x, rest) := if rest.length ≥ 4 then (acc4 s row x (rest.take 4), x + 4, rest.drop 4) else (s, x, rest)
  -- `buf = [lane0, lane1, lane2, lane3, initial]`, `buf.iter().sum()`
  let sum := wrap32 (s.getD 0 0 + s.getD 1 0 + s.getD 2 0 + s.getD 3 0 + wrap32 (2 ^ (p - 1)))
  (clip8_table (clip16_index (scalar row rest x sum) p) : Int)

def dot1 (row : List Int) : List Int → Nat → Int
  | [], _ => 0
  | k :: ks, x => row.getD x 0 % 256 * wrap16 k + dot1 row ks (x + 1)

end Fir.SimdU8x1
