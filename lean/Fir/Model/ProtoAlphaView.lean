/-
  Fir.Model.ProtoAlphaView - alpha multiply / divide through arbitrary containers (cropped, nested,
  offset views over longer buffers).

  alphaview pt=<PT> op=mul|div ext=none|sse4|avx2 variant=two|inplace sview=<shape> dview=<shape>
            sbuf=<hex: whole source buffer> dbuf=<hex: whole destination buffer before the call>
            got=ok:<hex: whole destination buffer afterwards>|err:<Kind>|panic:...

  model : the destination buffer afterwards is `injectImg dview (op (extractImg sview sbuf)) dbuf`
  spec  : (C06) every pixel of the destination view is the specified function of the source pixel at
          the same view position, and no pixel outside the destination view changes.
-/
import Fir.Model.ProtoResize
namespace Fir

def handleAlphaView (fs : List (String × String)) : String :=
  match (getField fs "pt").bind PixT.ofName, getField fs "op", getField fs "ext", getField fs "variant",
        (getField fs "sview").bind parseShape, (getField fs "dview").bind parseShape,
        getField fs "sbuf", getField fs "dbuf", getField fs "got" with
  | some p, some op, some ext, some variant, some sv, some dv, some sH, some dH, some got =>
    if ¬ p.hasAlpha then "BAD-REQUEST pixel type without alpha" else
    match parseComps p.kind sH, parseComps p.kind dH with
    | some sbuf, some dbuf =>
      let isMul := op == "mul"
      let sameSize := sv.width == dv.width && sv.height == dv.height
      if !sameSize then
        if variant == "two" && got == "err:SizeIsDifferent" then "OK"
        else s!"MODEL-DIFF model=err:SizeIsDifferent got={(got.take 40).toString} ; SPEC-FAIL views of different sizes were not rejected"
      else if !got.startsWith "ok:" then s!"MODEL-DIFF model=ok got={(got.take 60).toString}"
      else match parseComps p.kind (got.drop 3).toString with
      | none => "BAD-REQUEST got hex"
      | some gbuf =>
        let n := p.n
        let simg := extractImg sv n sbuf
        let res := if isMul then mulPixels p simg.data else divPixels p simg.data
        let model := injectImg dv n ⟨dv.width, dv.height, n, res⟩ dbuf
        let cm := canonComps p.kind model
        let cg := canonComps p.kind gbuf
        -- 16-bit SIMD division: a component comes from the f32 lane (main loop) or the portable code (row tail)
        let simd16 : Bool := (!isMul) ∧ p.kind == .u16 ∧ ext != "none"
        let cmS : Array Int := if simd16 then
            injectImg dv n ⟨dv.width, dv.height, n,
              mapAlphaPixels n (fun c a => ((Simd.simdDiv16 c.toNat a.toNat : Nat) : Int)) simg.data⟩ dbuf
          else cm
        let modelMsg : Option String := Id.run do
          if cm.size ≠ cg.size then return some "size"
          for i in [0:cm.size] do
            if cm[i]! ≠ cg[i]! ∧ cmS[i]! ≠ cg[i]! then
              return some s!"buffer comp {i}: model={cm[i]!} lane={cmS[i]!} got={cg[i]!}"
          return none
        -- specification, independent of the model's arithmetic
        let gimg := extractImg dv n gbuf
        let inside := (dv.rows 0).flatten
        let specMsg : Option String := Id.run do
          match alphaSpecCheck p isMul simg.data gimg.data with
          | some m => return some m
          | none =>
            if gbuf.size ≠ dbuf.size then return some "destination buffer changed its size"
            for q in [0:dbuf.size / n] do
              if !inside.contains q then
                for c in [0:n] do
                  if gbuf[q * n + c]! ≠ dbuf[q * n + c]! then
                    return some s!"pixel {q} outside the destination view changed"
            return none
        match modelMsg, specMsg with
        | none, none => "OK"
        | some m, none => "MODEL-DIFF " ++ m
        | none, some s => "SPEC-FAIL " ++ s
        | some m, some s => "MODEL-DIFF " ++ m ++ " ; SPEC-FAIL " ++ s
    | _, _ => "BAD-REQUEST hex"
  | _, _, _, _, _, _, _, _, _ => "BAD-REQUEST fields"

/-- `opview op=<name> spt=<PT> dpt=<PT> dview=<shape> srcsame=0|1 dbuf=<hex before> got=ok:<hex after>|err:<Kind>:<hex after>|panic:..
           ref=ok:<hex: result of the same operation into an exact-size destination>|err:<Kind>:..`
    C05 / C13 for component conversion and colour mapping: through any destination container the operation
    assigns exactly the pixels of the destination view - with the values it produces into an exact-size
    image (that result is judged by C16 / C17) - changes nothing else and leaves the source alone. -/
def handleOpView (fs : List (String × String)) : String :=
  match (getField fs "dpt").bind PixT.ofName, (getField fs "dview").bind parseShape, getField fs "dbuf",
        getField fs "got", getField fs "ref", getField fs "srcsame" with
  | some p, some dv, some dH, some got, some ref, some srcsame =>
    match parseComps p.kind dH with
    | none => "BAD-REQUEST hex"
    | some dbuf =>
      let n := p.n
      let (gstat, ghex) := splitStatus got
      let (rstat, rhex) := splitStatus ref
      if srcsame != "1" then "SPEC-FAIL the source image was modified" else
      if gstat != rstat then s!"SPEC-FAIL outcome {gstat} through the container, {rstat} with an exact-size destination" else
      match parseComps p.kind ghex with
      | none => "BAD-REQUEST got hex"
      | some gbuf =>
        if gbuf.size ≠ dbuf.size then "SPEC-FAIL the destination buffer changed its size" else
        let expected : Option (Array Int) :=
          if gstat == "ok" then (parseComps p.kind rhex).map fun r => injectImg dv n ⟨dv.width, dv.height, n, r⟩ dbuf
          else some dbuf
        match expected with
        | none => "BAD-REQUEST ref hex"
        | some e =>
          let ce := canonComps p.kind e
          let cg := canonComps p.kind gbuf
          match firstDiff ce cg with
          | none => "OK"
          | some i =>
            let inside := ((dv.rows 0).flatten).contains (i / n)
            if gstat != "ok" then s!"SPEC-FAIL destination modified although the call failed (component {i})"
            else if inside then s!"SPEC-FAIL destination pixel {i / n} (inside the view) is {cg[i]!}, exact-size result is {ce[i]!}"
            else s!"SPEC-FAIL pixel {i / n} outside the destination view changed"
  | _, _, _, _, _, _ => "BAD-REQUEST fields"

end Fir
