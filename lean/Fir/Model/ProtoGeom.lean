/-
  Fir.Model.ProtoGeom - line-protocol handlers for geometry validation (C04).

  ccb      W= H= l= t= w= h= got=<0|1|2|3>                       check_crop_box through the hook
  cropctor kind= W= H= l= t= w= h= got=ok:<part>|err:<Kind>      real cropped-view constructors
  cropf64  W= H= dw= dh= l=<f64 hex> t= w= h= got=ok|err:<Kind>  Resizer::resize with options.crop(..)
  ctor     kind= psize= W= H= len= mis= align= got=ok|err:<Kind> image constructors (len in bytes or pixels)
-/
import Fir.Model.Basic
import Fir.Model.View
import Fir.Model.CropF64
import Fir.Model.ProtoView
import Fir.Generated.Crop
import Fir.Generated.Sizes
namespace Fir

def cropErrName : Nat → String
  | 0 => "ok" | 1 => "PositionIsOutOfImageBoundaries" | 2 => "SizeIsOutOfImageBoundaries"
  | 3 => "WidthOrHeightLessThanZero" | _ => "early-ok"

/-- the specification in ℕ (no wrap-around): which outcome a u32 crop box must get -/
def specCrop (W H l t w h : Nat) : Nat :=
  if l ≥ W ∨ t ≥ H then 1 else if l + w > W ∨ t + h > H then 2 else 0

def handleCcb (fs : List (String × String)) : String :=
  match getNat fs "W", getNat fs "H", getNat fs "l", getNat fs "t", getNat fs "w", getNat fs "h", getNat fs "got" with
  | some W, some H, some l, some t, some w, some h, some got =>
    let model := Gen.check_crop_box W H l t w h
    let okFlag := decide (Gen.check_crop_box_ok W H l t w h)
    let spec := specCrop W H l t w h
    let m : Option String := if model == got ∧ okFlag then none
      else some s!"model={model} ok={okFlag} got={got}"
    let s : Option String := if spec == got then none else some s!"crop box ({l},{t},{w},{h}) in {W}x{H}: got {cropErrName got}, must be {cropErrName spec}"
    match m, s with
    | none, none => "OK"
    | some m, none => "MODEL-DIFF " ++ m
    | none, some s => "SPEC-FAIL " ++ s
    | some m, some s => "MODEL-DIFF " ++ m ++ " ; SPEC-FAIL " ++ s
  | _, _, _, _, _, _, _ => "BAD-REQUEST fields"

def handleCropCtor (fs : List (String × String)) : String :=
  match getNat fs "W", getNat fs "H", getNat fs "l", getNat fs "t", getNat fs "w", getNat fs "h", getField fs "got" with
  | some W, some H, some l, some t, some w, some h, some got =>
    let code := Gen.check_crop_box W H l t w h
    let v := View.crop (View.typed 0 W H (W * H)) l t w h
    let model := if code == 0 then "ok:" ++ rowsDesc v else "err:" ++ cropErrName code
    let spec := specCrop W H l t w h
    -- specification: accepted iff inside; an accepted view exposes h rows of exactly w pixels, pixel
    -- (x, y) of the view being pixel (l + x, t + y) of the image
    let specWant :=
      if spec == 0 then
        let rs := (List.range h).map fun y => ",".intercalate ((List.range w).map fun x => toString ((t + y) * W + l + x))
        s!"ok:{w}x{h}:" ++ "/".intercalate rs
      else "err:" ++ cropErrName spec
    let m : Option String := if model == got then none else some s!"model={model.take 120}"
    let s : Option String := if specWant == got then none else some s!"view ({l},{t},{w},{h}) of {W}x{H}: got {got.take 80}"
    match m, s with
    | none, none => "OK"
    | some m, none => "MODEL-DIFF " ++ m
    | none, some s => "SPEC-FAIL " ++ s
    | some m, some s => "MODEL-DIFF " ++ m ++ " ; SPEC-FAIL " ++ s
  | _, _, _, _, _, _, _ => "BAD-REQUEST fields"

def f64OfHex (s : String) : Option Float := (parseHexNat s).map fun n => Float.ofBits (UInt64.ofNat n)

def handleCropF64 (fs : List (String × String)) : String :=
  match getNat fs "W", getNat fs "H", getNat fs "dw", getNat fs "dh",
        (getField fs "l").bind f64OfHex, (getField fs "t").bind f64OfHex, (getField fs "w").bind f64OfHex, (getField fs "h").bind f64OfHex,
        getField fs "got" with
  | some W, some H, some dw, some dh, some l, some t, some w, some h, some got =>
    let code := resizePrologue floatOps W H dw dh l t w h
    let model := if code == 0 ∨ code == 4 then "ok" else "err:" ++ cropErrName code
    -- specification (C04): accepted iff finite, non-negative origin and size, inside the image.
    -- A zero-area box / zero-sized destination is a documented no-op that returns Ok before validation.
    let fin := l.isFinite && t.isFinite && w.isFinite && h.isFinite
    let inside := fin && l ≥ 0 && t ≥ 0 && w ≥ 0 && h ≥ 0 && l < Float.ofNat W && t < Float.ofNat H &&
                  l + w ≤ Float.ofNat W && t + h ≤ Float.ofNat H
    let noop := w == 0 || h == 0 || dw == 0 || dh == 0
    let specOk := !(got.startsWith "panic") && (if inside then got == "ok" else if noop then true else got != "ok")
    let m : Option String := if model == got then none else some s!"model={model}"
    let s : Option String := if specOk then none else some s!"crop ({l},{t},{w},{h}) of {W}x{H}: got {got}"
    match m, s with
    | none, none => "OK"
    | some m, none => "MODEL-DIFF " ++ m
    | none, some s => "SPEC-FAIL " ++ s
    | some m, some s => "MODEL-DIFF " ++ m ++ " ; SPEC-FAIL " ++ s
  | _, _, _, _, _, _, _, _, _ => "BAD-REQUEST fields"

def handleCtor (fs : List (String × String)) : String :=
  match getField fs "kind", getNat fs "psize", getNat fs "W", getNat fs "H", getNat fs "len", getNat fs "mis", getNat fs "align", getField fs "got" with
  | some kind, some psize, some W, some H, some len, some mis, some align, some got =>
    -- `len` is in bytes for buffer constructors and in pixels for the pixel-slice constructors
    let sizeErr := "InvalidBufferSize"
    let alignErr := "InvalidBufferAlignment"
    -- `align_to` reports a non-empty head only for a non-empty slice: an empty buffer is never misaligned
    let misaligned := align > 1 && mis % align != 0 && len > 0
    let model : String :=
      match kind with
      | "image_ref" => if len < Gen.image_ref_size W H psize then "err:" ++ sizeErr else if misaligned then "err:" ++ alignErr else "ok"
      | "image_vec" => if len < Gen.image_vec_size W H psize then "err:" ++ sizeErr else if misaligned then "err:" ++ alignErr else "ok"
      | "image_slice" => if len < Gen.image_slice_size W H psize then "err:" ++ sizeErr else if misaligned then "err:" ++ alignErr else "ok"
      | "typed_from_buffer" =>
          if len < Gen.typed_buffer_size W H psize then "err:" ++ sizeErr else if misaligned then "err:" ++ alignErr
          else if len / psize < Gen.typed_slice_count W H then "err:" ++ sizeErr else "ok"
      | "typed_ref_from_buffer" =>
          if misaligned then "err:" ++ alignErr else if len / psize < Gen.typed_ref_count W H then "err:" ++ sizeErr else "ok"
      | "typed_ref_new" => if len < Gen.typed_ref_count W H then "err:InvalidPixelsSize" else "ok"
      | "typed_slice" => if len < Gen.typed_slice_count W H then "err:InvalidPixelsSize" else "ok"
      | _ => if len < Gen.typed_vec_count W H then "err:InvalidPixelsSize" else "ok"
    -- specification: accepted iff large enough (product in ℕ) and aligned
    let needBytes := W * H * psize
    let pixelKinds := kind == "typed_ref_new" || kind == "typed_slice" || kind == "typed_vec"
    let bigEnough := if pixelKinds then W * H ≤ len else needBytes ≤ len
    let specOk := !(got.startsWith "panic") && (if bigEnough ∧ ¬ (misaligned ∧ ¬ pixelKinds) then got == "ok" else got != "ok")
    let m : Option String := if model == got then none else some s!"model={model}"
    let s : Option String := if specOk then none else some s!"{kind} {W}x{H} psize={psize} len={len} mis={mis}: got {got}"
    -- C03: an image the constructor accepted was then handed to the safe APIs (`use=`): none of them may panic
    let s : Option String := match s, getField fs "use" with
      | some e, _ => some e
      | none, some u => if u.startsWith "panic" then some s!"{kind} {W}x{H} psize={psize} len={len} mis={mis}: accepted by the constructor, then used through the safe API: {u.take 160}" else none
      | none, none => none
    match m, s with
    | none, none => "OK"
    | some m, none => "MODEL-DIFF " ++ m
    | none, some s => "SPEC-FAIL " ++ s
    | some m, some s => "MODEL-DIFF " ++ m ++ " ; SPEC-FAIL " ++ s
  | _, _, _, _, _, _, _, _ => "BAD-REQUEST fields"

end Fir
