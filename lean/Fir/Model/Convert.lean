/-
  Fir.Model.Convert - model of `IntoPixelComponent` / change_type_of_pixel_components (src/pixels.rs).
  Integer pairs are the translated Rust code (Fir.Gen.conv_*); float pairs mirror the source text
  recorded in `Fir.Gen.floatConvSources` with Lean's `Float32` (hardware binary32).
-/
import Fir.Model.Basic
import Fir.Model.Alpha
import Fir.Model.SoftF32
import Fir.Generated.Pixels
import Fir.Generated.Convert
namespace Fir
open Fir.Gen

/-- Rust `f32::clamp` -/
def f32Clamp (x lo hi : Float32) : Float32 :=
  let x := if x < lo then lo else x
  if x > hi then hi else x

/-- the float conversions exactly as modelled; compared with `Gen.floatConvSources` in Fir.Props.C17 -/
def floatConvModelled : List (String × String × String) := [
  ("u8", "f32", "(self as f32) / u8::MAX as f32"),
  ("u16", "f32", "(self as f32) / u16::MAX as f32"),
  ("i32", "f32", "if self < 0 { (self as f32) / -(i32::MIN as f32) } else { (self as f32) / i32::MAX as f32 }"),
  ("f32", "u8", "(self.clamp(0., 1.) * u8::MAX as f32).round() as u8"),
  ("f32", "u16", "(self.clamp(0., 1.) * u16::MAX as f32).round() as u16"),
  ("f32", "i32", "let max = if self < 0. { -(i32::MIN as f32) } else { i32::MAX as f32 }; (self.clamp(-1., 1.) * max).round() as i32")]

def two31 : Float32 := Float32.ofNat 2147483648

/-- one component, source kind `s` to destination kind `d` -/
def convComp (s d : CKind) (x : Int) : Int :=
  match s, d with
  | .u8, .u16 => conv_u8_u16 x.toNat
  | .u8, .i32 => conv_u8_i32 x.toNat
  | .u8, .f32 => bitsOfF32 (Float32.ofNat x.toNat / Float32.ofNat 255)
  | .u16, .u8 => conv_u16_u8 x.toNat
  | .u16, .i32 => conv_u16_i32 x.toNat
  | .u16, .f32 => bitsOfF32 (Float32.ofNat x.toNat / Float32.ofNat 65535)
  | .i32, .u8 => conv_i32_u8 x
  | .i32, .u16 => conv_i32_u16 x
  | .i32, .f32 => bitsOfF32 (Float32.ofInt x / two31)
  | .f32, .u8 => ((f32Clamp (f32OfBits x) 0 1 * Float32.ofNat 255).round.toUInt8.toNat : Int)
  | .f32, .u16 => ((f32Clamp (f32OfBits x) 0 1 * Float32.ofNat 65535).round.toUInt16.toNat : Int)
  | .f32, .i32 => ((f32Clamp (f32OfBits x) (-1) 1 * two31).round.toInt32.toInt)
  | _, _ => x

/-- the soft-float versions used by the theorems (non-negative finite inputs) -/
def convCompSoft (s d : CKind) (x : Int) : Int :=
  match s, d with
  | .u8, .f32 => Soft.toBits (Soft.unsignedToF32 255 x.toNat)
  | .u16, .f32 => Soft.toBits (Soft.unsignedToF32 65535 x.toNat)
  | .f32, .u8 => Soft.f32ToUnsigned 255 (Soft.ofBits x.toNat)
  | .f32, .u16 => Soft.f32ToUnsigned 65535 (Soft.ofBits x.toNat)
  | _, _ => convComp s d x

/-- is the (source, destination) pixel-type pair accepted (translated dispatch table) -/
def convertSupported (s d : String) : Bool :=
  match convertPairs.find? (·.1 == s) with
  | some (_, ds) => ds.contains d
  | none => false

end Fir
