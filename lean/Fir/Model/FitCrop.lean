/-
  Fir.Model.FitCrop - executable mirror (Lean `Float` = hardware binary64; no libm involved) of
  CropBox::fit_src_into_dst_size (src/crop_box.rs).  The source text mirrored is pinned by
  `Fir.Gen.fitCropSource` (Fir.C15.fit_source_as_modelled).
-/
import Fir.Generated.FitCrop
namespace Fir

def f64Clamp (x lo hi : Float) : Float :=
  -- Rust `f64::clamp`: NaN stays NaN
  let x := if x < lo then lo else x
  if x > hi then hi else x

def f64Epsilon : Float := Float.ofBits 0x3cb0000000000000   -- 2^-52

/-- (left, top, width, height) -/
def fitCrop (sw sh dw dh : Nat) (cx cy : Float) : Float × Float × Float × Float :=
  if sw = 0 ∨ sh = 0 ∨ dw = 0 ∨ dh = 0 then (0, 0, Float.ofNat sw, Float.ofNat sh) else
  let cx := f64Clamp cx 0 1
  let cy := f64Clamp cy 0 1
  let width := Float.ofNat sw
  let height := Float.ofNat sh
  let imageRatio := width / height
  let requiredRatio := Float.ofNat dw / Float.ofNat dh
  let (cw, ch) :=
    if (imageRatio - requiredRatio).abs < f64Epsilon then (width, height)
    else if imageRatio ≥ requiredRatio then (requiredRatio * height, height)
    else (width, width / requiredRatio)
  ((width - cw) * cx, (height - ch) * cy, cw, ch)

def fitCropSourceModelled : String :=
  "if src_width == 0 || src_height == 0 || dst_width == 0 || dst_height == 0 { return Self { left: 0., top: 0., width: src_width as _, height: src_height as _, }; } let centering = if let Some((x, y)) = centering { (x.clamp(0.0, 1.0), y.clamp(0.0, 1.0)) } else { (0.5, 0.5) }; let width = src_width as f64; let height = src_height as f64; let image_ratio = width / height; let required_ration = dst_width as f64 / dst_height as f64; let crop_width; let crop_height; if (image_ratio - required_ration).abs() < f64::EPSILON { crop_width = width; crop_height = height; } else if image_ratio >= required_ration { crop_width = required_ration * height; crop_height = height; } else { crop_width = width; crop_height = width / required_ration; } let crop_left = (width - crop_width) * centering.0; let crop_top = (height - crop_height) * centering.1; Self { left: crop_left, top: crop_top, width: crop_width, height: crop_height, }"

end Fir
