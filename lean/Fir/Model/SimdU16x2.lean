/-
  Fir.Model.SimdU16x2 - lane-accurate model of the SSE4.1 horizontal kernels for two-channel 16-bit images (LA16)
  (`horiz_convolution_one_row` / `horiz_convolution_four_rows` of src/convolution/u16x2/sse4.rs; the four-row kernel does per
  row what the one-row kernel does).  One accumulator `[L, A]` of two 64-bit lanes started at `1 << (precision - 1)`; four
  pixels per 128-bit load, each moved into the low halves of the lanes by `_mm_shuffle_epi8` (masks `p0 .. p3`, from the
  source), multiplied by `_mm_mul_epi32` with `_mm_set1_epi64x(k as i64)` and added by `_mm_add_epi64`; at most one
  2-coefficient step (`loadl_epi64`) and one last coefficient (`loadl_epi32`); both lanes through `Normalizer32::clip`.
-/
import Fir.Model.SimdVertU16
namespace Fir.SimdU16x2
open Fir.Gen Fir.SimdU8x4 Fir.SimdVertU16

/-- a load of `n ≤ 4` pixels (two 16-bit components each, little endian) at pixel `x`; the rest of the register is zero -/
def srcLA (row : List Int) (x n : Nat) : List Int :=
  ((List.range (2 * n)).flatMap fun i => [row.getD (2 * x + i) 0 % 256, (row.getD (2 * x + i) 0 / 256) % 256])
    ++ List.replicate (16 - 4 * n) 0

def acc4 (s row : List Int) (x : Nat) (k0 k1 k2 k3 : Int) : List Int :=
  let source := srcLA row x 4
  let s := add64 s (mulEpi32 (pshufb source u16x2_sse4_p0) k0)
  let s := add64 s (mulEpi32 (pshufb source u16x2_sse4_p1) k1)
  let s := add64 s (mulEpi32 (pshufb source u16x2_sse4_p2) k2)
  add64 s (mulEpi32 (pshufb source u16x2_sse4_p3) k3)

def acc2 (s row : List Int) (x : Nat) (k0 k1 : Int) : List Int :=
  let source := srcLA row x 2
  let s := add64 s (mulEpi32 (pshufb source u16x2_sse4_p0) k0)
  add64 s (mulEpi32 (pshufb source u16x2_sse4_p1) k1)

def acc1 (s row : List Int) (x : Nat) (k : Int) : List Int :=
  add64 s (mulEpi32 (pshufb (srcLA row x 1) u16x2_sse4_p0) k)

def loop (row : List Int) : List Int → Nat → List Int → List Int
  | k0 :: k1 :: k2 :: k3 :: ks, x, s => loop row ks (x + 4) (acc4 s row x k0 k1 k2 k3)
  | [k0, k1, k2], x, s => acc1 (acc2 s row x k0 k1) row (x + 2) k2
  | [k0, k1], x, s => acc2 s row x k0 k1
  | [k], x, s => acc1 s row x k
  | [], _, s => s

def pixel (p : Nat) (row : List Int) (start : Nat) (ks : List Int) : List Int :=
  let i := wrap64 (2 ^ (p - 1))
  (loop row ks start [i, i]).map fun v => (clip32 v p : Int)

/-- what the portable kernel accumulates for channel `c` -/
def dotLA (row : List Int) (c : Nat) : List Int → Nat → Int
  | [], _ => 0
  | k :: ks, x => row.getD (2 * x + c) 0 % 65536 * wrap32 k + dotLA row c ks (x + 1)

end Fir.SimdU16x2
