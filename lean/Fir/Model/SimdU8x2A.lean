/-
  Fir.Model.SimdU8x2A - lane-accurate model of the AVX2 one-row horizontal kernel for two-channel 8-bit images
  (`horiz_convolution_one_row` of src/convolution/u8x2/avx2.rs).

  Fewer than 16 coefficients: a 128-bit accumulator `[L, A, L, A]` started at `1 << (precision - 2)`, 4-coefficient steps and the
  gathered remainder of 1..3 (the SSE4.1 kernel's instructions, mask `pix_sh4`).  Otherwise a 256-bit accumulator of two such halves
  started at `1 << (precision - 3)`: a 16-step gives pixels 0..7 to the low half and 8..15 to the high half (per half the SSE4.1
  8-step: masks `pix_sh1`, `coeff_sh1`, `pix_sh2`, `coeff_sh2`), an 8-step duplicates one 128-bit load into both halves and gives
  pixels 0..3 to the low half, 4..7 to the high half (`pix_sh3`, `coeff_sh3`); the halves are added (`_mm_add_epi32`), then the
  128-bit steps follow.  The two lanes of each channel are joined with `i32::saturating_add`, as in the SSE4.1 kernel.
-/
import Fir.Model.SimdU8x2
namespace Fir.SimdU8x2A
open Fir.Gen Fir.SimdU8x4 Fir.SimdU8x2

abbrev St := List Int × List Int

/-- one half of a 16-step: two shuffles of pixels and of coefficients -/
def half16 (ps1 cs1 ps2 cs2 : List Int) (s src ksrc : List Int) : List Int :=
  add32 (add32 s (madd (pshufb src ps1) (pshufb ksrc cs1))) (madd (pshufb src ps2) (pshufb ksrc cs2))

/-- one half of an 8-step -/
def half8 (ps cs : List Int) (s src ksrc : List Int) : List Int := add32 s (madd (pshufb src ps) (pshufb ksrc cs))

def acc16A (s : St) (row : List Int) (x : Nat) (k : List Int) : St :=
  (half16 u8x2_avx2_one_pix_sh1_lo u8x2_avx2_one_coeff_sh1_lo u8x2_avx2_one_pix_sh2_lo u8x2_avx2_one_coeff_sh2_lo
     s.1 (src2 row x 8) (kBytes (k.take 8)),
   half16 u8x2_avx2_one_pix_sh1_hi u8x2_avx2_one_coeff_sh1_hi u8x2_avx2_one_pix_sh2_hi u8x2_avx2_one_coeff_sh2_hi
     s.2 (src2 row (x + 8) 8) (kBytes (k.drop 8)))

/-- `_mm256_insertf128_si256::<1>(_mm256_castsi128_si256(tmp), tmp)`: the same 128 bits in both halves -/
def acc8A (s : St) (row : List Int) (x : Nat) (k : List Int) : St :=
  (half8 u8x2_avx2_one_pix_sh3_lo u8x2_avx2_one_coeff_sh3_lo s.1 (src2 row x 8) (kBytes k),
   half8 u8x2_avx2_one_pix_sh3_hi u8x2_avx2_one_coeff_sh3_hi s.2 (src2 row x 8) (kBytes k))

/-- `for k in coeffs_by_16` -/
def loop16 (row : List Int) (ks : List Int) (x : Nat) (s : St) : St × Nat × List Int :=
  if h : 16 ≤ ks.length then loop16 row (ks.drop 16) (x + 16) (acc16A s row x (ks.take 16))
  else (s, x, ks)
termination_by ks.length
decreasing_by simp only [List.length_drop]; omega

/-- the 128-bit 4-step with the AVX2 kernel's own mask `pix_sh4` -/
def acc4 (s row : List Int) (x : Nat) (k0 k1 k2 k3 : Int) : List Int :=
  add32 s (madd (pshufb (src2 row x 4) u8x2_avx2_one_pix_sh4) (kBytes [k0, k1, k0, k1, k2, k3, k2, k3]))

/-- `for k in coeffs_by_4`, then the gathered remainder of 1..3 coefficients (as in the SSE4.1 kernel) -/
def tail4 (row : List Int) : List Int → Nat → List Int → List Int
  | k0 :: k1 :: k2 :: k3 :: ks, x, s => tail4 row ks (x + 4) (acc4 s row x k0 k1 k2 k3)
  | [], _, s => s
  | ks, x, s => accRem s row x ks

/-- one destination pixel -/
def pixelA (p : Nat) (row : List Int) (start : Nat) (ks : List Int) : List Int :=
  let r : List Int × Nat × List Int :=
    if ks.length < 16 then
      let i := wrap32 (2 ^ (p - 2))
      ([i, i, i, i], start, ks)
    else
      let i := wrap32 (2 ^ (p - 3))
      let r := loop16 row ks start ([i, i, i, i], [i, i, i, i])
      let (s, x, rest) := (r.1, r.2.1, r.2.2)
      let (s, x, rest) := if rest.length ≥ 8 then (acc8A s row x (rest.take 8), x + 8, rest.drop 8) else (s, x, rest)
      (add32 s.1 s.2, x, rest)
  let s := tail4 row r.2.2 r.2.1 r.1
  [clip (satAdd (s.getD 0 0) (s.getD 2 0)) p, clip (satAdd (s.getD 1 0) (s.getD 3 0)) p]

end Fir.SimdU8x2A
