/-
  Fir.Model.ProtoAlpha - line-protocol handler for alpha requests (C06, C02, C07 building block).

  request : alpha pt=<PixelType> op=mul|div ext=none|sse4|avx2 variant=two|inplace w=<n> h=<n> src=<hex> got=<hex>
  answer  : OK | MODEL-DIFF <detail> | SPEC-FAIL <detail>      (both may be reported, separated by " ; ")
-/
import Fir.Model.Alpha
import Fir.Model.SimdAlpha
import Fir.Spec.Alpha
import Fir.Generated.Lists
import Fir.Generated.Clip
namespace Fir

def canonF32 (b : Int) : Int :=
  let e := (b.toNat / 8388608) % 256
  let m := b.toNat % 8388608
  if e = 255 ∧ m ≠ 0 then 0x7fc00000 else if b = 0x80000000 then 0 else b

def canonComps (k : CKind) (a : Array Int) : Array Int :=
  match k with
  | .f32 => a.map canonF32
  | _ => a

/-- first index where two arrays differ -/
def firstDiff (a b : Array Int) : Option Nat := Id.run do
  if a.size ≠ b.size then return some (min a.size b.size)
  for i in [0:a.size] do
    if a[i]! ≠ b[i]! then return some i
  return none

/-- per-component check of `got` against the C06 specification -/
def alphaSpecCheck (p : PixT) (isMul : Bool) (src got : Array Int) : Option String := Id.run do
  if src.size ≠ got.size then return some "size"
  let n := p.n
  let m := p.kind.maxVal.toNat
  for i in [0:src.size] do
    let j := i % n
    let a := src[i - j + (n - 1)]!
    let c := src[i]!
    let g := got[i]!
    if j = n - 1 then
      -- alpha itself must be unchanged (floats: numerically, so -0.0 == +0.0 after canonicalisation)
      if canonF32 g ≠ canonF32 c ∧ p.kind == .f32 then return some s!"alpha changed at {i}"
      if g ≠ c ∧ p.kind != .f32 then return some s!"alpha changed at {i}"
    else
      match p.kind with
      | .f32 =>
        let want := if isMul then bitsOfF32 (f32OfBits c * f32OfBits a)
                    else if f32OfBits a == 0 then 0 else bitsOfF32 (f32OfBits c / f32OfBits a)
        if canonF32 want ≠ canonF32 g then return some s!"f32 comp {i}: c={c} a={a} got={g} want={want}"
      | _ =>
        if isMul then
          if g.toNat ≠ Spec.mulExact m c.toNat a.toNat then
            return some s!"mul comp {i}: c={c} a={a} got={g} want={Spec.mulExact m c.toNat a.toNat}"
        else
          if ¬ Spec.divFaithful m c.toNat a.toNat g.toNat then
            return some s!"div comp {i}: c={c} a={a} got={g} floor={min m (c.toNat * m / a.toNat)}"
  return none

def handleAlpha (fs : List (String × String)) : String :=
  match (getField fs "pt").bind PixT.ofName, getField fs "op", getField fs "ext", getField fs "src", getField fs "got" with
  | some p, some op, some ext, some srcH, some gotH =>
    match parseComps p.kind srcH, parseComps p.kind gotH with
    | some src, some got =>
      if ¬ p.hasAlpha then "BAD-REQUEST pixel type without alpha" else
      let isMul := op == "mul"
      let model := if isMul then mulPixels p src else divPixels p src
      let cm := canonComps p.kind model
      let cg := canonComps p.kind got
      -- 16-bit SIMD division: main-loop pixels go through the f32 lane (exact soft-float model
      -- `Simd.simdDiv16`), row tails through the portable code - each component must be one of the two
      let simd16 : Bool := (!isMul) ∧ p.kind == .u16 ∧ ext != "none"
      let modelMsg : Option String := Id.run do
        if cm.size ≠ cg.size then return some "size"
        for i in [0:cm.size] do
          if cm[i]! ≠ cg[i]! then
            let j := i % p.n
            let lane : Int := if simd16 ∧ j ≠ p.n - 1 then (Simd.simdDiv16 src[i]!.toNat src[i - j + (p.n - 1)]!.toNat : Nat) else cm[i]!
            if lane ≠ cg[i]! then return some s!"comp {i}: src={src[i]!} model={cm[i]!} lane={lane} got={cg[i]!}"
        return none
      let specMsg := alphaSpecCheck p isMul src got
      match modelMsg, specMsg with
      | none, none => "OK"
      | some m, none => "MODEL-DIFF " ++ m
      | none, some s => "SPEC-FAIL " ++ s
      | some m, some s => "MODEL-DIFF " ++ m ++ " ; SPEC-FAIL " ++ s
    | _, _ => "BAD-REQUEST hex"
  | _, _, _, _, _ => "BAD-REQUEST fields"

/-- `alpha-reject pt=<PixelType> op=mul-two|div-two|mul-inplace|div-inplace|mul-two-size got=<outcome>`:
    which pixel types the alpha entry points accept, from the *translated* dispatch lists -/
def handleAlphaReject (fs : List (String × String)) : String :=
  match getField fs "pt", getField fs "op", getField fs "got" with
  | some pt, some op, some got =>
    let lst := match op with
      | "mul-two" | "mul-two-size" => Gen.dispatch_multiply_alpha
      | "div-two" => Gen.dispatch_divide_alpha
      | "mul-inplace" => Gen.dispatch_multiply_alpha_inplace
      | _ => Gen.dispatch_divide_alpha_inplace
    let supported := lst.contains pt
    let twoImage := op == "mul-two" || op == "div-two" || op == "mul-two-size"
    let model :=
      if supported then (if op == "mul-two-size" then "SizeIsDifferent" else "ok")
      else if twoImage then "ImageError(UnsupportedPixelType)" else "UnsupportedPixelType"
    -- specification (C06): exactly the six alpha pixel types are accepted
    let specSupported := ["U8x2", "U8x4", "U16x2", "U16x4", "F32x2", "F32x4"].contains pt
    let specOk := if specSupported then (got == "ok" || got == "SizeIsDifferent") else (got != "ok" && got != "SizeIsDifferent")
    match model == got, specOk with
    | true, true => "OK"
    | false, true => s!"MODEL-DIFF model={model} got={got}"
    | true, false => s!"SPEC-FAIL pixel type {pt}: {got}"
    | false, false => s!"MODEL-DIFF model={model} got={got} ; SPEC-FAIL pixel type {pt}: {got}"
  | _, _, _ => "BAD-REQUEST fields"

/-- `table name=clip8|recip8|recip16 off=<first index> size=<table length> vals=<16 hex digits per entry>`:
    the constant tables the implementation actually built (read through the hooks) against the
    *translated* generator functions `Fir.Gen.clip8_table`, `recip_alpha`, `recip_alpha16` -/
def handleTable (fs : List (String × String)) : String :=
  match getField fs "name", getNat fs "off", getNat fs "size", (getField fs "vals").bind (parseHexComps · 16) with
  | some name, some off, some size, some vals =>
    let spec : Option ((Nat → Nat) × Nat) := match name with
      | "clip8" => some (Gen.clip8_table, Gen.clip8_table_size)
      | "recip8" => some (Gen.recip_alpha, Gen.recip_alpha_size)
      | "recip16" => some (Gen.recip_alpha16, Gen.recip_alpha16_size)
      | _ => none
    match spec with
    | none => "BAD-REQUEST table name"
    | some (f, n) =>
      if size != n then s!"MODEL-DIFF table {name}: size model={n} got={size}" else
      match (List.range vals.size).find? (fun i => f (off + i) != vals[i]!) with
      | some i => s!"MODEL-DIFF table {name}[{off + i}] model={f (off + i)} got={vals[i]!}"
      | none => "OK"
  | _, _, _, _ => "BAD-REQUEST fields"

end Fir
