/-
  Fir.Model.ProtoColor - line-protocol handlers for the colour mappers (C16).

  ctable kind=srgb|gamma22 dir=fwd|bwd in=8|16 out=8|16 got=<hex of the complete table>
  cmap   kind= dir= src=<PT> dst=<PT> w= h= variant=two|inplace in=<hex> got=<hex>
  cmap-reject src=<PT> dst=<PT> dims=same|diff|inplace got=<outcome>
-/
import Fir.Model.Color
import Fir.Model.ProtoAlpha
import Fir.Model.ProtoConvert
namespace Fir

def kindOfBits (b : Nat) : CKind := if b = 8 then .u8 else .u16

def handleCTable (fs : List (String × String)) : String :=
  match getField fs "kind", getField fs "dir", getNat fs "in", getNat fs "out", getField fs "got" with
  | some kind, some dir, some ib, some ob, some gotH =>
    match parseComps (kindOfBits ob) gotH with
    | none => "BAD-REQUEST hex"
    | some got =>
      let model := tableModel kind dir ib ob
      let m : Option String :=
        if got.size ≠ model.size then some "size" else
        ((Array.range got.size).find? fun i => got[i]! ≠ ((model[i]! : Nat) : Int)).map fun i =>
          s!"entry {i}: transfer function gives {model[i]!}, table has {got[i]!}"
      -- specification on the table itself: end points, monotone
      let mx : Int := 2 ^ ob - 1
      let s : Option String :=
        if got.size = 0 then some "empty" else
        if got[0]! ≠ 0 then some s!"entry 0 is {got[0]!}" else
        if got[got.size - 1]! ≠ mx then some s!"last entry is {got[got.size - 1]!}" else
        ((Array.range (got.size - 1)).find? fun i => got[i]! > got[i + 1]!).map fun i =>
          s!"not monotone at {i}: {got[i]!} > {got[i+1]!}"
      -- "every entry equals the documented transfer function rounded" is judged by the model comparison
      match m, s with
      | none, none => "OK"
      | some m, none => "MODEL-DIFF " ++ m
      | none, some s => "SPEC-FAIL " ++ s
      | some m, some s => "MODEL-DIFF " ++ m ++ " ; SPEC-FAIL " ++ s
  | _, _, _, _, _ => "BAD-REQUEST fields"

def handleCMap (fs : List (String × String)) : String :=
  match getField fs "kind", getField fs "dir", (getField fs "src").bind PixT.ofName, (getField fs "dst").bind PixT.ofName,
        getField fs "in", getField fs "got" with
  | some kind, some dir, some s, some d, some inH, some gotH =>
    match parseComps s.kind inH, parseComps d.kind gotH with
    | some inp, some got =>
      let ib := if s.kind == .u8 then 8 else 16
      let ob := if d.kind == .u8 then 8 else 16
      let table := tableModel kind dir ib ob
      let model := mapComps s.n table s.kind d.kind inp
      let m := (firstDiff model got).map fun i => s!"comp {i}: in={inp[i]!} model={model[i]!} got={got[i]!}"
      -- specification: alpha components (last of 2 / 4) are depth-converted only, never mapped
      let sp : Option String :=
        if inp.size ≠ got.size then some "size" else
        ((Array.range inp.size).find? fun i =>
          (s.n == 2 || s.n == 4) && i % s.n == s.n - 1 &&
          got[i]! != (match s.kind, d.kind with
            | .u8, .u16 => inp[i]! * 257
            | .u16, .u8 => inp[i]! / 256
            | _, _ => inp[i]!)).map fun i => s!"alpha component {i} was not passed through: in={inp[i]!} got={got[i]!}"
      match m, sp with
      | none, none => "OK"
      | some m, none => "MODEL-DIFF " ++ m
      | none, some s => "SPEC-FAIL " ++ s
      | some m, some s => "MODEL-DIFF " ++ m ++ " ; SPEC-FAIL " ++ s
    | _, _ => "BAD-REQUEST hex"
  | _, _, _, _, _, _ => "BAD-REQUEST fields"

def handleCMapReject (fs : List (String × String)) : String :=
  match (getField fs "src").bind PixT.ofName, (getField fs "dst").bind PixT.ofName, getField fs "dims", getField fs "got" with
  | some s, some d, some dims, some got =>
    let inRow (p : PixT) := Gen.mapperRows.any fun r => r.1 == p.name || r.2 == p.name
    let sameRow := Gen.mapperRows.any fun r => (r.1 == s.name || r.2 == s.name) && (r.1 == d.name || r.2 == d.name)
    let model :=
      if dims == "inplace" then (if inRow s then "ok" else "UnsupportedCombinationOfImageTypes")
      else if dims == "diff" then "DifferentDimensions"
      else if sameRow then "ok" else "UnsupportedCombinationOfImageTypes"
    let should := mapSupported s d
    let specOk := if dims == "diff" then got != "ok" else if should then got == "ok" else got != "ok"
    match model == got, specOk with
    | true, true => "OK"
    | false, true => s!"MODEL-DIFF model={model} got={got}"
    | true, false => s!"SPEC-FAIL {s.name}->{d.name} dims={dims}: {got}"
    | false, false => s!"MODEL-DIFF model={model} got={got} ; SPEC-FAIL {s.name}->{d.name} dims={dims}: {got}"
  | _, _, _, _ => "BAD-REQUEST fields"

end Fir
