/-
  Fir.Model.SimdAlpha - per-lane model of the SSE4.1 / AVX2 8-bit `divide_alpha` kernels
  (src/alpha/u8x4/sse4.rs, avx2.rs, u8x2/*): the reciprocal is computed in f32
  (`cvtps_epi32(65280.0 / alpha)`), taken as a Q8.8 number in a signed 16-bit lane, multiplied with
  the component in Q9.7 by `_mm_mulhrs_epi16`, and clamped with `_mm_min_epu16(.., 255)`.
  The f32 quotient is evaluated exactly with the soft-float of Fir.Model.SoftF32.
-/
import Fir.Model.SoftF32
namespace Fir.Simd

open Fir.Soft

/-- `_mm_cvtps_epi32` (round to nearest even) of the non-negative dyadic `x`; values ≥ 2^31 give the
    "integer indefinite" 0x8000_0000 -/
def cvtpsNonneg (x : Nat × Nat) : Nat :=
  let v := if x.2 ≥ bias then x.1 * 2 ^ (x.2 - bias) else rneDiv x.1 (2 ^ (bias - x.2))
  if v ≥ 2147483648 then 2147483648 else v

/-- the 32-bit lane `cvtps_epi32(65280.0 / alpha as f32)`; alpha = 0 divides by zero: +inf -> 0x8000_0000 -/
def recipLane (a : Nat) : Nat := if a = 0 then 2147483648 else cvtpsNonneg (rnd24 65280 a)

/-- a 16-bit pattern as a signed lane -/
def toI16 (x : Nat) : Int := let y := x % 65536; if y < 32768 then y else (y : Int) - 65536

/-- `_mm_mulhrs_epi16` on one lane: `(((a * b) >> 14) + 1) >> 1`, result as a 16-bit pattern -/
def mulhrs (a b : Int) : Nat := ((((a * b) / 16384 + 1) / 2) % 65536).toNat

/-- one colour component through the SIMD divide: component `c`, alpha `a` -/
def simdDiv8 (c a : Nat) : Nat :=
  let recip := toI16 (recipLane a)            -- low 16 bits of the i32 lane (shuffle picks bytes 0, 1)
  let comp : Int := ((c * 128 : Nat) : Int)   -- `_mm_slli_epi16::<7>` of the zero-extended component
  min (mulhrs comp recip) 255                 -- `_mm_min_epu16(.., 0xff)`, then packus (a no-op below 256)

/-! ### the 16-bit lane (src/alpha/u16x2/{sse4,avx2}.rs, u16x4/{sse4,avx2}.rs)

    `cvtps_epi32(min_ps(div_ps(mul_ps(c as f32, 65535.0), a as f32), 65535.0) & (a != 0))`, every
    binary32 operation evaluated exactly with `rnd24` -/

/-- is the non-negative dyadic at least the natural `v` -/
def dyadicGe (x : Nat × Nat) (v : Nat) : Bool :=
  if x.2 ≥ bias then decide (x.1 * 2 ^ (x.2 - bias) ≥ v) else decide (x.1 ≥ v * 2 ^ (bias - x.2))

/-- one colour component through the SIMD 16-bit divide: component `c`, alpha `a` -/
def simdDiv16 (c a : Nat) : Nat :=
  if a = 0 then 0 else
  let s := rnd24 (c * 65535) 1                                     -- `_mm_mul_ps`: one rounding
  let q := if s.2 ≥ bias then rnd24 (s.1 * 2 ^ (s.2 - bias)) a    -- `_mm_div_ps`: one rounding
           else rnd24 s.1 (a * 2 ^ (bias - s.2))
  if dyadicGe q 65535 then 65535                                   -- `_mm_min_ps(.., 65535.0)`
  else cvtpsNonneg q                                               -- `_mm_cvtps_epi32`, then packus (no-op)

end Fir.Simd
