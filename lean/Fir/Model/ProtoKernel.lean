/-
  Fir.Model.ProtoKernel - single convolution passes through the crate-private `Convolution` trait
  (hook wrappers) with arbitrary coefficient sets, every back-end (C02, C03).

  kernel pt=<PT> ext=none|sse4|avx2 pass=h|v sw= sh= dw= dh= offset= ws=<window_size>
         bounds=<start>:<size>,... vals=<f64 hex>,... src=<hex> ref=<hex: portable result> got=<hex: this back-end>
-/
import Fir.Model.Resample
import Fir.Model.ProtoResize
import Fir.Model.ProtoCoeffs
import Fir.Model.SimdU8x4
import Fir.Model.SimdVertU8
import Fir.Model.SimdU8x3
import Fir.Model.SimdVertU16
import Fir.Model.SimdU8x1
import Fir.Model.SimdU8x2
import Fir.Model.SimdU16x1
import Fir.Model.SimdU16x4
import Fir.Model.SimdU16x2
import Fir.Model.SimdU16x3
import Fir.Model.SimdU16x4A
import Fir.Model.SimdU16x2A
import Fir.Model.SimdU16x1A
import Fir.Model.SimdU8x1A
import Fir.Model.SimdU8x2A
namespace Fir

/-- C02 tolerance between two back-ends: integers identical, f32 a few ulps of a re-associated f64 sum -/
def backendsAgree (k : CKind) (mabs : Float) (a b : Array Int) : Option String := Id.run do
  if a.size ≠ b.size then return some "size"
  for i in [0:a.size] do
    let x := a[i]!
    let y := b[i]!
    if x == y then continue
    match k with
    | .f32 =>
      if canonF32 x == canonF32 y then continue
      let fx := f64OfF32Bits x
      let fy := f64OfF32Bits y
      let tol := 4.0 * ulp32 (if fx.abs > fy.abs then x else y) + 1e-7 * mabs
      if (fx - fy).abs ≤ tol then continue
      return some s!"component {i}: {fx} vs {fy}"
    | _ => return some s!"component {i}: {x} vs {y}"
  return none

def handleKernel (fs : List (String × String)) : String :=
  match (getField fs "pt").bind PixT.ofName, getField fs "ext", getField fs "pass", getNat fs "sw", getNat fs "sh", getNat fs "dw", getNat fs "dh",
        getNat fs "offset", getNat fs "ws", getField fs "bounds", getField fs "vals", getField fs "src", getField fs "ref", getField fs "got" with
  | some p, some ext, some pass, some sw, some sh, some dw, some dh, some offset, some ws, some boundsS, some valsS, some srcH, some refH, some gotH =>
    if gotH.startsWith "panic" ∨ refH.startsWith "panic" then s!"SPEC-FAIL kernel panicked: {gotH.take 100} / {refH.take 100}" else
    match parseComps p.kind srcH, parseComps p.kind refH, parseComps p.kind gotH with
    | some src, some ref, some got =>
      let bounds : Array (Nat × Nat) := if boundsS.isEmpty then #[] else
        ((boundsS.splitOn ",").filterMap fun b => match b.splitOn ":" with
          | [a, b] => match a.toNat?, b.toNat? with | some a, some b => some (a, b) | _, _ => none
          | _ => none).toArray
      let vals : Array Float := if valsS.isEmpty then #[] else
        ((valsS.splitOn ",").filterMap fun v => (parseHexNat v).map fun n => Float.ofBits (UInt64.ofNat n)).toArray
      let c : Coeffs := ⟨vals, ws, bounds⟩
      let im : Img := ⟨sw, sh, p.n, src⟩
      let model := if pass == "h" then horizPass p.kind im dw dh offset c else vertPass p.kind im dw dh offset c
      let mabs := if p.kind == .f32 then maxAbsF32 src else 0.0
      -- the model follows the portable accumulation order: exact for ext=none, C02 tolerance otherwise
      let m : Option String :=
        if ext == "none" then (firstDiff (canonComps p.kind model.data) (canonComps p.kind got)).map fun i => s!"component {i}: model={model.data[i]!} got={got[i]!}"
        else backendsAgree p.kind mabs model.data got
      let s := (backendsAgree p.kind mabs ref got).map fun e => s!"{ext} differs from the portable back-end at {e}"
      -- U8x4 on SSE4.1, horizontal pass: the lane-accurate models of both kernels of the pass (registers, shuffle
      -- masks taken from the source) are evaluated here and must give the very bytes the real kernels stored
      let lane : Option String :=
        if p.kind == .u8 ∧ p.n == 4 ∧ (ext == "sse4" ∨ ext == "avx2") ∧ pass == "h" ∧ got.size == dw * dh * 4 then Id.run do
          let q := normalize16 c
          -- AVX2: the four-row blocks keep two rows per 256-bit register (each half = the SSE4.1 row), the leftover rows
          -- go through the AVX2 one-row kernel (wide 8 / 4 steps with two half accumulators)
          for y in [0:dh] do
            let row : List Int := (List.range (sw * 4)).map fun i => src[(offset + y) * sw * 4 + i]!
            for x in [0:dw] do
              let (start, ks) := q.chunks.getD x (0, #[])
              -- rows of complete four-row blocks: `horiz_convolution_four_rows`; leftover rows: `.._one_row`
              let px := if y < dh - dh % 4 then SimdU8x4.pixelR q.precision row start ks.toList
                        else if ext == "sse4" then SimdU8x4.pixel q.precision row start ks.toList
                        else SimdU8x4.pixelA q.precision row start ks.toList
              for ch in [0:4] do
                if px.getD ch 0 ≠ got[(y * dw + x) * 4 + ch]! then
                  return some s!"lane model of the {ext} U8x4 horizontal kernels: pixel ({x},{y}) channel {ch}: model={px.getD ch 0} got={got[(y * dw + x) * 4 + ch]!}"
          return none
        else none
      -- 8-bit components on SSE4.1 / AVX2 (256-bit instructions = two independent 128-bit halves), vertical pass: every destination row is cut into chunks of 32, 8 and (once) 4
      -- components computed by the lane-accurate model, the rest by the portable formula
      let laneV : Option String :=
        if p.kind == .u8 ∧ (ext == "sse4" ∨ ext == "avx2") ∧ pass == "v" ∧ got.size == dw * dh * p.n then Id.run do
          let q := normalize16 c
          let n := p.n
          let rowLen := dw * n
          for y in [0:dh] do
            let (start, ks) := q.chunks.getD y (0, #[])
            let ksl := ks.toList
            let rows : List (List Int) := (List.range ksl.length).map fun r =>
              (List.range (sw * n)).map fun i => src[(start + r) * sw * n + i]!
            let mut xs := offset * n          -- `src_x`
            let mut done := 0                 -- destination components written so far
            let mut outRow : List Int := []
            while rowLen - done ≥ 32 do
              outRow := outRow ++ SimdVertU8.chunk32 q.precision rows ksl xs
              xs := xs + 32
              done := done + 32
            while rowLen - done ≥ 8 do
              outRow := outRow ++ SimdVertU8.chunk8 q.precision rows ksl xs
              xs := xs + 8
              done := done + 8
            if rowLen - done ≥ 4 then
              outRow := outRow ++ SimdVertU8.chunk4 q.precision rows ksl xs
              xs := xs + 4
              done := done + 4
            for j in [0:rowLen - done] do
              outRow := outRow ++ [clip8 (2 ^ (q.precision - 1) + SimdVertU8.dotV rows ksl (xs + j)) q.precision]
            for i in [0:rowLen] do
              if outRow.getD i 0 ≠ got[y * rowLen + i]! then
                return some s!"lane model of the {ext} vertical u8 kernel: row {y} component {i}: model={outRow.getD i 0} got={got[y * rowLen + i]!}"
          return none
        else none
      -- U8x3 on SSE4.1, horizontal pass: four-row blocks and leftover rows, both with width-dependent loop exits
      let lane3 : Option String :=
        if p.kind == .u8 ∧ p.n == 3 ∧ ext == "sse4" ∧ pass == "h" ∧ got.size == dw * dh * 3 then Id.run do
          let q := normalize16 c
          for y in [0:dh] do
            let row : List Int := (List.range (sw * 3)).map fun i => src[(offset + y) * sw * 3 + i]!
            for x in [0:dw] do
              let (start, ks) := q.chunks.getD x (0, #[])
              let px := if y < dh - dh % 4 then SimdU8x3.pixelR q.precision sw row start ks.toList
                        else SimdU8x3.pixel q.precision sw row start ks.toList
              for ch in [0:3] do
                if px.getD ch 0 ≠ got[(y * dw + x) * 3 + ch]! then
                  return some s!"lane model of the SSE4.1 U8x3 horizontal kernels: pixel ({x},{y}) channel {ch}: model={px.getD ch 0} got={got[(y * dw + x) * 3 + ch]!}"
          return none
        else none
      -- 16-bit components on SSE4.1, vertical pass: rows cut into chunks of 16, (once) 8 and (once) 4 components
      let laneV16 : Option String :=
        if p.kind == .u16 ∧ (ext == "sse4" ∨ ext == "avx2") ∧ pass == "v" ∧ got.size == dw * dh * p.n then Id.run do
          let q := normalize32 c
          let n := p.n
          let rowLen := dw * n
          for y in [0:dh] do
            let (start, ks) := q.chunks.getD y (0, #[])
            let ksl := ks.toList
            let rows : List (List Int) := (List.range ksl.length).map fun r =>
              (List.range (sw * n)).map fun i => src[(start + r) * sw * n + i]!
            let mut xs := offset * n
            let mut done := 0
            let mut outRow : List Int := []
            while rowLen - done ≥ 16 do
              outRow := outRow ++ SimdVertU16.chunk16 q.precision rows ksl xs
              xs := xs + 16
              done := done + 16
            if ext == "avx2" ∧ rowLen - done > 0 then
              -- AVX2 tail: the same 16-lane computation on a zero-padded buffer, the first components kept
              outRow := outRow ++ (SimdVertU16.chunk16 q.precision rows ksl xs).take (rowLen - done)
              done := rowLen
            if rowLen - done ≥ 8 then
              outRow := outRow ++ SimdVertU16.block8 q.precision rows ksl xs
              xs := xs + 8
              done := done + 8
            if rowLen - done ≥ 4 then
              outRow := outRow ++ SimdVertU16.chunk4 q.precision rows ksl xs
              xs := xs + 4
              done := done + 4
            for j in [0:rowLen - done] do
              outRow := outRow ++ [clip16 (2 ^ (q.precision - 1) + SimdVertU16.dotV16 rows ksl (xs + j)) q.precision]
            for i in [0:rowLen] do
              if outRow.getD i 0 ≠ got[y * rowLen + i]! then
                return some s!"lane model of the {ext} vertical u16 kernel: row {y} component {i}: model={outRow.getD i 0} got={got[y * rowLen + i]!}"
          return none
        else none
      -- single-channel 8-bit images on SSE4.1, horizontal pass (four-row blocks and leftover rows do the same per row)
      let lane1 : Option String :=
        if p.kind == .u8 ∧ p.n == 1 ∧ ext == "sse4" ∧ pass == "h" ∧ got.size == dw * dh then Id.run do
          let q := normalize16 c
          for y in [0:dh] do
            let row : List Int := (List.range sw).map fun i => src[(offset + y) * sw + i]!
            for x in [0:dw] do
              let (start, ks) := q.chunks.getD x (0, #[])
              let px := SimdU8x1.pixel q.precision row start ks.toList
              if px ≠ got[y * dw + x]! then
                return some s!"lane model of the SSE4.1 U8 horizontal kernels: pixel ({x},{y}): model={px} got={got[y * dw + x]!}"
          return none
        else none
      -- two-channel 8-bit images on SSE4.1, horizontal pass: two partial sums per channel joined by a saturating addition
      let lane2 : Option String :=
        if p.kind == .u8 ∧ p.n == 2 ∧ (ext == "sse4" ∨ ext == "avx2") ∧ pass == "h" ∧ got.size == dw * dh * 2 then Id.run do
          let q := normalize16 c
          -- AVX2: rows of four-row blocks keep two rows per register (each half = the SSE4.1 row); leftover rows go through `pixelA`
          for y in [0:dh] do
            let row : List Int := (List.range (sw * 2)).map fun i => src[(offset + y) * sw * 2 + i]!
            for x in [0:dw] do
              let (start, ks) := q.chunks.getD x (0, #[])
              let px := if y < dh - dh % 4 then SimdU8x2.pixelR q.precision row start ks.toList
                        else if ext == "avx2" then SimdU8x2A.pixelA q.precision row start ks.toList
                        else SimdU8x2.pixel q.precision row start ks.toList
              for ch in [0:2] do
                if px.getD ch 0 ≠ got[(y * dw + x) * 2 + ch]! then
                  return some s!"lane model of the {ext} U8x2 horizontal kernels: pixel ({x},{y}) channel {ch}: model={px.getD ch 0} got={got[(y * dw + x) * 2 + ch]!}"
          return none
        else none
      -- single-channel 16-bit images on SSE4.1, horizontal pass (four-row blocks and leftover rows do the same per row)
      let lane16 : Option String :=
        if p.kind == .u16 ∧ p.n == 1 ∧ ext == "sse4" ∧ pass == "h" ∧ got.size == dw * dh then Id.run do
          let q := normalize32 c
          for y in [0:dh] do
            let row : List Int := (List.range sw).map fun i => src[(offset + y) * sw + i]!
            for x in [0:dw] do
              let (start, ks) := q.chunks.getD x (0, #[])
              let px := SimdU16x1.pixel q.precision row start ks.toList
              if px ≠ got[y * dw + x]! then
                return some s!"lane model of the SSE4.1 U16 horizontal kernels: pixel ({x},{y}): model={px} got={got[y * dw + x]!}"
          return none
        else none
      -- RGBA16 on SSE4.1, horizontal pass (four-row blocks and leftover rows do the same per row)
      let lane164 : Option String :=
        if p.kind == .u16 ∧ p.n == 4 ∧ ext == "sse4" ∧ pass == "h" ∧ got.size == dw * dh * 4 then Id.run do
          let q := normalize32 c
          for y in [0:dh] do
            let row : List Int := (List.range (sw * 4)).map fun i => src[(offset + y) * sw * 4 + i]!
            for x in [0:dw] do
              let (start, ks) := q.chunks.getD x (0, #[])
              let px := SimdU16x4.pixel q.precision row start ks.toList
              for ch in [0:4] do
                if px.getD ch 0 ≠ got[(y * dw + x) * 4 + ch]! then
                  return some s!"lane model of the SSE4.1 U16x4 horizontal kernels: pixel ({x},{y}) channel {ch}: model={px.getD ch 0} got={got[(y * dw + x) * 4 + ch]!}"
          return none
        else none
      -- LA16 on SSE4.1, horizontal pass
      let lane162 : Option String :=
        if p.kind == .u16 ∧ p.n == 2 ∧ ext == "sse4" ∧ pass == "h" ∧ got.size == dw * dh * 2 then Id.run do
          let q := normalize32 c
          for y in [0:dh] do
            let row : List Int := (List.range (sw * 2)).map fun i => src[(offset + y) * sw * 2 + i]!
            for x in [0:dw] do
              let (start, ks) := q.chunks.getD x (0, #[])
              let px := SimdU16x2.pixel q.precision row start ks.toList
              for ch in [0:2] do
                if px.getD ch 0 ≠ got[(y * dw + x) * 2 + ch]! then
                  return some s!"lane model of the SSE4.1 U16x2 horizontal kernels: pixel ({x},{y}) channel {ch}: model={px.getD ch 0} got={got[(y * dw + x) * 2 + ch]!}"
          return none
        else none
      -- RGB16 on SSE4.1, horizontal pass: four-row blocks (`pixelR`) and leftover rows (`pixel`), width-dependent pair loop
      let lane163 : Option String :=
        if p.kind == .u16 ∧ p.n == 3 ∧ ext == "sse4" ∧ pass == "h" ∧ got.size == dw * dh * 3 then Id.run do
          let q := normalize32 c
          for y in [0:dh] do
            let row : List Int := (List.range (sw * 3)).map fun i => src[(offset + y) * sw * 3 + i]!
            for x in [0:dw] do
              let (start, ks) := q.chunks.getD x (0, #[])
              let px := if y < dh - dh % 4 then SimdU16x3.pixelR q.precision sw row start ks.toList
                        else SimdU16x3.pixel q.precision sw row start ks.toList
              for ch in [0:3] do
                if px.getD ch 0 ≠ got[(y * dw + x) * 3 + ch]! then
                  return some s!"lane model of the SSE4.1 U16x3 horizontal kernels: pixel ({x},{y}) channel {ch}: model={px.getD ch 0} got={got[(y * dw + x) * 3 + ch]!}"
          return none
        else none
      -- RGBA16 on AVX2, horizontal pass: four-row blocks keep two rows per 256-bit register (each half = the SSE4.1 row),
      -- leftover rows go through the AVX2 one-row kernel (two half accumulators joined at the end)
      let lane164a : Option String :=
        if p.kind == .u16 ∧ p.n == 4 ∧ ext == "avx2" ∧ pass == "h" ∧ got.size == dw * dh * 4 then Id.run do
          let q := normalize32 c
          for y in [0:dh] do
            let row : List Int := (List.range (sw * 4)).map fun i => src[(offset + y) * sw * 4 + i]!
            for x in [0:dw] do
              let (start, ks) := q.chunks.getD x (0, #[])
              let px := if y < dh - dh % 4 then SimdU16x4.pixel q.precision row start ks.toList
                        else SimdU16x4A.pixelA q.precision row start ks.toList
              for ch in [0:4] do
                if px.getD ch 0 ≠ got[(y * dw + x) * 4 + ch]! then
                  return some s!"lane model of the AVX2 U16x4 horizontal kernels: pixel ({x},{y}) channel {ch}: model={px.getD ch 0} got={got[(y * dw + x) * 4 + ch]!}"
          return none
        else none
      -- LA16 on AVX2, horizontal pass: four-row blocks by halves (= the SSE4.1 row), leftover rows through the AVX2 one-row kernel
      let lane162a : Option String :=
        if p.kind == .u16 ∧ p.n == 2 ∧ ext == "avx2" ∧ pass == "h" ∧ got.size == dw * dh * 2 then Id.run do
          let q := normalize32 c
          for y in [0:dh] do
            let row : List Int := (List.range (sw * 2)).map fun i => src[(offset + y) * sw * 2 + i]!
            for x in [0:dw] do
              let (start, ks) := q.chunks.getD x (0, #[])
              let px := if y < dh - dh % 4 then SimdU16x2.pixel q.precision row start ks.toList
                        else SimdU16x2A.pixelA q.precision row start ks.toList
              for ch in [0:2] do
                if px.getD ch 0 ≠ got[(y * dw + x) * 2 + ch]! then
                  return some s!"lane model of the AVX2 U16x2 horizontal kernels: pixel ({x},{y}) channel {ch}: model={px.getD ch 0} got={got[(y * dw + x) * 2 + ch]!}"
          return none
        else none
      -- U16 on AVX2, horizontal pass: four-row blocks by halves (= the SSE4.1 row), leftover rows through the AVX2 one-row kernel
      let lane161a : Option String :=
        if p.kind == .u16 ∧ p.n == 1 ∧ ext == "avx2" ∧ pass == "h" ∧ got.size == dw * dh then Id.run do
          let q := normalize32 c
          for y in [0:dh] do
            let row : List Int := (List.range sw).map fun i => src[(offset + y) * sw + i]!
            for x in [0:dw] do
              let (start, ks) := q.chunks.getD x (0, #[])
              let px := if y < dh - dh % 4 then SimdU16x1.pixel q.precision row start ks.toList
                        else SimdU16x1A.pixelA q.precision row start ks.toList
              if px ≠ got[y * dw + x]! then
                return some s!"lane model of the AVX2 U16 horizontal kernels: pixel ({x},{y}): model={px} got={got[y * dw + x]!}"
          return none
        else none
      -- single-channel 8-bit images on AVX2, horizontal pass (four-row blocks and leftover rows do the same per row)
      let lane1a : Option String :=
        if p.kind == .u8 ∧ p.n == 1 ∧ ext == "avx2" ∧ pass == "h" ∧ got.size == dw * dh then Id.run do
          let q := normalize16 c
          for y in [0:dh] do
            let row : List Int := (List.range sw).map fun i => src[(offset + y) * sw + i]!
            for x in [0:dw] do
              let (start, ks) := q.chunks.getD x (0, #[])
              let px := SimdU8x1A.pixelA q.precision row start ks.toList
              if px ≠ got[y * dw + x]! then
                return some s!"lane model of the AVX2 U8 horizontal kernels: pixel ({x},{y}): model={px} got={got[y * dw + x]!}"
          return none
        else none
      let lane161a := match lane161a with | some e => some e | none => lane1a
      let lane162a := match lane162a with | some e => some e | none => lane161a
      let lane164a := match lane164a with | some e => some e | none => lane162a
      let lane163 := match lane163 with | some e => some e | none => lane164a
      let lane162 := match lane162 with | some e => some e | none => lane163
      let lane164 := match lane164 with | some e => some e | none => lane162
      let lane16 := match lane16 with | some e => some e | none => lane164
      let lane2 := match lane2 with | some e => some e | none => lane16
      let lane1 := match lane1 with | some e => some e | none => lane2
      let lane := match lane, laneV, lane3, laneV16, lane1 with
        | some a, _, _, _, _ => some a
        | none, some b, _, _, _ => some b
        | none, none, some c, _, _ => some c
        | none, none, none, some d, _ => some d
        | none, none, none, none, e => e
      let m := match m, lane with
        | some a, _ => some a
        | none, some b => some b
        | none, none => none
      match m, s with
      | none, none => "OK"
      | some m, none => "MODEL-DIFF " ++ m
      | none, some s => "SPEC-FAIL " ++ s
      | some m, some s => "MODEL-DIFF " ++ m ++ " ; SPEC-FAIL " ++ s
    | _, _, _ => "BAD-REQUEST hex"
  | _, _, _, _, _, _, _, _, _, _, _, _, _, _ => "BAD-REQUEST fields"

end Fir
