/-
  Fir.Model.SimdVertU16 - lane-accurate model of the SSE4.1 vertical pass for 16-bit components
  (`vert_convolution_into_one_row_u16` of src/convolution/vertical_u16/sse4.rs, shared by U16, U16x2, U16x3, U16x4):
  components are moved into the low halves of 64-bit lanes with `_mm_shuffle_epi8` (masks `c_shuffles[0..3]`, from
  the source), multiplied with the `i32` coefficient by `_mm_mul_epi32` (signed 32 x 32 -> 64) and accumulated with
  `_mm_add_epi64`; the results go through the portable `Normalizer32::clip` (the translated `Fir.Gen.clip32`).
  Steps of 8 components (four accumulators of two lanes) and of 4 components (`_mm_set_epi64x`, two accumulators);
  the 16-component step is two 8-component blocks.
-/
import Fir.Model.SimdU8x4
import Fir.Generated.Clip
namespace Fir.SimdVertU16
open Fir.Gen Fir.SimdU8x4

abbrev wrap64 (x : Int) : Int := wrapInt 64 x

/-- the low 32 bits of a 64-bit lane (4 bytes) as a signed integer -/
def s32 (b0 b1 b2 b3 : Int) : Int :=
  let v := b0 + 256 * b1 + 65536 * b2 + 16777216 * b3
  if v < 2147483648 then v else v - 4294967296

/-- `_mm_mul_epi32(a, set1_epi64x(k as i64))`: per 64-bit lane, signed low halves multiplied -/
def mulEpi32 (a : List Int) (k : Int) : List Int :=
  (List.range 2).map fun j => wrap64 (s32 (a.getD (8 * j) 0) (a.getD (8 * j + 1) 0) (a.getD (8 * j + 2) 0) (a.getD (8 * j + 3) 0) * wrap32 k)

/-- `_mm_add_epi64` -/
def add64 (a b : List Int) : List Int := List.zipWith (fun x y => wrap64 (x + y)) a b

/-- `loadu_si128(components, x)`: 8 components of 16 bits, little endian -/
def load8 (row : List Int) (x : Nat) : List Int :=
  (List.range 8).flatMap fun i => [row.getD (x + i) 0 % 256, (row.getD (x + i) 0 / 256) % 256]

/-- one source row into the four accumulators of an 8-component block -/
def row8 (s : List (List Int)) (row : List Int) (x : Nat) (k : Int) : List (List Int) :=
  let source := load8 row x
  [add64 (s.getD 0 []) (mulEpi32 (pshufb source vert_u16_sse4_sh0) k), add64 (s.getD 1 []) (mulEpi32 (pshufb source vert_u16_sse4_sh1) k),
   add64 (s.getD 2 []) (mulEpi32 (pshufb source vert_u16_sse4_sh2) k), add64 (s.getD 3 []) (mulEpi32 (pshufb source vert_u16_sse4_sh3) k)]

/-- rows two at a time (`iter_2_rows` zipped with coefficient pairs), then an odd last row -/
def loop8 (x : Nat) : List (List Int) → List Int → List (List Int) → List (List Int)
  | rA :: rB :: rows, k0 :: k1 :: ks, s => loop8 x rows ks (row8 (row8 s rA x k0) rB x k1)
  | r :: _, [k], s => row8 s r x k
  | _, _, s => s

/-- one 8-component destination block: every lane through `Normalizer32::clip` -/
def block8 (p : Nat) (rows : List (List Int)) (ks : List Int) (x : Nat) : List Int :=
  let i := wrap64 (2 ^ (p - 1))
  ((loop8 x rows ks [[i, i], [i, i], [i, i], [i, i]]).flatten).map fun v => (clip32 v p : Int)

/-- the 16-component step: `sums[i][0]` is the block at `src_x`, `sums[i][1]` the block at `src_x + 8` -/
def chunk16 (p : Nat) (rows : List (List Int)) (ks : List Int) (x : Nat) : List Int :=
  block8 p rows ks x ++ block8 p rows ks (x + 8)

/-! ### 4 components: `_mm_set_epi64x(comp[1] as i64, comp[0] as i64)` -/

def row4 (s : List (List Int)) (row : List Int) (x : Nat) (k : Int) : List (List Int) :=
  let c := fun i => row.getD (x + i) 0 % 65536
  [List.zipWith (fun a b => wrap64 (a + wrap64 (b * wrap32 k))) (s.getD 0 []) [c 0, c 1],
   List.zipWith (fun a b => wrap64 (a + wrap64 (b * wrap32 k))) (s.getD 1 []) [c 2, c 3]]

def loop4 (x : Nat) : List (List Int) → List Int → List (List Int) → List (List Int)
  | rA :: rB :: rows, k0 :: k1 :: ks, s => loop4 x rows ks (row4 (row4 s rA x k0) rB x k1)
  | r :: _, [k], s => row4 s r x k
  | _, _, s => s

def chunk4 (p : Nat) (rows : List (List Int)) (ks : List Int) (x : Nat) : List Int :=
  let i := wrap64 (2 ^ (p - 1))
  ((loop4 x rows ks [[i, i], [i, i]]).flatten).map fun v => (clip32 v p : Int)

/-- what the portable kernel accumulates for component `x` -/
def dotV16 : List (List Int) → List Int → Nat → Int
  | r :: rows, k :: ks, x => r.getD x 0 % 65536 * wrap32 k + dotV16 rows ks x
  | _, _, _ => 0

end Fir.SimdVertU16
