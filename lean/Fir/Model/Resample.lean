/-
  Fir.Model.Resample - the convolution passes (src/convolution/*/native.rs, vertical_*/native.rs),
  nearest-neighbour resampling and copying (src/resizer.rs) on logical images.

  Integer passes use the *translated* clip functions (Fir.Gen.clip8_table ∘ clip16_index, clip32).
-/
import Fir.Model.Basic
import Fir.Model.Alpha
import Fir.Model.Filters
import Fir.Generated.Clip
namespace Fir

/-- a logical image: `w x h` pixels of `n` components, row-major; components as in Fir.Model.Basic -/
structure Img where
  w : Nat
  h : Nat
  n : Nat
  data : Array Int
  deriving Inhabited

def Img.get (im : Img) (x y c : Nat) : Int := im.data[(y * im.w + x) * im.n + c]!

def Img.fill (w h n : Nat) (v : Int) : Img := ⟨w, h, n, Array.replicate (w * h * n) v⟩

/-- `Normalizer16::clip` through the translated index expression and table -/
def clip8 (v : Int) (precision : Nat) : Int :=
  (Gen.clip8_table (Gen.clip16_index (Gen.wrapInt 32 v) precision) : Int)

def clip16 (v : Int) (precision : Nat) : Int := (Gen.clip32 (Gen.wrapInt 64 v) precision : Int)

def f64OfF32Bits (b : Int) : Float := (f32OfBits b).toFloat
def f32BitsOfF64 (x : Float) : Int := bitsOfF32 x.toFloat32


/-- sequential f64 dot product `ss += px as f64 * k` in the order of the native kernels -/
def dotFloat (k : CKind) (ks : Array Float) (px : Nat → Int) : Float := Id.run do
  let mut ss : Float := 0.0
  for i in [0:ks.size] do
    let v := match k with
      | .f32 => f64OfF32Bits (px i)
      | _ => Float.ofInt (px i)
    ss := ss + v * ks[i]!
  return ss

def finishFloat (k : CKind) (ss : Float) : Int :=
  match k with
  | .f32 => f32BitsOfF64 ss
  | _ => ss.round.toInt32.toInt

/-- exact integer dot product `Σ kᵢ·xᵢ` over the common prefix of the two lists -/
def dotL (ks xs : List Int) : Int := (List.zipWith (· * ·) ks xs).sum

/-- the window of source samples a kernel reads -/
def window (n : Nat) (px : Nat → Int) : List Int := (List.range n).map px

def dotInt (ks : Array Int) (px : Nat → Int) : Int := dotL ks.toList (window ks.size px)

/-- one destination component of an 8/16-bit pass: fixed-point dot product, rounding constant, shift,
    clip - exactly the arithmetic of the native kernels -/
def passInt (k : CKind) (ks xs : List Int) (precision : Nat) : Int :=
  match k with
  | .u8 => clip8 (2 ^ (precision - 1) + dotL ks xs) precision
  | _ => clip16 (2 ^ (precision - 1) + dotL ks xs) precision

/-- quantised or floating coefficients of one pass, prepared once -/
structure PassCoeffs where
  q : QCoeffs
  fc : Array (Nat × Array Float)

def prepare (k : CKind) (c : Coeffs) : PassCoeffs :=
  match k with
  | .u8 => ⟨normalize16 c, #[]⟩
  | .u16 => ⟨normalize32 c, #[]⟩
  | _ => ⟨⟨0, #[]⟩, floatChunks c⟩

/-- one destination component: window `w` of the prepared coefficients applied to the samples `px 0, px 1, ...` -/
def passComp (k : CKind) (pc : PassCoeffs) (w : Nat) (px : Nat → Nat → Int) : Int :=
  match k with
  | .u8 | .u16 =>
    let (start, ks) := pc.q.chunks.getD w (0, #[])
    passInt k ks.toList (window ks.size (px start)) pc.q.precision
  | _ =>
    let (start, ks) := pc.fc.getD w (0, #[])
    finishFloat k (dotFloat k ks (px start))

/-- horizontal pass: destination pixel (x, y) is window `x` applied along source row `offset + y` -/
def horizPass (k : CKind) (src : Img) (dstW dstH offset : Nat) (c : Coeffs) : Img :=
  let pc := prepare k c
  ⟨dstW, dstH, src.n, Array.ofFn (n := dstW * dstH * src.n) fun i =>
    let ch := i.val % src.n
    let p := i.val / src.n
    passComp k pc (p % dstW) fun start j => src.get (start + j) (offset + p / dstW) ch⟩

/-- vertical pass: destination pixel (x, y) is window `y` applied along source column `offset + x` -/
def vertPass (k : CKind) (src : Img) (dstW dstH offset : Nat) (c : Coeffs) : Img :=
  let pc := prepare k c
  ⟨dstW, dstH, src.n, Array.ofFn (n := dstW * dstH * src.n) fun i =>
    let ch := i.val % src.n
    let p := i.val / src.n
    passComp k pc (p / dstW) fun start j => src.get (offset + p % dstW) (start + j) ch⟩

/-- `y_in_start`, then `y += y_scale` once per destination row (the accumulation of the real loop) -/
def stepPos (start step : Float) : Nat → Float
  | 0 => start
  | k + 1 => stepPos start step k + step

/-- source column of destination column `x` (`x_in_tab`, clamped to the last column) -/
def nearestCol (srcW : Nat) (xInStart xScale : Float) (x : Nat) : Nat :=
  min (xInStart + xScale * Float.ofNat x).toUSize.toNat (srcW - 1)

/-- source row of destination row `y` (clamped to the last row) -/
def nearestRow (srcH : Nat) (yInStart yScale : Float) (y : Nat) : Nat :=
  min (stepPos yInStart yScale y).toUSize.toNat (srcH - 1)

/-- `resample_nearest`: every destination pixel is a copy of the source pixel in column
    `nearestCol x`, row `nearestRow y`; nothing is computed from the values -/
def nearestPass (src : Img) (cl ct cw ch : Float) (prev : Img) : Img :=
  let dstW := prev.w
  let dstH := prev.h
  if dstW = 0 ∨ dstH = 0 ∨ cw ≤ 0.0 ∨ ch ≤ 0.0 ∨ src.h = 0 then prev else
  let xScale := cw / Float.ofNat dstW
  let yScale := ch / Float.ofNat dstH
  let xInStart := cl + xScale * 0.5
  let yInStart := ct + yScale * 0.5
  ⟨dstW, dstH, src.n, Array.ofFn (n := dstW * dstH * src.n) fun i =>
    let c := i.val % src.n
    let p := i.val / src.n
    src.get (nearestCol src.w xInStart xScale (p % dstW)) (nearestRow src.h yInStart yScale (p / dstW)) c⟩

/-- `copy_image` for an integer-aligned crop box of the destination's size -/
def copyPass (src : Img) (left top : Nat) (dstW dstH : Nat) : Img :=
  ⟨dstW, dstH, src.n, Array.ofFn (n := dstW * dstH * src.n) fun i =>
    let c := i.val % src.n
    let p := i.val / src.n
    src.get (left + p % dstW) (top + p / dstW) c⟩

end Fir
