/-
  Fir.Model.ProtoView - line-protocol handlers for views and splitting (C14; used by C04, C05, C13).

  split  view=<shape> axis=h|w start=S size=N parts=K mut=0|1 got=none|<part>|<part>... [buf=i,i,...]
  split2 view=<shape> axis1= start1= size1= parts1= which= axis2= start2= size2= parts2= got=...
  <shape> ::= T(off,w,h,len) | C(<shape>,l,t,w,h)       <part> ::= WxH:i,i,i/i,i,i/...
-/
import Fir.Model.Basic
import Fir.Model.View
namespace Fir

/-! ### shape parser -/

partial def parseShapeAux (cs : List Char) : Option (View × List Char) :=
  let rec num (cs : List Char) (acc : Nat) (seen : Bool) : Option (Nat × List Char) :=
    match cs with
    | c :: rest => if c.isDigit then num rest (acc * 10 + (c.toNat - '0'.toNat)) true
                   else if seen then some (acc, cs) else none
    | [] => if seen then some (acc, []) else none
  let comma (cs : List Char) : Option (List Char) := match cs with | ',' :: r => some r | _ => none
  match cs with
  | 'T' :: '(' :: r =>
    match num r 0 false with
    | some (off, r) => match comma r >>= (num · 0 false) with
      | some (w, r) => match comma r >>= (num · 0 false) with
        | some (h, r) => match comma r >>= (num · 0 false) with
          | some (len, ')' :: r) => some (View.typed off w h len, r)
          | _ => none
        | none => none
      | none => none
    | none => none
  | 'C' :: '(' :: r =>
    match parseShapeAux r with
    | some (inner, r) => match comma r >>= (num · 0 false) with
      | some (l, r) => match comma r >>= (num · 0 false) with
        | some (t, r) => match comma r >>= (num · 0 false) with
          | some (w, r) => match comma r >>= (num · 0 false) with
            | some (h, ')' :: r) => some (View.crop inner l t w h, r)
            | _ => none
          | none => none
        | none => none
      | none => none
    | none => none
  | _ => none

def parseShape (s : String) : Option View :=
  match parseShapeAux s.toList with
  | some (v, []) => some v
  | _ => none

/-! ### formatting like the harness -/

def rowsDesc (v : View) : String :=
  let rs := (v.rows 0).map fun r => ",".intercalate (r.map toString)
  s!"{v.width}x{v.height}:" ++ "/".intercalate rs

def partsDesc : Option (List View) → String
  | none => "none"
  | some ps => "|".intercalate (ps.map rowsDesc)

def splitAxis (v : View) (axis : String) (start n k : Nat) : Option (List View) :=
  if axis == "h" then v.splitH start n k else v.splitW start n k

/-! ### the specification of a split, judged on what the implementation returned -/

structure GotPart where
  w : Nat
  h : Nat
  rows : List (List Nat)

def parseGotPart (s : String) : Option GotPart :=
  match s.splitOn ":" with
  | [dims, body] =>
    match dims.splitOn "x" with
    | [ws, hs] =>
      match ws.toNat?, hs.toNat? with
      | some w, some h =>
        let rows := if body.isEmpty then [] else (body.splitOn "/").map fun r =>
          if r.isEmpty then [] else (r.splitOn ",").filterMap String.toNat?
        some ⟨w, h, rows⟩
      | _, _ => none
    | _ => none
  | _ => none

/-- the band `[start, start+n)` of view `v` along `axis`, as rows of buffer indices -/
def bandRows (v : View) (axis : String) (start n : Nat) : List (List Nat) :=
  if axis == "h" then (v.rows start).take n
  else (v.rows 0).map fun r => (r.drop start).take n

def splitSpecCheck (v : View) (axis : String) (start n k : Nat) (got : String) : Option String :=
  let extent := if axis == "h" then v.height else v.width
  let valid := 1 ≤ k ∧ k ≤ n ∧ n ≤ extent ∧ start + n ≤ extent
  if got == "none" then (if valid then some "returned None for a valid request" else none)
  else if ¬ valid then some "returned parts for an invalid request"
  else
    match (got.splitOn "|").mapM parseGotPart with
    | none => some "unparsable parts"
    | some ps =>
      if ps.length ≠ k then some s!"{ps.length} parts instead of {k}" else
      let sizes := ps.map fun p => if axis == "h" then p.h else p.w
      let mx := sizes.foldl max 0
      let mn := sizes.foldl min mx
      if mx - mn > 1 then some "part sizes differ by more than one" else
      if sizes.foldl (· + ·) 0 ≠ n then some "part sizes do not sum to the requested size" else
      if ps.any (fun p => (p.rows.length ≠ p.h ∧ p.w ≠ 0) ∨ p.rows.any (·.length ≠ p.w)) then some "a part exposes rows that are not exactly its width/height" else
      let band := bandRows v axis start n
      let glued : List (List Nat) :=
        if axis == "h" then (ps.map (·.rows)).flatten
        else (List.range v.height).map fun r => (ps.map fun p => p.rows.getD r []).flatten
      if glued ≠ band then some "parts do not tile the requested band exactly once, in order" else none

/-- expected buffer after writing `1000*(i+1)` on top of every pixel of part `i` -/
def expectedBuf (len : Nat) (parts : Option (List View)) : List Int :=
  let base : Array Int := Array.ofFn (n := len) fun i => (i.val : Int)
  match parts with
  | none => base.toList
  | some ps =>
    let (buf, _) := ps.foldl (fun (acc : Array Int × Nat) p =>
      let (b, i) := acc
      let idxs := (p.rows 0).flatten
      (idxs.foldl (fun b j => b.modify j (· + 1000 * ((i : Int) + 1))) b, i + 1)) (base, 0)
    buf.toList

def handleSplit (fs : List (String × String)) : String :=
  match (getField fs "view").bind parseShape, getField fs "axis", getNat fs "start", getNat fs "size", getNat fs "parts", getField fs "got" with
  | some v, some axis, some start, some n, some k, some got =>
    let parts := splitAxis v axis start n k
    let model := partsDesc parts
    let bufMsg : Option String :=
      match getField fs "buf" with
      | none => none
      | some b =>
        let gotBuf := (b.splitOn ",").filterMap String.toInt?
        let exp := expectedBuf gotBuf.length parts
        if gotBuf == exp then none else some "buffer after writing through the parts differs"
    let m : Option String := if model == got then bufMsg else some s!"model={model}"
    let specBuf : Option String :=
      match getField fs "buf", (if got == "none" then some [] else (got.splitOn "|").mapM parseGotPart) with
      | some b, some ps =>
        -- every pixel of the buffer was written at most once and only inside some part
        let gotBuf := (b.splitOn ",").filterMap String.toInt?
        let bad := (List.range gotBuf.length).find? fun i =>
          let x := gotBuf.getD i 0
          let cnt := (ps.filter fun p => p.rows.any (·.contains i)).length
          let idx := ps.findIdx fun p => p.rows.any (·.contains i)
          if cnt = 0 then x != (i : Int) else cnt != 1 || x != (i : Int) + 1000 * ((idx : Int) + 1)
        bad.map fun i => s!"mutable parts alias or leak at buffer index {i}"
      | _, _ => none
    let s := match splitSpecCheck v axis start n k got with
      | some e => some e
      | none => specBuf
    match m, s with
    | none, none => "OK"
    | some m, none => "MODEL-DIFF " ++ m
    | none, some s => "SPEC-FAIL " ++ s
    | some m, some s => "MODEL-DIFF " ++ m ++ " ; SPEC-FAIL " ++ s
  | _, _, _, _, _, _ => "BAD-REQUEST fields"

def handleSplit2 (fs : List (String × String)) : String :=
  match (getField fs "view").bind parseShape, getField fs "axis1", getNat fs "start1", getNat fs "size1", getNat fs "parts1",
        getNat fs "which", getField fs "axis2", getNat fs "start2", getNat fs "size2", getNat fs "parts2", getField fs "got" with
  | some v, some a1, some s1, some n1, some k1, some which, some a2, some s2, some n2, some k2, some got =>
    match splitAxis v a1 s1 n1 k1 with
    | none => "MODEL-DIFF first split is None in the model"
    | some ps =>
      match ps[which]? with
      | none => "MODEL-DIFF part index"
      | some p =>
        let model := partsDesc (splitAxis p a2 s2 n2 k2)
        let m : Option String := if model == got then none else some s!"model={model}"
        let s := splitSpecCheck p a2 s2 n2 k2 got
        match m, s with
        | none, none => "OK"
        | some m, none => "MODEL-DIFF " ++ m
        | none, some s => "SPEC-FAIL " ++ s
        | some m, some s => "MODEL-DIFF " ++ m ++ " ; SPEC-FAIL " ++ s
  | _, _, _, _, _, _, _, _, _, _, _ => "BAD-REQUEST fields"

end Fir
