/-
  Fir.Model.ProtoThreads - line-protocol handlers for C08.

  maxparts w= h= got=<hparts>,<vparts>|panic:...      band-count arithmetic through the hook
  threads  kind= pt= src= dst= alg= alpha= threads=N outcome=ok|panic:.. equal=0|1
           (the harness compared the bytes produced under a pool of N threads, three times, with the
            bytes produced under a pool of one thread - the sequential path)
-/
import Fir.Model.Basic
import Fir.Generated.Threading
namespace Fir

def handleMaxParts (fs : List (String × String)) : String :=
  match getNat fs "w", getNat fs "h", getField fs "got" with
  | some w, some h, some got =>
    let mh := Gen.calculate_max_h_parts_number w h
    let mv := Gen.calculate_max_v_parts_number w h
    let ok := decide (Gen.calculate_max_h_parts_number_ok w h) && decide (Gen.calculate_max_v_parts_number_ok w h)
    let model := if ok then s!"{mh},{mv}" else "panic"
    -- specification: never panics; a band count that is used for splitting (> 1) never exceeds the extent
    let specOk := match got.splitOn "," with
      | [a, b] => match a.toNat?, b.toNat? with
        | some a, some b => (a ≤ 1 || a ≤ h) && (b ≤ 1 || b ≤ w)
        | _, _ => false
      | _ => false
    let m : Option String := if model == got then none else some s!"model={model} got={got}"
    let s : Option String := if specOk then none else some s!"band count for {w}x{h}: {got}"
    match m, s with
    | none, none => "OK"
    | some m, none => "MODEL-DIFF " ++ m
    | none, some s => "SPEC-FAIL " ++ s
    | some m, some s => "MODEL-DIFF " ++ m ++ " ; SPEC-FAIL " ++ s
  | _, _, _ => "BAD-REQUEST fields"

def handleThreads (fs : List (String × String)) : String :=
  match getField fs "outcome", getField fs "equal", getField fs "threads", getField fs "kind" with
  | some outcome, some equal, some t, some kind =>
    if outcome == "ok" ∧ equal == "1" then "OK"
    else if outcome != "ok" then s!"SPEC-FAIL {kind} under {t} threads: {outcome}"
    else s!"SPEC-FAIL {kind} under {t} threads differs from the single-threaded result"
  | _, _, _, _ => "BAD-REQUEST fields"

end Fir
