/-
  Fir.Model.SimdU16x1A - lane-accurate model of the AVX2 one-row horizontal kernel for single-channel 16-bit images
  (`horiz_convolution_one_row` of src/convolution/u16x1/avx2.rs).  A 256-bit register is a pair of 128-bit halves on which every
  instruction used acts independently; each half is an SSE-shaped pair of 64-bit lanes.  A 16-step puts pixels 0..7 into the
  low half and 8..15 into the high half, an 8-step four pixels per half, a 4-step two pixels per half, a 2-step two pixels into the
  low half only, the last coefficient one pixel into lane 0; `ll_buf.iter().sum::<i64>() + half_error` joins the four lanes.
  The remainder patterns (fewer than 16 coefficients: at most one step of each size 8, 4, 2, 1) are written out case by case.
  The AVX2 four-row kernel keeps two rows per register with the SSE4.1 instructions per half (masks proved equal by halves in
  Fir.C02): each of its rows is `Fir.SimdU16x1.pixel`.
-/
import Fir.Model.SimdU16x1
namespace Fir.SimdU16x1A
open Fir.Gen Fir.SimdU8x4 Fir.SimdVertU16 Fir.SimdU16x1

def g8 (m01 m23 m45 m67 : List Int) (s src : List Int) (k : List Int) : List Int :=
  add64 (add64 (add64 (add64 s (mul2 (pshufb src m01) (k.getD 0 0) (k.getD 1 0))) (mul2 (pshufb src m23) (k.getD 2 0) (k.getD 3 0)))
    (mul2 (pshufb src m45) (k.getD 4 0) (k.getD 5 0))) (mul2 (pshufb src m67) (k.getD 6 0) (k.getD 7 0))

def g4 (m01 m23 : List Int) (s src : List Int) (k : List Int) : List Int :=
  add64 (add64 s (mul2 (pshufb src m01) (k.getD 0 0) (k.getD 1 0))) (mul2 (pshufb src m23) (k.getD 2 0) (k.getD 3 0))

def g2 (m01 : List Int) (s src : List Int) (k : List Int) : List Int :=
  add64 s (mul2 (pshufb src m01) (k.getD 0 0) (k.getD 1 0))

abbrev St2 := List Int × List Int
def zeros : List Int := List.replicate 16 0

def acc16A (s : St2) (row : List Int) (x : Nat) (k : List Int) : St2 :=
  (g8 u16x1_avx2_one_l01_lo u16x1_avx2_one_l23_lo u16x1_avx2_one_l45_lo u16x1_avx2_one_l67_lo s.1 (src16 row x 8) (k.take 8),
   g8 u16x1_avx2_one_l01_hi u16x1_avx2_one_l23_hi u16x1_avx2_one_l45_hi u16x1_avx2_one_l67_hi s.2 (src16 row (x + 8) 8) (k.drop 8))

def acc8A (s : St2) (row : List Int) (x : Nat) (k : List Int) : St2 :=
  (g4 u16x1_avx2_one_l01_lo u16x1_avx2_one_l23_lo s.1 (src16 row x 4) (k.take 4),
   g4 u16x1_avx2_one_l01_hi u16x1_avx2_one_l23_hi s.2 (src16 row (x + 4) 4) (k.drop 4))

def acc4A (s : St2) (row : List Int) (x : Nat) (k : List Int) : St2 :=
  (g2 u16x1_avx2_one_l01_lo s.1 (src16 row x 2) (k.take 2), g2 u16x1_avx2_one_l01_hi s.2 (src16 row (x + 2) 2) (k.drop 2))

/-- `_mm256_set_m128i(_mm_setzero_si128(), loadl_epi32(x))`, coefficients `(k0, k1, 0, 0)` -/
def acc2A (s : St2) (row : List Int) (x : Nat) (k : List Int) : St2 :=
  (g2 u16x1_avx2_one_l01_lo s.1 (src16 row x 2) k, g2 u16x1_avx2_one_l01_hi s.2 zeros [0, 0])

/-- `_mm256_set_epi64x(0, 0, 0, pixel)` times `_mm256_set1_epi64x(k as i64)` -/
def acc1A (s : St2) (row : List Int) (x : Nat) (k : Int) : St2 :=
  (add64 s.1 (mul2 (src16 row x 1) k k), add64 s.2 (mul2 zeros k k))

def loopA (row : List Int) : List Int → Nat → St2 → St2
  | k0 :: k1 :: k2 :: k3 :: k4 :: k5 :: k6 :: k7 :: k8 :: k9 :: k10 :: k11 :: k12 :: k13 :: k14 :: k15 :: ks, x, s => loopA row ks (x + 16) (acc16A s row x [k0, k1, k2, k3, k4, k5, k6, k7, k8, k9, k10, k11, k12, k13, k14, k15])
  | [k0, k1, k2, k3, k4, k5, k6, k7, k8, k9, k10, k11, k12, k13, k14], x, s => acc1A (acc2A (acc4A (acc8A s row (x + 0) [k0, k1, k2, k3, k4, k5, k6, k7]) row (x + 8) [k8, k9, k10, k11]) row (x + 12) [k12, k13]) row (x + 14) k14
  | [k0, k1, k2, k3, k4, k5, k6, k7, k8, k9, k10, k11, k12, k13], x, s => acc2A (acc4A (acc8A s row (x + 0) [k0, k1, k2, k3, k4, k5, k6, k7]) row (x + 8) [k8, k9, k10, k11]) row (x + 12) [k12, k13]
  | [k0, k1, k2, k3, k4, k5, k6, k7, k8, k9, k10, k11, k12], x, s => acc1A (acc4A (acc8A s row (x + 0) [k0, k1, k2, k3, k4, k5, k6, k7]) row (x + 8) [k8, k9, k10, k11]) row (x + 12) k12
  | [k0, k1, k2, k3, k4, k5, k6, k7, k8, k9, k10, k11], x, s => acc4A (acc8A s row (x + 0) [k0, k1, k2, k3, k4, k5, k6, k7]) row (x + 8) [k8, k9, k10, k11]
  | [k0, k1, k2, k3, k4, k5, k6, k7, k8, k9, k10], x, s => acc1A (acc2A (acc8A s row (x + 0) [k0, k1, k2, k3, k4, k5, k6, k7]) row (x + 8) [k8, k9]) row (x + 10) k10
  | [k0, k1, k2, k3, k4, k5, k6, k7, k8, k9], x, s => acc2A (acc8A s row (x + 0) [k0, k1, k2, k3, k4, k5, k6, k7]) row (x + 8) [k8, k9]
  | [k0, k1, k2, k3, k4, k5, k6, k7, k8], x, s => acc1A (acc8A s row (x + 0) [k0, k1, k2, k3, k4, k5, k6, k7]) row (x + 8) k8
  | [k0, k1, k2, k3, k4, k5, k6, k7], x, s => acc8A s row (x + 0) [k0, k1, k2, k3, k4, k5, k6, k7]
  | [k0, k1, k2, k3, k4, k5, k6], x, s => acc1A (acc2A (acc4A s row (x + 0) [k0, k1, k2, k3]) row (x + 4) [k4, k5]) row (x + 6) k6
  | [k0, k1, k2, k3, k4, k5], x, s => acc2A (acc4A s row (x + 0) [k0, k1, k2, k3]) row (x + 4) [k4, k5]
  | [k0, k1, k2, k3, k4], x, s => acc1A (acc4A s row (x + 0) [k0, k1, k2, k3]) row (x + 4) k4
  | [k0, k1, k2, k3], x, s => acc4A s row (x + 0) [k0, k1, k2, k3]
  | [k0, k1, k2], x, s => acc1A (acc2A s row (x + 0) [k0, k1]) row (x + 2) k2
  | [k0, k1], x, s => acc2A s row (x + 0) [k0, k1]
  | [k0], x, s => acc1A s row (x + 0) k0
  | [], _, s => s

def pixelA (p : Nat) (row : List Int) (start : Nat) (ks : List Int) : Int :=
  let s := loopA row ks start ([0, 0], [0, 0])
  (clip32 (wrap64 (wrap64 (wrap64 (wrap64 (s.1.getD 0 0 + s.1.getD 1 0) + s.2.getD 0 0) + s.2.getD 1 0) + wrap64 (2 ^ (p - 1)))) p : Int)

end Fir.SimdU16x1A
