/-
  Fir.Model.SimdU16x1 - lane-accurate model of the SSE4.1 horizontal kernels for single-channel 16-bit images
  (`horiz_convolution_one_row` / `horiz_convolution_four_rows` of src/convolution/u16x1/sse4.rs; the four-row kernel does
  per row what the one-row kernel does, with masks of other names that are proved equal in Fir.C02).

  Two 64-bit accumulators.  Pairs of pixels are moved into the low halves of the 64-bit lanes with `_mm_shuffle_epi8`
  (masks `l01 .. l67`, from the source), multiplied with a pair of `i32` coefficients (`_mm_set_epi64x(k[1] as i64, k[0] as i64)`)
  by `_mm_mul_epi32` (signed 32 x 32 -> 64) and added with `_mm_add_epi64`; steps of 8, 4, 2 coefficients and a last single one
  (`_mm_set_epi64x(0, pixel)`); the two lanes and `1 << (precision - 1)` are summed in `i64` and go through the portable
  `Normalizer32::clip`.
-/
import Fir.Model.SimdVertU16
namespace Fir.SimdU16x1
open Fir.Gen Fir.SimdU8x4 Fir.SimdVertU16

/-- a load of `n ≤ 8` pixels (16 bits each, little endian) at pixel `x`; the rest of the register is zero -/
def src16 (row : List Int) (x n : Nat) : List Int :=
  ((List.range n).flatMap fun i => [row.getD (x + i) 0 % 256, (row.getD (x + i) 0 / 256) % 256]) ++ List.replicate (16 - 2 * n) 0

/-- `_mm_mul_epi32(a, _mm_set_epi64x(k1 as i64, k0 as i64))` -/
def mul2 (a : List Int) (k0 k1 : Int) : List Int :=
  [wrap64 (s32 (a.getD 0 0) (a.getD 1 0) (a.getD 2 0) (a.getD 3 0) * wrap32 k0),
   wrap64 (s32 (a.getD 8 0) (a.getD 9 0) (a.getD 10 0) (a.getD 11 0) * wrap32 k1)]

def acc8 (s row : List Int) (x : Nat) (k : List Int) : List Int :=
  let source := src16 row x 8
  let s := add64 s (mul2 (pshufb source u16x1_sse4_l01) (k.getD 0 0) (k.getD 1 0))
  let s := add64 s (mul2 (pshufb source u16x1_sse4_l23) (k.getD 2 0) (k.getD 3 0))
  let s := add64 s (mul2 (pshufb source u16x1_sse4_l45) (k.getD 4 0) (k.getD 5 0))
  add64 s (mul2 (pshufb source u16x1_sse4_l67) (k.getD 6 0) (k.getD 7 0))

def acc4 (s row : List Int) (x : Nat) (k : List Int) : List Int :=
  let source := src16 row x 4
  let s := add64 s (mul2 (pshufb source u16x1_sse4_l01) (k.getD 0 0) (k.getD 1 0))
  add64 s (mul2 (pshufb source u16x1_sse4_l23) (k.getD 2 0) (k.getD 3 0))

def acc2 (s row : List Int) (x : Nat) (k : List Int) : List Int :=
  add64 s (mul2 (pshufb (src16 row x 2) u16x1_sse4_l01) (k.getD 0 0) (k.getD 1 0))

/-- `_mm_set_epi64x(0, pixel)` times `_mm_set_epi64x(0, k as i64)` -/
def acc1 (s row : List Int) (x : Nat) (k : Int) : List Int :=
  add64 s (mul2 (src16 row x 1) k 0)

/-- fewer than 8 coefficients: at most one 4-step, one 2-step and one single step -/
def tail (s row : List Int) (x : Nat) (ks : List Int) : List Int :=
  let (s, x, ks) := if ks.length ≥ 4 then (acc4 s row x (ks.take 4), x + 4, ks.drop 4) else (s, x, ks)
  let (s, x, ks) := if ks.length ≥ 2 then (acc2 s row x (ks.take 2), x + 2, ks.drop 2) else (s, x, ks)
  match ks with
  | k :: _ => acc1 s row x k
  | [] => s

def loop (row : List Int) (ks : List Int) (x : Nat) (s : List Int) : List Int :=
  if h : 8 ≤ ks.length then loop row (ks.drop 8) (x + 8) (acc8 s row x (ks.take 8))
  else tail s row x ks
termination_by ks.length
decreasing_by simp only [List.length_drop]; omega

/-- one destination pixel: `ll_buf[0] + ll_buf[1] + half_error` in `i64`, then `Normalizer32::clip` -/
def pixel (p : Nat) (row : List Int) (start : Nat) (ks : List Int) : Int :=
  let s := loop row ks start [0, 0]
  (clip32 (wrap64 (wrap64 (s.getD 0 0 + s.getD 1 0) + wrap64 (2 ^ (p - 1)))) p : Int)

/-- what the portable kernel accumulates -/
def dot16 (row : List Int) : List Int → Nat → Int
  | [], _ => 0
  | k :: ks, x => row.getD x 0 % 65536 * wrap32 k + dot16 row ks (x + 1)

end Fir.SimdU16x1
