/-
  Fir.Model.Alpha - per-pixel model of multiply_alpha / divide_alpha (src/alpha/*/native.rs).
  8/16-bit arithmetic is *the translated Rust code* (Fir.Gen.*), not a re-implementation.
-/
import Fir.Model.Basic
import Fir.Generated.Alpha
namespace Fir

open Fir.Gen

/-- f32 bit pattern helpers -/
def f32OfBits (b : Int) : Float32 := Float32.ofBits (UInt32.ofNat b.toNat)
def bitsOfF32 (f : Float32) : Int := (f.toBits.toNat : Int)

/-- `multiply_alpha` on one colour component (`a` = alpha of the same pixel) -/
def mulComp (k : CKind) (c a : Int) : Int :=
  match k with
  | .u8 => mul_div_255 c.toNat a.toNat
  | .u16 => mul_div_65535 c.toNat a.toNat
  | .f32 => bitsOfF32 (f32OfBits c * f32OfBits a)
  | .i32 => c

/-- `divide_alpha` on one colour component, portable path -/
def divComp (k : CKind) (c a : Int) : Int :=
  match k with
  | .u8 => div_and_clip c.toNat (recip_alpha a.toNat)
  | .u16 => div_and_clip16 c.toNat (recip_alpha16 a.toNat)
  | .f32 => if f32OfBits a == 0 then 0 else bitsOfF32 (f32OfBits c / f32OfBits a)
  | .i32 => c

/-- apply `f colour alpha` to every colour component of every pixel; alpha is the last component and
    is copied unchanged -/
def mapAlphaPixels (n : Nat) (f : Int → Int → Int) (px : Array Int) : Array Int :=
  Array.ofFn (n := px.size) fun i =>
    let j := i.val % n
    if j = n - 1 then px[i] else
      let a := px[i.val - j + (n - 1)]!
      f px[i] a

/-- float divide: the alpha of a pixel with alpha = 0 is written as `+0.0` by the two-image native
    path (`dst_pixel.0 = [0.; N]`) and kept by the in-place path; see `divAlphaF32Row` -/
def divPixelsF32TwoImage (n : Nat) (px : Array Int) : Array Int :=
  Array.ofFn (n := px.size) fun i =>
    let j := i.val % n
    let a := px[i.val - j + (n - 1)]!
    if f32OfBits a == 0 then (if j = n - 1 then px[i] else 0)
    else if j = n - 1 then px[i] else bitsOfF32 (f32OfBits px[i] / f32OfBits a)

def mulPixels (p : PixT) (px : Array Int) : Array Int := mapAlphaPixels p.n (mulComp p.kind) px
def divPixels (p : PixT) (px : Array Int) : Array Int := mapAlphaPixels p.n (divComp p.kind) px

end Fir
