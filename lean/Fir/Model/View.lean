/-
  Fir.Model.View - memory / container model (DESIGN 3.3).

  A buffer is a flat array of pixels; a container is a *view descriptor*.  `rows v start` lists, for
  every row the Rust iterator `iter_rows(start)` yields, the buffer indices of its pixels - exactly as
  src/images/typed_image.rs (`get(start*w .. h*w).chunks_exact(w)`) and
  src/images/typed_cropped_image.rs (`iter_rows(top+start).take(h-start)`, slice `[l, l+w)`) compute
  them.  Kernels of the model read and write only through `rows`.
-/
namespace Fir

inductive View where
  /-- TypedImage / TypedImageRef / Image / ImageRef: `w x h` pixels starting at pixel offset `off`
      of a buffer of `len` pixels (len ≥ w*h is what the constructors check) -/
  | typed (off w h len : Nat)
  /-- TypedCroppedImage(Mut) / CroppedImage(Mut) / split parts over another view -/
  | crop (inner : View) (l t w h : Nat)
  deriving Repr, Inhabited, DecidableEq

namespace View

def width : View → Nat
  | typed _ w _ _ => w
  | crop _ _ _ w _ => w

def height : View → Nat
  | typed _ _ h _ => h
  | crop _ _ _ _ h => h

/-- `[a, a+n)` -/
def seg (a n : Nat) : List Nat := (List.range n).map (a + ·)

/-- rows yielded by `iter_rows(start)` as lists of buffer indices -/
def rows : View → Nat → List (List Nat)
  | typed off w h _, start =>
      if w = 0 then [] else (List.range (h - start)).map fun r => seg (off + (start + r) * w) w
  | crop inner l t w h, start =>
      ((inner.rows (t + start)).take (h - start)).map fun row => (row.drop l).take w

/-- constructor check of a cropped view (the translated `check_crop_box` is proved equivalent in C04) -/
def cropValid (inner : View) (l t w h : Nat) : Bool :=
  l < inner.width && t < inner.height && l + w ≤ inner.width && t + h ≤ inner.height

/-- every crop in the descriptor passed its constructor's check and every typed view fits its buffer -/
def wf : View → Bool
  | typed _ w h len => decide (w * h ≤ len)
  | crop inner l t w h => inner.wf && cropValid inner l t w h

/-! ### splitting (src/image_view.rs, typed_image.rs, typed_cropped_image.rs) -/

/-- sizes of the parts: `n / k`, the first `n % k` parts one larger -/
def splitSizes (n k : Nat) : List Nat :=
  (List.range k).map fun i => n / k + (if i < n % k then 1 else 0)

/-- offsets of the parts relative to `start` -/
def splitOffsets (start n k : Nat) : List Nat :=
  (List.range k).map fun i => start + i * (n / k) + min i (n % k)

/-- `None` condition shared by all split functions (`num_parts > size || size > extent || start > extent - size`) -/
def splitRejected (extent start n k : Nat) : Bool :=
  k > n || n > extent || start > extent - n || n = 0 || k = 0

def splitH : View → Nat → Nat → Nat → Option (List View)
  | v@(typed off w _ _), start, n, k =>
      if splitRejected v.height start n k then none else
      some ((splitOffsets start n k).zip (splitSizes n k) |>.map fun (top, ph) => typed (off + top * w) w ph (ph * w))
  | v@(crop inner l t w _), start, n, k =>
      if splitRejected v.height start n k then none else
      (inner.splitH (start + t) n k).map fun ps => ps.map fun p => crop p l 0 w p.height

def splitW : View → Nat → Nat → Nat → Option (List View)
  | v@(typed _ _ h _), start, n, k =>
      if splitRejected v.width start n k then none else
      some ((splitOffsets start n k).zip (splitSizes n k) |>.map fun (left, pw) => crop v left 0 pw h)
  | v@(crop inner l t _ h), start, n, k =>
      if splitRejected v.width start n k then none else
      (inner.splitW (start + l) n k).map fun ps => ps.map fun p => crop p 0 t p.width h

end View
end Fir
