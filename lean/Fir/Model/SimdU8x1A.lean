/-
  Fir.Model.SimdU8x1A - lane-accurate model of the AVX2 horizontal kernels for single-channel 8-bit images
  (`horiz_convolution_one_row` / `horiz_convolution_four_rows` / `hsum_i32x8_avx2` / `hsum_epi32_avx` of
  src/convolution/u8x1/avx2.rs; the four-row kernel does per row what the one-row kernel does).

  Eight 32-bit lanes (two 128-bit halves of four), each started at `1 << (precision - 4)`.  A 16-step widens 16 pixels with
  `_mm256_cvtepu8_epi16` (pixels 0..7 in the low half, 8..15 in the high half) and multiplies them with 16 coefficients by
  `_mm256_madd_epi16` (per half: the SSE4.1 step `Fir.SimdU8x1.acc8`); at most one 8-step goes to the low half
  (`_mm256_set_m128i(zero, ..)`); the eight lanes are summed by `hsum_i32x8_avx2` (wrapping 32-bit additions), the last 0..7
  coefficients are handled in scalar code, and the result goes through the portable `Normalizer16::clip`.
-/
import Fir.Model.SimdU8x1
namespace Fir.SimdU8x1A
open Fir.Gen Fir.SimdU8x4 Fir.SimdU8x1

abbrev St := List Int × List Int

/-- 16 coefficients: the SSE4.1 8-step in each half -/
def acc16A (s : St) (row : List Int) (x : Nat) (k : List Int) : St :=
  (SimdU8x1.acc8 s.1 row x (k.take 8), SimdU8x1.acc8 s.2 row (x + 8) (k.drop 8))

/-- 8 coefficients: `_mm256_set_m128i(zero, _mm_madd_epi16(..))` - the high half gains zero -/
def acc8A (s : St) (row : List Int) (x : Nat) (k : List Int) : St :=
  (SimdU8x1.acc8 s.1 row x k, add32 s.2 [0, 0, 0, 0])

/-- `for k in coeffs_by_16` -/
def loopA (row : List Int) (ks : List Int) (x : Nat) (s : St) : St × Nat × List Int :=
  if h : 16 ≤ ks.length then loopA row (ks.drop 16) (x + 16) (acc16A s row x (ks.take 16))
  else (s, x, ks)
termination_by ks.length
decreasing_by simp only [List.length_drop]; omega

/-- `hsum_i32x8_avx2`: `sum128 = lo + hi`; `hsum_epi32_avx`: `sum64 = [x0 + x2, x1 + x3, ..]`, `sum32[0] = sum64[0] + sum64[1]` -/
def hsum (s : St) : Int :=
  let sum128 := add32 s.1 s.2
  let sum64_0 := wrap32 (sum128.getD 2 0 + sum128.getD 0 0)
  let sum64_1 := wrap32 (sum128.getD 3 0 + sum128.getD 1 0)
  wrap32 (sum64_0 + sum64_1)

/-- one destination pixel -/
def pixelA (p : Nat) (row : List Int) (start : Nat) (ks : List Int) : Int :=
  let i := wrap32 (2 ^ (p - 4))
  let r := loopA row ks start ([i, i, i, i], [i, i, i, i])
  let (s, x, rest) := (r.1, r.2.1, r.2.2)
  let (s, x, rest) := if rest.length ≥ 8 then (acc8A s row x (rest.take 8), x + 8, rest.drop 8) else (s, x, rest)
  (clip8_table (clip16_index (scalar row rest x (hsum s)) p) : Int)

end Fir.SimdU8x1A
