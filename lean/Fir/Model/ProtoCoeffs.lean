/-
  Fir.Model.ProtoCoeffs - L1 correspondence: the implementation's own coefficients (through the hook)
  against the model's Float mirror, bit for bit, plus the per-window facts the theorems take as
  hypotheses (QuantOK for C10, non-negativity for C18, window inside the source and precision inside
  the dispatch arms for C03).

  coeffs in=<n> in0=<f64 hex> in1=<f64 hex> out=<n> filter=<name> adaptive=0|1
         ws=<window_size> bounds=<start>:<size>,... vals=<f64 hex>,...   (vals: window_size per output sample)
         p16=<precision> q16=<k,k,..|k,k,..|..>  p32=<precision> q32=<...>
-/
import Fir.Model.Filters
import Fir.Model.ProtoGeom
import Fir.Generated.Constify
import Fir.Model.RatOfFloat
import Fir.Spec.IdealFilter
namespace Fir

def parseIntList (s : String) : List Int := if s.isEmpty then [] else (s.splitOn ",").filterMap String.toInt?

def parseChunks (s : String) : Array (Array Int) :=
  if s.isEmpty then #[] else ((s.splitOn "|").map fun c => (parseIntList c).toArray).toArray

def quantOKb (ks : Array Int) (p : Nat) (m : Int) : Bool :=
  let d := ks.foldl (· + ·) 0 - 2 ^ p
  let a := if d < 0 then -d else d
  m * a < 2 ^ (p - 1)


def qabsR (x : Rat) : Rat := if x < 0 then -x else x

/-- exact value of the implementation's weight `j` of window `o` as `m / 2^e` -/
def implWeight (ws : Nat) (vals : Array Nat) (o j : Nat) : Option (Int × Nat) :=
  dyadicOfF64 (Float.ofBits (UInt64.ofNat (vals.getD (o * ws + j) 0)))

def iabs (x : Int) : Int := if x < 0 then -x else x

/-- hypothesis `hq` of `C01.pass_err` / `C10.quantOK_of_rounded_weights`, discharged on the implementation's own numbers:
    every integer coefficient is within 1/2 of (its f64 weight, taken as an exact rational) · 2^p,
    i.e. `2·|k·2^e − m·2^p| ≤ 2^e` for the weight `m / 2^e` -/
def hqCheck (ws : Nat) (bounds : Array (Nat × Nat)) (vals : Array Nat) (p : Nat) (q : Array (Array Int)) : Option String := Id.run do
  if bounds.foldl (fun a b => a + b.2) 0 > 3000 then return none
  for o in [0:q.size] do
    let ks := q[o]!
    for j in [0:ks.size] do
      match implWeight ws vals o j with
      | none => return some s!"weight ({o},{j}) is not finite"
      | some (m, e) =>
        if 2 * iabs (ks[j]! * ((2 ^ e : Nat) : Int) - m * ((2 ^ p : Nat) : Int)) > ((2 ^ e : Nat) : Int) then
          return some s!"coefficient ({o},{j}) = {ks[j]!} is not a rounding of its weight at precision {p}"
  return none

/-- the implementation's f64 weights against the ideal weights of `Fir.Spec.idealWeights` (exact rationals) for the
    polynomial kernels: every tap within 1e-9, taps outside the common window below 1e-9, and the weights of every
    window sum to 1 within 1e-9.  Box windows with a tap within 1e-9 of the kernel's discontinuity are skipped.
    Returns (failure, number of windows compared). -/
def idealCheck (inSize : Nat) (in0 in1 : Float) (outSize : Nat) (fname : String) (adaptive : Bool) (ws : Nat)
    (bounds : Array (Nat × Nat)) (vals : Array Nat) : Option String × Nat := Id.run do
  match Spec.qFilterOfName fname, ratOfF64 in0, ratOfF64 in1 with
  | some qf, some r0, some r1 =>
    let total := bounds.foldl (fun a b => a + b.2) 0
    if total > 3000 ∨ outSize = 0 ∨ r1 ≤ r0 then return (none, 0)
    let tol : Rat := 1 / 1000000000
    let mut compared := 0
    for o in [0:bounds.size] do
      let (start, size) := bounds[o]!
      let (xmin, n, c, fscale) := Spec.idealGeom inSize r0 r1 outSize qf.support adaptive o
      if fname == "box" then
        -- discontinuous kernel: float noise decides taps that sit on the edge of the box
        let edge := (List.range (n + 2)).any fun i =>
          let a := ((((xmin + i : Nat) : Rat) - 1) - c) / fscale
          qabsR (qabsR a - 1 / 2) < tol
        if edge then continue
      let (s, iw) := Spec.idealWeights inSize r0 r1 outSize qf adaptive o
      let iwa := iw.toArray
      let lo := min s start
      let hi := max (s + iwa.size) (start + size)
      for i in [lo:hi] do
        let (am, ae) : Int × Nat := if start ≤ i ∧ i < start + size then (implWeight ws vals o (i - start)).getD (0, 0) else (0, 0)
        let b : Rat := if s ≤ i ∧ i < s + iwa.size then iwa[i - s]! else 0
        -- |am/2^ae − num/den| ≤ 1e-9  ⟺  |am·den − num·2^ae|·10^9 ≤ den·2^ae
        let pw : Int := ((2 ^ ae : Nat) : Int)
        if iabs (am * (b.den : Int) - b.num * pw) * 1000000000 > (b.den : Int) * pw then
          return (some s!"window {o}, source index {i}: weight {Float.ofBits (UInt64.ofNat (vals.getD (o * ws + (i - start)) 0))} differs from the ideal weight {b}", compared)
      compared := compared + 1
    return (none, compared)
  | _, _, _ => return (none, 0)

/-- partition of unity on the implementation's own f64 weights (exact rational sum), every built-in filter:
    the weights of each window sum to 1 within 1e-9 -/
def sumCheck (fname : String) (ws : Nat) (bounds : Array (Nat × Nat)) (vals : Array Nat) : Option String := Id.run do
  if fname.startsWith "custom" then return none
  if bounds.foldl (fun a b => a + b.2) 0 > 3000 then return none
  for o in [0:bounds.size] do
    let (_, size) := bounds[o]!
    -- common exponent 1100 (weights are far from the subnormal range; smaller exponents are scaled up exactly)
    let mut sum : Int := 0
    let mut exact := true
    for j in [0:size] do
      match implWeight ws vals o j with
      | some (m, e) => if e ≤ 1100 then sum := sum + m * ((2 ^ (1100 - e) : Nat) : Int) else if m ≠ 0 then exact := false
      | none => exact := false
    let one : Int := ((2 ^ 1100 : Nat) : Int)
    if size > 0 ∧ (¬ exact ∨ iabs (sum - one) * 1000000000 > one) then return some s!"window {o}: the f64 weights do not sum to 1 within 1e-9"
  return none

def handleCoeffs (fs : List (String × String)) : String :=
  match getNat fs "in", (getField fs "in0").bind f64OfHex, (getField fs "in1").bind f64OfHex, getNat fs "out",
        getField fs "filter", getNat fs "adaptive", getNat fs "ws", getField fs "bounds", getField fs "vals",
        getNat fs "p16", getField fs "q16", getNat fs "p32", getField fs "q32" with
  | some inSize, some in0, some in1, some outSize, some fname, some adaptive, some ws, some boundsS, some valsS,
    some p16, some q16S, some p32, some q32S =>
    match filterOfName fname with
    | none => "BAD-REQUEST filter"
    | some flt =>
      let c := precomputeCoefficients inSize in0 in1 outSize flt (adaptive == 1)
      let gotBounds : Array (Nat × Nat) := if boundsS.isEmpty then #[] else
        ((boundsS.splitOn ",").filterMap fun b => match b.splitOn ":" with
          | [a, b] => match a.toNat?, b.toNat? with | some a, some b => some (a, b) | _, _ => none
          | _ => none).toArray
      let gotVals : Array Nat := if valsS.isEmpty then #[] else ((valsS.splitOn ",").filterMap parseHexNat).toArray
      let q16 := normalize16 c
      let q32 := normalize32 c
      let g16 := parseChunks q16S
      let g32 := parseChunks q32S
      let m : Option String :=
        if ws ≠ c.windowSize then some s!"window_size model={c.windowSize} got={ws}"
        else if gotBounds ≠ c.bounds then some s!"bounds differ (model {c.bounds.size} windows, got {gotBounds.size})"
        else if gotVals.size ≠ c.values.size then some s!"values size model={c.values.size} got={gotVals.size}"
        else match (Array.range gotVals.size).find? fun i => gotVals[i]! ≠ c.values[i]!.toBits.toNat with
          | some i => some s!"weight {i}: model={c.values[i]!} got bits {gotVals[i]!}"
          | none =>
            if p16 ≠ q16.precision then some s!"precision16 model={q16.precision} got={p16}"
            else if g16 ≠ q16.chunks.map (·.2) then some "quantised i16 coefficients differ"
            else if p32 ≠ q32.precision then some s!"precision32 model={q32.precision} got={p32}"
            else if g32 ≠ q32.chunks.map (·.2) then some "quantised i32 coefficients differ"
            else match hqCheck ws gotBounds gotVals p16 g16 with
              | some e => some ("hypothesis hq (16-bit coefficients): " ++ e)
              | none => match hqCheck ws gotBounds gotVals p32 g32 with
                | some e => some ("hypothesis hq (32-bit coefficients): " ++ e)
                | none => none
      -- facts the theorems take as hypotheses, judged on the implementation's own numbers
      let nonnegFilter := fname == "box" || fname == "bilinear" || fname == "hamming" || fname == "gaussian"
      let s : Option String := Id.run do
        for b in gotBounds do
          if b.1 + b.2 > inSize then return some s!"window [{b.1}, {b.1 + b.2}) leaves the source of size {inSize}"
          if b.2 > ws then return some s!"window of {b.2} taps exceeds window_size {ws}"
          if b.2 = 0 then return some "empty window"
        if ¬ (Gen.constify_arms.contains p16) then return some s!"precision {p16} has no dispatch arm"
        if p16 < 4 ∨ p32 < 4 then return some "precision below 4"
        if p16 ≥ Gen.PRECISION_BITS ∨ p32 ≥ Gen.PRECISION16_BITS then return some s!"precision {p16} / {p32} leaves less than the two documented head-room bits"
        for ks in g16 do
          if ¬ quantOKb ks p16 255 then return some s!"QuantOK fails for an i16 window: sum {ks.foldl (· + ·) 0} at precision {p16}"
          if nonnegFilter ∧ ks.any (· < 0) then return some "negative i16 coefficient for a non-negative filter"
          let sabs := ks.foldl (fun a k => a + (if k < 0 then -k else k)) 0
          if sabs ≥ 4 * 2 ^ p16 then return some "sum |k| outside the two head-room bits"
        for ks in g32 do
          if ¬ quantOKb ks p32 65535 then return some s!"QuantOK fails for an i32 window: sum {ks.foldl (· + ·) 0} at precision {p32}"
          if nonnegFilter ∧ ks.any (· < 0) then return some "negative i32 coefficient for a non-negative filter"
        match (idealCheck inSize in0 in1 outSize fname (adaptive == 1) ws gotBounds gotVals).1 with
        | some e => return some e
        | none => return sumCheck fname ws gotBounds gotVals
      match m, s with
      | none, none => s!"OK ideal-windows={(idealCheck inSize in0 in1 outSize fname (adaptive == 1) ws gotBounds gotVals).2}"
      | some m, none => "MODEL-DIFF " ++ m
      | none, some s => "SPEC-FAIL " ++ s
      | some m, some s => "MODEL-DIFF " ++ m ++ " ; SPEC-FAIL " ++ s
  | _, _, _, _, _, _, _, _, _, _, _, _, _ => "BAD-REQUEST fields"

end Fir
