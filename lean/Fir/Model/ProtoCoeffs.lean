/-
  Fir.Model.ProtoCoeffs - L1 correspondence: the implementation's own coefficients (through the hook)
  against the model's Float mirror, bit for bit, plus the per-window facts the theorems take as
  hypotheses (QuantOK for C10, non-negativity for C18, window inside the source and precision inside
  the dispatch arms for C03).

  coeffs in=<n> in0=<f64 hex> in1=<f64 hex> out=<n> filter=<name> adaptive=0|1
         ws=<window_size> bounds=<start>:<size>,... vals=<f64 hex>,...   (vals: window_size per output sample)
         p16=<precision> q16=<k,k,..|k,k,..|..>  p32=<precision> q32=<...>
-/
import Fir.Model.Filters
import Fir.Model.ProtoGeom
import Fir.Generated.Constify
namespace Fir

def parseIntList (s : String) : List Int := if s.isEmpty then [] else (s.splitOn ",").filterMap String.toInt?

def parseChunks (s : String) : Array (Array Int) :=
  if s.isEmpty then #[] else ((s.splitOn "|").map fun c => (parseIntList c).toArray).toArray

def quantOKb (ks : Array Int) (p : Nat) (m : Int) : Bool :=
  let d := ks.foldl (· + ·) 0 - 2 ^ p
  let a := if d < 0 then -d else d
  m * a < 2 ^ (p - 1)

def handleCoeffs (fs : List (String × String)) : String :=
  match getNat fs "in", (getField fs "in0").bind f64OfHex, (getField fs "in1").bind f64OfHex, getNat fs "out",
        getField fs "filter", getNat fs "adaptive", getNat fs "ws", getField fs "bounds", getField fs "vals",
        getNat fs "p16", getField fs "q16", getNat fs "p32", getField fs "q32" with
  | some inSize, some in0, some in1, some outSize, some fname, some adaptive, some ws, some boundsS, some valsS,
    some p16, some q16S, some p32, some q32S =>
    match filterOfName fname with
    | none => "BAD-REQUEST filter"
    | some flt =>
      let c := precomputeCoefficients inSize in0 in1 outSize flt (adaptive == 1)
      let gotBounds : Array (Nat × Nat) := if boundsS.isEmpty then #[] else
        ((boundsS.splitOn ",").filterMap fun b => match b.splitOn ":" with
          | [a, b] => match a.toNat?, b.toNat? with | some a, some b => some (a, b) | _, _ => none
          | _ => none).toArray
      let gotVals : Array Nat := if valsS.isEmpty then #[] else ((valsS.splitOn ",").filterMap parseHexNat).toArray
      let q16 := normalize16 c
      let q32 := normalize32 c
      let g16 := parseChunks q16S
      let g32 := parseChunks q32S
      let m : Option String :=
        if ws ≠ c.windowSize then some s!"window_size model={c.windowSize} got={ws}"
        else if gotBounds ≠ c.bounds then some s!"bounds differ (model {c.bounds.size} windows, got {gotBounds.size})"
        else if gotVals.size ≠ c.values.size then some s!"values size model={c.values.size} got={gotVals.size}"
        else match (Array.range gotVals.size).find? fun i => gotVals[i]! ≠ c.values[i]!.toBits.toNat with
          | some i => some s!"weight {i}: model={c.values[i]!} got bits {gotVals[i]!}"
          | none =>
            if p16 ≠ q16.precision then some s!"precision16 model={q16.precision} got={p16}"
            else if g16 ≠ q16.chunks.map (·.2) then some "quantised i16 coefficients differ"
            else if p32 ≠ q32.precision then some s!"precision32 model={q32.precision} got={p32}"
            else if g32 ≠ q32.chunks.map (·.2) then some "quantised i32 coefficients differ"
            else none
      -- facts the theorems take as hypotheses, judged on the implementation's own numbers
      let nonnegFilter := fname == "box" || fname == "bilinear" || fname == "hamming" || fname == "gaussian"
      let s : Option String := Id.run do
        for b in gotBounds do
          if b.1 + b.2 > inSize then return some s!"window [{b.1}, {b.1 + b.2}) leaves the source of size {inSize}"
          if b.2 > ws then return some s!"window of {b.2} taps exceeds window_size {ws}"
          if b.2 = 0 then return some "empty window"
        if ¬ (Gen.constify_arms.contains p16) then return some s!"precision {p16} has no dispatch arm"
        if p16 < 4 ∨ p32 < 4 then return some "precision below 4"
        if p16 ≥ Gen.PRECISION_BITS ∨ p32 ≥ Gen.PRECISION16_BITS then return some s!"precision {p16} / {p32} leaves less than the two documented head-room bits"
        for ks in g16 do
          if ¬ quantOKb ks p16 255 then return some s!"QuantOK fails for an i16 window: sum {ks.foldl (· + ·) 0} at precision {p16}"
          if nonnegFilter ∧ ks.any (· < 0) then return some "negative i16 coefficient for a non-negative filter"
          let sabs := ks.foldl (fun a k => a + (if k < 0 then -k else k)) 0
          if sabs ≥ 4 * 2 ^ p16 then return some "sum |k| outside the two head-room bits"
        for ks in g32 do
          if ¬ quantOKb ks p32 65535 then return some s!"QuantOK fails for an i32 window: sum {ks.foldl (· + ·) 0} at precision {p32}"
          if nonnegFilter ∧ ks.any (· < 0) then return some "negative i32 coefficient for a non-negative filter"
        return none
      match m, s with
      | none, none => "OK"
      | some m, none => "MODEL-DIFF " ++ m
      | none, some s => "SPEC-FAIL " ++ s
      | some m, some s => "MODEL-DIFF " ++ m ++ " ; SPEC-FAIL " ++ s
  | _, _, _, _, _, _, _, _, _, _, _, _, _ => "BAD-REQUEST fields"

end Fir
